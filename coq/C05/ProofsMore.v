(* C05 proofs, part 2: guard = documented precondition for ALL arguments — static_set range constructor,
   null-pointer guards, linalg extents compatibility, layout_stride::stride, bitset string constructor. *)
From Tetl Require Import Lib.Base C05.Model C05.Spec C05.Proofs C05.ModelMore C05.SpecMore.
From Coq Require Import ZifyBool.
Local Open Scope Z_scope.
Ltac Zify.zify_post_hook ::= Z.to_euclidean_division_equations.

(** static_set(first, last): d is any ptrdiff_t value; the cast of a negative d to size_type is never reached *)
Lemma static_set_ctor_exact cap d : - 9223372036854775808 <= d < 9223372036854775808 ->
  static_set_ctor cap d = pre_range_fits cap d.
Proof.
  intros Hd. unfold static_set_ctor, pre_range_fits.
  destruct (Z_lt_le_dec d 0) as [Hneg|Hpos].
  - replace (d >=? 0) with false by lia. replace (0 <=? d) with false by lia. reflexivity.
  - rewrite (u64_id d) by (unfold is_size_t, two64; lia).
    replace (d >=? 0) with true by lia. replace (0 <=? d) with true by lia. reflexivity.
Qed.

Lemma copy_ptrs_guard_exact d s : copy_ptrs_guard d s = pre_both_nonnull d s.
Proof. reflexivity. Qed.

(** extents comparison *)
Lemma extents_eq_iff : forall a b, extents_eq a b = true <-> pre_same_extents a b.
Proof.
  unfold pre_same_extents. induction a as [|x a IH]; intros [|y b]; cbn [extents_eq].
  - split; reflexivity.
  - split; discriminate.
  - split; discriminate.
  - destruct (x =? y) eqn:E; cbn [negb].
    + rewrite IH. split; [intros ->; f_equal; lia|intros H; inversion H; reflexivity].
    + split; [discriminate|intros H; inversion H; lia].
Qed.

Lemma extents_eq_false_iff a b : extents_eq a b = false <-> ~ pre_same_extents a b.
Proof.
  pose proof (extents_eq_iff a b) as H. destruct (extents_eq a b).
  - split; [discriminate|intros N; exfalso; apply N; apply H; reflexivity].
  - split; [intros _ E; apply H in E; discriminate|reflexivity].
Qed.

Lemma linalg_add_guard_iff x y z : linalg_add_guard x y z = true <-> (pre_same_extents x y /\ pre_same_extents x z).
Proof. unfold linalg_add_guard. rewrite andb_true_iff, !extents_eq_iff. reflexivity. Qed.

Lemma linalg_mvp_guard_iff a0 a1 x0 y0 : linalg_mvp_guard a0 a1 x0 y0 = true <-> pre_mvp a0 a1 x0 y0.
Proof. unfold linalg_mvp_guard, pre_mvp. lia. Qed.

Lemma layout_stride_stride_exact rank i : is_size_t i -> layout_stride_stride_guard rank i = pre_index rank i.
Proof. apply layout_stride_exact. Qed.

(** bitset string constructor: the index loop over str[pos + i] is the test of the rlen characters from pos *)
Lemma forallb_map_comp {A B} (f : B -> bool) (g : A -> B) l : forallb f (map g l) = forallb (fun x => f (g x)) l.
Proof. induction l as [|x l IH]; [reflexivity|]. cbn [map forallb]. rewrite IH. reflexivity. Qed.

Lemma forallb_firstn_seq (f : Z -> bool) : forall (l : list Z) (k : nat), (k <= length l)%nat ->
  forallb f (firstn k l) = forallb (fun i => f (nth i l 0)) (seq 0 k).
Proof.
  induction l as [|x l IH]; intros k Hk.
  - cbn [length] in Hk. replace k with O by lia. reflexivity.
  - destruct k as [|k]; [reflexivity|]. cbn [firstn forallb seq nth]. f_equal.
    rewrite IH by (cbn [length] in Hk; lia). rewrite <- seq_shift. rewrite forallb_map_comp. reflexivity.
Qed.

Lemma forallb_ext_in {A} (f g : A -> bool) l : (forall x, In x l -> f x = g x) -> forallb f l = forallb g l.
Proof.
  induction l as [|x l IH]; intros H; [reflexivity|]. cbn [forallb].
  rewrite (H x (or_introl eq_refl)). f_equal. apply IH. intros y Hy. apply H. right. exact Hy.
Qed.

Lemma nth_skipn_add {A} (d : A) : forall p (l : list A) i, nth i (skipn p l) d = nth (p + i) l d.
Proof.
  induction p as [|p IH]; intros l i; [reflexivity|].
  destruct l as [|x l]; [cbn [skipn]; destruct i; reflexivity|]. cbn [skipn Nat.add nth]. apply IH.
Qed.

Lemma bitset_str_guard_exact str pos n zero one :
  slen str < two64 -> is_size_t pos -> is_size_t n ->
  bitset_str_guard str pos n zero one = pre_bitset_str str pos n zero one.
Proof.
  intros Hs Hp Hn. unfold bitset_str_guard, pre_bitset_str, zlen, slen in *.
  rewrite (u64_id pos Hp), (u64_id n Hn).
  destruct (pos <=? Z.of_nat (length str)) eqn:E; cbn [andb]; [|reflexivity].
  unfold is_size_t, two64 in *.
  rewrite (u64_id (Z.of_nat (length str) - pos)) by (unfold is_size_t, two64; lia).
  set (size := Z.of_nat (length str)) in *.
  assert (Hlen : (if size - pos <? n then size - pos else n) = Z.min n (size - pos)).
  { destruct (size - pos <? n) eqn:E2; lia. }
  rewrite Hlen. set (k := Z.to_nat (Z.min n (size - pos))).
  assert (Hk : (k <= length (skipn (Z.to_nat pos) str))%nat) by (rewrite skipn_length; subst k size; lia).
  rewrite (forallb_firstn_seq _ _ _ Hk).
  apply forallb_ext_in. intros i Hi. apply in_seq in Hi.
  rewrite nth_skipn_add.
  assert (Hi2 : Z.of_nat i < size - pos) by (subst k; lia).
  rewrite (u64_id (pos + Z.of_nat i)) by (unfold is_size_t, two64; lia).
  replace (Z.to_nat (pos + Z.of_nat i)) with (Z.to_nat pos + i)%nat by lia. reflexivity.
Qed.

(** the site functions refine the guards: site 0 = let through; site 1 = the first documented clause fails *)
Lemma static_set_ctor_site_spec cap d :
  (static_set_ctor_site cap d = 0%nat <-> static_set_ctor cap d = true) /\ (static_set_ctor_site cap d = 1%nat <-> d < 0).
Proof.
  unfold static_set_ctor_site, static_set_ctor. destruct (d >=? 0) eqn:E; cbn [andb].
  - destruct (u64 d <=? cap); split; split; intros H; try discriminate; try reflexivity; lia.
  - split; split; intros H; try discriminate; try reflexivity; lia.
Qed.

Lemma copy_ptrs_site_spec d s :
  (copy_ptrs_site d s = 0%nat <-> copy_ptrs_guard d s = true) /\ (copy_ptrs_site d s = 1%nat <-> d = false).
Proof. destruct d, s; cbn; split; split; intros H; try discriminate; reflexivity. Qed.

Lemma linalg_add_site_spec x y z :
  (linalg_add_site x y z = 0%nat <-> linalg_add_guard x y z = true) /\ (linalg_add_site x y z = 1%nat <-> ~ pre_same_extents x y).
Proof.
  unfold linalg_add_site, linalg_add_guard. rewrite <- extents_eq_false_iff.
  destruct (extents_eq x y), (extents_eq x z); cbn; split; split; intros H; try discriminate; reflexivity.
Qed.

Lemma linalg_mvp_site_spec a0 a1 x0 y0 :
  (linalg_mvp_site a0 a1 x0 y0 = 0%nat <-> linalg_mvp_guard a0 a1 x0 y0 = true) /\ (linalg_mvp_site a0 a1 x0 y0 = 1%nat <-> a1 <> x0).
Proof.
  unfold linalg_mvp_site, linalg_mvp_guard. destruct (a1 =? x0) eqn:E1, (a0 =? y0) eqn:E2; cbn; split; split; intros H; try discriminate; try reflexivity; lia.
Qed.

Lemma bitset_str_site_spec str pos n zero one : is_size_t pos ->
  (bitset_str_site str pos n zero one = 0%nat <-> bitset_str_guard str pos n zero one = true) /\
  (bitset_str_site str pos n zero one = 1%nat <-> pos > slen str).
Proof.
  intros Hp. unfold bitset_str_site. pose proof (u64_id pos Hp) as Hu.
  destruct (u64 pos <=? zlen str) eqn:E.
  - destruct (bitset_str_guard str pos n zero one); split; split; intros H; try discriminate; try reflexivity;
      unfold zlen, slen in *; lia.
  - assert (G : bitset_str_guard str pos n zero one = false) by (unfold bitset_str_guard; rewrite E; reflexivity).
    rewrite G. split; split; intros H; try discriminate; try reflexivity. unfold zlen, slen in *; lia.
Qed.

Lemma span_subspan_site_spec n off c : is_size_t off ->
  (span_subspan_site n off c = 0%nat <-> span_subspan n off c = true) /\ (span_subspan_site n off c = 1%nat <-> off > n).
Proof.
  intros Ho. unfold span_subspan_site. pose proof (u64_id off Ho) as Hu.
  destruct (u64 off <=? n) eqn:E.
  - destruct (span_subspan n off c); split; split; intros H; try discriminate; try reflexivity; lia.
  - assert (G : span_subspan n off c = false) by (unfold span_subspan; rewrite E; reflexivity).
    rewrite G. split; split; intros H; try discriminate; try reflexivity. lia.
Qed.

(** erase(first, last) / replace(first, last, ...) of inplace_string: the two size_t comparisons on the converted
    iterator differences say exactly "[first, last) is a range of the string", for every pair of ptrdiff_t values *)
Lemma str_iter_range_guard_exact size a d : 0 <= size < 2 ^ 62 ->
  - 2 ^ 63 <= a < 2 ^ 63 -> - 2 ^ 63 <= d < 2 ^ 63 ->
  str_iter_range_guard size a d = pre_iter_range size a d.
Proof.
  intros Hs Ha Hd. unfold str_iter_range_guard, pre_iter_range, u64, wrapu.
  change (2 ^ 64) with 18446744073709551616. change (2 ^ 63) with 9223372036854775808 in *.
  change (2 ^ 62) with 4611686018427387904 in *.
  destruct (Z_lt_le_dec a 0) as [An|Ap].
  - replace (0 <=? a) with false by lia. cbn [andb].
    assert (E : a mod 18446744073709551616 = a + 18446744073709551616) by (symmetry; apply (Z.mod_unique _ _ (-1)); lia).
    rewrite E. replace (a + 18446744073709551616 <=? size) with false by lia. reflexivity.
  - replace (0 <=? a) with true by lia. cbn [andb]. rewrite (Z.mod_small a) by lia.
    destruct (a <=? size) eqn:E1; cbn [andb].
    + rewrite (Z.mod_small (size - a)) by lia.
      destruct (Z_lt_le_dec d 0) as [Dn|Dp].
      * replace (0 <=? d) with false by lia. cbn [andb].
        assert (E : d mod 18446744073709551616 = d + 18446744073709551616) by (symmetry; apply (Z.mod_unique _ _ (-1)); lia).
        rewrite E. lia.
      * replace (0 <=? d) with true by lia. cbn [andb]. rewrite (Z.mod_small d) by lia. lia.
    + destruct (0 <=? d) eqn:E2; cbn [andb]; lia.
Qed.

Lemma str_iter_range_site_spec size a d : 0 <= size < 2 ^ 62 -> - 2 ^ 63 <= a < 2 ^ 63 ->
  (str_iter_range_site size a d = 0%nat <-> str_iter_range_guard size a d = true) /\
  (str_iter_range_site size a d = 1%nat <-> ~ (0 <= a <= size)).
Proof.
  intros Hs Ha. unfold str_iter_range_site, str_iter_range_guard, u64, wrapu.
  change (2 ^ 64) with 18446744073709551616. change (2 ^ 63) with 9223372036854775808 in *.
  change (2 ^ 62) with 4611686018427387904 in *.
  assert (E : (a mod 18446744073709551616 <=? size) = true <-> 0 <= a <= size).
  { destruct (Z_lt_le_dec a 0) as [An|Ap].
    - assert (E : a mod 18446744073709551616 = a + 18446744073709551616) by (symmetry; apply (Z.mod_unique _ _ (-1)); lia).
      rewrite E. lia.
    - rewrite (Z.mod_small a) by lia. lia. }
  destruct (a mod 18446744073709551616 <=? size) eqn:E1; cbn [andb].
  - destruct (d mod 18446744073709551616 <=? (size - a mod 18446744073709551616) mod 18446744073709551616);
      split; split; intros H; try discriminate; try reflexivity; try (exfalso; apply H; apply E; reflexivity).
  - split; split; intros H; try discriminate; try reflexivity. intros K. apply E in K. discriminate.
Qed.
