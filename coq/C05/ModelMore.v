(* C05 model, part 2: the guards of the remaining components, as the headers write them (size_t arithmetic
   wraps modulo 2^64 — [u64] —, ptrdiff_t values are signed, comparisons of extents are mathematically exact
   (etl::cmp_not_equal)).  [true] = the call is let through, [false] = a TETL_PRECONDITION fires.
   The inplace_string guards are not repeated here: they live in the buffer-level model of C04
   (coq/C04/Model.v, ModelQ.v) — see ProofsString.v / Properties_string.v. *)
From Tetl Require Import Lib.Base C05.Model.
Local Open Scope Z_scope.

(** _set/static_set.hpp:73-74  static_set(first, last) with random access iterators, d = last - first (ptrdiff_t):
      TETL_PRECONDITION(last - first >= 0);
      TETL_PRECONDITION(static_cast<size_type>(last - first) <= max_size());                                  *)
Definition static_set_ctor (cap d : Z) : bool := (d >=? 0) && (u64 d <=? cap).

(** _cstring/strncpy.hpp, _cwchar/wcscpy.hpp, _cwchar/wcsncpy.hpp: dest != nullptr; src != nullptr
    ([nonnull2] of Model.v, arguments: "is not null") *)
Definition copy_ptrs_guard (dest_nonnull src_nonnull : bool) : bool := nonnull2 dest_nonnull src_nonnull.

(** _mdspan/extents.hpp:140  operator==(extents, extents): ranks differ -> false; else the first i with
    cmp_not_equal(lhs.extent(i), rhs.extent(i)) -> false; else true.  An extents object is the list of its extents *)
Fixpoint extents_eq (a b : list Z) : bool :=
  match a, b with
  | [], [] => true
  | x :: a', y :: b' => if negb (x =? y) then false else extents_eq a' b'
  | _, _ => false
  end.

(** _linalg/blas1_copy.hpp:17, blas1_swap_elements.hpp:18: x.extents() == y.extents()
    _linalg/blas1_add.hpp:17-18: x.extents() == y.extents(); x.extents() == z.extents() *)
Definition linalg_copy_guard (x y : list Z) : bool := extents_eq x y.
Definition linalg_swap_guard (x y : list Z) : bool := extents_eq x y.
Definition linalg_add_guard (x y z : list Z) : bool := extents_eq x y && extents_eq x z.
(** _linalg/blas2_matrix_vector_product.hpp:16-17: a.extent(1) == x.extent(0); a.extent(0) == y.extent(0)
    (index_type values of one type: compared as they are) *)
Definition linalg_mvp_guard (a0 a1 x0 y0 : Z) : bool := (a1 =? x0) && (a0 =? y0).

(** _mdspan/layout_stride.hpp:71  mapping::stride(i): i < extents_type::rank()  (rank_type = size_t) *)
Definition layout_stride_stride_guard (rank i : Z) : bool := layout_stride_guard rank i.

(** _bitset/bitset.hpp:65-69  bitset(string_view str, pos, n, zero, one):
      TETL_PRECONDITION(pos <= str.size());
      len = min(n, str.size() - pos);
      for (i = 0; i < len; ++i) TETL_PRECONDITION(eq(str[pos + i], zero) or eq(str[pos + i], one));
    pos, n, len, i are size_t *)
Definition zlen {A} (l : list A) : Z := Z.of_nat (length l).
Definition bitset_str_guard (str : list Z) (pos n zero one : Z) : bool :=
  let size := zlen str in
  if u64 pos <=? size then
    let rest := u64 (size - u64 pos) in
    let len := if rest <? u64 n then rest else u64 n in          (* etl::min(n, size - pos): (b < a) ? b : a *)
    forallb (fun i => let ch := nth (Z.to_nat (u64 (u64 pos + Z.of_nat i))) str 0 in (ch =? zero) || (ch =? one))
            (seq 0 (Z.to_nat len))
  else false.

(** _string/to_string.hpp:20  to_string<Capacity>(val): from_integer<Int>(val, buffer, Capacity + 1, 10) must not
    report overflow.  from_integer (_strings/from_integer.hpp), base 10, terminate_with_null = true, length = Capacity + 1:
      num == 0:  length < 2 -> overflow;
      num < 0:   length <= 0 -> overflow; i = 1 (the sign)
      while (num != 0) { if (length <= i) overflow; num = num / 10 (truncating); ++i }
      if (length <= i) overflow  (room for the terminator)
    Only the guard-relevant state (num, i) is kept; the loop is fuelled ([None] = out of fuel). *)
Fixpoint fi_loop (fuel : nat) (num i len : Z) : option bool :=
  match fuel with
  | O => None
  | S k =>
      if num =? 0 then Some (negb (len <=? i))
      else if len <=? i then Some false
      else fi_loop k (Z.quot num 10) (i + 1) len
  end.
Definition from_integer_ok (fuel : nat) (num len : Z) : option bool :=
  if num =? 0 then Some (negb (len <? 2))
  else if num <? 0 then (if len <=? 0 then Some false else fi_loop fuel num 1 len)
  else fi_loop fuel num 0 len.
(* to_string<Capacity>: the buffer has Capacity + 1 characters (size_t arithmetic); 64 iterations suffice for 64 bits *)
Definition to_string_guard (cap val : Z) : option bool := from_integer_ok 64 val (u64 (cap + 1)).

(** _string/basic_inplace_string.hpp  erase(first, last) and the iterator-based replace(first, last, ...) overloads
    (assert_range_in_string, fix commit): first = begin() + a, last = first + d, a and d ptrdiff_t values;
      start = static_cast<size_type>(first - cbegin()); distance = static_cast<size_type>(last - first);
      TETL_PRECONDITION(start <= size()); TETL_PRECONDITION(distance <= size() - start);                       *)
Definition str_iter_range_guard (size a d : Z) : bool := (u64 a <=? size) && (u64 d <=? u64 (size - u64 a)).
Definition str_iter_range_site (size a d : Z) : nat :=
  if u64 a <=? size then (if u64 d <=? u64 (size - u64 a) then O else 2%nat) else 1%nat.

(** _format/argument.hpp:68  format_escaped_sequences(str): TETL_PRECONDITION(false) when an opening "{{" (the first
    '{' of the rest, followed by another '{') has no closing "}}" (the first '}' after it, followed by another '}').
    find_from c l = the suffix of l starting at the first c (etl::find), [] if there is none. *)
Definition open_brace : Z := 123.
Definition close_brace : Z := 125.
Fixpoint find_from (c : Z) (l : list Z) : list Z :=
  match l with
  | [] => []
  | x :: r => if x =? c then l else find_from c r
  end.
Fixpoint fmt_loop (fuel : nat) (first : list Z) : option bool :=
  match fuel with
  | O => None
  | S k =>
      match find_from open_brace first with
      | _ :: o2 :: after =>                       (* openFirst != end, openSec != end *)
          if o2 =? open_brace then
            match find_from close_brace after with
            | _ :: c2 :: rest => if c2 =? close_brace then fmt_loop k rest else Some false
            | _ => Some false
            end
          else Some true
      | _ => Some true
      end
  end.
Definition format_escaped_guard (str : list Z) : option bool := fmt_loop (S (length str)) str.

(** _array/array.hpp  front() / back(): TETL_PRECONDITION(Size != 0) (fix commit: an array<T, 0> used to dereference
    its null begin()); operator[] of an array<T, 0>: TETL_PRECONDITION_SAFE(Size != 0) before etl::unreachable() *)
Definition array_front (n : Z) : bool := negb (n =? 0).
Definition array_back (n : Z) : bool := negb (n =? 0).
Definition array0_index (safe : bool) : bool := if safe then negb (0 =? 0) else true.

(** optional<T>::operator->() / optional<T&>::operator->(): no check — returns get_if<1>(&_var), null when empty
    (documented: "The pointer is null if the optional is empty");
    expected<T, E>::operator->(): no check either — returns get_if<0>(&_u), null when *this holds an error *)
Definition opt_arrow (engaged : bool) : bool := true.
Definition exp_arrow (has_value : bool) : bool := true.

(** which check fires — for the functions that evaluate two checks in sequence: 0 = none (the call is let through),
    1 = the first TETL_PRECONDITION of the function body, 2 = the second.  The failing location handed to the handler
    (file, line, expression text) is compared with this in the correspondence run. *)
Definition static_set_ctor_site (cap d : Z) : nat :=
  if d >=? 0 then (if u64 d <=? cap then O else 2%nat) else 1%nat.
Definition copy_ptrs_site (dest_nonnull src_nonnull : bool) : nat :=
  if dest_nonnull then (if src_nonnull then O else 2%nat) else 1%nat.
Definition linalg_add_site (x y z : list Z) : nat :=
  if extents_eq x y then (if extents_eq x z then O else 2%nat) else 1%nat.
Definition linalg_mvp_site (a0 a1 x0 y0 : Z) : nat :=
  if a1 =? x0 then (if a0 =? y0 then O else 2%nat) else 1%nat.
Definition bitset_str_site (str : list Z) (pos n zero one : Z) : nat :=
  if u64 pos <=? zlen str then (if bitset_str_guard str pos n zero one then O else 2%nat) else 1%nat.
Definition span_subspan_site (n off c : Z) : nat :=
  if u64 off <=? n then (if span_subspan n off c then O else 2%nat) else 1%nat.
