(* C05, part 3: inplace_string.  Contract exactness of every guarded string operation, for EVERY capacity, every
   state satisfying the representation invariant (C04_invariant_all_histories: every reachable state) and every
   size_t argument (op_wf: the numeric arguments are size_t values, incl. npos and size()+1), about the
   buffer-level model of include/etl/_string/basic_inplace_string.hpp that C04 proves equal to std::string:

     the call stops at a TETL_PRECONDITION  <->  the documented precondition [pre_ok s o] is false,

   where pre_ok (coq/C04/Total.v) is plain mathematics on size() = |contents| and capacity():
     push_back: size < capacity;  pop_back: size <> 0;  insert(index, ...): index <= size [and indexStr <= |str|];
     erase(index, count): index <= size;  erase(first, last): start <= size and distance <= size - start;
     erase(position): position < size;  assign(count, ch) / assign(s, count) / operator=(s): count <= capacity;
     append(str): size + |str| <= capacity;  append(view, pos, count): pos <= |view|; clear / append(count, ch) /
     append(s, count) / resize / substr: always allowed (they clamp).
   [ptr_ok]: a (pointer, count) argument stays inside the array the pointer points into. *)
From Tetl Require Import Lib.Base Lib.Arr C08.Model C08.ProofsFind C04.Model C04.ModelQ C04.Spec C04.Inv C04.CstrFacts
  C04.InvOps C04.Total C05.SpecString C05.ProofsString.
Local Open Scope Z_scope.

Theorem C05_string_violation_fires_iff : forall s o, inv s -> op_wf o -> ptr_ok o ->
  (step s o = Contract <-> pre_ok s o = false).
Proof. exact string_fires_iff. Qed.
Print Assumptions C05_string_violation_fires_iff.

(* the same against the specification of C05/SpecString.v: the documented precondition as a function of the abstract
   value (|contents|, capacity, arguments) only *)
Theorem C05_string_violation_fires_iff_documented : forall s o, inv s -> op_wf o -> ptr_ok o ->
  (step s o = Contract <-> pre_doc (zlen (contents s)) (cap s) o = false).
Proof. exact string_fires_iff_doc. Qed.
Print Assumptions C05_string_violation_fires_iff_documented.

(* ... and against the standard's preconditions ([pre_std]: additionally pos <= str.size() for append / assign / constructor
   (str, pos, count)), everywhere outside the recorded defect region; inside it the call is NOT stopped
   (KF-C05-string-substr-pos-unchecked: inplace_string::substr returns an empty string, pinned by tests/string) *)
Theorem C05_string_violation_fires_iff_std : forall s o, inv s -> op_wf o -> ptr_ok o -> substr_pos_ok o = true ->
  (step s o = Contract <-> pre_std (zlen (contents s)) (cap s) o = false).
Proof. exact string_fires_iff_std. Qed.
Print Assumptions C05_string_violation_fires_iff_std.

Theorem C05_string_substr_pos_refuted : exists s o, ctor_ptr 4 CChar [97; 98; 99] 3 = Ok s /\ inv s /\ op_wf o /\ ptr_ok o /\
  pre_std (zlen (contents s)) (cap s) o = false /\ step s o <> Contract.
Proof.
  eexists. exists (OAppendStrSub [] 1 0). split; [vm_compute; reflexivity|].
  split; [unfold inv, cap_ok; vm_compute; repeat split; discriminate|].
  split; [unfold op_wf, szt; lia|]. split; [exact Logic.I|].
  split; [vm_compute; reflexivity|]. vm_compute. discriminate.
Qed.
Print Assumptions C05_string_substr_pos_refuted.

Theorem C05_string_valid_call_returns : forall s o, inv s -> op_wf o -> ptr_ok o -> pre_ok s o = true ->
  exists s', step s o = Ok s' /\ inv s' /\ cap s' = cap s /\ ckind s' = ckind s.
Proof. exact string_valid_returns. Qed.
Print Assumptions C05_string_valid_call_returns.

(* replace(pos, count, str) / (pos, count, s, count2) / (pos, count, s) / (pos, count, str, pos2, count2):
   stopped exactly when pos > size() (resp. also pos2 > str.size()) — for every state, even without the invariant *)
Theorem C05_string_replace_guards_exact :
  (forall s pos count src, replace_m s pos count src = Contract <-> pos > get_size s) /\
  (forall s pos count src count2, replace_ptr_m s pos count src count2 = Contract <-> pos > get_size s) /\
  (forall s pos count a, cstr_arg_ok a -> (replace_cstr_m s pos count a = Contract <-> pos > get_size s)) /\
  (forall s pos count src pos2 count2,
     replace5_m s pos count src pos2 count2 = Contract <-> (pos > get_size s \/ pos2 > zlen src)).
Proof. exact (conj replace_guard (conj replace_ptr_guard (conj replace_cstr_guard replace5_guard))). Qed.
Print Assumptions C05_string_replace_guards_exact.

(* operator[] is guarded by index < size() + 1 evaluated in size_t: that is index <= size() for every size_t
   index (size() + 1 cannot wrap: capacity < 2^62); front() / back(): not empty *)
Theorem C05_string_accessor_guards_exact : forall s, inv s ->
  (forall i, pos_ok i -> (index_m s i = Contract <-> i > get_size s)) /\
  (front_m s = Contract <-> get_size s = 0) /\ (back_m s = Contract <-> get_size s = 0) /\
  get_size s = zlen (contents s).
Proof.
  intros s I. split; [intros i Hi; exact (index_guard_exact s i I Hi)|].
  destruct (front_back_guard_exact s) as (F & B). split; [exact F|]. split; [exact B|]. exact (size_is_length s I).
Qed.
Print Assumptions C05_string_accessor_guards_exact.

Example C05_string_nonvacuous :
  exists s, ctor_ptr 4 CChar [97; 98; 99] 3 = Ok s /\ inv s /\
    pre_ok s (OInsertFill 3 1 120) = true /\ pre_ok s (OInsertFill 4 1 120) = false /\
    step s (OInsertFill 4 1 120) = Contract /\ pre_ok s (OErase 18446744073709551615 1) = false /\
    index_m s 3 = Ok 0 /\ index_m s 4 = Contract /\ replace5_m s 0 1 [120] 2 0 = Contract.
Proof.
  eexists. split; [vm_compute; reflexivity|]. split.
  - unfold inv, cap_ok. vm_compute. repeat split; discriminate.
  - vm_compute. repeat split; reflexivity.
Qed.
