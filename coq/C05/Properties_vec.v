(* C05, part 2: contract exactness of the static_vector / inplace_vector operations, from the full
   operation models of C01.  A call outside its documented domain (the std::vector-with-capacity spec
   answers None) is stopped by a Contract outcome; a call inside it refines the spec, hence is never
   stopped.  The guard of insert(pos, n, x) cannot be fooled by size_t wrap-around. *)
From Tetl Require Import Lib.Base C01.Model C01.Spec C01.ProofsBase C01.Properties.
Local Open Scope Z_scope.

Theorem C05_vector_violation_fires : forall pred c s o, Z.of_nat c < 2 ^ 63 ->
  inv c (fst s) -> inv c (snd s) ->
  match o with
  | InsertN _ _ n _ | AssignN _ n _ => - 2 ^ 63 <= n
  | At _ i => - 2 ^ 63 <= i < 2 ^ 64
  | _ => True
  end ->
  spec_step pred (Z.of_nat c) (abs s) o = None -> step pred s o = Contract.
Proof. exact C01_contract_fires. Qed.
Print Assumptions C05_vector_violation_fires.

Theorem C05_vector_valid_call_never_fires : forall pred c s o s1 out, Z.of_nat c < 2 ^ 63 ->
  inv c (fst s) -> inv c (snd s) ->
  spec_step pred (Z.of_nat c) (abs s) o = Some (s1, out) -> step pred s o <> Contract.
Proof.
  intros pred c s o s1 out Hc H1 H2 Hs.
  destruct (C01_step_refines pred c s o s1 out Hc H1 H2 Hs) as (s' & Hstep & _).
  rewrite Hstep. discriminate.
Qed.
Print Assumptions C05_vector_valid_call_never_fires.

Theorem C05_insert_n_guard_exact : forall c v n, Z.of_nat c < 2 ^ 63 -> inv c v -> 0 <= n < 2 ^ 64 ->
  (wrapu 64 n <=? wrapu 64 (cap v - sz v)) = (sz v + n <=? Z.of_nat c).
Proof. exact C01_insert_n_guard_exact. Qed.
Print Assumptions C05_insert_n_guard_exact.

Theorem C05_inplace_vector_violation_fires : forall c s o, Z.of_nat c < 2 ^ 63 ->
  inv c (fst s) -> inv c (snd s) ->
  match o with IvAt _ i => - 2 ^ 63 <= i < 2 ^ 64 | _ => True end ->
  iv_spec_step (Z.of_nat c) (abs s) o = None -> iv_step s o = Contract.
Proof. exact C01_inplace_vector_contract_fires. Qed.
Print Assumptions C05_inplace_vector_violation_fires.
