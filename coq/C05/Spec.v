(* C05 specification: the DOCUMENTED preconditions, as mathematics on unbounded integers
   (no wrap-around, no casts), decidable so that they can also be evaluated.
   Arguments are the size_t VALUES the caller passed: 0 <= x < 2^64. *)
From Tetl Require Import Lib.Base.
Local Open Scope Z_scope.

Definition two64 : Z := 18446744073709551616.
Definition is_size_t (x : Z) : Prop := 0 <= x < two64.
Definition dyn : Z := two64 - 1.

(* [span.elem], [span.sub] *)
Definition pre_nonempty (n : Z) : bool := 0 <? n.
Definition pre_index (n i : Z) : bool := i <? n.
Definition pre_count (n c : Z) : bool := c <=? n.
Definition pre_span_subspan (n off c : Z) : bool := (off <=? n) && ((c =? dyn) || (off + c <=? n)).
(* [span.cons]: extent == dynamic_extent || count == extent *)
Definition pre_span_ctor (ext count : Z) : bool := (ext =? dyn) || (count =? ext).
(* optional::operator*, expected::operator* / error(), variant access *)
Definition pre_variant (active i : Z) : bool := i =? active.
