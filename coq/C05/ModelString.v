(* C05: names under which the inplace_string model of C04 (coq/C04/Model.v, ModelQ.v, Total.v) is extracted for the
   C05 correspondence run.  Pure aliases — the definitions (and the proofs about them) are C04's. *)
From Tetl Require Import Lib.Base C08.Model C04.Model C04.ModelQ C04.Spec C04.Inv C04.CstrFacts C04.InvOps C04.Total C05.SpecString.
Local Open Scope Z_scope.

Definition str_step (s : istr) (o : op) : res istr := C04.Model.step s o.
Definition str_pre_ok (s : istr) (o : op) : bool := C04.Total.pre_ok s o.
(* spec leg of the correspondence run: the documented precondition of the abstract value (SpecString.v) *)
Definition str_pre_doc (size capacity : Z) (o : op) : bool := pre_doc size capacity o.
(* the same plus [string.append]/[string.assign]/[string.cons] pos <= str.size() (see SpecString.v, known finding) *)
Definition str_pre_std (size capacity : Z) (o : op) : bool := pre_std size capacity o.
Definition str_make (c : Z) (src : list Z) (len : Z) : res istr := ctor_ptr c CChar src len.
Definition str_ctor_fill (c count ch : Z) : res istr := ctor_fill c CChar count ch.
Definition str_make_w (c : Z) (src : list Z) (len : Z) : res istr := ctor_ptr c CWchar src len.
Definition str_ctor_fill_w (c count ch : Z) : res istr := ctor_fill c CWchar count ch.
(* basic_inplace_string<char16_t, N>: 2-byte characters (pointer arithmetic wraps at 2^63) *)
Definition str_make_16 (c : Z) (src : list Z) (len : Z) : res istr := ctor_ptr c CChar16 src len.
Definition str_ctor_fill_16 (c count ch : Z) : res istr := ctor_fill c CChar16 count ch.
Definition str_size (s : istr) : Z := get_size s.
Definition str_index (s : istr) (i : Z) : res Z := index_m s i.
Definition str_front (s : istr) : res Z := front_m s.
Definition str_back (s : istr) : res Z := back_m s.
Definition str_replace (s : istr) (pos count : Z) (src : list Z) : res istr := replace_m s pos count src.
Definition str_replace_ptr (s : istr) (pos count : Z) (src : list Z) (count2 : Z) : res istr := replace_ptr_m s pos count src count2.
Definition str_replace_cstr (s : istr) (pos count : Z) (a : list Z) : res istr := replace_cstr_m s pos count a.
Definition str_replace5 (s : istr) (pos count : Z) (src : list Z) (pos2 count2 : Z) : res istr := replace5_m s pos count src pos2 count2.
