(* C05, part 4: (a) which contract macro is active in each of the four build configurations (_contracts/check.hpp), and
   (b) sized ranges: for every iterator category that the headers treat as sized (pointers and every other random access
   iterator: reverse_iterator<T*>, array::rbegin(), a random access class) a range that does not fit is stopped by a check
   at the ENTRY of the member function — the object is unmodified when the handler runs — and a fitting range never is. *)
From Tetl Require Import Lib.Base C05.Model C05.Spec C05.ModelMode C05.SpecMode C05.ProofsMode.
Local Open Scope Z_scope.

(* the #if chain of check.hpp, combination by combination (checks = TETL_ENABLE_CONTRACT_CHECKS defined, safe =
   TETL_ENABLE_CONTRACT_CHECKS_SAFE defined): the pair (TETL_PRECONDITION active, TETL_PRECONDITION_SAFE active) *)
Theorem C05_contract_macro_selection :
  contract_macros false false = (false, false) /\          (* neither: nothing is checked *)
  contract_macros true false = (true, false) /\            (* CHECKS alone: the ordinary preconditions *)
  contract_macros false true = (true, true) /\             (* SAFE alone: all *)
  contract_macros true true = (true, true) /\              (* BOTH (tests/CMakeLists.txt with both options ON): all *)
  (forall checks safe, precondition_active checks safe = doc_precondition_active checks safe) /\
  (forall checks safe, precondition_safe_active checks safe = doc_precondition_safe_active checks safe) /\
  (forall checks safe, precondition_safe_active checks safe = true -> precondition_active checks safe = true).
Proof.
  repeat split; try reflexivity.
  - exact precondition_active_doc.
  - exact precondition_safe_active_doc.
  - intros checks safe. destruct checks, safe; cbn; congruence.
Qed.
Print Assumptions C05_contract_macro_selection.

(* a check is let through unless its macro is active AND the documented precondition is violated; with neither macro
   defined nothing ever fires; array::operator[] (a SAFE check) and chrono::day (an ordinary check) in every combination *)
Theorem C05_contract_modes_exact : forall checks safe,
  (forall cond, mode_precondition checks safe cond = doc_checked (doc_precondition_active checks safe) cond) /\
  (forall cond, mode_precondition_safe checks safe cond = doc_checked (doc_precondition_safe_active checks safe) cond) /\
  (forall n i, is_size_t i ->
     mode_array_index checks safe n i = doc_checked (doc_precondition_safe_active checks safe) (pre_index n i)) /\
  (forall d, 0 <= d < 4294967296 ->
     mode_day_ctor checks safe d = doc_checked (doc_precondition_active checks safe) (d <=? 255)) /\
  (forall cond, mode_precondition false false cond = true /\ mode_precondition_safe false false cond = true) /\
  (forall n i, mode_array_index checks safe n i = array_index (doc_precondition_safe_active checks safe) n i).
Proof.
  intros checks safe. split; [|split; [|split; [|split; [|split]]]].
  - intros cond. unfold mode_precondition. rewrite checked_doc, precondition_active_doc. reflexivity.
  - intros cond. unfold mode_precondition_safe. rewrite checked_doc, precondition_safe_active_doc. reflexivity.
  - intros n i Hi. exact (mode_array_index_exact checks safe n i Hi).
  - intros d Hd. exact (mode_day_ctor_exact checks safe d Hd).
  - intros cond. split; reflexivity.
  - intros n i. destruct checks, safe; reflexivity.
Qed.
Print Assumptions C05_contract_modes_exact.

(* static_vector::insert / move_insert (position, first, last), every capacity and size, every position offset, every
   ptrdiff_t difference d = last - first (last before first included: fix commit for random access iterators that are not pointers):
   sized category => RDone exactly on the documented precondition, otherwise stopped by an ENTRY check (site 1-4) with the
   object as it was ([clean] comes back unchanged); unsized category => the position at entry, the length only by
   emplace_back's !full() once the room is filled: unmodified iff there was no room at all *)
Theorem C05_vector_range_insert_exact : forall c cap sz pos d clean, 0 <= sz <= cap -> cap < 9223372036854775808 ->
  (cat_sized c = true -> is_ptrdiff d ->
     vec_insert_range c cap sz pos d clean =
     if pre_vec_insert_range cap sz pos d then RDone
     else RStopped clean (if pos <? 0 then 1%nat else if sz <? pos then 2%nat
                          else if d <? 0 then (if cat_pointer c then 3%nat else 8%nat) else 4%nat)) /\
  (cat_sized c = false -> 0 <= d ->
     vec_insert_range c cap sz pos d clean =
     if pos <? 0 then RStopped clean 1 else if sz <? pos then RStopped clean 2
     else if sz + d <=? cap then RDone else RStopped (clean && (sz =? cap)) 5).
Proof.
  intros c cap sz pos d clean Hs Hc. split.
  - intros H1 H2. exact (vec_insert_range_sized c cap sz pos d clean H1 Hs Hc H2).
  - intros H1 H2. exact (vec_insert_range_unsized c cap sz pos d clean H1 Hs H2).
Qed.
Print Assumptions C05_vector_range_insert_exact.

(* static_vector::assign(first, last) / static_vector(first, last) *)
Theorem C05_vector_range_assign_exact : forall c cap sz d, 0 <= sz <= cap -> cap < 9223372036854775808 ->
  (cat_sized c = true -> is_ptrdiff d ->
     vec_assign_range c cap sz d =
     if pre_vec_assign_range cap d then RDone else RStopped true (if d <? 0 then 6%nat else 7%nat)) /\
  (cat_sized c = false -> 0 <= d ->
     vec_assign_range c cap sz d = if d <=? cap then RDone else RStopped ((sz =? 0) && (0 =? cap)) 5).
Proof.
  intros c cap sz d Hs Hc. split.
  - intros H1 H2. exact (vec_assign_range_sized c cap sz d H1 Hs Hc H2).
  - intros H1 H2. exact (vec_assign_range_unsized c cap sz d H1 Hs H2).
Qed.
Print Assumptions C05_vector_range_assign_exact.

(* basic_inplace_string::append(first, last) (and the range constructor / assign(first, last) / append(str) / operator+=
   built on it) *)
Theorem C05_string_range_append_exact : forall c cap sz d, 0 <= sz <= cap -> cap < 9223372036854775808 ->
  (cat_sized c = true -> is_ptrdiff d ->
     str_append_range c cap sz d =
     if pre_str_append_range cap sz d then RDone else RStopped true (if d <? 0 then 1%nat else 2%nat)) /\
  (cat_sized c = false -> 0 <= d ->
     str_append_range c cap sz d = if sz + d <=? cap then RDone else RStopped (sz =? cap) 3).
Proof.
  intros c cap sz d Hs Hc. split.
  - intros H1 H2. exact (str_append_range_sized c cap sz d H1 Hs Hc H2).
  - intros H1 H2. exact (str_append_range_unsized c cap sz d H1 Hs H2).
Qed.
Print Assumptions C05_string_range_append_exact.

(* the headline: whichever sized category the range has, a violation visible from the arguments never modifies the object *)
Theorem C05_sized_range_violation_unmodified : forall c cap sz pos d, cat_sized c = true ->
  0 <= sz <= cap -> cap < 9223372036854775808 -> is_ptrdiff d ->
  (pre_vec_insert_range cap sz pos d = false -> exists site, vec_insert_range c cap sz pos d true = RStopped true site) /\
  (pre_vec_assign_range cap d = false -> exists site, vec_assign_range c cap sz d = RStopped true site) /\
  (pre_str_append_range cap sz d = false -> exists site, str_append_range c cap sz d = RStopped true site).
Proof.
  intros c cap sz pos d Hc Hs Hcap Hd. split; [|split]; intros Hp.
  - rewrite (vec_insert_range_sized c cap sz pos d true Hc Hs Hcap Hd), Hp. eexists. reflexivity.
  - rewrite (vec_assign_range_sized c cap sz d Hc Hs Hcap Hd), Hp. eexists. reflexivity.
  - rewrite (str_append_range_sized c cap sz d Hc Hs Hcap Hd), Hp. eexists. reflexivity.
Qed.
Print Assumptions C05_sized_range_violation_unmodified.

Example C05_mode_nonvacuous :
  mode_array_index true true 3 3 = false /\ mode_array_index true false 3 3 = true /\ mode_array_index false true 3 3 = false
  /\ mode_array_index false false 3 3 = true /\ mode_array_index true true 3 2 = true
  /\ mode_precondition true false false = false /\ mode_precondition_safe true false false = true
  /\ vec_insert_range ItRandomAccess 4 1 0 4 true = RStopped true 4 /\ vec_insert_range ItForward 4 1 0 4 true = RStopped false 5
  /\ vec_insert_range ItPointer 4 1 1 3 true = RDone /\ vec_insert_range ItPointer 4 1 0 (-1) true = RStopped true 3
  /\ vec_insert_range ItRandomAccess 4 2 0 (-1) true = RStopped true 8
  /\ vec_assign_range ItRandomAccess 4 2 5 = RStopped true 7 /\ vec_assign_range ItInput 4 2 5 = RStopped false 5
  /\ str_append_range ItRandomAccess 4 1 4 = RStopped true 2 /\ str_append_range ItForward 4 1 4 = RStopped false 3
  /\ str_append_range ItForward 4 4 1 = RStopped true 3.
Proof. vm_compute. repeat split; reflexivity. Qed.
