(* C05 specification, part 4: what the configuration macros are documented to do, and the documented preconditions of the
   range members, as plain mathematics. *)
From Tetl Require Import Lib.Base.
Local Open Scope Z_scope.

(* CMakeLists.txt: TETL_BUILD_CONTRACT_CHECKS "Build with contract assertions" (defines TETL_ENABLE_CONTRACT_CHECKS),
   TETL_BUILD_CONTRACT_CHECKS_SAFE "Build with all/slow contract assertions" (defines TETL_ENABLE_CONTRACT_CHECKS_SAFE);
   tests/CMakeLists.txt passes each definition independently of the other, so all four combinations are configurations:
   the ordinary assertions are on as soon as either is requested, the slow ones exactly when SAFE is — whatever else. *)
Definition doc_precondition_active (checks safe : bool) : bool := checks || safe.
Definition doc_precondition_safe_active (checks safe : bool) : bool := safe.
(* a call is let through unless the check is active and the documented precondition is violated *)
Definition doc_checked (active pre : bool) : bool := negb active || pre.

(* insert(position, first, last): position in [begin(), end()], [first, last) a range of d >= 0 elements that fit *)
Definition pre_vec_insert_range (cap sz pos d : Z) : bool := (0 <=? pos) && (pos <=? sz) && (0 <=? d) && (sz + d <=? cap).
(* assign(first, last) / static_vector(first, last): a range of 0 <= d <= capacity() elements *)
Definition pre_vec_assign_range (cap d : Z) : bool := (0 <=? d) && (d <=? cap).
(* append(first, last): \pre distance(first, last) <= capacity() - size() *)
Definition pre_str_append_range (cap sz d : Z) : bool := (0 <=? d) && (sz + d <=? cap).
