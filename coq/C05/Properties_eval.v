(* C05, part 5: a contract violation in EVERY evaluation mode (added after the missed seed C05-g1: TETL_ASSERT_IMPL skipping the
   check during constant evaluation).  At run time a violated, active check calls the handler; in a constant evaluation it makes
   the program ill-formed - it is never folded into a value; a valid call is a constant expression in both. *)
From Tetl Require Import Lib.Base C05.Model C05.Spec C05.Proofs C05.ModelMode C05.SpecMode C05.ProofsMode C05.ModelEval C05.SpecEval C05.ProofsEval.
Local Open Scope Z_scope.

(* the macro TETL_ASSERT_IMPL / TETL_PRECONDITION in both modes, for every activation and every value of the condition:
   the documented outcome; constant evaluation = the run-time outcome with "handler called" replaced by "ill-formed";
   accepted exactly when the guard holds; rejected exactly when the check is on and the guard is false (so, with the check on,
   NO violation is accepted in a constant expression and no valid call is rejected) *)
Theorem C05_contract_outcome_every_evaluation_mode : forall active guard,
  (forall m, outcome_doc (guarded_call m active guard) = doc_call (is_constant m) active guard) /\
  guarded_call ConstantEval active guard = to_constant (guarded_call RunTime active guard) /\
  guarded_call ConstantEval active guard <> HandlerCalled /\
  guarded_call RunTime active guard <> IllFormed /\
  (forall m, guarded_call m active guard = Returns <-> guard = true) /\
  (guarded_call ConstantEval active guard = IllFormed <-> (active = true /\ guard = false)) /\
  (guarded_call RunTime active guard = HandlerCalled <-> (active = true /\ guard = false)) /\
  (constant_expression_accepted (guarded_call ConstantEval active guard) = Some true <-> guard = true) /\
  (active = true -> constant_expression_accepted (guarded_call ConstantEval active guard) = Some guard).
Proof.
  intros active guard.
  split; [intros m; exact (guarded_call_doc m active guard)|].
  split; [exact (constant_is_image active guard)|].
  split; [exact (never_handler_in_constant active guard)|].
  split; [exact (never_ill_formed_at_run_time active guard)|].
  split; [intros m; exact (accepted_iff m active guard)|].
  split; [exact (rejected_iff active guard)|].
  split; [exact (handler_iff active guard)|].
  split; [destruct active, guard; cbn; split; congruence|].
  intros ->. destruct guard; reflexivity.
Qed.
Print Assumptions C05_contract_outcome_every_evaluation_mode.

(* the guards of the operations the seed's demonstration names (and the SAFE-level array index), as constant expressions in each
   of the four build configurations: against the DOCUMENTED precondition in plain mathematics *)
Theorem C05_constant_evaluation_guards_exact : forall checks safe,
  (forall d, 0 <= d < 4294967296 ->
     outcome_doc (ct_day checks safe d) = doc_call true (doc_precondition_active checks safe) (d <=? 255) /\
     outcome_doc (ct_month checks safe d) = doc_call true (doc_precondition_active checks safe) (d <=? 255)) /\
  (forall ext count, is_size_t ext -> is_size_t count ->
     outcome_doc (ct_span_ctor checks safe ext count) = doc_call true (doc_precondition_active checks safe) (pre_span_ctor ext count)) /\
  (forall n k, is_size_t k ->
     outcome_doc (ct_sv_remove_suffix checks safe n k) = doc_call true (doc_precondition_active checks safe) (pre_count n k)) /\
  (forall n i, is_size_t i ->
     outcome_doc (ct_array_index checks safe n i) = doc_call true (doc_precondition_safe_active checks safe) (pre_index n i)) /\
  (* any guard that a theorem of this package shows equal to its documented precondition carries over unchanged *)
  (forall m lvl guard pre, guard = pre ->
     outcome_doc (call_in_build m checks safe lvl guard) =
     doc_call (is_constant m) (if lvl then doc_precondition_safe_active checks safe else doc_precondition_active checks safe) pre).
Proof.
  intros checks safe.
  split; [intros d Hd; split; apply (call_in_build_doc ConstantEval checks safe false); apply day_ctor_exact; exact Hd|].
  split; [intros ext count He Hc; apply (call_in_build_doc ConstantEval checks safe false); exact (span_ctor_count_exact ext count He Hc)|].
  split; [intros n k Hk; apply (call_in_build_doc ConstantEval checks safe false); exact (sv_remove_suffix_exact n k Hk)|].
  split; [intros n i Hi; apply (call_in_build_doc ConstantEval checks safe true); rewrite (u64_id i Hi); reflexivity|].
  intros m lvl guard pre H. exact (call_in_build_doc m checks safe lvl guard pre H).
Qed.
Print Assumptions C05_constant_evaluation_guards_exact.

Example C05_eval_nonvacuous :
  ct_day true false 300 = IllFormed /\ ct_day true false 255 = Returns /\ ct_day false false 300 = Unchecked
  /\ ct_month false true 256 = IllFormed /\ ct_span_ctor true true 4 3 = IllFormed /\ ct_span_ctor true false 4 4 = Returns
  /\ ct_sv_remove_suffix true false 3 4 = IllFormed /\ ct_sv_remove_suffix true false 3 3 = Returns
  /\ ct_array_index true false 3 3 = Unchecked /\ ct_array_index true true 3 3 = IllFormed
  /\ guarded_call RunTime true false = HandlerCalled /\ guarded_call ConstantEval true false = IllFormed
  /\ constant_expression_accepted (ct_day true false 300) = Some false.
Proof. vm_compute. repeat split; reflexivity. Qed.
