(* C05 proofs, part 4: the macro selection of _contracts/check.hpp and the sized-range members. *)
From Tetl Require Import Lib.Base C05.Model C05.Spec C05.Proofs C05.ModelMode C05.SpecMode.
From Coq Require Import ZifyBool.
Local Open Scope Z_scope.
Ltac Zify.zify_post_hook ::= Z.to_euclidean_division_equations.

(** * the macro selection *)
Lemma precondition_active_doc checks safe : precondition_active checks safe = doc_precondition_active checks safe.
Proof. destruct checks, safe; reflexivity. Qed.
Lemma precondition_safe_active_doc checks safe : precondition_safe_active checks safe = doc_precondition_safe_active checks safe.
Proof. destruct checks, safe; reflexivity. Qed.
Lemma checked_doc active g : checked active g = doc_checked active g.
Proof. destruct active, g; reflexivity. Qed.

Lemma mode_array_index_exact checks safe n i : is_size_t i ->
  mode_array_index checks safe n i = doc_checked (doc_precondition_safe_active checks safe) (pre_index n i).
Proof.
  intros Hi. unfold mode_array_index. rewrite checked_doc, precondition_safe_active_doc, (u64_id i Hi). reflexivity.
Qed.

Lemma mode_day_ctor_exact checks safe d : 0 <= d < 4294967296 ->
  mode_day_ctor checks safe d = doc_checked (doc_precondition_active checks safe) (d <=? 255).
Proof.
  intros Hd. unfold mode_day_ctor. rewrite checked_doc, precondition_active_doc, (day_ctor_exact d Hd). reflexivity.
Qed.

(** * the element-wise loop *)
Lemma fill_loop_spec site cap : forall n sz clean, 0 <= sz <= cap ->
  fill_loop site cap sz n clean =
  if sz + Z.of_nat n <=? cap then RDone else RStopped (clean && (sz =? cap)) site.
Proof.
  induction n as [|k IH]; intros sz clean Hs; cbn [fill_loop].
  - replace (sz + Z.of_nat 0) with sz by lia. destruct (sz <=? cap) eqn:E; [reflexivity|lia].
  - destruct (sz <? cap) eqn:E.
    + rewrite IH by lia. replace (sz + 1 + Z.of_nat k) with (sz + Z.of_nat (S k)) by lia.
      destruct (sz + Z.of_nat (S k) <=? cap); [reflexivity|].
      cbn [andb]. replace (sz =? cap) with false by lia. rewrite Bool.andb_false_r. reflexivity.
    + replace (sz + Z.of_nat (S k) <=? cap) with false by lia.
      replace (sz =? cap) with true by lia. rewrite Bool.andb_true_r. reflexivity.
Qed.

Definition is_ptrdiff (d : Z) : Prop := - 9223372036854775808 <= d < 9223372036854775808.

Lemma u64_small x : 0 <= x < 18446744073709551616 -> u64 x = x.
Proof. intros H. apply u64_id. unfold is_size_t, two64. exact H. Qed.

(** * static_vector::insert / move_insert (position, first, last) *)
(* a sized range (any pair of iterators whose difference is a ptrdiff_t, last before first included): exactly the documented
   precondition, and every violation is stopped by an entry check (sites 1-4) with the object unmodified *)
Lemma vec_insert_range_sized c cap sz pos d clean :
  cat_sized c = true -> 0 <= sz <= cap -> cap < 9223372036854775808 -> is_ptrdiff d ->
  vec_insert_range c cap sz pos d clean =
  if pre_vec_insert_range cap sz pos d then RDone
  else RStopped clean (if pos <? 0 then 1%nat else if sz <? pos then 2%nat
                       else if d <? 0 then (if cat_pointer c then 3%nat else 8%nat) else 4%nat).
Proof.
  intros Hc Hs Hcap Hd. unfold vec_insert_range, pre_vec_insert_range, is_ptrdiff in *. rewrite Hc.
  destruct (pos <? 0) eqn:E1; [replace (0 <=? pos) with false by lia; reflexivity|].
  replace (0 <=? pos) with true by lia.
  destruct (sz <? pos) eqn:E2; [replace (pos <=? sz) with false by lia; reflexivity|].
  replace (pos <=? sz) with true by lia. cbn [andb].
  destruct (d <? 0) eqn:E3.
  - replace (0 <=? d) with false by lia. destruct (cat_pointer c); reflexivity.
  - rewrite Bool.andb_false_r. cbn [andb]. replace (0 <=? d) with true by lia. cbn [andb].
    rewrite (u64_small d) by lia. rewrite (u64_small (sz + d)) by lia.
    destruct (sz + d <=? cap) eqn:E4; cbn [negb]; [|reflexivity].
    rewrite fill_loop_spec by lia. rewrite Z2Nat.id by lia. rewrite E4. reflexivity.
Qed.

(* a range whose length cannot be asked (input / forward / bidirectional iterators): the position is still checked at entry,
   the length only element by element — emplace_back's !full() fires after the room was filled *)
Lemma vec_insert_range_unsized c cap sz pos d clean :
  cat_sized c = false -> 0 <= sz <= cap -> 0 <= d ->
  vec_insert_range c cap sz pos d clean =
  if pos <? 0 then RStopped clean 1 else if sz <? pos then RStopped clean 2
  else if sz + d <=? cap then RDone else RStopped (clean && (sz =? cap)) 5.
Proof.
  intros Hc Hs Hd. unfold vec_insert_range. rewrite Hc.
  assert (Hp : cat_pointer c = false) by (destruct c; try reflexivity; discriminate Hc). rewrite Hp. cbn [andb].
  destruct (pos <? 0); [reflexivity|]. destruct (sz <? pos); [reflexivity|].
  replace (d <? 0) with false by lia. rewrite fill_loop_spec by lia. rewrite Z2Nat.id by lia. reflexivity.
Qed.

(** * static_vector::assign(first, last) / static_vector(first, last) *)
Lemma vec_assign_range_sized c cap sz d :
  cat_sized c = true -> 0 <= sz <= cap -> cap < 9223372036854775808 -> is_ptrdiff d ->
  vec_assign_range c cap sz d =
  if pre_vec_assign_range cap d then RDone else RStopped true (if d <? 0 then 6%nat else 7%nat).
Proof.
  intros Hc Hs Hcap Hd. unfold vec_assign_range, pre_vec_assign_range, is_ptrdiff in *. rewrite Hc. cbn [andb].
  destruct (d <? 0) eqn:E1; [replace (0 <=? d) with false by lia; reflexivity|].
  replace (0 <=? d) with true by lia. cbn [andb]. rewrite (u64_small d) by lia.
  destruct (d <=? cap) eqn:E2; cbn [negb]; [|reflexivity].
  rewrite (vec_insert_range_sized c cap 0 0 d (sz =? 0) Hc) by (unfold is_ptrdiff; lia).
  unfold pre_vec_insert_range. replace (0 <=? 0) with true by lia. replace (0 <=? d) with true by lia.
  replace (0 + d <=? cap) with true by lia. reflexivity.
Qed.

Lemma vec_assign_range_unsized c cap sz d :
  cat_sized c = false -> 0 <= sz <= cap -> 0 <= d ->
  vec_assign_range c cap sz d = if d <=? cap then RDone else RStopped ((sz =? 0) && (0 =? cap)) 5.
Proof.
  intros Hc Hs Hd. unfold vec_assign_range. rewrite Hc. cbn [andb].
  rewrite (vec_insert_range_unsized c cap 0 0 d (sz =? 0) Hc) by lia.
  replace (0 <? 0) with false by lia. replace (0 + d) with d by lia. reflexivity.
Qed.

(** * basic_inplace_string::append(first, last) *)
Lemma str_append_range_sized c cap sz d :
  cat_sized c = true -> 0 <= sz <= cap -> cap < 9223372036854775808 -> is_ptrdiff d ->
  str_append_range c cap sz d =
  if pre_str_append_range cap sz d then RDone else RStopped true (if d <? 0 then 1%nat else 2%nat).
Proof.
  intros Hc Hs Hcap Hd. unfold str_append_range, pre_str_append_range, is_ptrdiff in *. rewrite Hc. cbn [andb].
  destruct (d <? 0) eqn:E1; [replace (0 <=? d) with false by lia; reflexivity|].
  replace (0 <=? d) with true by lia. cbn [andb]. rewrite (u64_small d) by lia. rewrite (u64_small (cap - sz)) by lia.
  destruct (d <=? cap - sz) eqn:E2; cbn [negb].
  - replace (sz + d <=? cap) with true by lia. rewrite fill_loop_spec by lia. rewrite Z2Nat.id by lia.
    replace (sz + d <=? cap) with true by lia. reflexivity.
  - replace (sz + d <=? cap) with false by lia. reflexivity.
Qed.

Lemma str_append_range_unsized c cap sz d :
  cat_sized c = false -> 0 <= sz <= cap -> 0 <= d ->
  str_append_range c cap sz d = if sz + d <=? cap then RDone else RStopped (sz =? cap) 3.
Proof.
  intros Hc Hs Hd. unfold str_append_range. rewrite Hc. cbn [andb]. replace (d <? 0) with false by lia.
  rewrite fill_loop_spec by lia. rewrite Z2Nat.id by lia. reflexivity.
Qed.
