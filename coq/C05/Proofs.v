(* C05 proofs: each guard, evaluated with size_t wrap-around semantics, lets a call through
   exactly when the documented precondition holds — for EVERY size_t argument value and every size. *)
From Tetl Require Import Lib.Base C05.Model C05.Spec.
From Coq Require Import ZifyBool.
Local Open Scope Z_scope.
Ltac Zify.zify_post_hook ::= Z.to_euclidean_division_equations.

Lemma u64_id x : is_size_t x -> u64 x = x.
Proof. unfold is_size_t, two64, u64, wrapu. change (2 ^ 64) with 18446744073709551616. intros H. apply Z.mod_small. lia. Qed.

Ltac unf := unfold is_size_t, dyn, dyn_extent in *; unfold two64 in *.

Lemma span_front_exact n : 0 <= n -> span_front n = pre_nonempty n.
Proof. unfold span_front, pre_nonempty. lia. Qed.
Lemma span_back_exact n : 0 <= n -> span_back n = pre_nonempty n.
Proof. unfold span_back, pre_nonempty. lia. Qed.
Lemma span_index_exact n i : is_size_t i -> span_index n i = pre_index n i.
Proof. intros Hi. unfold span_index, pre_index. rewrite (u64_id i Hi). reflexivity. Qed.
Lemma span_first_exact n c : is_size_t c -> span_first n c = pre_count n c.
Proof. intros Hc. unfold span_first, pre_count. rewrite (u64_id c Hc). reflexivity. Qed.
Lemma span_last_exact n c : is_size_t c -> span_last n c = pre_count n c.
Proof. intros Hc. unfold span_last, pre_count. rewrite (u64_id c Hc). reflexivity. Qed.

Lemma span_subspan_exact n off c : 0 <= n < two64 -> is_size_t off -> is_size_t c ->
  span_subspan n off c = pre_span_subspan n off c.
Proof.
  intros Hn Ho Hc. unfold span_subspan, pre_span_subspan.
  rewrite (u64_id off Ho), (u64_id c Hc).
  destruct (off <=? n) eqn:E1; [|reflexivity].
  assert (Hd : u64 (n - off) = n - off) by (apply u64_id; unf; lia). rewrite Hd.
  unf. destruct (c =? 18446744073709551615) eqn:E2; cbn [negb andb orb]; lia.
Qed.

(* compile-time forms: the same conditions on the template arguments *)
Lemma span_tfirst_exact n c : is_size_t c -> span_tfirst n c = pre_count n c.
Proof. exact (span_first_exact n c). Qed.
Lemma span_tlast_exact n c : is_size_t c -> span_tlast n c = pre_count n c.
Proof. exact (span_last_exact n c). Qed.
Lemma span_tsubspan_exact n off c : 0 <= n < two64 -> is_size_t off -> is_size_t c ->
  span_tsubspan n off c = pre_span_subspan n off c.
Proof. exact (span_subspan_exact n off c). Qed.
Lemma span_tsubspan_site_spec n off c : is_size_t off ->
  (span_tsubspan_site n off c = 0%nat <-> span_tsubspan n off c = true) /\ (span_tsubspan_site n off c = 1%nat <-> off > n).
Proof.
  intros Ho. unfold span_tsubspan_site. pose proof (u64_id off Ho) as Hu.
  destruct (u64 off <=? n) eqn:E.
  - destruct (span_tsubspan n off c); split; split; intros H; try discriminate; try reflexivity; lia.
  - assert (G : span_tsubspan n off c = false) by (unfold span_tsubspan; rewrite E; reflexivity).
    rewrite G. split; split; intros H; try discriminate; try reflexivity. lia.
Qed.

Lemma span_ctor_count_exact ext count : is_size_t ext -> is_size_t count ->
  span_ctor_count ext count = pre_span_ctor ext count.
Proof. intros He Hc. unfold span_ctor_count, pre_span_ctor. rewrite (u64_id ext He), (u64_id count Hc). reflexivity. Qed.

Lemma sv_index_exact n i : is_size_t i -> sv_index n i = pre_index n i.
Proof. intros Hi. unfold sv_index, pre_index. rewrite (u64_id i Hi). reflexivity. Qed.
Lemma sv_front_exact n : 0 <= n -> sv_front n = pre_nonempty n.
Proof. unfold sv_front, pre_nonempty. lia. Qed.
Lemma sv_back_exact n : 0 <= n -> sv_back n = pre_nonempty n.
Proof. unfold sv_back, pre_nonempty. lia. Qed.
Lemma sv_remove_prefix_exact n k : is_size_t k -> sv_remove_prefix n k = pre_count n k.
Proof. intros Hk. unfold sv_remove_prefix, pre_count. rewrite (u64_id k Hk). reflexivity. Qed.
Lemma sv_remove_suffix_exact n k : is_size_t k -> sv_remove_suffix n k = pre_count n k.
Proof. intros Hk. unfold sv_remove_suffix, pre_count. rewrite (u64_id k Hk). reflexivity. Qed.
Lemma sv_substr_exact n pos count : is_size_t pos -> sv_substr n pos count = pre_count n pos.
Proof. intros Hp. unfold sv_substr, pre_count. rewrite (u64_id pos Hp). reflexivity. Qed.
Lemma sv_copy_exact n count pos : is_size_t pos -> sv_copy n count pos = pre_count n pos.
Proof. intros Hp. unfold sv_copy, pre_count. rewrite (u64_id pos Hp). reflexivity. Qed.

Lemma var_subscript_exact a i : var_subscript a i = pre_variant a i.
Proof. reflexivity. Qed.
Lemma var_unchecked_get_exact a i : var_unchecked_get a i = pre_variant a i.
Proof. reflexivity. Qed.

(* bit position guards for the four word widths: pos is a value of the same unsigned type *)
Lemma bit_guard_exact w pos : (w = 8 \/ w = 16 \/ w = 32 \/ w = 64) -> 0 <= pos < 2 ^ w ->
  bit_guard w pos = pre_index w pos.
Proof.
  intros Hw Hp. unfold bit_guard, pre_index, wrapu. rewrite Z.mod_small by lia. reflexivity.
Qed.

Lemma bitset_guard_exact nbits pos : is_size_t pos -> bitset_guard nbits pos = pre_index nbits pos.
Proof. intros Hp. unfold bitset_guard, pre_index. rewrite (u64_id pos Hp). reflexivity. Qed.

Lemma layout_stride_exact rank r : is_size_t r -> layout_stride_guard rank r = pre_index rank r.
Proof. intros Hp. unfold layout_stride_guard, pre_index. rewrite (u64_id r Hp). reflexivity. Qed.

Lemma array_index_safe_exact n i : is_size_t i -> array_index true n i = pre_index n i.
Proof. intros Hi. unfold array_index, pre_index. rewrite (u64_id i Hi). reflexivity. Qed.

Lemma day_ctor_exact d : 0 <= d < 4294967296 -> day_ctor d = (d <=? 255).
Proof. intros H. unfold day_ctor, wrapu. change (2 ^ 32) with 4294967296. rewrite Z.mod_small by lia. reflexivity. Qed.
