(* C05 proofs, part 4: format_escaped_sequences — the scan (first '{' of the rest; if another '{' follows, the first '}'
   after it must be followed by another '}'; continue behind it) reaches TETL_PRECONDITION(false) exactly when the text is
   not of the documented form  plain "{{" inner "}}" ... plain  ([fmt_ok]); the fuel |text| + 1 always suffices. *)
From Tetl Require Import Lib.Base C05.ModelMore C05.SpecMore.
From Coq Require Import ZifyBool.
Local Open Scope Z_scope.

Lemma find_from_spec c : forall l, exists pre, l = pre ++ find_from c l /\ no_char c pre /\
  (find_from c l = [] \/ exists r, find_from c l = c :: r).
Proof.
  induction l as [|x l IH].
  - exists []. split; [reflexivity|]. split; [constructor|left; reflexivity].
  - cbn [find_from]. destruct (x =? c) eqn:E.
    + exists []. split; [reflexivity|]. split; [constructor|]. right. exists l. f_equal. lia.
    + destruct IH as (pre & H1 & H2 & H3). exists (x :: pre).
      split; [cbn [app]; f_equal; exact H1|]. split; [constructor; [lia|exact H2]|exact H3].
Qed.

Lemma find_from_app c pre post : no_char c pre -> find_from c (pre ++ c :: post) = c :: post.
Proof.
  induction pre as [|x pre IH]; intros H; cbn [app find_from].
  - rewrite Z.eqb_refl. reflexivity.
  - inversion H as [|? ? Hx Hr]; subst. replace (x =? c) with false by lia. apply IH. exact Hr.
Qed.

(* what a well-formed text looks like behind its first "{{" *)
Lemma fmt_ok_inv first : fmt_ok first -> forall after, find_from 123 first = 123 :: 123 :: after ->
  exists inner rest, after = inner ++ 125 :: 125 :: rest /\ no_char 125 inner /\ fmt_ok rest.
Proof.
  intros H after Ef. inversion H as [l Hplain|pre inner post Hpre Hinner Hpost]; subst.
  - exfalso. destruct (find_from_spec 123 first) as (pre & Hs & Hp & _). rewrite Ef in Hs.
    exact (Hplain pre after Hp Hs).
  - rewrite (find_from_app 123 pre _ Hpre) in Ef. inversion Ef; subst. exists inner, post. tauto.
Qed.

Lemma fmt_ok_close first after : fmt_ok first -> find_from 123 first = 123 :: 123 :: after ->
  exists rest, find_from 125 after = 125 :: 125 :: rest /\ fmt_ok rest.
Proof.
  intros H Ef. destruct (fmt_ok_inv first H after Ef) as (inner & rest & -> & Hi & Hr).
  exists rest. split; [apply find_from_app; exact Hi|exact Hr].
Qed.

Lemma fmt_loop_spec : forall fuel first, (length first < fuel)%nat ->
  exists b, fmt_loop fuel first = Some b /\ (b = true <-> fmt_ok first).
Proof.
  unfold open_brace, close_brace.
  induction fuel as [|k IH]; intros first Hf; [lia|].
  cbn [fmt_loop]. unfold open_brace, close_brace.
  destruct (find_from_spec 123 first) as (pre & Hsplit & Hpre & Hhead).
  destruct (find_from 123 first) as [|o1 [|o2 after]] eqn:Ef.
  - exists true. split; [reflexivity|]. split; [intros _|reflexivity].
    apply fmt_plain. intros pre' post' Hn Heq. rewrite Heq, (find_from_app 123 pre' _ Hn) in Ef. discriminate.
  - exists true. split; [reflexivity|]. split; [intros _|reflexivity].
    apply fmt_plain. intros pre' post' Hn Heq. rewrite Heq, (find_from_app 123 pre' _ Hn) in Ef. discriminate.
  - assert (Ho1 : o1 = 123) by (destruct Hhead as [Hh|(r & Hh)]; [discriminate|inversion Hh; reflexivity]). subst o1.
    destruct (o2 =? 123) eqn:E2.
    + assert (Ho2 : o2 = 123) by lia. subst o2.
      destruct (find_from_spec 125 after) as (inner & Hs2 & Hinner & Hhead2).
      destruct (find_from 125 after) as [|c1 [|c2 rest]] eqn:Ec.
      * exists false. split; [reflexivity|]. split; [discriminate|]. intros Hok. exfalso.
        destruct (fmt_ok_close first after Hok Ef) as (r & Hr & _). rewrite Ec in Hr. discriminate.
      * exists false. split; [reflexivity|]. split; [discriminate|]. intros Hok. exfalso.
        destruct (fmt_ok_close first after Hok Ef) as (r & Hr & _). rewrite Ec in Hr. discriminate.
      * assert (Hc1 : c1 = 125) by (destruct Hhead2 as [Hh|(r & Hh)]; [discriminate|inversion Hh; reflexivity]). subst c1.
        destruct (c2 =? 125) eqn:E3.
        -- assert (Hc2 : c2 = 125) by lia. subst c2.
           assert (Hlen : (length rest < k)%nat).
           { rewrite Hsplit, Hs2 in Hf. rewrite !app_length in Hf. cbn [length] in Hf. rewrite app_length in Hf. cbn [length] in Hf. lia. }
           destruct (IH rest Hlen) as (b & Hb & Hiff). exists b. split; [exact Hb|]. rewrite Hiff. split.
           ++ intros Hr. rewrite Hsplit, Hs2. apply fmt_escape; assumption.
           ++ intros Hok. destruct (fmt_ok_close first after Hok Ef) as (r & Hr & Hrok).
              rewrite Ec in Hr. inversion Hr; subst. exact Hrok.
        -- exists false. split; [reflexivity|]. split; [discriminate|]. intros Hok. exfalso.
           destruct (fmt_ok_close first after Hok Ef) as (r & Hr & _). rewrite Ec in Hr. inversion Hr; subst. lia.
    + exists true. split; [reflexivity|]. split; [intros _|reflexivity].
      apply fmt_plain. intros pre' post' Hn Heq. rewrite Heq, (find_from_app 123 pre' _ Hn) in Ef.
      inversion Ef; subst. lia.
Qed.

Lemma format_escaped_guard_exact str :
  exists b, format_escaped_guard str = Some b /\ (b = true <-> fmt_ok str).
Proof. unfold format_escaped_guard. apply fmt_loop_spec. lia. Qed.

(** * the automaton [fmt_dfa] of SpecMore.v accepts exactly the well-formed texts *)
Lemma run_accept l : fold_left fmt_next l FAccept = FAccept.
Proof. induction l as [|x l IH]; [reflexivity|exact IH]. Qed.
Lemma run_fail l : fold_left fmt_next l FFail = FFail.
Proof. induction l as [|x l IH]; [reflexivity|exact IH]. Qed.

Lemma run_plain : forall l, fmt_run FPlain l =
  match find_from 123 l with
  | _ :: o2 :: after => if o2 =? 123 then fmt_run FEsc after else true
  | _ => true
  end.
Proof.
  induction l as [|x l IH]; [reflexivity|].
  unfold fmt_run in *. cbn [find_from fold_left fmt_next]. destruct (x =? 123) eqn:E.
  - destruct l as [|o2 after]; [reflexivity|]. cbn [fold_left fmt_next].
    destruct (o2 =? 123); [reflexivity|]. rewrite run_accept. reflexivity.
  - exact IH.
Qed.

Lemma run_esc : forall l, fmt_run FEsc l =
  match find_from 125 l with
  | _ :: c2 :: rest => if c2 =? 125 then fmt_run FPlain rest else false
  | _ => false
  end.
Proof.
  induction l as [|x l IH]; [reflexivity|].
  unfold fmt_run in *. cbn [find_from fold_left fmt_next]. destruct (x =? 125) eqn:E.
  - destruct l as [|c2 rest]; [reflexivity|]. cbn [fold_left fmt_next].
    destruct (c2 =? 125); [reflexivity|]. rewrite run_fail. reflexivity.
  - exact IH.
Qed.

Lemma fmt_loop_dfa : forall fuel first, (length first < fuel)%nat -> fmt_loop fuel first = Some (fmt_run FPlain first).
Proof.
  induction fuel as [|k IH]; intros first Hf; [lia|].
  cbn [fmt_loop]. rewrite run_plain. unfold open_brace, close_brace.
  destruct (find_from_spec 123 first) as (pre & Hsplit & _ & _).
  destruct (find_from 123 first) as [|o1 [|o2 after]] eqn:Ef; [reflexivity|reflexivity|].
  destruct (o2 =? 123); [|reflexivity].
  rewrite run_esc.
  destruct (find_from_spec 125 after) as (inner & Hs2 & _ & _).
  destruct (find_from 125 after) as [|c1 [|c2 rest]] eqn:Ec; [reflexivity|reflexivity|].
  destruct (c2 =? 125); [|reflexivity].
  apply IH. rewrite Hsplit, Hs2 in Hf. rewrite !app_length in Hf. cbn [length] in Hf. rewrite app_length in Hf.
  cbn [length] in Hf. lia.
Qed.

Lemma fmt_dfa_exact text : fmt_dfa text = true <-> fmt_ok text.
Proof.
  destruct (format_escaped_guard_exact text) as (b & Hb & Hiff).
  unfold format_escaped_guard in Hb. rewrite (fmt_loop_dfa _ text) in Hb by lia.
  inversion Hb as [Hb']. unfold fmt_dfa. rewrite Hb'. exact Hiff.
Qed.

Lemma format_escaped_guard_is_dfa text : format_escaped_guard text = Some (fmt_dfa text).
Proof. unfold format_escaped_guard, fmt_dfa. apply fmt_loop_dfa. lia. Qed.
