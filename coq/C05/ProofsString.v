(* C05, inplace_string: contract exactness of every guarded string operation, from the full buffer-level
   model of C04 (coq/C04/Model.v, ModelQ.v) and its outcome theorem (coq/C04/Total.v: step_outcome).
   Here: the consequences that C05 needs, as equivalences "stops at a TETL_PRECONDITION  <->  the documented
   precondition is false", plus the guards of the replace overloads and of the accessors, which are not
   operations of the C04 history type. *)
From Tetl Require Import Lib.Base Lib.Arr C08.Model C08.ProofsFind C04.Model C04.ModelQ C04.Spec C04.Inv C04.CstrFacts
  C04.InvOps C04.RefineBase C04.RefineQuery C04.Total C05.SpecString.
From Coq Require Import ZifyBool.
Local Open Scope Z_scope.
Ltac Zify.zify_post_hook ::= Z.to_euclidean_division_equations.

(** * mutators of the history type *)
Lemma string_fires_iff s o : inv s -> op_wf o -> ptr_ok o ->
  (step s o = Contract <-> pre_ok s o = false).
Proof.
  intros I W P. pose proof (step_outcome s o I W P) as H. destruct (pre_ok s o).
  - destruct H as (s' & E & _). rewrite E. split; discriminate.
  - split; [reflexivity|intros _; exact H].
Qed.

Lemma string_valid_returns s o : inv s -> op_wf o -> ptr_ok o -> pre_ok s o = true ->
  exists s', step s o = Ok s' /\ inv s' /\ cap s' = cap s /\ ckind s' = ckind s.
Proof.
  intros I W P E. pose proof (step_outcome s o I W P) as H. rewrite E in H.
  destruct H as (s' & E' & K). exists s'. split; [exact E'|exact K].
Qed.

(** * replace overloads: TETL_PRECONDITION(pos <= size()) [and pos2 <= str.size()], nothing else can stop them *)
Lemma wr_not_contract b i v : wr b i v <> Contract.
Proof.
  unfold wr. destruct ((0 <=? i) && (i <? zlen b)); [|discriminate].
  destruct (set b (Z.to_nat i) v); discriminate.
Qed.

Lemma write_range_not_contract : forall l b i, write_range b i l <> Contract.
Proof.
  induction l as [|x l IH]; intros b i; cbn [write_range]; [discriminate|].
  destruct (wr b i x) as [b'| | |] eqn:E; cbn [rbind]; try discriminate.
  - apply IH.
  - exfalso. exact (wr_not_contract b i x E).
Qed.

Lemma take_chk_not_contract src n : take_chk src n <> Contract.
Proof. unfold take_chk. destruct (n <=? zlen src); discriminate. Qed.

Lemma replace_guard s pos count src : replace_m s pos count src = Contract <-> pos > get_size s.
Proof.
  unfold replace_m. destruct (pos <=? get_size s) eqn:E.
  - split; [|lia]. intros H. exfalso.
    destruct (write_range (buf s) pos (firstn (Z.to_nat (rep_n s pos count (zlen src))) src)) as [b| | |] eqn:Ew;
      cbn [rbind] in H; try discriminate. exact (write_range_not_contract _ _ _ Ew).
  - split; [lia|reflexivity].
Qed.

Lemma replace_ptr_guard s pos count src count2 : replace_ptr_m s pos count src count2 = Contract <-> pos > get_size s.
Proof.
  unfold replace_ptr_m. destruct (pos <=? get_size s) eqn:E.
  - split; [|lia]. intros H. exfalso.
    destruct (take_chk src (rep_n s pos count count2)) as [l| | |] eqn:Et; cbn [rbind] in H; try discriminate.
    + destruct (write_range (buf s) pos l) as [b| | |] eqn:Ew; cbn [rbind] in H; try discriminate.
      exact (write_range_not_contract _ _ _ Ew).
    + exact (take_chk_not_contract _ _ Et).
  - split; [lia|reflexivity].
Qed.

(* Char const* overload: the argument is a usable C string (an array holding a null character) *)
Lemma replace_cstr_guard s pos count a : cstr_arg_ok a ->
  (replace_cstr_m s pos count a = Contract <-> pos > get_size s).
Proof.
  intros Ha. unfold replace_cstr_m. destruct (pos <=? get_size s) eqn:E.
  - split; [|lia]. intros H. exfalso.
    destruct (s_cstr a) as [l|] eqn:El; [|exact (proj1 Ha El)].
    destruct (strlen_ok a l Ha El) as (Es & _). rewrite Es in H. cbn [rbind] in H.
    destruct (take_chk a (rep_n s pos count (zlen l))) as [l'| | |] eqn:Et; cbn [rbind] in H; try discriminate.
    + destruct (write_range (buf s) pos l') as [b| | |] eqn:Ew; cbn [rbind] in H; try discriminate.
      exact (write_range_not_contract _ _ _ Ew).
    + exact (take_chk_not_contract _ _ Et).
  - split; [lia|reflexivity].
Qed.

Lemma replace5_guard s pos count src pos2 count2 :
  replace5_m s pos count src pos2 count2 = Contract <-> (pos > get_size s \/ pos2 > zlen src).
Proof.
  unfold replace5_m. destruct (pos <=? get_size s) eqn:E; [|split; [lia|reflexivity]].
  destruct (pos2 <=? zlen src) eqn:E2; [|split; [lia|reflexivity]].
  split; [|lia]. intros H. exfalso.
  match type of H with rbind ?w _ = _ => destruct w as [b| | |] eqn:Ew end; cbn [rbind] in H; try discriminate.
  exact (write_range_not_contract _ _ _ Ew).
Qed.

(** * accessors: operator[] (index <= size(): the terminator is addressable), front / back (not empty) *)
Lemma index_guard s i : index_m s i = Contract <-> negb (i <? sz (get_size s + 1)) = true.
Proof.
  unfold index_m. destruct (i <? sz (get_size s + 1)); cbn [negb].
  - split; [|discriminate]. destruct (nth_error (buf s) (Z.to_nat i)); discriminate.
  - split; reflexivity.
Qed.

Lemma index_guard_exact s i : inv s -> pos_ok i -> (index_m s i = Contract <-> i > get_size s).
Proof.
  intros I Hi. rewrite index_guard. pose proof I as (Hc & _ & Hs & _). unfold cap_ok in Hc. unfold pos_ok in Hi.
  unfold sz. rewrite Z.mod_small by lia. lia.
Qed.

Lemma front_back_guard_exact s :
  (front_m s = Contract <-> get_size s = 0) /\ (back_m s = Contract <-> get_size s = 0).
Proof.
  unfold front_m, back_m. destruct (get_size s =? 0) eqn:E; cbn [negb].
  - split; (split; [lia|reflexivity]).
  - split; (split; [|lia]).
    + destruct (nth_error (buf s) 0); discriminate.
    + destruct (nth_error (buf s) (Z.to_nat (get_size s - 1))); discriminate.
Qed.

(** * the documented precondition in terms of the abstract contents *)
Lemma size_is_length s : inv s -> get_size s = zlen (contents s).
Proof. intros I. symmetry. apply contents_len. exact I. Qed.

(** * [pre_ok] is the documented precondition of the abstract value *)
Lemma pre_ok_is_doc s o : inv s -> pre_ok s o = pre_doc (zlen (contents s)) (cap s) o.
Proof.
  intros I. rewrite <- (size_is_length s I). destruct o; reflexivity.
Qed.

Lemma string_fires_iff_doc s o : inv s -> op_wf o -> ptr_ok o ->
  (step s o = Contract <-> pre_doc (zlen (contents s)) (cap s) o = false).
Proof. intros I W P. rewrite <- (pre_ok_is_doc s o I). apply string_fires_iff; assumption. Qed.

(* against the standard's preconditions: outside the recorded defect region (pos > str.size() in append / assign /
   constructor (str, pos, count)) nothing changes *)
Lemma string_fires_iff_std s o : inv s -> op_wf o -> ptr_ok o -> substr_pos_ok o = true ->
  (step s o = Contract <-> pre_std (zlen (contents s)) (cap s) o = false).
Proof.
  intros I W P S. unfold pre_std. rewrite S, Bool.andb_true_r. apply string_fires_iff_doc; assumption.
Qed.
