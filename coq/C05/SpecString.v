(* C05 specification, part 3: the DOCUMENTED precondition of every mutating inplace_string operation, as a function of
   the abstract value only — the length of the string (|contents|), the capacity and the call's arguments; no buffer,
   no layout, no wrap-around.  (Operations not listed with a condition clamp their arguments and have none.) *)
From Tetl Require Import Lib.Base C04.Model C04.Spec C04.Total.
Local Open Scope Z_scope.

Definition pre_doc (size capacity : Z) (o : op) : bool :=
  match o with
  | OClear | OAppendFill _ _ | OAppendPtr _ _ | OResize _ _ | OSubstr _ _ | OAppendCstr _
  | OFreeErase _ | OFreeEraseIf _ => true
  | OPushBack _ => size <? capacity                                   (* \pre size() < capacity() *)
  | OPopBack => negb (size =? 0)                                       (* \pre size() != 0 *)
  | OAppendRange src | OAppendRangeIn src => size + zlen src <=? capacity   (* \pre distance(first, last) <= capacity() - size(), any iterator category *)
  | OInsertPtr index _ _ | OInsertFill index _ _ | OInsertCstr index _ => index <=? size
  | OErase index _ => index <=? size
  | OEraseRange start distance => (start <=? size) && (distance <=? size - start)   (* [first, last) is a range of *this *)
  | OAssignPtr _ count | OAssignFill count _ => count <=? capacity
  | OSwapWith src => zlen src <=? capacity
  | OAppendStr src => (zlen src <=? capacity) && (size + zlen src <=? capacity)
  | OAppendStrSub src pos count =>
      (zlen src <=? capacity) && ((pos >? zlen src) || (size + Z.min count (zlen src - pos) <=? capacity))
  | OAppendViewSub src pos _ => pos <=? zlen src
  | OAssignCstr a => cstr_len a <=? capacity
  | OAssignStrSub src _ _ => zlen src <=? capacity
  | OAssignViewSub src pos count => (pos <=? zlen src) && (Z.min count (zlen src - pos) <=? capacity)
  | OInsertStrSub index src indexStr _ => (index <=? size) && (indexStr <=? zlen src)
  | OErasePos pos => pos <? size
  end.

(* [string.cons] / [string.append] / [string.assign]: basic_string(str, pos[, n]), append(str, pos, n), assign(str, pos, n)
   throw out_of_range if pos > str.size() — in the exception-free library a precondition, which insert(index, str,
   index_str, count), replace(pos, count, str, pos2, count2) and every string_view overload check.  The three inplace_string
   overloads go through inplace_string::substr instead, which is documented to return an empty string for such a pos, and
   tests/string pins it (`str.append(emptySrc, 1)` must leave str unchanged): recorded as
   KF-C05-string-substr-pos-unchecked.  [pre_std] = [pre_doc] plus the standard's condition on pos *)
Definition substr_pos_ok (o : op) : bool :=
  match o with
  | OAppendStrSub src pos _ | OAssignStrSub src pos _ => pos <=? zlen src
  | _ => true
  end.
Definition pre_std (size capacity : Z) (o : op) : bool := pre_doc size capacity o && substr_pos_ok o.
