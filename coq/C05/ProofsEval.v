(* C05 proofs, part 5: evaluation modes. *)
From Tetl Require Import Lib.Base C05.Model C05.Spec C05.Proofs C05.ModelMode C05.SpecMode C05.ProofsMode C05.ModelEval C05.SpecEval.
Local Open Scope Z_scope.
Ltac Zify.zify_post_hook ::= Z.to_euclidean_division_equations.

Definition is_constant (m : eval_mode) : bool := match m with ConstantEval => true | RunTime => false end.
Definition outcome_doc (o : call_outcome) : doc_outcome :=
  match o with Returns => DocReturns | HandlerCalled => DocHandler | IllFormed => DocRejected | Unchecked => DocUnspecified end.

(* the model is the documented behaviour, for every mode, activation and guard value *)
Lemma guarded_call_doc m active guard :
  outcome_doc (guarded_call m active guard) = doc_call (is_constant m) active guard.
Proof. destruct m, active, guard; reflexivity. Qed.

(* the outcome of a constant evaluation is the image of the run-time outcome: handler <-> ill-formed, nothing else changes *)
Definition to_constant (o : call_outcome) : call_outcome := match o with HandlerCalled => IllFormed | x => x end.
Lemma constant_is_image active guard :
  guarded_call ConstantEval active guard = to_constant (guarded_call RunTime active guard).
Proof. destruct active, guard; reflexivity. Qed.

Lemma never_handler_in_constant active guard : guarded_call ConstantEval active guard <> HandlerCalled.
Proof. destruct active, guard; discriminate. Qed.
Lemma never_ill_formed_at_run_time active guard : guarded_call RunTime active guard <> IllFormed.
Proof. destruct active, guard; discriminate. Qed.

(* accepted as a constant <-> the guard holds; rejected <-> the check is on and the guard is false *)
Lemma accepted_iff m active guard : guarded_call m active guard = Returns <-> guard = true.
Proof. destruct m, active, guard; cbn; split; congruence. Qed.
Lemma rejected_iff active guard : guarded_call ConstantEval active guard = IllFormed <-> (active = true /\ guard = false).
Proof. destruct active, guard; cbn; intuition congruence. Qed.
Lemma handler_iff active guard : guarded_call RunTime active guard = HandlerCalled <-> (active = true /\ guard = false).
Proof. destruct active, guard; cbn; intuition congruence. Qed.

Lemma site_active_doc checks safe lvl :
  site_active checks safe lvl = if lvl then doc_precondition_safe_active checks safe else doc_precondition_active checks safe.
Proof. unfold site_active. rewrite precondition_active_doc, precondition_safe_active_doc. reflexivity. Qed.

Lemma call_in_build_doc m checks safe lvl guard pre : guard = pre ->
  outcome_doc (call_in_build m checks safe lvl guard) =
  doc_call (is_constant m) (if lvl then doc_precondition_safe_active checks safe else doc_precondition_active checks safe) pre.
Proof. intros ->. unfold call_in_build. rewrite guarded_call_doc, site_active_doc. reflexivity. Qed.
