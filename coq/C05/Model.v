(* C05 model: the contract guards as the headers write them.
   Every argument that is a size_t in C++ is a Z here and is first reduced modulo 2^64 (`u64`),
   subtractions of size_t values wrap, comparisons are unsigned — so a guard that can be fooled
   by wrap-around would be visible as a difference from the documented precondition (Spec.v).
   Outcome: `true` = the call is let through, `false` = TETL_PRECONDITION fires.
   The vector operations are not repeated here: their guards live in C01/Model.v (`step`). *)
From Tetl Require Import Lib.Base.
Local Open Scope Z_scope.

Definition u64 (x : Z) : Z := wrapu 64 x.
Definition dyn_extent : Z := 18446744073709551615.   (* etl::dynamic_extent = size_t(-1) *)

(** _span/span.hpp, a span of n elements *)
Definition span_front (n : Z) : bool := negb (n =? 0).
Definition span_back (n : Z) : bool := negb (n =? 0).
Definition span_index (n i : Z) : bool := u64 i <? n.
Definition span_first (n c : Z) : bool := u64 c <=? n.
Definition span_last (n c : Z) : bool := u64 c <=? n.
Definition span_subspan (n off c : Z) : bool :=
  (u64 off <=? n) && (if negb (u64 c =? dyn_extent) then u64 c <=? u64 (n - u64 off) else true).

(** the compile-time forms first<Count>() / last<Count>() / subspan<Offset, Count>() (fix commit b24e9dc): on a span of
    dynamic extent the static_asserts are vacuous (Count <= dynamic_extent; Count == dynamic_extent or
    Count <= dynamic_extent - Offset), so the run-time checks decide:
      TETL_PRECONDITION(Count <= size());
      TETL_PRECONDITION(Offset <= size()); TETL_PRECONDITION(Count != dynamic_extent ? (Count <= size() - Offset) : true);
    the template arguments are size_t constants *)
Definition span_tfirst (n count : Z) : bool := u64 count <=? n.
Definition span_tlast (n count : Z) : bool := u64 count <=? n.
Definition span_tsubspan (n off c : Z) : bool :=
  (u64 off <=? n) && (if negb (u64 c =? dyn_extent) then u64 c <=? u64 (n - u64 off) else true).
(* which of subspan<Offset, Count>()'s two checks fires: 0 = none, 1 = Offset <= size(), 2 = the Count check *)
Definition span_tsubspan_site (n off c : Z) : nat :=
  if u64 off <=? n then (if span_tsubspan n off c then O else 2%nat) else 1%nat.

(** constructors of a span of static extent from a run-time length — span(first, count), span(range), span(span<U, dynamic>):
      TETL_PRECONDITION(extent == dynamic_extent or count == extent)      (count / ranges::size(r) / source.size())
    [span.cons]; before the fix commit the length was silently ignored and size() reported Extent *)
Definition span_ctor_count (ext count : Z) : bool := (u64 ext =? dyn_extent) || (u64 count =? u64 ext).

(** _string_view/basic_string_view.hpp, a view of n characters *)
Definition sv_index (n i : Z) : bool := u64 i <? n.
Definition sv_front (n : Z) : bool := negb (n =? 0).
Definition sv_back (n : Z) : bool := negb (n =? 0).
Definition sv_remove_prefix (n k : Z) : bool := u64 k <=? n.
Definition sv_remove_suffix (n k : Z) : bool := u64 k <=? n.
Definition sv_copy (n count pos : Z) : bool := u64 pos <=? n.
Definition sv_substr (n pos count : Z) : bool := u64 pos <=? n.

(** optional / expected / variant *)
Definition opt_deref (engaged : bool) : bool := engaged.
Definition exp_deref (has_value : bool) : bool := has_value.
Definition exp_error (has_value : bool) : bool := negb has_value.
Definition var_subscript (active i : Z) : bool := i =? active.
Definition var_unchecked_get (active i : Z) : bool := i =? active.

(** div_sat(x, y): y != 0;  chrono::day{d} / month{m}: d <= 255 (unsigned; fix commit 34b6a34, before it d < 255) *)
Definition div_sat_guard (y : Z) : bool := negb (y =? 0).
Definition day_ctor (d : Z) : bool := wrapu 32 d <=? 255.
Definition month_ctor (m : Z) : bool := wrapu 32 m <=? 255.

(** _bit/{set,reset,flip,test}_bit.hpp on a w-bit unsigned word: pos < UInt(digits), pos is a UInt *)
Definition bit_guard (w pos : Z) : bool := wrapu w pos <? w.

(** bitset<N> / basic_bitset<N, W>: pos < size() *)
Definition bitset_guard (nbits pos : Z) : bool := u64 pos <? nbits.

(** array<T, N>::operator[]: checked only under TETL_ENABLE_CONTRACT_CHECKS_SAFE *)
Definition array_index (safe : bool) (n i : Z) : bool := if safe then u64 i <? n else true.

(** layout_left/right/stride::mapping::stride(r): r < rank *)
Definition layout_stride_guard (rank r : Z) : bool := u64 r <? rank.

(** cstring: strcpy/strchr/memmove check their pointer arguments for null *)
Definition nonnull2 (a b : bool) : bool := a && b.
