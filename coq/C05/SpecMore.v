(* C05 specification, part 2: the DOCUMENTED preconditions of the remaining components, as mathematics on
   unbounded integers and lists (no wrap-around, no casts, no loops over indices). *)
From Tetl Require Import Lib.Base C05.Spec.
Local Open Scope Z_scope.

(* static_set(first, last): [first, last) is a valid range of at most max_size() elements; d = last - first *)
Definition pre_range_fits (cap d : Z) : bool := (0 <=? d) && (d <=? cap).

(* strncpy / wcscpy / wcsncpy: both pointers are non-null *)
Definition pre_both_nonnull (dest_nonnull src_nonnull : bool) : bool := dest_nonnull && src_nonnull.

(* linalg: the operands have the same extents (same rank, same extent in every dimension) *)
Definition pre_same_extents (a b : list Z) : Prop := a = b.
(* matrix_vector_product(A, x, y): A is a0 x a1, x has a1 elements, y has a0 elements *)
Definition pre_mvp (a0 a1 x0 y0 : Z) : Prop := a1 = x0 /\ a0 = y0.

(* bitset(str, pos, n, zero, one) [bitset.cons]: pos <= str.size() and each of the
   rlen = min(n, str.size() - pos) characters starting at pos is zero or one *)
Definition slen {A} (l : list A) : Z := Z.of_nat (length l).
Definition pre_bitset_str (str : list Z) (pos n zero one : Z) : bool :=
  (pos <=? slen str) &&
  forallb (fun c => (c =? zero) || (c =? one))
          (firstn (Z.to_nat (Z.min n (slen str - pos))) (skipn (Z.to_nat pos) str)).

(* erase(first, last) / replace(first, last, ...): [first, last) is a range of the string [string.erase], [string.replace]:
   first = begin() + a, last = first + d with  0 <= a,  0 <= d  and  a + d <= size() *)
Definition pre_iter_range (size a d : Z) : bool := (0 <=? a) && (0 <=? d) && (a + d <=? size).

(* to_string<Capacity>(val): the decimal text of val (a '-' for negative values, then the digits without leading
   zeros; "0" for zero) has at most Capacity characters.  For val <> 0 the digit count is the least d with
   |val| < 10^d, so the text fits iff |val| < 10^(Capacity - sign characters)  (10^negative = 0 in Z) *)
Definition pre_to_string (cap val : Z) : bool :=
  if val =? 0 then 1 <=? cap
  else Z.abs val <? 10 ^ (cap - (if val <? 0 then 1 else 0)).

(* format_escaped_sequences(str): the text is a sequence of  plain "{{" inner "}}"  groups followed by plain text, where
   plain holds no '{', inner holds no '}' and the trailing text does not start an escape (its first '{', if any, is
   not followed by another '{') *)
Definition no_char (c : Z) (l : list Z) : Prop := Forall (fun x => x <> c) l.
Definition starts_no_escape (l : list Z) : Prop :=
  forall pre post, no_char 123 pre -> l <> pre ++ 123 :: 123 :: post.
Inductive fmt_ok : list Z -> Prop :=
| fmt_plain l : starts_no_escape l -> fmt_ok l
| fmt_escape pre inner post : no_char 123 pre -> no_char 125 inner -> fmt_ok post ->
    fmt_ok (pre ++ 123 :: 123 :: inner ++ 125 :: 125 :: post).

(* the same language as an automaton that reads the text once, left to right (an executable form of [fmt_ok], proved
   equivalent in ProofsFormat.v; it is the spec leg of the `fmt` probes):
     FPlain  outside an escape, no pending '{'        FOpen   the first '{' of the rest was just read
     FEsc    inside "{{ ... ", no '}' seen yet         FClose  the first '}' of the escape was just read
     FAccept the first '{' was not doubled: the rest of the text is copied as it is         FFail  malformed *)
Inductive fmt_state := FPlain | FOpen | FEsc | FClose | FAccept | FFail.
Definition fmt_next (st : fmt_state) (c : Z) : fmt_state :=
  match st with
  | FPlain => if c =? 123 then FOpen else FPlain
  | FOpen => if c =? 123 then FEsc else FAccept
  | FEsc => if c =? 125 then FClose else FEsc
  | FClose => if c =? 125 then FPlain else FFail
  | FAccept => FAccept
  | FFail => FFail
  end.
Definition fmt_final (st : fmt_state) : bool :=
  match st with FPlain | FOpen | FAccept => true | FEsc | FClose | FFail => false end.
Definition fmt_run (st : fmt_state) (l : list Z) : bool := fmt_final (fold_left fmt_next l st).
Definition fmt_dfa (l : list Z) : bool := fmt_run FPlain l.

(* chrono::day / chrono::month constructors: "may hold any number in [0, 255]" (header comment, [time.cal.day.members]) *)
Definition pre_day_month (d : Z) : bool := d <=? 255.
(* optional::operator-> is documented as total (null for an empty optional); expected::operator-> documents nothing of
   the kind, so the standard's precondition applies: has_value() [expected.object.obs] *)
Definition pre_opt_arrow (engaged : bool) : bool := true.
Definition pre_exp_arrow (has_value : bool) : bool := has_value.
