From Tetl Require Import Lib.Base C06a.Instances C01.Model C01.Spec C05.Model C05.Spec C05.ModelMore C05.SpecMore C05.ModelString C05.ModelMode C05.SpecMode C05.ModelEval C05.SpecEval.
Require Extraction.
Require Import ExtrOcamlBasic.
Extraction Language OCaml.
Extraction "C05_model.ml" wire_anchor
  span_front span_back span_index span_first span_last span_subspan span_tfirst span_tlast span_tsubspan span_tsubspan_site span_ctor_count pre_span_ctor
  sv_index sv_front sv_back sv_remove_prefix sv_remove_suffix sv_copy sv_substr
  opt_deref exp_deref exp_error var_subscript var_unchecked_get div_sat_guard day_ctor month_ctor
  bit_guard bitset_guard array_index layout_stride_guard nonnull2
  pre_nonempty pre_index pre_count pre_span_subspan pre_variant
  step spec_step empty_vec pred_of iv_step iv_spec_step
  static_set_ctor copy_ptrs_guard extents_eq linalg_copy_guard linalg_swap_guard linalg_add_guard linalg_mvp_guard
  layout_stride_stride_guard bitset_str_guard to_string_guard format_escaped_guard
  pre_range_fits pre_both_nonnull pre_bitset_str pre_to_string array_front array_back array0_index opt_arrow exp_arrow
  pre_opt_arrow pre_exp_arrow
  str_iter_range_guard str_iter_range_site pre_iter_range fmt_dfa
  static_set_ctor_site copy_ptrs_site linalg_add_site linalg_mvp_site bitset_str_site span_subspan_site
  str_step str_pre_ok str_pre_doc str_pre_std str_make str_ctor_fill str_make_w str_ctor_fill_w str_make_16 str_ctor_fill_16 str_size str_index str_front str_back
  str_replace str_replace_ptr str_replace_cstr str_replace5
  contract_macros precondition_active precondition_safe_active mode_precondition mode_precondition_safe mode_array_index mode_day_ctor
  doc_precondition_active doc_precondition_safe_active doc_checked
  vec_insert_range vec_assign_range str_append_range pre_vec_insert_range pre_vec_assign_range pre_str_append_range
  guarded_call site_active call_in_build constant_expression_accepted doc_call.
