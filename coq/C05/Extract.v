From Tetl Require Import Lib.Base C06a.Instances C01.Model C01.Spec C05.Model C05.Spec.
Require Extraction.
Require Import ExtrOcamlBasic.
Extraction Language OCaml.
Extraction "C05_model.ml" wire_anchor
  span_front span_back span_index span_first span_last span_subspan
  sv_index sv_front sv_back sv_remove_prefix sv_remove_suffix sv_copy sv_substr
  opt_deref exp_deref exp_error var_subscript var_unchecked_get div_sat_guard day_ctor month_ctor
  bit_guard bitset_guard array_index layout_stride_guard nonnull2
  pre_nonempty pre_index pre_count pre_span_subspan pre_variant
  step spec_step empty_vec pred_of iv_step iv_spec_step.
