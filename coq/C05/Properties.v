(* C05 — contract checks stop every precondition violation first, and only those.
   Part 1 (here): every guard expression, with its size_t wrap-around arithmetic, equals the
   documented precondition for ALL argument values — so a violation always fires the handler and a
   valid call never does.  Part 2: the vector operations, re-exported from C01 (C01_contract_fires,
   C01_vector_refines_std) once those proofs are in (see Properties_vec.v). *)
From Tetl Require Import Lib.Base C05.Model C05.Spec C05.Proofs.
Local Open Scope Z_scope.

Theorem C05_span_subspan_guard_exact : forall n off c,
  0 <= n < two64 -> is_size_t off -> is_size_t c ->
  span_subspan n off c = pre_span_subspan n off c.
Proof. exact span_subspan_exact. Qed.
Print Assumptions C05_span_subspan_guard_exact.

(* first<Count>() / last<Count>() / subspan<Offset, Count>() on a span of dynamic extent (fix b24e9dc): the run-time checks
   equal the [span.sub] preconditions Count <= size() resp. Offset <= size() && (Count == dynamic_extent ||
   Offset + Count <= size()) for ALL template arguments and sizes, and Offset <= size() is the check that fires first *)
Theorem C05_span_compile_time_forms_guard_exact : forall n off c,
  0 <= n < two64 -> is_size_t off -> is_size_t c ->
  span_tfirst n c = pre_count n c /\ span_tlast n c = pre_count n c /\
  span_tsubspan n off c = pre_span_subspan n off c /\
  (span_tsubspan_site n off c = 0%nat <-> span_tsubspan n off c = true) /\
  (span_tsubspan_site n off c = 1%nat <-> off > n).
Proof.
  intros n off c Hn Ho Hc.
  split; [exact (span_tfirst_exact n c Hc)|]. split; [exact (span_tlast_exact n c Hc)|].
  split; [exact (span_tsubspan_exact n off c Hn Ho Hc)|]. exact (span_tsubspan_site_spec n off c Ho).
Qed.
Print Assumptions C05_span_compile_time_forms_guard_exact.

(* span<T, Extent>(first, count) / (range) / (span<U, dynamic_extent>): [span.cons] extent == dynamic_extent || count == extent *)
Theorem C05_span_ctor_guard_exact : forall ext count, is_size_t ext -> is_size_t count ->
  span_ctor_count ext count = pre_span_ctor ext count.
Proof. exact span_ctor_count_exact. Qed.
Print Assumptions C05_span_ctor_guard_exact.

Theorem C05_span_index_guard_exact : forall n i, is_size_t i -> span_index n i = pre_index n i.
Proof. exact span_index_exact. Qed.
Print Assumptions C05_span_index_guard_exact.

Theorem C05_span_first_last_guard_exact : forall n c, is_size_t c ->
  span_first n c = pre_count n c /\ span_last n c = pre_count n c.
Proof. intros n c H. split; [apply span_first_exact|apply span_last_exact]; exact H. Qed.
Print Assumptions C05_span_first_last_guard_exact.

Theorem C05_span_front_back_guard_exact : forall n, 0 <= n ->
  span_front n = pre_nonempty n /\ span_back n = pre_nonempty n.
Proof. intros n H. split; [apply span_front_exact|apply span_back_exact]; exact H. Qed.
Print Assumptions C05_span_front_back_guard_exact.

Theorem C05_string_view_guards_exact : forall n i k pos count,
  0 <= n -> is_size_t i -> is_size_t k -> is_size_t pos ->
  sv_index n i = pre_index n i /\ sv_front n = pre_nonempty n /\ sv_back n = pre_nonempty n /\
  sv_remove_prefix n k = pre_count n k /\ sv_remove_suffix n k = pre_count n k /\
  sv_substr n pos count = pre_count n pos /\ sv_copy n count pos = pre_count n pos.
Proof.
  intros n i k pos count Hn Hi Hk Hp.
  repeat split; [apply sv_index_exact|apply sv_front_exact|apply sv_back_exact|apply sv_remove_prefix_exact
                |apply sv_remove_suffix_exact|apply sv_substr_exact|apply sv_copy_exact]; assumption.
Qed.
Print Assumptions C05_string_view_guards_exact.

Theorem C05_variant_guard_exact : forall active i,
  var_subscript active i = pre_variant active i /\ var_unchecked_get active i = pre_variant active i.
Proof. intros. split; reflexivity. Qed.
Print Assumptions C05_variant_guard_exact.

Theorem C05_bit_guard_exact : forall w pos, (w = 8 \/ w = 16 \/ w = 32 \/ w = 64) -> 0 <= pos < 2 ^ w ->
  bit_guard w pos = pre_index w pos.
Proof. exact bit_guard_exact. Qed.
Print Assumptions C05_bit_guard_exact.

Theorem C05_bitset_guard_exact : forall nbits pos, is_size_t pos -> bitset_guard nbits pos = pre_index nbits pos.
Proof. exact bitset_guard_exact. Qed.
Print Assumptions C05_bitset_guard_exact.

Theorem C05_layout_stride_guard_exact : forall rank r, is_size_t r -> layout_stride_guard rank r = pre_index rank r.
Proof. exact layout_stride_exact. Qed.
Print Assumptions C05_layout_stride_guard_exact.

Theorem C05_array_index_safe_guard_exact : forall n i, is_size_t i -> array_index true n i = pre_index n i.
Proof. exact array_index_safe_exact. Qed.
Print Assumptions C05_array_index_safe_guard_exact.

Theorem C05_day_month_ctor_guard_exact : forall d, 0 <= d < 4294967296 ->
  day_ctor d = (d <=? 255) /\ month_ctor d = (d <=? 255).
Proof. intros d H. split; apply day_ctor_exact; exact H. Qed.
Print Assumptions C05_day_month_ctor_guard_exact.

Example C05_nonvacuous :
  span_subspan 3 2 dyn_extent = true /\ span_subspan 3 2 2 = false /\ span_subspan 3 4 dyn_extent = false
  /\ pre_span_subspan 3 2 1 = true /\ bit_guard 8 8 = false /\ bitset_guard 65 64 = true
  /\ span_tfirst 3 3 = true /\ span_tlast 3 4 = false /\ span_tsubspan 3 1 2 = true /\ span_tsubspan 3 1 3 = false
  /\ span_tsubspan_site 3 4 dyn_extent = 1%nat /\ span_tsubspan_site 3 2 2 = 2%nat
  /\ span_ctor_count 3 3 = true /\ span_ctor_count 3 2 = false /\ span_ctor_count dyn_extent 2 = true /\ span_ctor_count 0 1 = false.
Proof. vm_compute. repeat split; reflexivity. Qed.
