(* C05 specification, part 5: what a contract violation means in each evaluation mode.

   Property C05: "calling an operation with arguments that violate its documented precondition invokes the assertion handler
   ... before anything else happens".  The handler is an ordinary (non-constexpr) function, so for a call that is part of a
   constant expression the same sentence reads: the violating call is NOT a constant expression - the translation unit is
   rejected; and a call with valid arguments stays usable in constant expressions (the library declares these functions
   constexpr).  [active] = the check's level is switched on in the build, [pre] = the documented precondition holds. *)
From Tetl Require Import Lib.Base.

Inductive doc_outcome :=
  | DocReturns        (* valid call: returns normally, in both modes *)
  | DocHandler        (* run time, check on, violated: the handler runs *)
  | DocRejected       (* constant evaluation, check on, violated: ill-formed *)
  | DocUnspecified.   (* violated and the check's level is off: no promise *)

Definition doc_call (constant_evaluated active pre : bool) : doc_outcome :=
  if pre then DocReturns
  else if active then (if constant_evaluated then DocRejected else DocHandler)
  else DocUnspecified.
