(* C05, part 4: the guards of the remaining components equal their documented preconditions for ALL arguments
   (ModelMore.v against SpecMore.v): static_set(first, last), strncpy / wcscpy / wcsncpy, the linalg
   extents-compatibility guards (blas1 add / copy / swap_elements, blas2 matrix_vector_product),
   layout_stride::mapping::stride, the bitset string constructor, to_string<Capacity>, format_escaped_sequences,
   array front/back, optional / expected operator->. *)
From Tetl Require Import Lib.Base C05.Model C05.Spec C05.ModelMore C05.SpecMore C05.ProofsMore C05.ProofsToString C05.ProofsFormat.
Local Open Scope Z_scope.

(* static_set(first, last), random access iterators: d = last - first is ANY ptrdiff_t value; the conversion of d to
   size_type is only reached for d >= 0, so the pair of checks is 0 <= d <= max_size() *)
Theorem C05_static_set_ctor_guard_exact : forall cap d, - 9223372036854775808 <= d < 9223372036854775808 ->
  static_set_ctor cap d = pre_range_fits cap d.
Proof. exact static_set_ctor_exact. Qed.
Print Assumptions C05_static_set_ctor_guard_exact.

Theorem C05_copy_ptrs_guard_exact : forall dest_nonnull src_nonnull,
  copy_ptrs_guard dest_nonnull src_nonnull = pre_both_nonnull dest_nonnull src_nonnull.
Proof. exact copy_ptrs_guard_exact. Qed.
Print Assumptions C05_copy_ptrs_guard_exact.

(* linalg: every rank and every extent value.  (Lists of different length = extents of different rank: `extents ==` then
   answers false at compile time.  No linalg function reaches its check with operands of different rank: add / copy
   require equal ranks, and swap_elements — whose requires-clause compares InOutObj1::rank() with itself — fails to
   compile in its body (`y(i)` with the wrong number of indices); tried, see props/C05/REVIEW.md F9.) *)
Theorem C05_linalg_guards_exact :
  (forall x y, linalg_copy_guard x y = true <-> pre_same_extents x y) /\
  (forall x y, linalg_swap_guard x y = true <-> pre_same_extents x y) /\
  (forall x y z, linalg_add_guard x y z = true <-> (pre_same_extents x y /\ pre_same_extents x z)) /\
  (forall a0 a1 x0 y0, linalg_mvp_guard a0 a1 x0 y0 = true <-> pre_mvp a0 a1 x0 y0).
Proof. exact (conj extents_eq_iff (conj extents_eq_iff (conj linalg_add_guard_iff linalg_mvp_guard_iff))). Qed.
Print Assumptions C05_linalg_guards_exact.

Theorem C05_layout_stride_stride_guard_exact : forall rank i, is_size_t i ->
  layout_stride_stride_guard rank i = pre_index rank i.
Proof. exact layout_stride_stride_exact. Qed.
Print Assumptions C05_layout_stride_stride_guard_exact.

(* bitset(str, pos, n, zero, one): every string shorter than 2^64, every size_t pos and n (incl. npos) *)
Theorem C05_bitset_string_ctor_guard_exact : forall str pos n zero one,
  slen str < two64 -> is_size_t pos -> is_size_t n ->
  bitset_str_guard str pos n zero one = pre_bitset_str str pos n zero one.
Proof. exact bitset_str_guard_exact. Qed.
Print Assumptions C05_bitset_string_ctor_guard_exact.

(* erase(first, last) and the iterator-based replace(first, last, ...) overloads of inplace_string: first = begin() + a,
   last = first + d for ANY ptrdiff_t a and d (before begin(), behind end(), last before first): the two checks on the
   differences converted to size_type are exactly "[first, last) is a range of the string", and `start <= size()` is the
   one that fires when first itself is outside *)
Theorem C05_string_iterator_range_guard_exact : forall size a d, 0 <= size < 2 ^ 62 ->
  - 2 ^ 63 <= a < 2 ^ 63 -> - 2 ^ 63 <= d < 2 ^ 63 ->
  str_iter_range_guard size a d = pre_iter_range size a d /\
  (str_iter_range_site size a d = 0%nat <-> str_iter_range_guard size a d = true) /\
  (str_iter_range_site size a d = 1%nat <-> ~ (0 <= a <= size)).
Proof.
  intros size a d Hs Ha Hd. split; [exact (str_iter_range_guard_exact size a d Hs Ha Hd)|].
  exact (str_iter_range_site_spec size a d Hs Ha).
Qed.
Print Assumptions C05_string_iterator_range_guard_exact.

(* to_string<Capacity>(val): every capacity, every value of a 64-bit (or narrower) signed or unsigned type; the
   64 iterations of fuel always suffice ([Some]) *)
Theorem C05_to_string_guard_exact : forall cap v, 0 <= cap < two64 - 1 -> - 2 ^ 63 <= v < 2 ^ 64 ->
  to_string_guard cap v = Some (pre_to_string cap v).
Proof. exact to_string_guard_exact. Qed.
Print Assumptions C05_to_string_guard_exact.

(* format_escaped_sequences(text) (what format_to runs on every slice of text between arguments): for EVERY text the scan
   terminates within its fuel and reaches TETL_PRECONDITION(false) exactly when the text is not of the form
   plain "{{" inner "}}" ... tail  (plain without '{', inner without '}', the tail's first '{' not followed by '{') *)
Theorem C05_format_escaped_guard_exact : forall text,
  exists b, format_escaped_guard text = Some b /\ (b = true <-> fmt_ok text).
Proof. exact format_escaped_guard_exact. Qed.
Print Assumptions C05_format_escaped_guard_exact.

(* the executable form of the specification used as the spec leg of the `fmt` probes — a six-state automaton reading the text
   once — accepts exactly the well-formed texts, and the scan of the header computes it *)
Theorem C05_format_spec_automaton_exact : forall text,
  (fmt_dfa text = true <-> fmt_ok text) /\ format_escaped_guard text = Some (fmt_dfa text).
Proof. intros text. split; [exact (fmt_dfa_exact text)|exact (format_escaped_guard_is_dfa text)]. Qed.
Print Assumptions C05_format_spec_automaton_exact.

(* array<T, N>::front() / back() for every N (only N = 0 can violate); operator[] of array<T, 0> in SAFE mode *)
Theorem C05_array_front_back_guard_exact : forall n, 0 <= n ->
  array_front n = pre_nonempty n /\ array_back n = pre_nonempty n /\ array0_index true = pre_index 0 0.
Proof. intros n H. unfold array_front, array_back, pre_nonempty. repeat split; try reflexivity; apply Bool.eq_true_iff_eq; rewrite Bool.negb_true_iff, Z.eqb_neq, Z.ltb_lt; split; intro; auto with zarith. Qed.
Print Assumptions C05_array_front_back_guard_exact.

(* operator->: optional's is total as documented (never fires, nothing to fire for); expected's has no check although
   std::expected::operator-> requires has_value() (recorded known finding KF-C05-expected-arrow-unchecked) *)
Theorem C05_optional_arrow_total : forall engaged, opt_arrow engaged = pre_opt_arrow engaged.
Proof. reflexivity. Qed.
Print Assumptions C05_optional_arrow_total.

Theorem C05_expected_arrow_refuted : exists has_value, exp_arrow has_value <> pre_exp_arrow has_value.
Proof. exists false. discriminate. Qed.
Print Assumptions C05_expected_arrow_refuted.

(* order of the checks in the functions that make two: which one hands its location to the handler.
   site 0 <-> the call is let through; site 1 <-> the FIRST documented clause is violated (so site 2 <-> only the second) *)
Theorem C05_check_order :
  (forall cap d, (static_set_ctor_site cap d = 0%nat <-> static_set_ctor cap d = true) /\ (static_set_ctor_site cap d = 1%nat <-> d < 0)) /\
  (forall d s, (copy_ptrs_site d s = 0%nat <-> copy_ptrs_guard d s = true) /\ (copy_ptrs_site d s = 1%nat <-> d = false)) /\
  (forall x y z, (linalg_add_site x y z = 0%nat <-> linalg_add_guard x y z = true) /\ (linalg_add_site x y z = 1%nat <-> ~ pre_same_extents x y)) /\
  (forall a0 a1 x0 y0, (linalg_mvp_site a0 a1 x0 y0 = 0%nat <-> linalg_mvp_guard a0 a1 x0 y0 = true) /\ (linalg_mvp_site a0 a1 x0 y0 = 1%nat <-> a1 <> x0)) /\
  (forall str pos n zero one, is_size_t pos ->
     (bitset_str_site str pos n zero one = 0%nat <-> bitset_str_guard str pos n zero one = true) /\
     (bitset_str_site str pos n zero one = 1%nat <-> pos > slen str)) /\
  (forall n off c, is_size_t off ->
     (span_subspan_site n off c = 0%nat <-> span_subspan n off c = true) /\ (span_subspan_site n off c = 1%nat <-> off > n)).
Proof.
  exact (conj static_set_ctor_site_spec (conj copy_ptrs_site_spec (conj linalg_add_site_spec (conj linalg_mvp_site_spec
          (conj bitset_str_site_spec span_subspan_site_spec))))).
Qed.
Print Assumptions C05_check_order.

Example C05_more_nonvacuous :
  static_set_ctor 4 4 = true /\ static_set_ctor 4 5 = false /\ static_set_ctor 4 (-1) = false /\
  linalg_add_guard [2; 3] [2; 3] [2; 4] = false /\ linalg_swap_guard [2] [2; 1] = false /\
  bitset_str_guard [48; 49; 50] 0 2 48 49 = true /\ bitset_str_guard [48; 49; 50] 0 18446744073709551615 48 49 = false /\
  bitset_str_guard [48; 49; 50] 4 0 48 49 = false /\
  to_string_guard 3 (-99) = Some true /\ to_string_guard 3 (-100) = Some false /\ to_string_guard 0 0 = Some false /\
  pre_to_string 3 999 = true /\ pre_to_string 3 1000 = false /\
  str_iter_range_guard 3 1 2 = true /\ str_iter_range_guard 3 1 3 = false /\ str_iter_range_guard 3 2 (-1) = false /\
  str_iter_range_guard 3 (-1) 1 = false /\ str_iter_range_site 3 4 0 = 1%nat /\ str_iter_range_site 3 2 2 = 2%nat.
Proof. vm_compute. repeat split; reflexivity. Qed.
