(* C15 proofs, part 10: the variadic helpers (ModelVariadic.v).
   detail::vmax IS the maximum of its pack, for every pack (any length, any order, duplicates), hence
   invariant under every permutation of the pack; aligned_union's alignment_value / size are the
   standard's; conjunction / disjunction pick the operand [meta.logical] names; the n-ary common_type
   is the standard's left fold on all lists of well-formed types. *)
From Coq Require Import NArith Permutation.
From Tetl Require Import Lib.Base C15.Types C15.Model C15.Spec C15.ProofsTrans C15.ProofsWf C15.ModelVariadic.
Local Open Scope Z_scope.
Ltac Zify.zify_post_hook ::= Z.to_euclidean_division_equations.

(** * vmax *)
Lemma vmax_m_is_max : forall vs v, is_max (vmax_m v vs) (v :: vs).
Proof.
  induction vs as [|v2 r IH]; intros v.
  - cbn [vmax_m]. split; [left; reflexivity | intros x [Hx|[]]; lia].
  - cbn [vmax_m]. destruct (v >? v2) eqn:E.
    + destruct (IH v) as [Hin Hle]. split.
      * destruct Hin as [Hin|Hin]; [left; exact Hin | right; right; exact Hin].
      * intros x [Hx|[Hx|Hx]].
        -- apply Hle; left; exact Hx.
        -- subst x. specialize (Hle v (or_introl eq_refl)). lia.
        -- apply Hle; right; exact Hx.
    + destruct (IH v2) as [Hin Hle]. split.
      * right; exact Hin.
      * intros x [Hx|[Hx|Hx]].
        -- subst x. specialize (Hle v2 (or_introl eq_refl)). lia.
        -- apply Hle; left; exact Hx.
        -- apply Hle; right; exact Hx.
Qed.

Lemma is_max_unique : forall l m m', is_max m l -> is_max m' l -> m = m'.
Proof. intros l m m' [I1 L1] [I2 L2]. specialize (L1 _ I2). specialize (L2 _ I1). lia. Qed.

Lemma list_max_is_max : forall vs v, is_max (list_max v vs) (v :: vs).
Proof.
  induction vs as [|v2 r IH]; intros v.
  - cbn. split; [left; reflexivity | intros x [Hx|[]]; lia].
  - unfold list_max; cbn [fold_right]. fold (list_max v r). destruct (IH v) as [Hin Hle]. split.
    + destruct (Z.max_spec v2 (list_max v r)) as [[_ E]|[_ E]]; rewrite E.
      * destruct Hin as [Hin|Hin]; [left; exact Hin | right; right; exact Hin].
      * right; left; reflexivity.
    + intros x [Hx|[Hx|Hx]].
      * specialize (Hle x (or_introl Hx)). lia.
      * subst x. lia.
      * specialize (Hle x (or_intror Hx)). lia.
Qed.

Theorem vmax_m_list_max : forall v vs, vmax_m v vs = list_max v vs.
Proof. intros v vs. eapply is_max_unique; [apply vmax_m_is_max | apply list_max_is_max]. Qed.

Lemma is_max_perm : forall l l' m, Permutation l l' -> is_max m l -> is_max m l'.
Proof.
  intros l l' m P [I L]. split.
  - eapply Permutation_in; eassumption.
  - intros x Hx. apply L. eapply Permutation_in; [apply Permutation_sym; exact P | exact Hx].
Qed.

Theorem vmax_m_perm : forall v vs w ws, Permutation (v :: vs) (w :: ws) -> vmax_m v vs = vmax_m w ws.
Proof.
  intros v vs w ws P. eapply is_max_unique; [|apply vmax_m_is_max].
  eapply is_max_perm; [exact P | apply vmax_m_is_max].
Qed.

(* the particular shape of a wrong early exit: an earlier value that exceeds its successor does not
   hide a later, larger one *)
Example vmax_m_peak_last : vmax_m 4 [1; 8] = 8 /\ vmax_m 20 [3; 40] = 40 /\ vmax_m 2 [1; 16; 4; 16] = 16.
Proof. repeat split. Qed.

(** * aligned_union *)
Lemma opt_list_perm : forall (A : Type) (l l' : list (option A)), Permutation l l' ->
  match opt_list l, opt_list l' with
  | Some s, Some s' => Permutation s s'
  | None, None => True
  | _, _ => False
  end.
Proof.
  intros A l l' P; induction P as [|x l l' P IH|x y l|l l' l'' P1 IH1 P2 IH2].
  - cbn. constructor.
  - cbn [opt_list]. destruct x as [x|]; [|exact I].
    destruct (opt_list l), (opt_list l'); try contradiction; [constructor; exact IH | exact I].
  - cbn [opt_list]. destruct x as [x|], y as [y|]; try exact I;
      destruct (opt_list l); try exact I. apply perm_swap.
  - destruct (opt_list l), (opt_list l'), (opt_list l''); try contradiction; try exact I.
    eapply Permutation_trans; eassumption.
Qed.

Lemma opt_list_In : forall (A : Type) (l : list (option A)) s x, opt_list l = Some s ->
  In (Some x) l <-> In x s.
Proof.
  intros A l; induction l as [|[y|] r IH]; intros s x H; cbn [opt_list] in H.
  - inversion H; subst. cbn. tauto.
  - destruct (opt_list r) as [xs|] eqn:E; [|discriminate]. inversion H; subst. cbn [In].
    rewrite (IH xs x eq_refl). split; intros [H1|H1]; auto; left; congruence.
  - discriminate.
Qed.

Lemma alignof_t_pos : forall t a, alignof_t t = Some a -> 0 < a.
Proof.
  induction t; intros al H; cbn [alignof_t] in H; try discriminate.
  - inversion H; lia.
  - inversion H; subst. destruct a; cbn; lia.
  - inversion H; subst. destruct under; cbn; lia.
  - inversion H; lia.
  - destruct n; [|discriminate]. apply IHt; exact H.
  - inversion H; lia.
  - apply IHt; exact H.
Qed.

Lemma round_up_spec : forall n a, 0 < a ->
  n <= round_up n a /\ round_up n a mod a = 0 /\ forall k, n <= k -> k mod a = 0 -> round_up n a <= k.
Proof.
  intros n a Ha; unfold round_up. repeat split.
  - pose proof (Z.div_mod (n + a - 1) a ltac:(lia)) as D.
    pose proof (Z.mod_pos_bound (n + a - 1) a Ha) as B.
    rewrite (Z.mul_comm ((n + a - 1) / a) a). lia.
  - apply Z.mod_mul; lia.
  - intros k Hk Hm. apply Z.mod_divide in Hm; [|lia]. destruct Hm as [q Hq]. subst k.
    apply Z.mul_le_mono_nonneg_r; [lia|].
    assert ((n + a - 1) / a < q + 1) as Hlt; [|lia].
    apply Z.div_lt_upper_bound; [exact Ha|]. lia.
Qed.

(* alignment_value is the strictest alignment among the Types (and is one of them); sizeof(type) is the
   least multiple of it that is at least Len and at least every sizeof(Ti); the answer does not
   depend on the order of the Types *)
Theorem aligned_union_m_spec : forall len tys al b sz,
  aligned_union_m len tys = Some (al, b, sz) ->
  aligned_union_spec len tys = Some (al, sz)
  /\ (exists t, In t tys /\ alignof_t t = Some al)
  /\ (forall t a, In t tys -> alignof_t t = Some a -> a <= al)
  /\ len <= sz /\ (forall t s, In t tys -> sizeof_t t = Some s -> s <= sz)
  /\ sz mod al = 0
  /\ (forall k, len <= k -> (forall t s, In t tys -> sizeof_t t = Some s -> s <= k) -> k mod al = 0 -> sz <= k).
Proof.
  intros len tys al b sz H. unfold aligned_union_m in H. unfold aligned_union_spec.
  destruct (opt_list (map alignof_t tys)) as [[|a ar]|] eqn:EA; try discriminate.
  destruct (opt_list (map sizeof_t tys)) as [ss|] eqn:ES; try discriminate.
  inversion H; subst al b sz; clear H.
  rewrite <- !vmax_m_list_max.
  destruct (vmax_m_is_max ar a) as [AI AL]. destruct (vmax_m_is_max ss len) as [SI SL].
  assert (Hpos : 0 < vmax_m a ar).
  { apply (opt_list_In _ _ _ _ EA) in AI. apply in_map_iff in AI. destruct AI as (t & Ht & _).
    eapply alignof_t_pos; exact Ht. }
  destruct (round_up_spec (vmax_m len ss) (vmax_m a ar) Hpos) as (R1 & R2 & R3).
  repeat split.
  - apply (opt_list_In _ _ _ _ EA) in AI. apply in_map_iff in AI. destruct AI as (t & Ht & Hin).
    exists t; split; assumption.
  - intros t x Hin Hx. apply AL. apply (opt_list_In _ _ _ _ EA). rewrite <- Hx. apply in_map; exact Hin.
  - specialize (SL len (or_introl eq_refl)). lia.
  - intros t s Hin Hs. assert (In s ss) as Hs'.
    { apply (opt_list_In _ _ _ _ ES). rewrite <- Hs. apply in_map; exact Hin. }
    specialize (SL s (or_intror Hs')). lia.
  - exact R2.
  - intros k Hk Hall Hm. apply R3; [|exact Hm].
    destruct SI as [SI|SI]; [rewrite <- SI; exact Hk|].
    apply (opt_list_In _ _ _ _ ES) in SI. apply in_map_iff in SI. destruct SI as (t & Ht & Hin).
    eapply Hall; eassumption.
Qed.

Theorem aligned_union_m_perm : forall len tys tys', Permutation tys tys' ->
  aligned_union_m len tys = aligned_union_m len tys'.
Proof.
  intros len tys tys' P. unfold aligned_union_m.
  pose proof (opt_list_perm _ _ _ (Permutation_map alignof_t P)) as PA.
  pose proof (opt_list_perm _ _ _ (Permutation_map sizeof_t P)) as PS.
  destruct (opt_list (map alignof_t tys)) as [la|], (opt_list (map alignof_t tys')) as [la'|];
    try contradiction; [|reflexivity].
  destruct (opt_list (map sizeof_t tys)) as [ls|], (opt_list (map sizeof_t tys')) as [ls'|];
    try contradiction.
  - destruct la as [|a ar], la' as [|a' ar'].
    + reflexivity.
    + apply Permutation_nil in PA; discriminate.
    + apply Permutation_sym, Permutation_nil in PA; discriminate.
    + rewrite (vmax_m_perm a ar a' ar' PA).
      rewrite (vmax_m_perm len ls len ls' (perm_skip len PS)). reflexivity.
  - destruct la as [|a ar], la' as [|a' ar']; reflexivity.
Qed.

(** * conjunction / disjunction *)
Theorem conjunction_m_spec : forall bs, conjunction_m bs = conjunction_spec bs.
Proof.
  unfold conjunction_spec, logical_spec.
  induction bs as [|b r IH]; [reflexivity|].
  cbn [conjunction_m first_index]. destruct r as [|b2 r'].
  - destruct b; reflexivity.
  - destruct b; cbn [Bool.eqb]; [|reflexivity]. rewrite IH.
    destruct (first_index false (b2 :: r')); [reflexivity|]. cbn [length]. f_equal. lia.
Qed.
Theorem disjunction_m_spec : forall bs, disjunction_m bs = disjunction_spec bs.
Proof.
  unfold disjunction_spec, logical_spec.
  induction bs as [|b r IH]; [reflexivity|].
  cbn [disjunction_m first_index]. destruct r as [|b2 r'].
  - destruct b; reflexivity.
  - destruct b; cbn [Bool.eqb]; [reflexivity|]. rewrite IH.
    destruct (first_index true (b2 :: r')); [reflexivity|]. cbn [length]. f_equal. lia.
Qed.
(* ::value is the conjunction / disjunction of the operands' values *)
Theorem conjunction_value_m_spec : forall bs, conjunction_value_m bs = forallb (fun b => b) bs.
Proof.
  unfold conjunction_value_m. induction bs as [|b r IH]; [reflexivity|].
  cbn [conjunction_m forallb]. destruct r as [|b2 r'].
  - cbn. destruct b; reflexivity.
  - destruct b; [|reflexivity]. rewrite <- IH.
    destruct (conjunction_m (b2 :: r')); reflexivity.
Qed.
Theorem disjunction_value_m_spec : forall bs, disjunction_value_m bs = existsb (fun b => b) bs.
Proof.
  unfold disjunction_value_m. induction bs as [|b r IH]; [reflexivity|].
  cbn [disjunction_m existsb]. destruct r as [|b2 r'].
  - cbn. destruct b; reflexivity.
  - destruct b; [reflexivity|]. rewrite <- IH.
    destruct (disjunction_m (b2 :: r')); reflexivity.
Qed.

(** * n-ary common_type *)
Theorem common_type_from_m_spec : forall r t1, wf t1 = true -> forallb wf r = true ->
  common_type_from_m t1 r = std_common_type_from t1 r.
Proof.
  induction r as [|t2 r' IH]; intros t1 H1 Hr.
  - cbn. apply common_type_m_spec; assumption.
  - cbn [forallb] in Hr. apply andb_prop in Hr. destruct Hr as [H2 Hr].
    cbn [common_type_from_m std_common_type_from]. destruct r' as [|t3 r''].
    + apply common_type_m_spec; assumption.
    + rewrite (common_type_m_spec t1 t2 H1 H2).
      destruct (std_common_type t1 t2) as [c|] eqn:E; [|reflexivity].
      apply IH; [exact (wf_common_type _ _ _ H1 H2 E) | exact Hr].
Qed.
Theorem common_type_n_m_spec : forall l, forallb wf l = true -> common_type_n_m l = std_common_type_n l.
Proof.
  intros [|t1 r] H; [reflexivity|]. cbn [forallb] in H. apply andb_prop in H. destruct H as [H1 Hr].
  apply common_type_from_m_spec; assumption.
Qed.
