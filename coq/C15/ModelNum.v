(* C15 model, part 2: numeric_limits (include/etl/_limits/numeric_limits.hpp with the macros of
   _climits/defines.hpp, _cfloat/defines.hpp), ratio and its arithmetic / comparisons
   (include/etl/_ratio/*.hpp with _math/abs.hpp, _math/sign.hpp, _numeric/gcd.hpp) and
   smallest_size_t, as executable functions on Z.

   numeric_limits: one specialisation per type in the header; the header is transcribed member by
   member ([int_spec] = the members that differ between the integer specialisations, the shared
   members are literally the same text in every specialisation).  The <limits.h>/<float.h> macros
   are the platform's (x86-64 System V, g++ 12 / clang 14).
   ratio: template arguments are intmax_t (64-bit long); every signed operation is checked:
   None = overflow or division by zero inside a constant expression = the program is ill-formed
   (what the compilers report as "not a constant expression"). *)
From Tetl Require Import Lib.Base C15.Types.
Local Open Scope Z_scope.

(** * numeric_limits (member names [lmem] and member values [lval] are in Types.v) *)
(* enumerators of float_round_style / float_denorm_style *)
Definition round_toward_zero : Z := 0.
Definition round_to_nearest : Z := 1.
Definition denorm_absent : Z := 0.
Definition denorm_present : Z := 1.

(* <limits.h> *)
Definition CHAR_BIT : Z := 8.
Definition SCHAR_MIN : Z := -128.
Definition SCHAR_MAX : Z := 127.
Definition UCHAR_MAX : Z := 255.
Definition CHAR_MIN : Z := -128.       (* char is signed on this platform *)
Definition CHAR_MAX : Z := 127.
Definition SHRT_MIN : Z := -32768.
Definition SHRT_MAX : Z := 32767.
Definition USHRT_MAX : Z := 65535.
Definition INT_MIN : Z := -2147483648.
Definition INT_MAX : Z := 2147483647.
Definition UINT_MAX : Z := 4294967295.
Definition LONG_MIN : Z := -9223372036854775808.
Definition LONG_MAX : Z := 9223372036854775807.
Definition ULONG_MAX : Z := 18446744073709551615.
Definition LLONG_MIN : Z := -9223372036854775808.
Definition LLONG_MAX : Z := 9223372036854775807.

(* the members in which the integer specialisations differ *)
Record int_spec := {
  i_min : Z; i_max : Z; i_signed : bool; i_digits : Z; i_digits10 : Z; i_modulo : bool; i_traps : bool
}.
Definition b2z (b : bool) : Z := if b then 1 else 0.
Definition sizeof_bits (a : arith) : Z := abits a.    (* CHAR_BIT * sizeof(T) *)

(* `digits = CHAR_BIT * sizeof(T) - is_signed; digits10 = digits * 3 / 10` *)
Definition std_int_spec (a : arith) (mn mx : Z) (sg md : bool) : int_spec :=
  let d := sizeof_bits a - b2z sg in
  {| i_min := mn; i_max := mx; i_signed := sg; i_digits := d; i_digits10 := Z.quot (d * 3) 10;
     i_modulo := md; i_traps := true |}.

(* detail::char_numeric_limits<T> (wchar_t, char16_t, char32_t): computed from sizeof(T) and
   `T(-1) < T(0)`;  max() = static_cast<T>((((1ULL << (digits - 1)) - 1) << 1) + 1),
   min() = is_signed ? static_cast<T>(-max() - 1) : T(0) *)
Definition char_int_spec (a : arith) : int_spec :=
  let sg := asigned a in                                   (* T(-1) < T(0) *)
  let d := sizeof_bits a - b2z sg in
  let mx64 := wrapu 64 (wrapu 64 (wrapu 64 (wrapu 64 (1 * 2 ^ (d - 1)) - 1) * 2) + 1) in
  let mx := if sg then wraps (abits a) mx64 else wrapu (abits a) mx64 in
  {| i_min := if sg then wraps (abits a) (- mx - 1) else 0; i_max := mx; i_signed := sg;
     i_digits := d; i_digits10 := Z.quot (d * 3) 10; i_modulo := negb sg; i_traps := true |}.

Definition int_spec_of (a : arith) : option int_spec :=
  match a with
  | ABool => Some {| i_min := 0; i_max := 1; i_signed := false; i_digits := 1; i_digits10 := 0;
                     i_modulo := false; i_traps := false |}
  | AChar => let sg := CHAR_MIN <? 0 in Some (std_int_spec AChar CHAR_MIN CHAR_MAX sg (negb sg))
  | ASChar => Some (std_int_spec ASChar SCHAR_MIN SCHAR_MAX (SCHAR_MIN <? 0) false)
  | AUChar => Some (std_int_spec AUChar 0 UCHAR_MAX false true)
  | AChar8 => Some {| i_min := 0; i_max := UCHAR_MAX; i_signed := false; i_digits := 8; i_digits10 := 2;
                      i_modulo := true; i_traps := true |}
  | AShort => Some (std_int_spec AShort SHRT_MIN SHRT_MAX true false)
  | AUShort => Some (std_int_spec AUShort 0 USHRT_MAX false true)
  | AInt => Some (std_int_spec AInt INT_MIN INT_MAX true false)
  | AUInt => Some (std_int_spec AUInt 0 UINT_MAX false true)
  | ALong => Some (std_int_spec ALong LONG_MIN LONG_MAX true false)
  | AULong => Some (std_int_spec AULong 0 ULONG_MAX false true)
  | ALLong => Some (std_int_spec ALLong LLONG_MIN LLONG_MAX true false)
  | AULLong => Some (std_int_spec AULLong 0 (wrapu 64 (-1)) false true)  (* static_cast<unsigned long long>(-1) *)
  | AWChar | AChar16 | AChar32 => Some (char_int_spec a)     (* detail::char_numeric_limits<T> *)
  | _ => None                        (* floats below *)
  end.

Definition int_limits (s : int_spec) (m : lmem) : lval :=
  match m with
  | Lis_specialized => LB true
  | Lmin => LI (i_min s) | Lmax => LI (i_max s) | Llowest => LI (i_min s)
  | Ldigits => LI (i_digits s) | Ldigits10 => LI (i_digits10 s) | Lmax_digits10 => LI 0
  | Lis_signed => LB (i_signed s) | Lis_integer => LB true | Lis_exact => LB true
  | Lradix => LI 2 | Lepsilon => LI 0 | Lround_error => LI 0
  | Lmin_exponent | Lmin_exponent10 | Lmax_exponent | Lmax_exponent10 => LI 0
  | Lhas_infinity | Lhas_quiet_NaN | Lhas_signaling_NaN | Lhas_denorm_loss => LB false
  | Lhas_denorm => LI denorm_absent
  | Linfinity | Lquiet_NaN | Lsignaling_NaN | Ldenorm_min => LI 0
  | Lis_iec559 => LB false | Lis_bounded => LB true | Lis_modulo => LB (i_modulo s)
  | Ltraps => LB (i_traps s) | Ltinyness_before => LB false
  | Lround_style => LI round_toward_zero
  end.

(* the primary template: `T()` everywhere, false, 0 *)
Definition primary_limits (m : lmem) : lval :=
  match m with
  | Lis_specialized | Lis_signed | Lis_integer | Lis_exact | Lhas_infinity | Lhas_quiet_NaN
  | Lhas_signaling_NaN | Lhas_denorm_loss | Lis_iec559 | Lis_bounded | Lis_modulo | Ltraps
  | Ltinyness_before => LB false
  | Lhas_denorm => LI denorm_absent
  | Lround_style => LI round_toward_zero
  | _ => LI 0
  end.

(* <float.h> of the platform: MANT_DIG, DIG, MIN_EXP, MIN_10_EXP, MAX_EXP, MAX_10_EXP *)
Record float_macros := {
  f_mant_dig : Z; f_dig : Z; f_min_exp : Z; f_min_10_exp : Z; f_max_exp : Z; f_max_10_exp : Z
}.
Definition FLT := {| f_mant_dig := 24; f_dig := 6; f_min_exp := -125; f_min_10_exp := -37;
                     f_max_exp := 128; f_max_10_exp := 38 |}.
Definition DBL := {| f_mant_dig := 53; f_dig := 15; f_min_exp := -1021; f_min_10_exp := -307;
                     f_max_exp := 1024; f_max_10_exp := 308 |}.
Definition LDBL := {| f_mant_dig := 64; f_dig := 18; f_min_exp := -16381; f_min_10_exp := -4931;
                      f_max_exp := 16384; f_max_10_exp := 4932 |}.
Definition FLT_RADIX : Z := 2.
(* X_MIN = 2^(MIN_EXP-1), X_MAX = (2^MANT_DIG - 1) * 2^(MAX_EXP - MANT_DIG), X_EPSILON = 2^(1-MANT_DIG),
   X_TRUE_MIN = 2^(MIN_EXP - MANT_DIG): the values of the float.h macros *)
Definition X_MIN (f : float_macros) : lval := mkf 1 (f_min_exp f - 1).
Definition X_MAX (f : float_macros) : lval := mkf (2 ^ f_mant_dig f - 1) (f_max_exp f - f_mant_dig f).
Definition X_EPSILON (f : float_macros) : lval := mkf 1 (1 - f_mant_dig f).
Definition X_TRUE_MIN (f : float_macros) : lval := mkf 1 (f_min_exp f - f_mant_dig f).
Definition neg_lval (v : lval) : lval := match v with LF m e => LF (- m) e | _ => v end.

Definition float_limits (f : float_macros) (m : lmem) : lval :=
  match m with
  | Lis_specialized => LB true
  | Lmin => X_MIN f | Lmax => X_MAX f | Llowest => neg_lval (X_MAX f)
  | Ldigits => LI (f_mant_dig f) | Ldigits10 => LI (f_dig f)
  | Lmax_digits10 => LI (2 + Z.quot (f_mant_dig f * 301) 1000)
  | Lis_signed => LB true | Lis_integer => LB false | Lis_exact => LB false
  | Lradix => LI FLT_RADIX | Lepsilon => X_EPSILON f | Lround_error => mkf 1 (-1)
  | Lmin_exponent => LI (f_min_exp f) | Lmin_exponent10 => LI (f_min_10_exp f)
  | Lmax_exponent => LI (f_max_exp f) | Lmax_exponent10 => LI (f_max_10_exp f)
  | Lhas_infinity | Lhas_quiet_NaN | Lhas_signaling_NaN => LB true
  | Lhas_denorm => LI denorm_present | Lhas_denorm_loss => LB false
  | Linfinity => LInf | Lquiet_NaN => LNaN false       (* TETL_BUILTIN_NAN*("") *)
  | Lsignaling_NaN => LNaN true                           (* TETL_BUILTIN_NANS*("") *)
  | Ldenorm_min => X_TRUE_MIN f
  | Lis_iec559 => LB true | Lis_bounded => LB true | Lis_modulo => LB false
  | Ltraps => LB false | Ltinyness_before => LB false
  | Lround_style => LI round_to_nearest
  end.

(* numeric_limits<T>, and numeric_limits<T cv> : numeric_limits<T>; every arithmetic type has a
   specialisation, the primary template is reached for non-arithmetic T only *)
Definition limits_m (a : arith) (m : lmem) : lval :=
  match a with
  | AFloat => float_limits FLT m
  | ADouble => float_limits DBL m
  | ALDouble => float_limits LDBL m
  | _ => match int_spec_of a with Some s => int_limits s m | None => primary_limits m end
  end.

(** * ratio *)
Definition IMAX_BITS : Z := 64.
Definition ck (x : Z) : option Z := chk i64 x.
Notation "'do' x <- a ; b" := (obind a (fun x => b)) (at level 200, x name, a at level 100, b at level 200).

(* detail::sign: -1 for negative, 1 otherwise *)
Definition sign_m (v : Z) : Z := if v <? 0 then -1 else 1.
(* etl::abs(long): n >= 0 ? n : n * -1 *)
Definition abs_m (n : Z) : option Z := if n >=? 0 then Some n else ck (n * -1).
(* etl::gcd(intmax_t, intmax_t): |m|, |n| as uintmax_t, Euclid's loop, result cast back *)
Definition gcd_abs_m (v : Z) : Z := if v <? 0 then wrapu 64 (0 - wrapu 64 v) else wrapu 64 v.
Fixpoint gcd_loop (fuel : nat) (a b : Z) : option Z :=
  if b =? 0 then Some a
  else match fuel with
       | O => None
       | S f => gcd_loop f b (wrapu 64 (Z.rem a b))
       end.
Definition gcd_m (m n : Z) : option Z :=
  do g <- gcd_loop 200 (gcd_abs_m m) (gcd_abs_m n); Some (wraps 64 g).
(* checked division of intmax_t *)
Definition cdiv (a b : Z) : option Z := if b =? 0 then None else ck (Z.quot a b).

(* ratio<Num, Denom>::num / ::den;  static_assert(Denom != 0) *)
Definition ratio_m (n d : Z) : option (Z * Z) :=
  if d =? 0 then None else
  do g <- gcd_m n d;
  do s <- ck (sign_m n * sign_m d);
  do an <- abs_m n;
  do p <- ck (s * an);
  do num <- cdiv p g;
  do ad <- abs_m d;
  do den <- cdiv ad g;
  Some (num, den).

(* the four arithmetic aliases; arguments are R1::num R1::den R2::num R2::den *)
Definition ratio_add_m (n1 d1 n2 d2 : Z) : option (Z * Z) :=
  do a <- ck (n1 * d2); do b <- ck (n2 * d1); do s <- ck (a + b); do d <- ck (d1 * d2); ratio_m s d.
Definition ratio_subtract_m (n1 d1 n2 d2 : Z) : option (Z * Z) :=
  do a <- ck (n1 * d2); do b <- ck (n2 * d1); do s <- ck (a - b); do d <- ck (d1 * d2); ratio_m s d.
(* detail::ratio_multiply_impl: cross-cancel, then multiply *)
Definition ratio_multiply_m (n1 d1 n2 d2 : Z) : option (Z * Z) :=
  do g1 <- gcd_m n1 d2;
  do g2 <- gcd_m n2 d1;
  do a <- cdiv n1 g1; do b <- cdiv n2 g2; do n <- ck (a * b);
  do c <- cdiv d1 g2; do e <- cdiv d2 g1; do d <- ck (c * e);
  ratio_m n d.
(* detail::ratio_divide_impl: static_assert(R2::num != 0) *)
Definition ratio_divide_m (n1 d1 n2 d2 : Z) : option (Z * Z) :=
  if n2 =? 0 then None else
  do g1 <- gcd_m n1 n2;
  do g2 <- gcd_m d2 d1;
  do a <- cdiv n1 g1; do b <- cdiv d2 g2; do n <- ck (a * b);
  do c <- cdiv d1 g2; do e <- cdiv n2 g1; do d <- ck (c * e);
  ratio_m n d.

(* comparisons *)
Definition ratio_equal_m (n1 d1 n2 d2 : Z) : option bool := Some ((n1 =? n2) && (d1 =? d2)).
Definition ratio_not_equal_m (n1 d1 n2 d2 : Z) : option bool :=
  do e <- ratio_equal_m n1 d1 n2 d2; Some (negb e).
(* detail::ratio_less_impl(n1, d1, n2, d2): floor quotient / remainder of truncating / and % *)
Definition floor_qr (n d : Z) : option (Z * Z) :=
  do q <- cdiv n d;
  let r := Z.rem n d in
  if r <? 0 then do r' <- ck (r + d); do q' <- ck (q - 1); Some (q', r') else Some (q, r).
Fixpoint ratio_less_loop (fuel : nat) (n1 d1 n2 d2 : Z) : option bool :=
  match fuel with
  | O => None
  | S f =>
      do x1 <- floor_qr n1 d1;
      do x2 <- floor_qr n2 d2;
      let '(q1, r1) := x1 in
      let '(q2, r2) := x2 in
      if negb (q1 =? q2) then Some (q1 <? q2)
      else if (r1 =? 0) || (r2 =? 0) then Some ((r1 =? 0) && negb (r2 =? 0))
      else ratio_less_loop f d2 r2 d1 r1
  end.
Definition ratio_less_m (n1 d1 n2 d2 : Z) : option bool := ratio_less_loop 200 n1 d1 n2 d2.
(* ratio_less_equal = not ratio_less<R2, R1>; ratio_greater = ratio_less<R2, R1>;
   ratio_greater_equal = not ratio_less<R1, R2> *)
Definition ratio_less_equal_m (n1 d1 n2 d2 : Z) : option bool :=
  do b <- ratio_less_m n2 d2 n1 d1; Some (negb b).
Definition ratio_greater_m (n1 d1 n2 d2 : Z) : option bool := ratio_less_m n2 d2 n1 d1.
Definition ratio_greater_equal_m (n1 d1 n2 d2 : Z) : option bool :=
  do b <- ratio_less_m n1 d1 n2 d2; Some (negb b).
