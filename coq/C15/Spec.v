(* C15 specification, part 1: the <type_traits> facilities as the C++20 standard defines them,
   written against the type universe of Types.v and independently of how etl computes them.
   Sections: [basic.fundamental], [basic.compound], [basic.types.general], [basic.type.qualifier],
   [meta.unary.cat], [meta.unary.comp], [meta.unary.prop], [meta.unary.prop.query], [meta.rel],
   [meta.trans.cv], [meta.trans.ref], [meta.trans.sign], [meta.trans.arr], [meta.trans.ptr],
   [meta.trans.other], [conv.prom], [conv.rank], [expr.arith.conv]. *)
From Tetl Require Import Lib.Base C15.Types.
Local Open Scope Z_scope.

(** * [meta.unary.cat] primary type categories
    "For any given type T, the result of applying one of these templates to T and to cv T shall
     yield the same result" and "exactly one of the primary categories is true". *)
Inductive category :=
| CVoid | CNullptr | CIntegral | CFloating | CArray | CPointer | CLRef | CRRef
| CMemObj | CMemFn | CEnum | CUnion | CClass | CFunction.

Definition category_eqb (a b : category) : bool :=
  match a, b with
  | CVoid, CVoid | CNullptr, CNullptr | CIntegral, CIntegral | CFloating, CFloating
  | CArray, CArray | CPointer, CPointer | CLRef, CLRef | CRRef, CRRef | CMemObj, CMemObj
  | CMemFn, CMemFn | CEnum, CEnum | CUnion, CUnion | CClass, CClass | CFunction, CFunction => true
  | _, _ => false
  end.

(* the category of a type; a cv wrapper does not change it *)
Fixpoint category_of (t : cty) : category :=
  match t with
  | Void => CVoid
  | Nullptr => CNullptr
  | Arith a => if is_float_a a then CFloating else CIntegral
  | Enum _ _ _ => CEnum
  | Ptr _ => CPointer
  | LRef _ => CLRef
  | RRef _ => CRRef
  | Arr _ _ => CArray
  | Fn _ _ _ _ _ _ _ => CFunction
  | MemPtr _ u => match u with Fn _ _ _ _ _ _ _ => CMemFn | _ => CMemObj end
  | Class _ => CClass
  | Union _ => CUnion
  | Cv _ _ u => category_of u
  end.

Definition has_cat (c : category) (t : cty) : bool := category_eqb (category_of t) c.
Definition std_is_void := has_cat CVoid.
Definition std_is_null_pointer := has_cat CNullptr.
Definition std_is_integral := has_cat CIntegral.
Definition std_is_floating_point := has_cat CFloating.
Definition std_is_array := has_cat CArray.
Definition std_is_pointer := has_cat CPointer.
Definition std_is_lvalue_reference := has_cat CLRef.
Definition std_is_rvalue_reference := has_cat CRRef.
Definition std_is_member_object_pointer := has_cat CMemObj.
Definition std_is_member_function_pointer := has_cat CMemFn.
Definition std_is_enum := has_cat CEnum.
Definition std_is_union := has_cat CUnion.
Definition std_is_class := has_cat CClass.
Definition std_is_function := has_cat CFunction.

(** * [meta.unary.comp] composite type categories *)
Definition std_is_reference (t : cty) : bool := std_is_lvalue_reference t || std_is_rvalue_reference t.
Definition std_is_arithmetic (t : cty) : bool := std_is_integral t || std_is_floating_point t.
Definition std_is_fundamental (t : cty) : bool :=
  std_is_arithmetic t || std_is_void t || std_is_null_pointer t.
(* [basic.types.general]/8: "an object type is a (possibly cv-qualified) type that is not a
   function type, not a reference type, and not cv void" *)
Definition std_is_object (t : cty) : bool :=
  negb (std_is_function t) && negb (std_is_reference t) && negb (std_is_void t).
(* [basic.types.general]/9: arithmetic, enumeration, pointer, pointer-to-member, nullptr_t *)
Definition std_is_member_pointer (t : cty) : bool :=
  std_is_member_object_pointer t || std_is_member_function_pointer t.
Definition std_is_scalar (t : cty) : bool :=
  std_is_arithmetic t || std_is_enum t || std_is_pointer t || std_is_member_pointer t
  || std_is_null_pointer t.
Definition std_is_compound (t : cty) : bool := negb (std_is_fundamental t).

(** * [basic.type.qualifier], [meta.unary.prop]: is_const / is_volatile *)
Definition std_is_const (t : cty) : bool := fst (cv_of t).
Definition std_is_volatile (t : cty) : bool := snd (cv_of t).

(** * [basic.fundamental]: signed / unsigned; is_signed is "is_arithmetic_v<T> && T(-1) < T(0)" *)
(* value range of an integer type; bool is {0,1} *)
Definition arith_min (a : arith) : Z :=
  if asigned a then - 2 ^ (abits a - 1) else 0.
Definition arith_max (a : arith) : Z :=
  match a with
  | ABool => 1
  | _ => if asigned a then 2 ^ (abits a - 1) - 1 else 2 ^ abits a - 1
  end.
Definition std_is_signed (t : cty) : bool :=
  match unqual true true t with
  | Arith a => if is_float_a a then true else arith_min a <? 0
  | _ => false
  end.
Definition std_is_unsigned (t : cty) : bool :=
  match unqual true true t with
  | Arith a => if is_float_a a then false else 0 <=? arith_min a
  | _ => false
  end.

(* [basic.fundamental]/1,2: the standard signed / unsigned integer types *)
Definition std_is_standard_signed_integer (t : cty) : bool :=
  match unqual true true t with
  | Arith (ASChar | AShort | AInt | ALong | ALLong) => true
  | _ => false
  end.
Definition std_is_standard_unsigned_integer (t : cty) : bool :=
  match unqual true true t with
  | Arith (AUChar | AUShort | AUInt | AULong | AULLong) => true
  | _ => false
  end.

(** * [meta.unary.prop] arrays, [meta.unary.prop.query] rank / extent *)
Definition std_is_bounded_array (t : cty) : bool :=
  match t with Arr _ (Some _) => true | _ => false end.
Definition std_is_unbounded_array (t : cty) : bool :=
  match t with Arr _ None => true | _ => false end.
(* the list of bounds of an array type, outermost first; 0 stands for an unknown bound *)
Fixpoint dims (t : cty) : list N :=
  match t with
  | Arr e n => (match n with Some k => k | None => 0%N end) :: dims e
  | _ => []
  end.
Definition std_rank (t : cty) : N := N.of_nat (length (dims t)).
Definition std_extent (t : cty) (i : nat) : N := nth i (dims t) 0%N.

(** * [meta.rel] is_same *)
Definition std_is_same (t u : cty) : Prop := t = u.

(** * [meta.trans.cv] *)
Definition std_remove_const (t : cty) : cty := unqual true false t.
Definition std_remove_volatile (t : cty) : cty := unqual false true t.
Definition std_remove_cv (t : cty) : cty := unqual true true t.
(* replace the top-level cv-qualification of an object type *)
Fixpoint set_cv (c v : bool) (t : cty) : cty :=
  match t with
  | Cv _ _ u => if c || v then Cv c v u else u
  | Arr e n => Arr (set_cv c v e) n
  | _ => if c || v then Cv c v t else t
  end.
(* "If T is a reference, function, or top-level const-qualified type, then type names the same
    type as T, otherwise T const." *)
Definition std_add_const (t : cty) : cty :=
  if std_is_reference t || std_is_function t || std_is_const t then t
  else set_cv true (std_is_volatile t) t.
Definition std_add_volatile (t : cty) : cty :=
  if std_is_reference t || std_is_function t || std_is_volatile t then t
  else set_cv (std_is_const t) true t.
Definition std_add_cv (t : cty) : cty := std_add_const (std_add_volatile t).

(** * [meta.trans.ref] *)
Definition std_remove_reference (t : cty) : cty :=
  match t with LRef u | RRef u => u | _ => t end.
(* [defns.referenceable]: "an object type, a function type that does not have cv-qualifiers or a
   ref-qualifier, or a reference type" *)
Definition referenceable (t : cty) : bool :=
  std_is_object t || (std_is_function t && negb (abominable t)) || std_is_reference t.
(* "If T names a referenceable type then the member typedef type names T&; otherwise T"
   with [dcl.ref]/6 reference collapsing *)
Definition std_add_lvalue_reference (t : cty) : cty :=
  if referenceable t then LRef (std_remove_reference t) else t.
Definition std_add_rvalue_reference (t : cty) : cty :=
  if referenceable t
  then match t with LRef _ => t | RRef _ => t | _ => RRef t end
  else t.

(** * [meta.trans.ptr] *)
(* "If T has type '(possibly cv-qualified) pointer to T1' then T1; otherwise T" *)
Definition std_remove_pointer (t : cty) : cty :=
  match unqual true true t with Ptr u => u | _ => t end.
(* "If T names a referenceable type or a cv void type then remove_reference_t<T>*; otherwise T" *)
Definition std_add_pointer (t : cty) : cty :=
  if referenceable t || std_is_void t then Ptr (std_remove_reference t) else t.

(** * [meta.trans.arr] *)
Definition std_remove_extent (t : cty) : cty := match t with Arr e _ => e | _ => t end.
Fixpoint std_remove_all_extents (t : cty) : cty :=
  match t with Arr e _ => std_remove_all_extents e | _ => t end.

(** * [meta.trans.other] decay, remove_cvref, conditional, underlying_type, type_identity *)
(* decay: the by-value parameter adjustments: array-to-pointer, function-to-pointer, otherwise
   drop the top-level cv-qualifiers (after removing a reference) *)
Definition std_decay (t : cty) : cty :=
  match std_remove_reference t with
  | Arr e _ => Ptr e
  | Fn r a c v q n va as f => if abominable f then f else Ptr f
  | u => std_remove_cv u
  end.
Definition std_remove_cvref (t : cty) : cty := std_remove_cv (std_remove_reference t).
Definition std_conditional (b : bool) (t f : cty) : cty := if b then t else f.
Definition std_underlying_type (t : cty) : option cty :=
  match unqual true true t with Enum _ u _ => Some (Arith u) | _ => None end.
(* [meta.unary.prop] is_scoped_enum (C++23, also in libstdc++ 12 with -std=c++2b) *)
Definition std_is_scoped_enum (t : cty) : bool :=
  match unqual true true t with Enum s _ _ => s | _ => false end.

(** * [meta.trans.sign] *)
(* the standard integer types in order of increasing rank *)
Definition signed_by_rank : list arith := [ASChar; AShort; AInt; ALong; ALLong].
Definition unsigned_by_rank : list arith := [AUChar; AUShort; AUInt; AULong; AULLong].
Definition corresponding (a : arith) : option (arith * arith) :=   (* (signed, unsigned) pair *)
  match a with
  | ASChar | AUChar => Some (ASChar, AUChar)
  | AShort | AUShort => Some (AShort, AUShort)
  | AInt | AUInt => Some (AInt, AUInt)
  | ALong | AULong => Some (ALong, AULong)
  | ALLong | AULLong => Some (ALLong, AULLong)
  | _ => None
  end.
(* "the [un]signed integer type with smallest rank for which sizeof(T) == sizeof(type)" *)
Definition smallest_rank_same_size (l : list arith) (bits : Z) : option arith :=
  find (fun x => abits x =? bits) l.
(* Mandates: T is an integral or enumeration type other than cv bool *)
Definition std_make_sign (want_signed : bool) (t : cty) : option cty :=
  let pick (p : arith * arith) := if want_signed then fst p else snd p in
  let by_size bits :=
    smallest_rank_same_size (if want_signed then signed_by_rank else unsigned_by_rank) bits in
  let r :=
    match unqual true true t with
    | Arith a =>
        if is_float_a a || arith_eqb a ABool then None
        else match corresponding a with
             | Some p => Some (pick p)
             | None => by_size (abits a)
             end
    | Enum _ u _ => by_size (abits u)
    | _ => None
    end in
  match r with
  | Some a => Some (set_cv (std_is_const t) (std_is_volatile t) (Arith a))
  | None => None
  end.
Definition std_make_signed := std_make_sign true.
Definition std_make_unsigned := std_make_sign false.

(** * [conv.prom], [conv.rank], [expr.arith.conv]: common_type of two arithmetic types *)
Definition can_represent (dst src : arith) : bool :=
  (arith_min dst <=? arith_min src) && (arith_max src <=? arith_max dst).
(* [conv.rank]: rank of the standard integer types; char types rank with (un)signed char,
   char8/16/32_t and wchar_t with their underlying types *)
Definition conv_rank (a : arith) : Z :=
  match a with
  | ABool => 0
  | AChar | ASChar | AUChar | AChar8 => 1
  | AShort | AUShort | AChar16 => 2
  | AInt | AUInt | AWChar | AChar32 => 3
  | ALong | AULong => 4
  | ALLong | AULLong => 5
  | _ => 6
  end.
Definition std_promote (a : arith) : arith :=
  match a with
  | AFloat | ADouble | ALDouble => a
  | ABool => AInt
  | AWChar | AChar8 | AChar16 | AChar32 =>
      (* "the first of int, unsigned int, long, unsigned long, long long, unsigned long long
          that can represent all the values of its underlying type" *)
      match find (fun d => can_represent d a) [AInt; AUInt; ALong; AULong; ALLong; AULLong] with
      | Some d => d | None => a end
  | _ =>
      if conv_rank a <? conv_rank AInt
      then (if can_represent AInt a then AInt else AUInt)
      else a
  end.
Definition unsigned_of (a : arith) : arith :=
  match corresponding a with Some p => snd p | None => a end.
Definition std_uac (a b : arith) : arith :=
  if arith_eqb a ALDouble || arith_eqb b ALDouble then ALDouble
  else if arith_eqb a ADouble || arith_eqb b ADouble then ADouble
  else if arith_eqb a AFloat || arith_eqb b AFloat then AFloat
  else
    let x := std_promote a in
    let y := std_promote b in
    if arith_eqb x y then x
    else if Bool.eqb (asigned x) (asigned y)
    then (if conv_rank x <? conv_rank y then y else x)          (* greater rank *)
    else
      let s := if asigned x then x else y in
      let u := if asigned x then y else x in
      if conv_rank s <=? conv_rank u then u
      else if can_represent s u then s
      else unsigned_of s.
(* [meta.trans.other] common_type for two types whose decayed types are both arithmetic, or
   identical scalar / void types; None = outside this specification's scope *)
Definition std_common_type (t1 t2 : cty) : option cty :=
  let d1 := std_decay t1 in
  let d2 := std_decay t2 in
  match d1, d2 with
  | Arith a, Arith b => Some (Arith (if arith_eqb a b then a else std_uac a b))
  | _, _ =>
      if cty_eqb d1 d2
      then match d1 with
           | Void | Nullptr | Enum _ _ _ | Ptr _ | MemPtr _ _ => Some d1
           | _ => None
           end
      else None
  end.

(** * smallest_size_t<N> (etl extension; no std counterpart): an unsigned integer type that can
      hold N, and no smaller standard unsigned type can hold N + 1 *)
Definition holds (a : arith) (n : Z) : bool := n <=? arith_max a.
