(* C15 proofs, part 5: numeric_limits.  The header's members (literal macros, `digits * 3 / 10`,
   `2 + MANT_DIG * 301 / 1000`, <float.h> constants, the computed char_numeric_limits) equal the
   values [numeric.limits.members] defines from the representation parameters, for every member of
   every arithmetic type (finite domain: 19 types x 32 members, kernel-evaluated), and the decimal
   characterisation the specification uses is the mathematical one. *)
From Coq Require Import ZifyBool.
From Tetl Require Import Lib.Base C15.Types C15.ModelNum C15.SpecNum.
Local Open Scope Z_scope.
Ltac Zify.zify_post_hook ::= Z.to_euclidean_division_equations.

(** * flog10 is floor(log10 x) *)
Lemma flog10_aux_spec : forall fuel d pw x,
  0 <= d -> pw = 10 ^ (d + 1) -> 10 ^ d <= x -> x < 10 ^ (d + Z.of_nat fuel) ->
  is_flog10 x (flog10_aux fuel d pw x).
Proof.
  induction fuel as [|f IH]; intros d pw x Hd Hpw Hlo Hhi.
  - cbn [flog10_aux]. replace (d + Z.of_nat 0) with d in Hhi by lia. lia.
  - cbn [flog10_aux]. destruct (x <? pw) eqn:E.
    + unfold is_flog10. subst pw. lia.
    + apply IH.
      * lia.
      * subst pw. rewrite (Z.pow_add_r 10 (d + 1) 1) by lia. reflexivity.
      * subst pw. lia.
      * replace (d + 1 + Z.of_nat f) with (d + Z.of_nat (S f)) by lia. exact Hhi.
Qed.

Theorem flog10_spec : forall x, 1 <= x < 10 ^ 6000 -> is_flog10 x (flog10 x).
Proof.
  intros x Hx; unfold flog10. apply flog10_aux_spec.
  - apply Z.le_refl.
  - reflexivity.
  - change (10 ^ 0) with 1. exact (proj1 Hx).
  - replace (0 + Z.of_nat 6000) with 6000 by (rewrite Z.add_0_l; reflexivity). exact (proj2 Hx).
Qed.

(** * every member of every arithmetic type *)
Definition lval_eqb (a b : lval) : bool :=
  match a, b with
  | LB x, LB y => Bool.eqb x y
  | LI x, LI y => x =? y
  | LF m e, LF m' e' => (m =? m') && (e =? e')
  | LInf, LInf => true
  | LNaN x, LNaN y => Bool.eqb x y
  | _, _ => false
  end.
Lemma lval_eqb_eq : forall a b, lval_eqb a b = true -> a = b.
Proof.
  intros [x|x|m e| |x] [y|y|m' e'| |y] H; cbn in H; try discriminate; try reflexivity.
  - apply Bool.eqb_prop in H; now subst.
  - apply Z.eqb_eq in H; now subst.
  - apply andb_prop in H; destruct H as [H1 H2]; apply Z.eqb_eq in H1, H2; now subst.
  - apply Bool.eqb_prop in H; now subst.
Qed.

Definition limits_row_ok (a : arith) : bool :=
  forallb (fun m => match limits_spec a m with
                    | Some v => lval_eqb (limits_m a m) v
                    | None => true
                    end) all_lmem.

Lemma all_lmem_complete : forall m, In m all_lmem.
Proof. intros m; destruct m; cbn; tauto. Qed.
Lemma all_arith_complete : forall a, In a all_arith.
Proof. intros a; destruct a; cbn; tauto. Qed.

Lemma limits_sweep : forallb limits_row_ok all_arith = true.
Proof. vm_cast_no_check (eq_refl true). Qed.

Theorem limits_m_spec : forall a m v, limits_spec a m = Some v -> limits_m a m = v.
Proof.
  intros a m v H.
  pose proof limits_sweep as S. rewrite forallb_forall in S.
  specialize (S a (all_arith_complete a)). unfold limits_row_ok in S.
  rewrite forallb_forall in S. specialize (S m (all_lmem_complete m)).
  rewrite H in S. apply lval_eqb_eq; exact S.
Qed.

(* the only member the standard leaves to the implementation is `traps` *)
Lemma limits_spec_defined : forall a m, m <> Ltraps -> limits_spec a m <> None.
Proof. intros a m Hm; destruct a, m; try contradiction; discriminate. Qed.

(** * the header's decimal-digit formulas, beyond the types of this platform *)
(* `digits10 = digits * 3 / 10` is floor(digits * log10 2) for every width up to 102 bits (so also for
   a 128-bit integer type), and wrong at 103; `max_digits10 = 2 + MANT_DIG * 301 / 1000` is
   ceil(1 + p * log10 2) for every precision up to 195 bits (binary128 has 113) *)
Definition digits10_formula_ok (d : Z) : bool := Z.quot (d * 3) 10 =? flog10 (2 ^ d).
Definition max_digits10_formula_ok (p : Z) : bool := 2 + Z.quot (p * 301) 1000 =? flog10 (2 ^ p) + 2.

Lemma digits10_formula_sweep : forallb digits10_formula_ok (zrange_from 1 102) = true.
Proof. vm_cast_no_check (eq_refl true). Qed.
Lemma max_digits10_formula_sweep : forallb max_digits10_formula_ok (zrange_from 1 195) = true.
Proof. vm_cast_no_check (eq_refl true). Qed.

Theorem decimal_formulas :
  (forall d, 1 <= d <= 102 -> Z.quot (d * 3) 10 = flog10 (2 ^ d))
  /\ Z.quot (103 * 3) 10 <> flog10 (2 ^ 103)
  /\ (forall p, 1 <= p <= 195 -> 2 + Z.quot (p * 301) 1000 = flog10 (2 ^ p) + 2)
  /\ 2 + Z.quot (196 * 301) 1000 <> flog10 (2 ^ 196) + 2.
Proof.
  repeat split.
  - intros d Hd. pose proof digits10_formula_sweep as S. rewrite forallb_forall in S.
    specialize (S d). apply Z.eqb_eq. apply S. apply zrange_from_In. lia.
  - vm_compute. discriminate.
  - intros p Hp. pose proof max_digits10_formula_sweep as S. rewrite forallb_forall in S.
    specialize (S p). apply Z.eqb_eq. apply S. apply zrange_from_In. lia.
  - vm_compute. discriminate.
Qed.
