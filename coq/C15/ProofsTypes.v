(* C15 proofs, part 1: facts about the type universe itself — the decision procedure [cty_eqb]
   (which is what the partial specialisation is_same<T, T> computes) decides Leibniz equality, and
   the cv-qualification helpers behave as [basic.type.qualifier] says on well-formed types. *)
From Tetl Require Import Lib.Base C15.Types.
Local Open Scope Z_scope.

(** * Induction principle with an induction hypothesis for the parameter list *)
Section CtyInd.
  Variable P : cty -> Prop.
  Hypothesis HVoid : P Void.
  Hypothesis HNull : P Nullptr.
  Hypothesis HArith : forall a, P (Arith a).
  Hypothesis HEnum : forall s u i, P (Enum s u i).
  Hypothesis HPtr : forall t, P t -> P (Ptr t).
  Hypothesis HLRef : forall t, P t -> P (LRef t).
  Hypothesis HRRef : forall t, P t -> P (RRef t).
  Hypothesis HArr : forall t n, P t -> P (Arr t n).
  Hypothesis HFn : forall r args c v q ne va, P r -> Forall P args -> P (Fn r args c v q ne va).
  Hypothesis HMemPtr : forall d t, P t -> P (MemPtr d t).
  Hypothesis HClass : forall d, P (Class d).
  Hypothesis HUnion : forall d, P (Union d).
  Hypothesis HCv : forall c v t, P t -> P (Cv c v t).

  Fixpoint cty_ind' (t : cty) : P t :=
    match t with
    | Void => HVoid
    | Nullptr => HNull
    | Arith a => HArith a
    | Enum s u i => HEnum s u i
    | Ptr u => HPtr u (cty_ind' u)
    | LRef u => HLRef u (cty_ind' u)
    | RRef u => HRRef u (cty_ind' u)
    | Arr u n => HArr u n (cty_ind' u)
    | Fn r args c v q ne va =>
        HFn r args c v q ne va (cty_ind' r)
          ((fix go (l : list cty) : Forall P l :=
              match l with
              | [] => Forall_nil P
              | x :: xs => Forall_cons x (cty_ind' x) (go xs)
              end) args)
    | MemPtr d u => HMemPtr d u (cty_ind' u)
    | Class d => HClass d
    | Union d => HUnion d
    | Cv c v u => HCv c v u (cty_ind' u)
    end.
End CtyInd.

(** * Equality tests *)
Lemma arith_eqb_eq : forall a b, arith_eqb a b = true <-> a = b.
Proof. intros a b; split; [destruct a, b; cbn; intros H; (reflexivity || discriminate) | intros ->; destruct b; reflexivity]. Qed.

Lemma sm_eqb_eq : forall a b, sm_eqb a b = true <-> a = b.
Proof. intros a b; split; [destruct a, b; cbn; intros H; (reflexivity || discriminate) | intros ->; destruct b; reflexivity]. Qed.

Lemma refq_eqb_eq : forall a b, refq_eqb a b = true <-> a = b.
Proof. intros a b; split; [destruct a, b; cbn; intros H; (reflexivity || discriminate) | intros ->; destruct b; reflexivity]. Qed.

Lemma bool_eqb_eq : forall a b, Bool.eqb a b = true <-> a = b.
Proof. intros a b; split; [apply Bool.eqb_prop | intros ->; apply Bool.eqb_reflx]. Qed.

Lemma opt_n_eqb_eq : forall a b, opt_n_eqb a b = true <-> a = b.
Proof.
  intros [x|] [y|]; cbn; split; intros H; try discriminate; try reflexivity.
  - apply N.eqb_eq in H; now subst.
  - injection H as ->; apply N.eqb_refl.
Qed.

Lemma clsdesc_eqb_eq : forall a b, clsdesc_eqb a b = true <-> a = b.
Proof.
  intros a b; split.
  - unfold clsdesc_eqb; intros H.
    destruct a, b; cbn in H.
    apply andb_prop in H; destruct H as [H H12]; apply sm_eqb_eq in H12.
    apply andb_prop in H; destruct H as [H H11]; apply sm_eqb_eq in H11.
    apply andb_prop in H; destruct H as [H H10]; apply sm_eqb_eq in H10.
    apply andb_prop in H; destruct H as [H H9]; apply sm_eqb_eq in H9.
    apply andb_prop in H; destruct H as [H H8]; apply sm_eqb_eq in H8.
    apply andb_prop in H; destruct H as [H H7]; apply sm_eqb_eq in H7.
    apply andb_prop in H; destruct H as [H H6]; apply Bool.eqb_prop in H6.
    apply andb_prop in H; destruct H as [H H5]; apply Bool.eqb_prop in H5.
    apply andb_prop in H; destruct H as [H H4]; apply Bool.eqb_prop in H4.
    apply andb_prop in H; destruct H as [H H3]; apply Bool.eqb_prop in H3.
    apply andb_prop in H; destruct H as [H H2]; apply Bool.eqb_prop in H2.
    apply andb_prop in H; destruct H as [H H1]; apply Bool.eqb_prop in H1.
    apply N.eqb_eq in H.
    subst. reflexivity.
  - intros ->; unfold clsdesc_eqb.
    rewrite N.eqb_refl, !Bool.eqb_reflx.
    assert (R : forall x, sm_eqb x x = true) by (intros x; destruct x; reflexivity).
    rewrite !R. reflexivity.
Qed.

Lemma cty_eqb_refl : forall a, cty_eqb a a = true.
Proof.
  induction a as [| | a | s u i | t IH | t IH | t IH | t n IH | r args c v q ne va IHr IHa | d t IH | d | d | c v t IH]
    using cty_ind'; cbn [cty_eqb]; try reflexivity.
  - apply arith_eqb_eq; reflexivity.
  - rewrite Bool.eqb_reflx, N.eqb_refl. replace (arith_eqb u u) with true by (symmetry; apply arith_eqb_eq; reflexivity). reflexivity.
  - exact IH.
  - exact IH.
  - exact IH.
  - rewrite IH. replace (opt_n_eqb n n) with true by (symmetry; apply opt_n_eqb_eq; reflexivity). reflexivity.
  - rewrite IHr, !Bool.eqb_reflx.
    replace (refq_eqb q q) with true by (destruct q; reflexivity).
    rewrite !andb_true_r. cbn [andb].
    induction IHa as [|x xs Hx _ IHl]; [reflexivity|]. rewrite Hx, IHl; reflexivity.
  - rewrite IH. replace (clsdesc_eqb d d) with true by (symmetry; apply clsdesc_eqb_eq; reflexivity). reflexivity.
  - apply clsdesc_eqb_eq; reflexivity.
  - apply clsdesc_eqb_eq; reflexivity.
  - rewrite IH, !Bool.eqb_reflx; reflexivity.
Qed.

Lemma cty_eqb_true : forall a b, cty_eqb a b = true -> a = b.
Proof.
  induction a as [| | a | s u i | t IH | t IH | t IH | t n IH | r args c v q ne va IHr IHa | d t IH | d | d | c v t IH]
    using cty_ind'; intros b H; destruct b; cbn [cty_eqb] in H; try discriminate; try reflexivity.
  - apply arith_eqb_eq in H; now subst.
  - apply andb_prop in H; destruct H as [H H3]. apply andb_prop in H; destruct H as [H1 H2].
    apply Bool.eqb_prop in H1; apply arith_eqb_eq in H2; apply N.eqb_eq in H3; now subst.
  - f_equal; auto.
  - f_equal; auto.
  - f_equal; auto.
  - apply andb_prop in H; destruct H as [H1 H2]. apply opt_n_eqb_eq in H2. f_equal; auto.
  - repeat (apply andb_prop in H; destruct H as [H ?]).
    repeat match goal with
           | h : Bool.eqb _ _ = true |- _ => apply Bool.eqb_prop in h
           | h : refq_eqb _ _ = true |- _ => apply refq_eqb_eq in h
           end.
    subst. apply IHr in H. subst.
    assert (Hargs : args = args0).
    { match goal with h : _ args args0 = true |- _ => rename h into Hleq end.
      clear - IHa Hleq. revert args0 Hleq.
      induction IHa as [|x xs Hx _ IHl]; intros [|y ys] H; try discriminate; [reflexivity|].
      apply andb_prop in H; destruct H as [H1 H2]. f_equal; auto. }
    now subst.
  - apply andb_prop in H; destruct H as [H1 H2]. apply clsdesc_eqb_eq in H1. f_equal; auto.
  - apply clsdesc_eqb_eq in H; now subst.
  - apply clsdesc_eqb_eq in H; now subst.
  - apply andb_prop in H; destruct H as [H H3]. apply andb_prop in H; destruct H as [H1 H2].
    apply Bool.eqb_prop in H1; apply Bool.eqb_prop in H2. f_equal; auto.
Qed.

Theorem cty_eqb_eq : forall a b, cty_eqb a b = true <-> a = b.
Proof. intros a b; split; [apply cty_eqb_true | intros ->; apply cty_eqb_refl]. Qed.

Lemma cty_eqb_false : forall a b, cty_eqb a b = false <-> a <> b.
Proof.
  intros a b; split.
  - intros H E; subst. rewrite cty_eqb_refl in H; discriminate.
  - intros H. destruct (cty_eqb a b) eqn:E; [apply cty_eqb_true in E; contradiction | reflexivity].
Qed.

(** * Well-formedness: destructors *)
(* split a conjunction of booleans in a hypothesis into its components *)
Ltac split_andb H :=
  repeat match type of H with
         | (_ && _)%bool = true => let H' := fresh H in apply andb_prop in H; destruct H as [H H']
         end.

Lemma wf_Cv : forall c v u, wf (Cv c v u) = true ->
  (c || v = true)%bool /\ wf u = true /\ is_cvwrap u = false /\ is_ref_ty u = false
  /\ is_fn_ty u = false /\ is_arr_ty u = false.
Proof.
  intros c v u H; cbn [wf] in H.
  repeat (apply andb_prop in H; destruct H as [H ?]).
  repeat match goal with h : negb _ = true |- _ => apply negb_true_iff in h end.
  auto 10.
Qed.

Lemma wf_Arr : forall e n, wf (Arr e n) = true ->
  wf e = true /\ is_ref_ty e = false /\ is_void_ty e = false /\ is_fn_ty e = false
  /\ is_unbounded_ty e = false.
Proof.
  intros e n H; cbn [wf] in H.
  repeat (apply andb_prop in H; destruct H as [H ?]).
  repeat match goal with h : negb _ = true |- _ => apply negb_true_iff in h end.
  auto 10.
Qed.

Lemma wf_Ptr : forall u, wf (Ptr u) = true -> wf u = true /\ is_ref_ty u = false /\ abominable u = false.
Proof.
  intros u H; cbn [wf] in H.
  repeat (apply andb_prop in H; destruct H as [H ?]).
  repeat match goal with h : negb _ = true |- _ => apply negb_true_iff in h end. auto.
Qed.

Lemma wf_LRef : forall u, wf (LRef u) = true ->
  wf u = true /\ is_ref_ty u = false /\ is_void_ty u = false /\ abominable u = false.
Proof.
  intros u H; cbn [wf] in H.
  repeat (apply andb_prop in H; destruct H as [H ?]).
  repeat match goal with h : negb _ = true |- _ => apply negb_true_iff in h end. auto.
Qed.

Lemma wf_RRef : forall u, wf (RRef u) = true ->
  wf u = true /\ is_ref_ty u = false /\ is_void_ty u = false /\ abominable u = false.
Proof.
  intros u H; cbn [wf] in H.
  repeat (apply andb_prop in H; destruct H as [H ?]).
  repeat match goal with h : negb _ = true |- _ => apply negb_true_iff in h end. auto.
Qed.

Lemma wf_MemPtr : forall d u, wf (MemPtr d u) = true ->
  wf u = true /\ is_ref_ty u = false /\ is_void_ty u = false.
Proof.
  intros d u H; cbn [wf] in H.
  repeat (apply andb_prop in H; destruct H as [H ?]).
  repeat match goal with h : negb _ = true |- _ => apply negb_true_iff in h end. auto.
Qed.

(** * cv-qualification on well-formed types *)
(* a type that carries no cv-qualification is unchanged by [unqual] *)
Lemma unqual_noop : forall t dc dv, wf t = true ->
  (fst (cv_of t) && dc = false)%bool -> (snd (cv_of t) && dv = false)%bool -> unqual dc dv t = t.
Proof.
  induction t; intros dc dv Hwf Hc Hv; cbn [unqual]; try reflexivity.
  - apply wf_Arr in Hwf. cbn [cv_of] in Hc, Hv. f_equal. apply IHt; tauto.
  - apply wf_Cv in Hwf. destruct Hwf as [Hcv _]. cbn [cv_of fst snd] in Hc, Hv.
    destruct c, v, dc, dv; cbn in *; try discriminate; reflexivity.
Qed.

Lemma unqual_leaf : forall u dc dv, is_cvwrap u = false -> is_arr_ty u = false -> unqual dc dv u = u.
Proof. intros u dc dv H1 H2; destruct u; cbn in *; try discriminate; reflexivity. Qed.

Lemma cv_of_leaf : forall u, is_cvwrap u = false -> is_arr_ty u = false -> cv_of u = (false, false).
Proof. intros u H1 H2; destruct u; cbn in *; try discriminate; reflexivity. Qed.

(* removing volatile then const = removing both *)
Lemma unqual_unqual : forall t, wf t = true ->
  unqual true false (unqual false true t) = unqual true true t.
Proof.
  induction t; intros Hwf; cbn [unqual]; try reflexivity.
  - apply wf_Arr in Hwf. f_equal. apply IHt; tauto.
  - apply wf_Cv in Hwf. destruct Hwf as (Hcv & _ & H1 & _ & _ & H2).
    destruct c, v; cbn in *; try discriminate; try reflexivity; apply unqual_leaf; assumption.
Qed.

(* the cv-qualification after [unqual] *)
Lemma cv_of_unqual : forall t dc dv, wf t = true ->
  cv_of (unqual dc dv t) = (fst (cv_of t) && negb dc, snd (cv_of t) && negb dv)%bool.
Proof.
  induction t; intros dc dv Hwf; cbn [unqual cv_of fst snd]; try reflexivity.
  - apply wf_Arr in Hwf. apply IHt; tauto.
  - apply wf_Cv in Hwf. destruct Hwf as (Hcv & _ & H1 & _ & _ & H2).
    destruct (c && negb dc || v && negb dv)%bool eqn:E; cbn [cv_of].
    + reflexivity.
    + rewrite cv_of_leaf by assumption.
      apply orb_false_iff in E; destruct E as [-> ->]; reflexivity.
Qed.

(* [qual]: adding qualifiers through a typedef is ignored on references and functions and merges
   with the existing qualification otherwise *)
Lemma cv_of_qual : forall t c v, wf t = true ->
  cv_of (qual c v t) =
  if (is_ref_ty t || is_fn_ty t)%bool then (false, false)
  else (c || fst (cv_of t), v || snd (cv_of t))%bool.
Proof.
  induction t; intros c0 v0 Hwf; cbn [qual cv_of is_ref_ty is_fn_ty orb fst snd];
    try (destruct (c0 || v0)%bool eqn:E; cbn [cv_of];
         [ rewrite ?orb_false_r; reflexivity
         | apply orb_false_iff in E; destruct E as [-> ->]; reflexivity ]);
    try reflexivity.
  apply wf_Arr in Hwf. destruct Hwf as (Hw & Hr & _ & Hf & _).
  rewrite IHt by assumption. rewrite Hr, Hf. reflexivity.
Qed.

Lemma qual_none : forall t, qual false false t = t.
Proof.
  induction t; cbn [qual orb]; try reflexivity.
  - now rewrite IHt.
Qed.
