(* C15 proofs, part 11: every type transformation maps well-formed types to well-formed types
   (the substitution-failure cases of add_lvalue_reference / add_rvalue_reference / add_pointer and
   the "abominable function" case of decay are exactly what is needed for this). *)
From Tetl Require Import Lib.Base C15.Types C15.Model C15.Spec C15.ProofsTypes C15.ProofsCv C15.ProofsCat
  C15.ProofsTrans.
Local Open Scope Z_scope.

Lemma wf_LRef_intro : forall u, wf u = true -> is_ref_ty u = false -> is_void_ty u = false ->
  abominable u = false -> wf (LRef u) = true.
Proof. intros u H1 H2 H3 H4; cbn [wf]; rewrite H1, H2, H3, H4; reflexivity. Qed.
Lemma wf_RRef_intro : forall u, wf u = true -> is_ref_ty u = false -> is_void_ty u = false ->
  abominable u = false -> wf (RRef u) = true.
Proof. intros u H1 H2 H3 H4; cbn [wf]; rewrite H1, H2, H3, H4; reflexivity. Qed.
Lemma wf_Ptr_intro : forall u, wf u = true -> is_ref_ty u = false -> abominable u = false ->
  wf (Ptr u) = true.
Proof. intros u H1 H2 H3; cbn [wf]; rewrite H1, H2, H3; reflexivity. Qed.

Lemma remove_reference_not_ref : forall t, wf t = true -> is_ref_ty (std_remove_reference t) = false.
Proof.
  intros t H; destruct t; try reflexivity.
  - exact (proj1 (proj2 (wf_LRef _ H))).
  - exact (proj1 (proj2 (wf_RRef _ H))).
Qed.

Lemma referenceable_inner : forall t, wf t = true -> referenceable t = true ->
  is_void_ty (std_remove_reference t) = false /\ abominable (std_remove_reference t) = false.
Proof.
  intros t Hwf R. destruct t; try (split; reflexivity); try (vm_compute in R; discriminate R).
  - pose proof (wf_LRef _ Hwf) as (_ & _ & A & B). split; assumption.
  - pose proof (wf_RRef _ Hwf) as (_ & _ & A & B). split; assumption.
  - (* function type *)
    cbn [std_remove_reference is_void_ty]. split; [reflexivity|].
    destruct c, v, r; try reflexivity; vm_compute in R; discriminate R.
  - (* cv wrapper *)
    pose proof (wf_Cv _ _ _ Hwf) as (_ & _ & H1 & H2 & H3 & H4).
    cbn [std_remove_reference abominable]. split; [|reflexivity].
    destruct t; cbn in *; try discriminate; reflexivity.
Qed.

Theorem wf_add_lvalue_reference : forall t, wf t = true -> wf (std_add_lvalue_reference t) = true.
Proof.
  intros t H; unfold std_add_lvalue_reference. destruct (referenceable t) eqn:R; [|exact H].
  destruct (referenceable_inner t H R) as [A B].
  apply wf_LRef_intro; [apply wf_remove_reference; exact H | apply remove_reference_not_ref; exact H | exact A | exact B].
Qed.

Theorem wf_add_rvalue_reference : forall t, wf t = true -> wf (std_add_rvalue_reference t) = true.
Proof.
  intros t H; unfold std_add_rvalue_reference. destruct (referenceable t) eqn:R; [|exact H].
  destruct (referenceable_inner t H R) as [A B].
  destruct t; try exact H; apply wf_RRef_intro; try exact H; try reflexivity; try exact A; try exact B.
Qed.

Theorem wf_add_pointer : forall t, wf t = true -> wf (std_add_pointer t) = true.
Proof.
  intros t H; unfold std_add_pointer.
  destruct (referenceable t) eqn:R; cbn [orb].
  - destruct (referenceable_inner t H R) as [A B].
    apply wf_Ptr_intro; [apply wf_remove_reference; exact H | apply remove_reference_not_ref; exact H | exact B].
  - destruct (std_is_void t) eqn:V; [|exact H].
    apply wf_Ptr_intro; [apply wf_remove_reference; exact H | apply remove_reference_not_ref; exact H |].
    destruct t; try reflexivity; try discriminate V.
Qed.

Theorem wf_remove_pointer : forall t, wf t = true -> wf (std_remove_pointer t) = true.
Proof.
  intros t H; unfold std_remove_pointer.
  pose proof (wf_unqual t true true H) as U.
  destruct (unqual true true t); try exact H. exact (proj1 (wf_Ptr _ U)).
Qed.

Theorem wf_remove_extent : forall t, wf t = true -> wf (std_remove_extent t) = true.
Proof. intros t H; destruct t; try exact H. exact (proj1 (wf_Arr _ _ H)). Qed.

Theorem wf_remove_all_extents : forall t, wf t = true -> wf (std_remove_all_extents t) = true.
Proof.
  induction t; intros H; try exact H. cbn [std_remove_all_extents]. apply IHt. exact (proj1 (wf_Arr _ _ H)).
Qed.

Theorem wf_decay : forall t, wf t = true -> wf (std_decay t) = true.
Proof.
  intros t H; unfold std_decay.
  pose proof (wf_remove_reference t H) as U. set (u := std_remove_reference t) in *. clearbody u.
  destruct u; try (apply wf_unqual; exact U).
  - pose proof (wf_Arr _ _ U) as (A & B & _ & C & _).
    apply wf_Ptr_intro; [exact A | exact B | destruct u; try discriminate; reflexivity].
  - destruct (abominable (Fn u args c v r ne va)) eqn:E; [exact U|].
    apply wf_Ptr_intro; [exact U | reflexivity | exact E].
Qed.

Theorem wf_remove_cvref : forall t, wf t = true -> wf (std_remove_cvref t) = true.
Proof. intros t H; unfold std_remove_cvref, std_remove_cv. apply wf_unqual. apply wf_remove_reference; exact H. Qed.

Theorem wf_make_sign : forall s t r, std_make_sign s t = Some r -> wf r = true.
Proof.
  intros s t r H; unfold std_make_sign in H.
  match type of H with match ?x with _ => _ end = _ => destruct x as [a|]; [|discriminate] end.
  injection H as <-. destruct (std_is_const t), (std_is_volatile t); reflexivity.
Qed.

Theorem wf_common_type : forall t1 t2 r, wf t1 = true -> wf t2 = true ->
  std_common_type t1 t2 = Some r -> wf r = true.
Proof.
  intros t1 t2 r H1 H2 H; unfold std_common_type in H.
  pose proof (wf_decay t1 H1) as D1.
  destruct (std_decay t1); destruct (std_decay t2);
    try discriminate H;
    try (injection H as <-; reflexivity);
    try (match type of H with (if ?b then _ else _) = _ => destruct b; try discriminate H end;
         injection H as <-; exact D1).
Qed.

(* the etl traits themselves (through the agreement theorems) *)
Definition transformations_preserve_wf (k : cfg) (t : cty) : Prop :=
  wf (remove_const_m t) = true /\ wf (remove_volatile_m t) = true /\ wf (remove_cv_m t) = true
  /\ wf (add_const_m t) = true /\ wf (add_volatile_m t) = true /\ wf (add_cv_m t) = true
  /\ wf (remove_reference_m t) = true /\ wf (add_lvalue_reference_m t) = true
  /\ wf (add_rvalue_reference_m t) = true /\ wf (remove_pointer_m t) = true
  /\ wf (add_pointer_m t) = true /\ wf (remove_extent_m t) = true
  /\ wf (remove_all_extents_m t) = true /\ wf (decay_m t) = true /\ wf (remove_cvref_m t) = true
  /\ (forall r, make_signed_m k t = Some r -> wf r = true)
  /\ (forall r, make_unsigned_m k t = Some r -> wf r = true)
  /\ (forall u r, wf u = true -> common_type_m t u = Some r -> wf r = true).

Theorem transformations_wf : forall k t, wf t = true -> transformations_preserve_wf k t.
Proof.
  intros k t H; unfold transformations_preserve_wf.
  rewrite remove_const_m_spec, remove_volatile_m_spec, remove_cv_m_spec, add_const_m_spec,
    add_volatile_m_spec, add_cv_m_spec, remove_reference_m_spec, add_lvalue_reference_m_spec,
    add_rvalue_reference_m_spec, remove_pointer_m_spec, add_pointer_m_spec, remove_extent_m_spec,
    remove_all_extents_m_spec, decay_m_spec, remove_cvref_m_spec by assumption.
  rewrite <- add_const_m_spec, <- add_volatile_m_spec, <- add_cv_m_spec by assumption.
  repeat split.
  - apply wf_unqual; exact H.
  - apply wf_unqual; exact H.
  - apply wf_unqual; exact H.
  - apply wf_qual; exact H.
  - apply wf_qual; exact H.
  - apply wf_qual; exact H.
  - apply wf_remove_reference; exact H.
  - apply wf_add_lvalue_reference; exact H.
  - apply wf_add_rvalue_reference; exact H.
  - apply wf_remove_pointer; exact H.
  - apply wf_add_pointer; exact H.
  - apply wf_remove_extent; exact H.
  - apply wf_remove_all_extents; exact H.
  - apply wf_decay; exact H.
  - apply wf_remove_cvref; exact H.
  - intros r E. rewrite make_signed_m_spec in E by assumption. exact (wf_make_sign _ _ _ E).
  - intros r E. rewrite make_unsigned_m_spec in E by assumption. exact (wf_make_sign _ _ _ E).
  - intros u r Hu E. rewrite common_type_m_spec in E by assumption. exact (wf_common_type _ _ _ H Hu E).
Qed.
