(* C15 model + specification + proofs, part 4: include/etl/_meta — compile-time lists of types.
   Model: the partial specialisations, clause by clause (None = no matching specialisation / no member:
   the instantiation is ill-formed).  Spec: the list functions of the Coq standard library. *)
From Coq Require Import NArith.
From Tetl Require Import Lib.Base C15.Types C15.Model C15.ProofsTypes.
Local Open Scope nat_scope.

(* at<0, list<Head, Tail...>> = Head;  at<I, list<Head, Tail...>> = at<I - 1, list<Tail...>> *)
Fixpoint at_m (i : nat) (l : list cty) : option cty :=
  match l with
  | [] => None
  | h :: tl => match i with O => Some h | S j => at_m j tl end
  end.
Definition head_m (l : list cty) : option cty := match l with h :: _ => Some h | [] => None end.
Definition tail_m (l : list cty) : option (list cty) := match l with _ :: tl => Some tl | [] => None end.
Definition push_back_m (t : cty) (l : list cty) : list cty := l ++ [t].     (* list<Ts..., T> *)
Definition push_front_m (t : cty) (l : list cty) : list cty := t :: l.      (* list<T, Ts...> *)
(* (is_same_v<Needle, Ts> + ... + 0) *)
Definition count_m (needle : cty) (l : list cty) : nat :=
  fold_right (fun x acc => (if is_same_m needle x then 1 else 0) + acc) 0 l.
(* (is_same_v<Needle, Ts> or ...) is [contains_m] of Model.v *)
(* index_of<Head, list<Head, Tail...>> = 0 (the more specialised clause wins when T is the head);
   index_of<T, list<Head, Tail...>> = index_of<T, list<Tail...>> + 1;  nothing for list<> *)
Fixpoint index_of_m (t : cty) (l : list cty) : option nat :=
  match l with
  | [] => None
  | h :: tl => if is_same_m t h then Some 0
               else match index_of_m t tl with Some i => Some (i + 1) | None => None end
  end.

(** * agreement with the list library *)
Lemma at_m_spec : forall l i, at_m i l = nth_error l i.
Proof. induction l; intros [|i]; cbn; auto. Qed.
Lemma head_m_spec : forall l, head_m l = hd_error l.
Proof. destruct l; reflexivity. Qed.
Lemma count_m_spec : forall t l, count_m t l = length (filter (fun x => cty_eqb t x) l).
Proof.
  induction l; [reflexivity|]. cbn [count_m fold_right filter]. fold (count_m t l). rewrite IHl.
  unfold is_same_m. destruct (cty_eqb t a); reflexivity.
Qed.
Lemma count_m_pos : forall t l, 0 < count_m t l <-> In t l.
Proof.
  intros t l; rewrite count_m_spec. split.
  - intros H. destruct (filter _ l) as [|x xs] eqn:E; [cbn in H; lia|].
    assert (I : In x (filter (fun y => cty_eqb t y) l)) by (rewrite E; left; reflexivity).
    apply filter_In in I. destruct I as [I1 I2]. apply cty_eqb_true in I2. now subst.
  - intros H. assert (I : In t (filter (fun y => cty_eqb t y) l)) by (apply filter_In; split; [exact H | apply cty_eqb_refl]).
    destruct (filter _ l); [contradiction | cbn; lia].
Qed.

(* index_of finds the FIRST position, and has no value exactly when the type does not occur *)
Lemma index_of_m_spec : forall t l,
  match index_of_m t l with
  | Some i => nth_error l i = Some t /\ forall j, j < i -> nth_error l j <> Some t
  | None => ~ In t l
  end.
Proof.
  induction l as [|h tl IH]; [intros []|]. cbn [index_of_m]. unfold is_same_m.
  destruct (cty_eqb t h) eqn:E.
  - apply cty_eqb_true in E; subst. split; [reflexivity | intros j Hj; lia].
  - apply cty_eqb_false in E. destruct (index_of_m t tl) as [i|].
    + destruct IH as [A B]. replace (i + 1) with (S i) by lia. split; [exact A|].
      intros [|j] Hj; cbn; [congruence | apply B; lia].
    + intros [F|F]; [congruence | contradiction].
Qed.

(* laws *)
Lemma meta_laws : forall t l,
  at_m (length l) (push_back_m t l) = Some t
  /\ (forall i, i < length l -> at_m i (push_back_m t l) = at_m i l)
  /\ head_m (push_front_m t l) = Some t /\ tail_m (push_front_m t l) = Some l
  /\ count_m t (push_front_m t l) = count_m t l + 1
  /\ count_m t (push_back_m t l) = count_m t l + 1
  /\ index_of_m t (push_front_m t l) = Some 0
  /\ (contains_m t l = true <-> index_of_m t l <> None).
Proof.
  intros t l; repeat split.
  - rewrite at_m_spec. unfold push_back_m. rewrite nth_error_app2 by lia. rewrite Nat.sub_diag. reflexivity.
  - intros i Hi. rewrite !at_m_spec. unfold push_back_m. apply nth_error_app1; exact Hi.
  - unfold push_front_m, count_m. cbn [fold_right]. unfold is_same_m at 1. rewrite cty_eqb_refl. lia.
  - rewrite !count_m_spec. unfold push_back_m. rewrite filter_app, app_length. cbn. rewrite cty_eqb_refl. reflexivity.
  - cbn. unfold is_same_m. rewrite cty_eqb_refl. reflexivity.
  - intros H E. pose proof (index_of_m_spec t l) as S. rewrite E in S.
    unfold contains_m in H. apply existsb_exists in H. destruct H as (x & Hx & Hs).
    apply cty_eqb_true in Hs. subst. contradiction.
  - intros H. pose proof (index_of_m_spec t l) as S. destruct (index_of_m t l) as [i|]; [|congruence].
    destruct S as [A _]. unfold contains_m. apply existsb_exists. exists t. split.
    + eapply nth_error_In; exact A.
    + apply cty_eqb_refl.
Qed.
