(* C15 proofs, part 3: the value traits of <type_traits> — primary and composite categories,
   cv/sign/array properties — as etl computes them (partial specialisations, is_same against type
   lists, compositions; per-compiler choice between library code and intrinsic) agree with the
   language definitions of Spec.v on EVERY well-formed type. *)
From Coq Require Import NArith Nnat.
From Tetl Require Import Lib.Base C15.Types C15.Model C15.Spec C15.ProofsTypes C15.ProofsCv.
Local Open Scope Z_scope.

(* all shapes of a well-formed type: the twelve non-cv constructors, and cv-wrappers around the
   eight constructors that can carry a wrapper (three qualifier combinations each) *)
Ltac shapes t Hwf :=
  let Hcv := fresh "Hcv" in let Hwp := fresh "Hwp" in
  let Hn1 := fresh "Hn" in let Hn2 := fresh "Hn" in let Hn3 := fresh "Hn" in let Hn4 := fresh "Hn" in
  destruct t as [| |a|s0 u0 i0|p|p|p|e n|r args c v q ne va|d p|d|d|c v p];
  [ .. | pose proof (wf_Cv _ _ _ Hwf) as (Hcv & Hwp & Hn1 & Hn2 & Hn3 & Hn4);
         destruct p as [| |a|s0 u0 i0|p|p|p|e n|r args c' v' q ne va|d p|d|d|c' v' p];
         try discriminate; destruct c, v; try discriminate ].

Lemma remove_cv_m_arr : forall e n, exists e', remove_cv_m (Arr e n) = Arr e' n.
Proof.
  intros e n; unfold remove_cv_m, remove_volatile_m, m_volatile; cbn [cv_of].
  destruct (snd (cv_of e)); cbn [unqual]; unfold remove_const_m, m_const; cbn [cv_of];
    match goal with |- context [if ?b then _ else _] => destruct b end; cbn [unqual]; eauto.
Qed.

Ltac arr_norm :=
  repeat match goal with
         | |- context [remove_cv_m (Arr ?e ?n)] =>
             let e' := fresh "e" in let H := fresh "H" in
             destruct (remove_cv_m_arr e n) as [e' H]; rewrite H; clear H
         end.

(** * is_function (needed for the member pointer traits) *)
Lemma is_function_m_fn : forall t, wf t = true -> is_function_m t = is_fn_ty t.
Proof.
  intros t Hwf; unfold is_function_m. rewrite is_const_m_spec. unfold std_is_const.
  rewrite cv_of_qual by assumption. destruct t; reflexivity.
Qed.

Lemma is_function_m_spec : forall t, wf t = true -> is_function_m t = std_is_function t.
Proof.
  intros t Hwf; rewrite is_function_m_fn by assumption.
  shapes t Hwf; try reflexivity; try (destruct a; reflexivity); destruct p; reflexivity.
Qed.

(* the generic proof: enumerate the shapes, compute *)
Ltac da := match goal with x : arith |- _ => destruct x end.
Ltac by_shapes t Hwf :=
  shapes t Hwf;
  try reflexivity;
  try (da; reflexivity);
  try (arr_norm; reflexivity).

(** * [meta.unary.cat] *)
Lemma is_void_m_spec : forall t, wf t = true -> is_void_m t = std_is_void t.
Proof. intros t Hwf; unfold is_void_m; by_shapes t Hwf; destruct p; reflexivity. Qed.

Lemma is_null_pointer_m_spec : forall t, wf t = true -> is_null_pointer_m t = std_is_null_pointer t.
Proof. intros t Hwf; unfold is_null_pointer_m; by_shapes t Hwf; destruct p; reflexivity. Qed.

Lemma is_integral_m_spec : forall k t, wf t = true -> is_integral_m k t = std_is_integral t.
Proof.
  intros k t Hwf; destruct k; unfold is_integral_m, contains_m; by_shapes t Hwf; destruct p; reflexivity.
Qed.

Lemma is_floating_point_m_spec : forall t, wf t = true -> is_floating_point_m t = std_is_floating_point t.
Proof. intros t Hwf; unfold is_floating_point_m, contains_m; by_shapes t Hwf; destruct p; reflexivity. Qed.

Lemma is_array_m_spec : forall t, wf t = true -> is_array_m t = std_is_array t.
Proof. intros t Hwf; by_shapes t Hwf; try (destruct n; reflexivity); destruct p; reflexivity. Qed.

Lemma is_pointer_m_spec : forall t, wf t = true -> is_pointer_m t = std_is_pointer t.
Proof. intros t Hwf; unfold is_pointer_m; by_shapes t Hwf; destruct p; reflexivity. Qed.

Lemma is_lvalue_reference_m_spec : forall t, wf t = true -> is_lvalue_reference_m t = std_is_lvalue_reference t.
Proof. intros t Hwf; by_shapes t Hwf; destruct p; reflexivity. Qed.

Lemma is_rvalue_reference_m_spec : forall t, wf t = true -> is_rvalue_reference_m t = std_is_rvalue_reference t.
Proof. intros t Hwf; by_shapes t Hwf; destruct p; reflexivity. Qed.

Lemma is_reference_m_spec : forall t, wf t = true -> is_reference_m t = std_is_reference t.
Proof. intros t Hwf; by_shapes t Hwf; destruct p; reflexivity. Qed.

Lemma is_enum_m_spec : forall t, wf t = true -> is_enum_m t = std_is_enum t.
Proof.
  intros t Hwf; unfold is_enum_m, intr_is_enum, strip.
  shapes t Hwf; try reflexivity; try (da; reflexivity); destruct p; reflexivity.
Qed.
Lemma is_union_m_spec : forall t, wf t = true -> is_union_m t = std_is_union t.
Proof.
  intros t Hwf; unfold is_union_m, intr_is_union, strip.
  shapes t Hwf; try reflexivity; try (da; reflexivity); destruct p; reflexivity.
Qed.
Lemma is_class_m_spec : forall t, wf t = true -> is_class_m t = std_is_class t.
Proof.
  intros t Hwf; unfold is_class_m, intr_is_class, strip.
  shapes t Hwf; try reflexivity; try (da; reflexivity); destruct p; reflexivity.
Qed.

Lemma wf_memptr_inner : forall d p, wf (MemPtr d p) = true -> wf p = true.
Proof. intros d p H; exact (proj1 (wf_MemPtr _ _ H)). Qed.

Lemma is_member_pointer_m_spec : forall k t, wf t = true -> is_member_pointer_m k t = std_is_member_pointer t.
Proof.
  intros k t Hwf; destruct k; unfold is_member_pointer_m, intr_is_member_pointer, strip;
    shapes t Hwf; try reflexivity; try (da; reflexivity); try (arr_norm; reflexivity);
    destruct p; reflexivity.
Qed.

Lemma is_member_function_pointer_m_spec : forall k t, wf t = true ->
  is_member_function_pointer_m k t = std_is_member_function_pointer t.
Proof.
  intros k t Hwf; destruct k;
    unfold is_member_function_pointer_m, intr_is_member_function_pointer, strip;
    shapes t Hwf; try reflexivity; try (da; reflexivity); try (arr_norm; reflexivity);
    try (cbn; rewrite is_function_m_fn by (eapply wf_memptr_inner; eassumption));
    destruct p; reflexivity.
Qed.

Lemma is_member_object_pointer_m_spec : forall k t, wf t = true ->
  is_member_object_pointer_m k t = std_is_member_object_pointer t.
Proof.
  intros k t Hwf; destruct k;
    unfold is_member_object_pointer_m, is_member_pointer_m, is_member_function_pointer_m,
      intr_is_member_object_pointer, strip;
    shapes t Hwf; try reflexivity; try (da; reflexivity); try (arr_norm; reflexivity);
    try (cbn; rewrite is_function_m_fn by (eapply wf_memptr_inner; eassumption));
    destruct p; reflexivity.
Qed.

(** * [meta.unary.comp] *)
Lemma is_arithmetic_m_spec : forall k t, wf t = true -> is_arithmetic_m k t = std_is_arithmetic t.
Proof.
  intros k t Hwf; unfold is_arithmetic_m, std_is_arithmetic.
  rewrite is_integral_m_spec, is_floating_point_m_spec by assumption; reflexivity.
Qed.
Lemma is_fundamental_m_spec : forall k t, wf t = true -> is_fundamental_m k t = std_is_fundamental t.
Proof.
  intros k t Hwf; unfold is_fundamental_m, std_is_fundamental.
  rewrite is_arithmetic_m_spec, is_void_m_spec, is_null_pointer_m_spec by assumption; reflexivity.
Qed.
Lemma is_compound_m_spec : forall k t, wf t = true -> is_compound_m k t = std_is_compound t.
Proof.
  intros k t Hwf; unfold is_compound_m, std_is_compound. rewrite is_fundamental_m_spec by assumption; reflexivity.
Qed.
Lemma is_scalar_m_spec : forall k t, wf t = true -> is_scalar_m k t = std_is_scalar t.
Proof.
  intros k t Hwf; destruct k.
  - unfold is_scalar_m, std_is_scalar.
    rewrite is_arithmetic_m_spec, is_enum_m_spec, is_pointer_m_spec, is_member_pointer_m_spec,
      is_null_pointer_m_spec by assumption; reflexivity.
  - unfold is_scalar_m, intr_is_scalar, strip.
    shapes t Hwf; try reflexivity; try (da; reflexivity); destruct p; reflexivity.
Qed.
Lemma is_object_m_spec : forall k t, wf t = true -> is_object_m k t = std_is_object t.
Proof.
  intros k t Hwf; destruct k.
  - unfold is_object_m.
    rewrite is_scalar_m_spec, is_array_m_spec, is_union_m_spec, is_class_m_spec by assumption.
    shapes t Hwf; try reflexivity; try (da; reflexivity); destruct p; reflexivity.
  - unfold is_object_m, intr_is_object.
    shapes t Hwf; try reflexivity; try (da; reflexivity); destruct p; reflexivity.
Qed.

(** * signedness *)
Lemma is_signed_m_spec : forall k t, wf t = true -> is_signed_m k t = std_is_signed t.
Proof.
  intros k t Hwf; destruct k;
    unfold is_signed_m, is_arithmetic_m, is_integral_m, is_floating_point_m, contains_m, std_is_signed;
    shapes t Hwf; try reflexivity; try (da; reflexivity);
    try (arr_norm; cbn [unqual]; match goal with |- (if ?b then _ else _) = _ => destruct b end; reflexivity).
Qed.
Lemma is_unsigned_m_spec : forall k t, wf t = true -> is_unsigned_m k t = std_is_unsigned t.
Proof.
  intros k t Hwf; destruct k;
    unfold is_unsigned_m, is_arithmetic_m, is_integral_m, is_floating_point_m, contains_m, std_is_unsigned;
    shapes t Hwf; try reflexivity; try (da; reflexivity);
    try (arr_norm; cbn [unqual]; match goal with |- (if ?b then _ else _) = _ => destruct b end; reflexivity).
Qed.

Lemma is_builtin_signed_integer_m_spec : forall t, wf t = true ->
  is_builtin_signed_integer_m t = std_is_standard_signed_integer t.
Proof.
  intros t Hwf; unfold is_builtin_signed_integer_m, contains_m, std_is_standard_signed_integer.
  shapes t Hwf; try reflexivity; try (da; reflexivity); arr_norm; reflexivity.
Qed.
Lemma is_builtin_unsigned_integer_m_spec : forall t, wf t = true ->
  is_builtin_unsigned_integer_m t = std_is_standard_unsigned_integer t.
Proof.
  intros t Hwf; unfold is_builtin_unsigned_integer_m, contains_m, std_is_standard_unsigned_integer.
  shapes t Hwf; try reflexivity; try (da; reflexivity); arr_norm; reflexivity.
Qed.

(** * arrays, enumerations *)
Lemma is_bounded_array_m_spec : forall t, is_bounded_array_m t = std_is_bounded_array t.
Proof. intros t; destruct t; try reflexivity; destruct n; reflexivity. Qed.
Lemma is_unbounded_array_m_spec : forall t, is_unbounded_array_m t = std_is_unbounded_array t.
Proof. intros t; destruct t; try reflexivity; destruct n; reflexivity. Qed.

Lemma rank_m_spec : forall t, rank_m t = std_rank t.
Proof.
  unfold std_rank; induction t; try reflexivity.
  cbn [rank_m dims length]. rewrite IHt. rewrite Nat2N.inj_succ. apply N.add_1_r.
Qed.
Lemma extent_m_spec : forall t i, extent_m t i = std_extent t i.
Proof.
  unfold std_extent; induction t; intros i; try (destruct i; reflexivity).
  cbn [extent_m dims]. destruct n, i; cbn [nth]; try reflexivity; apply IHt.
Qed.
Lemma remove_all_extents_m_spec : forall t, remove_all_extents_m t = std_remove_all_extents t.
Proof. induction t; reflexivity. Qed.

Lemma is_scoped_enum_m_spec : forall t, is_scoped_enum_m t = std_is_scoped_enum t.
Proof.
  intros t; unfold is_scoped_enum_m, is_enum_m, intr_is_enum, intr_enum_converts_to_underlying,
    std_is_scoped_enum, strip.
  destruct (unqual true true t); try reflexivity. destruct scoped; reflexivity.
Qed.
Lemma underlying_type_m_spec : forall t, underlying_type_m t = std_underlying_type t.
Proof.
  intros t; unfold underlying_type_m, is_enum_m, intr_is_enum, intr_underlying, std_underlying_type, strip.
  destruct (unqual true true t); reflexivity.
Qed.
