(* C15 — ratio and its arithmetic / comparison aliases agree with [ratio] (exact rational arithmetic
   on unbounded integers, Spec: SpecNum.v).  Property theorems only.

   Vocabulary
     in64 x            x is an intmax_t value (the template arguments of ratio are intmax_t)
     ratio_m n d       Some (num, den) of etl::ratio<n, d>, None = the program is ill-formed
                       (static_assert, or signed overflow / division by zero in a constant expression);
                       every signed operation of the header is checked in the model
     normalised n d    0 < d <= INTMAX_MAX, |n| <= INTMAX_MAX, gcd n d = 1 — what R::num, R::den are
     *_spec            lowest terms with positive denominator, ill-formed iff not representable
   All theorems quantify over ALL 64-bit arguments (no grid). *)
From Coq Require Import ZArith.
From Tetl Require Import Lib.Base C15.Types C15.ModelNum C15.SpecNum C15.ProofsGcd C15.ProofsRatio
  C15.ProofsRatioLess C15.ProofsRatioMul C15.ProofsKernels.
Local Open Scope Z_scope.

(* etl::gcd on intmax_t (Euclid on the absolute values as uintmax_t, at most 130 iterations of the
   200 the model allows) is the mathematical gcd, cast back to intmax_t *)
Theorem C15_gcd : forall m n, in64 m -> in64 n -> gcd_m m n = Some (wraps 64 (Z.gcd m n)).
Proof. exact gcd_m_spec. Qed.
Print Assumptions C15_gcd.

(* the straight-line kernels ratio is assembled from, for every intmax_t argument: detail::sign is sgn
   (and 1 at 0, where [ratio.ratio] does not care), etl::abs(long) is |v| and overflows (None: not a
   constant expression) exactly at the most negative value, etl::gcd returns the [numeric.ops.gcd]
   value wherever that is defined.  The run-time ops ksign / kabs / kgcd / kless execute these
   functions of the headers on seeded 64-bit values (the template arguments of ratio must be constants). *)
Theorem C15_ratio_kernels : forall v, in64 v ->
  (forall s, sign_spec v = Some s -> sign_m v = s) /\ sign_m 0 = 1
  /\ abs_m v = abs_spec v
  /\ (abs_m v = None <-> v = - 2 ^ 63)
  /\ forall n g, in64 n -> gcd_spec v n = Some g -> gcd_m v n = Some g.
Proof. exact ratio_kernels. Qed.
Print Assumptions C15_ratio_kernels.

(* ratio<N, D>: for every pair of intmax_t arguments num/den are the [ratio.ratio] values, and the
   program is ill-formed exactly when D = 0 or |N| or |D| is not representable; the values are the
   reduced fraction with positive denominator, equal to N/D; the result is again normalised *)
Theorem C15_ratio_normal_form : forall n d, in64 n -> in64 d ->
  ratio_m n d = ratio_spec n d
  /\ (forall u v, ratio_spec n d = Some (u, v) -> 0 < v /\ Z.gcd u v = 1 /\ u * d = n * v)
  /\ (forall u v, ratio_m n d = Some (u, v) -> normalised u v).
Proof. exact ratio_normal_form. Qed.
Print Assumptions C15_ratio_normal_form.

(* ratio_multiply / ratio_divide on normalised operands: exact AND complete (ill-formed exactly when
   the result in lowest terms is not representable, or on division by zero) *)
Theorem C15_ratio_multiply_divide_exact : forall n1 d1 n2 d2, normalised n1 d1 -> normalised n2 d2 ->
  ratio_multiply_m n1 d1 n2 d2 = ratio_multiply_spec n1 d1 n2 d2
  /\ ratio_divide_m n1 d1 n2 d2 = ratio_divide_spec n1 d1 n2 d2.
Proof.
  intros n1 d1 n2 d2 H1 H2; split;
    [exact (ratio_multiply_m_spec n1 d1 n2 d2 H1 H2) | exact (ratio_divide_m_spec n1 d1 n2 d2 H1 H2)].
Qed.
Print Assumptions C15_ratio_multiply_divide_exact.

(* ratio_add / ratio_subtract: whenever the alias is well-formed it names the exact sum / difference
   in lowest terms (no hypothesis on the operands); and it IS well-formed and equal to the
   specification when none of the four intermediate values overflows.
   FULL STATEMENT that does not hold (see C15_ratio_add_refuted, KF-C15-ratio_add-intermediate-overflow):
     forall normalised operands, ratio_add_m n1 d1 n2 d2 = ratio_add_spec n1 d1 n2 d2 *)
Theorem C15_ratio_add_subtract_sound : forall n1 d1 n2 d2,
  (forall r, ratio_add_m n1 d1 n2 d2 = Some r -> ratio_add_spec n1 d1 n2 d2 = Some r)
  /\ (forall r, ratio_subtract_m n1 d1 n2 d2 = Some r -> ratio_subtract_spec n1 d1 n2 d2 = Some r)
  /\ (in64 (n1 * d2) -> in64 (n2 * d1) -> in64 (n1 * d2 + n2 * d1) -> in64 (d1 * d2) ->
      MIN64 < n1 * d2 + n2 * d1 -> MIN64 < d1 * d2 ->
      ratio_add_m n1 d1 n2 d2 = ratio_add_spec n1 d1 n2 d2).
Proof.
  intros n1 d1 n2 d2; split; [exact (ratio_add_m_sound n1 d1 n2 d2)|]; split;
    [exact (ratio_subtract_m_sound n1 d1 n2 d2) | exact (ratio_add_m_complete n1 d1 n2 d2)].
Qed.
Print Assumptions C15_ratio_add_subtract_sound.

(* recorded finding: normalised operands on which etl's ratio_add / ratio_subtract are ill-formed
   (R1::den * R2::den overflows) although the standard's result is representable *)
Theorem C15_ratio_add_refuted : exists n1 d1 n2 d2,
  ratio_m n1 d1 = Some (n1, d1) /\ ratio_m n2 d2 = Some (n2, d2)
  /\ ratio_add_m n1 d1 n2 d2 = None /\ ratio_add_spec n1 d1 n2 d2 <> None
  /\ ratio_subtract_m n1 d1 n2 d2 = None /\ ratio_subtract_spec n1 d1 n2 d2 <> None.
Proof. exact ratio_add_refuted. Qed.
Print Assumptions C15_ratio_add_refuted.

(* the six comparisons, for all ratios with 64-bit numerators and positive 64-bit denominators:
   ratio_less_impl (continued-fraction comparison, at most 128 of the model's 200 iterations, no
   intermediate overflow) returns exactly n1 * d2 < n2 * d1 *)
Theorem C15_ratio_comparisons : forall n1 d1 n2 d2,
  in64 n1 -> in64 n2 -> 0 < d1 <= MAX64 -> 0 < d2 <= MAX64 ->
  ratio_less_m n1 d1 n2 d2 = Some (ratio_less_spec n1 d1 n2 d2)
  /\ ratio_less_equal_m n1 d1 n2 d2 = Some (negb (ratio_less_spec n2 d2 n1 d1))
  /\ ratio_greater_m n1 d1 n2 d2 = Some (ratio_less_spec n2 d2 n1 d1)
  /\ ratio_greater_equal_m n1 d1 n2 d2 = Some (negb (ratio_less_spec n1 d1 n2 d2))
  /\ ratio_equal_m n1 d1 n2 d2 = Some (ratio_equal_spec n1 d1 n2 d2)
  /\ ratio_not_equal_m n1 d1 n2 d2 = Some (negb (ratio_equal_spec n1 d1 n2 d2)).
Proof. exact ratio_comparisons_spec. Qed.
Print Assumptions C15_ratio_comparisons.

(* ratio_equal (a comparison of num and den) decides equality of the rational numbers, because
   normal forms are unique *)
Theorem C15_ratio_equal_semantic : forall n1 d1 n2 d2, normalised n1 d1 -> normalised n2 d2 ->
  ratio_equal_m n1 d1 n2 d2 = Some (n1 * d2 =? n2 * d1)
  /\ (n1 * d2 = n2 * d1 -> n1 = n2 /\ d1 = d2).
Proof.
  intros n1 d1 n2 d2 H1 H2; split;
    [exact (ratio_equal_semantic n1 d1 n2 d2 H1 H2) | exact (normalised_unique n1 d1 n2 d2 H1 H2)].
Qed.
Print Assumptions C15_ratio_equal_semantic.

(* hypotheses are satisfiable; near-overflow operands; negative denominators are normalised *)
Example C15_ratio_nonvacuous :
  normalised 9223372036854775807 9223372036854775806 /\ normalised (-2) 3
  /\ ratio_m 4 (-6) = Some (-2, 3)
  /\ ratio_multiply_m 9223372036854775807 2 2 9223372036854775807 = Some (1, 1)
  /\ ratio_multiply_m 4611686018427387904 1 4 1 = None
  /\ ratio_less_m 9223372036854775806 9223372036854775807 9223372036854775805 9223372036854775806 = Some false
  /\ ratio_m (-9223372036854775808) 1 = None.
Proof. unfold normalised, MAX64. vm_compute. repeat split; try reflexivity; discriminate. Qed.
