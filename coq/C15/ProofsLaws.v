(* C15 proofs, part 12: laws between the etl traits (consequences of the agreement theorems and of
   well-formedness preservation): idempotence, reference collapsing, inverse pairs. *)
From Coq Require Import NArith.
From Tetl Require Import Lib.Base C15.Types C15.Model C15.Spec C15.ProofsTypes C15.ProofsCv C15.ProofsCat
  C15.ProofsTrans C15.ProofsWf.
Local Open Scope Z_scope.

Lemma unqual_idem : forall t, wf t = true -> unqual true true (unqual true true t) = unqual true true t.
Proof.
  intros t H. apply unqual_noop.
  - apply wf_unqual; exact H.
  - rewrite cv_of_unqual by exact H. cbn. rewrite andb_false_r. reflexivity.
  - rewrite cv_of_unqual by exact H. cbn. rewrite andb_false_r. reflexivity.
Qed.

Lemma std_decay_idem : forall t, wf t = true -> std_decay (std_decay t) = std_decay t.
Proof.
  intros t H.
  pose proof (wf_remove_reference t H) as U. pose proof (remove_reference_not_ref t H) as N.
  assert (E : std_decay t = match std_remove_reference t with
                            | Arr e _ => Ptr e
                            | Fn r a c v q n va as f => if abominable f then f else Ptr f
                            | u => std_remove_cv u
                            end) by reflexivity.
  rewrite E. clear E. set (u := std_remove_reference t) in *. clearbody u. clear t H.
  destruct u; try reflexivity; try discriminate N.
  - (* function *)
    cbv zeta. destruct (abominable (Fn u args c v r ne va)) eqn:E; [|reflexivity].
    unfold std_decay. cbn [std_remove_reference]. rewrite E. reflexivity.
  - (* cv wrapper: the unqualified inner type is not a reference, array or function *)
    pose proof (wf_Cv _ _ _ U) as (_ & _ & H1 & H2 & H3 & H4).
    unfold std_remove_cv. cbn [unqual negb]. rewrite !andb_false_r. cbn [orb].
    destruct u; cbn in H1, H2, H3, H4; try discriminate; reflexivity.
Qed.

(* reference collapsing: all shapes, computed *)
Ltac collapse t :=
  destruct t; try reflexivity;
  try (match goal with r : refq |- _ => destruct r end;
       repeat match goal with b : bool |- _ => destruct b end; reflexivity);
  try (match goal with u : cty |- _ => destruct u; reflexivity end).

Definition trait_laws (t : cty) : Prop :=
  remove_cv_m (remove_cv_m t) = remove_cv_m t
  /\ decay_m (decay_m t) = decay_m t
  /\ remove_cvref_m (remove_cvref_m t) = remove_cvref_m t
  /\ add_lvalue_reference_m (add_lvalue_reference_m t) = add_lvalue_reference_m t
  /\ add_rvalue_reference_m (add_lvalue_reference_m t) = add_lvalue_reference_m t
  /\ add_lvalue_reference_m (add_rvalue_reference_m t) = add_lvalue_reference_m t
  /\ add_rvalue_reference_m (add_rvalue_reference_m t) = add_rvalue_reference_m t
  /\ (referenceable t = true -> remove_reference_m (add_lvalue_reference_m t) = remove_reference_m t)
  /\ (referenceable t || std_is_void t = true ->
      remove_pointer_m (add_pointer_m t) = remove_reference_m t)
  /\ is_const_m (add_const_m t) = negb (is_reference_m t || is_function_m t)
  /\ is_volatile_m (add_volatile_m t) = negb (is_reference_m t || is_function_m t)
  /\ is_const_m (remove_const_m t) = false /\ is_volatile_m (remove_volatile_m t) = false
  /\ (is_array_m t = true -> (rank_m (remove_extent_m t) + 1)%N = rank_m t
                             /\ forall i, extent_m t (S i) = extent_m (remove_extent_m t) i)
  /\ (is_array_m t = false -> rank_m t = 0%N /\ forall i, extent_m t i = 0%N).

Theorem laws : forall t, wf t = true -> trait_laws t.
Proof.
  intros t H; unfold trait_laws.
  assert (Hrc : wf (remove_cv_m t) = true) by (rewrite remove_cv_m_spec by exact H; apply wf_unqual; exact H).
  assert (Hd : wf (decay_m t) = true) by (rewrite decay_m_spec by exact H; apply wf_decay; exact H).
  assert (Hcr : wf (remove_cvref_m t) = true) by (rewrite remove_cvref_m_spec by exact H; apply wf_remove_cvref; exact H).
  assert (Hl : wf (add_lvalue_reference_m t) = true)
    by (rewrite add_lvalue_reference_m_spec by exact H; apply wf_add_lvalue_reference; exact H).
  assert (Hr : wf (add_rvalue_reference_m t) = true)
    by (rewrite add_rvalue_reference_m_spec by exact H; apply wf_add_rvalue_reference; exact H).
  repeat split.
  - rewrite (remove_cv_m_spec _ Hrc), (remove_cv_m_spec _ H). apply unqual_idem; exact H.
  - rewrite (decay_m_spec _ Hd), (decay_m_spec _ H). apply std_decay_idem; exact H.
  - rewrite (remove_cvref_m_spec _ Hcr), (remove_cvref_m_spec _ H).
    unfold std_remove_cvref, std_remove_cv.
    pose proof (wf_remove_reference t H) as U. set (u := std_remove_reference t) in *.
    assert (N : is_ref_ty (unqual true true u) = false).
    { destruct (unqual_shape u true true U) as (-> & _). apply remove_reference_not_ref; exact H. }
    replace (std_remove_reference (unqual true true u)) with (unqual true true u)
      by (destruct (unqual true true u); try discriminate; reflexivity).
    apply unqual_idem; exact U.
  - clear; collapse t.
  - clear; collapse t.
  - clear; collapse t.
  - clear; collapse t.
  - intros R. rewrite add_lvalue_reference_m_spec by exact H. unfold std_add_lvalue_reference. rewrite R.
    rewrite !remove_reference_m_spec. reflexivity.
  - intros R. rewrite add_pointer_m_spec by exact H. unfold std_add_pointer. rewrite R.
    rewrite remove_reference_m_spec. reflexivity.
  - rewrite is_const_m_spec. unfold std_is_const, add_const_m. rewrite cv_of_qual by exact H.
    rewrite is_function_m_fn by exact H.
    destruct t; reflexivity.
  - rewrite is_volatile_m_spec. unfold std_is_volatile, add_volatile_m. rewrite cv_of_qual by exact H.
    rewrite is_function_m_fn by exact H.
    destruct t; reflexivity.
  - rewrite is_const_m_spec, remove_const_m_spec by exact H. unfold std_is_const, std_remove_const.
    rewrite cv_of_unqual by exact H. cbn. apply andb_false_r.
  - rewrite is_volatile_m_spec, remove_volatile_m_spec by exact H. unfold std_is_volatile, std_remove_volatile.
    rewrite cv_of_unqual by exact H. cbn. apply andb_false_r.
  - destruct t; try discriminate. destruct n; reflexivity.
  - destruct t; try discriminate. intros i. destruct n; reflexivity.
  - destruct t; try reflexivity. destruct n; discriminate.
  - destruct t; try (intros i; destruct i; reflexivity). destruct n; discriminate.
Qed.
