(* C15 model + specification, part 3: the traits that are COMPOSITIONS of a compiler intrinsic with
   library-computed argument types, and is_destructible / is_nothrow_destructible (library SFINAE).
   The intrinsics themselves (__is_constructible, __is_assignable, their nothrow / trivially variants,
   "is `declval<U&>().~U()` well-formed", "is it noexcept") are PARAMETERS: the theorems hold for every
   compiler whose intrinsics satisfy the stated language facts.

   Header text (include/etl/_type_traits):
     is_default_constructible<T>  : is_constructible<T>
     is_copy_constructible<T>     : is_constructible<T, add_lvalue_reference_t<add_const_t<T>>>
     is_move_constructible<T>     : is_constructible<T, add_rvalue_reference_t<T>>
     is_copy_assignable<T>        : is_assignable<add_lvalue_reference_t<T>, add_lvalue_reference_t<T const>>
     is_move_assignable<T>        : is_assignable<add_lvalue_reference_t<T>, add_rvalue_reference_t<T>>
   and the same shapes for is_nothrow_* / is_trivially_* (except is_trivially_copy_constructible, a
   recorded finding).  Standard ([meta.unary.prop]): "For a referenceable type T, the same result as
   is_constructible_v<T, const T&> [T&&; is_assignable_v<T&, const T&>; is_assignable_v<T&, T&&>],
   otherwise false." *)
From Tetl Require Import Lib.Base C15.Types C15.Model C15.Spec.
Local Open Scope Z_scope.

(** * argument types computed by the library (extracted: the driver prints them into obligations) *)
Definition copy_ctor_arg_m (t : cty) : cty := add_lvalue_reference_m (add_const_m t).
Definition move_ctor_arg_m (t : cty) : cty := add_rvalue_reference_m t.
Definition assign_target_m (t : cty) : cty := add_lvalue_reference_m t.
Definition copy_assign_arg_m (t : cty) : cty := add_lvalue_reference_m (qual true false t).   (* T const *)
Definition move_assign_arg_m (t : cty) : cty := add_rvalue_reference_m t.

(* the standard's "const T&", "T&&", "T&" for a referenceable T *)
Definition std_const_lref (t : cty) : cty := std_add_lvalue_reference (std_add_const t).
Definition std_rref (t : cty) : cty := std_add_rvalue_reference t.
Definition std_lref (t : cty) : cty := std_add_lvalue_reference t.

Section Intrinsics.
  (* one family of intrinsics: plain, nothrow or trivially *)
  Variable ctor : cty -> list cty -> bool.       (* __is_[nothrow_|trivially_]constructible(T, Args...) *)
  Variable asg : cty -> cty -> bool.             (* __is_[nothrow_|trivially_]assignable(T, U) *)

  Definition is_default_constructible_m (t : cty) : bool := ctor t [].
  Definition is_copy_constructible_m (t : cty) : bool := ctor t [copy_ctor_arg_m t].
  Definition is_move_constructible_m (t : cty) : bool := ctor t [move_ctor_arg_m t].
  Definition is_copy_assignable_m (t : cty) : bool := asg (assign_target_m t) (copy_assign_arg_m t).
  Definition is_move_assignable_m (t : cty) : bool := asg (assign_target_m t) (move_assign_arg_m t).

  Definition std_is_default_constructible (t : cty) : bool := ctor t [].
  Definition std_is_copy_constructible (t : cty) : bool :=
    if referenceable t then ctor t [std_const_lref t] else false.
  Definition std_is_move_constructible (t : cty) : bool :=
    if referenceable t then ctor t [std_rref t] else false.
  Definition std_is_copy_assignable (t : cty) : bool :=
    if referenceable t then asg (std_lref t) (std_const_lref t) else false.
  Definition std_is_move_assignable (t : cty) : bool :=
    if referenceable t then asg (std_lref t) (std_rref t) else false.
End Intrinsics.

(** * is_destructible / is_nothrow_destructible *)
(* what the library decides by itself, and which question it passes on to the compiler *)
Inductive dres := DFalse | DTrue | DAsk (u : cty).
Definition dres_eqb (a b : dres) : bool :=
  match a, b with
  | DFalse, DFalse | DTrue, DTrue => true
  | DAsk x, DAsk y => cty_eqb x y
  | _, _ => false
  end.

(* is_destructible<T>: explicit specialisations for T[] and void, then
   is_destructible_safe<T, is_void or is_function or is_unbounded_array, is_reference or is_scalar> *)
Definition is_destructible_q (k : cfg) (t : cty) : dres :=
  match t with
  | Arr _ None => DFalse                                   (* is_destructible<Type[]> *)
  | Void => DFalse                                         (* is_destructible<void> *)
  | _ =>
      let b1 := is_void_m t || is_function_m t || is_unbounded_array_m t in
      let b2 := is_reference_m t || is_scalar_m k t in
      if b1 then DFalse
      else if b2 then DTrue
      else DAsk (remove_all_extents_m t)                   (* declval<U&>().~U() well-formed? *)
  end.
(* [meta.unary.prop]: "Either T is a reference type, or T is a complete object type for which the
   expression declval<U&>().~U() is well-formed when treated as an unevaluated operand, where U is
   remove_all_extents_t<T>" *)
Definition std_is_destructible_q (t : cty) : dres :=
  if std_is_reference t then DTrue
  else if std_is_object t && negb (std_is_unbounded_array t)
  then DAsk (std_remove_all_extents t)
  else DFalse.

Section Destructor.
  Variable dtor_ok : cty -> bool.        (* declval<U&>().~U() is well-formed (accessible, not deleted) *)
  Variable dtor_noexcept : cty -> bool.  (* noexcept(declval<T>().~T()) for a non-array object type T *)

  Definition eval_dres (r : dres) : bool :=
    match r with DFalse => false | DTrue => true | DAsk u => dtor_ok u end.
  Definition is_destructible_m (k : cfg) (t : cty) : bool := eval_dres (is_destructible_q k t).
  Definition std_is_destructible (t : cty) : bool := eval_dres (std_is_destructible_q t).

  (* is_nothrow_destructible: partial specialisations Type[N] (recurse), Type&, Type&& (true), else
     helper<is_destructible_v<T>, T> = noexcept(declval<T>().~T()) *)
  Fixpoint is_nothrow_destructible_m (k : cfg) (t : cty) : bool :=
    match t with
    | Arr e (Some _) => is_nothrow_destructible_m k e
    | LRef _ | RRef _ => true
    | _ => if is_destructible_m k t then dtor_noexcept t else false
    end.
  (* is_destructible_v<T> and the destructor call on U = remove_all_extents_t<T> is noexcept *)
  Definition std_is_nothrow_destructible (t : cty) : bool :=
    if std_is_reference t then true
    else std_is_destructible t && dtor_noexcept (std_remove_all_extents t).
End Destructor.

(** * is_convertible: two SFINAE tests and the void/void clause *)
(* what the library decides itself, and the question it passes to the compiler:
   (test_returnable<To> && test_nonvoid_convertible<From, To>) || (is_void_v<From> && is_void_v<To>) *)
Inductive cres := CFalse | CTrue | CAsk.         (* CAsk: is declval<void (&)(To)>()(declval<From>()) well-formed *)
(* test_returnable<To>: can the function type To() be formed ([dcl.fct]: not an array, not a function) *)
Definition returnable_m (t : cty) : bool := negb (is_arr_ty t) && negb (is_fn_ty t).
Definition is_convertible_q (from to : cty) : cres :=
  if is_void_m from && is_void_m to then CTrue          (* the disjunction's second operand *)
  else if returnable_m to then CAsk else CFalse.
(* [meta.rel]: "To test() { return declval<From>(); }" is well-formed *)
Definition std_is_convertible_q (from to : cty) : cres :=
  if std_is_void to then (if std_is_void from then CTrue else CFalse)
  else if std_is_array to || std_is_function to then CFalse
  else CAsk.

Section Conversion.
  Variable call_ok : cty -> cty -> bool.     (* declval<void (&)(To)>()(declval<From>()) is well-formed *)
  Definition eval_cres (from to : cty) (r : cres) : bool :=
    match r with CFalse => false | CTrue => true | CAsk => call_ok from to end.
  Definition is_convertible_m (from to : cty) : bool := eval_cres from to (is_convertible_q from to).
  Definition std_is_convertible (from to : cty) : bool := eval_cres from to (std_is_convertible_q from to).
End Conversion.
