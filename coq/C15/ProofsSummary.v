(* C15 proofs, part 6: the per-trait lemmas assembled into the statements of Properties.v, the
   partition law of the primary categories, and the non-vacuity witnesses. *)
From Coq Require Import NArith.
From Tetl Require Import Lib.Base C15.Types C15.Model C15.Spec C15.ProofsTypes C15.ProofsCv C15.ProofsCat
  C15.ProofsTrans.
Local Open Scope Z_scope.

Definition primary_categories_agree (k : cfg) (t : cty) : Prop :=
  is_void_m t = std_is_void t /\ is_null_pointer_m t = std_is_null_pointer t
  /\ is_integral_m k t = std_is_integral t /\ is_floating_point_m t = std_is_floating_point t
  /\ is_array_m t = std_is_array t /\ is_pointer_m t = std_is_pointer t
  /\ is_lvalue_reference_m t = std_is_lvalue_reference t
  /\ is_rvalue_reference_m t = std_is_rvalue_reference t
  /\ is_member_object_pointer_m k t = std_is_member_object_pointer t
  /\ is_member_function_pointer_m k t = std_is_member_function_pointer t
  /\ is_enum_m t = std_is_enum t /\ is_union_m t = std_is_union t /\ is_class_m t = std_is_class t
  /\ is_function_m t = std_is_function t.

Lemma primary_categories : forall k t, wf t = true -> primary_categories_agree k t.
Proof.
  intros k t H; unfold primary_categories_agree.
  rewrite is_void_m_spec, is_null_pointer_m_spec, is_integral_m_spec, is_floating_point_m_spec,
    is_array_m_spec, is_pointer_m_spec, is_lvalue_reference_m_spec, is_rvalue_reference_m_spec,
    is_member_object_pointer_m_spec, is_member_function_pointer_m_spec, is_enum_m_spec,
    is_union_m_spec, is_class_m_spec, is_function_m_spec by assumption.
  repeat split; reflexivity.
Qed.

Definition composite_categories_agree (k : cfg) (t : cty) : Prop :=
  is_reference_m t = std_is_reference t /\ is_arithmetic_m k t = std_is_arithmetic t
  /\ is_fundamental_m k t = std_is_fundamental t /\ is_object_m k t = std_is_object t
  /\ is_scalar_m k t = std_is_scalar t /\ is_compound_m k t = std_is_compound t
  /\ is_member_pointer_m k t = std_is_member_pointer t.

Lemma composite_categories : forall k t, wf t = true -> composite_categories_agree k t.
Proof.
  intros k t H; unfold composite_categories_agree.
  rewrite is_reference_m_spec, is_arithmetic_m_spec, is_fundamental_m_spec, is_object_m_spec,
    is_scalar_m_spec, is_compound_m_spec, is_member_pointer_m_spec by assumption.
  repeat split; reflexivity.
Qed.

Definition type_properties_agree (k : cfg) (t : cty) : Prop :=
  is_const_m t = std_is_const t /\ is_volatile_m t = std_is_volatile t
  /\ is_signed_m k t = std_is_signed t /\ is_unsigned_m k t = std_is_unsigned t
  /\ is_bounded_array_m t = std_is_bounded_array t /\ is_unbounded_array_m t = std_is_unbounded_array t
  /\ rank_m t = std_rank t /\ (forall i, extent_m t i = std_extent t i)
  /\ is_scoped_enum_m t = std_is_scoped_enum t
  /\ is_builtin_signed_integer_m t = std_is_standard_signed_integer t
  /\ is_builtin_unsigned_integer_m t = std_is_standard_unsigned_integer t
  /\ is_builtin_integer_m t = (std_is_standard_unsigned_integer t || std_is_standard_signed_integer t)%bool.

Lemma type_properties : forall k t, wf t = true -> type_properties_agree k t.
Proof.
  intros k t H; unfold type_properties_agree, is_builtin_integer_m.
  rewrite is_const_m_spec, is_volatile_m_spec, is_signed_m_spec, is_unsigned_m_spec,
    is_bounded_array_m_spec, is_unbounded_array_m_spec, rank_m_spec, is_scoped_enum_m_spec,
    is_builtin_signed_integer_m_spec, is_builtin_unsigned_integer_m_spec by assumption.
  repeat split; try reflexivity. intros i; apply extent_m_spec.
Qed.

Definition cv_transformations_agree (t : cty) : Prop :=
  remove_const_m t = std_remove_const t /\ remove_volatile_m t = std_remove_volatile t
  /\ remove_cv_m t = std_remove_cv t /\ add_const_m t = std_add_const t
  /\ add_volatile_m t = std_add_volatile t /\ add_cv_m t = std_add_cv t.

Lemma cv_transformations : forall t, wf t = true -> cv_transformations_agree t.
Proof.
  intros t H; unfold cv_transformations_agree.
  rewrite remove_const_m_spec, remove_volatile_m_spec, remove_cv_m_spec, add_const_m_spec,
    add_volatile_m_spec, add_cv_m_spec by assumption.
  repeat split; reflexivity.
Qed.

Definition compound_transformations_agree (t : cty) : Prop :=
  remove_reference_m t = std_remove_reference t
  /\ add_lvalue_reference_m t = std_add_lvalue_reference t
  /\ add_rvalue_reference_m t = std_add_rvalue_reference t
  /\ remove_pointer_m t = std_remove_pointer t /\ add_pointer_m t = std_add_pointer t
  /\ remove_extent_m t = std_remove_extent t /\ remove_all_extents_m t = std_remove_all_extents t
  /\ decay_m t = std_decay t /\ remove_cvref_m t = std_remove_cvref t
  /\ type_identity_m t = t.

Lemma compound_transformations : forall t, wf t = true -> compound_transformations_agree t.
Proof.
  intros t H; unfold compound_transformations_agree.
  rewrite remove_reference_m_spec, add_lvalue_reference_m_spec, add_rvalue_reference_m_spec,
    remove_pointer_m_spec, add_pointer_m_spec, remove_extent_m_spec, remove_all_extents_m_spec,
    decay_m_spec, remove_cvref_m_spec by assumption.
  repeat split; reflexivity.
Qed.

Definition sign_transformations_agree (k : cfg) (t : cty) : Prop :=
  make_signed_m k t = std_make_signed t /\ make_unsigned_m k t = std_make_unsigned t
  /\ underlying_type_m t = std_underlying_type t.

Lemma sign_transformations : forall k t, wf t = true -> sign_transformations_agree k t.
Proof.
  intros k t H; unfold sign_transformations_agree.
  rewrite make_signed_m_spec, make_unsigned_m_spec, underlying_type_m_spec by assumption.
  repeat split; reflexivity.
Qed.

(** * relations between two types *)
Lemma contains_m_spec : forall x l, contains_m x l = true <-> In x l.
Proof.
  intros x l; unfold contains_m, is_same_m. rewrite existsb_exists. split.
  - intros (y & Hy & E). apply cty_eqb_true in E. now subst.
  - intros H; exists x; split; [assumption | apply cty_eqb_refl].
Qed.

Lemma binary_relations : forall t u,
  (is_same_m t u = true <-> t = u) /\ (same_as_m t u = true <-> t = u)
  /\ (forall b, conditional_m b t u = std_conditional b t u).
Proof.
  intros t u; repeat split.
  - apply cty_eqb_true.
  - intros ->; apply cty_eqb_refl.
  - unfold same_as_m; intros H; apply andb_prop in H; apply cty_eqb_true; tauto.
  - intros ->; unfold same_as_m, is_same_m; rewrite cty_eqb_refl; reflexivity.
Qed.

(** * concepts that are conjunctions of traits *)
Definition concepts_agree (k : cfg) (t : cty) : Prop :=
  integral_c_m k t = std_is_integral t /\ floating_point_c_m t = std_is_floating_point t
  /\ signed_integral_c_m k t = (std_is_integral t && std_is_signed t)%bool
  /\ unsigned_integral_c_m k t = (std_is_integral t && negb (std_is_signed t))%bool
  /\ referenceable_c_m t = negb (std_is_void t)
  /\ (referenceable t = true -> referenceable_c_m t = true).

Lemma integral_unsigned : forall t, wf t = true -> std_is_integral t = true ->
  std_is_unsigned t = negb (std_is_signed t).
Proof.
  intros t Hwf; unfold std_is_integral, std_is_unsigned, std_is_signed.
  shapes t Hwf; intros E; try discriminate E; try (da; reflexivity); try (da; discriminate E);
    try (destruct p; discriminate E).
Qed.

Lemma concepts : forall k t, wf t = true -> concepts_agree k t.
Proof.
  intros k t H; unfold concepts_agree, integral_c_m, floating_point_c_m, signed_integral_c_m,
    unsigned_integral_c_m.
  rewrite is_integral_m_spec, is_floating_point_m_spec, is_signed_m_spec, is_unsigned_m_spec by assumption.
  repeat split; try reflexivity.
  - destruct (std_is_integral t) eqn:E; [|reflexivity].
    cbn [andb]. apply integral_unsigned; assumption.
  - unfold referenceable_c_m. rewrite is_void_m_spec by assumption. reflexivity.
  - unfold referenceable_c_m. rewrite is_void_m_spec by assumption.
    intros R.
    shapes t H; try reflexivity; try (da; reflexivity); try (destruct p; reflexivity);
      vm_compute in R; discriminate R.
Qed.

(* the etl-only concept `referenceable` ("not void") is weaker than [defns.referenceable]: it also
   accepts function types with cv- or ref-qualifiers, to which no reference can be formed *)
Lemma etl_referenceable_is_not_defns_referenceable :
  exists t, wf t = true /\ referenceable_c_m t = true /\ referenceable t = false.
Proof. exists (Fn Void [] true false RQnone false false). vm_compute. repeat split; reflexivity. Qed.

(** * exactly one primary category *)
Definition primary_m (k : cfg) (t : cty) : list bool :=
  [is_void_m t; is_null_pointer_m t; is_integral_m k t; is_floating_point_m t; is_array_m t;
   is_pointer_m t; is_lvalue_reference_m t; is_rvalue_reference_m t;
   is_member_object_pointer_m k t; is_member_function_pointer_m k t; is_enum_m t; is_union_m t;
   is_class_m t; is_function_m t].
Definition count_true (l : list bool) : nat := length (filter (fun b => b) l).

Lemma primary_partition : forall k t, wf t = true -> count_true (primary_m k t) = 1%nat.
Proof.
  intros k t H. pose proof (primary_categories k t H) as P. unfold primary_categories_agree in P.
  unfold primary_m.
  destruct P as (-> & -> & -> & -> & -> & -> & -> & -> & -> & -> & -> & -> & -> & ->).
  unfold std_is_void, std_is_null_pointer, std_is_integral, std_is_floating_point, std_is_array,
    std_is_pointer, std_is_lvalue_reference, std_is_rvalue_reference, std_is_member_object_pointer,
    std_is_member_function_pointer, std_is_enum, std_is_union, std_is_class, std_is_function, has_cat.
  destruct (category_of t); reflexivity.
Qed.

(* the category is invariant under cv-qualification: "the result of applying one of these templates
   to T and to cv T shall yield the same result" — for the etl traits *)
Lemma category_cv_invariant : forall k t c v, wf t = true ->
  primary_m k (qual c v t) = primary_m k t.
Proof.
  intros k t c v H.
  pose proof (primary_categories k t H) as P.
  pose proof (primary_categories k _ (wf_qual t c v H)) as Q.
  unfold primary_categories_agree in *. unfold primary_m.
  destruct P as (-> & -> & -> & -> & -> & -> & -> & -> & -> & -> & -> & -> & -> & ->).
  destruct Q as (-> & -> & -> & -> & -> & -> & -> & -> & -> & -> & -> & -> & -> & ->).
  assert (E : category_of (qual c v t) = category_of t).
  { clear. destruct t; cbn [qual]; try reflexivity; destruct (c || v)%bool; reflexivity. }
  unfold std_is_void, std_is_null_pointer, std_is_integral, std_is_floating_point, std_is_array,
    std_is_pointer, std_is_lvalue_reference, std_is_rvalue_reference, std_is_member_object_pointer,
    std_is_member_function_pointer, std_is_enum, std_is_union, std_is_class, std_is_function, has_cat.
  rewrite E. reflexivity.
Qed.

(** * the transformation traits map well-formed types to well-formed types *)

(** * non-vacuity: deeply nested well-formed types exist and the traits are non-trivial on them *)
Definition nv_cls : clsdesc := plain_class 1.
(* reference to an array of 3 const pointers to `int(char, double ptr) noexcept` *)
Definition nv_t1 : cty :=
  LRef (Arr (Cv true false (Ptr (Fn (Arith AInt) [Arith AChar; Ptr (Arith ADouble)] false false RQnone true false)))
            (Some 3%N)).
(* const volatile unsigned long [][2][5] *)
Definition nv_t2 : cty :=
  Arr (Arr (Arr (Cv true true (Arith AULong)) (Some 5%N)) (Some 2%N)) None.
(* volatile pointer to member function `void(int) const &` of class C *)
Definition nv_t3 : cty :=
  Cv false true (MemPtr nv_cls (Fn Void [Arith AInt] true false RQlref false false)).

Lemma nonvacuous :
  wf nv_t1 = true /\ wf nv_t2 = true /\ wf nv_t3 = true
  /\ decay_m nv_t1 = Ptr (Cv true false (Ptr (Fn (Arith AInt) [Arith AChar; Ptr (Arith ADouble)] false false RQnone true false)))
  /\ is_const_m nv_t2 = true /\ rank_m nv_t2 = 3%N /\ extent_m nv_t2 2 = 5%N
  /\ remove_cv_m nv_t2 = Arr (Arr (Arr (Arith AULong) (Some 5%N)) (Some 2%N)) None
  /\ is_member_function_pointer_m GCC12 nv_t3 = true /\ is_member_object_pointer_m GCC12 nv_t3 = false
  /\ make_unsigned_m GCC12 (Cv true false (Arith AWChar)) = Some (Cv true false (Arith AUInt))
  /\ common_type_m (Cv true false (Arith AChar)) (LRef (Arith AULong)) = Some (Arith AULong)
  /\ wf (LRef (LRef (Arith AInt))) = false /\ wf (Ptr (Fn Void [] true false RQnone false false)) = false.
Proof. vm_compute. repeat split; reflexivity. Qed.
