(* C15 proofs, part 2: the cv-qualification machinery of Types.v preserves well-formedness, and
   the etl cv traits (partial specialisations on `T const`, `T volatile`) compute the language's
   notion of removing / adding top-level qualifiers on EVERY well-formed type (induction over the
   array spine: the qualification of an array type is that of its element type). *)
From Tetl Require Import Lib.Base C15.Types C15.Model C15.Spec C15.ProofsTypes.
Local Open Scope Z_scope.

Ltac bsplit H :=
  repeat match type of H with
         | (_ && _)%bool = true =>
             let H' := fresh H in apply andb_prop in H; destruct H as [H H']; try bsplit H'
         end.
Ltac negs := repeat match goal with h : negb _ = true |- _ => apply negb_true_iff in h end.

(** * shapes under unqual *)
Lemma unqual_shape : forall t dc dv, wf t = true ->
  is_ref_ty (unqual dc dv t) = is_ref_ty t /\ is_fn_ty (unqual dc dv t) = is_fn_ty t
  /\ is_void_ty (unqual dc dv t) = is_void_ty t
  /\ is_unbounded_ty (unqual dc dv t) = is_unbounded_ty t
  /\ is_arr_ty (unqual dc dv t) = is_arr_ty t /\ abominable (unqual dc dv t) = abominable t.
Proof.
  intros t dc dv Hwf; destruct t; cbn [unqual]; try (repeat split; reflexivity).
  apply wf_Cv in Hwf; destruct Hwf as (Hcv & Hw & H1 & H2 & H3 & H4).
  destruct (c && negb dc || v && negb dv)%bool; [repeat split; reflexivity|].
  destruct t; cbn in *; try discriminate; repeat split; reflexivity.
Qed.

Lemma abstract_base_unqual : forall t dc dv, wf t = true ->
  is_abstract_ty (arr_base (unqual dc dv t)) = is_abstract_ty (arr_base t).
Proof.
  induction t; intros dc dv Hwf; cbn [unqual arr_base]; try reflexivity.
  - apply wf_Arr in Hwf. apply IHt; tauto.
  - apply wf_Cv in Hwf; destruct Hwf as (Hcv & Hw & H1 & H2 & H3 & H4).
    destruct (c && negb dc || v && negb dv)%bool; [reflexivity|].
    destruct t; cbn in *; try discriminate; reflexivity.
Qed.

Theorem wf_unqual : forall t dc dv, wf t = true -> wf (unqual dc dv t) = true.
Proof.
  induction t; intros dc dv Hwf; cbn [unqual]; try exact Hwf.
  - (* Arr *)
    pose proof (wf_Arr _ _ Hwf) as (Hw & _).
    pose proof (unqual_shape t dc dv Hw) as (S1 & S2 & S3 & S4 & S5 & S6).
    cbn [wf] in *. rewrite S1, S2, S3, S4, abstract_base_unqual by assumption.
    rewrite (IHt dc dv Hw). rewrite Hw in Hwf. exact Hwf.
  - (* Cv *)
    pose proof (wf_Cv _ _ _ Hwf) as (Hcv & Hw & H1 & H2 & H3 & H4).
    destruct (c && negb dc || v && negb dv)%bool eqn:E; [|exact Hw].
    cbn [wf]. rewrite E, Hw, H1, H2, H3, H4. reflexivity.
Qed.

(** * shapes under qual *)
Lemma qual_shape : forall t c v, wf t = true ->
  is_ref_ty (qual c v t) = is_ref_ty t /\ is_fn_ty (qual c v t) = is_fn_ty t
  /\ is_void_ty (qual c v t) = is_void_ty t
  /\ is_unbounded_ty (qual c v t) = is_unbounded_ty t
  /\ is_arr_ty (qual c v t) = is_arr_ty t /\ abominable (qual c v t) = abominable t.
Proof.
  intros t c v Hwf; destruct t; cbn [qual]; try (repeat split; reflexivity);
    try (destruct (c || v)%bool; repeat split; reflexivity).
Qed.

Lemma abstract_base_qual : forall t c v,
  is_abstract_ty (arr_base (qual c v t)) = is_abstract_ty (arr_base t).
Proof.
  induction t; intros c0 v0; cbn [qual arr_base]; try reflexivity;
    try (destruct (c0 || v0)%bool; reflexivity).
  apply IHt.
Qed.

Theorem wf_qual : forall t c v, wf t = true -> wf (qual c v t) = true.
Proof.
  induction t; intros c0 v0 Hwf; cbn [qual]; try exact Hwf;
    try (destruct (c0 || v0)%bool eqn:E; [cbn [wf] in *; rewrite ?E, ?Hwf; reflexivity | exact Hwf]).
  - (* Arr *)
    pose proof (wf_Arr _ _ Hwf) as (Hw & _).
    pose proof (qual_shape t c0 v0 Hw) as (S1 & S2 & S3 & S4 & S5 & S6).
    cbn [wf] in *. rewrite S1, S2, S3, S4, abstract_base_qual.
    rewrite (IHt c0 v0 Hw). rewrite Hw in Hwf. exact Hwf.
  - (* Cv *)
    pose proof (wf_Cv _ _ _ Hwf) as (Hcv & Hw & H1 & H2 & H3 & H4).
    cbn [wf]. rewrite Hw, H1, H2, H3, H4.
    destruct c0, v0, c, v; cbn in *; try discriminate; reflexivity.
Qed.

(** * the etl cv traits *)
Lemma is_const_m_spec : forall t, is_const_m t = std_is_const t.
Proof. intros t; unfold is_const_m, m_const, std_is_const. destruct (fst (cv_of t)); reflexivity. Qed.
Lemma is_volatile_m_spec : forall t, is_volatile_m t = std_is_volatile t.
Proof. intros t; unfold is_volatile_m, m_volatile, std_is_volatile. destruct (snd (cv_of t)); reflexivity. Qed.

Lemma remove_const_m_spec : forall t, wf t = true -> remove_const_m t = std_remove_const t.
Proof.
  intros t Hwf; unfold remove_const_m, m_const, std_remove_const.
  destruct (fst (cv_of t)) eqn:E; [reflexivity|].
  symmetry; apply unqual_noop; [assumption | rewrite E; reflexivity | apply andb_false_r].
Qed.
Lemma remove_volatile_m_spec : forall t, wf t = true -> remove_volatile_m t = std_remove_volatile t.
Proof.
  intros t Hwf; unfold remove_volatile_m, m_volatile, std_remove_volatile.
  destruct (snd (cv_of t)) eqn:E; [reflexivity|].
  symmetry; apply unqual_noop; [assumption | apply andb_false_r | rewrite E; reflexivity].
Qed.
Lemma remove_cv_m_spec : forall t, wf t = true -> remove_cv_m t = std_remove_cv t.
Proof.
  intros t Hwf; unfold remove_cv_m.
  rewrite (remove_volatile_m_spec t Hwf).
  unfold std_remove_volatile, std_remove_cv.
  rewrite remove_const_m_spec by (apply wf_unqual; assumption).
  apply unqual_unqual; assumption.
Qed.

(* set_cv with the qualification a type already has is the identity *)
Lemma set_cv_id : forall t, wf t = true -> set_cv (fst (cv_of t)) (snd (cv_of t)) t = t.
Proof.
  induction t; intros Hwf; cbn [set_cv cv_of fst snd orb]; try reflexivity.
  - apply wf_Arr in Hwf. f_equal. apply IHt; tauto.
  - apply wf_Cv in Hwf. destruct Hwf as (Hcv & _). rewrite Hcv. reflexivity.
Qed.

(* forming "T const volatile..." from a non-reference, non-function T sets the union of the
   qualifiers *)
Lemma qual_set_cv : forall t c v, wf t = true -> is_ref_ty t = false -> is_fn_ty t = false ->
  qual c v t = set_cv (c || fst (cv_of t)) (v || snd (cv_of t)) t.
Proof.
  induction t; intros c0 v0 Hwf Hr Hf; cbn [qual set_cv cv_of fst snd]; try discriminate;
    rewrite ?orb_false_r; try reflexivity.
  - apply wf_Arr in Hwf. f_equal. apply IHt; tauto.
  - apply wf_Cv in Hwf. destruct Hwf as (Hcv & _).
    destruct c0, v0, c, v; cbn in *; try discriminate; reflexivity.
Qed.

Lemma ref_fn_cat : forall t, wf t = true ->
  (std_is_reference t || std_is_function t)%bool = (is_ref_ty t || is_fn_ty t)%bool.
Proof.
  intros t Hwf; destruct t; try reflexivity; try (destruct a; reflexivity).
  - destruct t; reflexivity.
  - apply wf_Cv in Hwf. destruct Hwf as (_ & _ & H1 & H2 & H3 & H4).
    destruct t; cbn in *; try discriminate; try reflexivity; try (destruct a; reflexivity).
    destruct t; reflexivity.
Qed.

Lemma add_const_m_spec : forall t, wf t = true -> add_const_m t = std_add_const t.
Proof.
  intros t Hwf; unfold add_const_m, std_add_const. rewrite ref_fn_cat by assumption.
  destruct (is_ref_ty t) eqn:Hr; [destruct t; try discriminate; reflexivity|].
  destruct (is_fn_ty t) eqn:Hf; [destruct t; try discriminate; reflexivity|].
  cbn [orb]. rewrite qual_set_cv by assumption. unfold std_is_const, std_is_volatile. cbn [orb].
  destruct (fst (cv_of t)) eqn:E; [|reflexivity].
  rewrite <- E. apply set_cv_id; assumption.
Qed.

Lemma add_volatile_m_spec : forall t, wf t = true -> add_volatile_m t = std_add_volatile t.
Proof.
  intros t Hwf; unfold add_volatile_m, std_add_volatile. rewrite ref_fn_cat by assumption.
  destruct (is_ref_ty t) eqn:Hr; [destruct t; try discriminate; reflexivity|].
  destruct (is_fn_ty t) eqn:Hf; [destruct t; try discriminate; reflexivity|].
  cbn [orb]. rewrite qual_set_cv by assumption. unfold std_is_const, std_is_volatile. cbn [orb].
  destruct (snd (cv_of t)) eqn:E; [|reflexivity].
  rewrite <- E. apply set_cv_id; assumption.
Qed.

Lemma qual_qual : forall t c1 v1 c2 v2,
  qual c1 v1 (qual c2 v2 t) = qual (c1 || c2) (v1 || v2) t.
Proof.
  induction t; intros c1 v1 c2 v2; cbn [qual];
    try reflexivity;
    try (destruct c1, v1, c2, v2; reflexivity).
  f_equal. apply IHt.
Qed.

Lemma add_cv_m_spec : forall t, wf t = true -> add_cv_m t = std_add_cv t.
Proof.
  intros t Hwf; unfold std_add_cv.
  rewrite <- (add_volatile_m_spec t Hwf).
  rewrite <- add_const_m_spec by (apply wf_qual; assumption).
  unfold add_cv_m, add_const_m, add_volatile_m. rewrite qual_qual. reflexivity.
Qed.
