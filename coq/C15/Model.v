(* C15 model, part 1: the etl type traits that are LIBRARY CODE (partial specialisations, SFINAE,
   compositions of other traits), transcribed header by header from include/etl/_type_traits/*.hpp,
   include/etl/_concepts/*.hpp and include/etl/_meta/contains.hpp as functions on the type
   universe of Types.v.

   How the transcription works
     - a class-template partial specialisation  `template <typename T> struct X<PATTERN(T)>`
       becomes a call of the matching primitive for PATTERN ([m_const] for `T const`, [m_ptr] for
       `T*`, [m_arr_b] for `T[N]`, ...), which returns the deduced T or None (= the primary
       template is used).  The primitives are the language's deduction rules ([temp.deduct.type]);
     - a SFINAE overload pair `f<T>(int) -> type_identity<FORM(T)>` / `f<T>(...)` becomes
       [form_lref]/[form_rref]/[form_ptr], which return None exactly when forming the type is a
       substitution failure ([temp.deduct]/8, [dcl.ref], [dcl.ptr]);
     - a trait that forwards to a COMPILER INTRINSIC (__is_class, __is_enum, __is_union,
       __underlying_type, ... ) is modelled by the language definition of the intrinsic and named
       [intr_*]; these are the compiler's, not library code (NOTES.md lists them);
     - the headers select different implementations per compiler (`__has_builtin(...)`,
       `TETL_COMPILER_CLANG`); the model takes the configuration as a parameter [cfg] and the
       theorems quantify over it.  g++ 12: no __is_integral/__is_object/__is_scalar, member pointer
       traits by partial specialisation; clang 14: all of these are intrinsics. *)
From Tetl Require Import Lib.Base C15.Types.
Local Open Scope Z_scope.

Inductive cfg := GCC12 | Clang14.

(** * Matching primitives (partial-specialisation patterns) *)
Definition m_const (t : cty) : option cty :=           (* T const *)
  if fst (cv_of t) then Some (unqual true false t) else None.
Definition m_volatile (t : cty) : option cty :=        (* T volatile *)
  if snd (cv_of t) then Some (unqual false true t) else None.
Definition m_ptr (t : cty) : option cty := match t with Ptr u => Some u | _ => None end.      (* T* *)
Definition m_lref (t : cty) : option cty := match t with LRef u => Some u | _ => None end.    (* T& *)
Definition m_rref (t : cty) : option cty := match t with RRef u => Some u | _ => None end.    (* T&& *)
Definition m_arr_unb (t : cty) : option cty :=                                                (* T[] *)
  match t with Arr e None => Some e | _ => None end.
Definition m_arr_b (t : cty) : option (cty * N) :=                                            (* T[N] *)
  match t with Arr e (Some n) => Some (e, n) | _ => None end.
Definition m_memptr (t : cty) : option (cty * clsdesc) :=                                     (* T U::* *)
  match t with MemPtr d u => Some (u, d) | _ => None end.
Definition isSome {A} (o : option A) : bool := match o with Some _ => true | None => false end.

(** * Forming compound types from a template parameter (substitution failure = None) *)
Definition form_lref (t : cty) : option cty :=         (* T& , with reference collapsing *)
  match t with
  | LRef u | RRef u => Some (LRef u)
  | _ => if is_void_ty t || abominable t then None else Some (LRef t)
  end.
Definition form_rref (t : cty) : option cty :=         (* T&& *)
  match t with
  | LRef u => Some (LRef u)
  | RRef u => Some (RRef u)
  | _ => if is_void_ty t || abominable t then None else Some (RRef t)
  end.
Definition form_ptr (t : cty) : option cty :=          (* T* *)
  match t with
  | LRef _ | RRef _ => None
  | _ => if abominable t then None else Some (Ptr t)
  end.

(** * Compiler intrinsics (the language definition of what they compute) *)
Definition strip (t : cty) : cty := unqual true true t.
Definition intr_is_enum (t : cty) : bool := match strip t with Enum _ _ _ => true | _ => false end.
Definition intr_is_union (t : cty) : bool := match strip t with Union _ => true | _ => false end.
Definition intr_is_class (t : cty) : bool := match strip t with Class _ => true | _ => false end.
Definition intr_underlying (t : cty) : option cty :=
  match strip t with Enum _ u _ => Some (Arith u) | _ => None end.
Definition intr_is_integral (t : cty) : bool :=
  match strip t with Arith a => negb (is_float_a a) | _ => false end.
Definition intr_is_member_pointer (t : cty) : bool :=
  match strip t with MemPtr _ _ => true | _ => false end.
Definition intr_is_member_function_pointer (t : cty) : bool :=
  match strip t with MemPtr _ u => is_fn_ty u | _ => false end.
Definition intr_is_member_object_pointer (t : cty) : bool :=
  match strip t with MemPtr _ u => negb (is_fn_ty u) | _ => false end.
Definition intr_is_scalar (t : cty) : bool :=
  match strip t with
  | Arith _ | Enum _ _ _ | Ptr _ | MemPtr _ _ | Nullptr => true
  | _ => false
  end.
Definition intr_is_object (t : cty) : bool :=
  match t with
  | Void | Cv _ _ Void | LRef _ | RRef _ | Fn _ _ _ _ _ _ _ => false
  | _ => true
  end.
(* implicit conversion enum -> its underlying type ([conv.prom], [conv.integral]): unscoped only *)
Definition intr_enum_converts_to_underlying (t : cty) : bool :=
  match strip t with Enum scoped _ _ => negb scoped | _ => false end.

(** * _type_traits/is_same.hpp: `is_same_v<T, T> = true` *)
Definition is_same_m (t u : cty) : bool := cty_eqb t u.

(** * _meta/contains.hpp: (is_same_v<Needle, Ts> or ...) *)
Definition contains_m (needle : cty) (l : list cty) : bool := existsb (is_same_m needle) l.

(** * remove_const / remove_volatile / remove_cv / add_* *)
Definition remove_const_m (t : cty) : cty := match m_const t with Some u => u | None => t end.
Definition remove_volatile_m (t : cty) : cty := match m_volatile t with Some u => u | None => t end.
Definition remove_cv_m (t : cty) : cty := remove_const_m (remove_volatile_m t).
Definition add_const_m (t : cty) : cty := qual true false t.          (* using type = T const; *)
Definition add_volatile_m (t : cty) : cty := qual false true t.       (* T volatile *)
Definition add_cv_m (t : cty) : cty := qual true true t.              (* T const volatile *)

(** * is_const / is_volatile *)
Definition is_const_m (t : cty) : bool := isSome (m_const t).
Definition is_volatile_m (t : cty) : bool := isSome (m_volatile t).

(** * references *)
Definition is_lvalue_reference_m (t : cty) : bool := isSome (m_lref t).
Definition is_rvalue_reference_m (t : cty) : bool := isSome (m_rref t).
Definition is_reference_m (t : cty) : bool := isSome (m_lref t) || isSome (m_rref t).
Definition remove_reference_m (t : cty) : cty :=
  match m_lref t with
  | Some u => u
  | None => match m_rref t with Some u => u | None => t end
  end.
Definition add_lvalue_reference_m (t : cty) : cty :=
  match form_lref t with Some r => r | None => t end.
Definition add_rvalue_reference_m (t : cty) : cty :=
  match form_rref t with Some r => r | None => t end.

(** * pointers *)
Definition is_pointer_m (t : cty) : bool := isSome (m_ptr (remove_cv_m t)).
(* remove_pointer: four partial specialisations T*, T* const, T* volatile, T* const volatile *)
Definition remove_pointer_m (t : cty) : cty :=
  match m_ptr t with
  | Some u => u
  | None =>
      match t with
      | Cv true false (Ptr u) => u
      | Cv false true (Ptr u) => u
      | Cv true true (Ptr u) => u
      | _ => t
      end
  end.
Definition add_pointer_m (t : cty) : cty :=
  match form_ptr (remove_reference_m t) with Some p => p | None => t end.

(** * arrays *)
Definition is_array_m (t : cty) : bool := isSome (m_arr_unb t) || isSome (m_arr_b t).
Definition is_bounded_array_m (t : cty) : bool := isSome (m_arr_b t).
Definition is_unbounded_array_m (t : cty) : bool := isSome (m_arr_unb t).
Definition remove_extent_m (t : cty) : cty :=
  match m_arr_unb t with
  | Some e => e
  | None => match m_arr_b t with Some (e, _) => e | None => t end
  end.
Fixpoint remove_all_extents_m (t : cty) : cty :=
  match t with Arr e _ => remove_all_extents_m e | _ => t end.
Fixpoint rank_m (t : cty) : N :=
  match t with Arr e _ => rank_m e + 1 | _ => 0 end%N.
(* extent<T, N>: T[] / T[I] with N = 0, or recurse with N - 1 on the element type *)
Fixpoint extent_m (t : cty) (n : nat) : N :=
  match t with
  | Arr e None => match n with O => 0%N | S k => extent_m e k end
  | Arr e (Some i) => match n with O => i | S k => extent_m e k end
  | _ => 0%N
  end.

(** * is_void / is_null_pointer: is_same<void, remove_cv_t<T>> *)
Definition is_void_m (t : cty) : bool := is_same_m Void (remove_cv_m t).
Definition is_null_pointer_m (t : cty) : bool := is_same_m Nullptr (remove_cv_m t).

(** * is_function: not is_const_v<T const> and not is_reference_v<T> *)
Definition is_function_m (t : cty) : bool :=
  negb (is_const_m (qual true false t)) && negb (is_reference_m t).

(** * is_integral / is_floating_point / is_arithmetic / is_fundamental / is_compound *)
Definition integral_list : list cty :=
  map Arith [ABool; AChar; ASChar; AUChar; AWChar; AChar8; AChar16; AChar32; AShort; AUShort;
             AInt; AUInt; ALong; AULong; ALLong; AULLong].
Definition is_integral_m (k : cfg) (t : cty) : bool :=
  match k with
  | Clang14 => intr_is_integral t                       (* __has_builtin(__is_integral) *)
  | GCC12 => contains_m (remove_cv_m t) integral_list
  end.
Definition is_floating_point_m (t : cty) : bool :=
  contains_m (remove_cv_m t) (map Arith [AFloat; ADouble; ALDouble]).
Definition is_arithmetic_m (k : cfg) (t : cty) : bool := is_integral_m k t || is_floating_point_m t.
Definition is_fundamental_m (k : cfg) (t : cty) : bool :=
  is_arithmetic_m k t || is_void_m t || is_null_pointer_m t.
Definition is_compound_m (k : cfg) (t : cty) : bool := negb (is_fundamental_m k t).

(** * is_builtin_(signed_|unsigned_)integer (etl extension; lists in the headers) *)
Definition is_builtin_signed_integer_m (t : cty) : bool :=
  contains_m (remove_cv_m t) (map Arith [ASChar; AShort; AInt; ALong; ALLong]).
Definition is_builtin_unsigned_integer_m (t : cty) : bool :=
  contains_m (remove_cv_m t) (map Arith [AUChar; AUShort; AUInt; AULong; AULLong]).
Definition is_builtin_integer_m (t : cty) : bool :=
  is_builtin_unsigned_integer_m t || is_builtin_signed_integer_m t.

(** * member pointers *)
Definition is_member_pointer_m (k : cfg) (t : cty) : bool :=
  match k with
  | Clang14 => intr_is_member_pointer t
  | GCC12 => isSome (m_memptr (remove_cv_m t))
  end.
Definition is_member_function_pointer_m (k : cfg) (t : cty) : bool :=
  match k with
  | Clang14 => intr_is_member_function_pointer t
  | GCC12 => match m_memptr (remove_cv_m t) with Some (u, _) => is_function_m u | None => false end
  end.
Definition is_member_object_pointer_m (k : cfg) (t : cty) : bool :=
  match k with
  | Clang14 => intr_is_member_object_pointer t
  | GCC12 => is_member_pointer_m k t && negb (is_member_function_pointer_m k t)
  end.

(** * is_enum / is_union / is_class: intrinsics on every compiler *)
Definition is_enum_m (t : cty) : bool := intr_is_enum t.
Definition is_union_m (t : cty) : bool := intr_is_union t.
Definition is_class_m (t : cty) : bool := intr_is_class t.

(** * is_scalar / is_object *)
Definition is_scalar_m (k : cfg) (t : cty) : bool :=
  match k with
  | Clang14 => intr_is_scalar t
  | GCC12 => is_arithmetic_m k t || is_enum_m t || is_pointer_m t || is_member_pointer_m k t
             || is_null_pointer_m t
  end.
Definition is_object_m (k : cfg) (t : cty) : bool :=
  match k with
  | Clang14 => intr_is_object t
  | GCC12 => is_scalar_m k t || is_array_m t || is_union_m t || is_class_m t
  end.

(** * is_signed / is_unsigned: `T(-1) < T(0)` resp. `T(0) < T(-1)` for arithmetic T *)
(* static_cast<T>(x) of a small integer literal, as a mathematical value *)
Definition conv_lit (a : arith) (x : Z) : Z :=
  match a with
  | ABool => if x =? 0 then 0 else 1
  | AFloat | ADouble | ALDouble => x
  | _ => if asigned a then wraps (abits a) x else wrapu (abits a) x
  end.
Definition is_signed_m (k : cfg) (t : cty) : bool :=
  let u := remove_cv_m t in
  if is_arithmetic_m k u
  then match u with Arith a => conv_lit a (-1) <? conv_lit a 0 | _ => false end
  else false.
Definition is_unsigned_m (k : cfg) (t : cty) : bool :=
  let u := remove_cv_m t in
  if is_arithmetic_m k u
  then match u with Arith a => conv_lit a 0 <? conv_lit a (-1) | _ => false end
  else false.

(** * decay / remove_cvref *)
Definition decay_m (t : cty) : cty :=
  let u := remove_reference_m t in
  if is_array_m u then add_pointer_m (remove_extent_m u)            (* add_pointer_t<remove_extent_t<U>> *)
  else if is_function_m u then add_pointer_m u
  else remove_cv_m u.
Definition remove_cvref_m (t : cty) : cty := remove_cv_m (remove_reference_m t).

(** * conditional / type_identity *)
Definition conditional_m (b : bool) (t f : cty) : cty := if b then t else f.
Definition type_identity_m (t : cty) : cty := t.

(** * underlying_type (requires is_enum_v<T>; no member `type` otherwise) / is_scoped_enum *)
Definition underlying_type_m (t : cty) : option cty :=
  if is_enum_m t then intr_underlying t else None.
Definition is_scoped_enum_m (t : cty) : bool :=
  if is_enum_m t then negb (intr_enum_converts_to_underlying t) else false.

(** * make_signed / make_unsigned: explicit specialisations for the ten standard integer types,
      a size-indexed fallback for the other integral types and enumerations, cv copied.
      (This is the REPAIRED header; the pinned tree had only the ten specialisations and failed to
      compile for char, wchar_t, char8_t, char16_t, char32_t, enumerations and cv-qualified types.) *)
Definition signed_of_size (bits : Z) : arith :=
  if bits =? 8 then ASChar else if bits =? 16 then AShort else if bits =? 32 then AInt
  else if bits =? 64 then ALong else ALLong.
Definition unsigned_of_size (bits : Z) : arith :=
  if bits =? 8 then AUChar else if bits =? 16 then AUShort else if bits =? 32 then AUInt
  else if bits =? 64 then AULong else AULLong.
Definition make_signed_tab (a : arith) : option arith :=
  match a with
  | ASChar | AUChar => Some ASChar
  | AShort | AUShort => Some AShort
  | AInt | AUInt => Some AInt
  | ALong | AULong => Some ALong
  | ALLong | AULLong => Some ALLong
  | _ => None
  end.
Definition make_unsigned_tab (a : arith) : option arith :=
  match a with
  | ASChar | AUChar => Some AUChar
  | AShort | AUShort => Some AUShort
  | AInt | AUInt => Some AUInt
  | ALong | AULong => Some AULong
  | ALLong | AULLong => Some AULLong
  | _ => None
  end.
Definition make_sign_m (tab : arith -> option arith) (of_size : Z -> arith) (k : cfg) (t : cty)
  : option cty :=
  let u := remove_cv_m t in
  let '(c, v) := cv_of t in
  match u with
  | Arith a =>
      match tab a with
      | Some r => Some (qual c v (Arith r))
      | None =>
          if is_integral_m k u && negb (is_same_m u (Arith ABool))
          then Some (qual c v (Arith (of_size (abits a)))) else None
      end
  | Enum _ under _ => Some (qual c v (Arith (of_size (abits under))))
  | _ => None
  end.
Definition make_signed_m := make_sign_m make_signed_tab signed_of_size.
Definition make_unsigned_m := make_sign_m make_unsigned_tab unsigned_of_size.

(** * common_type<T1, T2> = decay_t<decltype(false ? declval<D1>() : declval<D2>())>, Di = decay_t<Ti>
      The type of the conditional expression is the compiler's ([expr.cond]); modelled for the
      operand kinds the property enumerates: identical types, and two arithmetic types
      (usual arithmetic conversions computed from conversion rank = size and signedness). *)
Definition promote (a : arith) : arith :=             (* [conv.prom] on this platform *)
  match a with
  | ABool | AChar | ASChar | AUChar | AShort | AUShort | AChar8 | AChar16 => AInt
  | AWChar => AInt
  | AChar32 => AUInt
  | _ => a
  end.
Definition irank (a : arith) : Z :=                    (* [conv.rank], promoted types only *)
  match a with
  | AInt | AUInt => 1 | ALong | AULong => 2 | ALLong | AULLong => 3 | _ => 0
  end.
Definition to_unsigned (a : arith) : arith :=
  match a with AInt => AUInt | ALong => AULong | ALLong => AULLong | _ => a end.
Definition uac (a b : arith) : arith :=                (* [expr.arith.conv] *)
  if arith_eqb a ALDouble || arith_eqb b ALDouble then ALDouble
  else if arith_eqb a ADouble || arith_eqb b ADouble then ADouble
  else if arith_eqb a AFloat || arith_eqb b AFloat then AFloat
  else
    let pa := promote a in
    let pb := promote b in
    if arith_eqb pa pb then pa
    else if Bool.eqb (asigned pa) (asigned pb) then (if irank pa <? irank pb then pb else pa)
    else
      let '(s, u) := if asigned pa then (pa, pb) else (pb, pa) in
      if irank s <=? irank u then u
      else if abits u <? abits s then s
      else to_unsigned s.
(* type of `false ? declval<D1>() : declval<D2>()` for decayed D1, D2; None = not in the model *)
Definition cond_type (d1 d2 : cty) : option cty :=
  if cty_eqb d1 d2 then
    match d1 with
    | Void | Nullptr | Arith _ | Enum _ _ _ | Ptr _ | MemPtr _ _ => Some d1
    | _ => None
    end
  else
    match d1, d2 with
    | Arith a, Arith b => Some (Arith (uac a b))
    | _, _ => None
    end.
(* detail::common_type_2_impl<D1, D2>: decay_t<cond_t<D1, D2>> when the conditional expression is valid *)
Definition common_type_2_impl_m (d1 d2 : cty) : option cty :=
  match cond_type d1 d2 with
  | Some r => Some (decay_m r)
  | None => None
  end.
(* common_type<T1, T2> : detail::common_type_2_dispatch<T1, T2, decay_t<T1>, decay_t<T2>>
     - T1, T2 both decayed types (the partial specialisation <D1, D2, D1, D2>): common_type_2_impl<T1, T2>;
     - otherwise: common_type<D1, D2> ([meta.trans.other]/3.3), which may be a program-defined
       specialisation; the universe of Types.v has none, and D1, D2 are decayed (decay is idempotent,
       C15_trait_laws), so that instantiation takes the first clause: common_type_2_impl<D1, D2>.
   (This is the REPAIRED header; the pinned tree went to common_type_2_impl<D1, D2> directly and so
   ignored specialisations of common_type<D1, D2> for cv- / reference-qualified arguments.) *)
Definition common_type_m (t1 t2 : cty) : option cty :=
  let d1 := decay_m t1 in
  let d2 := decay_m t2 in
  if is_same_m t1 d1 && is_same_m t2 d2 then common_type_2_impl_m t1 t2
  else common_type_2_impl_m d1 d2.

(** * smallest_size_t<N> (etl extension): a chain of `N < static_cast<U>(-1)` tests *)
Definition smallest_size_t_m (n : Z) : arith :=
  if n <? wrapu 8 (-1) then AUChar
  else if n <? wrapu 16 (-1) then AUShort
  else if n <? wrapu 32 (-1) then AUInt
  else if n <? wrapu 64 (-1) then AULong
  else AULLong.

(** * concepts that are conjunctions of modelled traits *)
Definition same_as_m (t u : cty) : bool := is_same_m t u && is_same_m u t.
Definition integral_c_m (k : cfg) (t : cty) : bool := is_integral_m k t.
Definition floating_point_c_m (t : cty) : bool := is_floating_point_m t.
Definition signed_integral_c_m (k : cfg) (t : cty) : bool := is_integral_m k t && is_signed_m k t.
Definition unsigned_integral_c_m (k : cfg) (t : cty) : bool := is_integral_m k t && is_unsigned_m k t.
Definition referenceable_c_m (t : cty) : bool := negb (is_void_m t).      (* etl-only helper *)
