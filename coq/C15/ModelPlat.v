(* C15 model + specification, part 5: the PLATFORM as a parameter.

   Model.v / ModelNum.v / Spec.v / SpecNum.v fix the platform facts of x86-64 System V with the
   compilers' defaults; in particular "plain char is signed" is built into [asigned].  Whether plain
   char is signed is implementation-defined ([basic.fundamental]/7: char has the same representation
   and the same signedness as either signed char or unsigned char); it is UNSIGNED on the ARM and
   PowerPC ABIs and under `-funsigned-char` on x86.  Every answer of the anchored code that depends
   on it is modelled here once more with the platform as an argument:

     - is_signed / is_unsigned (`T(-1) < T(0)` in the headers), the concepts signed_integral and
       unsigned_integral built on them;
     - numeric_limits<char> (and its cv variants): written with the <limits.h> macros CHAR_MIN /
       CHAR_MAX, `is_signed = CHAR_MIN < 0`, `digits = CHAR_BIT * sizeof(char) - is_signed`,
       `digits10 = digits * 3 / 10`, `is_modulo = not is_signed`.

   Nothing else in the anchored code looks at the signedness of plain char: make_signed<char> /
   make_unsigned<char> are table entries (signed char / unsigned char on every platform), the
   integral promotion of char is int on every platform whose int is wider than char, the other
   character types (wchar_t, char8_t, char16_t, char32_t) are not affected by -funsigned-char.
   The compile-time tie nevertheless repeats ALL obligations that mention a type containing plain
   char under -funsigned-char (props/C15/prop.py, configuration `gcc-uchar`).

   The specification side is [basic.fundamental]/7 literally: plain char behaves as [char_like p],
   i.e. as `signed char` or as `unsigned char`; it never looks at the AChar rows of the tables. *)
From Tetl Require Import Lib.Base C15.Types C15.Model C15.ModelNum C15.Spec C15.SpecNum.
Local Open Scope Z_scope.

Record platform := { char_signed : bool }.
Definition x86_64_default : platform := {| char_signed := true |}.     (* g++ / clang++ on x86-64 *)
Definition unsigned_char_abi : platform := {| char_signed := false |}. (* -funsigned-char; AAPCS, Power *)

(** * model *)
(* can the type represent negative values *)
Definition asigned_p (p : platform) (a : arith) : bool :=
  match a with AChar => char_signed p | _ => asigned a end.

(* static_cast<T>(x) of a small integer literal *)
Definition conv_lit_p (p : platform) (a : arith) (x : Z) : Z :=
  match a with
  | ABool => if x =? 0 then 0 else 1
  | AFloat | ADouble | ALDouble => x
  | _ => if asigned_p p a then wraps (abits a) x else wrapu (abits a) x
  end.
(* is_signed / is_unsigned: `T(-1) < T(0)` resp. `T(0) < T(-1)` for arithmetic T *)
Definition is_signed_mp (p : platform) (k : cfg) (t : cty) : bool :=
  let u := remove_cv_m t in
  if is_arithmetic_m k u
  then match u with Arith a => conv_lit_p p a (-1) <? conv_lit_p p a 0 | _ => false end
  else false.
Definition is_unsigned_mp (p : platform) (k : cfg) (t : cty) : bool :=
  let u := remove_cv_m t in
  if is_arithmetic_m k u
  then match u with Arith a => conv_lit_p p a 0 <? conv_lit_p p a (-1) | _ => false end
  else false.
Definition signed_integral_c_mp (p : platform) (k : cfg) (t : cty) : bool :=
  is_integral_m k t && is_signed_mp p k t.
Definition unsigned_integral_c_mp (p : platform) (k : cfg) (t : cty) : bool :=
  is_integral_m k t && is_unsigned_mp p k t.

(* <limits.h>: CHAR_MIN is SCHAR_MIN or 0, CHAR_MAX is SCHAR_MAX or UCHAR_MAX *)
Definition CHAR_MIN_p (p : platform) : Z := if char_signed p then SCHAR_MIN else 0.
Definition CHAR_MAX_p (p : platform) : Z := if char_signed p then SCHAR_MAX else UCHAR_MAX.

(* numeric_limits<char> of the header, member by member; min() and lowest() are two functions that
   both return CHAR_MIN *)
Definition char_limits_mp (p : platform) (m : lmem) : lval :=
  let sg := CHAR_MIN_p p <? 0 in                               (* is_signed = CHAR_MIN < 0 *)
  let d := CHAR_BIT * 1 - b2z sg in                            (* CHAR_BIT * sizeof(char) - is_signed *)
  match m with
  | Lmin => LI (CHAR_MIN_p p)
  | Lmax => LI (CHAR_MAX_p p)
  | Llowest => LI (CHAR_MIN_p p)
  | Lis_signed => LB sg
  | Ldigits => LI d
  | Ldigits10 => LI (Z.quot (d * 3) 10)
  | Lis_modulo => LB (negb sg)
  | _ => limits_m AChar m          (* the members that do not mention CHAR_MIN / CHAR_MAX / is_signed *)
  end.
Definition limits_mp (p : platform) (a : arith) (m : lmem) : lval :=
  match a with AChar => char_limits_mp p m | _ => limits_m a m end.

(** * specification: [basic.fundamental]/7 *)
Definition char_like (p : platform) : arith := if char_signed p then ASChar else AUChar.
Definition arith_p (p : platform) (a : arith) : arith :=
  match a with AChar => char_like p | _ => a end.
Definition std_is_signed_p (p : platform) (t : cty) : bool :=
  match unqual true true t with
  | Arith a => std_is_signed (Arith (arith_p p a))
  | _ => false
  end.
Definition std_is_unsigned_p (p : platform) (t : cty) : bool :=
  match unqual true true t with
  | Arith a => std_is_unsigned (Arith (arith_p p a))
  | _ => false
  end.
Definition limits_spec_p (p : platform) (a : arith) (m : lmem) : option lval :=
  limits_spec (arith_p p a) m.
