(* C15 proofs, part 9: ratio_less (and the three comparisons defined through it).
   detail::ratio_less_impl compares integer parts and then the reciprocals of the fractional parts
   (a continued-fraction comparison that never forms the cross products).  For EVERY pair of
   ratios with 64-bit numerators and positive 64-bit denominators it returns exactly
   n1 * d2 < n2 * d1, none of its intermediate operations overflows, and it needs fewer iterations
   than the model's fuel. *)
From Coq Require Import ZifyBool.
From Tetl Require Import Lib.Base C15.Types C15.ModelNum C15.SpecNum C15.ProofsGcd C15.ProofsRatio.
Local Open Scope Z_scope.
Ltac Zify.zify_post_hook ::= Z.to_euclidean_division_equations.

Lemma cdiv_in : forall n d, MIN64 <= n <= MAX64 -> 0 < d -> cdiv n d = Some (Z.quot n d).
Proof.
  intros n d Hn Hd; unfold cdiv. destruct (d =? 0) eqn:E; [lia|].
  apply ck_in. unfold MIN64, MAX64 in *.
  destruct (Z.le_gt_cases 0 n) as [P|P].
  - rewrite Z.quot_div_nonneg by lia.
    assert (0 <= n / d) by (apply Z.div_pos; lia).
    assert (n / d <= n) by (apply Z.div_le_upper_bound; nia).
    lia.
  - replace n with (- - n) by lia. rewrite Z.quot_opp_l by lia.
    rewrite Z.quot_div_nonneg by lia.
    assert (0 <= (- n) / d) by (apply Z.div_pos; lia).
    assert ((- n) / d <= - n) by (apply Z.div_le_upper_bound; nia).
    lia.
Qed.

(* floor quotient and non-negative remainder, never overflowing *)
Lemma floor_qr_spec : forall n d, MIN64 <= n <= MAX64 -> 0 < d <= MAX64 ->
  floor_qr n d = Some (n / d, n mod d).
Proof.
  intros n d Hn Hd; unfold floor_qr.
  pose proof (cdiv_in n d Hn ltac:(lia)) as C. rewrite C. cbn [obind].
  unfold cdiv in C. destruct (d =? 0); [discriminate|]. apply ck_some in C. destruct C as [_ Rq].
  pose proof (Z.quot_rem' n d) as QR.
  pose proof (Z.rem_bound_abs n d ltac:(lia)) as RB.
  set (q := Z.quot n d) in *. set (r := Z.rem n d) in *.
  destruct (r <? 0) eqn:E.
  - assert (R1 : MIN64 <= r + d <= MAX64) by (unfold MIN64, MAX64 in *; lia).
    assert (R2 : MIN64 <= q - 1 <= MAX64) by (unfold MIN64, MAX64 in *; nia).
    rewrite !ck_in by assumption. cbn [obind]. f_equal.
    assert (D : n = d * (q - 1) + (r + d)) by lia.
    f_equal.
    + apply (Z.div_unique n d (q - 1) (r + d)); [left; lia | exact D].
    + apply (Z.mod_unique n d (q - 1) (r + d)); [left; lia | exact D].
  - f_equal. f_equal.
    + apply (Z.div_unique n d q r); [left; lia | exact QR].
    + apply (Z.mod_unique n d q r); [left; lia | exact QR].
Qed.

Lemma ratio_less_loop_S : forall f n1 d1 n2 d2,
  ratio_less_loop (S f) n1 d1 n2 d2 =
  obind (floor_qr n1 d1) (fun x1 => obind (floor_qr n2 d2) (fun x2 =>
    let '(q1, r1) := x1 in let '(q2, r2) := x2 in
    if negb (q1 =? q2) then Some (q1 <? q2)
    else if (r1 =? 0) || (r2 =? 0) then Some ((r1 =? 0) && negb (r2 =? 0))
    else ratio_less_loop f d2 r2 d1 r1)).
Proof. reflexivity. Qed.

(* one iteration, given the floor decompositions *)
Lemma less_step : forall n1 d1 n2 d2 q1 r1 q2 r2,
  0 < d1 -> 0 < d2 -> n1 = d1 * q1 + r1 -> 0 <= r1 < d1 -> n2 = d2 * q2 + r2 -> 0 <= r2 < d2 ->
  (q1 <> q2 -> (q1 <? q2) = (n1 * d2 <? n2 * d1))
  /\ (q1 = q2 -> (n1 * d2 <? n2 * d1) = (r1 * d2 <? r2 * d1)).
Proof.
  intros n1 d1 n2 d2 q1 r1 q2 r2 Hd1 Hd2 E1 R1 E2 R2; split; intros Hq.
  - destruct (q1 <? q2) eqn:L.
    + symmetry. apply Z.ltb_lt.
      assert (q1 + 1 <= q2) by lia.
      assert (d1 * d2 * (q1 + 1) <= d1 * d2 * q2) by (apply Z.mul_le_mono_nonneg_l; nia).
      nia.
    + symmetry. apply Z.ltb_ge.
      assert (q2 + 1 <= q1) by lia.
      assert (d1 * d2 * (q2 + 1) <= d1 * d2 * q1) by (apply Z.mul_le_mono_nonneg_l; nia).
      nia.
  - subst q2.
    assert (D : n1 * d2 - n2 * d1 = r1 * d2 - r2 * d1) by (subst n1 n2; ring).
    destruct (Z.ltb_spec (n1 * d2) (n2 * d1)), (Z.ltb_spec (r1 * d2) (r2 * d1)); try reflexivity; lia.
Qed.

Lemma ratio_less_loop_pos : forall f fuel n1 d1 n2 d2, (f < fuel)%nat ->
  0 < d1 < n1 -> n1 <= MAX64 -> 0 < d2 < n2 -> n2 <= MAX64 ->
  (n1 * d1) * (n2 * d2) < 4 ^ Z.of_nat f ->
  ratio_less_loop fuel n1 d1 n2 d2 = Some (n1 * d2 <? n2 * d1).
Proof.
  induction f as [|f IH]; intros fuel n1 d1 n2 d2 Hf H1 M1 H2 M2 Hm.
  - change (4 ^ Z.of_nat 0) with 1 in Hm.
    assert (1 <= n1 * d1) by nia. assert (1 <= n2 * d2) by nia.
    assert (1 * 1 <= (n1 * d1) * (n2 * d2)) by (apply Z.mul_le_mono_nonneg; lia).
    lia.
  - destruct fuel as [|fuel]; [lia|]. rewrite ratio_less_loop_S.
    rewrite !floor_qr_spec by (unfold MIN64, MAX64 in *; lia). cbn [obind].
    set (q1 := n1 / d1). set (r1 := n1 mod d1). set (q2 := n2 / d2). set (r2 := n2 mod d2).
    assert (E1 : n1 = d1 * q1 + r1) by (apply Z.div_mod; lia).
    assert (E2 : n2 = d2 * q2 + r2) by (apply Z.div_mod; lia).
    assert (R1 : 0 <= r1 < d1) by (apply Z.mod_pos_bound; lia).
    assert (R2 : 0 <= r2 < d2) by (apply Z.mod_pos_bound; lia).
    destruct (less_step n1 d1 n2 d2 q1 r1 q2 r2 ltac:(lia) ltac:(lia) E1 R1 E2 R2) as [S1 S2].
    destruct (q1 =? q2) eqn:Eq; cbn [negb].
    + apply Z.eqb_eq in Eq. rewrite (S2 Eq).
      destruct (r1 =? 0) eqn:Z1; cbn [orb andb].
      * apply Z.eqb_eq in Z1. rewrite Z1. f_equal.
        destruct (r2 =? 0) eqn:Z2; cbn [negb]; symmetry; [apply Z.ltb_ge|apply Z.ltb_lt]; nia.
      * apply Z.eqb_neq in Z1.
        destruct (r2 =? 0) eqn:Z2.
        -- apply Z.eqb_eq in Z2. rewrite Z2. f_equal. symmetry. apply Z.ltb_ge. nia.
        -- apply Z.eqb_neq in Z2.
           rewrite IH; try lia.
           ++ rewrite (Z.mul_comm d2 r1), (Z.mul_comm d1 r2). reflexivity.
           ++ (* the measure drops by a factor of four *)
              assert (Q1 : 1 <= q1) by (subst q1; apply Z.div_le_lower_bound; lia).
              assert (Q2 : 1 <= q2) by (subst q2; apply Z.div_le_lower_bound; lia).
              assert (L1 : d1 * 1 <= d1 * q1) by (apply Z.mul_le_mono_nonneg_l; lia).
              assert (L2 : d2 * 1 <= d2 * q2) by (apply Z.mul_le_mono_nonneg_l; lia).
              assert (A : 2 * r1 < n1) by lia.
              assert (B : 2 * r2 < n2) by lia.
              rewrite Nat2Z.inj_succ, Z.pow_succ_r in Hm by lia.
              assert (C : 2 * (d1 * r1) < n1 * d1).
              { replace (2 * (d1 * r1)) with (d1 * (2 * r1)) by ring. rewrite (Z.mul_comm n1 d1).
                apply Z.mul_lt_mono_pos_l; lia. }
              assert (D : 2 * (d2 * r2) < n2 * d2).
              { replace (2 * (d2 * r2)) with (d2 * (2 * r2)) by ring. rewrite (Z.mul_comm n2 d2).
                apply Z.mul_lt_mono_pos_l; lia. }
              assert (P1 : 0 < d1 * r1) by (apply Z.mul_pos_pos; lia).
              assert (P2 : 0 < d2 * r2) by (apply Z.mul_pos_pos; lia).
              assert (F : (2 * (d2 * r2)) * (2 * (d1 * r1)) < (n2 * d2) * (n1 * d1)).
              { apply Z.mul_lt_mono_nonneg; lia. }
              clear - F Hm. lia.
    + apply Z.eqb_neq in Eq. f_equal. apply S1; exact Eq.
Qed.

Theorem ratio_less_m_spec : forall n1 d1 n2 d2,
  in64 n1 -> in64 n2 -> 0 < d1 <= MAX64 -> 0 < d2 <= MAX64 ->
  ratio_less_m n1 d1 n2 d2 = Some (ratio_less_spec n1 d1 n2 d2).
Proof.
  intros n1 d1 n2 d2 Hn1 Hn2 Hd1 Hd2; unfold ratio_less_m, ratio_less_spec.
  apply in64_iff in Hn1, Hn2.
  change 200%nat with (S 199). rewrite ratio_less_loop_S.
  rewrite !floor_qr_spec by lia. cbn [obind].
  set (q1 := n1 / d1). set (r1 := n1 mod d1). set (q2 := n2 / d2). set (r2 := n2 mod d2).
  assert (E1 : n1 = d1 * q1 + r1) by (apply Z.div_mod; lia).
  assert (E2 : n2 = d2 * q2 + r2) by (apply Z.div_mod; lia).
  assert (R1 : 0 <= r1 < d1) by (apply Z.mod_pos_bound; lia).
  assert (R2 : 0 <= r2 < d2) by (apply Z.mod_pos_bound; lia).
  destruct (less_step n1 d1 n2 d2 q1 r1 q2 r2 ltac:(lia) ltac:(lia) E1 R1 E2 R2) as [S1 S2].
  destruct (q1 =? q2) eqn:Eq; cbn [negb].
  - apply Z.eqb_eq in Eq. rewrite (S2 Eq).
    destruct (r1 =? 0) eqn:Z1; cbn [orb andb].
    + apply Z.eqb_eq in Z1. rewrite Z1. f_equal.
      destruct (r2 =? 0) eqn:Z2; cbn [negb]; symmetry; [apply Z.ltb_ge|apply Z.ltb_lt]; nia.
    + apply Z.eqb_neq in Z1.
      destruct (r2 =? 0) eqn:Z2.
      * apply Z.eqb_eq in Z2. rewrite Z2. f_equal. symmetry. apply Z.ltb_ge. nia.
      * apply Z.eqb_neq in Z2.
        rewrite (ratio_less_loop_pos 126); try lia.
        -- rewrite (Z.mul_comm d2 r1), (Z.mul_comm d1 r2). reflexivity.
        -- assert (B : 4 ^ Z.of_nat 126 = (MAX64 + 1) * (MAX64 + 1) * ((MAX64 + 1) * (MAX64 + 1))) by reflexivity.
           rewrite B.
           assert (P1 : 0 < d2 * r2 < (MAX64 + 1) * (MAX64 + 1)).
           { split; [apply Z.mul_pos_pos; lia | apply Z.mul_lt_mono_nonneg; lia]. }
           assert (P2 : 0 < d1 * r1 < (MAX64 + 1) * (MAX64 + 1)).
           { split; [apply Z.mul_pos_pos; lia | apply Z.mul_lt_mono_nonneg; lia]. }
           apply Z.mul_lt_mono_nonneg; lia.
  - apply Z.eqb_neq in Eq. f_equal. apply S1; exact Eq.
Qed.

(* the comparisons defined through ratio_less *)
Theorem ratio_comparisons_spec : forall n1 d1 n2 d2,
  in64 n1 -> in64 n2 -> 0 < d1 <= MAX64 -> 0 < d2 <= MAX64 ->
  ratio_less_m n1 d1 n2 d2 = Some (ratio_less_spec n1 d1 n2 d2)
  /\ ratio_less_equal_m n1 d1 n2 d2 = Some (negb (ratio_less_spec n2 d2 n1 d1))
  /\ ratio_greater_m n1 d1 n2 d2 = Some (ratio_less_spec n2 d2 n1 d1)
  /\ ratio_greater_equal_m n1 d1 n2 d2 = Some (negb (ratio_less_spec n1 d1 n2 d2))
  /\ ratio_equal_m n1 d1 n2 d2 = Some (ratio_equal_spec n1 d1 n2 d2)
  /\ ratio_not_equal_m n1 d1 n2 d2 = Some (negb (ratio_equal_spec n1 d1 n2 d2)).
Proof.
  intros n1 d1 n2 d2 Hn1 Hn2 Hd1 Hd2.
  unfold ratio_less_equal_m, ratio_greater_m, ratio_greater_equal_m, ratio_not_equal_m, ratio_equal_m.
  rewrite !ratio_less_m_spec by assumption. repeat split; reflexivity.
Qed.
