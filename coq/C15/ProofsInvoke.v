(* C15 proofs, part 9 (fix-miss round 5): INVOKE of invoke_result.hpp selects the case of
   [func.require] for EVERY well-formed callable type and argument list, and the top-level
   cv-qualification / reference kind of the callable never changes the selected case. *)
From Coq Require Import NArith.
From Tetl Require Import Lib.Base C15.Types C15.Model C15.Spec C15.ProofsTypes C15.ProofsCv C15.ProofsCat
  C15.ProofsTrans C15.ModelInvoke.
Local Open Scope Z_scope.

(* decay and remove_cvref differ only on arrays and functions, which never become pointers to members *)
Lemma decay_memptr_sel : forall (A : Type) (f : cty) (X : clsdesc -> cty -> A) (Y : A),
  match std_decay f with MemPtr b u => X b u | _ => Y end
  = match std_remove_cvref f with MemPtr b u => X b u | _ => Y end.
Proof.
  intros A f X Y. unfold std_decay, std_remove_cvref.
  destruct (std_remove_reference f) as [| | a | s u i | p | l | r | e n | rt ar c v q ne va | d m | d | d | c v w];
    try reflexivity.
  cbn [std_remove_cv unqual]. destruct (abominable _); reflexivity.
Qed.

Lemma invoke_m_sel_spec : forall bo rw f args, wf f = true ->
  invoke_m bo rw f args
  = match std_remove_cvref f with MemPtr b u => call_mem_m bo rw b u args | _ => IQCall f args end.
Proof.
  intros bo rw f args Hwf. unfold invoke_m, invoke_sel_m. rewrite decay_m_spec by assumption.
  apply (decay_memptr_sel invq f (fun b u => call_mem_m bo rw b u args) (IQCall f args)).
Qed.

Lemma wf_remove_cvref : forall t, wf t = true -> wf (std_remove_cvref t) = true.
Proof. intros t H. unfold std_remove_cvref, std_remove_cv. apply wf_unqual. apply wf_remove_reference; assumption. Qed.

Section Oracles.
  Variable base_of : clsdesc -> cty -> bool.
  Variable refwrap : cty -> bool.
  (* is_base_of is true only between class types; a reference_wrapper specialisation is a class type *)
  Hypothesis base_of_class : forall b t, base_of b t = true -> exists d, t = Class d.
  Hypothesis refwrap_class : forall t, refwrap t = true -> exists d, t = Class d.
  (* the class of the member pointer is not itself (a base of) the reference_wrapper specialisation *)
  Hypothesis refwrap_leaf : forall b t, refwrap t = true -> cty_eqb (Class b) t || base_of b t = false.

  Lemma not_class_oracles : forall b t, (forall d, t <> Class d) ->
    cty_eqb (Class b) t = false /\ base_of b t = false /\ refwrap t = false.
  Proof.
    intros b t Hn. repeat split.
    - apply cty_eqb_false. intros E. apply (Hn b). symmetry; exact E.
    - destruct (base_of b t) eqn:E; [|reflexivity]. destruct (base_of_class _ _ E) as [d ->]. exfalso; apply (Hn d); reflexivity.
    - destruct (refwrap t) eqn:E; [|reflexivity]. destruct (refwrap_class _ E) as [d ->]. exfalso; apply (Hn d); reflexivity.
  Qed.

  Lemma get_m_spec : forall b t1, wf t1 = true -> get_m base_of refwrap b t1 = Some (std_objform base_of refwrap b t1).
  Proof.
    intros b t1 Hwf. unfold get_m, std_objform, is_same_m. rewrite decay_m_spec by assumption.
    unfold std_decay, std_remove_cvref.
    assert (Hsame : forall td, td = std_remove_cv (std_remove_reference t1) ->
      (if (cty_eqb (Class b) td || base_of b td) && refwrap td then None
       else if cty_eqb (Class b) td || base_of b td then Some ODirect
       else if refwrap td then Some ORefWrap else Some ODeref)
      = Some (if cty_eqb (Class b) td || base_of b td then ODirect else if refwrap td then ORefWrap else ODeref)).
    { intros td _. destruct (refwrap td) eqn:Er.
      - rewrite (refwrap_leaf b td Er). reflexivity.
      - rewrite Bool.andb_false_r. destruct (cty_eqb (Class b) td || base_of b td); reflexivity. }
    assert (Hnc : forall ta tb, (forall d, ta <> Class d) -> (forall d, tb <> Class d) ->
      (if (cty_eqb (Class b) ta || base_of b ta) && refwrap ta then None
       else if cty_eqb (Class b) ta || base_of b ta then Some ODirect
       else if refwrap ta then Some ORefWrap else Some ODeref)
      = Some (if cty_eqb (Class b) tb || base_of b tb then ODirect else if refwrap tb then ORefWrap else ODeref)).
    { intros ta tb Ha Hb. destruct (not_class_oracles b ta Ha) as (-> & -> & ->).
      destruct (not_class_oracles b tb Hb) as (-> & -> & ->). reflexivity. }
    destruct (std_remove_reference t1) as [| | a | s u i | p | l | r | e n | rt ar c v q ne va | d m | d | d | c v w];
      try (apply Hsame; reflexivity).
    - apply Hnc; intros d; cbn [std_remove_cv unqual]; discriminate.
    - destruct (abominable _); [apply Hsame; reflexivity|].
      apply Hnc; intros d; cbn [std_remove_cv unqual]; discriminate.
  Qed.

  (** INVOKE of the header = the case analysis of [func.require], for every well-formed callable and arguments *)
  Theorem invoke_m_spec : forall f args, wf f = true -> Forall (fun t => wf t = true) args ->
    invoke_m base_of refwrap f args = std_invoke_q base_of refwrap f args.
  Proof.
    intros f args Hwf Hargs. rewrite invoke_m_sel_spec by assumption. unfold std_invoke_q.
    pose proof (wf_remove_cvref f Hwf) as Hc.
    destruct (std_remove_cvref f) as [| | a | s u i | p | l | r | e n | rt ar c v q ne va | d m | d | d | c v w];
      try reflexivity.
    unfold call_mem_m. destruct args as [|t1 rest]; [reflexivity|].
    inversion Hargs as [|? ? Ht1 _]; subst.
    rewrite get_m_spec by assumption.
    assert (Hm : wf m = true).
    { cbn [wf] in Hc. repeat (apply andb_prop in Hc; destruct Hc as [Hc ?]). assumption. }
    rewrite is_function_m_spec by assumption. reflexivity.
  Qed.

  Section Answer.
    Variable ask : invq -> option cty.
    Variable conv : cty -> cty -> bool.
    Theorem invoke_traits_spec : forall r f args, wf r = true -> wf f = true -> Forall (fun t => wf t = true) args ->
      invoke_result_m base_of refwrap ask f args = std_invoke_result base_of refwrap ask f args
      /\ is_invocable_m base_of refwrap ask f args = std_is_invocable base_of refwrap ask f args
      /\ is_invocable_r_m base_of refwrap ask conv r f args = std_is_invocable_r base_of refwrap ask conv r f args.
    Proof.
      intros r f args Hr Hf Ha.
      unfold is_invocable_r_m, std_is_invocable_r, is_invocable_m, std_is_invocable, invoke_result_m, std_invoke_result.
      rewrite invoke_m_spec by assumption. rewrite is_void_m_spec by assumption.
      repeat split.
    Qed.
  End Answer.
End Oracles.

(** * the qualification of the callable never changes the case *)
(* no hypothesis on the oracles: this is about the selector alone *)
Lemma remove_cvref_qual_sel : forall (A : Type) c v f (X : clsdesc -> cty -> A) (Y : A), wf f = true ->
  match std_remove_cvref (qual c v f) with MemPtr b u => X b u | _ => Y end
  = match std_remove_cvref f with MemPtr b u => X b u | _ => Y end.
Proof.
  intros A c v f X Y Hwf. unfold std_remove_cvref, std_remove_cv.
  destruct f as [| | a | s u i | p | l | r | e n | rt ar c0 v0 q ne va | d m | d | d | c0 v0 w];
    cbn [qual]; try reflexivity;
    try (destruct c, v; reflexivity).
  (* Cv c0 v0 w *)
  destruct c, v, c0, v0; reflexivity.
Qed.

Section Invariance.
  Variable base_of : clsdesc -> cty -> bool.
  Variable refwrap : cty -> bool.

  Theorem invoke_m_qual : forall c v f args, wf f = true ->
    invoke_m base_of refwrap (qual c v f) args = recall (qual c v f) (invoke_m base_of refwrap f args).
  Proof.
    intros c v f args Hwf.
    rewrite (invoke_m_sel_spec _ _ (qual c v f)) by (apply wf_qual; assumption).
    rewrite (invoke_m_sel_spec _ _ f) by assumption.
    rewrite (remove_cvref_qual_sel invq c v f (fun b u => call_mem_m base_of refwrap b u args) (IQCall (qual c v f) args)) by assumption.
    destruct (std_remove_cvref f); try reflexivity.
    unfold call_mem_m. destruct args as [|t1 rest]; [reflexivity|].
    destruct (get_m _ _ _ _); [|reflexivity]. destruct (is_function_m _); [reflexivity|]. destruct rest; reflexivity.
  Qed.

  (* F& and F&& for a non-reference F (reference collapsing makes the other combinations one of these) *)
  Theorem invoke_m_ref : forall g f args, (g = LRef f \/ g = RRef f) -> wf g = true ->
    invoke_m base_of refwrap g args = recall g (invoke_m base_of refwrap f args).
  Proof.
    intros g f args Hg Hwf.
    assert (Hf : wf f = true /\ is_ref_ty f = false).
    { destruct Hg as [-> | ->]; cbn [wf] in Hwf;
        repeat (apply andb_prop in Hwf; destruct Hwf as [Hwf ?]);
        (split; [assumption|]); (destruct (is_ref_ty f); [discriminate|reflexivity]). }
    destruct Hf as [Hf Hnr].
    rewrite (invoke_m_sel_spec _ _ g) by assumption. rewrite (invoke_m_sel_spec _ _ f) by assumption.
    assert (E : std_remove_cvref g = std_remove_cvref f).
    { unfold std_remove_cvref. destruct Hg as [-> | ->]; cbn [std_remove_reference]; destruct f; try reflexivity; discriminate. }
    rewrite E. destruct (std_remove_cvref f); try reflexivity.
    unfold call_mem_m. destruct args as [|t1 rest]; [reflexivity|].
    destruct (get_m _ _ _ _); [|reflexivity]. destruct (is_function_m _); [reflexivity|]. destruct rest; reflexivity.
  Qed.

  Lemma kind_of_recall : forall g q, kind_of (recall g q) = kind_of q.
  Proof. intros g q; destruct q; reflexivity. Qed.

  (* consequence: the case of [func.require] is a function of remove_cvref_t<F> alone, and when the callable
     is a pointer to member so is the whole INVOKE expression *)
  Theorem invoke_case_cvref_invariant : forall c v f args, wf f = true ->
    kind_of (invoke_m base_of refwrap (qual c v f) args) = kind_of (invoke_m base_of refwrap f args)
    /\ (callable_is_memptr f = true ->
        invoke_m base_of refwrap (qual c v f) args = invoke_m base_of refwrap f args)
    /\ callable_is_memptr (qual c v f) = callable_is_memptr f.
  Proof.
    intros c v f args Hwf. rewrite invoke_m_qual by assumption. split; [apply kind_of_recall|]. split.
    - intros Hm. rewrite (invoke_m_sel_spec _ _ f) by assumption. unfold callable_is_memptr in Hm.
      destruct (std_remove_cvref f); try discriminate.
      unfold call_mem_m. destruct args as [|t1 rest]; [reflexivity|].
      destruct (get_m _ _ _ _); [|reflexivity]. destruct (is_function_m _); [reflexivity|]. destruct rest; reflexivity.
    - unfold callable_is_memptr. apply (remove_cvref_qual_sel bool c v f (fun _ _ => true) false Hwf).
  Qed.

  Theorem invoke_case_ref_invariant : forall g f args, (g = LRef f \/ g = RRef f) -> wf g = true ->
    kind_of (invoke_m base_of refwrap g args) = kind_of (invoke_m base_of refwrap f args)
    /\ (callable_is_memptr f = true -> invoke_m base_of refwrap g args = invoke_m base_of refwrap f args).
  Proof.
    intros g f args Hg Hwf. rewrite (invoke_m_ref g f args Hg Hwf). split; [apply kind_of_recall|].
    intros Hm.
    assert (Hf : wf f = true).
    { destruct Hg as [-> | ->]; cbn [wf] in Hwf; repeat (apply andb_prop in Hwf; destruct Hwf as [Hwf ?]); assumption. }
    rewrite (invoke_m_sel_spec _ _ f) by assumption. unfold callable_is_memptr in Hm.
    destruct (std_remove_cvref f); try discriminate.
    unfold call_mem_m. destruct args as [|t1 rest]; [reflexivity|].
    destruct (get_m _ _ _ _); [|reflexivity]. destruct (is_function_m _); [reflexivity|]. destruct rest; reflexivity.
  Qed.
End Invariance.

(** * non-vacuity / concrete instances: `long (S::* const&)() const` applied to `S const&`, `int S::* const` to S*,
      and what a selector keyed on remove_reference_t<F> would answer *)
Definition ex_S : clsdesc := {| cid := 2; c_final := false; c_data := true; c_private := false; c_virt := false;
  c_pure := false; c_vdtor := false; c_dctor := SImplicit; c_cctor := SImplicit; c_mctor := SImplicit;
  c_cassign := SImplicit; c_massign := SImplicit; c_dtor := SImplicit |}.
Definition ex_pmf : cty := MemPtr ex_S (Fn (Arith ALong) [] true false RQnone false false).
Definition ex_pmd : cty := MemPtr ex_S (Arith AInt).
Definition no_bases (_ : clsdesc) (_ : cty) : bool := false.
Definition no_refwrap (_ : cty) : bool := false.

Lemma invoke_examples :
  wf (LRef (Cv true false ex_pmf)) = true
  /\ invoke_m no_bases no_refwrap (LRef (Cv true false ex_pmf)) [LRef (Cv true false (Class ex_S))]
     = IQMemFn ex_pmf ODirect (LRef (Cv true false (Class ex_S))) []
  /\ invoke_m no_bases no_refwrap (Cv true false ex_pmd) [Ptr (Class ex_S)] = IQMemData ex_pmd ODeref (Ptr (Class ex_S))
  /\ invoke_m no_bases no_refwrap (Cv true true ex_pmd) [Class ex_S; Arith AInt] = IQNone
  /\ invoke_m no_bases no_refwrap (Class ex_S) [Arith AInt] = IQCall (Class ex_S) [Arith AInt]
  (* a selector that only removes the reference misses the specialisation *)
  /\ invoke_sel_m no_bases no_refwrap (remove_reference_m (LRef (Cv true false ex_pmf))) (LRef (Cv true false ex_pmf))
       [LRef (Cv true false (Class ex_S))]
     = IQCall (LRef (Cv true false ex_pmf)) [LRef (Cv true false (Class ex_S))].
Proof. vm_compute. repeat split. Qed.
