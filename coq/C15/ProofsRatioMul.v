(* C15 proofs, part 10: ratio_multiply / ratio_divide.  With the cross-cancellation of the header
   (divide by gcd(R1::num, R2::den) and gcd(R2::num, R1::den) before multiplying) the aliases are
   EXACT and COMPLETE for normalised operands (which R::num / R::den always are): they are
   well-formed exactly when the product / quotient in lowest terms is representable, and then name
   it — no spurious overflow. *)
From Coq Require Import ZifyBool Znumtheory.
From Tetl Require Import Lib.Base C15.Types C15.ModelNum C15.SpecNum C15.ProofsGcd C15.ProofsRatio.
Local Open Scope Z_scope.
Ltac Zify.zify_post_hook ::= Z.to_euclidean_division_equations.

(* a normalised ratio: what ratio<N, D>::num / ::den always are *)
Definition normalised (n d : Z) : Prop :=
  0 < d <= MAX64 /\ Z.abs n <= MAX64 /\ Z.gcd n d = 1.

Lemma gcd_pos_r : forall a b, b <> 0 -> 0 < Z.gcd a b.
Proof.
  intros a b Hb. pose proof (Z.gcd_nonneg a b).
  assert (Z.gcd a b <> 0) by (intros E; apply Z.gcd_eq_0_r in E; contradiction). lia.
Qed.

(* reducing a fraction whose cofactors are coprime *)
Lemma lowest_terms_scaled : forall A D G, 0 < G -> D <> 0 -> Z.gcd A D = 1 ->
  lowest_terms (A * G) (D * G) = (Z.sgn D * A, Z.abs D).
Proof.
  intros A D G HG HD Hco; unfold lowest_terms.
  assert (Hg : Z.gcd (A * G) (D * G) = G).
  { rewrite Z.gcd_mul_mono_r_nonneg by lia. rewrite Hco. lia. }
  rewrite Hg.
  assert (Z.sgn (D * G) = Z.sgn D) by (rewrite Z.sgn_mul; destruct (Z.sgn_spec G) as [(?&->)|[(?&->)|(?&->)]]; lia).
  f_equal.
  - replace (Z.sgn (D * G) * (A * G)) with (Z.sgn D * A * G) by (rewrite H; ring). apply Z.div_mul; lia.
  - rewrite Z.abs_mul. rewrite (Z.abs_eq G) by lia. apply Z.div_mul; lia.
Qed.

(* the last step of every arithmetic alias: check the two products, then ratio<N, D> *)
Lemma final_ratio : forall A D G, 0 < G -> D <> 0 -> Z.gcd A D = 1 ->
  obind (ck A) (fun n => obind (ck D) (fun d => ratio_m n d)) = ratio_result (A * G) (D * G).
Proof.
  intros A D G HG HD Hco.
  unfold ratio_result. replace (D * G =? 0) with false by (symmetry; apply Z.eqb_neq; nia).
  rewrite lowest_terms_scaled by assumption.
  assert (RA : abs_representable (Z.sgn D * A) = abs_representable A).
  { unfold abs_representable. f_equal. destruct (Z.sgn_spec D) as [(?&->)|[(?&->)|(?&->)]]; lia. }
  assert (RD : abs_representable (Z.abs D) = abs_representable D).
  { unfold abs_representable. f_equal. lia. }
  rewrite RA, RD.
  rewrite !ck_spec.
  destruct ((MIN64 <=? A) && (A <=? MAX64))%bool eqn:EA; cbn [obind].
  - destruct ((MIN64 <=? D) && (D <=? MAX64))%bool eqn:ED; cbn [obind].
    + rewrite ratio_m_spec by (apply in64_iff; apply andb_prop in EA, ED; lia).
      unfold ratio_spec. replace (D =? 0) with false by (symmetry; apply Z.eqb_neq; lia). cbn [orb].
      destruct (abs_representable A); cbn [negb orb andb]; [|reflexivity].
      destruct (abs_representable D); cbn [negb]; [|reflexivity].
      f_equal. pose proof (lowest_terms_scaled A D 1 ltac:(lia) HD Hco) as L.
      rewrite !Z.mul_1_r in L. exact L.
    + replace (abs_representable D) with false; [rewrite andb_false_r; reflexivity|].
      symmetry. destruct (abs_representable D) eqn:A'; [|reflexivity].
      apply abs_representable_iff in A'. unfold MIN64, MAX64 in *.
      apply andb_false_iff in ED. lia.
  - replace (abs_representable A) with false; [reflexivity|].
    symmetry. destruct (abs_representable A) eqn:A'; [|reflexivity].
    apply abs_representable_iff in A'. unfold MIN64, MAX64 in *.
    apply andb_false_iff in EA. lia.
Qed.

(* exact division by a gcd *)
Lemma cdiv_gcd_l : forall a b, b <> 0 -> MIN64 <= a <= MAX64 ->
  cdiv a (Z.gcd a b) = Some (a / Z.gcd a b) /\ a = a / Z.gcd a b * Z.gcd a b.
Proof.
  intros a b Hb Ha. pose proof (gcd_pos_r a b Hb) as G.
  destruct (Z.gcd_divide_l a b) as [k Hk].
  assert (Hq : a / Z.gcd a b = k) by (rewrite Hk at 1; apply Z.div_mul; lia).
  rewrite Hq. split; [|exact Hk].
  apply cdiv_exact; [lia | lia | unfold MIN64, MAX64 in *; nia].
Qed.
Lemma cdiv_gcd_r : forall a b, b <> 0 -> MIN64 <= b <= MAX64 ->
  cdiv b (Z.gcd a b) = Some (b / Z.gcd a b) /\ b = b / Z.gcd a b * Z.gcd a b.
Proof.
  intros a b Hb Hr. pose proof (gcd_pos_r a b Hb) as G.
  destruct (Z.gcd_divide_r a b) as [k Hk].
  assert (Hq : b / Z.gcd a b = k) by (rewrite Hk at 1; apply Z.div_mul; lia).
  rewrite Hq. split; [|exact Hk].
  apply cdiv_exact; [lia | lia | unfold MIN64, MAX64 in *; nia].
Qed.

(* coprimality of the cross-cancelled products *)
Lemma cross_coprime : forall x1 y1 x2 y2 g1 g2 a e b c,
  Z.gcd x1 y1 = 1 -> Z.gcd x2 y2 = 1 ->
  x1 = a * g1 -> y2 = e * g1 -> Z.gcd a e = 1 ->
  x2 = b * g2 -> y1 = c * g2 -> Z.gcd b c = 1 ->
  Z.gcd (a * b) (c * e) = 1.
Proof.
  intros x1 y1 x2 y2 g1 g2 a e b c H1 H2 Ea Ee Hae Eb Ec Hbc.
  apply Zgcd_1_rel_prime in H1, H2, Hae, Hbc. apply Zgcd_1_rel_prime.
  assert (Hac : rel_prime a c).
  { apply rel_prime_sym. apply rel_prime_div with (p := y1); [|exists g2; rewrite Z.mul_comm; exact Ec].
    apply rel_prime_sym. apply rel_prime_div with (p := x1); [exact H1 | exists g1; rewrite Z.mul_comm; exact Ea]. }
  assert (Hbe : rel_prime b e).
  { apply rel_prime_sym. apply rel_prime_div with (p := y2); [|exists g1; rewrite Z.mul_comm; exact Ee].
    apply rel_prime_sym. apply rel_prime_div with (p := x2); [exact H2 | exists g2; rewrite Z.mul_comm; exact Eb]. }
  apply rel_prime_sym. apply rel_prime_mult; apply rel_prime_sym; apply rel_prime_mult; assumption.
Qed.

Theorem ratio_multiply_m_spec : forall n1 d1 n2 d2, normalised n1 d1 -> normalised n2 d2 ->
  ratio_multiply_m n1 d1 n2 d2 = ratio_multiply_spec n1 d1 n2 d2.
Proof.
  intros n1 d1 n2 d2 (Hd1 & Hn1 & C1) (Hd2 & Hn2 & C2).
  unfold ratio_multiply_m, ratio_multiply_spec.
  assert (I : forall x, Z.abs x <= MAX64 -> in64 x) by (intros x Hx; apply in64_iff; unfold MIN64, MAX64 in *; lia).
  assert (B : forall x, Z.abs x <= MAX64 -> Z.abs x < 2 ^ 63) by (intros x Hx; change (2 ^ 63) with 9223372036854775808; unfold MAX64 in *; lia).
  assert (Ad1 : Z.abs d1 <= MAX64) by lia. assert (Ad2 : Z.abs d2 <= MAX64) by lia.
  assert (Nz1 : d1 <> 0) by lia. assert (Nz2 : d2 <> 0) by lia.
  destruct (gcd_m_pos n1 d2 (I n1 Hn1) (I d2 Ad2) Nz2 (B d2 Ad2)) as (G1 & P1 & _).
  destruct (gcd_m_pos n2 d1 (I n2 Hn2) (I d1 Ad1) Nz1 (B d1 Ad1)) as (G2 & P2 & _).
  rewrite G1, G2. cbn [obind].
  set (g1 := Z.gcd n1 d2) in *. set (g2 := Z.gcd n2 d1) in *.
  destruct (cdiv_gcd_l n1 d2 Nz2 ltac:(unfold MIN64, MAX64 in *; lia)) as (Ca & Ea). fold g1 in Ca, Ea.
  destruct (cdiv_gcd_r n1 d2 Nz2 ltac:(unfold MIN64, MAX64 in *; lia)) as (Ce & Ee). fold g1 in Ce, Ee.
  destruct (cdiv_gcd_l n2 d1 Nz1 ltac:(unfold MIN64, MAX64 in *; lia)) as (Cb & Eb). fold g2 in Cb, Eb.
  destruct (cdiv_gcd_r n2 d1 Nz1 ltac:(unfold MIN64, MAX64 in *; lia)) as (Cc & Ec). fold g2 in Cc, Ec.
  rewrite Ca, Cb. cbn [obind].
  set (a := n1 / g1) in *. set (b := n2 / g2) in *. set (c := d1 / g2) in *. set (e := d2 / g1) in *.
  assert (Hae : Z.gcd a e = 1) by (apply Z.gcd_div_gcd; [lia | reflexivity]).
  assert (Hbc : Z.gcd b c = 1) by (apply Z.gcd_div_gcd; [lia | reflexivity]).
  pose proof (cross_coprime n1 d1 n2 d2 g1 g2 a e b c C1 C2 Ea Ee Hae Eb Ec Hbc) as Hco.
  assert (Hce : c * e <> 0) by nia.
  (* reorder the binds: the model checks a*b, then divides, then checks c*e *)
  replace (n1 * n2) with ((a * b) * (g1 * g2)) by (rewrite Ea, Eb at 1; ring).
  replace (d1 * d2) with ((c * e) * (g1 * g2)) by (rewrite Ec, Ee at 1; ring).
  rewrite <- (final_ratio (a * b) (c * e) (g1 * g2) ltac:(nia) Hce Hco).
  destruct (ck (a * b)); cbn [obind]; [|reflexivity].
  rewrite Cc, Ce. reflexivity.
Qed.

Theorem ratio_divide_m_spec : forall n1 d1 n2 d2, normalised n1 d1 -> normalised n2 d2 ->
  ratio_divide_m n1 d1 n2 d2 = ratio_divide_spec n1 d1 n2 d2.
Proof.
  intros n1 d1 n2 d2 (Hd1 & Hn1 & C1) (Hd2 & Hn2 & C2).
  unfold ratio_divide_m, ratio_divide_spec.
  destruct (n2 =? 0) eqn:Z2.
  { apply Z.eqb_eq in Z2; subst n2. unfold ratio_result. rewrite Z.mul_0_r. reflexivity. }
  apply Z.eqb_neq in Z2.
  assert (I : forall x, Z.abs x <= MAX64 -> in64 x) by (intros x Hx; apply in64_iff; unfold MIN64, MAX64 in *; lia).
  assert (B : forall x, Z.abs x <= MAX64 -> Z.abs x < 2 ^ 63) by (intros x Hx; change (2 ^ 63) with 9223372036854775808; unfold MAX64 in *; lia).
  assert (Ad1 : Z.abs d1 <= MAX64) by lia. assert (Ad2 : Z.abs d2 <= MAX64) by lia.
  assert (Nz1 : d1 <> 0) by lia. assert (Nz2 : d2 <> 0) by lia.
  destruct (gcd_m_pos n1 n2 (I n1 Hn1) (I n2 Hn2) Z2 (B n2 Hn2)) as (G1 & P1 & _).
  destruct (gcd_m_pos d2 d1 (I d2 Ad2) (I d1 Ad1) Nz1 (B d1 Ad1)) as (G2 & P2 & _).
  rewrite G1, G2. cbn [obind].
  set (g1 := Z.gcd n1 n2) in *. set (g2 := Z.gcd d2 d1) in *.
  destruct (cdiv_gcd_l n1 n2 Z2 ltac:(unfold MIN64, MAX64 in *; lia)) as (Ca & Ea). fold g1 in Ca, Ea.
  destruct (cdiv_gcd_r n1 n2 Z2 ltac:(unfold MIN64, MAX64 in *; lia)) as (Ce & Ee). fold g1 in Ce, Ee.
  destruct (cdiv_gcd_l d2 d1 Nz1 ltac:(unfold MIN64, MAX64 in *; lia)) as (Cb & Eb). fold g2 in Cb, Eb.
  destruct (cdiv_gcd_r d2 d1 Nz1 ltac:(unfold MIN64, MAX64 in *; lia)) as (Cc & Ec). fold g2 in Cc, Ec.
  rewrite Ca, Cb. cbn [obind].
  set (a := n1 / g1) in *. set (b := d2 / g2) in *. set (c := d1 / g2) in *. set (e := n2 / g1) in *.
  assert (Hae : Z.gcd a e = 1) by (apply Z.gcd_div_gcd; [lia | reflexivity]).
  assert (Hbc : Z.gcd b c = 1) by (apply Z.gcd_div_gcd; [lia | reflexivity]).
  assert (C2' : Z.gcd d2 n2 = 1) by (rewrite Z.gcd_comm; exact C2).
  pose proof (cross_coprime n1 d1 d2 n2 g1 g2 a e b c C1 C2' Ea Ee Hae Eb Ec Hbc) as Hco.
  assert (Hce : c * e <> 0) by nia.
  replace (n1 * d2) with ((a * b) * (g1 * g2)) by (rewrite Ea, Eb at 1; ring).
  replace (d1 * n2) with ((c * e) * (g1 * g2)) by (rewrite Ec, Ee at 1; ring).
  rewrite <- (final_ratio (a * b) (c * e) (g1 * g2) ltac:(nia) Hce Hco).
  destruct (ck (a * b)); cbn [obind]; [|reflexivity].
  rewrite Cc, Ce. reflexivity.
Qed.

(* ratio<N, D> yields a normalised pair, so the hypotheses above are what the aliases always see *)
Lemma ratio_m_normalised : forall n d u v, in64 n -> in64 d -> ratio_m n d = Some (u, v) -> normalised u v.
Proof.
  intros n d u v Hn Hd H. rewrite ratio_m_spec in H by assumption.
  pose proof (ratio_result_of_spec n d (u, v) H) as R.
  unfold ratio_spec in H.
  destruct (d =? 0) eqn:Ed; [discriminate|]. cbn [orb] in H.
  destruct (abs_representable n) eqn:An; [|discriminate].
  destruct (abs_representable d) eqn:Ad; [|discriminate]. cbn [negb orb] in H. assert (L : lowest_terms n d = (u, v)) by congruence.
  pose proof (lowest_terms_normal n d u v ltac:(lia) L) as (Hv & Hg & _).
  unfold ratio_result in R. rewrite Ed, L in R.
  destruct (abs_representable u) eqn:Au; [|discriminate].
  destruct (abs_representable v) eqn:Av; [|discriminate].
  apply abs_representable_iff in Au, Av.
  unfold normalised. repeat split; try lia.
Qed.

Lemma ratio_normal_form : forall n d, in64 n -> in64 d ->
  ratio_m n d = ratio_spec n d
  /\ (forall u v, ratio_spec n d = Some (u, v) -> 0 < v /\ Z.gcd u v = 1 /\ u * d = n * v)
  /\ (forall u v, ratio_m n d = Some (u, v) -> normalised u v).
Proof.
  intros n d Hn Hd; split; [exact (ratio_m_spec n d Hn Hd)|]; split.
  - intros u v H. unfold ratio_spec in H.
    destruct (d =? 0) eqn:E; [discriminate|].
    destruct (abs_representable n); [|discriminate].
    destruct (abs_representable d); [|discriminate].
    cbn [negb orb] in H.
    assert (L : lowest_terms n d = (u, v)) by congruence.
    apply Z.eqb_neq in E. exact (lowest_terms_normal n d u v E L).
  - intros u v H. exact (ratio_m_normalised n d u v Hn Hd H).
Qed.

(** * ratio_equal decides equality of the rational numbers: normal forms are unique *)
Lemma normalised_unique : forall n1 d1 n2 d2, normalised n1 d1 -> normalised n2 d2 ->
  n1 * d2 = n2 * d1 -> n1 = n2 /\ d1 = d2.
Proof.
  intros n1 d1 n2 d2 (Hd1 & _ & C1) (Hd2 & _ & C2) E.
  assert (D12 : (d1 | d2)).
  { apply Gauss with (b := n1).
    - exists n2. exact E.
    - apply rel_prime_sym. apply Zgcd_1_rel_prime. exact C1. }
  assert (D21 : (d2 | d1)).
  { apply Gauss with (b := n2).
    - exists n1. symmetry. exact E.
    - apply rel_prime_sym. apply Zgcd_1_rel_prime. exact C2. }
  assert (Ed : d1 = d2).
  { apply Z.divide_antisym_nonneg; try lia; assumption. }
  split; [|exact Ed]. subst d2. apply Z.mul_cancel_r with (p := d1); [lia | exact E].
Qed.

Theorem ratio_equal_semantic : forall n1 d1 n2 d2, normalised n1 d1 -> normalised n2 d2 ->
  ratio_equal_m n1 d1 n2 d2 = Some (n1 * d2 =? n2 * d1).
Proof.
  intros n1 d1 n2 d2 H1 H2; unfold ratio_equal_m. f_equal.
  destruct (n1 * d2 =? n2 * d1) eqn:E.
  - apply Z.eqb_eq in E. destruct (normalised_unique _ _ _ _ H1 H2 E) as [-> ->].
    rewrite !Z.eqb_refl. reflexivity.
  - apply Z.eqb_neq in E.
    destruct (n1 =? n2) eqn:En; [|reflexivity]. destruct (d1 =? d2) eqn:Ed; [|reflexivity].
    apply Z.eqb_eq in En, Ed. subst. contradiction E. reflexivity.
Qed.
