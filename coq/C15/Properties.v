(* C15 — type traits, concepts, numeric_limits (and ratio, Properties_ratio.v) agree with the
   language and std.  Property theorems only: each is closed by [exact] of a lemma proved in
   ProofsTypes / ProofsCv / ProofsCat / ProofsTrans / ProofsSummary / ProofsLimits.v.

   Vocabulary
     cty, wf          the universe of C++ types (Types.v): void, nullptr_t, the 19 arithmetic types,
                      enumerations, T*, T&, T&&, T[N], T[], function types with cv/ref/noexcept/
                      variadic, pointers to members, classes, unions, cv-wrappers — arbitrarily
                      nested; [wf] is well-formedness ([dcl.ref], [dcl.ptr], [dcl.array], [dcl.fct]).
     X_m              Model.v: how the etl header computes trait X (partial specialisation patterns,
                      SFINAE on forming T&/T&&/T*, is_same against type lists, compositions, or a
                      compiler intrinsic, selected per compiler configuration k : cfg)
     std_X            Spec.v: what [meta], [basic.types], [conv.*] define
   Every theorem below quantifies over ALL well-formed types (induction over the type syntax where
   the trait recurses through arrays / cv), not over the finite zoo the compile-time tie samples. *)
From Coq Require Import NArith.
From Tetl Require Import Lib.Base C15.Types C15.Model C15.ModelNum C15.ModelComp C15.ModelMeta C15.Spec C15.SpecNum C15.ProofsTypes
  C15.ProofsCv C15.ProofsCat C15.ProofsTrans C15.ProofsSummary C15.ProofsLimits C15.ProofsWf C15.ProofsLaws C15.ProofsComp.
Local Open Scope Z_scope.

(* [meta.unary.cat]: the 14 primary category traits, both compiler configurations *)
Theorem C15_primary_categories : forall k t, wf t = true -> primary_categories_agree k t.
Proof. exact primary_categories. Qed.
Print Assumptions C15_primary_categories.

(* exactly one primary category holds for every type, and cv-qualifying a type does not change it *)
Theorem C15_primary_categories_partition : forall k t, wf t = true ->
  count_true (primary_m k t) = 1%nat
  /\ forall c v, primary_m k (qual c v t) = primary_m k t.
Proof. intros k t H; split; [exact (primary_partition k t H) | intros c v; exact (category_cv_invariant k t c v H)]. Qed.
Print Assumptions C15_primary_categories_partition.

(* [meta.unary.comp]: is_reference, is_arithmetic, is_fundamental, is_object, is_scalar, is_compound,
   is_member_pointer *)
Theorem C15_composite_categories : forall k t, wf t = true -> composite_categories_agree k t.
Proof. exact composite_categories. Qed.
Print Assumptions C15_composite_categories.

(* [meta.unary.prop], [meta.unary.prop.query]: is_const, is_volatile, is_signed, is_unsigned,
   is_(un)bounded_array, rank, extent<T, I> for every I, is_scoped_enum, is_builtin_*_integer *)
Theorem C15_type_properties : forall k t, wf t = true -> type_properties_agree k t.
Proof. exact type_properties. Qed.
Print Assumptions C15_type_properties.

(* [meta.trans.cv]: remove_const/volatile/cv, add_const/volatile/cv *)
Theorem C15_cv_transformations : forall t, wf t = true -> cv_transformations_agree t.
Proof. exact cv_transformations. Qed.
Print Assumptions C15_cv_transformations.

(* [meta.trans.ref], [meta.trans.ptr], [meta.trans.arr], decay, remove_cvref, type_identity *)
Theorem C15_compound_transformations : forall t, wf t = true -> compound_transformations_agree t.
Proof. exact compound_transformations. Qed.
Print Assumptions C15_compound_transformations.

(* [meta.trans.sign] make_signed / make_unsigned (incl. when they have no member type), underlying_type *)
Theorem C15_sign_transformations : forall k t, wf t = true -> sign_transformations_agree k t.
Proof. exact sign_transformations. Qed.
Print Assumptions C15_sign_transformations.

(* common_type<T1, T2> for every pair of well-formed types (None on both sides = outside the
   specification's scope: class types, distinct non-arithmetic types) *)
Theorem C15_common_type : forall t1 t2, wf t1 = true -> wf t2 = true ->
  common_type_m t1 t2 = std_common_type t1 t2.
Proof. exact common_type_m_spec. Qed.
Print Assumptions C15_common_type.

(* is_same / same_as decide identity of types (no hypothesis); conditional; meta::contains *)
Theorem C15_type_relations : forall t u,
  ((is_same_m t u = true <-> t = u) /\ (same_as_m t u = true <-> t = u)
   /\ (forall b, conditional_m b t u = std_conditional b t u))
  /\ forall l, contains_m t l = true <-> In t l.
Proof. intros t u; split; [exact (binary_relations t u) | intros l; exact (contains_m_spec t l)]. Qed.
Print Assumptions C15_type_relations.

(* the concepts integral, floating_point, signed_integral, unsigned_integral; the etl-only concept
   `referenceable` is "not void", implied by (and strictly weaker than) [defns.referenceable] *)
Theorem C15_concepts :
  (forall k t, wf t = true -> concepts_agree k t)
  /\ exists t, wf t = true /\ referenceable_c_m t = true /\ referenceable t = false.
Proof. exact (conj concepts etl_referenceable_is_not_defns_referenceable). Qed.
Print Assumptions C15_concepts.

(* the language-level cv machinery the traits are specified with maps well-formed types to
   well-formed types *)
Theorem C15_cv_preserves_wf : forall t c v, wf t = true ->
  wf (qual c v t) = true /\ wf (unqual c v t) = true.
Proof. intros t c v H; split; [exact (wf_qual t c v H) | exact (wf_unqual t c v H)]. Qed.
Print Assumptions C15_cv_preserves_wf.

(* every transformation trait maps well-formed types to well-formed types (the substitution-failure
   cases of add_lvalue_reference / add_rvalue_reference / add_pointer and the qualified-function case
   of decay are exactly what this needs) *)
Theorem C15_transformations_preserve_wf : forall k t, wf t = true -> transformations_preserve_wf k t.
Proof. exact transformations_wf. Qed.
Print Assumptions C15_transformations_preserve_wf.

(* laws between the traits: idempotence of remove_cv / decay / remove_cvref, reference collapsing of
   add_lvalue_reference / add_rvalue_reference, remove_reference and remove_pointer undo
   add_lvalue_reference and add_pointer, add_const / add_volatile qualify everything except references
   and functions, rank / extent recurse through remove_extent *)
Theorem C15_trait_laws : forall t, wf t = true -> trait_laws t.
Proof. exact laws. Qed.
Print Assumptions C15_trait_laws.

(* the composition traits is_default/copy/move_constructible, is_copy/move_assignable — and, with the
   nothrow / trivially intrinsics for ctor and asg, their is_nothrow_* / is_trivially_* versions — pass
   exactly the standard's argument types (const T&, T&&, T&; reference collapsing, cv on references and
   functions ignored) to the intrinsic, and are false for non-referenceable T.  [ctor], [asg] are ANY
   intrinsics that are false on non-referenceable types (cv void, qualified function types). *)
Theorem C15_composition_traits : forall (ctor : cty -> list cty -> bool) (asg : cty -> cty -> bool),
  (forall t args, referenceable t = false -> ctor t args = false) ->
  (forall t u, referenceable t = false -> asg t u = false) ->
  forall t, wf t = true ->
    is_default_constructible_m ctor t = std_is_default_constructible ctor t
    /\ is_copy_constructible_m ctor t = std_is_copy_constructible ctor t
    /\ is_move_constructible_m ctor t = std_is_move_constructible ctor t
    /\ is_copy_assignable_m asg t = std_is_copy_assignable asg t
    /\ is_move_assignable_m asg t = std_is_move_assignable asg t.
Proof. exact composition_traits. Qed.
Print Assumptions C15_composition_traits.

(* is_destructible (library SFINAE with the void / function / unbounded-array / reference / scalar
   short-cuts and remove_all_extents) and is_nothrow_destructible (partial specialisations for T[N],
   T&, T&&; induction over the array nesting) are [meta.unary.prop], for every compiler whose
   pseudo-destructor call on a scalar is well-formed; [dtor_ok u] = "declval<U&>().~U() is well-formed",
   [dtor_noexcept t] = "noexcept(declval<T>().~T())" *)
Theorem C15_destructible : forall (dtor_ok dtor_noexcept : cty -> bool),
  (forall u, std_is_scalar u = true -> dtor_ok u = true) ->
  forall k t, wf t = true ->
    is_destructible_m dtor_ok k t = std_is_destructible dtor_ok t
    /\ is_nothrow_destructible_m dtor_ok dtor_noexcept k t = std_is_nothrow_destructible dtor_ok dtor_noexcept t.
Proof.
  intros dtor_ok dtor_noexcept Hs k t H; split;
    [exact (is_destructible_m_spec dtor_ok Hs k t H) | exact (is_nothrow_destructible_m_spec dtor_ok dtor_noexcept Hs k t H)].
Qed.
Print Assumptions C15_destructible.

(* is_convertible (two SFINAE tests - "can To() be formed", "can void(To) be called with a From" - and
   the void/void clause) is [meta.rel] "To test() { return declval<From>(); } is well-formed", for
   every compiler on which a function cannot be called with an argument through a void parameter list;
   [call_ok from to] = "declval<void (&)(To)>()(declval<From>()) is well-formed" *)
Theorem C15_is_convertible : forall (call_ok : cty -> cty -> bool),
  (forall from to, std_is_void to = true -> call_ok from to = false) ->
  forall from to, wf from = true -> wf to = true ->
    is_convertible_m call_ok from to = std_is_convertible call_ok from to.
Proof. exact is_convertible_m_spec. Qed.
Print Assumptions C15_is_convertible.

(* etl::meta (compile-time type lists): at / head / count / index_of / push_back / push_front / tail
   as the partial specialisations compute them are nth_error / hd_error / number of occurrences /
   FIRST position (no value iff the type does not occur) / append / cons, for all lists and indices *)
Theorem C15_meta_lists : forall t l,
  (forall i, at_m i l = nth_error l i) /\ head_m l = hd_error l
  /\ count_m t l = length (filter (fun x => cty_eqb t x) l) /\ (0 < count_m t l <-> In t l)%nat
  /\ match index_of_m t l with
     | Some i => nth_error l i = Some t /\ forall j, (j < i)%nat -> nth_error l j <> Some t
     | None => ~ In t l
     end
  /\ (at_m (length l) (push_back_m t l) = Some t
      /\ (forall i, (i < length l)%nat -> at_m i (push_back_m t l) = at_m i l)
      /\ head_m (push_front_m t l) = Some t /\ tail_m (push_front_m t l) = Some l
      /\ count_m t (push_front_m t l) = (count_m t l + 1)%nat
      /\ count_m t (push_back_m t l) = (count_m t l + 1)%nat
      /\ index_of_m t (push_front_m t l) = Some 0%nat
      /\ (contains_m t l = true <-> index_of_m t l <> None)).
Proof.
  intros t l.
  exact (conj (at_m_spec l) (conj (head_m_spec l) (conj (count_m_spec t l) (conj (count_m_pos t l)
        (conj (index_of_m_spec t l) (meta_laws t l)))))).
Qed.
Print Assumptions C15_meta_lists.

(* smallest_size_t<N> (etl extension) for every 64-bit N: the chosen type holds N, and the next
   smaller unsigned type could not hold N + 1 *)
Theorem C15_smallest_size_t : forall n, 0 <= n < 2 ^ 64 ->
  holds (smallest_size_t_m n) n = true
  /\ (smallest_size_t_m n = AUShort -> holds AUChar (n + 1) = false)
  /\ (smallest_size_t_m n = AUInt -> holds AUShort (n + 1) = false)
  /\ (smallest_size_t_m n = AULong -> holds AUInt (n + 1) = false)
  /\ (smallest_size_t_m n = AULLong -> holds AULong (n + 1) = false).
Proof. exact smallest_size_t_m_spec. Qed.
Print Assumptions C15_smallest_size_t.

(* numeric_limits: every member (32) of every arithmetic type (19; finite domain, kernel-evaluated
   sweep) equals the value [numeric.limits.members] defines from the representation parameters;
   the only member without a specified value is `traps`; and the decimal digit counts of the
   specification are floor(log10 .) *)
Theorem C15_numeric_limits :
  (forall a m v, limits_spec a m = Some v -> limits_m a m = v)
  /\ (forall a m, m <> Ltraps -> limits_spec a m <> None)
  /\ (forall x, 1 <= x < 10 ^ 6000 -> is_flog10 x (flog10 x)).
Proof. exact (conj limits_m_spec (conj limits_spec_defined flog10_spec)). Qed.
Print Assumptions C15_numeric_limits.

(* how far the header's decimal-digit formulas reach beyond this platform's types:
   digits * 3 / 10 = floor(digits * log10 2) for every width 1..102 (first failure: 103), and
   2 + MANT_DIG * 301 / 1000 = ceil(1 + p * log10 2) for every precision 1..195 (first failure: 196);
   finite ranges, kernel-evaluated *)
Theorem C15_decimal_digit_formulas :
  (forall d, 1 <= d <= 102 -> Z.quot (d * 3) 10 = flog10 (2 ^ d))
  /\ Z.quot (103 * 3) 10 <> flog10 (2 ^ 103)
  /\ (forall p, 1 <= p <= 195 -> 2 + Z.quot (p * 301) 1000 = flog10 (2 ^ p) + 2)
  /\ 2 + Z.quot (196 * 301) 1000 <> flog10 (2 ^ 196) + 2.
Proof. exact decimal_formulas. Qed.
Print Assumptions C15_decimal_digit_formulas.

(* the hypotheses are satisfiable by deeply nested types and the traits are non-trivial on them *)
Example C15_nonvacuous :
  wf nv_t1 = true /\ wf nv_t2 = true /\ wf nv_t3 = true
  /\ decay_m nv_t1 = Ptr (Cv true false (Ptr (Fn (Arith AInt) [Arith AChar; Ptr (Arith ADouble)] false false RQnone true false)))
  /\ is_const_m nv_t2 = true /\ rank_m nv_t2 = 3%N /\ extent_m nv_t2 2 = 5%N
  /\ remove_cv_m nv_t2 = Arr (Arr (Arr (Arith AULong) (Some 5%N)) (Some 2%N)) None
  /\ is_member_function_pointer_m GCC12 nv_t3 = true /\ is_member_object_pointer_m GCC12 nv_t3 = false
  /\ make_unsigned_m GCC12 (Cv true false (Arith AWChar)) = Some (Cv true false (Arith AUInt))
  /\ common_type_m (Cv true false (Arith AChar)) (LRef (Arith AULong)) = Some (Arith AULong)
  /\ wf (LRef (LRef (Arith AInt))) = false /\ wf (Ptr (Fn Void [] true false RQnone false false)) = false.
Proof. exact nonvacuous. Qed.
