(* C15 — property theorems (temporary minimal file while the package is being completed). *)
From Tetl Require Import Lib.Base C15.Types C15.Model C15.Spec C15.ProofsTypes.

Theorem C15_is_same_decides_identity : forall a b, is_same_m a b = true <-> a = b.
Proof. exact cty_eqb_eq. Qed.
Print Assumptions C15_is_same_decides_identity.
