(* C15 — INVOKE of include/etl/_type_traits/invoke_result.hpp (behind invoke_result, is_invocable,
   is_invocable_r and the concepts built on them) against [func.require].  Property theorems only.

   Vocabulary
     invq                   the INVOKE expression the library / the standard selects; the compiler is asked
                            whether it is well-formed and for its type:
                              IQCall F Args            declval<F>()(declval<Args>()...)
                              IQMemFn pm o T1 Args     (obj.*pm)(declval<Args>()...)
                              IQMemData pm o T1        obj.*pm
                              IQNone                   no candidate (no member `type`) without asking
                            obj from declval<T1>(): ODirect the object, ORefWrap its .get(), ODeref *it
     invoke_m bo rw F Args  detail::INVOKE<F, Args...> of the header: invoke_impl selected by decay_t<F>,
                            get / call of invoke_impl<MT B::*>
     std_invoke_q           the case analysis of [func.require] on remove_cvref_t<F>, remove_cvref_t<T1>
     bo, rw                 is_base_of_v<B, T> and is_reference_wrapper<T>::value: ANY functions that are
                            true only on class types (class templates and inheritance are outside [cty])
     ask, conv              the compiler's answers (type of an expression, implicit convertibility): ANY functions
     callable_is_memptr F   remove_cvref_t<F> is a pointer to member
     recall G q             q with the callable of a plain call replaced by G *)
From Coq Require Import NArith.
From Tetl Require Import Lib.Base C15.Types C15.Model C15.Spec C15.ModelInvoke C15.ProofsInvoke.
Local Open Scope Z_scope.

(* for EVERY well-formed callable type F and argument types, every inheritance relation and every
   reference_wrapper recogniser: the header selects the INVOKE expression [func.require] defines.
   Excluded (third hypothesis): a pointer to a member OF a reference_wrapper specialisation (or of a base of
   one) applied to that reference_wrapper — there both overloads of invoke_impl::get are viable. *)
Theorem C15_invoke_selects_func_require : forall base_of refwrap,
  (forall b t, base_of b t = true -> exists d, t = Class d) ->
  (forall t, refwrap t = true -> exists d, t = Class d) ->
  (forall b t, refwrap t = true -> cty_eqb (Class b) t || base_of b t = false) ->
  forall f args, wf f = true -> Forall (fun t => wf t = true) args ->
  invoke_m base_of refwrap f args = std_invoke_q base_of refwrap f args.
Proof. exact invoke_m_spec. Qed.
Print Assumptions C15_invoke_selects_func_require.

(* invoke_result / is_invocable / is_invocable_r computed from the selected expression agree with the
   standard's, whatever the compiler answers for the expression and for the conversion to R *)
Theorem C15_invoke_traits : forall base_of refwrap,
  (forall b t, base_of b t = true -> exists d, t = Class d) ->
  (forall t, refwrap t = true -> exists d, t = Class d) ->
  (forall b t, refwrap t = true -> cty_eqb (Class b) t || base_of b t = false) ->
  forall ask conv r f args, wf r = true -> wf f = true -> Forall (fun t => wf t = true) args ->
  invoke_result_m base_of refwrap ask f args = std_invoke_result base_of refwrap ask f args
  /\ is_invocable_m base_of refwrap ask f args = std_is_invocable base_of refwrap ask f args
  /\ is_invocable_r_m base_of refwrap ask conv r f args = std_is_invocable_r base_of refwrap ask conv r f args.
Proof. exact invoke_traits_spec. Qed.
Print Assumptions C15_invoke_traits.

(* the top-level cv-qualification of the callable type F never changes the selected case: F const,
   F volatile, F const volatile select the same case of [func.require] as F; when F is a pointer to member
   the INVOKE expression is the SAME (hence invoke_result, is_invocable, is_invocable_r are); for a plain
   call only the callable operand carries the qualification.  No hypothesis on the oracles. *)
Theorem C15_invoke_cv_invariant : forall base_of refwrap c v f args, wf f = true ->
  invoke_m base_of refwrap (qual c v f) args = recall (qual c v f) (invoke_m base_of refwrap f args)
  /\ kind_of (invoke_m base_of refwrap (qual c v f) args) = kind_of (invoke_m base_of refwrap f args)
  /\ (callable_is_memptr f = true ->
      invoke_m base_of refwrap (qual c v f) args = invoke_m base_of refwrap f args)
  /\ callable_is_memptr (qual c v f) = callable_is_memptr f.
Proof.
  intros bo rw c v f args Hwf. split; [apply invoke_m_qual; assumption|].
  apply invoke_case_cvref_invariant; assumption.
Qed.
Print Assumptions C15_invoke_cv_invariant.

(* the same for F& and F&& (F not a reference; the other combinations collapse to these) *)
Theorem C15_invoke_ref_invariant : forall base_of refwrap g f args, (g = LRef f \/ g = RRef f) -> wf g = true ->
  invoke_m base_of refwrap g args = recall g (invoke_m base_of refwrap f args)
  /\ kind_of (invoke_m base_of refwrap g args) = kind_of (invoke_m base_of refwrap f args)
  /\ (callable_is_memptr f = true -> invoke_m base_of refwrap g args = invoke_m base_of refwrap f args).
Proof.
  intros bo rw g f args Hg Hwf. split; [apply invoke_m_ref; assumption|].
  apply invoke_case_ref_invariant; assumption.
Qed.
Print Assumptions C15_invoke_ref_invariant.

(* `long (S::* const&)() const` on `S const&`, `int S::* const` on `S*`, a data member pointer with a second
   argument, a class-type callable; and what a selector keyed on remove_reference_t<F> would select *)
Example C15_invoke_nonvacuous :
  wf (LRef (Cv true false ex_pmf)) = true
  /\ invoke_m no_bases no_refwrap (LRef (Cv true false ex_pmf)) [LRef (Cv true false (Class ex_S))]
     = IQMemFn ex_pmf ODirect (LRef (Cv true false (Class ex_S))) []
  /\ invoke_m no_bases no_refwrap (Cv true false ex_pmd) [Ptr (Class ex_S)] = IQMemData ex_pmd ODeref (Ptr (Class ex_S))
  /\ invoke_m no_bases no_refwrap (Cv true true ex_pmd) [Class ex_S; Arith AInt] = IQNone
  /\ invoke_m no_bases no_refwrap (Class ex_S) [Arith AInt] = IQCall (Class ex_S) [Arith AInt]
  /\ invoke_sel_m no_bases no_refwrap (remove_reference_m (LRef (Cv true false ex_pmf))) (LRef (Cv true false ex_pmf))
       [LRef (Cv true false (Class ex_S))]
     = IQCall (LRef (Cv true false ex_pmf)) [LRef (Cv true false (Class ex_S))].
Proof. exact invoke_examples. Qed.
