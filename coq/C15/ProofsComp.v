(* C15 proofs, part 13: the composition traits (copy/move constructible/assignable and their
   nothrow / trivially variants) pass exactly the standard's argument types to the intrinsic, for
   every well-formed T and every intrinsic that is false on non-referenceable T; is_destructible and
   is_nothrow_destructible (library SFINAE + partial specialisations) are the standard's definition
   for every compiler whose pseudo-destructor calls on scalars are well-formed. *)
From Tetl Require Import Lib.Base C15.Types C15.Model C15.Spec C15.ModelComp C15.ProofsTypes C15.ProofsCv
  C15.ProofsCat C15.ProofsTrans C15.ProofsWf.
Local Open Scope Z_scope.

(** * argument types *)
Lemma copy_ctor_arg_spec : forall t, wf t = true -> copy_ctor_arg_m t = std_const_lref t.
Proof.
  intros t H; unfold copy_ctor_arg_m, std_const_lref.
  rewrite add_lvalue_reference_m_spec by (apply wf_qual; exact H).
  rewrite add_const_m_spec by exact H. reflexivity.
Qed.
Lemma copy_assign_arg_spec : forall t, wf t = true -> copy_assign_arg_m t = std_const_lref t.
Proof. exact copy_ctor_arg_spec. Qed.
Lemma move_ctor_arg_spec : forall t, wf t = true -> move_ctor_arg_m t = std_rref t.
Proof. intros t H; apply add_rvalue_reference_m_spec; exact H. Qed.
Lemma move_assign_arg_spec : forall t, wf t = true -> move_assign_arg_m t = std_rref t.
Proof. exact move_ctor_arg_spec. Qed.
Lemma assign_target_spec : forall t, wf t = true -> assign_target_m t = std_lref t.
Proof. intros t H; apply add_lvalue_reference_m_spec; exact H. Qed.

(* on a non-referenceable type the library leaves T itself as the target *)
Lemma lref_nonreferenceable : forall t, referenceable t = false -> std_lref t = t.
Proof. intros t R; unfold std_lref, std_add_lvalue_reference; rewrite R; reflexivity. Qed.

Section Intrinsics.
  Variable ctor : cty -> list cty -> bool.
  Variable asg : cty -> cty -> bool.
  (* language facts: cv void and function types with cv/ref-qualifiers can be neither constructed nor
     assigned to ([dcl.init], [expr.ass]; declval<T>() is not even formable for them) *)
  Hypothesis ctor_nonref : forall t args, referenceable t = false -> ctor t args = false.
  Hypothesis asg_nonref : forall t u, referenceable t = false -> asg t u = false.

  Theorem composition_traits : forall t, wf t = true ->
    is_default_constructible_m ctor t = std_is_default_constructible ctor t
    /\ is_copy_constructible_m ctor t = std_is_copy_constructible ctor t
    /\ is_move_constructible_m ctor t = std_is_move_constructible ctor t
    /\ is_copy_assignable_m asg t = std_is_copy_assignable asg t
    /\ is_move_assignable_m asg t = std_is_move_assignable asg t.
  Proof.
    intros t H.
    unfold is_default_constructible_m, std_is_default_constructible, is_copy_constructible_m,
      std_is_copy_constructible, is_move_constructible_m, std_is_move_constructible,
      is_copy_assignable_m, std_is_copy_assignable, is_move_assignable_m, std_is_move_assignable.
    rewrite copy_ctor_arg_spec, move_ctor_arg_spec, assign_target_spec, copy_assign_arg_spec,
      move_assign_arg_spec by exact H.
    destruct (referenceable t) eqn:R; repeat split; try reflexivity.
    - apply ctor_nonref; exact R.
    - apply ctor_nonref; exact R.
    - rewrite lref_nonreferenceable by exact R. apply asg_nonref; exact R.
    - rewrite lref_nonreferenceable by exact R. apply asg_nonref; exact R.
  Qed.
End Intrinsics.

(** * is_destructible *)
Lemma not_ref_cat : forall t, wf t = true -> is_ref_ty t = false -> std_is_reference t = false.
Proof.
  intros t H N. shapes t H; try reflexivity; try (da; reflexivity); try discriminate N; destruct p; reflexivity.
Qed.

Section Destructor.
  Variable dtor_ok : cty -> bool.
  Variable dtor_noexcept : cty -> bool.
  (* [expr.prim.id.dtor]: a pseudo-destructor call on a scalar type is well-formed *)
  Hypothesis dtor_scalar : forall u, std_is_scalar u = true -> dtor_ok u = true.

  Lemma is_destructible_q_spec : forall k t, wf t = true ->
    eval_dres dtor_ok (is_destructible_q k t) = eval_dres dtor_ok (std_is_destructible_q t).
  Proof.
    intros k t H.
    assert (E : is_destructible_q k t =
                if std_is_void t || std_is_function t || std_is_unbounded_array t then DFalse
                else if std_is_reference t || std_is_scalar t then DTrue
                else DAsk (std_remove_all_extents t)).
    { unfold is_destructible_q.
      rewrite is_void_m_spec, is_function_m_spec, is_unbounded_array_m_spec, is_reference_m_spec,
        is_scalar_m_spec, remove_all_extents_m_spec by exact H.
      destruct t; try reflexivity. destruct n; reflexivity. }
    rewrite E. clear E. unfold std_is_destructible_q, std_is_object.
    destruct (std_is_void t) eqn:V; cbn [orb negb andb].
    { destruct (std_is_reference t) eqn:R; [|rewrite andb_false_r; reflexivity].
      exfalso. clear - V R H. shapes t H; try discriminate; try (da; discriminate); destruct p; discriminate. }
    destruct (std_is_function t) eqn:F; cbn [orb negb andb].
    { destruct (std_is_reference t) eqn:R; [|reflexivity].
      exfalso. clear - F R H. shapes t H; try discriminate; try (da; discriminate); destruct p; discriminate. }
    destruct (std_is_reference t) eqn:R; cbn [orb negb andb]; [destruct (std_is_unbounded_array t) eqn:U; [|reflexivity]|].
    { exfalso. clear - U R. destruct t; try discriminate. }
    destruct (std_is_unbounded_array t) eqn:U; cbn [negb]; [reflexivity|].
    destruct (std_is_scalar t) eqn:S; [|reflexivity].
    cbn [eval_dres].
    assert (A : std_remove_all_extents t = t).
    { clear - S H. destruct t; try reflexivity. discriminate S. }
    rewrite A. symmetry. apply dtor_scalar; exact S.
  Qed.

  Theorem is_destructible_m_spec : forall k t, wf t = true ->
    is_destructible_m dtor_ok k t = std_is_destructible dtor_ok t.
  Proof. intros k t H; unfold is_destructible_m, std_is_destructible. apply is_destructible_q_spec; exact H. Qed.

  (* destructibility of an array of known bound is that of its element type *)
  Lemma std_is_destructible_arr : forall e n, wf (Arr e (Some n)) = true ->
    std_is_destructible dtor_ok (Arr e (Some n)) = std_is_destructible dtor_ok e.
  Proof.
    intros e n H. pose proof (wf_Arr _ _ H) as (He & Hr & Hv & Hf & Hu).
    unfold std_is_destructible, std_is_destructible_q.
    assert (R : std_is_reference e = false).
    { clear - He Hr. shapes e He; try reflexivity; try (da; reflexivity); try discriminate; destruct p; reflexivity. }
    assert (O : std_is_object e = true).
    { clear - He Hr Hv Hf. unfold std_is_object.
      shapes e He; try reflexivity; try (da; reflexivity); try discriminate; destruct p; reflexivity. }
    assert (U : std_is_unbounded_array e = false).
    { clear - Hu. destruct e; try reflexivity. destruct n; [reflexivity | discriminate]. }
    rewrite R, O, U. reflexivity.
  Qed.

  Theorem is_nothrow_destructible_m_spec : forall k t, wf t = true ->
    is_nothrow_destructible_m dtor_ok dtor_noexcept k t = std_is_nothrow_destructible dtor_ok dtor_noexcept t.
  Proof.
    intros k; induction t; intros H; unfold std_is_nothrow_destructible;
      try reflexivity;
      try (cbn [is_nothrow_destructible_m std_remove_all_extents];
           rewrite is_destructible_m_spec by exact H;
           match goal with |- _ = (if ?r then _ else _) => assert (R : r = false) end;
           [ apply not_ref_cat; [exact H | reflexivity] | rewrite R; destruct (std_is_destructible dtor_ok _); reflexivity ]).
    (* arrays *)
    destruct n as [n|].
    - cbn [is_nothrow_destructible_m std_remove_all_extents].
      pose proof (wf_Arr _ _ H) as (He & Hr & _).
      rewrite IHt by exact He. unfold std_is_nothrow_destructible.
      assert (R : std_is_reference t = false).
      { clear - He Hr. shapes t He; try reflexivity; try (da; reflexivity); try discriminate; destruct p; reflexivity. }
      rewrite R. change (std_is_reference (Arr t (Some n))) with false. cbn iota.
      rewrite std_is_destructible_arr by exact H. reflexivity.
    - cbn [is_nothrow_destructible_m]. rewrite is_destructible_m_spec by exact H.
      assert (D : std_is_destructible dtor_ok (Arr t None) = false).
      { unfold std_is_destructible, std_is_destructible_q.
        change (std_is_reference (Arr t None)) with false.
        change (std_is_unbounded_array (Arr t None)) with true. cbn [negb]. rewrite andb_false_r. reflexivity. }
      rewrite D. reflexivity.
  Qed.
End Destructor.

(** * is_convertible *)
Section Conversion.
  Variable call_ok : cty -> cty -> bool.
  (* a function cannot be called with an argument when its parameter type is void: the type void(void)
     formed from a dependent void is invalid, and a function without parameters takes no argument *)
  Hypothesis call_void : forall from to, std_is_void to = true -> call_ok from to = false.

  Theorem is_convertible_m_spec : forall from to, wf from = true -> wf to = true ->
    is_convertible_m call_ok from to = std_is_convertible call_ok from to.
  Proof.
    intros from to Hf Ht; unfold is_convertible_m, std_is_convertible, is_convertible_q, std_is_convertible_q.
    rewrite !is_void_m_spec by assumption.
    assert (R : returnable_m to = negb (std_is_array to || std_is_function to)).
    { unfold returnable_m. rewrite <- is_array_m_spec, <- is_function_m_spec by exact Ht.
      rewrite is_function_m_fn by exact Ht.
      destruct to; try reflexivity; destruct n; reflexivity. }
    rewrite R.
    destruct (std_is_void to) eqn:Vt.
    - destruct (std_is_void from); cbn [andb]; [reflexivity|].
      destruct (negb _); cbn [eval_cres]; [apply call_void; exact Vt | reflexivity].
    - rewrite andb_false_r. destruct (std_is_array to || std_is_function to)%bool; reflexivity.
  Qed.
End Conversion.
