(* C15 proofs, part 8: ratio<N, D> and ratio_add / ratio_subtract.
   ratio<N, D>::num/den (sign * sign * abs / gcd with checked intmax_t arithmetic) is the [ratio.ratio]
   normal form for EVERY pair of 64-bit template arguments, ill-formed exactly when the standard
   says so (D = 0, or |N| or |D| not representable).  ratio_add / ratio_subtract are exact whenever
   they are well-formed; they are ill-formed on some inputs on which the standard's result is
   representable (recorded finding, [ratio_add_refuted]). *)
From Coq Require Import ZifyBool Znumtheory.
From Tetl Require Import Lib.Base C15.Types C15.ModelNum C15.SpecNum C15.ProofsGcd.
Local Open Scope Z_scope.
Ltac Zify.zify_post_hook ::= Z.to_euclidean_division_equations.

Definition MIN64 : Z := -9223372036854775808.
Definition MAX64 : Z := 9223372036854775807.

Lemma in64_iff : forall x, in64 x <-> MIN64 <= x <= MAX64.
Proof. intros x; unfold in64, MIN64, MAX64. change (2 ^ 63) with 9223372036854775808. lia. Qed.

Lemma ck_spec : forall x, ck x = if (MIN64 <=? x) && (x <=? MAX64) then Some x else None.
Proof. intros x; reflexivity. Qed.

Lemma ck_in : forall x, MIN64 <= x <= MAX64 -> ck x = Some x.
Proof.
  intros x H; rewrite ck_spec.
  replace ((MIN64 <=? x) && (x <=? MAX64))%bool with true by (symmetry; apply andb_true_intro; split; lia).
  reflexivity.
Qed.
Lemma ck_out : forall x, ~ (MIN64 <= x <= MAX64) -> ck x = None.
Proof.
  intros x H; rewrite ck_spec.
  destruct ((MIN64 <=? x) && (x <=? MAX64))%bool eqn:E; [|reflexivity].
  apply andb_prop in E. lia.
Qed.
Lemma ck_some : forall x y, ck x = Some y -> y = x /\ MIN64 <= x <= MAX64.
Proof.
  intros x y H; rewrite ck_spec in H.
  destruct ((MIN64 <=? x) && (x <=? MAX64))%bool eqn:E; [|discriminate].
  apply andb_prop in E. injection H as <-. lia.
Qed.

Lemma abs_m_spec : forall n, in64 n ->
  abs_m n = if n =? MIN64 then None else Some (Z.abs n).
Proof.
  intros n Hn; apply in64_iff in Hn; unfold abs_m.
  destruct (n >=? 0) eqn:E.
  - destruct (n =? MIN64) eqn:F; [unfold MIN64 in *; lia|]. f_equal. lia.
  - destruct (n =? MIN64) eqn:F.
    + apply ck_out. unfold MIN64, MAX64 in *. lia.
    + rewrite ck_in by (unfold MIN64, MAX64 in *; lia). f_equal. lia.
Qed.

Lemma sign_m_spec : forall v, sign_m v = if v <? 0 then -1 else 1.
Proof. reflexivity. Qed.

Lemma cdiv_exact : forall p g k, g <> 0 -> p = g * k -> MIN64 <= k <= MAX64 -> cdiv p g = Some k.
Proof.
  intros p g k Hg -> Hk; unfold cdiv.
  destruct (g =? 0) eqn:E; [lia|].
  rewrite Z.mul_comm, Z.quot_mul by assumption. apply ck_in; assumption.
Qed.

Lemma abs_representable_iff : forall x, abs_representable x = true <-> Z.abs x <= MAX64.
Proof. intros x; unfold abs_representable, INTMAX_MAX, MAX64. lia. Qed.

(* [ratio.ratio] for every pair of intmax_t template arguments *)
Theorem ratio_m_spec : forall n d, in64 n -> in64 d -> ratio_m n d = ratio_spec n d.
Proof.
  intros n d Hn Hd; unfold ratio_m, ratio_spec.
  destruct (d =? 0) eqn:Ed; [reflexivity|]. cbn [orb].
  pose proof (proj1 (in64_iff n) Hn) as Rn. pose proof (proj1 (in64_iff d) Hd) as Rd.
  rewrite gcd_m_spec by assumption. cbn [obind].
  assert (Hs : ck (sign_m n * sign_m d) = Some (sign_m n * sign_m d)).
  { apply ck_in. rewrite !sign_m_spec. unfold MIN64, MAX64. destruct (n <? 0), (d <? 0); lia. }
  rewrite Hs. cbn [obind]. rewrite abs_m_spec by assumption.
  destruct (n =? MIN64) eqn:En.
  { (* |N| not representable *)
    cbn [obind]. replace (abs_representable n) with false; [reflexivity|].
    symmetry. destruct (abs_representable n) eqn:A; [|reflexivity].
    apply abs_representable_iff in A. unfold MIN64, MAX64 in *. lia. }
  cbn [obind].
  assert (An : abs_representable n = true) by (apply abs_representable_iff; unfold MIN64, MAX64 in *; lia).
  rewrite An. cbn [negb orb].
  assert (Hp : sign_m n * sign_m d * Z.abs n = Z.sgn d * n).
  { rewrite !sign_m_spec. destruct (n <? 0) eqn:E1, (d <? 0) eqn:E2; lia. }
  rewrite Hp. rewrite ck_in by (unfold MIN64, MAX64 in *; lia). cbn [obind].
  rewrite (abs_m_spec d) by assumption.
  destruct (d =? MIN64) eqn:Edm.
  { (* |D| not representable *)
    replace (abs_representable d) with false.
    2:{ symmetry. destruct (abs_representable d) eqn:A; [|reflexivity].
        apply abs_representable_iff in A. unfold MIN64, MAX64 in *. lia. }
    cbn [negb]. destruct (cdiv _ _); reflexivity. }
  assert (Ad : abs_representable d = true) by (apply abs_representable_iff; unfold MIN64, MAX64 in *; lia).
  rewrite Ad. cbn [negb].
  (* the main case *)
  destruct (gcd_m_pos n d Hn Hd ltac:(lia) ltac:(change (2 ^ 63) with 9223372036854775808; unfold MIN64, MAX64 in *; lia))
    as (_ & Gpos & Gle).
  set (g := Z.gcd n d) in *.
  assert (Wg : wraps 64 g = g).
  { unfold wraps. change (2 ^ (64 - 1)) with 9223372036854775808. change (2 ^ 64) with 18446744073709551616.
    unfold MIN64, MAX64 in *. rewrite Z.mod_small by lia.
    destruct (g <? 9223372036854775808) eqn:E; lia. }
  rewrite Wg.
  destruct (Z.gcd_divide_l n d) as [kn Hkn]. fold g in Hkn.
  destruct (Z.gcd_divide_r n d) as [kd Hkd]. fold g in Hkd.
  assert (Hkn_b : Z.abs kn <= Z.abs n) by nia.
  rewrite (cdiv_exact (Z.sgn d * n) g (Z.sgn d * kn)); [|lia|nia|unfold MIN64, MAX64 in *; nia].
  cbn [obind].
  assert (Hkd_abs : Z.abs d = g * Z.abs kd) by nia.
  rewrite (cdiv_exact (Z.abs d) g (Z.abs kd)); [|lia|exact Hkd_abs|unfold MIN64, MAX64 in *; nia].
  cbn [obind]. unfold lowest_terms. fold g.
  f_equal. f_equal.
  - replace (Z.sgn d * n) with (Z.sgn d * kn * g) by nia. rewrite Z.div_mul by lia. reflexivity.
  - rewrite Hkd_abs. rewrite Z.mul_comm, Z.div_mul by lia. reflexivity.
Qed.

(** * the specification's normal form is the reduced fraction with a positive denominator *)
Lemma lowest_terms_normal : forall n d u v, d <> 0 -> lowest_terms n d = (u, v) ->
  0 < v /\ Z.gcd u v = 1 /\ u * d = n * v.
Proof.
  intros n d u v Hd H; unfold lowest_terms in H. injection H as <- <-.
  set (g := Z.gcd n d).
  assert (Gpos : 0 < g).
  { pose proof (Z.gcd_nonneg n d). assert (g <> 0) by (intros E; apply Z.gcd_eq_0_r in E; contradiction). lia. }
  destruct (Z.gcd_divide_l n d) as [kn Hkn]. fold g in Hkn.
  destruct (Z.gcd_divide_r n d) as [kd Hkd]. fold g in Hkd.
  assert (Hu : Z.sgn d * n / g = Z.sgn d * kn).
  { replace (Z.sgn d * n) with (Z.sgn d * kn * g) by nia. apply Z.div_mul; lia. }
  assert (Hv : Z.abs d / g = Z.abs kd).
  { replace (Z.abs d) with (Z.abs kd * g) by nia. apply Z.div_mul; lia. }
  rewrite Hu, Hv.
  assert (Hco : Z.gcd kn kd = 1).
  { pose proof (Z.gcd_div_gcd n d g ltac:(lia) eq_refl) as C.
    replace (n / g) with kn in C by (rewrite Hkn at 1; symmetry; apply Z.div_mul; lia).
    replace (d / g) with kd in C by (rewrite Hkd at 1; symmetry; apply Z.div_mul; lia).
    exact C. }
  assert (kd <> 0) by nia.
  repeat split.
  - lia.
  - rewrite Z.gcd_abs_r.
    destruct (Z.sgn_spec d) as [(? & ->)|[(? & ->)|(? & ->)]]; try lia.
    + rewrite Z.mul_1_l. exact Hco.
    + replace (-1 * kn) with (- kn) by lia. rewrite Z.gcd_opp_l. exact Hco.
  - nia.
Qed.

(** * ratio_add / ratio_subtract: exact whenever well-formed *)
Lemma ratio_result_of_spec : forall s d r, ratio_spec s d = Some r -> ratio_result s d = Some r.
Proof.
  intros s d r H; unfold ratio_spec in H; unfold ratio_result.
  destruct (d =? 0) eqn:Ed; [discriminate|]. cbn [orb] in H.
  destruct (abs_representable s) eqn:As; [|discriminate].
  destruct (abs_representable d) eqn:Ad; [|discriminate].
  cbn in H. injection H as <-.
  destruct (lowest_terms s d) as [u v] eqn:L.
  assert (Hd : d <> 0) by lia.
  pose proof (lowest_terms_normal s d u v Hd L) as (Hv & Hg & He).
  apply abs_representable_iff in As. apply abs_representable_iff in Ad.
  (* |u| <= |s| and v <= |d| *)
  unfold lowest_terms in L. injection L as Lu Lv.
  set (g := Z.gcd s d) in *.
  assert (Gpos : 0 < g).
  { pose proof (Z.gcd_nonneg s d). assert (g <> 0) by (intros E; apply Z.gcd_eq_0_r in E; contradiction). lia. }
  destruct (Z.gcd_divide_l s d) as [ks Hks]. fold g in Hks.
  destruct (Z.gcd_divide_r s d) as [kd Hkd]. fold g in Hkd.
  assert (Hu : u = Z.sgn d * ks).
  { rewrite <- Lu. replace (Z.sgn d * s) with (Z.sgn d * ks * g) by nia. apply Z.div_mul; lia. }
  assert (Hv' : v = Z.abs kd).
  { rewrite <- Lv. replace (Z.abs d) with (Z.abs kd * g) by nia. apply Z.div_mul; lia. }
  assert (Au : abs_representable u = true) by (apply abs_representable_iff; unfold MAX64 in *; nia).
  assert (Av : abs_representable v = true) by (apply abs_representable_iff; unfold MAX64 in *; nia).
  rewrite Au, Av. reflexivity.
Qed.

Theorem ratio_add_m_sound : forall n1 d1 n2 d2 r,
  ratio_add_m n1 d1 n2 d2 = Some r -> ratio_add_spec n1 d1 n2 d2 = Some r.
Proof.
  intros n1 d1 n2 d2 r H; unfold ratio_add_m in H; unfold ratio_add_spec.
  destruct (ck (n1 * d2)) as [a|] eqn:Ea; [|discriminate]. cbn [obind] in H.
  destruct (ck (n2 * d1)) as [b|] eqn:Eb; [|discriminate]. cbn [obind] in H.
  destruct (ck (a + b)) as [s|] eqn:Es; [|discriminate]. cbn [obind] in H.
  destruct (ck (d1 * d2)) as [d|] eqn:Ed; [|discriminate]. cbn [obind] in H.
  apply ck_some in Ea, Eb, Es, Ed. destruct Ea as [-> _], Eb as [-> _], Es as [-> Rs], Ed as [-> Rd].
  rewrite ratio_m_spec in H by (apply in64_iff; assumption).
  apply ratio_result_of_spec; exact H.
Qed.

Theorem ratio_subtract_m_sound : forall n1 d1 n2 d2 r,
  ratio_subtract_m n1 d1 n2 d2 = Some r -> ratio_subtract_spec n1 d1 n2 d2 = Some r.
Proof.
  intros n1 d1 n2 d2 r H; unfold ratio_subtract_m in H; unfold ratio_subtract_spec.
  destruct (ck (n1 * d2)) as [a|] eqn:Ea; [|discriminate]. cbn [obind] in H.
  destruct (ck (n2 * d1)) as [b|] eqn:Eb; [|discriminate]. cbn [obind] in H.
  destruct (ck (a - b)) as [s|] eqn:Es; [|discriminate]. cbn [obind] in H.
  destruct (ck (d1 * d2)) as [d|] eqn:Ed; [|discriminate]. cbn [obind] in H.
  apply ck_some in Ea, Eb, Es, Ed. destruct Ea as [-> _], Eb as [-> _], Es as [-> Rs], Ed as [-> Rd].
  rewrite ratio_m_spec in H by (apply in64_iff; assumption).
  apply ratio_result_of_spec; exact H.
Qed.

(* completeness fails: the intermediates overflow although the sum is representable *)
Theorem ratio_add_refuted : exists n1 d1 n2 d2,
  ratio_m n1 d1 = Some (n1, d1) /\ ratio_m n2 d2 = Some (n2, d2)
  /\ ratio_add_m n1 d1 n2 d2 = None /\ ratio_add_spec n1 d1 n2 d2 <> None
  /\ ratio_subtract_m n1 d1 n2 d2 = None /\ ratio_subtract_spec n1 d1 n2 d2 <> None.
Proof.
  exists 1, 2, 1, 4611686018427387904. vm_compute. repeat split; discriminate.
Qed.

(* no overflow of the four intermediates = the documented region where add/subtract are complete *)
Theorem ratio_add_m_complete : forall n1 d1 n2 d2,
  in64 (n1 * d2) -> in64 (n2 * d1) -> in64 (n1 * d2 + n2 * d1) -> in64 (d1 * d2) ->
  MIN64 < n1 * d2 + n2 * d1 -> MIN64 < d1 * d2 ->
  ratio_add_m n1 d1 n2 d2 = ratio_add_spec n1 d1 n2 d2.
Proof.
  intros n1 d1 n2 d2 H1 H2 H3 H4 H5 H6; unfold ratio_add_m, ratio_add_spec.
  rewrite !ck_in by (apply in64_iff; assumption). cbn [obind].
  rewrite !ck_in by (apply in64_iff; assumption). cbn [obind].
  rewrite ratio_m_spec by assumption.
  apply in64_iff in H3, H4.
  destruct (d1 * d2 =? 0) eqn:E.
  { unfold ratio_spec, ratio_result. rewrite E. reflexivity. }
  assert (A1 : abs_representable (n1 * d2 + n2 * d1) = true)
    by (apply abs_representable_iff; unfold MIN64, MAX64 in *; lia).
  assert (A2 : abs_representable (d1 * d2) = true)
    by (apply abs_representable_iff; unfold MIN64, MAX64 in *; lia).
  assert (S : ratio_spec (n1 * d2 + n2 * d1) (d1 * d2)
              = Some (lowest_terms (n1 * d2 + n2 * d1) (d1 * d2)))
    by (unfold ratio_spec; rewrite E, A1, A2; reflexivity).
  rewrite S. symmetry. apply ratio_result_of_spec. exact S.
Qed.
