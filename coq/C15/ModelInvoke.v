(* C15 model + specification, part 7 (fix-miss round 5): INVOKE as include/etl/_type_traits/invoke_result.hpp
   spells it (detail::INVOKE, detail::invoke_impl, behind invoke_result / is_invocable /
   is_invocable_r and the concepts invocable / regular_invocable / predicate / relation) against
   the case analysis of [func.require].

   The library decides WHICH expression is the INVOKE expression; whether that expression is
   well-formed and what its type is, is overload resolution / member access of the language and is
   asked of the compiler.  The model therefore computes a QUESTION ([invq]); the obligations of the
   compile-time stage print the question as a C++ requires-expression and compare
   etl::invoke_result / is_invocable / is_invocable_r with the compiler's answer to it (leg corr),
   std::... with the answer to the specification's question (leg specval).

   What the library decides:
     - detail::INVOKE selects invoke_impl<Fd> with Fd = decay_t<F>: the partial specialisation
       invoke_impl<MT B::*> when Fd is a pointer to member, the primary template otherwise.  The
       top-level cv-qualification and the reference kind of F must not matter for this choice:
       `int S::* const`, `long (S::* const&)() const`, the decltype of `const auto pm = &S::f;` are
       pointers to members ([func.require]: "f is a pointer to member ...", said of the callable
       OBJECT, whatever the qualification of the expression naming it);
     - invoke_impl<MT B::*>::get: three overloads constrained on Td = decay_t<T> of the first
       argument: (is_same_v<B, Td> or is_base_of_v<B, Td>) -> the object itself; is_reference_wrapper<Td>
       -> t.get(); neither -> *t.  (is_same: a union is not a base of itself; repaired in 0b77628.)
       An argument satisfying BOTH constraints makes the call ambiguous (no ::type);
     - invoke_impl<MT B::*>::call: pointer to member FUNCTION (is_function_v<MT>) with any number
       of further arguments, pointer to DATA member with none. *)
From Coq Require Import NArith.
From Tetl Require Import Lib.Base C15.Types C15.Model C15.Spec.
Local Open Scope Z_scope.

(* how the first argument t1 becomes the object expression *)
Inductive objform := ODirect | ORefWrap | ODeref.

(* the INVOKE expression; F, T1, Args are the template arguments as given (value category of
   declval<T>()), pm is the UNQUALIFIED pointer-to-member type (a by-value function parameter) *)
Inductive invq :=
| IQNone                                                       (* no candidate: no member type, without asking *)
| IQCall (f : cty) (args : list cty)                           (* declval<F>()(declval<Args>()...) *)
| IQMemFn (pm : cty) (o : objform) (t1 : cty) (args : list cty)  (* (obj.*pm)(declval<Args>()...) *)
| IQMemData (pm : cty) (o : objform) (t1 : cty).               (* obj.*pm *)

Definition objform_eqb (a b : objform) : bool :=
  match a, b with ODirect, ODirect | ORefWrap, ORefWrap | ODeref, ODeref => true | _, _ => false end.

Section Invoke.
  (* is_base_of_v<B, T> (intrinsic __is_base_of; B the class of the member pointer) and
     is_reference_wrapper<T>::value (a partial specialisation on etl::reference_wrapper<U>; class
     templates are outside the universe [cty], so the recogniser is a parameter) *)
  Variable base_of : clsdesc -> cty -> bool.
  Variable refwrap : cty -> bool.

  (** ** etl *)
  Definition get_m (b : clsdesc) (t1 : cty) : option objform :=
    let td := decay_m t1 in
    let direct := is_same_m (Class b) td || base_of b td in
    let rw := refwrap td in
    if direct && rw then None                    (* two viable overloads of get, unrelated constraints *)
    else if direct then Some ODirect
    else if rw then Some ORefWrap
    else Some ODeref.

  (* invoke_impl<MT B::*>::call(...) with pm = MT B::* *)
  Definition call_mem_m (b : clsdesc) (u : cty) (args : list cty) : invq :=
    match args with
    | [] => IQNone
    | t1 :: rest =>
        match get_m b t1 with
        | None => IQNone
        | Some o =>
            if is_function_m u then IQMemFn (MemPtr b u) o t1 rest
            else match rest with [] => IQMemData (MemPtr b u) o t1 | _ :: _ => IQNone end
        end
    end.

  (* detail::INVOKE<F, Args...> with the selector type Fd already computed *)
  Definition invoke_sel_m (fd f : cty) (args : list cty) : invq :=
    match fd with
    | MemPtr b u => call_mem_m b u args              (* invoke_impl<MT B::*> *)
    | _ => IQCall f args                             (* primary template *)
    end.
  Definition invoke_m (f : cty) (args : list cty) : invq := invoke_sel_m (decay_m f) f args.

  (** ** [func.require] / [meta.trans.other] invoke_result *)
  Definition std_objform (b : clsdesc) (t1 : cty) : objform :=
    let tv := std_remove_cvref t1 in
    if cty_eqb (Class b) tv || base_of b tv then ODirect
    else if refwrap tv then ORefWrap else ODeref.
  Definition std_invoke_q (f : cty) (args : list cty) : invq :=
    match std_remove_cvref f with
    | MemPtr b u =>
        match args with
        | [] => IQNone
        | t1 :: rest =>
            if std_is_function u then IQMemFn (MemPtr b u) (std_objform b t1) t1 rest
            else match rest with [] => IQMemData (MemPtr b u) (std_objform b t1) t1 | _ :: _ => IQNone end
        end
    | _ => IQCall f args
    end.

  (** ** the traits on top of the question *)
  Section Answer.
    Variable ask : invq -> option cty.     (* the compiler: type of the expression, None = ill-formed *)
    Variable conv : cty -> cty -> bool.    (* implicit conversion of a result to R (use_t<R>(get_t())) *)
    Definition answer (q : invq) : option cty := match q with IQNone => None | _ => ask q end.
    Definition invoke_result_m (f : cty) (args : list cty) : option cty := answer (invoke_m f args).
    Definition is_invocable_m (f : cty) (args : list cty) : bool := isSome (invoke_result_m f args).
    (* is_invocable_impl<Result, Ret>: no Result::type -> false; is_void_v<Ret> -> true; else convertible *)
    Definition is_invocable_r_m (r f : cty) (args : list cty) : bool :=
      match invoke_result_m f args with
      | None => false
      | Some t => if is_void_m r then true else conv t r
      end.
    Definition std_invoke_result (f : cty) (args : list cty) : option cty := answer (std_invoke_q f args).
    Definition std_is_invocable (f : cty) (args : list cty) : bool := isSome (std_invoke_result f args).
    Definition std_is_invocable_r (r f : cty) (args : list cty) : bool :=
      match std_invoke_result f args with
      | None => false
      | Some t => std_is_void r || conv t r
      end.
  End Answer.
End Invoke.

(* which case of [func.require] a question belongs to *)
Inductive invkind := KNone | KCall | KMemFn | KMemData.
Definition kind_of (q : invq) : invkind :=
  match q with IQNone => KNone | IQCall _ _ => KCall | IQMemFn _ _ _ _ => KMemFn | IQMemData _ _ _ => KMemData end.
(* is the callable a pointer to member (after removing reference and cv) *)
Definition callable_is_memptr (f : cty) : bool :=
  match std_remove_cvref f with MemPtr _ _ => true | _ => false end.
(* requalify the callable of a plain call: the only place where the qualification of F shows *)
Definition recall (g : cty) (q : invq) : invq :=
  match q with IQCall _ a => IQCall g a | _ => q end.
