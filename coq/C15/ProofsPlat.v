(* C15 proofs, part 9: the platform-parametric model (ModelPlat.v) agrees with the specification
   for BOTH signednesses of plain char, and is the fixed-platform model of Model.v / ModelNum.v when
   plain char is signed (so every earlier theorem is the `x86_64_default` instance). *)
From Coq Require Import NArith Nnat.
From Tetl Require Import Lib.Base C15.Types C15.Model C15.ModelNum C15.Spec C15.SpecNum
  C15.ProofsTypes C15.ProofsCv C15.ProofsCat C15.ProofsLimits C15.ModelPlat.
Local Open Scope Z_scope.

(** * conservative extension: signed plain char = the fixed-platform model *)
Lemma conv_lit_p_default : forall a x, conv_lit_p x86_64_default a x = conv_lit a x.
Proof. intros a x; destruct a; reflexivity. Qed.
Lemma is_signed_mp_default : forall k t, is_signed_mp x86_64_default k t = is_signed_m k t.
Proof.
  intros k t; unfold is_signed_mp, is_signed_m.
  destruct (is_arithmetic_m k (remove_cv_m t)); [|reflexivity].
  destruct (remove_cv_m t); try reflexivity. now rewrite !conv_lit_p_default.
Qed.
Lemma is_unsigned_mp_default : forall k t, is_unsigned_mp x86_64_default k t = is_unsigned_m k t.
Proof.
  intros k t; unfold is_unsigned_mp, is_unsigned_m.
  destruct (is_arithmetic_m k (remove_cv_m t)); [|reflexivity].
  destruct (remove_cv_m t); try reflexivity. now rewrite !conv_lit_p_default.
Qed.
Lemma limits_mp_default : forall a m, limits_mp x86_64_default a m = limits_m a m.
Proof. intros a m; destruct a; try reflexivity; destruct m; reflexivity. Qed.
Lemma std_is_signed_p_default : forall t, std_is_signed_p x86_64_default t = std_is_signed t.
Proof.
  intros t; unfold std_is_signed_p, std_is_signed.
  destruct (unqual true true t) eqn:E; try reflexivity.
  destruct a; reflexivity.
Qed.
Lemma std_is_unsigned_p_default : forall t, std_is_unsigned_p x86_64_default t = std_is_unsigned t.
Proof.
  intros t; unfold std_is_unsigned_p, std_is_unsigned.
  destruct (unqual true true t) eqn:E; try reflexivity.
  destruct a; reflexivity.
Qed.

(** * is_signed / is_unsigned on every well-formed type, for every platform *)
Lemma is_signed_mp_spec : forall p k t, wf t = true -> is_signed_mp p k t = std_is_signed_p p t.
Proof.
  intros [[|]] k t Hwf.
  - change {| char_signed := true |} with x86_64_default.
    rewrite is_signed_mp_default, std_is_signed_p_default. now apply is_signed_m_spec.
  - destruct k;
      unfold is_signed_mp, is_arithmetic_m, is_integral_m, is_floating_point_m, contains_m, std_is_signed_p;
      shapes t Hwf; try reflexivity; try (da; reflexivity);
      try (arr_norm; cbn [unqual]; match goal with |- (if ?b then _ else _) = _ => destruct b end; reflexivity).
Qed.
Lemma is_unsigned_mp_spec : forall p k t, wf t = true -> is_unsigned_mp p k t = std_is_unsigned_p p t.
Proof.
  intros [[|]] k t Hwf.
  - change {| char_signed := true |} with x86_64_default.
    rewrite is_unsigned_mp_default, std_is_unsigned_p_default. now apply is_unsigned_m_spec.
  - destruct k;
      unfold is_unsigned_mp, is_arithmetic_m, is_integral_m, is_floating_point_m, contains_m, std_is_unsigned_p;
      shapes t Hwf; try reflexivity; try (da; reflexivity);
      try (arr_norm; cbn [unqual]; match goal with |- (if ?b then _ else _) = _ => destruct b end; reflexivity).
Qed.

(* exactly one of signed / unsigned for every arithmetic type (cv-qualified or not), on every platform *)
Lemma std_signed_unsigned_p : forall p a c v,
  std_is_unsigned_p p (qual c v (Arith a)) = negb (std_is_signed_p p (qual c v (Arith a))).
Proof. intros [[|]] a [|] [|]; destruct a; reflexivity. Qed.

(* the only type whose answer moves with the platform is (cv) plain char *)
Lemma is_signed_mp_only_char : forall p k t, wf t = true ->
  unqual true true t <> Arith AChar -> is_signed_mp p k t = is_signed_m k t.
Proof.
  intros p k t Hwf Hn. rewrite is_signed_mp_spec, is_signed_m_spec by assumption.
  unfold std_is_signed_p, std_is_signed. destruct (unqual true true t) eqn:E; try reflexivity.
  destruct a; try reflexivity. now contradiction Hn.
Qed.
Lemma is_signed_mp_char : forall p k c v,
  is_signed_mp p k (qual c v (Arith AChar)) = char_signed p
  /\ is_unsigned_mp p k (qual c v (Arith AChar)) = negb (char_signed p).
Proof. intros [[|]] [|] [|] [|]; split; reflexivity. Qed.

(** * numeric_limits for every platform: the char row once more, kernel-evaluated *)
Definition limits_row_ok_p (p : platform) (a : arith) : bool :=
  forallb (fun m => match limits_spec_p p a m with
                    | Some v => lval_eqb (limits_mp p a m) v
                    | None => true
                    end) all_lmem.
Lemma limits_sweep_p : forallb (limits_row_ok_p unsigned_char_abi) all_arith = true.
Proof. vm_cast_no_check (eq_refl true). Qed.

Theorem limits_mp_spec : forall p a m v, limits_spec_p p a m = Some v -> limits_mp p a m = v.
Proof.
  intros [[|]] a m v H.
  - change {| char_signed := true |} with x86_64_default in *.
    rewrite limits_mp_default. apply limits_m_spec.
    (* (plain char against `signed char`: the same representation parameters) *)
    unfold limits_spec_p in H. destruct a; exact H.
  - change {| char_signed := false |} with unsigned_char_abi in *.
    pose proof limits_sweep_p as S. rewrite forallb_forall in S.
    specialize (S a (all_arith_complete a)). unfold limits_row_ok_p in S.
    rewrite forallb_forall in S. specialize (S m (all_lmem_complete m)).
    rewrite H in S. apply lval_eqb_eq; exact S.
Qed.

(* the relations between the members that hold on every platform ([numeric.limits.members]:
   lowest() is the least finite value: no value is below it, in particular not min()) *)
Lemma char_limits_order : forall p,
  exists lo mn mx, limits_mp p AChar Llowest = LI lo /\ limits_mp p AChar Lmin = LI mn
                   /\ limits_mp p AChar Lmax = LI mx /\ lo = mn /\ mn <= 0 /\ 0 < mx
                   /\ mx - mn = 255
                   /\ limits_mp p AChar Lis_signed = LB (mn <? 0)
                   /\ limits_mp p AChar Lis_modulo = LB (0 <=? mn).
Proof.
  intros [[|]]; cbn.
  - exists (-128), (-128), 127. repeat split; try reflexivity; lia.
  - exists 0, 0, 255. repeat split; try reflexivity; lia.
Qed.
