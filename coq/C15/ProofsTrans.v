(* C15 proofs, part 4: the type transformations ([meta.trans.*]) as etl computes them — partial
   specialisations, SFINAE on "can T& / T&& / T* be formed", the make_signed tables with the
   size-indexed fallback, common_type through the conditional operator — agree with the standard's
   definitions on EVERY well-formed type. *)
From Coq Require Import NArith ZifyBool.
From Tetl Require Import Lib.Base C15.Types C15.Model C15.Spec C15.ProofsTypes C15.ProofsCv C15.ProofsCat.
Local Open Scope Z_scope.

(** * references *)
Lemma remove_reference_m_spec : forall t, remove_reference_m t = std_remove_reference t.
Proof. intros t; destruct t; reflexivity. Qed.

Lemma wf_remove_reference : forall t, wf t = true -> wf (std_remove_reference t) = true.
Proof.
  intros t Hwf; destruct t; try exact Hwf.
  - exact (proj1 (wf_LRef _ Hwf)).
  - exact (proj1 (wf_RRef _ Hwf)).
Qed.

Lemma add_lvalue_reference_m_spec : forall t, wf t = true ->
  add_lvalue_reference_m t = std_add_lvalue_reference t.
Proof.
  intros t Hwf; unfold add_lvalue_reference_m, std_add_lvalue_reference.
  shapes t Hwf; try reflexivity; try (da; reflexivity);
    try (destruct c, v, q; reflexivity); try (destruct p; reflexivity).
Qed.

Lemma add_rvalue_reference_m_spec : forall t, wf t = true ->
  add_rvalue_reference_m t = std_add_rvalue_reference t.
Proof.
  intros t Hwf; unfold add_rvalue_reference_m, std_add_rvalue_reference.
  shapes t Hwf; try reflexivity; try (da; reflexivity);
    try (destruct c, v, q; reflexivity); try (destruct p; reflexivity).
Qed.

(** * pointers *)
Lemma remove_pointer_m_spec : forall t, wf t = true -> remove_pointer_m t = std_remove_pointer t.
Proof.
  intros t Hwf; unfold remove_pointer_m, std_remove_pointer.
  shapes t Hwf; reflexivity.
Qed.

Lemma add_pointer_m_spec : forall t, wf t = true -> add_pointer_m t = std_add_pointer t.
Proof.
  intros t Hwf; unfold add_pointer_m, std_add_pointer.
  shapes t Hwf; try reflexivity; try (da; reflexivity);
    try (destruct c, v, q; reflexivity); try (destruct p; reflexivity).
  - (* T& : pointer to the referenced type *)
    pose proof (wf_LRef _ Hwf) as (_ & Hr & _ & Hab).
    cbn [remove_reference_m m_lref std_remove_reference]. unfold form_ptr. rewrite Hab.
    destruct p; try discriminate; reflexivity.
  - pose proof (wf_RRef _ Hwf) as (_ & Hr & _ & Hab).
    cbn [remove_reference_m m_lref m_rref std_remove_reference]. unfold form_ptr. rewrite Hab.
    destruct p; try discriminate; reflexivity.
Qed.

(** * arrays *)
Lemma remove_extent_m_spec : forall t, remove_extent_m t = std_remove_extent t.
Proof. intros t; destruct t; try reflexivity; destruct n; reflexivity. Qed.

(** * decay / remove_cvref *)
Lemma remove_cvref_m_spec : forall t, wf t = true -> remove_cvref_m t = std_remove_cvref t.
Proof.
  intros t Hwf; unfold remove_cvref_m, std_remove_cvref.
  rewrite remove_reference_m_spec. apply remove_cv_m_spec. apply wf_remove_reference; assumption.
Qed.

Lemma decay_m_spec : forall t, wf t = true -> decay_m t = std_decay t.
Proof.
  intros t Hwf; unfold decay_m, std_decay. rewrite remove_reference_m_spec.
  pose proof (wf_remove_reference t Hwf) as Hu.
  set (u := std_remove_reference t) in *. clearbody u.
  rewrite is_function_m_fn by assumption.
  destruct u; try (cbn [is_array_m m_arr_unb m_arr_b isSome orb is_fn_ty];
                   apply remove_cv_m_spec; assumption).
  - (* array: pointer to the element *)
    pose proof (wf_Arr _ _ Hu) as (_ & Hr & _ & Hf & _).
    replace (is_array_m (Arr u n)) with true by (destruct n; reflexivity).
    rewrite remove_extent_m_spec. cbn [std_remove_extent].
    unfold add_pointer_m. rewrite remove_reference_m_spec.
    destruct u; try discriminate; reflexivity.
  - (* function: pointer to function unless it carries cv/ref qualifiers *)
    cbn [is_array_m m_arr_unb m_arr_b isSome orb is_fn_ty].
    unfold add_pointer_m. cbn [remove_reference_m m_lref m_rref form_ptr].
    destruct (abominable _); reflexivity.
Qed.

(** * make_signed / make_unsigned *)
Lemma make_signed_m_spec : forall k t, wf t = true -> make_signed_m k t = std_make_signed t.
Proof.
  intros k t Hwf; destruct k;
    unfold make_signed_m, make_sign_m, std_make_signed, std_make_sign, is_integral_m, contains_m,
      std_is_const, std_is_volatile;
    shapes t Hwf; try reflexivity; try (da; reflexivity);
    try (cbn in Hwf; match goal with x : arith |- _ => destruct x end; try discriminate; reflexivity);
    try (arr_norm; cbn [unqual cv_of]; destruct (cv_of _); reflexivity).
Qed.

Lemma make_unsigned_m_spec : forall k t, wf t = true -> make_unsigned_m k t = std_make_unsigned t.
Proof.
  intros k t Hwf; destruct k;
    unfold make_unsigned_m, make_sign_m, std_make_unsigned, std_make_sign, is_integral_m, contains_m,
      std_is_const, std_is_volatile;
    shapes t Hwf; try reflexivity; try (da; reflexivity);
    try (cbn in Hwf; match goal with x : arith |- _ => destruct x end; try discriminate; reflexivity);
    try (arr_norm; cbn [unqual cv_of]; destruct (cv_of _); reflexivity).
Qed.

(** * common_type *)
(* the usual arithmetic conversions computed from (size, signedness) of the promoted operands, as
   the compiler does, equal [expr.arith.conv] computed from conversion ranks and value ranges *)
Lemma uac_spec : forall a b, uac a b = std_uac a b.
Proof. intros a b; destruct a, b; vm_compute; reflexivity. Qed.

Lemma decay_m_noop : forall d,
  match d with Void | Nullptr | Arith _ | Enum _ _ _ | Ptr _ | MemPtr _ _ => True | _ => False end ->
  decay_m d = d.
Proof. intros d H; destruct d; try contradiction; reflexivity. Qed.

(* both clauses of the dispatch compute common_type_2_impl on the decayed types *)
Lemma common_type_m_unfold : forall t1 t2,
  common_type_m t1 t2 = common_type_2_impl_m (decay_m t1) (decay_m t2).
Proof.
  intros t1 t2; unfold common_type_m, is_same_m.
  destruct (cty_eqb t1 (decay_m t1)) eqn:E1; [|reflexivity].
  destruct (cty_eqb t2 (decay_m t2)) eqn:E2; [|reflexivity].
  apply cty_eqb_true in E1, E2. cbn [andb]. rewrite <- E1, <- E2. reflexivity.
Qed.

Lemma common_type_m_spec : forall t1 t2, wf t1 = true -> wf t2 = true ->
  common_type_m t1 t2 = std_common_type t1 t2.
Proof.
  intros t1 t2 H1 H2; rewrite common_type_m_unfold; unfold common_type_2_impl_m, std_common_type.
  rewrite !decay_m_spec by assumption.
  set (d1 := std_decay t1); set (d2 := std_decay t2); clearbody d1 d2.
  unfold cond_type.
  destruct (cty_eqb d1 d2) eqn:E.
  - apply cty_eqb_true in E; subst d2.
    destruct d1; try reflexivity.
    cbn [decay_m]. replace (arith_eqb a a) with true by (destruct a; reflexivity). reflexivity.
  - destruct d1; try reflexivity; destruct d2; try reflexivity.
    replace (arith_eqb a a0) with false
      by (symmetry; destruct (arith_eqb a a0) eqn:F; [|reflexivity];
          apply arith_eqb_eq in F; subst; rewrite cty_eqb_refl in E; discriminate).
    rewrite uac_spec. reflexivity.
Qed.

(** * smallest_size_t: holds N, and the next smaller unsigned type could not hold N + 1 *)
Lemma smallest_size_t_m_spec : forall n, 0 <= n < 2 ^ 64 ->
  holds (smallest_size_t_m n) n = true
  /\ (smallest_size_t_m n = AUShort -> holds AUChar (n + 1) = false)
  /\ (smallest_size_t_m n = AUInt -> holds AUShort (n + 1) = false)
  /\ (smallest_size_t_m n = AULong -> holds AUInt (n + 1) = false)
  /\ (smallest_size_t_m n = AULLong -> holds AULong (n + 1) = false).
Proof.
  intros n Hn; unfold smallest_size_t_m, holds.
  change (wrapu 8 (-1)) with 255; change (wrapu 16 (-1)) with 65535;
    change (wrapu 32 (-1)) with 4294967295; change (wrapu 64 (-1)) with 18446744073709551615.
  change (2 ^ 64) with 18446744073709551616 in Hn.
  assert (A1 : arith_max AUChar = 255) by reflexivity.
  assert (A2 : arith_max AUShort = 65535) by reflexivity.
  assert (A3 : arith_max AUInt = 4294967295) by reflexivity.
  assert (A4 : arith_max AULong = 18446744073709551615) by reflexivity.
  assert (A5 : arith_max AULLong = 18446744073709551615) by reflexivity.
  destruct (n <? 255) eqn:E1; [|destruct (n <? 65535) eqn:E2; [|destruct (n <? 4294967295) eqn:E3;
    [|destruct (n <? 18446744073709551615) eqn:E4]]];
    rewrite ?A1, ?A2, ?A3, ?A4, ?A5; repeat split; try discriminate; intros; lia.
Qed.
