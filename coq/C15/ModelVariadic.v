(* C15 model + specification, part 6: the VARIADIC helpers of include/etl/_type_traits — the
   templates that fold over a parameter pack.  Their answers must not depend on the ORDER of the
   pack (maximum) or must depend on it in exactly the way the standard says (first false / first
   true operand, left fold):

     - detail::vmax (aligned_union.hpp): maximum of a non-empty pack of values, used for
       aligned_union<Len, Types...>::alignment_value = vmax(alignof(Types)...) and the array bound
       of aligned_union<Len, Types...>::type = vmax(Len, sizeof(Types)...);
     - conjunction / disjunction (first operand that decides, else the last; the empty pack);
     - common_type<T1, T2, R...> (left fold through common_type<T1, T2>).

   sizeof / alignof are platform facts (x86-64 System V): a table for the scalar types and arrays of
   them, validated against the compilers on every run (obligations `layout table`); class types are
   outside the table (their layout is the ABI's; aligned_union over classes is compared with std
   only). *)
From Coq Require Import NArith.
From Tetl Require Import Lib.Base C15.Types C15.Model C15.Spec.
Local Open Scope Z_scope.

(** * detail::vmax *)
(* vmax(val) = val;  vmax(val1, val2, vs...) = (val1 > val2) ? vmax(val1, vs...) : vmax(val2, vs...)
   (all arguments are size_t in the two uses: no conversion between the Ti) *)
Fixpoint vmax_m (v : Z) (vs : list Z) : Z :=
  match vs with
  | [] => v
  | v2 :: r => if v >? v2 then vmax_m v r else vmax_m v2 r
  end.

(** * sizeof / alignof on the platform *)
Definition asize (a : arith) : Z := abits a / 8.
(* every fundamental type is aligned to its size (long double: 16 bytes, 16-byte aligned) *)
Definition aalign (a : arith) : Z := asize a.
Fixpoint sizeof_t (t : cty) : option Z :=
  match t with
  | Arith a => Some (asize a)
  | Enum _ u _ => Some (asize u)
  | Nullptr | Ptr _ => Some 8
  | MemPtr _ u => Some (if is_fn_ty u then 16 else 8)      (* Itanium ABI: { ptr, adj } / offset *)
  | Arr e (Some n) => match sizeof_t e with Some s => Some (s * Z.of_N n) | None => None end
  | Cv _ _ u => sizeof_t u
  | _ => None
  end.
Fixpoint alignof_t (t : cty) : option Z :=
  match t with
  | Arith a => Some (aalign a)
  | Enum _ u _ => Some (aalign u)
  | Nullptr | Ptr _ | MemPtr _ _ => Some 8
  | Arr e (Some _) => alignof_t e
  | Cv _ _ u => alignof_t u
  | _ => None
  end.

Fixpoint opt_list {A : Type} (l : list (option A)) : option (list A) :=
  match l with
  | [] => Some []
  | Some x :: r => match opt_list r with Some xs => Some (x :: xs) | None => None end
  | None :: _ => None
  end.

(* sizeof of `struct type { alignas(A) char storage[N]; }`: N rounded up to a multiple of A *)
Definition round_up (n a : Z) : Z := (n + a - 1) / a * a.

(* aligned_union<Len, Types...>: (alignment_value, bound of the storage array, sizeof(type));
   None: a type outside the layout table, or the empty pack (vmax() has no viable overload) *)
Definition aligned_union_m (len : Z) (tys : list cty) : option (Z * Z * Z) :=
  match opt_list (map alignof_t tys), opt_list (map sizeof_t tys) with
  | Some (a :: ar), Some ss =>
      let al := vmax_m a ar in
      let b := vmax_m len ss in
      Some (al, b, round_up b al)
  | _, _ => None
  end.

(* specification ([meta.trans.other], aligned_union): alignment_value is the strictest alignment of
   all Types; the member type is storage for any of the Types, its size at least Len; an object's size
   is a multiple of its alignment ([basic.align], [expr.sizeof]).  libstdc++ and etl both give the
   LEAST such size. *)
Definition list_max (v : Z) (vs : list Z) : Z := fold_right Z.max v vs.
Definition is_max (m : Z) (l : list Z) : Prop := In m l /\ forall x, In x l -> x <= m.
Definition aligned_union_spec (len : Z) (tys : list cty) : option (Z * Z) :=
  match opt_list (map alignof_t tys), opt_list (map sizeof_t tys) with
  | Some (a :: ar), Some ss =>
      let al := list_max a ar in
      Some (al, round_up (list_max len ss) al)
  | _, _ => None
  end.

(** * conjunction / disjunction *)
(* operands: bool(Bi::value).  Result: the index of the operand the instantiation derives from;
   None = the primary template (empty pack): true_type resp. false_type.
   conjunction<B1> : B1;  conjunction<B1, Bn...> : conditional_t<bool(B1::value), conjunction<Bn...>, B1> *)
Fixpoint conjunction_m (bs : list bool) : option nat :=
  match bs with
  | [] => None
  | b :: r => match r with
              | [] => Some O
              | _ => if b then match conjunction_m r with Some i => Some (S i) | None => None end
                     else Some O
              end
  end.
Fixpoint disjunction_m (bs : list bool) : option nat :=
  match bs with
  | [] => None
  | b :: r => match r with
              | [] => Some O
              | _ => if b then Some O
                     else match disjunction_m r with Some i => Some (S i) | None => None end
              end
  end.
(* [meta.logical]: "the first type Bi in the list for which bool(Bi::value) is false [true], or if
   every ... the last"; the empty pack is true_type [false_type] *)
Fixpoint first_index (want : bool) (bs : list bool) : option nat :=
  match bs with
  | [] => None
  | b :: r => if Bool.eqb b want then Some O
              else match first_index want r with Some i => Some (S i) | None => None end
  end.
Definition logical_spec (decides : bool) (bs : list bool) : option nat :=
  match bs with
  | [] => None
  | _ => match first_index decides bs with Some i => Some i | None => Some (length bs - 1)%nat end
  end.
Definition conjunction_spec := logical_spec false.
Definition disjunction_spec := logical_spec true.
(* ::value of the result *)
Definition conjunction_value_m (bs : list bool) : bool :=
  match conjunction_m bs with Some i => nth i bs true | None => true end.
Definition disjunction_value_m (bs : list bool) : bool :=
  match disjunction_m bs with Some i => nth i bs false | None => false end.

(** * common_type<T...> *)
(* common_type<> has no member; common_type<T> : common_type<T, T>;
   common_type<T1, T2, R...>: when common_type<T1, T2>::type = C exists, common_type<C, R...> *)
Fixpoint common_type_from_m (t1 : cty) (r : list cty) : option cty :=
  match r with
  | [] => common_type_m t1 t1
  | t2 :: r' => match r' with
                | [] => common_type_m t1 t2
                | _ => match common_type_m t1 t2 with
                       | Some c => common_type_from_m c r'
                       | None => None
                       end
                end
  end.
Definition common_type_n_m (l : list cty) : option cty :=
  match l with [] => None | t1 :: r => common_type_from_m t1 r end.
(* [meta.trans.other]/3.1 - 3.4 *)
Fixpoint std_common_type_from (t1 : cty) (r : list cty) : option cty :=
  match r with
  | [] => std_common_type t1 t1
  | t2 :: r' => match r' with
                | [] => std_common_type t1 t2
                | _ => match std_common_type t1 t2 with
                       | Some c => std_common_type_from c r'
                       | None => None
                       end
                end
  end.
Definition std_common_type_n (l : list cty) : option cty :=
  match l with [] => None | t1 :: r => std_common_type_from t1 r end.
