(* C15 — (a) the variadic helpers of <type_traits> (detail::vmax behind aligned_union, conjunction /
   disjunction, n-ary common_type) and (b) the platform as a parameter: every answer of the anchored
   code that depends on the signedness of plain char, for BOTH signednesses.  Property theorems only.

   Vocabulary
     vmax_m v vs            detail::vmax(v, vs...) of aligned_union.hpp (a non-empty pack of size_t values)
     aligned_union_m len tys  Some (alignment_value, storage array bound, sizeof(type)) of
                            etl::aligned_union<len, tys...>; None = a type outside the layout table
                            (classes, incomplete types) or the empty pack
     sizeof_t / alignof_t   x86-64 System V layout of scalar types and arrays of them
     conjunction_m bs       index of the operand etl::conjunction<B...> derives from (None: true_type)
     common_type_n_m l      member type of etl::common_type<l...>, None = no member
     platform               {| char_signed |}: x86_64_default (signed), unsigned_char_abi (-funsigned-char,
                            ARM / PowerPC ABIs)
     *_mp p                 the model with the platform as an argument (ModelPlat.v)
     *_p p                  the specification: plain char behaves as signed char or as unsigned char
                            ([basic.fundamental]/7) *)
From Coq Require Import ZArith Permutation.
From Tetl Require Import Lib.Base C15.Types C15.Model C15.ModelNum C15.Spec C15.SpecNum
  C15.ModelVariadic C15.ProofsVariadic C15.ModelPlat C15.ProofsPlat.
Local Open Scope Z_scope.

(* detail::vmax returns the maximum of its pack — an element of the pack that no element exceeds — for
   EVERY non-empty pack (any length, duplicates, the peak at the front, in the middle or at the end),
   equals the right fold of max, and is invariant under every permutation of the pack *)
Theorem C15_vmax : forall v vs,
  is_max (vmax_m v vs) (v :: vs)
  /\ vmax_m v vs = fold_right Z.max v vs
  /\ forall w ws, Permutation (v :: vs) (w :: ws) -> vmax_m w ws = vmax_m v vs.
Proof.
  intros v vs. split; [apply vmax_m_is_max|]. split; [apply vmax_m_list_max|].
  intros w ws P. symmetry. now apply vmax_m_perm.
Qed.
Print Assumptions C15_vmax.

(* aligned_union<Len, Types...> for every Len and every list of types of the layout table:
   alignment_value is the alignment of one of the Types and no Type is stricter; sizeof(type) is at least
   Len and at least every sizeof(Ti), a multiple of alignment_value, and the LEAST such number;
   the answer equals the specification's and does not depend on the order of the Types *)
Theorem C15_aligned_union : forall len tys al b sz,
  aligned_union_m len tys = Some (al, b, sz) ->
  aligned_union_spec len tys = Some (al, sz)
  /\ (exists t, In t tys /\ alignof_t t = Some al)
  /\ (forall t a, In t tys -> alignof_t t = Some a -> a <= al)
  /\ len <= sz /\ (forall t s, In t tys -> sizeof_t t = Some s -> s <= sz)
  /\ sz mod al = 0
  /\ (forall k, len <= k -> (forall t s, In t tys -> sizeof_t t = Some s -> s <= k) -> k mod al = 0 -> sz <= k).
Proof. exact aligned_union_m_spec. Qed.
Print Assumptions C15_aligned_union.

Theorem C15_aligned_union_order_independent : forall len tys tys',
  Permutation tys tys' -> aligned_union_m len tys = aligned_union_m len tys'.
Proof. exact aligned_union_m_perm. Qed.
Print Assumptions C15_aligned_union_order_independent.

(* [meta.logical]: conjunction derives from the first operand whose value is false, else from the last
   one (true_type for the empty pack); disjunction from the first true operand, else the last
   (false_type); ::value is the conjunction / disjunction of all operands; every list of operands *)
Theorem C15_logical_traits : forall bs,
  conjunction_m bs = conjunction_spec bs /\ disjunction_m bs = disjunction_spec bs
  /\ conjunction_value_m bs = forallb (fun b => b) bs
  /\ disjunction_value_m bs = existsb (fun b => b) bs.
Proof.
  intros bs. repeat split; [apply conjunction_m_spec | apply disjunction_m_spec
                            | apply conjunction_value_m_spec | apply disjunction_value_m_spec].
Qed.
Print Assumptions C15_logical_traits.

(* common_type<T...> for every list of well-formed types is [meta.trans.other]/3's left fold *)
Theorem C15_common_type_nary : forall l, forallb wf l = true ->
  common_type_n_m l = std_common_type_n l.
Proof. exact common_type_n_m_spec. Qed.
Print Assumptions C15_common_type_nary.

(* is_signed / is_unsigned (and the concepts signed_integral / unsigned_integral built on them with
   is_integral) for every well-formed type, both compiler configurations and BOTH signednesses of plain
   char; for signed plain char the parametric model is the model of C15_type_properties *)
Theorem C15_platform_sign_traits : forall p k t, wf t = true ->
  is_signed_mp p k t = std_is_signed_p p t /\ is_unsigned_mp p k t = std_is_unsigned_p p t
  /\ is_signed_mp x86_64_default k t = is_signed_m k t
  /\ is_unsigned_mp x86_64_default k t = is_unsigned_m k t
  /\ (unqual true true t <> Arith AChar -> is_signed_mp p k t = is_signed_m k t).
Proof.
  intros p k t H. repeat split.
  - now apply is_signed_mp_spec.
  - now apply is_unsigned_mp_spec.
  - apply is_signed_mp_default.
  - apply is_unsigned_mp_default.
  - now apply is_signed_mp_only_char.
Qed.
Print Assumptions C15_platform_sign_traits.

(* numeric_limits: every member of every arithmetic type for both signednesses of plain char (finite
   domain 2 x 19 x 32); plain char has the members of signed char resp. unsigned char; on every
   platform lowest() = min() <= 0 < max(), max() - min() = 255, is_signed = min() < 0,
   is_modulo = not is_signed *)
Theorem C15_platform_numeric_limits :
  (forall p a m v, limits_spec_p p a m = Some v -> limits_mp p a m = v)
  /\ (forall a m, limits_mp x86_64_default a m = limits_m a m)
  /\ forall p, exists lo mn mx,
       limits_mp p AChar Llowest = LI lo /\ limits_mp p AChar Lmin = LI mn
       /\ limits_mp p AChar Lmax = LI mx /\ lo = mn /\ mn <= 0 /\ 0 < mx /\ mx - mn = 255
       /\ limits_mp p AChar Lis_signed = LB (mn <? 0)
       /\ limits_mp p AChar Lis_modulo = LB (0 <=? mn).
Proof. exact (conj limits_mp_spec (conj limits_mp_default char_limits_order)). Qed.
Print Assumptions C15_platform_numeric_limits.

Example C15_var_nonvacuous :
  aligned_union_m 1 [Arith AInt; Arith AChar; Arith ADouble] = Some (8, 8, 8)
  /\ aligned_union_m 20 [Arr (Arith AChar) (Some 3%N); Arr (Arith AChar) (Some 40%N)] = Some (1, 40, 40)
  /\ aligned_union_m 6 [Arith AChar; Arith AShort; Arith ALDouble] = Some (16, 16, 16)
  /\ aligned_union_m 17 [Arith AShort; Arith ALDouble; Arith AChar] = Some (16, 17, 32)
  /\ conjunction_m [true; false; true; false] = Some 1%nat
  /\ disjunction_m [false; false; false] = Some 2%nat
  /\ common_type_n_m [Arith AChar; Arith AULong; Arith AFloat] = Some (Arith AFloat)
  /\ is_signed_mp unsigned_char_abi GCC12 (Cv true false (Arith AChar)) = false
  /\ is_signed_mp x86_64_default GCC12 (Cv true false (Arith AChar)) = true
  /\ limits_mp unsigned_char_abi AChar Llowest = LI 0
  /\ limits_mp unsigned_char_abi AChar Lmax = LI 255
  /\ limits_mp unsigned_char_abi AChar Ldigits10 = LI 2
  /\ limits_mp x86_64_default AChar Llowest = LI (-128).
Proof. repeat split. Qed.
