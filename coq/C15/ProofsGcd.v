(* C15 proofs, part 7: etl::gcd on intmax_t as ratio uses it (absolute values as uintmax_t, Euclid's
   loop with %, result cast back) is the mathematical gcd for every pair of 64-bit arguments, and
   the loop needs fewer iterations than the model's fuel. *)
From Coq Require Import ZifyBool Znumtheory.
From Tetl Require Import Lib.Base C15.Types C15.ModelNum C15.SpecNum.
Local Open Scope Z_scope.
Ltac Zify.zify_post_hook ::= Z.to_euclidean_division_equations.

Lemma wrapu_id : forall w x, 0 <= x < 2 ^ w -> wrapu w x = x.
Proof. intros w x H; unfold wrapu; apply Z.mod_small; exact H. Qed.

Lemma rem_mod_nonneg : forall a b, 0 <= a -> 0 < b -> Z.rem a b = a mod b.
Proof. intros a b Ha Hb; apply Z.rem_mod_nonneg; lia. Qed.

(* the product of the two operands at least halves in every iteration once a > b *)
Lemma gcd_loop_desc : forall f fuel a b, (f < fuel)%nat ->
  0 <= b < a -> a < 2 ^ 64 -> a * b < 2 ^ Z.of_nat f ->
  gcd_loop fuel a b = Some (Z.gcd a b).
Proof.
  induction f as [|f IH]; intros fuel a b Hf Hab Ha Hm.
  - change (2 ^ Z.of_nat 0) with 1 in Hm.
    assert (b = 0) by nia. subst b.
    destruct fuel; [lia|]. cbn [gcd_loop]. rewrite Z.eqb_refl, Z.gcd_0_r, Z.abs_eq by lia. reflexivity.
  - destruct fuel as [|fuel]; [lia|]. cbn [gcd_loop].
    destruct (b =? 0) eqn:E.
    + apply Z.eqb_eq in E; subst b. rewrite Z.gcd_0_r, Z.abs_eq by lia. reflexivity.
    + apply Z.eqb_neq in E.
      rewrite rem_mod_nonneg by lia.
      assert (Hr : 0 <= a mod b < b) by (apply Z.mod_pos_bound; lia).
      rewrite wrapu_id by lia.
      rewrite IH; try lia.
      * f_equal. rewrite Z.gcd_comm. rewrite (Z.gcd_comm a b). apply Z.gcd_mod; lia.
      * rewrite Nat2Z.inj_succ, Z.pow_succ_r in Hm by lia.
        pose proof (Z.div_mod a b ltac:(lia)) as D.
        assert (1 <= a / b) by (apply Z.div_le_lower_bound; lia).
        nia.
Qed.

Lemma gcd_loop_S : forall f a b,
  gcd_loop (S f) a b = if b =? 0 then Some a else gcd_loop f b (wrapu 64 (Z.rem a b)).
Proof. reflexivity. Qed.

Lemma gcd_loop_spec : forall a b, 0 <= a < 2 ^ 64 -> 0 <= b < 2 ^ 64 ->
  gcd_loop 200 a b = Some (Z.gcd a b).
Proof.
  intros a b Ha Hb.
  assert (P : 2 ^ 64 * 2 ^ 64 = 2 ^ Z.of_nat 128) by reflexivity.
  destruct (Z.lt_trichotomy b a) as [L|[L|L]].
  - apply (gcd_loop_desc 128); try lia. nia.
  - subst b. change 200%nat with (S (S 198)). generalize 198%nat; intros f0. rewrite gcd_loop_S.
    destruct (a =? 0) eqn:E.
    + apply Z.eqb_eq in E; subst a. reflexivity.
    + apply Z.eqb_neq in E. rewrite Z.rem_same by lia.
      change (wrapu 64 0) with 0. rewrite gcd_loop_S, Z.eqb_refl. rewrite Z.gcd_diag, Z.abs_eq by lia. reflexivity.
  - change 200%nat with (S 199). rewrite gcd_loop_S.
    destruct (b =? 0) eqn:E; [apply Z.eqb_eq in E; lia|].
    rewrite rem_mod_nonneg, Z.mod_small, wrapu_id by lia.
    rewrite (gcd_loop_desc 128); try lia; try nia.
    f_equal. apply Z.gcd_comm.
Qed.

Definition in64 (x : Z) : Prop := - 2 ^ 63 <= x < 2 ^ 63.

Lemma gcd_abs_m_spec : forall v, in64 v -> gcd_abs_m v = Z.abs v.
Proof.
  unfold in64; intros v Hv; unfold gcd_abs_m, wrapu.
  change (2 ^ 63) with 9223372036854775808 in Hv. change (2 ^ 64) with 18446744073709551616.
  destruct (v <? 0) eqn:E; lia.
Qed.

(* etl::gcd(m, n) = gcd, except that the result 2^63 (both arguments INTMAX_MIN or one INTMAX_MIN
   and the other 0) is cast to INTMAX_MIN *)
Theorem gcd_m_spec : forall m n, in64 m -> in64 n ->
  gcd_m m n = Some (wraps 64 (Z.gcd m n)).
Proof.
  intros m n Hm Hn; unfold gcd_m.
  rewrite !gcd_abs_m_spec by assumption.
  unfold in64 in *. change (2 ^ 63) with 9223372036854775808 in *.
  rewrite gcd_loop_spec by (change (2 ^ 64) with 18446744073709551616; lia).
  cbn [obind]. rewrite Z.gcd_abs_l, Z.gcd_abs_r. reflexivity.
Qed.

Lemma gcd_m_pos : forall m n, in64 m -> in64 n -> n <> 0 -> Z.abs n < 2 ^ 63 ->
  gcd_m m n = Some (Z.gcd m n) /\ 0 < Z.gcd m n <= Z.abs n.
Proof.
  intros m n Hm Hn Hz Hr.
  assert (G : 0 < Z.gcd m n <= Z.abs n).
  { pose proof (Z.gcd_nonneg m n). pose proof (Z.gcd_divide_r m n) as D.
    assert (Z.gcd m n <> 0) by (intros E; apply Z.gcd_eq_0_r in E; contradiction).
    split; [lia|]. apply Z.divide_pos_le; [lia|]. apply Z.divide_abs_r; exact D. }
  split; [|exact G].
  rewrite gcd_m_spec by assumption. f_equal.
  unfold wraps. change (2 ^ 63) with 9223372036854775808 in *.
  change (2 ^ (64 - 1)) with 9223372036854775808. change (2 ^ 64) with 18446744073709551616.
  rewrite Z.mod_small by lia.
  destruct (Z.gcd m n <? 9223372036854775808) eqn:E; lia.
Qed.
