(* C15 proofs (review round): the straight-line kernels of the ratio headers - detail::sign, etl::abs(long),
   etl::gcd(intmax_t, intmax_t) - against their mathematical definitions (SpecNum.v), for all 64-bit
   arguments.  These are the functions the run-time ops ksign / kabs / kgcd execute on seeded values. *)
From Coq Require Import ZArith Lia.
From Tetl Require Import Lib.Base C15.Types C15.ModelNum C15.SpecNum C15.ProofsGcd.
Local Open Scope Z_scope.

Lemma sign_m_spec : forall v, sign_m v = (if v =? 0 then 1 else Z.sgn v).
Proof.
  intros v; unfold sign_m. destruct (Z.ltb_spec v 0) as [E|E]; destruct (Z.eqb_spec v 0) as [F|F].
  - lia.
  - rewrite (Z.sgn_neg v) by lia. reflexivity.
  - reflexivity.
  - rewrite (Z.sgn_pos v) by lia. reflexivity.
Qed.

Lemma in_ty_i64 : forall x, in_ty i64 x = ((- 9223372036854775808 <=? x) && (x <=? 9223372036854775807))%bool.
Proof. intros x; reflexivity. Qed.
Lemma ck_in : forall x, - 9223372036854775808 <= x <= 9223372036854775807 -> ck x = Some x.
Proof.
  intros x Hx; unfold ck, chk. rewrite in_ty_i64.
  replace (- 9223372036854775808 <=? x) with true by (symmetry; apply Z.leb_le; lia).
  replace (x <=? 9223372036854775807) with true by (symmetry; apply Z.leb_le; lia). reflexivity.
Qed.
Lemma ck_out : forall x, 9223372036854775807 < x -> ck x = None.
Proof.
  intros x Hx; unfold ck, chk. rewrite in_ty_i64.
  replace (x <=? 9223372036854775807) with false by (symmetry; apply Z.leb_gt; lia).
  rewrite Bool.andb_false_r. reflexivity.
Qed.

Ltac leb_decide :=
  repeat match goal with
  | |- context [?a <=? ?b] =>
      first [ replace (a <=? b) with true by (symmetry; apply Z.leb_le; lia)
            | replace (a <=? b) with false by (symmetry; apply Z.leb_gt; lia) ]
  end.

Lemma abs_m_spec : forall v, in64 v -> abs_m v = abs_spec v.
Proof.
  unfold in64; intros v Hv. change (2 ^ 63) with 9223372036854775808 in Hv.
  unfold abs_m, abs_spec, representable, INTMAX_MAX.
  destruct (Z.geb_spec v 0) as [E|E].
  - rewrite Z.abs_eq by lia. leb_decide. reflexivity.
  - rewrite Z.abs_neq by lia. replace (v * -1) with (- v) by lia.
    destruct (Z.eq_dec v (- 9223372036854775808)) as [->|F].
    + reflexivity.
    + leb_decide. cbn [andb]. apply ck_in; lia.
Qed.

(* where [numeric.ops.gcd] defines the result (|m|, |n| representable) etl::gcd returns it *)
Lemma gcd_m_gcd_spec : forall m n g, in64 m -> in64 n -> gcd_spec m n = Some g -> gcd_m m n = Some g.
Proof.
  intros m n g Hm Hn; unfold gcd_spec, abs_representable, INTMAX_MAX.
  destruct (Z.abs m <=? 9223372036854775807) eqn:E1; [|discriminate].
  destruct (Z.abs n <=? 9223372036854775807) eqn:E2; [|discriminate]. cbn [andb].
  intros H; injection H as <-. rewrite (gcd_m_spec m n Hm Hn). f_equal.
  apply Z.leb_le in E1, E2.
  assert (G0 : 0 <= Z.gcd m n) by apply Z.gcd_nonneg.
  assert (G1 : Z.gcd m n <= 9223372036854775807).
  { destruct (Z.eq_dec m 0) as [->|Hm0].
    - rewrite Z.gcd_0_l. exact E2.
    - assert (D : (Z.gcd m n | m)) by apply Z.gcd_divide_l.
      apply Z.divide_abs_r in D. apply Z.divide_pos_le in D; lia. }
  unfold wraps. change (2 ^ 64) with 18446744073709551616. change (2 ^ (64 - 1)) with 9223372036854775808.
  rewrite Z.mod_small by lia.
  destruct (Z.gcd m n <? 9223372036854775808) eqn:F; [reflexivity | lia].
Qed.

Theorem ratio_kernels : forall v, in64 v ->
  (forall s, sign_spec v = Some s -> sign_m v = s) /\ sign_m 0 = 1
  /\ abs_m v = abs_spec v
  /\ (abs_m v = None <-> v = - 2 ^ 63)
  /\ forall n g, in64 n -> gcd_spec v n = Some g -> gcd_m v n = Some g.
Proof.
  intros v Hv. split; [|split; [reflexivity|split; [exact (abs_m_spec v Hv)|split]]].
  - intros s; unfold sign_spec. rewrite sign_m_spec. destruct (v =? 0); [discriminate|]. intros H; injection H as <-. reflexivity.
  - rewrite (abs_m_spec v Hv). unfold abs_spec, representable, INTMAX_MAX. unfold in64 in Hv.
    change (2 ^ 63) with 9223372036854775808 in *.
    destruct (Z.eq_dec v (- 9223372036854775808)) as [->|F].
    + split; reflexivity.
    + leb_decide. cbn [andb]. split; [discriminate | intros; contradiction].
  - intros n g Hn. exact (gcd_m_gcd_spec v n g Hv Hn).
Qed.
