(* C15 — the universe of C++ types the property quantifies over, shared by Model.v (what the etl
   headers compute) and Spec.v (what [meta], [basic.types], [dcl.*] say).

   A [cty] is a C++ type in NORMAL FORM:
     - cv-qualifiers are a wrapper [Cv c v t] around a non-reference, non-function, non-array type,
       with at least one of c, v set and never nested ([dcl.type.cv]: redundant qualifiers are
       ignored, qualifiers on references/functions introduced through a typedef are ignored);
     - the cv-qualification of an array type lives on its element type ([basic.type.qualifier]/3:
       "an array type whose elements are cv-qualified is also considered to have the same
       cv-qualifications as its elements"), so [const int[3]] is [Arr (Cv true false int) 3];
     - the parameter types of a function type are already adjusted ([dcl.fct]/5: arrays and
       functions decayed to pointers, top-level cv-qualifiers dropped).
   [wf] is the well-formedness predicate ([dcl.ref], [dcl.ptr], [dcl.array], [dcl.fct],
   [dcl.mptr]).  The printer from [cty] to C++ source text lives in props/C15/driver.ml;
   classes, unions and enumerations are GENERATED from their descriptors, so descriptor and C++
   definition cannot drift.

   Platform facts (x86-64 System V, g++ 12 / clang 14): LP64, char is signed, wchar_t is a
   signed 32-bit type, x87 80-bit long double. *)
From Tetl Require Import Lib.Base.
Local Open Scope Z_scope.

(** * Arithmetic types *)
Inductive arith :=
| ABool | AChar | ASChar | AUChar | AWChar | AChar8 | AChar16 | AChar32
| AShort | AUShort | AInt | AUInt | ALong | AULong | ALLong | AULLong
| AFloat | ADouble | ALDouble.

Definition arith_eqb (a b : arith) : bool :=
  match a, b with
  | ABool, ABool | AChar, AChar | ASChar, ASChar | AUChar, AUChar | AWChar, AWChar
  | AChar8, AChar8 | AChar16, AChar16 | AChar32, AChar32 | AShort, AShort | AUShort, AUShort
  | AInt, AInt | AUInt, AUInt | ALong, ALong | AULong, AULong | ALLong, ALLong
  | AULLong, AULLong | AFloat, AFloat | ADouble, ADouble | ALDouble, ALDouble => true
  | _, _ => false
  end.

Definition all_arith : list arith :=
  [ABool; AChar; ASChar; AUChar; AWChar; AChar8; AChar16; AChar32; AShort; AUShort; AInt; AUInt;
   ALong; AULong; ALLong; AULLong; AFloat; ADouble; ALDouble].

Definition is_float_a (a : arith) : bool :=
  match a with AFloat | ADouble | ALDouble => true | _ => false end.

(* object size in bits on this platform (sizeof * CHAR_BIT) *)
Definition abits (a : arith) : Z :=
  match a with
  | ABool | AChar | ASChar | AUChar | AChar8 => 8
  | AShort | AUShort | AChar16 => 16
  | AInt | AUInt | AWChar | AChar32 | AFloat => 32
  | ALong | AULong | ALLong | AULLong | ADouble => 64
  | ALDouble => 128
  end.

(* can the type represent negative values (platform: plain char and wchar_t are signed) *)
Definition asigned (a : arith) : bool :=
  match a with
  | AChar | ASChar | AWChar | AShort | AInt | ALong | ALLong | AFloat | ADouble | ALDouble => true
  | _ => false
  end.

(** * Generated classes, unions *)
(* state of one special member function in the generated definition:
   not declared / "= default" / "= delete" / user-provided non-throwing / user-provided throwing *)
Inductive sm := SImplicit | SDefault | SDelete | SUser | SUserThrow.

Definition sm_eqb (a b : sm) : bool :=
  match a, b with
  | SImplicit, SImplicit | SDefault, SDefault | SDelete, SDelete | SUser, SUser
  | SUserThrow, SUserThrow => true
  | _, _ => false
  end.

Record clsdesc := {
  cid : N;                 (* discriminator: distinct ids are distinct classes *)
  c_final : bool;          (* "final" *)
  c_data : bool;           (* has a public non-static data member "int m;" *)
  c_private : bool;        (* has a private non-static data member "int p;" *)
  c_virt : bool;           (* has a virtual member function "virtual void f();" *)
  c_pure : bool;           (* has a pure virtual member function "virtual void g() = 0;" *)
  c_vdtor : bool;          (* the destructor is declared virtual *)
  c_dctor : sm;            (* default constructor *)
  c_cctor : sm;            (* copy constructor *)
  c_mctor : sm;            (* move constructor *)
  c_cassign : sm;          (* copy assignment *)
  c_massign : sm;          (* move assignment *)
  c_dtor : sm              (* destructor *)
}.

Definition clsdesc_eqb (a b : clsdesc) : bool :=
  N.eqb (cid a) (cid b) && Bool.eqb (c_final a) (c_final b) && Bool.eqb (c_data a) (c_data b)
  && Bool.eqb (c_private a) (c_private b) && Bool.eqb (c_virt a) (c_virt b)
  && Bool.eqb (c_pure a) (c_pure b) && Bool.eqb (c_vdtor a) (c_vdtor b)
  && sm_eqb (c_dctor a) (c_dctor b) && sm_eqb (c_cctor a) (c_cctor b)
  && sm_eqb (c_mctor a) (c_mctor b) && sm_eqb (c_cassign a) (c_cassign b)
  && sm_eqb (c_massign a) (c_massign b) && sm_eqb (c_dtor a) (c_dtor b).

Definition plain_class (id : N) : clsdesc :=
  {| cid := id; c_final := false; c_data := false; c_private := false; c_virt := false;
     c_pure := false; c_vdtor := false; c_dctor := SImplicit; c_cctor := SImplicit;
     c_mctor := SImplicit; c_cassign := SImplicit; c_massign := SImplicit; c_dtor := SImplicit |}.

(* a destructor declared virtual must be declared: "virtual ~C() = default;" when implicit *)
Definition cls_wf (d : clsdesc) : bool :=
  if c_vdtor d then negb (sm_eqb (c_dtor d) SImplicit) else true.
(* a union has no virtual functions *)
Definition union_wf (d : clsdesc) : bool := negb (c_virt d) && negb (c_pure d) && negb (c_vdtor d).

(** * Types *)
Inductive refq := RQnone | RQlref | RQrref.           (* ref-qualifier of a function type *)
Definition refq_eqb (a b : refq) : bool :=
  match a, b with RQnone, RQnone | RQlref, RQlref | RQrref, RQrref => true | _, _ => false end.

Inductive cty :=
| Void
| Nullptr                                              (* decltype(nullptr) *)
| Arith (a : arith)
| Enum (scoped : bool) (under : arith) (id : N)        (* enum [class] E<id> : under {} *)
| Ptr (t : cty)
| LRef (t : cty)
| RRef (t : cty)
| Arr (t : cty) (n : option N)                         (* t[n] / t[] *)
| Fn (ret : cty) (args : list cty) (c v : bool) (r : refq) (ne : bool) (va : bool)
                                                       (* ret(args [, ...]) [const] [volatile] [&|&&] [noexcept] *)
| MemPtr (cls : clsdesc) (t : cty)                     (* t cls::*   (t object or function type) *)
| Class (d : clsdesc)
| Union (d : clsdesc)
| Cv (c v : bool) (t : cty).

Definition opt_n_eqb (a b : option N) : bool :=
  match a, b with Some x, Some y => N.eqb x y | None, None => true | _, _ => false end.

Fixpoint cty_eqb (a b : cty) {struct a} : bool :=
  match a, b with
  | Void, Void => true
  | Nullptr, Nullptr => true
  | Arith x, Arith y => arith_eqb x y
  | Enum s1 u1 i1, Enum s2 u2 i2 => Bool.eqb s1 s2 && arith_eqb u1 u2 && N.eqb i1 i2
  | Ptr x, Ptr y => cty_eqb x y
  | LRef x, LRef y => cty_eqb x y
  | RRef x, RRef y => cty_eqb x y
  | Arr x n, Arr y m => cty_eqb x y && opt_n_eqb n m
  | Fn r1 a1 c1 v1 q1 n1 va1, Fn r2 a2 c2 v2 q2 n2 va2 =>
      cty_eqb r1 r2
      && (fix leq (l1 l2 : list cty) {struct l1} : bool :=
            match l1, l2 with
            | [], [] => true
            | x :: xs, y :: ys => cty_eqb x y && leq xs ys
            | _, _ => false
            end) a1 a2
      && Bool.eqb c1 c2 && Bool.eqb v1 v2 && refq_eqb q1 q2 && Bool.eqb n1 n2 && Bool.eqb va1 va2
  | MemPtr d1 x, MemPtr d2 y => clsdesc_eqb d1 d2 && cty_eqb x y
  | Class d1, Class d2 => clsdesc_eqb d1 d2
  | Union d1, Union d2 => clsdesc_eqb d1 d2
  | Cv c1 v1 x, Cv c2 v2 y => Bool.eqb c1 c2 && Bool.eqb v1 v2 && cty_eqb x y
  | _, _ => false
  end.

(** * Shape tests used by well-formedness *)
Definition is_ref_ty (t : cty) : bool := match t with LRef _ | RRef _ => true | _ => false end.
Definition is_fn_ty (t : cty) : bool := match t with Fn _ _ _ _ _ _ _ => true | _ => false end.
Definition is_arr_ty (t : cty) : bool := match t with Arr _ _ => true | _ => false end.
Definition is_cvwrap (t : cty) : bool := match t with Cv _ _ _ => true | _ => false end.
Definition is_void_ty (t : cty) : bool :=
  match t with Void | Cv _ _ Void => true | _ => false end.
(* a function type with a cv-qualifier-seq or a ref-qualifier ("abominable"): no pointer or
   reference to it can be formed ([dcl.fct]/6, [dcl.ptr]/4, [dcl.ref]) *)
Definition abominable (t : cty) : bool :=
  match t with
  | Fn _ _ c v r _ _ => c || v || negb (refq_eqb r RQnone)
  | _ => false
  end.
Definition is_unbounded_ty (t : cty) : bool := match t with Arr _ None => true | _ => false end.
(* element type of a (multi-dimensional) array *)
Fixpoint arr_base (t : cty) : cty := match t with Arr e _ => arr_base e | _ => t end.
Definition is_abstract_ty (t : cty) : bool :=
  match t with
  | Class d | Cv _ _ (Class d) => c_pure d
  | _ => false
  end.
Definition int_underlying (a : arith) : bool := negb (is_float_a a).

(* parameter types as they appear in a function type: adjusted *)
Definition param_ok (t : cty) : bool :=
  negb (is_void_ty t) && negb (is_arr_ty t) && negb (is_fn_ty t) && negb (is_cvwrap t)
  && negb (is_abstract_ty t).

Fixpoint wf (t : cty) : bool :=
  match t with
  | Void | Nullptr | Arith _ => true
  | Enum _ u _ => int_underlying u
  | Ptr u => wf u && negb (is_ref_ty u) && negb (abominable u)
  | LRef u | RRef u => wf u && negb (is_ref_ty u) && negb (is_void_ty u) && negb (abominable u)
  | Arr e n =>
      wf e && negb (is_ref_ty e) && negb (is_void_ty e) && negb (is_fn_ty e)
      && negb (is_unbounded_ty e) && negb (is_abstract_ty (arr_base e))
      && match n with Some k => negb (N.eqb k 0) | None => true end
  | Fn ret args _ _ _ _ _ =>
      wf ret && negb (is_arr_ty ret) && negb (is_fn_ty ret) && negb (is_abstract_ty ret)
      && forallb (fun a => wf a && param_ok a) args
  | MemPtr d u => cls_wf d && wf u && negb (is_ref_ty u) && negb (is_void_ty u)
  | Class d => cls_wf d
  | Union d => union_wf d
  | Cv c v u =>
      (c || v) && wf u && negb (is_cvwrap u) && negb (is_ref_ty u) && negb (is_fn_ty u)
      && negb (is_arr_ty u)
  end.

(** * cv-qualification as the language defines it *)
(* the cv-qualifiers of a type: those of the element type for an array *)
Fixpoint cv_of (t : cty) : bool * bool :=
  match t with
  | Cv c v _ => (c, v)
  | Arr e _ => cv_of e
  | _ => (false, false)
  end.

(* "T const" / "T volatile" / "T const volatile" formed from a type T that is a template
   parameter or typedef-name ([dcl.type.cv]/1, [dcl.ref]/1, [dcl.fct]/7, [dcl.array]/? ) *)
Fixpoint qual (c v : bool) (t : cty) : cty :=
  match t with
  | Cv c' v' u => Cv (c || c') (v || v') u
  | Arr e n => Arr (qual c v e) n
  | LRef _ | RRef _ | Fn _ _ _ _ _ _ _ => t
  | _ => if c || v then Cv c v t else t
  end.

(* drop const (dc) and/or volatile (dv) from the top level *)
Fixpoint unqual (dc dv : bool) (t : cty) : cty :=
  match t with
  | Cv c v u =>
      let c' := c && negb dc in
      let v' := v && negb dv in
      if c' || v' then Cv c' v' u else u
  | Arr e n => Arr (unqual dc dv e) n
  | _ => t
  end.

(** * numeric_limits: member names and member values (shared by model and spec) *)
Inductive lmem :=
| Lis_specialized | Lmin | Lmax | Llowest | Ldigits | Ldigits10 | Lmax_digits10
| Lis_signed | Lis_integer | Lis_exact | Lradix | Lepsilon | Lround_error
| Lmin_exponent | Lmin_exponent10 | Lmax_exponent | Lmax_exponent10
| Lhas_infinity | Lhas_quiet_NaN | Lhas_signaling_NaN | Lhas_denorm | Lhas_denorm_loss
| Linfinity | Lquiet_NaN | Lsignaling_NaN | Ldenorm_min
| Lis_iec559 | Lis_bounded | Lis_modulo | Ltraps | Ltinyness_before | Lround_style.

Definition all_lmem : list lmem :=
  [Lis_specialized; Lmin; Lmax; Llowest; Ldigits; Ldigits10; Lmax_digits10; Lis_signed;
   Lis_integer; Lis_exact; Lradix; Lepsilon; Lround_error; Lmin_exponent; Lmin_exponent10;
   Lmax_exponent; Lmax_exponent10; Lhas_infinity; Lhas_quiet_NaN; Lhas_signaling_NaN; Lhas_denorm;
   Lhas_denorm_loss; Linfinity; Lquiet_NaN; Lsignaling_NaN; Ldenorm_min; Lis_iec559; Lis_bounded;
   Lis_modulo; Ltraps; Ltinyness_before; Lround_style].

(* value of a member: bool, integer, the floating-point number m * 2^e (m odd or 0), +inf, a NaN
   (signaling or quiet: [numeric.limits.members] distinguishes quiet_NaN() from signaling_NaN()) *)
Inductive lval := LB (b : bool) | LI (z : Z) | LF (m e : Z) | LInf | LNaN (signaling : bool).

(* canonical m * 2^e with m odd (or 0 0); fuel = bit length of m *)
Fixpoint norm_f (fuel : nat) (m e : Z) : lval :=
  match fuel with
  | O => LF m e
  | S f => if m =? 0 then LF 0 0 else if Z.even m then norm_f f (m / 2) (e + 1) else LF m e
  end.
Definition mkf (m e : Z) : lval := norm_f 200 m e.

