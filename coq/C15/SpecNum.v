(* C15 specification, part 2: [numeric.limits.members] for the arithmetic types of the platform,
   computed from the representation parameters (width and signedness of an integer type; precision
   p and exponent range emax of an ISO/IEC 60559 binary format), and [ratio] as exact rational
   arithmetic on unbounded integers.  Nothing here mentions the etl headers. *)
From Tetl Require Import Lib.Base C15.Types.
Local Open Scope Z_scope.

(** * Decimal characterisations *)
(* floor(log10 x) for x >= 1: the d with 10^d <= x < 10^(d+1); [pw] carries 10^(d+1) *)
Fixpoint flog10_aux (fuel : nat) (d pw x : Z) : Z :=
  match fuel with
  | O => d
  | S f => if x <? pw then d else flog10_aux f (d + 1) (pw * 10) x
  end.
Definition flog10 (x : Z) : Z := flog10_aux 6000 0 10 x.
(* the relation the standard's wording describes *)
Definition is_flog10 (x d : Z) : Prop := 0 <= d /\ 10 ^ d <= x < 10 ^ (d + 1).

(** * Integer types: width (value bits + sign bit) and signedness *)
(* digits: "number of radix digits that can be represented without change" = non-sign bits *)
Definition int_digits (a : arith) : Z :=
  match a with ABool => 1 | _ => abits a - (if asigned a then 1 else 0) end.
(* digits10: "number of base 10 digits that can be represented without change": the largest d
   such that every d-digit decimal number is representable, i.e. 10^d <= 2^digits *)
Definition int_digits10 (a : arith) : Z := flog10 (2 ^ int_digits a).
Definition int_min (a : arith) : Z := if asigned a then - 2 ^ (abits a - 1) else 0.
Definition int_max (a : arith) : Z := 2 ^ int_digits a - 1.
(* is_modulo: true for the unsigned types (arithmetic modulo 2^n, [basic.fundamental]/2) except
   bool; signed overflow is undefined, libstdc++ reports false *)
Definition int_modulo (a : arith) : bool :=
  match a with ABool => false | _ => negb (asigned a) end.

(** * Floating types: binary interchange formats *)
Record binfmt := { prec : Z; emax : Z }.            (* emax = <float.h> MAX_EXP *)
Definition binary32 := {| prec := 24; emax := 128 |}.
Definition binary64 := {| prec := 53; emax := 1024 |}.
Definition x87_extended := {| prec := 64; emax := 16384 |}.
Definition fmt_of (a : arith) : option binfmt :=
  match a with
  | AFloat => Some binary32 | ADouble => Some binary64 | ALDouble => Some x87_extended
  | _ => None
  end.
(* min_exponent: smallest e such that 2^(e-1) is a normalised value *)
Definition min_exp (f : binfmt) : Z := 3 - emax f.
Definition flt_min (f : binfmt) : lval := mkf 1 (min_exp f - 1).
Definition flt_max_mant (f : binfmt) : Z := 2 ^ prec f - 1.
Definition flt_max (f : binfmt) : lval := mkf (flt_max_mant f) (emax f - prec f).
Definition flt_epsilon (f : binfmt) : lval := mkf 1 (1 - prec f).        (* next after 1, minus 1 *)
Definition flt_denorm_min (f : binfmt) : lval := mkf 1 (min_exp f - prec f).
(* digits10 = floor((p-1) log10 2): the largest d with 10^d <= 2^(p-1) *)
Definition flt_digits10 (f : binfmt) : Z := flog10 (2 ^ (prec f - 1)).
(* max_digits10 = ceil(1 + p log10 2): the m with 10^(m-2) <= 2^p < 10^(m-1) *)
Definition flt_max_digits10 (f : binfmt) : Z := flog10 (2 ^ prec f) + 2.
(* max_exponent10: the largest e such that 10^e is representable: 10^e <= max *)
Definition flt_max_exp10 (f : binfmt) : Z := flog10 (flt_max_mant f * 2 ^ (emax f - prec f)).
(* min_exponent10: the smallest (negative) e such that 10^e is a normalised value:
   10^e >= 2^(min_exp-1), i.e. 10^(-e) <= 2^(1-min_exp) *)
Definition flt_min_exp10 (f : binfmt) : Z := - flog10 (2 ^ (1 - min_exp f)).

(** * numeric_limits<T> for an arithmetic type; None = the standard leaves it to the
      implementation (traps) *)
Definition limits_spec (a : arith) (m : lmem) : option lval :=
  match fmt_of a with
  | Some f =>
      match m with
      | Lis_specialized => Some (LB true)
      | Lmin => Some (flt_min f) | Lmax => Some (flt_max f)
      | Llowest => Some (match flt_max f with LF x e => LF (- x) e | v => v end)
      | Ldigits => Some (LI (prec f)) | Ldigits10 => Some (LI (flt_digits10 f))
      | Lmax_digits10 => Some (LI (flt_max_digits10 f))
      | Lis_signed => Some (LB true) | Lis_integer => Some (LB false) | Lis_exact => Some (LB false)
      | Lradix => Some (LI 2) | Lepsilon => Some (flt_epsilon f) | Lround_error => Some (mkf 1 (-1))
      | Lmin_exponent => Some (LI (min_exp f)) | Lmin_exponent10 => Some (LI (flt_min_exp10 f))
      | Lmax_exponent => Some (LI (emax f)) | Lmax_exponent10 => Some (LI (flt_max_exp10 f))
      | Lhas_infinity | Lhas_quiet_NaN | Lhas_signaling_NaN => Some (LB true)
      | Lhas_denorm => Some (LI 1) | Lhas_denorm_loss => Some (LB false)
      | Linfinity => Some LInf | Lquiet_NaN => Some (LNaN false) | Lsignaling_NaN => Some (LNaN true)
      | Ldenorm_min => Some (flt_denorm_min f)
      | Lis_iec559 => Some (LB true) | Lis_bounded => Some (LB true) | Lis_modulo => Some (LB false)
      | Ltraps => None
      | Ltinyness_before => Some (LB false)
      | Lround_style => Some (LI 1)                   (* round_to_nearest *)
      end
  | None =>
      match m with
      | Lis_specialized => Some (LB true)
      | Lmin => Some (LI (int_min a)) | Lmax => Some (LI (int_max a)) | Llowest => Some (LI (int_min a))
      | Ldigits => Some (LI (int_digits a)) | Ldigits10 => Some (LI (int_digits10 a))
      | Lmax_digits10 => Some (LI 0)
      | Lis_signed => Some (LB (asigned a)) | Lis_integer => Some (LB true) | Lis_exact => Some (LB true)
      | Lradix => Some (LI 2) | Lepsilon => Some (LI 0) | Lround_error => Some (LI 0)
      | Lmin_exponent | Lmin_exponent10 | Lmax_exponent | Lmax_exponent10 => Some (LI 0)
      | Lhas_infinity | Lhas_quiet_NaN | Lhas_signaling_NaN | Lhas_denorm_loss => Some (LB false)
      | Lhas_denorm => Some (LI 0)
      | Linfinity | Lquiet_NaN | Lsignaling_NaN | Ldenorm_min => Some (LI 0)
      | Lis_iec559 => Some (LB false) | Lis_bounded => Some (LB true)
      | Lis_modulo => Some (LB (int_modulo a))
      | Ltraps => None
      | Ltinyness_before => Some (LB false)
      | Lround_style => Some (LI 0)                   (* round_toward_zero *)
      end
  end.

(** * [ratio]: exact rational arithmetic *)
Definition INTMAX_MAX : Z := 9223372036854775807.
Definition representable (x : Z) : bool := (- INTMAX_MAX - 1 <=? x) && (x <=? INTMAX_MAX).
(* [ratio.ratio]: "If the template argument D is zero or the absolute values of either of the
   template arguments N and D is not representable by type intmax_t, the program is ill-formed."
   num = sgn(N) * sgn(D) * abs(N) / gcd, den = abs(D) / gcd *)
Definition abs_representable (x : Z) : bool := Z.abs x <=? INTMAX_MAX.
Definition lowest_terms (n d : Z) : Z * Z :=
  let g := Z.gcd n d in (Z.sgn d * n / g, Z.abs d / g).
Definition ratio_spec (n d : Z) : option (Z * Z) :=
  if (d =? 0) || negb (abs_representable n) || negb (abs_representable d) then None
  else Some (lowest_terms n d).
(* [ratio.arithmetic]: the result in lowest terms; "If it is not possible to represent U or V
   with intmax_t, the program is ill-formed."  The alias denotes ratio<U, V>, which [ratio.ratio]
   makes ill-formed as well when |U| is not representable (U = INTMAX_MIN). *)
Definition ratio_result (n d : Z) : option (Z * Z) :=
  if d =? 0 then None
  else let '(u, v) := lowest_terms n d in
       if abs_representable u && abs_representable v then Some (u, v) else None.
Definition ratio_add_spec (n1 d1 n2 d2 : Z) := ratio_result (n1 * d2 + n2 * d1) (d1 * d2).
Definition ratio_subtract_spec (n1 d1 n2 d2 : Z) := ratio_result (n1 * d2 - n2 * d1) (d1 * d2).
Definition ratio_multiply_spec (n1 d1 n2 d2 : Z) := ratio_result (n1 * n2) (d1 * d2).
Definition ratio_divide_spec (n1 d1 n2 d2 : Z) := ratio_result (n1 * d2) (d1 * n2).
(* [ratio.comparison], for ratios with positive denominators *)
Definition ratio_equal_spec (n1 d1 n2 d2 : Z) : bool := (n1 =? n2) && (d1 =? d2).
Definition ratio_less_spec (n1 d1 n2 d2 : Z) : bool := n1 * d2 <? n2 * d1.

(** * the straight-line kernels the ratio headers are built from, as mathematics (review round) *)
(* [ratio.ratio] writes num = sgn(N) * sgn(D) * abs(N) / gcd(N, D); sgn of 0 never matters there
   (abs(N) = 0), so the specification gives it no value *)
Definition sign_spec (v : Z) : option Z := if v =? 0 then None else Some (Z.sgn v).
(* |v|, when it is an intmax_t value (abs of the most negative value is undefined, [c.math.abs]) *)
Definition abs_spec (v : Z) : option Z := if representable (Z.abs v) then Some (Z.abs v) else None.
(* [numeric.ops.gcd]: the greatest common divisor of |m| and |n|; undefined when |m| or |n| is not representable *)
Definition gcd_spec (m n : Z) : option Z :=
  if abs_representable m && abs_representable n then Some (Z.gcd m n) else None.
