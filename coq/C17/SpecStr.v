(* C17 spec validation, strings: bitset(x.to_string(zero, one), 0, n, zero, one) == x for every value x, every
   pair of different characters and every n >= size() (npos included whenever size() < 2^64): the string
   constructor of the spec inverts to_string of the spec.  With C17_history_refines / C17_constructors_spec
   the code's constructor inverts the code's to_string. *)
From Tetl Require Import Lib.Base C17.Spec.
From Coq Require Import NArith Lia.
Local Open Scope nat_scope.

Definition chr (zero one : N) (b : bool) : N := if b then one else zero.

Lemma forallb_chr zero one (a : bset) :
  forallb (fun c => N.eqb c zero || N.eqb c one) (map (chr zero one) a) = true.
Proof.
  induction a as [|b r IH]; [reflexivity|]. cbn [map forallb]. rewrite IH.
  rewrite Bool.andb_true_r.
  destruct b; cbn [chr]; rewrite N.eqb_refl; [apply Bool.orb_true_r|reflexivity].
Qed.

Lemma unchr zero one (a : bset) : zero <> one ->
  map (fun c => negb (N.eqb c zero)) (map (chr zero one) a) = a.
Proof.
  intros Hne. rewrite map_map. rewrite <- (map_id a) at 2. apply map_ext. intros b.
  destruct b; cbn [chr].
  - replace (N.eqb one zero) with false; [reflexivity|].
    symmetry. apply N.eqb_neq. intros H. apply Hne. symmetry. exact H.
  - rewrite N.eqb_refl. reflexivity.
Qed.

Lemma forallb_rev {A} (f : A -> bool) (l : list A) : forallb f (rev l) = forallb f l.
Proof.
  induction l as [|x r IH]; [reflexivity|]. cbn [rev forallb].
  rewrite forallb_app, IH. cbn [forallb]. rewrite Bool.andb_true_r. apply Bool.andb_comm.
Qed.

Theorem string_round_trip : forall (a : bset) zero one n, zero <> one -> (N.of_nat (length a) <= n)%N ->
  s_of_string (length a) (s_to_string a zero one) 0 n zero one = SOk a.
Proof.
  intros a zero one n Hne Hn.
  unfold s_of_string, s_to_string. fold (chr zero one).
  set (str := rev (map (chr zero one) a)).
  assert (Hlen : length str = length a) by (unfold str; rewrite rev_length; apply map_length).
  replace (length str <? 0) with false by reflexivity.
  assert (Hr : s_rlen str 0 n = length a).
  { unfold s_rlen. rewrite Nat.sub_0_r, Hlen, N.min_r by exact Hn. apply Nat2N.id. }
  rewrite Hr. cbn [skipn]. cbv zeta.
  assert (Hfn : firstn (length a) str = str) by (rewrite <- Hlen; apply firstn_all).
  rewrite Hfn.
  replace (forallb (fun c => N.eqb c zero || N.eqb c one) str) with true
    by (unfold str; rewrite forallb_rev; symmetry; apply forallb_chr).
  rewrite Hlen, Nat.min_id, Nat.sub_diag. cbn [repeat]. rewrite app_nil_r.
  rewrite Hfn. unfold str.
  rewrite <- map_rev, rev_involutive. f_equal. apply unchr. exact Hne.
Qed.
