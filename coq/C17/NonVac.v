(* C17: non-vacuity witnesses, evaluated once (vm_compute) in their own file *)
From Tetl Require Import Lib.Base C17.Ops C17.Model C17.Spec C17.History.
From Coq Require Import NArith.
Local Open Scope nat_scope.

Definition nv_ops (top : nat) : list op :=
  [OInt 9223372036854775809; OFlipAll; OSet top true; OSwap; OSetAll; ORefCopy 0 top; OAnd; OTest top;
   OSet (S top) true; OStr [49; 48; 48; 49]%N 1 18446744073709551615 48 49;
   OStr [49; 50]%N 0 18446744073709551615 48 49; OStr [49]%N 2 0 48 49; ONot;
   ORefCopySelf top 0; ORefCopySelf 1 1; ORefCopySelf 0 (S top); OOrSelf; OAndSelf;
   OCStr [49; 49; 0; 50]%N false 48 49; OCStr [49; 0]%N true 48 49; OCStr [49; 0]%N true 0 49; OXorSelf].

Lemma nonvacuous :
  run_m 7 8 (init_m 7 8) (nv_ops 6) = s_run 7 (s_init 7) (nv_ops 6)
  /\ run_m 64 64 (init_m 64 64) (nv_ops 63) = s_run 64 (s_init 64) (nv_ops 63)
  /\ run_m 65 64 (init_m 65 64) (nv_ops 64) = s_run 65 (s_init 65) (nv_ops 64)
  /\ map (option_map (fun r => (o_count (fst r), o_all (fst r), snd r))) (run_m 65 64 (init_m 65 64) (nv_ops 64))
     = [Some (2, false, []); Some (63, false, []); Some (63, false, []); Some (0, false, []);
        Some (65, true, []); Some (65, true, []); Some (63, false, []); Some (63, false, [true; true; true; false]);
        None; Some (1, false, []); None; None; Some (64, false, []);
        Some (63, false, []); Some (63, false, []); None; Some (63, false, []); Some (63, false, []);
        Some (2, false, []); None; Some (1, false, []); Some (0, false, [])]
  /\ fst (final_state 65 6 (init_m 65 64) (firstn 13 (nv_ops 64))) = [18446744073709551614; 1]%N
  /\ fst (final_state 65 6 (init_m 65 64) (firstn 21 (nv_ops 64))) = [2; 0]%N
  /\ map (option_map (fun r => (o_string (fst r), o_count (fst r), o_all (fst r), o_none (fst r), o_ullong (fst r))))
         (run_m 0 8 (init_m 0 8) [OSetAll; OSet 0 true; OStr [49]%N 0 18446744073709551615 48 49;
                                  OStr [50]%N 0 18446744073709551615 48 49; ONot; OTest 0])
     = [Some ([], 0, true, true, Some 0%N); None; Some ([], 0, true, true, Some 0%N); None;
        Some ([], 0, true, true, Some 0%N); None].
Proof. vm_compute. repeat split; reflexivity. Qed.
