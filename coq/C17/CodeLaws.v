(* C17: the standard's relations between the observers (SpecLaws.v), transferred to the code's word-level
   observers through C17_observers_spec: on every well-formed storage array, for every width and word size,
   all() = (count() == size()), any() = (count() != 0), none() = (count() == 0), count() <= size(). *)
From Tetl Require Import Lib.Base C17.Ops C17.Model C17.Spec C17.Words C17.Abs C17.Observers C17.Ctors C17.History C17.Extras C17.SpecLaws.
From Coq Require Import NArith Lia.
Local Open Scope nat_scope.

Theorem code_laws : forall bits k, 0 < bits -> forall ws, wf bits k ws ->
  all_m bits (2 ^ k) (ones (2 ^ k)) (padding_mask_inv bits (2 ^ k)) ws = (count_m ws =? bits)
  /\ any_m ws = negb (count_m ws =? 0)
  /\ none_m ws = (count_m ws =? 0)
  /\ count_m ws <= bits.
Proof.
  intros bits k Hb ws Hwf.
  destruct (observers_spec_all bits k Hb ws Hwf) as (Hc & Ha & Hany & Hn & _).
  pose proof (abs_length bits k ws) as Hlen.
  rewrite Hc, Ha, Hany, Hn.
  set (a := abs bits k ws) in *. clearbody a.
  rewrite s_all_count, s_any_count, s_none_count.
  pose proof (s_count_le a) as Hle. rewrite Hlen in *.
  repeat split. exact Hle.
Qed.

(* bitset(x.to_string(zero, one), 0, n, zero, one) == x on the code's side: the word-level string constructor
   applied to the word-level to_string of a well-formed array gives back that very array (not just an equal
   value: the representation is canonical), never a fired precondition, for every width, word size, pair of
   different characters and n >= size(); likewise bitset(x.to_ullong()) == x for size() <= 64 *)
From Tetl Require Import C17.SpecStr.

Theorem code_round_trips : forall bits k, 0 < bits -> forall ws, wf bits k ws ->
  (forall zero one n, zero <> one -> (N.of_nat bits <= n)%N ->
     of_string bits (2 ^ k) (ones (2 ^ k)) (ones 64)
       (to_string_m bits (2 ^ k) (ones (2 ^ k)) ws zero one) 0 n zero one = Ok ws)
  /\ (bits <= 64 ->
      of_ullong bits (2 ^ k) (ones (2 ^ k)) (ones 64)
        (to_ullong_m bits (2 ^ k) (ones (2 ^ k)) (ones 64) ws) = ws).
Proof.
  intros bits k Hb ws Hwf.
  destruct (observers_spec_all bits k Hb ws Hwf) as (_ & _ & _ & _ & Hstr & Hull & _ & Hcanon).
  destruct (constructors_spec_all bits k Hb) as (Hint & Hofs & _).
  pose proof (abs_length bits k ws) as Hlen.
  split.
  - intros zero one n Hne Hn.
    specialize (Hofs (to_string_m bits (2 ^ k) (ones (2 ^ k)) ws zero one) 0 n zero one).
    rewrite Hstr in *.
    pose proof (string_round_trip (abs bits k ws) zero one n Hne) as Hrt.
    rewrite Hlen in Hrt. specialize (Hrt Hn).
    destruct (of_string bits (2 ^ k) (ones (2 ^ k)) (ones 64) (s_to_string (abs bits k ws) zero one) 0 n zero one)
      as [ws'| | |] eqn:E; try (exfalso; exact Hofs).
    + destruct Hofs as [Hwf' Heq]. rewrite Hrt in Heq. injection Heq as Heq.
      f_equal. symmetry. apply Hcanon; assumption.
    + destruct Hofs as [H|H]; rewrite Hrt in H; discriminate.
  - intros H64. specialize (Hull H64). rewrite Hull.
    destruct (Hint (s_value (abs bits k ws))) as [Hwf' Heq].
    symmetry. apply Hcanon; [exact Hwf'|].
    rewrite Heq. pose proof (s_of_ullong_value (abs bits k ws)) as Hv. rewrite Hlen in Hv.
    symmetry. apply Hv. exact H64.
Qed.
