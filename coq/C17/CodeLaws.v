(* C17: the standard's relations between the observers (SpecLaws.v), transferred to the code's word-level
   observers through C17_observers_spec: on every well-formed storage array, for every width and word size,
   all() = (count() == size()), any() = (count() != 0), none() = (count() == 0), count() <= size(). *)
From Tetl Require Import Lib.Base C17.Ops C17.Model C17.Spec C17.Words C17.Abs C17.Observers C17.Ctors C17.History C17.Extras C17.SpecLaws.
From Coq Require Import NArith Lia.
Local Open Scope nat_scope.

Theorem code_laws : forall bits k, 0 < bits -> forall ws, wf bits k ws ->
  all_m bits (2 ^ k) (ones (2 ^ k)) (padding_mask_inv bits (2 ^ k)) ws = (count_m ws =? bits)
  /\ any_m ws = negb (count_m ws =? 0)
  /\ none_m ws = (count_m ws =? 0)
  /\ count_m ws <= bits.
Proof.
  intros bits k Hb ws Hwf.
  destruct (observers_spec_all bits k Hb ws Hwf) as (Hc & Ha & Hany & Hn & _).
  pose proof (abs_length bits k ws) as Hlen.
  rewrite Hc, Ha, Hany, Hn.
  set (a := abs bits k ws) in *. clearbody a.
  rewrite s_all_count, s_any_count, s_none_count.
  pose proof (s_count_le a) as Hle. rewrite Hlen in *.
  repeat split. exact Hle.
Qed.
