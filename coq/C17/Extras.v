(* C17 proofs, part 6: the padding invariant in its "last word" form, and the constant-evaluation
   path of popcount (Kernighan's loop) against the bit count. *)
From Tetl Require Import Lib.Base C17.Ops C17.Model C17.Spec C17.Words C17.Abs C17.Observers C17.Ctors C17.History.
From Coq Require Import NArith ZifyNat ZifyN ZifyBool.
Local Open Scope nat_scope.
Ltac Zify.zify_post_hook ::= Z.to_euclidean_division_equations.

Section Pad.
Variable bits : nat.
Variable k : nat.
Notation w := (2 ^ k).
Notation nw := (num_words bits w).
Notation pad := (padding bits w).
Hypothesis Hbits : 0 < bits.

(* the top [padding] bits of the last storage word are zero: the word is below 2^(w - padding) *)
Definition last_word_clean (ws : list N) : Prop :=
  (nth (nw - 1) ws 0 < 2 ^ N.of_nat (w - pad))%N.

Lemma wf_last_word_clean ws : wf bits k ws -> last_word_clean ws.
Proof.
  intros (Hl & Hb & Hp). apply high_bnd. intros t Ht.
  pose proof (pow2_pos k) as Hw.
  destruct (Nat.ltb_spec t w) as [Hlt|Hge].
  - specialize (Hp ((nw - 1) * w + t)). unfold getbit in Hp.
    rewrite Nat.div_add_l, Nat.div_small, Nat.add_0_r in Hp by lia.
    rewrite Nat.add_comm, Nat.mod_add, Nat.mod_small in Hp by lia.
    apply Hp. pose proof (pad_eq bits w Hw). pose proof (nw_pos bits w Hw Hbits). nia.
  - apply (bnd_high w); [now apply nth_bnd|exact Hge].
Qed.

Theorem padding_zero_inv ops :
  let st := final_state bits k (init_m bits w) ops in
  last_word_clean (fst st) /\ last_word_clean (snd st)
  /\ length (fst st) = nw /\ length (snd st) = nw.
Proof.
  intros st.
  destruct (invariant_along_history bits k Hbits ops (init_m bits w) (wf2_init bits k)) as (Hc & Ho).
  fold st in Hc, Ho. repeat split; try now apply wf_last_word_clean.
  - now destruct Hc.
  - now destruct Ho.
Qed.

End Pad.

(** * popcount_fallback: for (; val != 0; val &= val - 1) ++c *)

Lemma popcount_double y : popcount (N.double y) = popcount y.
Proof. destruct y; reflexivity. Qed.

Lemma land_double_succ_double a b : N.land (N.double a) (N.succ_double b) = N.double (N.land a b).
Proof. destruct a as [|p]; destruct b as [|q]; reflexivity. Qed.

Lemma xO_pred q : (Npos q~0 - 1 = N.succ_double (Npos q - 1))%N.
Proof. destruct q; reflexivity. Qed.

(* clearing the lowest set bit removes exactly one from the count *)
Lemma kernighan_step p : S (popcount (N.land (Npos p) (Npos p - 1))) = pop_pos p.
Proof.
  induction p as [q IH|q IH|].
  - (* q~1 - 1 = q~0 *)
    change (Npos q~1 - 1)%N with (Npos q~0).
    change (N.land (Npos q~1) (Npos q~0)) with (N.double (N.land (Npos q) (Npos q))).
    rewrite N.land_diag. reflexivity.
  - rewrite xO_pred. change (Npos q~0) with (N.double (Npos q)).
    rewrite land_double_succ_double, popcount_double. exact IH.
  - reflexivity.
Qed.

Lemma filter_len_le {A} (f : A -> bool) l : length (filter f l) <= length l.
Proof. induction l as [|x l IH]; cbn [filter length]; [lia|]. destruct (f x); cbn [length]; lia. Qed.

Lemma popcount_le_width w x : bnd w x -> popcount x <= w.
Proof.
  intros Hb. rewrite (popcount_bitcount w x Hb). unfold bitcount.
  rewrite <- (seq_length w 0) at 2. apply filter_len_le.
Qed.

Lemma bnd_land_l w x y : bnd w x -> bnd w (N.land x y).
Proof.
  intros Hb. apply high_bnd. intros i Hi. rewrite tb_land, (bnd_high w x i Hb Hi). reflexivity.
Qed.

Lemma bnd_pred w x : bnd w x -> bnd w (x - 1).
Proof. unfold bnd. lia. Qed.

Lemma pop_pos_pos p : 0 < pop_pos p.
Proof. induction p; cbn [pop_pos]; lia. Qed.

Theorem popcount_fallback_spec w : forall fuel x, bnd w x -> popcount x <= fuel ->
  popcount_fallback (ones w) fuel x = Some (popcount x).
Proof.
  induction fuel as [|f IH]; intros x Hb Hf.
  - destruct x as [|p]; [reflexivity|]. cbn [popcount] in Hf.
    pose proof (pop_pos_pos p). lia.
  - destruct x as [|p]; [reflexivity|]. cbn [popcount_fallback N.eqb].
    rewrite (trunc_id w (Npos p - 1)) by now apply bnd_pred.
    rewrite (trunc_id w (N.land _ _)) by now apply bnd_land_l.
    pose proof (kernighan_step p) as Hk.
    rewrite IH; [|now apply bnd_land_l|cbn [popcount] in Hf; lia].
    cbn [option_map popcount]. now rewrite Hk.
Qed.

Corollary popcount_fallback_width w x : bnd w x ->
  popcount_fallback (ones w) w x = Some (popcount x).
Proof. intros Hb. apply (popcount_fallback_spec w); [exact Hb|now apply popcount_le_width]. Qed.

(** * the preconditions on the paths the model treats as total: array index, helper position,
    unchecked_set/set inside the constructors' loops, string_view::operator[] *)
Lemma inner_preconditions bits k : 0 < bits ->
  (forall pos, bit_pos_ok (2 ^ k) (offset_in_word (2 ^ k) pos) = true)
  /\ (forall pos, pos < bits -> word_index (2 ^ k) pos < num_words bits (2 ^ k))
  /\ (forall i, In i (seq 0 (Nat.min 64 bits)) -> i < bits /\ bit_pos_ok 64 (N.of_nat i) = true)
  /\ (forall i, In i (seq 0 (Nat.min bits 64)) -> i < bits /\ bit_pos_ok 64 (N.of_nat i) = true)
  /\ (forall (str : list N) pos n, pos <= length str ->
       let len := s_rlen str pos n in
       let m := Nat.min len bits in
       (forall i, i < len -> pos + i < length str)
       /\ (forall i, i < m -> i < bits /\ pos + m - 1 - i < length str)).
Proof.
  intros Hbits. split; [apply offset_lt|]. split.
  { intros pos Hpos. unfold word_index. apply idx_lt; [apply pow2_pos|exact Hpos]. }
  split.
  { intros i Hi. apply in_seq in Hi. split; [lia|]. unfold bit_pos_ok. apply N.ltb_lt. lia. }
  split.
  { intros i Hi. apply in_seq in Hi. split; [lia|]. unfold bit_pos_ok. apply N.ltb_lt. lia. }
  intros str pos n Hpos. cbv zeta.
  assert (Hr : s_rlen str pos n <= length str - pos) by (unfold s_rlen; lia).
  split; intros i Hi; lia.
Qed.

(** * the padding invariant is what count/all/== rely on: a storage array with a stray padding
    bit (never produced by the model, see padding_zero_inv) would be miscounted *)
Example padding_matters :
  let ws := [255%N] in   (* Bits = 7 in one 8-bit word, bit 7 set *)
  length ws = num_words 7 8 /\ Forall (bnd 8) ws
  /\ count_m ws <> s_count (abs 7 3 ws)
  /\ all_m 7 8 (ones 8) (padding_mask_inv 7 8) ws <> s_all (abs 7 3 ws).
Proof.
  cbv zeta. repeat split.
  - repeat constructor.
  - vm_compute. congruence.
  - vm_compute. congruence.
Qed.

(** * the conjunctions stated in Properties.v *)
Section Summary.
Variables bits k : nat.
Hypothesis Hb : 0 < bits.

Lemma history_refines_both ops :
  run_m bits (2 ^ k) (init_m bits (2 ^ k)) ops = s_run bits (s_init bits) ops
  /\ forall st, wf2 bits k st -> run_m bits (2 ^ k) st ops = s_run bits (abs2 bits k st) ops.
Proof. exact (conj (history_refines bits k Hb ops) (fun st Hst => run_refines bits k Hb ops st Hst)). Qed.

Lemma padding_zero_inv_both ops :
  (forall st, wf2 bits k st -> wf2 bits k (final_state bits k st ops))
  /\ let st := final_state bits k (init_m bits (2 ^ k)) ops in
     last_word_clean bits k (fst st) /\ last_word_clean bits k (snd st)
     /\ length (fst st) = num_words bits (2 ^ k) /\ length (snd st) = num_words bits (2 ^ k).
Proof.
  exact (conj (fun st Hst => invariant_along_history bits k Hb ops st Hst) (padding_zero_inv bits k Hb ops)).
Qed.

Lemma observers_spec_all ws : wf bits k ws ->
  count_m ws = s_count (abs bits k ws)
  /\ all_m bits (2 ^ k) (ones (2 ^ k)) (padding_mask_inv bits (2 ^ k)) ws = s_all (abs bits k ws)
  /\ any_m ws = s_any (abs bits k ws)
  /\ none_m ws = s_none (abs bits k ws)
  /\ (forall zero one, to_string_m bits (2 ^ k) (ones (2 ^ k)) ws zero one = s_to_string (abs bits k ws) zero one)
  /\ (bits <= 64 -> to_ullong_m bits (2 ^ k) (ones (2 ^ k)) (ones 64) ws = s_value (abs bits k ws))
  /\ (forall ws', wf bits k ws' -> words_eqb ws ws' = s_eq (abs bits k ws) (abs bits k ws'))
  /\ (forall ws', wf bits k ws' -> abs bits k ws = abs bits k ws' -> ws = ws').
Proof.
  intros Hwf.
  exact (conj (count_spec bits k Hb ws Hwf) (conj (all_spec bits k Hb ws Hwf) (conj (any_spec bits k Hb ws Hwf)
        (conj (none_spec bits k Hb ws Hwf) (conj (fun z o => to_string_spec bits k Hb ws z o Hwf)
        (conj (to_ullong_spec bits k Hb ws Hwf) (conj (fun ws' H' => eq_spec bits k Hb ws ws' Hwf H')
        (fun ws' H' => abs_inj bits k Hb ws ws' Hwf H')))))))).
Qed.

Lemma constructors_spec_all :
  (forall val, wf bits k (of_ullong bits (2 ^ k) (ones (2 ^ k)) (ones 64) val)
               /\ abs bits k (of_ullong bits (2 ^ k) (ones (2 ^ k)) (ones 64) val) = s_of_ullong bits val)
  /\ (forall str pos n zero one,
     match of_string bits (2 ^ k) (ones (2 ^ k)) (ones 64) str pos n zero one with
     | Ok ws => wf bits k ws /\ s_of_string bits str pos n zero one = SOk (abs bits k ws)
     | Contract => s_of_string bits str pos n zero one = SOutOfRange
                   \/ s_of_string bits str pos n zero one = SInvalid
     | _ => False
     end)
  /\ forall arr counted zero one,
     match of_cstring bits (2 ^ k) (ones (2 ^ k)) (ones 64) arr counted zero one with
     | Ok ws => wf bits k ws /\ s_of_cstring bits arr counted zero one = SOk (abs bits k ws)
     | Contract => s_of_cstring bits arr counted zero one = SOutOfRange
                   \/ s_of_cstring bits arr counted zero one = SInvalid
     | _ => False
     end.
Proof.
  exact (conj (of_ullong_spec bits k Hb) (conj (of_string_spec bits k Hb) (of_cstring_spec bits k Hb))).
Qed.

End Summary.

Lemma popcount_fallback_both w x : bnd w x ->
  popcount_fallback (ones w) w x = Some (popcount x) /\ popcount x = bitcount w x.
Proof. intros Hb. exact (conj (popcount_fallback_width w x Hb) (popcount_bitcount w x Hb)). Qed.
