(* C17 proofs, part 2: the abstraction from storage words to std::bitset values, the
   representation invariant (word bound + zero padding), and what every mutating operation of
   the model does to every single bit.  Word width w = 2^k (offset_in_word masks with w-1). *)
From Tetl Require Import Lib.Base C17.Ops C17.Model C17.Spec C17.Words.
From Coq Require Import NArith ZifyNat ZifyN ZifyBool.
Local Open Scope nat_scope.
Ltac Zify.zify_post_hook ::= Z.to_euclidean_division_equations.

(** * list facts *)
Lemma nth_upd (l : list N) j f k d :
  nth k (upd l j f) d = if (k =? j) && (j <? length l) then f (nth j l d) else nth k l d.
Proof.
  revert j k. induction l as [|x r IH]; intros j k.
  - cbn [upd length]. rewrite andb_false_r. reflexivity.
  - destruct j as [|j]; cbn [upd].
    + destruct k as [|k]; reflexivity.
    + destruct k as [|k]; [reflexivity|]. cbn [nth length]. rewrite IH.
      change (S k =? S j) with (k =? j). change (S j <? S (length r)) with (j <? length r). reflexivity.
Qed.

Lemma upd_length (l : list N) j f : length (upd l j f) = length l.
Proof.
  revert j. induction l as [|x r IH]; intros j; [reflexivity|].
  destruct j; cbn [upd length]; [reflexivity|]. now rewrite IH.
Qed.

Lemma nth_map0 (f : N -> N) (l : list N) k :
  nth k (map f l) 0%N = if k <? length l then f (nth k l 0%N) else 0%N.
Proof.
  destruct (Nat.ltb_spec k (length l)) as [Hlt|Hge].
  - rewrite (nth_indep _ 0%N (f 0%N)) by now rewrite map_length. apply map_nth.
  - apply nth_overflow. now rewrite map_length.
Qed.

Lemma nth_zip0 (g : N -> N -> N) (a b : list N) k : length a = length b ->
  nth k (map (fun p => g (fst p) (snd p)) (combine a b)) 0%N
  = if k <? length a then g (nth k a 0%N) (nth k b 0%N) else 0%N.
Proof.
  intros Hl. set (h := fun p : N * N => g (fst p) (snd p)).
  destruct (Nat.ltb_spec k (length a)) as [Hlt|Hge].
  - rewrite (nth_indep _ 0%N (h (0%N, 0%N)))
      by (rewrite map_length, combine_length; lia).
    rewrite map_nth, combine_nth by exact Hl. reflexivity.
  - apply nth_overflow. rewrite map_length, combine_length. lia.
Qed.

Lemma Forall_upd (P : N -> Prop) l j f : Forall P l -> (forall x, P (f x)) -> Forall P (upd l j f).
Proof.
  intros Hl Hf. revert j. induction Hl as [|x r Hx Hr IH]; intros j; [constructor|].
  destruct j; cbn [upd]; constructor; auto.
Qed.

Lemma nth_bnd w l k : Forall (bnd w) l -> bnd w (nth k l 0%N).
Proof.
  intros Hl. destruct (Nat.ltb_spec k (length l)) as [Hlt|Hge].
  - now apply Forall_nth.
  - rewrite nth_overflow by exact Hge. apply bnd_0.
Qed.

Lemma existsb_eqb_seq i a n : existsb (Nat.eqb i) (seq a n) = (a <=? i) && (i <? a + n).
Proof.
  revert a. induction n as [|n IH]; intros a; cbn [seq existsb].
  - destruct (Nat.leb_spec a i); destruct (Nat.ltb_spec i (a + 0)); try reflexivity; lia.
  - rewrite IH.
    destruct (Nat.eqb_spec i a); destruct (Nat.leb_spec (S a) i); destruct (Nat.leb_spec a i);
      destruct (Nat.ltb_spec i (S a + n)); destruct (Nat.ltb_spec i (a + S n)); try reflexivity; lia.
Qed.

(** * arithmetic of the layout *)
Section Layout.
Variables bits w : nat.
Hypothesis Hw : 0 < w.
Notation nw := (num_words bits w).
Notation pad := (padding bits w).

Lemma nw_bounds : bits <= nw * w < bits + w.
Proof. unfold num_words. nia. Qed.

Lemma pad_lt : pad < w.
Proof. unfold padding. pose proof nw_bounds. lia. Qed.

Lemma pad_eq : bits + pad = nw * w.
Proof. unfold padding. pose proof nw_bounds. lia. Qed.

Lemma nw_pos : 0 < bits -> 0 < nw.
Proof. pose proof nw_bounds. nia. Qed.

Lemma idx_lt i : i < bits -> i / w < nw.
Proof. pose proof nw_bounds. intros Hi. apply Nat.div_lt_upper_bound; lia. Qed.

Lemma divmod_eq i p : (i / w =? p / w) && (i mod w =? p mod w) = (i =? p).
Proof.
  destruct (Nat.eqb_spec i p) as [->|Hne].
  - now rewrite !Nat.eqb_refl.
  - apply andb_false_iff.
    destruct (Nat.eqb_spec (i / w) (p / w)) as [Hq|Hq]; [right|now left].
    apply Nat.eqb_neq. intros Hr. apply Hne.
    rewrite (Nat.div_mod i w), (Nat.div_mod p w) by lia. now rewrite Hq, Hr.
Qed.

(* in the last word: below the width <-> offset below w - padding *)
Lemma last_word_lt i : 0 < bits -> i / w = nw - 1 -> (i mod w <? w - pad) = (i <? bits).
Proof.
  intros Hb Hq. pose proof pad_eq. pose proof pad_lt. pose proof (nw_pos Hb).
  pose proof (Nat.div_mod i w ltac:(lia)) as Hi. rewrite Hq in Hi.
  destruct (Nat.ltb_spec (i mod w) (w - pad)); destruct (Nat.ltb_spec i bits); try reflexivity; nia.
Qed.

Lemma head_word_lt i : i / w < nw - 1 -> i < bits.
Proof.
  intros Hq. pose proof pad_eq. pose proof pad_lt.
  pose proof (Nat.div_mod i w ltac:(lia)). pose proof (Nat.mod_upper_bound i w ltac:(lia)). nia.
Qed.

Lemma no_padding_full : pad = 0 -> forall i, i / w < nw -> i < bits.
Proof.
  intros Hp i Hq. pose proof pad_eq.
  pose proof (Nat.div_mod i w ltac:(lia)). pose proof (Nat.mod_upper_bound i w ltac:(lia)). nia.
Qed.

End Layout.

(* offset_in_word masks with w - 1: the remainder when w is a power of two *)
Lemma offset_mod k pos : offset_in_word (2 ^ k) pos = N.of_nat (pos mod 2 ^ k).
Proof.
  unfold offset_in_word. rewrite Nat2N.inj_pow. change (N.of_nat 2) with 2%N.
  rewrite N.sub_1_r, <- N.ones_equiv, N.land_ones.
  rewrite Nat2N.inj_mod, Nat2N.inj_pow. reflexivity.
Qed.

Lemma pow2_pos k : 0 < 2 ^ k.
Proof. pose proof (Nat.pow_nonzero 2 k). lia. Qed.

(* the precondition of set_bit/reset_bit/flip_bit/test_bit holds for every offset handed to them *)
Lemma offset_lt k pos : bit_pos_ok (2 ^ k) (offset_in_word (2 ^ k) pos) = true.
Proof.
  unfold bit_pos_ok. rewrite offset_mod. apply N.ltb_lt.
  pose proof (Nat.mod_upper_bound pos (2 ^ k)). pose proof (pow2_pos k). lia.
Qed.

(** * abstraction and invariant *)
Section Abs.
Variable bits : nat.
Variable k : nat.
Notation w := (2 ^ k).
Notation nw := (num_words bits w).
Notation pad := (padding bits w).
Notation mx := (ones w).
Notation pmi := (padding_mask_inv bits w).
Hypothesis Hbits : 0 < bits.

Let Hw : 0 < w := pow2_pos k.

Definition getbit (ws : list N) (i : nat) : bool := tb (nth (i / w) ws 0%N) (i mod w).

(* the std::bitset value a storage array stands for *)
Definition abs (ws : list N) : bset := map (getbit ws) (seq 0 bits).

(* representation invariant: num_words words, each below 2^w, and every bit position at or
   above Bits (the padding of the last word) is zero *)
Definition wf (ws : list N) : Prop :=
  length ws = nw /\ Forall (bnd w) ws /\ forall i, bits <= i -> getbit ws i = false.

Lemma abs_length ws : length (abs ws) = bits.
Proof. unfold abs. now rewrite map_length, seq_length. Qed.

Lemma nth_abs ws i : i < bits -> nth i (abs ws) false = getbit ws i.
Proof.
  intros Hi. unfold abs.
  rewrite (nth_indep _ false (getbit ws 0)) by now rewrite map_length, seq_length.
  rewrite map_nth, seq_nth by exact Hi. reflexivity.
Qed.

Lemma abs_eq_iff a b : abs a = abs b <-> forall i, i < bits -> getbit a i = getbit b i.
Proof.
  split.
  - intros H i Hi. now rewrite <- !nth_abs, H.
  - intros H. unfold abs. apply map_ext_in. intros i Hi. apply in_seq in Hi. apply H. lia.
Qed.

(* a list of Bits booleans is the abstraction of ws when it agrees bit by bit *)
Lemma abs_char ws (l : bset) :
  length l = bits -> (forall i, i < bits -> nth i l false = getbit ws i) -> l = abs ws.
Proof.
  intros Hl H. apply (nth_ext _ _ false false).
  - now rewrite abs_length.
  - intros i Hi. rewrite Hl in Hi. now rewrite nth_abs, H.
Qed.

Lemma getbit_overflow ws i : length ws * w <= i -> getbit ws i = false.
Proof.
  intros Hi. unfold getbit. rewrite nth_overflow; [apply tb_0|].
  apply Nat.div_le_lower_bound; lia.
Qed.

(* two well-formed arrays standing for the same value are the same array *)
Lemma abs_inj a b : wf a -> wf b -> abs a = abs b -> a = b.
Proof.
  intros (Hla & Hba & Hpa) (Hlb & Hbb & Hpb) Habs.
  assert (Hg : forall i, getbit a i = getbit b i).
  { intros i. destruct (Nat.ltb_spec i bits) as [Hlt|Hge].
    - now apply abs_eq_iff.
    - now rewrite Hpa, Hpb. }
  apply (nth_ext _ _ 0%N 0%N); [congruence|].
  intros j Hj. apply (bnd_ext w); [now apply nth_bnd|now apply nth_bnd|].
  intros i Hi. specialize (Hg (j * w + i)). unfold getbit in Hg.
  rewrite Nat.div_add_l, Nat.div_small, Nat.add_0_r in Hg by lia.
  rewrite Nat.add_comm, Nat.mod_add, Nat.mod_small in Hg by lia. exact Hg.
Qed.

(** ** constants *)
Lemma tb_fold_set_bit l : (forall p, In p l -> p < w) -> forall m i,
  tb (fold_left (fun mask p => set_bit mx mask (N.of_nat p)) l m) i
  = (i <? w) && (existsb (Nat.eqb i) l) || (tb m i && ((i <? w) || negb (existsb (fun _ => true) l))).
Proof.
  induction l as [|p l IH]; intros Hl m i; cbn [fold_left existsb].
  - cbn. rewrite andb_false_r, orb_true_r, andb_true_r. reflexivity.
  - rewrite IH by (intros q Hq; apply Hl; now right).
    rewrite tb_set_bit by (apply Hl; now left).
    destruct (i <? w); destruct (i =? p); destruct (existsb (Nat.eqb i) l); destruct (tb m i);
      destruct (existsb (fun _ => true) l); reflexivity.
Qed.

Lemma tb_padding_mask i : tb (padding_mask bits w) i = (w - pad <=? i) && (i <? w).
Proof.
  unfold padding_mask. rewrite tb_fold_set_bit.
  - rewrite tb_0, existsb_eqb_seq. pose proof (pad_lt bits w Hw).
    destruct (Nat.ltb_spec i w); destruct (Nat.leb_spec (w - pad) i);
      destruct (Nat.ltb_spec i (w - pad + (w - (w - pad)))); cbn; try reflexivity; lia.
  - intros p Hp. apply in_seq in Hp. pose proof (pad_lt bits w Hw). lia.
Qed.

Lemma tb_pmi i : tb pmi i = (i <? w - pad).
Proof.
  unfold padding_mask_inv. rewrite tb_wnot, tb_padding_mask.
  destruct (Nat.ltb_spec i w); destruct (Nat.leb_spec (w - pad) i); destruct (Nat.ltb_spec i (w - pad));
    cbn; try reflexivity; lia.
Qed.

Lemma bnd_pmi : bnd w pmi.
Proof. apply bnd_wnot. Qed.

Lemma has_padding_false : has_padding bits w = false -> pad = 0.
Proof. unfold has_padding. intros H. apply negb_false_iff in H. now apply Nat.eqb_eq. Qed.

Lemma has_padding_true : has_padding bits w = true -> 0 < pad.
Proof. unfold has_padding. intros H. apply negb_true_iff, Nat.eqb_neq in H. lia. Qed.

(** ** every mutating operation, bit by bit *)

Lemma getbit_upd ws j f i : j < length ws ->
  getbit (upd ws j f) i = if i / w =? j then tb (f (nth j ws 0%N)) (i mod w) else getbit ws i.
Proof.
  intros Hj. unfold getbit. rewrite nth_upd.
  replace (j <? length ws) with true by (symmetry; now apply Nat.ltb_lt). rewrite andb_true_r.
  destruct (i / w =? j); reflexivity.
Qed.

Lemma modw_lt i : (i mod w <? w) = true.
Proof. apply Nat.ltb_lt. apply Nat.mod_upper_bound. lia. Qed.

Section Single.
Variable ws : list N.
Hypothesis Hlen : length ws = nw.
Variable pos : nat.
Hypothesis Hpos : pos < bits.

Let Hidx : pos / w < length ws.
Proof. rewrite Hlen. now apply idx_lt. Qed.
Let Hoff : pos mod w < w.
Proof. apply Nat.mod_upper_bound. lia. Qed.

Lemma getbit_set_raw v i :
  getbit (set_raw w mx ws pos v) i = if i =? pos then v else getbit ws i.
Proof.
  unfold set_raw, transform_bit, word_index. rewrite getbit_upd by exact Hidx.
  rewrite offset_mod, tb_set_bit_to by exact Hoff. rewrite modw_lt, andb_true_l.
  rewrite <- (divmod_eq w Hw i pos). fold (getbit ws i).
  destruct (i / w =? pos / w) eqn:E; [|reflexivity].
  apply Nat.eqb_eq in E. cbn [andb]. unfold getbit. now rewrite E.
Qed.

Lemma getbit_reset_raw i :
  getbit (reset_raw w mx ws pos) i = if i =? pos then false else getbit ws i.
Proof.
  unfold reset_raw, transform_bit, word_index. rewrite getbit_upd by exact Hidx.
  rewrite offset_mod, tb_reset_bit by exact Hoff. rewrite modw_lt, andb_true_l.
  rewrite <- (divmod_eq w Hw i pos). fold (getbit ws i).
  destruct (i / w =? pos / w) eqn:E; [|reflexivity].
  apply Nat.eqb_eq in E. cbn [andb]. unfold getbit. now rewrite E.
Qed.

Lemma getbit_flip_raw i :
  getbit (flip_raw w mx ws pos) i = if i =? pos then negb (getbit ws i) else getbit ws i.
Proof.
  unfold flip_raw, transform_bit, word_index. rewrite getbit_upd by exact Hidx.
  rewrite offset_mod, tb_flip_bit by exact Hoff. rewrite modw_lt, andb_true_l.
  rewrite <- (divmod_eq w Hw i pos). fold (getbit ws i).
  destruct (i / w =? pos / w) eqn:E; [|reflexivity].
  apply Nat.eqb_eq in E. cbn [andb]. unfold getbit. now rewrite E.
Qed.

Lemma test_raw_getbit : test_raw w mx ws pos = getbit ws pos.
Proof.
  unfold test_raw, word_index. rewrite offset_mod, test_bit_tb by exact Hoff. reflexivity.
Qed.

End Single.

Lemma getbit_set_all ws i : length ws = nw -> getbit (set_all bits w mx pmi ws) i = (i <? bits).
Proof.
  intros Hlen. unfold set_all.
  pose proof (nw_pos bits w Hw Hbits) as Hnw.
  assert (Hfill : forall j, getbit (map (fun _ => mx) ws) j = (j / w <? nw)).
  { intros j. unfold getbit. rewrite nth_map0, Hlen.
    destruct (j / w <? nw); [now rewrite tb_ones, modw_lt|apply tb_0]. }
  destruct (has_padding bits w) eqn:Hp.
  - rewrite getbit_upd by (rewrite map_length; lia).
    destruct (Nat.eqb_spec (i / w) (nw - 1)) as [E|E].
    + rewrite tb_pmi. now apply last_word_lt.
    + rewrite Hfill. destruct (Nat.ltb_spec (i / w) nw) as [Hlt|Hge].
      * symmetry. apply Nat.ltb_lt. apply (head_word_lt bits w Hw). lia.
      * symmetry. apply Nat.ltb_ge. pose proof (nw_bounds bits w Hw).
        pose proof (Nat.div_mod i w ltac:(lia)). nia.
  - rewrite Hfill. apply has_padding_false in Hp.
    destruct (Nat.ltb_spec (i / w) nw) as [Hlt|Hge].
    + symmetry. apply Nat.ltb_lt. now apply (no_padding_full bits w Hw Hp).
    + symmetry. apply Nat.ltb_ge. pose proof (nw_bounds bits w Hw).
      pose proof (Nat.div_mod i w ltac:(lia)). nia.
Qed.

Lemma getbit_reset_all ws i : getbit (reset_all ws) i = false.
Proof.
  unfold getbit, reset_all. rewrite nth_map0. destruct (_ <? _); apply tb_0.
Qed.

Lemma getbit_flip_all ws i : length ws = nw ->
  getbit (flip_all bits w mx pmi ws) i = (i <? bits) && negb (getbit ws i).
Proof.
  intros Hlen. unfold flip_all.
  pose proof (nw_pos bits w Hw Hbits) as Hnw.
  assert (Hflip : forall j, getbit (map (wnot mx) ws) j = (j / w <? nw) && negb (getbit ws j)).
  { intros j. unfold getbit. rewrite nth_map0, Hlen.
    destruct (j / w <? nw); [now rewrite tb_wnot, modw_lt|apply tb_0]. }
  assert (Hout : forall j, nw <= j / w -> (j <? bits) = false).
  { intros j Hj. apply Nat.ltb_ge. pose proof (nw_bounds bits w Hw).
    pose proof (Nat.div_mod j w ltac:(lia)). nia. }
  destruct (has_padding bits w) eqn:Hp.
  - rewrite getbit_upd by (rewrite map_length; lia).
    destruct (Nat.eqb_spec (i / w) (nw - 1)) as [E|E].
    + rewrite tb_trunc, tb_land, tb_pmi, modw_lt, andb_true_r.
      rewrite (last_word_lt bits w Hw i Hbits E).
      rewrite nth_map0, Hlen. replace (nw - 1 <? nw) with true by (symmetry; apply Nat.ltb_lt; lia).
      rewrite tb_wnot, modw_lt, andb_true_l. unfold getbit. rewrite E. apply andb_comm.
    + rewrite Hflip. destruct (Nat.ltb_spec (i / w) nw) as [Hlt|Hge].
      * replace (i <? bits) with true; [reflexivity|].
        symmetry. apply Nat.ltb_lt. apply (head_word_lt bits w Hw). lia.
      * now rewrite Hout.
  - rewrite Hflip. apply has_padding_false in Hp.
    destruct (Nat.ltb_spec (i / w) nw) as [Hlt|Hge].
    + replace (i <? bits) with true; [reflexivity|].
      symmetry. apply Nat.ltb_lt. now apply (no_padding_full bits w Hw Hp).
    + now rewrite Hout.
Qed.

Lemma getbit_zip (f : N -> N -> N) (g : bool -> bool -> bool) a b i :
  (forall x y j, tb (f x y) j = g (tb x j) (tb y j)) -> g false false = false ->
  length a = length b ->
  getbit (zip_words mx f a b) i = g (getbit a i) (getbit b i).
Proof.
  intros Hf Hg Hl. unfold getbit, zip_words.
  rewrite (nth_zip0 (fun x y => trunc mx (f x y))) by exact Hl.
  destruct (Nat.ltb_spec (i / w) (length a)) as [Hlt|Hge].
  - now rewrite tb_trunc, Hf, modw_lt, andb_true_r.
  - rewrite (nth_overflow a), (nth_overflow b) by lia. now rewrite !tb_0, Hg.
Qed.

(** ** the invariant is kept *)
Lemma wf_zero : wf (zero_words bits w).
Proof.
  unfold zero_words. repeat split.
  - apply repeat_length.
  - apply Forall_forall. intros x Hx. apply repeat_spec in Hx. subst. apply bnd_0.
  - intros i _. unfold getbit. rewrite nth_repeat. apply tb_0.
Qed.

Lemma getbit_zero i : getbit (zero_words bits w) i = false.
Proof.
  unfold getbit, zero_words. rewrite nth_repeat. apply tb_0.
Qed.

Lemma wf_set_raw ws pos v : wf ws -> pos < bits -> wf (set_raw w mx ws pos v).
Proof.
  intros (Hl & Hb & Hp) Hpos. repeat split.
  - unfold set_raw, transform_bit. now rewrite upd_length.
  - unfold set_raw, transform_bit. apply Forall_upd; [exact Hb|]. intros x. apply bnd_set_bit_to.
  - intros i Hi. rewrite getbit_set_raw by assumption.
    destruct (Nat.eqb_spec i pos); [lia|now apply Hp].
Qed.

Lemma wf_reset_raw ws pos : wf ws -> pos < bits -> wf (reset_raw w mx ws pos).
Proof.
  intros (Hl & Hb & Hp) Hpos. repeat split.
  - unfold reset_raw, transform_bit. now rewrite upd_length.
  - unfold reset_raw, transform_bit. apply Forall_upd; [exact Hb|]. intros x. apply bnd_reset_bit.
  - intros i Hi. rewrite getbit_reset_raw by assumption.
    destruct (Nat.eqb_spec i pos); [lia|now apply Hp].
Qed.

Lemma wf_flip_raw ws pos : wf ws -> pos < bits -> wf (flip_raw w mx ws pos).
Proof.
  intros (Hl & Hb & Hp) Hpos. repeat split.
  - unfold flip_raw, transform_bit. now rewrite upd_length.
  - unfold flip_raw, transform_bit. apply Forall_upd; [exact Hb|]. intros x. apply bnd_flip_bit.
  - intros i Hi. rewrite getbit_flip_raw by assumption.
    destruct (Nat.eqb_spec i pos); [lia|now apply Hp].
Qed.

Lemma Forall_map_const (P : N -> Prop) (c : N) (l : list N) : P c -> Forall P (map (fun _ => c) l).
Proof. intros Hc. induction l; cbn; constructor; auto. Qed.

Lemma wf_set_all ws : length ws = nw -> wf (set_all bits w mx pmi ws).
Proof.
  intros Hl. repeat split.
  - unfold set_all. destruct (has_padding bits w); rewrite ?upd_length, map_length; exact Hl.
  - unfold set_all. destruct (has_padding bits w).
    + apply Forall_upd; [apply Forall_map_const, bnd_ones|]. intros _. apply bnd_pmi.
    + apply Forall_map_const, bnd_ones.
  - intros i Hi. rewrite getbit_set_all by exact Hl. now apply Nat.ltb_ge.
Qed.

Lemma wf_reset_all ws : length ws = nw -> wf (reset_all ws).
Proof.
  intros Hl. repeat split.
  - unfold reset_all. now rewrite map_length.
  - apply Forall_map_const, bnd_0.
  - intros i _. apply getbit_reset_all.
Qed.

Lemma wf_flip_all ws : length ws = nw -> wf (flip_all bits w mx pmi ws).
Proof.
  intros Hl. repeat split.
  - unfold flip_all. destruct (has_padding bits w); rewrite ?upd_length, map_length; exact Hl.
  - assert (Hm : Forall (bnd w) (map (wnot mx) ws)).
    { apply Forall_forall. intros x Hx. apply in_map_iff in Hx. destruct Hx as (y & <- & _). apply bnd_wnot. }
    unfold flip_all. destruct (has_padding bits w); [|exact Hm].
    apply Forall_upd; [exact Hm|]. intros x. apply bnd_trunc.
  - intros i Hi. rewrite getbit_flip_all by exact Hl.
    replace (i <? bits) with false by (symmetry; now apply Nat.ltb_ge). reflexivity.
Qed.

Lemma wf_zip f g a b :
  (forall x y j, tb (f x y) j = g (tb x j) (tb y j)) -> g false false = false ->
  wf a -> wf b -> wf (zip_words mx f a b).
Proof.
  intros Hf Hg (Hla & Hba & Hpa) (Hlb & Hbb & Hpb). repeat split.
  - unfold zip_words. rewrite map_length, combine_length. lia.
  - unfold zip_words. apply Forall_forall. intros x Hx. apply in_map_iff in Hx.
    destruct Hx as (y & <- & _). apply bnd_trunc.
  - intros i Hi. rewrite (getbit_zip f g) by (try assumption; congruence).
    now rewrite Hpa, Hpb.
Qed.

End Abs.
