(* C17 proofs, part 7: the width Bits = 0 (std::bitset<0> is a valid type: no bits, every positional member throws,
   to_string() is empty, all() is true).  basic_bitset<0, W> has no storage word, no padding; the state of the
   two-register machine is ([], []) for ever. *)
From Tetl Require Import Lib.Base C17.Ops C17.Model C17.Spec C17.Words C17.Abs C17.Observers C17.Ctors.
From Coq Require Import NArith ZifyNat ZifyN ZifyBool.
Local Open Scope nat_scope.
Ltac Zify.zify_post_hook ::= Z.to_euclidean_division_equations.

Section Zero.
Variable k : nat.
Notation w := (2 ^ k).
Notation mx := (ones w).
Notation pmi := (padding_mask_inv 0 w).
Notation m64 := (ones 64).

Lemma num_words_0 : num_words 0 w = 0.
Proof. unfold num_words. pose proof (pow2_pos k). apply Nat.div_small. lia. Qed.

Lemma has_padding_0 : has_padding 0 w = false.
Proof. unfold has_padding, padding. now rewrite num_words_0. Qed.

Lemma zero_words_0 : zero_words 0 w = [].
Proof. unfold zero_words. now rewrite num_words_0. Qed.

Lemma init_0 : init_m 0 w = ([], []).
Proof. unfold init_m, init_state. now rewrite zero_words_0. Qed.

Lemma of_ullong_0 val : of_ullong 0 w mx m64 val = [].
Proof. unfold of_ullong. cbn [Nat.min seq fold_left]. apply zero_words_0. Qed.

Lemma set_all_0 : set_all 0 w mx pmi [] = [].
Proof. unfold set_all. rewrite has_padding_0. reflexivity. Qed.

Lemma flip_all_0 : flip_all 0 w mx pmi [] = [].
Proof. unfold flip_all. rewrite has_padding_0. reflexivity. Qed.

(* string constructor: nothing is stored; the precondition fires exactly when std::bitset<0> throws *)
Lemma of_string_0 str pos n zero one :
  match of_string 0 w mx m64 str pos n zero one with
  | Ok ws => ws = [] /\ s_of_string 0 str pos n zero one = SOk []
  | Contract => s_of_string 0 str pos n zero one = SOutOfRange
                \/ s_of_string 0 str pos n zero one = SInvalid
  | _ => False
  end.
Proof.
  unfold of_string, s_of_string.
  destruct (Nat.ltb_spec (length str) pos) as [Hlt|Hge]; [now left|].
  fold (s_rlen str pos n).
  assert (Hrlen : s_rlen str pos n <= length str - pos) by (unfold s_rlen; lia).
  rewrite (forallb_seq_sub 1 Nat.lt_0_1 (fun ch => N.eqb ch zero || N.eqb ch one) str pos (s_rlen str pos n)) by lia.
  destruct (forallb _ (firstn (s_rlen str pos n) (skipn pos str))); cbn [negb]; [|now right].
  rewrite Nat.min_0_r. cbn [seq fold_left Nat.min firstn map rev app Nat.sub repeat].
  split; [apply of_ullong_0|reflexivity].
Qed.

Lemma of_cstring_0 arr counted zero one :
  match of_cstring 0 w mx m64 arr counted zero one with
  | Ok ws => ws = [] /\ s_of_cstring 0 arr counted zero one = SOk []
  | Contract => s_of_cstring 0 arr counted zero one = SOutOfRange
                \/ s_of_cstring 0 arr counted zero one = SInvalid
  | _ => False
  end.
Proof.
  unfold of_cstring, s_of_cstring. change s_npos with npos.
  destruct (N.eqb (if counted then N.of_nat (length arr) else npos) npos).
  - rewrite c_str_view_until_nul. apply of_string_0.
  - apply of_string_0.
Qed.

Definition st0 : state := ([], []).
Definition sst0 : sstate := ([], []).

(* one step from the only state there is *)
Lemma step_0 o :
  match step_m 0 w st0 o with
  | Ok (st', q) => st' = st0 /\ s_step 0 sst0 o = Some (sst0, q)
  | Contract => s_step 0 sst0 o = None
  | _ => False
  end.
Proof.
  unfold step_m, st0, sst0.
  destruct o; cbn [step_k s_step set_pos reset_pos flip_pos test_pos checked Nat.ltb Nat.leb rbind
                   s_put s_flip s_test length];
    try (split; reflexivity); try reflexivity.
  - (* OSetAll *) now rewrite set_all_0.
  - (* OFlipAll *) now rewrite flip_all_0.
  - (* ONot *) now rewrite flip_all_0.
  - (* OInt *) now rewrite of_ullong_0.
  - (* OStr *) pose proof (of_string_0 str pos n zero one) as H.
    destruct (of_string 0 w mx m64 str pos n zero one) as [c| | |]; cbn [rbind]; try contradiction.
    + destruct H as (-> & ->). split; reflexivity.
    + destruct H as [-> | ->]; reflexivity.
  - (* OCStr *) pose proof (of_cstring_0 str counted zero one) as H.
    destruct (of_cstring 0 w mx m64 str counted zero one) as [c| | |]; cbn [rbind]; try contradiction.
    + destruct H as (-> & ->). split; reflexivity.
    + destruct H as [-> | ->]; reflexivity.
Qed.

Lemma observe_0 : observe_m 0 w st0 = s_observe 0 sst0.
Proof.
  unfold observe_m, observe_k, s_observe, st0, sst0, all_m. rewrite has_padding_0. reflexivity.
Qed.

Lemma run_0 ops : run_m 0 w st0 ops = s_run 0 sst0 ops.
Proof.
  induction ops as [|o rest IH]; [reflexivity|].
  unfold run_m in *. cbn [run_k s_run].
  pose proof (step_0 o) as H. unfold step_m in H.
  destruct (step_k 0 w mx pmi m64 st0 o) as [(st', q)| | |]; try contradiction.
  - destruct H as (-> & ->). fold (observe_m 0 w st0). rewrite observe_0. f_equal. exact IH.
  - rewrite H. f_equal. exact IH.
Qed.

(* EVERY history on a set without bits prints what std::bitset<0> prints; the storage stays empty *)
Theorem zero_width_refines ops :
  run_m 0 w (init_m 0 w) ops = s_run 0 (s_init 0) ops
  /\ forall o, match step_m 0 w (init_m 0 w) o with
               | Ok (st', _) => st' = ([], [])
               | Contract => True
               | _ => False
               end.
Proof.
  rewrite init_0. split; [exact (run_0 ops)|].
  intros o. pose proof (step_0 o) as H. fold st0.
  destruct (step_m 0 w st0 o) as [(st', q)| | |]; try contradiction; [now destruct H|exact I].
Qed.

End Zero.
