From Tetl Require Import Lib.Base C17.Ops C17.Model C17.Spec.
Require Extraction.
Require Import ExtrOcamlBasic.
Extraction Language OCaml.
Extraction "C17_model.ml" wire_anchor
  run_m run_words_m step_m observe_m init_m of_string of_cstring of_ullong to_string_m to_ullong_m count_m all_m any_m none_m
  words_eqb popcount popcount_fallback ones padding_mask padding_mask_inv num_words
  s_run s_step s_observe s_init s_of_string s_of_cstring s_to_string s_count s_value ct_ops ct_check ct_str_ops ct_str_check.
