(* C17 spec: std::bitset<N> ([template.bitset]) as a list of N booleans, element i = bit i.
   Strings are lists of character codes; in a string the LAST character is bit 0.
   Nothing here knows about words, masks or padding. *)
From Tetl Require Import Lib.Base.
From Coq Require Import NArith.
Local Open Scope nat_scope.

Definition bset := list bool.

(* [bitset.members] *)
Definition s_set_all (nb : nat) : bset := repeat true nb.
Definition s_reset_all (nb : nat) : bset := repeat false nb.
Definition s_flip_all (a : bset) : bset := map negb a.
(* set(pos, val): throws out_of_range if pos does not correspond to a valid bit position *)
Definition s_put (a : bset) (pos : nat) (v : bool) : option bset :=
  if pos <? length a then Some (firstn pos a ++ v :: skipn (S pos) a) else None.
Definition s_test (a : bset) (pos : nat) : option bool :=
  if pos <? length a then Some (nth pos a false) else None.
Definition s_flip (a : bset) (pos : nat) : option bset :=
  if pos <? length a then Some (firstn pos a ++ negb (nth pos a false) :: skipn (S pos) a) else None.

Definition s_zip (f : bool -> bool -> bool) (a b : bset) : bset :=
  map (fun p => f (fst p) (snd p)) (combine a b).
Definition s_and := s_zip andb.
Definition s_or := s_zip orb.
Definition s_xor := s_zip xorb.

Definition s_count (a : bset) : nat := length (filter (fun b => b) a).
Definition s_all (a : bset) : bool := forallb (fun b => b) a.
Definition s_any (a : bset) : bool := existsb (fun b => b) a.
Definition s_none (a : bset) : bool := negb (s_any a).
Fixpoint s_eq (a b : bset) : bool :=
  match a, b with
  | [], [] => true
  | x :: a', y :: b' => Bool.eqb x y && s_eq a' b'
  | _, _ => false
  end.

(* [bitset.cons] bitset(unsigned long long val): the first M = min(N, 64) positions from val *)
Definition s_of_ullong (nb : nat) (val : N) : bset :=
  map (fun i => (i <? 64) && N.testbit val (N.of_nat i)) (seq 0 nb).

(* to_ullong: the integral value whose bits are the bits of *this (defined when it fits) *)
Fixpoint s_value (a : bset) : N :=
  match a with [] => 0%N | b :: r => (N.b2n b + 2 * s_value r)%N end.

(* to_string(zero, one): character position N-1-i corresponds to bit i *)
Definition s_to_string (a : bset) (zero one : N) : list N :=
  rev (map (fun b : bool => if b then one else zero) a).

(* [bitset.cons] bitset(str, pos, n, zero, one):
   out_of_range if pos > str.size(); rlen = min(n, str.size() - pos); invalid_argument if any of
   the rlen characters is neither zero nor one; M = min(N, rlen); character pos + M - 1 - i is
   bit i for i < M (one -> 1), all other bits are 0.  A character equal to both zero and one
   cannot be told apart by the standard's wording; zero is taken (libstdc++ does the same). *)
Inductive sres := SOk (a : bset) | SOutOfRange | SInvalid.

Definition s_rlen (str : list N) (pos : nat) (n : N) : nat :=
  N.to_nat (N.min n (N.of_nat (length str - pos))).

Definition s_of_string (nb : nat) (str : list N) (pos : nat) (n : N) (zero one : N) : sres :=
  if length str <? pos then SOutOfRange
  else
    let sub := firstn (s_rlen str pos n) (skipn pos str) in
    if forallb (fun c => N.eqb c zero || N.eqb c one) sub
    then
      let m := Nat.min nb (length sub) in
      SOk (rev (map (fun c => negb (N.eqb c zero)) (firstn m sub)) ++ repeat false (nb - m))
    else SInvalid.

(* [bitset.cons] bitset(const charT* str, n, zero, one): "Effects: As if by
     bitset(n == basic_string_view<charT>::npos ? basic_string_view<charT>(str)
                                                : basic_string_view<charT>(str, n), 0, n, zero, one)".
   The array is arr ++ [0]; basic_string_view(str) ends in front of the first NUL (traits::length). *)
Definition s_npos : N := (2 ^ 64 - 1)%N.

Fixpoint s_until_nul (arr : list N) : list N :=
  match arr with
  | [] => []
  | c :: r => if N.eqb c 0 then [] else c :: s_until_nul r
  end.

Definition s_of_cstring (nb : nat) (arr : list N) (counted : bool) (zero one : N) : sres :=
  let n := if counted then N.of_nat (length arr) else s_npos in
  if N.eqb n s_npos then s_of_string nb (s_until_nul arr) 0 n zero one
  else s_of_string nb (firstn (N.to_nat n) arr) 0 n zero one.

(** * Histories on the spec side: the same two-register machine over std::bitset values.
    None = std::bitset throws out_of_range (set/reset/flip/test, string constructor) or
    invalid_argument (string constructor) or has undefined behaviour (operator[] with pos >= N):
    the documented domain ends there. *)
From Tetl Require Import C17.Ops.

Definition sstate : Type := bset * bset.

Definition s_init (nb : nat) : sstate := (s_reset_all nb, s_reset_all nb).

Definition s_step (nb : nat) (st : sstate) (o : op) : option (sstate * list bool) :=
  let '(cur, oth) := st in
  let upd_cur (r : option bset) := match r with Some c => Some ((c, oth), []) | None => None end in
  match o with
  | OSetAll => Some ((s_set_all nb, oth), [])
  | OResetAll => Some ((s_reset_all nb, oth), [])
  | OFlipAll | ONot => Some ((s_flip_all cur, oth), [])
  | OSet pos v | ORefSet pos v => upd_cur (s_put cur pos v)
  | OReset pos => upd_cur (s_put cur pos false)
  | OFlip pos | ORefFlip pos => upd_cur (s_flip cur pos)
  | ORefCopy pos src =>
      match s_test oth src with Some b => upd_cur (s_put cur pos b) | None => None end
  | OAnd | OAndF => Some ((s_and cur oth, oth), [])
  | OOr | OOrF => Some ((s_or cur oth, oth), [])
  | OXor | OXorF => Some ((s_xor cur oth, oth), [])
  | OInt val => Some ((s_of_ullong nb val, oth), [])
  | OStr str pos n zero one =>
      match s_of_string nb str pos n zero one with SOk c => Some ((c, oth), []) | _ => None end
  | OSwap => Some ((oth, cur), [])
  | OTest pos =>
      match s_test cur pos with Some b => Some ((cur, oth), [b; b; b; negb b]) | None => None end
  | ORefCopySelf pos src =>
      match s_test cur src with Some b => upd_cur (s_put cur pos b) | None => None end
  | OAndSelf => Some ((s_and cur cur, oth), [])
  | OOrSelf => Some ((s_or cur cur, oth), [])
  | OXorSelf => Some ((s_xor cur cur, oth), [])
  | OCStr arr counted zero one =>
      match s_of_cstring nb arr counted zero one with SOk c => Some ((c, oth), []) | _ => None end
  end.

Definition s_observe (nb : nat) (st : sstate) : obs :=
  let '(cur, oth) := st in
  {| o_string := s_to_string cur 48%N 49%N; o_count := s_count cur; o_all := s_all cur;
     o_any := s_any cur; o_none := s_none cur;
     o_ullong := if nb <=? 64 then Some (s_value cur) else None;
     o_eq := s_eq cur oth |}.

Fixpoint s_run (nb : nat) (st : sstate) (ops : list op) : list (option (obs * list bool)) :=
  match ops with
  | [] => []
  | o :: rest =>
      match s_step nb st o with
      | Some (st', q) => Some (s_observe nb st', q) :: s_run nb st' rest
      | None => None :: s_run nb st rest
      end
  end.
