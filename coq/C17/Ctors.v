(* C17 proofs, part 4: the constructors (integer, string) build a well-formed array standing for
   the std::bitset the standard describes. *)
From Tetl Require Import Lib.Base C17.Ops C17.Model C17.Spec C17.Words C17.Abs C17.Observers.
From Coq Require Import NArith ZifyNat ZifyN ZifyBool.
Local Open Scope nat_scope.
Ltac Zify.zify_post_hook ::= Z.to_euclidean_division_equations.

Lemma nth_skipn_add {A} (l : list A) n j d : nth j (skipn n l) d = nth (n + j) l d.
Proof.
  revert l. induction n as [|n IH]; intros l; [reflexivity|].
  destruct l as [|x l]; [now destruct j|]. cbn [skipn plus nth]. apply IH.
Qed.

Lemma nth_map_lt {A B} (f : A -> B) (l : list A) i d d' :
  i < length l -> nth i (map f l) d = f (nth i l d').
Proof.
  intros Hi. rewrite (nth_indep _ d (f d')) by now rewrite map_length. apply map_nth.
Qed.

Section Ctors.
Variable bits : nat.
Variable k : nat.
Notation w := (2 ^ k).
Notation nw := (num_words bits w).
Notation mx := (ones w).
Notation pmi := (padding_mask_inv bits w).
Notation m64 := (ones 64).
Hypothesis Hbits : 0 < bits.
Notation getbit := (getbit k).
Notation abs := (abs bits k).
Notation wf := (wf bits k).

(* a loop  for i < n: ws = body(ws, i)  whose body writes bit i (to f i) and nothing else *)
Lemma fold_bits (body : list N -> nat -> list N) (f : nat -> bool) n :
  n <= bits ->
  (forall ws i, wf ws -> i < n ->
     wf (body ws i) /\ forall j, getbit (body ws i) j = if j =? i then f i else getbit ws j) ->
  forall ws0, wf ws0 ->
  wf (fold_left body (seq 0 n) ws0)
  /\ forall j, getbit (fold_left body (seq 0 n) ws0) j = if j <? n then f j else getbit ws0 j.
Proof.
  intros Hn Hbody ws0 Hwf0. induction n as [|n IH].
  - cbn [seq fold_left]. split; [exact Hwf0|]. intros j. reflexivity.
  - rewrite seq_S, fold_left_app. cbn [fold_left plus].
    destruct IH as (IHwf & IHg); [lia|intros ws i Hws Hi; apply Hbody; [exact Hws|lia]|].
    destruct (Hbody (fold_left body (seq 0 n) ws0) n IHwf ltac:(lia)) as (Hwf' & Hg').
    split; [exact Hwf'|]. intros j. rewrite Hg', IHg.
    destruct (Nat.eqb_spec j n) as [->|Hne].
    + replace (n <? S n) with true by (symmetry; apply Nat.ltb_lt; lia). reflexivity.
    + destruct (Nat.ltb_spec j n); destruct (Nat.ltb_spec j (S n)); try reflexivity; lia.
Qed.

(** ** bitset(unsigned long long) *)
Lemma of_ullong_bits val :
  wf (of_ullong bits w mx m64 val)
  /\ forall j, getbit (of_ullong bits w mx m64 val) j = (j <? Nat.min 64 bits) && tb val j.
Proof.
  unfold of_ullong.
  destruct (fold_bits (fun ws i => set_raw w mx ws i (test_bit m64 val (N.of_nat i)))
                      (fun i => tb val i) (Nat.min 64 bits) ltac:(lia)) with (ws0 := zero_words bits w)
    as (Hwf & Hg).
  - intros ws i Hws Hi. split.
    + apply wf_set_raw; [exact Hbits|exact Hws|lia].
    + intros j. destruct Hws as (Hl & _).
      rewrite (getbit_set_raw bits k Hbits ws Hl i ltac:(lia)).
      rewrite (test_bit_tb 64) by lia. reflexivity.
  - apply wf_zero.
  - split; [exact Hwf|]. intros j. rewrite Hg, getbit_zero.
    destruct (j <? Nat.min 64 bits); reflexivity.
Qed.

Theorem of_ullong_spec val :
  wf (of_ullong bits w mx m64 val) /\ abs (of_ullong bits w mx m64 val) = s_of_ullong bits val.
Proof.
  destruct (of_ullong_bits val) as (Hwf & Hg). split; [exact Hwf|].
  symmetry. apply abs_char.
  - unfold s_of_ullong. now rewrite map_length, seq_length.
  - intros i Hi. rewrite Hg. unfold s_of_ullong.
    rewrite (nth_map_lt _ _ _ _ 0) by now rewrite seq_length.
    rewrite seq_nth by exact Hi. cbn [plus]. unfold tb.
    destruct (Nat.ltb_spec i 64); destruct (Nat.ltb_spec i (Nat.min 64 bits)); try reflexivity; lia.
Qed.

(** ** bitset(string, pos, n, zero, one) *)
Lemma forallb_seq_sub (f : N -> bool) str pos len : pos + len <= length str ->
  forallb (fun i => f (nth (pos + i) str 0%N)) (seq 0 len) = forallb f (firstn len (skipn pos str)).
Proof.
  intros Hlen. apply bool_eq_iff.
  assert (Hsub : length (firstn len (skipn pos str)) = len) by (rewrite firstn_length, skipn_length; lia).
  rewrite (forallb_nth f _ 0%N), forallb_forall, Hsub. split.
  - intros H j Hj. rewrite nth_firstn_lt, nth_skipn_add by exact Hj. apply H. apply in_seq. lia.
  - intros H i Hi. apply in_seq in Hi. specialize (H i ltac:(lia)).
    now rewrite nth_firstn_lt, nth_skipn_add in H by lia.
Qed.

(* for every string, pos, n, zero, one: the precondition fires exactly when std::bitset throws
   (out_of_range or invalid_argument), and otherwise the result stands for the standard's value *)
Theorem of_string_spec str pos n zero one :
  match of_string bits w mx m64 str pos n zero one with
  | Ok ws => wf ws /\ s_of_string bits str pos n zero one = SOk (abs ws)
  | Contract => s_of_string bits str pos n zero one = SOutOfRange
                \/ s_of_string bits str pos n zero one = SInvalid
  | _ => False
  end.
Proof.
  unfold of_string, s_of_string.
  destruct (Nat.ltb_spec (length str) pos) as [Hlt|Hge]; [now left|].
  fold (s_rlen str pos n).
  set (rlen := s_rlen str pos n).
  assert (Hrlen : rlen <= length str - pos) by (unfold rlen, s_rlen; lia).
  set (sub := firstn rlen (skipn pos str)).
  assert (Hsub : length sub = rlen) by (unfold sub; rewrite firstn_length, skipn_length; lia).
  rewrite (forallb_seq_sub (fun ch => N.eqb ch zero || N.eqb ch one) str pos rlen) by lia.
  fold sub.
  destruct (forallb (fun c => N.eqb c zero || N.eqb c one) sub) eqn:Hvalid; cbn [negb]; [|now right].
  set (m := Nat.min rlen bits).
  set (body := fun ws i =>
                 let ch := nth (pos + m - 1 - i) str 0%N in
                 let ws1 := if N.eqb ch one then set_raw w mx ws i true else ws in
                 if N.eqb ch zero then set_raw w mx ws1 i false else ws1).
  destruct (of_ullong_bits 0) as (Hwf0 & Hg0).
  assert (Hch : forall i, i < m ->
            let ch := nth (pos + m - 1 - i) str 0%N in (N.eqb ch zero || N.eqb ch one) = true).
  { intros i Hi. cbv zeta.
    rewrite (forallb_nth _ _ 0%N) in Hvalid. specialize (Hvalid (m - 1 - i)).
    rewrite Hsub in Hvalid. unfold sub in Hvalid.
    rewrite nth_firstn_lt, nth_skipn_add in Hvalid by (unfold m in *; lia).
    replace (pos + (m - 1 - i)) with (pos + m - 1 - i) in Hvalid by lia.
    apply Hvalid. unfold m in *. lia. }
  destruct (fold_bits body (fun i => negb (N.eqb (nth (pos + m - 1 - i) str 0%N) zero)) m
              ltac:(unfold m; lia)) with (ws0 := of_ullong bits w mx m64 0) as (Hwf & Hg).
  - intros ws i Hws Hi. specialize (Hch i Hi). cbv zeta in Hch.
    assert (Hib : i < bits) by (unfold m in Hi; lia).
    unfold body. cbv zeta.
    destruct (N.eqb (nth (pos + m - 1 - i) str 0%N) zero) eqn:Ez.
    + (* the character is zero (and possibly one as well): the bit ends up cleared *)
      set (ws1 := if N.eqb _ one then set_raw w mx ws i true else ws).
      assert (Hws1 : wf ws1) by (unfold ws1; destruct (N.eqb _ one); [now apply wf_set_raw|exact Hws]).
      split; [now apply wf_set_raw|].
      intros j. destruct (Hws1) as (Hl1 & _). rewrite (getbit_set_raw bits k Hbits ws1 Hl1 i Hib).
      destruct (Nat.eqb_spec j i) as [->|Hne]; [reflexivity|].
      unfold ws1. destruct (N.eqb _ one); [|reflexivity].
      destruct Hws as (Hl & _). rewrite (getbit_set_raw bits k Hbits ws Hl i Hib).
      now replace (j =? i) with false by (symmetry; now apply Nat.eqb_neq).
    + cbn [orb] in Hch. rewrite Hch.
      split; [now apply wf_set_raw|].
      intros j. destruct Hws as (Hl & _). rewrite (getbit_set_raw bits k Hbits ws Hl i Hib). reflexivity.
  - exact Hwf0.
  - fold body. split; [exact Hwf|]. f_equal.
    assert (Hm : Nat.min bits (length sub) = m) by (rewrite Hsub; unfold m; lia).
    rewrite Hm.
    apply abs_char.
    + rewrite app_length, rev_length, map_length, firstn_length, repeat_length, Hsub. unfold m. lia.
    + intros i Hi. rewrite Hg, Hg0.
      destruct (Nat.ltb_spec i m) as [Him|Him].
      * rewrite app_nth1 by (rewrite rev_length, map_length, firstn_length, Hsub; unfold m in *; lia).
        rewrite rev_nth by (rewrite map_length, firstn_length, Hsub; unfold m in *; lia).
        rewrite map_length, firstn_length, Hsub.
        replace (Nat.min m rlen) with m by (unfold m; lia).
        rewrite (nth_map_lt _ _ _ _ 0%N) by (rewrite firstn_length, Hsub; unfold m in *; lia).
        rewrite nth_firstn_lt by lia. unfold sub.
        rewrite nth_firstn_lt, nth_skipn_add by (unfold m in *; lia).
        replace (pos + (m - S i)) with (pos + m - 1 - i) by lia. reflexivity.
      * rewrite app_nth2 by (rewrite rev_length, map_length, firstn_length, Hsub; unfold m in *; lia).
        rewrite tb_0, andb_false_r. apply nth_repeat.
Qed.

(** ** bitset(char const*, n, zero, one): delegates to the string_view constructor *)
Lemma c_str_view_until_nul arr : c_str_view arr = s_until_nul arr.
Proof. induction arr as [|c r IH]; [reflexivity|]. cbn [c_str_view s_until_nul]. now rewrite IH. Qed.

Theorem of_cstring_spec arr counted zero one :
  match of_cstring bits w mx m64 arr counted zero one with
  | Ok ws => wf ws /\ s_of_cstring bits arr counted zero one = SOk (abs ws)
  | Contract => s_of_cstring bits arr counted zero one = SOutOfRange
                \/ s_of_cstring bits arr counted zero one = SInvalid
  | _ => False
  end.
Proof.
  unfold of_cstring, s_of_cstring. change s_npos with npos.
  set (n := if counted then N.of_nat (length arr) else npos).
  destruct (N.eqb n npos).
  - rewrite c_str_view_until_nul. apply of_string_spec.
  - apply of_string_spec.
Qed.

End Ctors.
