(* C17: the alphabet of operation histories, shared by the model and the spec.
   The machine has two registers (the current set and the other set). *)
From Tetl Require Import Lib.Base.
From Coq Require Import NArith.
Local Open Scope nat_scope.

Inductive op :=
| OSetAll | OResetAll | OFlipAll          (* cur.set() / reset() / flip() *)
| ONot                                    (* cur = ~cur   (a flipped copy of cur is assigned back) *)
| OSet (pos : nat) (value : bool)         (* cur.set(pos, value)   / unchecked_set *)
| OReset (pos : nat)                      (* cur.reset(pos)        / unchecked_reset *)
| OFlip (pos : nat)                       (* cur.flip(pos)         / unchecked_flip *)
| ORefSet (pos : nat) (value : bool)      (* cur[pos] = value *)
| ORefCopy (pos src : nat)                (* cur[pos] = other[src] (reference const& overload) *)
| ORefFlip (pos : nat)                    (* cur[pos].flip() *)
| OAnd | OOr | OXor                       (* cur &= other, |=, ^= *)
| OAndF | OOrF | OXorF                    (* cur = cur & other, |, ^   (bitset(lhs) &= rhs) *)
| OInt (val : N)                          (* cur = bitset(val) *)
| OStr (str : list N) (pos : nat) (n : N) (zero one : N)   (* cur = bitset(str, pos, n, zero, one) *)
| OSwap                                   (* exchange the roles of the two registers *)
| OTest (pos : nat).                      (* queries: test(pos), const [](pos), bool(cur[pos]), ~cur[pos] *)

(* what is observed after every step of a history: to_string('0','1'), count, all, any, none,
   to_ullong/to_ulong (None when Bits > 64: not instantiable in etl), current == other *)
Record obs := { o_string : list N; o_count : nat; o_all : bool; o_any : bool; o_none : bool;
                o_ullong : option N; o_eq : bool }.
