(* C17: the alphabet of operation histories, shared by the model and the spec.
   The machine has two registers (the current set and the other set). *)
From Tetl Require Import Lib.Base.
From Coq Require Import NArith.
Local Open Scope nat_scope.

Inductive op :=
| OSetAll | OResetAll | OFlipAll          (* cur.set() / reset() / flip() *)
| ONot                                    (* cur = ~cur   (a flipped copy of cur is assigned back) *)
| OSet (pos : nat) (value : bool)         (* cur.set(pos, value)   / unchecked_set *)
| OReset (pos : nat)                      (* cur.reset(pos)        / unchecked_reset *)
| OFlip (pos : nat)                       (* cur.flip(pos)         / unchecked_flip *)
| ORefSet (pos : nat) (value : bool)      (* cur[pos] = value *)
| ORefCopy (pos src : nat)                (* cur[pos] = other[src] (reference const& overload) *)
| ORefFlip (pos : nat)                    (* cur[pos].flip() *)
| OAnd | OOr | OXor                       (* cur &= other, |=, ^= *)
| OAndF | OOrF | OXorF                    (* cur = cur & other, |, ^   (bitset(lhs) &= rhs) *)
| OInt (val : N)                          (* cur = bitset(val) *)
| OStr (str : list N) (pos : nat) (n : N) (zero one : N)   (* cur = bitset(str, pos, n, zero, one) *)
| OSwap                                   (* exchange the roles of the two registers *)
| OTest (pos : nat)                       (* queries: test(pos), const [](pos), bool(cur[pos]), ~cur[pos] *)
(* aliasing: both operands are the SAME object (added by the review, see props/C17/REVIEW.md) *)
| ORefCopySelf (pos src : nat)            (* cur[pos] = cur[src]   (two proxies into one object; pos = src: the same bit) *)
| OAndSelf | OOrSelf | OXorSelf           (* cur &= cur, cur |= cur, cur ^= cur *)
(* bitset(char const* str, n, zero, one).  [str] = the characters of the array in front of its terminating
   NUL (the array is str ++ [0]); counted = true: n = length str (characters behind the first n are never
   read, so this is every call with n <> npos up to the unread tail); counted = false: n = npos, the
   string ends at its first NUL character (characters behind it are never read) *)
| OCStr (str : list N) (counted : bool) (zero one : N).

(* what is observed after every step of a history: to_string('0','1'), count, all, any, none,
   to_ullong/to_ulong (None when Bits > 64: not instantiable in etl), current == other *)
Record obs := { o_string : list N; o_count : nat; o_all : bool; o_any : bool; o_none : bool;
                o_ullong : option N; o_eq : bool }.

(** * two fixed scripts that the harness also evaluates in a constant expression (op "ct"):
    the history, and the predicate on its observations that the C++ script checks *)
Definition ct_ops (bits : nat) : list op :=
  [OSetAll; OFlipAll; OFlipAll; OSwap; OInt 9223372036854775809; OXor; ORefSet (bits - 1) true;
   ORefFlip 0; OOr; OAndF].

Definition ct_expect (bits : nat) : nat := if 64 <=? bits then 2 else 1.

Definition ct_check (bits : nat) (r : list (option (obs * list bool))) : bool :=
  match map (option_map fst) r with
  | [Some a1; Some a2; Some a3; Some a4; Some a5; Some a6; Some _; Some _; Some a9; Some a10] =>
      (o_all a1 && (o_count a1 =? bits)) && o_none a2 && (o_all a3 && (o_count a3 =? bits)) && o_none a4
      && (o_count a5 =? ct_expect bits)
      && ((o_count a6 =? bits - ct_expect bits) && negb (o_eq a6))
      && (o_eq a9 && o_all a9) && (o_count a10 =? bits)
  | _ => false
  end.

Definition ct_str_ops (bits : nat) : list op :=
  [OStr [49; 48]%N 0 18446744073709551615 48 49; OTest (if 2 <=? bits then 1 else 0); ONot].

Definition ct_str_check (bits : nat) (r : list (option (obs * list bool))) : bool :=
  match r with
  | [Some (a1, _); Some (_, q); Some (a3, _)] =>
      (o_count a1 =? 1)
      && (match o_ullong a1 with Some v => N.eqb v (if 2 <=? bits then 2 else 1) | None => 64 <? bits end)
      && (match q with [true; true; true; false] => true | _ => false end)
      && (length (o_string a3) =? bits)
      && N.eqb (last (o_string a3) 0%N) (if 2 <=? bits then 49 else 48)
  | _ => false
  end.
