(* C17 proofs, part 5: every step of the two-register machine refines std::bitset, keeps the
   representation invariant, and therefore whole histories print the same observations. *)
From Tetl Require Import Lib.Base C17.Ops C17.Model C17.Spec C17.Words C17.Abs C17.Observers C17.Ctors.
From Coq Require Import NArith ZifyNat ZifyN ZifyBool.
Local Open Scope nat_scope.
Ltac Zify.zify_post_hook ::= Z.to_euclidean_division_equations.

Lemma nth_put {A} (l : list A) p v i d : p < length l ->
  nth i (firstn p l ++ v :: skipn (S p) l) d = if i =? p then v else nth i l d.
Proof.
  intros Hp.
  assert (Hf : length (firstn p l) = p) by (rewrite firstn_length; lia).
  destruct (Nat.ltb_spec i p) as [Hlt|Hge].
  - rewrite app_nth1 by lia. rewrite nth_firstn_lt by exact Hlt.
    now replace (i =? p) with false by (symmetry; apply Nat.eqb_neq; lia).
  - rewrite app_nth2 by lia. rewrite Hf.
    destruct (Nat.eqb_spec i p) as [->|Hne].
    + now rewrite Nat.sub_diag.
    + replace (i - p) with (S (i - p - 1)) by lia. cbn [nth].
      rewrite nth_skipn_add. f_equal. lia.
Qed.

Lemma put_length {A} (l : list A) p v : p < length l ->
  length (firstn p l ++ v :: skipn (S p) l) = length l.
Proof.
  intros Hp. rewrite app_length, firstn_length. cbn [length]. rewrite skipn_length. lia.
Qed.

Section Hist.
Variable bits : nat.
Variable k : nat.
Notation w := (2 ^ k).
Notation nw := (num_words bits w).
Notation mx := (ones w).
Notation pmi := (padding_mask_inv bits w).
Notation m64 := (ones 64).
Hypothesis Hbits : 0 < bits.
Notation getbit := (getbit k).
Notation abs := (abs bits k).
Notation wf := (wf bits k).

Definition wf2 (st : state) : Prop := wf (fst st) /\ wf (snd st).
Definition abs2 (st : state) : sstate := (abs (fst st), abs (snd st)).

(** ** each mutator against the spec function *)
Lemma set_pos_spec ws pos v : wf ws ->
  match set_pos bits w mx ws pos v with
  | Ok ws' => wf ws' /\ s_put (abs ws) pos v = Some (abs ws')
  | Contract => s_put (abs ws) pos v = None
  | _ => False
  end.
Proof.
  intros Hwf. unfold set_pos, checked, s_put. rewrite abs_length.
  destruct (Nat.ltb_spec pos bits) as [Hlt|Hge]; [|reflexivity].
  split; [now apply wf_set_raw|]. f_equal. apply abs_char.
  - rewrite put_length; rewrite abs_length; [reflexivity|exact Hlt].
  - intros i Hi. rewrite nth_put by now rewrite abs_length.
    destruct Hwf as (Hl & _). rewrite (getbit_set_raw bits k Hbits ws Hl pos Hlt).
    destruct (i =? pos); [reflexivity|now apply nth_abs].
Qed.

Lemma reset_pos_spec ws pos : wf ws ->
  match reset_pos bits w mx ws pos with
  | Ok ws' => wf ws' /\ s_put (abs ws) pos false = Some (abs ws')
  | Contract => s_put (abs ws) pos false = None
  | _ => False
  end.
Proof.
  intros Hwf. unfold reset_pos, checked, s_put. rewrite abs_length.
  destruct (Nat.ltb_spec pos bits) as [Hlt|Hge]; [|reflexivity].
  split; [now apply wf_reset_raw|]. f_equal. apply abs_char.
  - rewrite put_length; rewrite abs_length; [reflexivity|exact Hlt].
  - intros i Hi. rewrite nth_put by now rewrite abs_length.
    destruct Hwf as (Hl & _). rewrite (getbit_reset_raw bits k Hbits ws Hl pos Hlt).
    destruct (i =? pos); [reflexivity|now apply nth_abs].
Qed.

Lemma flip_pos_spec ws pos : wf ws ->
  match flip_pos bits w mx ws pos with
  | Ok ws' => wf ws' /\ s_flip (abs ws) pos = Some (abs ws')
  | Contract => s_flip (abs ws) pos = None
  | _ => False
  end.
Proof.
  intros Hwf. unfold flip_pos, checked, s_flip. rewrite abs_length.
  destruct (Nat.ltb_spec pos bits) as [Hlt|Hge]; [|reflexivity].
  split; [now apply wf_flip_raw|]. f_equal. apply abs_char.
  - rewrite put_length; rewrite abs_length; [reflexivity|exact Hlt].
  - intros i Hi. rewrite nth_put by now rewrite abs_length.
    destruct Hwf as (Hl & _). rewrite (getbit_flip_raw bits k Hbits ws Hl pos Hlt).
    destruct (Nat.eqb_spec i pos) as [->|Hne]; [|now apply nth_abs].
    now rewrite nth_abs.
Qed.

Lemma test_pos_spec ws pos : wf ws ->
  match test_pos bits w mx ws pos with
  | Ok b => s_test (abs ws) pos = Some b
  | Contract => s_test (abs ws) pos = None
  | _ => False
  end.
Proof.
  intros (Hl & _). unfold test_pos, checked, s_test. rewrite abs_length.
  destruct (Nat.ltb_spec pos bits) as [Hlt|Hge]; [|reflexivity].
  rewrite (test_raw_getbit bits k Hbits ws Hl pos Hlt), nth_abs by exact Hlt. reflexivity.
Qed.

Lemma set_all_spec ws : wf ws -> abs (set_all bits w mx pmi ws) = s_set_all bits.
Proof.
  intros (Hl & _). symmetry. apply abs_char; [apply repeat_length|].
  intros i Hi. rewrite (getbit_set_all bits k Hbits ws i Hl).
  replace (i <? bits) with true by (symmetry; now apply Nat.ltb_lt).
  unfold s_set_all. rewrite (nth_indep _ false true) by now rewrite repeat_length. apply nth_repeat.
Qed.

Lemma reset_all_spec ws : abs (reset_all ws) = s_reset_all bits.
Proof.
  symmetry. apply abs_char; [apply repeat_length|].
  intros i Hi. rewrite getbit_reset_all. apply nth_repeat.
Qed.

Lemma flip_all_spec ws : wf ws -> abs (flip_all bits w mx pmi ws) = s_flip_all (abs ws).
Proof.
  intros (Hl & _). symmetry. apply abs_char.
  - unfold s_flip_all. now rewrite map_length, abs_length.
  - intros i Hi. rewrite (getbit_flip_all bits k Hbits ws i Hl).
    replace (i <? bits) with true by (symmetry; now apply Nat.ltb_lt). cbn [andb].
    unfold s_flip_all. rewrite (nth_map_lt _ _ _ _ false) by now rewrite abs_length.
    now rewrite nth_abs.
Qed.

Lemma zip_spec f g a b :
  (forall x y j, tb (f x y) j = g (tb x j) (tb y j)) -> g false false = false ->
  wf a -> wf b -> abs (zip_words mx f a b) = s_zip g (abs a) (abs b).
Proof.
  intros Hf Hg (Hla & _) (Hlb & _). symmetry. apply abs_char.
  - unfold s_zip. rewrite map_length, combine_length, !abs_length. lia.
  - intros i Hi. rewrite (getbit_zip bits k Hbits f g) by (try assumption; congruence).
    unfold s_zip.
    rewrite (nth_map_lt _ _ _ _ (false, false)) by (rewrite combine_length, !abs_length; lia).
    rewrite combine_nth by now rewrite !abs_length. cbn [fst snd]. now rewrite !nth_abs.
Qed.

(** ** one step *)
Theorem step_refines st o : wf2 st ->
  match step_m bits w st o with
  | Ok (st', q) => wf2 st' /\ s_step bits (abs2 st) o = Some (abs2 st', q)
  | Contract => s_step bits (abs2 st) o = None
  | _ => False
  end.
Proof.
  destruct st as (cur, oth). intros (Hc & Ho). unfold wf2, abs2 in *. cbn [fst snd] in *.
  unfold step_m.
  assert (Hset : forall pos v,
    match rbind (set_pos bits w mx cur pos v) (fun c => Ok ((c, oth), @nil bool)) with
    | Ok (st', q) => (wf (fst st') /\ wf (snd st'))
        /\ match s_put (abs cur) pos v with Some c => Some ((c, abs oth), []) | None => None end
           = Some ((abs (fst st'), abs (snd st')), q)
    | Contract => match s_put (abs cur) pos v with Some c => Some ((c, abs oth), @nil bool) | None => None end = None
    | _ => False
    end).
  { intros pos v. pose proof (set_pos_spec cur pos v Hc) as H.
    destruct (set_pos bits w mx cur pos v) as [c| | |]; cbn [rbind]; try contradiction.
    - destruct H as (Hwf' & ->). cbn [fst snd]. auto.
    - now rewrite H. }
  assert (Hflip : forall pos,
    match rbind (flip_pos bits w mx cur pos) (fun c => Ok ((c, oth), @nil bool)) with
    | Ok (st', q) => (wf (fst st') /\ wf (snd st'))
        /\ match s_flip (abs cur) pos with Some c => Some ((c, abs oth), []) | None => None end
           = Some ((abs (fst st'), abs (snd st')), q)
    | Contract => match s_flip (abs cur) pos with Some c => Some ((c, abs oth), @nil bool) | None => None end = None
    | _ => False
    end).
  { intros pos. pose proof (flip_pos_spec cur pos Hc) as H.
    destruct (flip_pos bits w mx cur pos) as [c| | |]; cbn [rbind]; try contradiction.
    - destruct H as (Hwf' & ->). cbn [fst snd]. auto.
    - now rewrite H. }
  destruct o; cbn [step_k s_step fst snd].
  - (* OSetAll *) destruct (Hc) as (Hl & _).
    split; [split; [now apply wf_set_all|exact Ho]|]. cbn [fst snd]. now rewrite set_all_spec.
  - (* OResetAll *) destruct (Hc) as (Hl & _).
    split; [split; [now apply wf_reset_all|exact Ho]|]. cbn [fst snd]. now rewrite reset_all_spec.
  - (* OFlipAll *) destruct (Hc) as (Hl & _).
    split; [split; [now apply wf_flip_all|exact Ho]|]. cbn [fst snd]. now rewrite flip_all_spec.
  - (* ONot *) destruct (Hc) as (Hl & _).
    split; [split; [now apply wf_flip_all|exact Ho]|]. cbn [fst snd]. now rewrite flip_all_spec.
  - (* OSet *) apply Hset.
  - (* OReset *) pose proof (reset_pos_spec cur pos Hc) as H.
    destruct (reset_pos bits w mx cur pos) as [c| | |]; cbn [rbind]; try contradiction.
    + destruct H as (Hwf' & ->). cbn [fst snd]. auto.
    + now rewrite H.
  - (* OFlip *) apply Hflip.
  - (* ORefSet *) apply Hset.
  - (* ORefCopy *) pose proof (test_pos_spec oth src Ho) as H.
    destruct (test_pos bits w mx oth src) as [b| | |]; cbn [rbind]; try contradiction.
    + rewrite H. apply Hset.
    + now rewrite H.
  - (* ORefFlip *) apply Hflip.
  - (* OAnd *) split; [split; [apply (wf_zip bits k Hbits N.land andb); auto using tb_land|exact Ho]|].
    cbn [fst snd]. unfold and_words, s_and. now rewrite (zip_spec N.land andb) by auto using tb_land.
  - (* OOr *) split; [split; [apply (wf_zip bits k Hbits N.lor orb); auto using tb_lor|exact Ho]|].
    cbn [fst snd]. unfold or_words, s_or. now rewrite (zip_spec N.lor orb) by auto using tb_lor.
  - (* OXor *) split; [split; [apply (wf_zip bits k Hbits N.lxor xorb); auto using tb_lxor|exact Ho]|].
    cbn [fst snd]. unfold xor_words, s_xor. now rewrite (zip_spec N.lxor xorb) by auto using tb_lxor.
  - (* OAndF *) split; [split; [apply (wf_zip bits k Hbits N.land andb); auto using tb_land|exact Ho]|].
    cbn [fst snd]. unfold and_words, s_and. now rewrite (zip_spec N.land andb) by auto using tb_land.
  - (* OOrF *) split; [split; [apply (wf_zip bits k Hbits N.lor orb); auto using tb_lor|exact Ho]|].
    cbn [fst snd]. unfold or_words, s_or. now rewrite (zip_spec N.lor orb) by auto using tb_lor.
  - (* OXorF *) split; [split; [apply (wf_zip bits k Hbits N.lxor xorb); auto using tb_lxor|exact Ho]|].
    cbn [fst snd]. unfold xor_words, s_xor. now rewrite (zip_spec N.lxor xorb) by auto using tb_lxor.
  - (* OInt *) destruct (of_ullong_spec bits k Hbits val) as (Hwf' & Habs).
    split; [split; [exact Hwf'|exact Ho]|]. cbn [fst snd]. now rewrite Habs.
  - (* OStr *) pose proof (of_string_spec bits k Hbits str pos n zero one) as H.
    destruct (of_string bits w mx m64 str pos n zero one) as [c| | |]; cbn [rbind]; try contradiction.
    + destruct H as (Hwf' & ->). cbn [fst snd]. auto.
    + destruct H as [-> | ->]; reflexivity.
  - (* OSwap *) cbn [fst snd]. auto.
  - (* OTest *) pose proof (test_pos_spec cur pos Hc) as H.
    destruct (test_pos bits w mx cur pos) as [b| | |]; cbn [rbind]; try contradiction.
    + rewrite H. cbn [fst snd]. auto.
    + now rewrite H.
  - (* ORefCopySelf *) pose proof (test_pos_spec cur src Hc) as H.
    destruct (test_pos bits w mx cur src) as [b| | |]; cbn [rbind]; try contradiction.
    + rewrite H. apply Hset.
    + now rewrite H.
  - (* OAndSelf *) split; [split; [apply (wf_zip bits k Hbits N.land andb); auto using tb_land|exact Ho]|].
    cbn [fst snd]. unfold and_words, s_and. now rewrite (zip_spec N.land andb) by auto using tb_land.
  - (* OOrSelf *) split; [split; [apply (wf_zip bits k Hbits N.lor orb); auto using tb_lor|exact Ho]|].
    cbn [fst snd]. unfold or_words, s_or. now rewrite (zip_spec N.lor orb) by auto using tb_lor.
  - (* OXorSelf *) split; [split; [apply (wf_zip bits k Hbits N.lxor xorb); auto using tb_lxor|exact Ho]|].
    cbn [fst snd]. unfold xor_words, s_xor. now rewrite (zip_spec N.lxor xorb) by auto using tb_lxor.
  - (* OCStr *) pose proof (of_cstring_spec bits k Hbits str counted zero one) as H.
    destruct (of_cstring bits w mx m64 str counted zero one) as [c| | |]; cbn [rbind]; try contradiction.
    + destruct H as (Hwf' & ->). cbn [fst snd]. auto.
    + destruct H as [-> | ->]; reflexivity.
Qed.

(** ** what is printed after a step *)
Theorem observe_refines st : wf2 st -> observe_m bits w st = s_observe bits (abs2 st).
Proof.
  destruct st as (cur, oth). intros (Hc & Ho). cbn [fst snd] in *.
  unfold observe_m, observe_k, s_observe, abs2. cbn [fst snd].
  rewrite (to_string_spec bits k Hbits cur _ _ Hc).
  rewrite (count_spec bits k Hbits cur Hc), (all_spec bits k Hbits cur Hc), (any_spec bits k Hbits cur Hc),
    (none_spec bits k Hbits cur Hc), (eq_spec bits k Hbits cur oth Hc Ho).
  destruct (Nat.leb_spec bits 64) as [H64|H64].
  - now rewrite (to_ullong_spec bits k Hbits cur Hc H64).
  - reflexivity.
Qed.

Lemma wf2_init : wf2 (init_m bits w).
Proof. split; apply wf_zero. Qed.

Lemma abs2_init : abs2 (init_m bits w) = s_init bits.
Proof.
  unfold abs2, init_m, init_state, s_init. cbn [fst snd]. now rewrite (abs_zero bits k).
Qed.

(** ** whole histories *)
Theorem run_refines ops : forall st, wf2 st ->
  run_m bits w st ops = s_run bits (abs2 st) ops.
Proof.
  induction ops as [|o rest IH]; intros st Hwf; [reflexivity|].
  unfold run_m in *. cbn [run_k s_run].
  pose proof (step_refines st o Hwf) as H. unfold step_m in H.
  destruct (step_k bits w mx pmi m64 st o) as [(st', q)| | |]; try contradiction.
  - destruct H as (Hwf' & ->). rewrite <- (observe_refines st' Hwf'). unfold observe_m.
    f_equal. now apply IH.
  - rewrite H. f_equal. now apply IH.
Qed.

(* from the value-initialised sets: the model prints what std::bitset prints *)
Theorem history_refines ops :
  run_m bits w (init_m bits w) ops = s_run bits (s_init bits) ops.
Proof.
  rewrite <- abs2_init. apply run_refines. apply wf2_init.
Qed.

(* the invariant along a history: after any prefix the state is well formed *)
Fixpoint final_state (st : state) (ops : list op) : state :=
  match ops with
  | [] => st
  | o :: rest => match step_m bits w st o with Ok (st', _) => final_state st' rest | _ => final_state st rest end
  end.

Theorem invariant_along_history ops : forall st, wf2 st ->
  wf2 (final_state st ops).
Proof.
  induction ops as [|o rest IH]; intros st Hwf; [exact Hwf|].
  cbn [final_state]. pose proof (step_refines st o Hwf) as H.
  destruct (step_m bits w st o) as [(st', q)| | |]; try contradiction; [|now apply IH].
  destruct H as (Hwf' & _). now apply IH.
Qed.

End Hist.
