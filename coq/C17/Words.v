(* C17 proofs, part 1: the word helpers bit by bit.
   [tb x i] = bit i of the word x.  Every helper of Model.v is characterised by the value of each
   of its bits; words of width w are the naturals below 2^w ([bnd]). *)
From Tetl Require Import Lib.Base C17.Ops C17.Model.
From Coq Require Import NArith ZifyNat ZifyN ZifyBool.
Local Open Scope nat_scope.
Ltac Zify.zify_post_hook ::= Z.to_euclidean_division_equations.

Definition tb (x : N) (i : nat) : bool := N.testbit x (N.of_nat i).

Lemma tb_0 i : tb 0 i = false.
Proof. apply N.bits_0. Qed.

Lemma tb_ones w i : tb (ones w) i = (i <? w).
Proof.
  unfold tb, ones. destruct (Nat.ltb_spec i w) as [Hlt|Hge].
  - apply N.ones_spec_low. lia.
  - apply N.ones_spec_high. lia.
Qed.

Lemma tb_shl1 p i : tb (N.shiftl 1 (N.of_nat p)) i = (i =? p).
Proof.
  unfold tb. rewrite N.shiftl_1_l, N.pow2_bits_eqb.
  destruct (Nat.eqb_spec i p) as [->|Hne].
  - apply N.eqb_refl.
  - apply N.eqb_neq. lia.
Qed.

Lemma tb_shl_b2n v p i : tb (N.shiftl (N.b2n v) (N.of_nat p)) i = v && (i =? p).
Proof.
  destruct v; cbn [N.b2n andb].
  - apply tb_shl1.
  - rewrite N.shiftl_0_l. apply tb_0.
Qed.

Lemma tb_land x y i : tb (N.land x y) i = tb x i && tb y i.
Proof. apply N.land_spec. Qed.
Lemma tb_lor x y i : tb (N.lor x y) i = tb x i || tb y i.
Proof. apply N.lor_spec. Qed.
Lemma tb_lxor x y i : tb (N.lxor x y) i = xorb (tb x i) (tb y i).
Proof. apply N.lxor_spec. Qed.

Lemma tb_trunc w x i : tb (trunc (ones w) x) i = tb x i && (i <? w).
Proof. unfold trunc. now rewrite tb_land, tb_ones. Qed.

Lemma tb_wnot w x i : tb (wnot (ones w) x) i = (i <? w) && negb (tb x i).
Proof. unfold wnot, tb. rewrite N.ldiff_spec. fold (tb (ones w) i). now rewrite tb_ones. Qed.

(** words of width w *)
Definition bnd (w : nat) (x : N) : Prop := (x < 2 ^ N.of_nat w)%N.

Lemma bnd_high w x i : bnd w x -> w <= i -> tb x i = false.
Proof.
  intros Hb Hi. unfold tb, bnd in *.
  rewrite <- (N.mod_small x (2 ^ N.of_nat w)) by exact Hb.
  apply N.mod_pow2_bits_high. lia.
Qed.

Lemma N_ext x y : (forall i, tb x i = tb y i) -> x = y.
Proof.
  intros H. apply N.bits_inj. intros n. specialize (H (N.to_nat n)).
  unfold tb in H. now rewrite N2Nat.id in H.
Qed.

Lemma high_bnd w x : (forall i, w <= i -> tb x i = false) -> bnd w x.
Proof.
  intros H. unfold bnd.
  assert (Hx : x = (x mod 2 ^ N.of_nat w)%N).
  { apply N_ext. intros i. unfold tb. destruct (Nat.ltb_spec i w) as [Hlt|Hge].
    - rewrite N.mod_pow2_bits_low by lia. reflexivity.
    - rewrite N.mod_pow2_bits_high by lia. apply H. exact Hge. }
  rewrite Hx. apply N.mod_lt. apply N.pow_nonzero. discriminate.
Qed.

Lemma bnd_ext w x y : bnd w x -> bnd w y -> (forall i, i < w -> tb x i = tb y i) -> x = y.
Proof.
  intros Hx Hy H. apply N_ext. intros i. destruct (Nat.ltb_spec i w) as [Hlt|Hge].
  - now apply H.
  - now rewrite (bnd_high w x i), (bnd_high w y i).
Qed.

Lemma bnd_0 w : bnd w 0.
Proof. apply high_bnd. intros. apply tb_0. Qed.

Lemma bnd_ones w : bnd w (ones w).
Proof. apply high_bnd. intros i Hi. rewrite tb_ones. apply Nat.ltb_ge. exact Hi. Qed.

Lemma bnd_trunc w x : bnd w (trunc (ones w) x).
Proof.
  apply high_bnd. intros i Hi. rewrite tb_trunc.
  replace (i <? w) with false by (symmetry; now apply Nat.ltb_ge). apply andb_false_r.
Qed.

Lemma bnd_wnot w x : bnd w (wnot (ones w) x).
Proof.
  apply high_bnd. intros i Hi. rewrite tb_wnot.
  replace (i <? w) with false by (symmetry; now apply Nat.ltb_ge). reflexivity.
Qed.

Lemma trunc_id w x : bnd w x -> trunc (ones w) x = x.
Proof.
  intros Hb. apply (bnd_ext w); [apply bnd_trunc|exact Hb|].
  intros i Hi. rewrite tb_trunc. replace (i <? w) with true by (symmetry; now apply Nat.ltb_lt).
  apply andb_true_r.
Qed.

(** the four helpers, for a position below the width *)
Section Helpers.
Variable w : nat.
Notation mx := (ones w).

Lemma tb_set_bit x p i : p < w ->
  tb (set_bit mx x (N.of_nat p)) i = (i <? w) && ((i =? p) || tb x i).
Proof.
  intros Hp. unfold set_bit. rewrite tb_trunc, tb_lor, tb_trunc, tb_shl1.
  destruct (Nat.ltb_spec i w); destruct (Nat.eqb_spec i p); destruct (tb x i); cbn; try reflexivity; lia.
Qed.

Lemma tb_set_bit_to x p v i : p < w ->
  tb (set_bit_to mx x (N.of_nat p) v) i = (i <? w) && (if i =? p then v else tb x i).
Proof.
  intros Hp. unfold set_bit_to. rewrite tb_trunc, tb_lor, tb_land, tb_wnot, tb_shl1, tb_shl_b2n.
  destruct (Nat.ltb_spec i w); destruct (Nat.eqb_spec i p); destruct (tb x i); destruct v; cbn; try reflexivity; lia.
Qed.

Lemma tb_reset_bit x p i : p < w ->
  tb (reset_bit mx x (N.of_nat p)) i = (i <? w) && (if i =? p then false else tb x i).
Proof.
  intros Hp. unfold reset_bit. rewrite tb_trunc, tb_land, tb_wnot, tb_shl1.
  destruct (Nat.ltb_spec i w); destruct (Nat.eqb_spec i p); destruct (tb x i); cbn; try reflexivity; lia.
Qed.

Lemma tb_flip_bit x p i : p < w ->
  tb (flip_bit mx x (N.of_nat p)) i = (i <? w) && (if i =? p then negb (tb x i) else tb x i).
Proof.
  intros Hp. unfold flip_bit. rewrite tb_trunc, tb_lxor, tb_trunc, tb_shl1.
  destruct (Nat.ltb_spec i w); destruct (Nat.eqb_spec i p); destruct (tb x i); cbn; try reflexivity; lia.
Qed.

Lemma test_bit_tb x p : p < w -> test_bit mx x (N.of_nat p) = tb x p.
Proof.
  intros Hp. unfold test_bit.
  destruct (tb x p) eqn:Hx.
  - apply negb_true_iff. apply N.eqb_neq. intros H0.
    assert (Hb : tb (trunc mx (N.land x (trunc mx (N.shiftl 1 (N.of_nat p))))) p = false)
      by (rewrite H0; apply tb_0).
    rewrite tb_trunc, tb_land, tb_trunc, tb_shl1, Hx, Nat.eqb_refl in Hb.
    replace (p <? w) with true in Hb by (symmetry; now apply Nat.ltb_lt). discriminate.
  - apply negb_false_iff. apply N.eqb_eq. apply N_ext. intros i.
    rewrite tb_trunc, tb_land, tb_trunc, tb_shl1, tb_0.
    destruct (Nat.eqb_spec i p) as [->|Hne]; [rewrite Hx|]; cbn; now rewrite ?andb_false_r.
Qed.

Lemma bnd_set_bit x p : bnd w (set_bit mx x p).
Proof. apply bnd_trunc. Qed.
Lemma bnd_set_bit_to x p v : bnd w (set_bit_to mx x p v).
Proof. apply bnd_trunc. Qed.
Lemma bnd_reset_bit x p : bnd w (reset_bit mx x p).
Proof. apply bnd_trunc. Qed.
Lemma bnd_flip_bit x p : bnd w (flip_bit mx x p).
Proof. apply bnd_trunc. Qed.

End Helpers.

(** popcount = number of one bits below the width *)
Definition bitcount (w : nat) (x : N) : nat := length (filter (tb x) (seq 0 w)).

Lemma popcount_div2 x : popcount x = (if N.odd x then 1 else 0) + popcount (N.div2 x).
Proof. destruct x as [|[p|p|]]; reflexivity. Qed.

Lemma tb_S_div2 x i : tb x (S i) = tb (N.div2 x) i.
Proof.
  unfold tb. rewrite Nat2N.inj_succ. apply N.testbit_succ_r_div2. lia.
Qed.

Lemma tb_0_odd x : tb x 0 = N.odd x.
Proof. unfold tb. cbn. apply N.bit0_odd. Qed.

Lemma bnd_div2 w x : bnd (S w) x -> bnd w (N.div2 x).
Proof.
  intros Hb. apply high_bnd. intros i Hi. rewrite <- tb_S_div2. apply (bnd_high (S w)); [exact Hb|lia].
Qed.

Lemma filter_seq_shift (f : nat -> bool) n a :
  filter f (seq (S a) n) = map S (filter (fun i => f (S i)) (seq a n)).
Proof.
  revert a. induction n as [|n IH]; intros a; cbn [seq filter map]; [reflexivity|].
  rewrite IH. destruct (f (S a)); reflexivity.
Qed.

Lemma popcount_bitcount w : forall x, bnd w x -> popcount x = bitcount w x.
Proof.
  induction w as [|w IH]; intros x Hb.
  - unfold bnd in Hb. cbn in Hb. assert (x = 0%N) by lia. subst x. reflexivity.
  - rewrite popcount_div2. rewrite (IH (N.div2 x)) by now apply bnd_div2.
    unfold bitcount. cbn [seq filter]. rewrite filter_seq_shift.
    rewrite tb_0_odd.
    rewrite (filter_ext (fun i => tb x (S i)) (tb (N.div2 x))) by (intros; apply tb_S_div2).
    destruct (N.odd x); cbn [length]; rewrite map_length; reflexivity.
Qed.
