(* C17 proofs, part 3: the observers of the model computed on a well-formed storage array equal
   the std::bitset observers of the value it stands for.  This is where the zero padding is
   needed: ==, all, none and count look at whole words. *)
From Tetl Require Import Lib.Base C17.Ops C17.Model C17.Spec C17.Words C17.Abs.
From Coq Require Import NArith ZifyNat ZifyN ZifyBool.
Local Open Scope nat_scope.
Ltac Zify.zify_post_hook ::= Z.to_euclidean_division_equations.

(** * list facts *)
Lemma words_eqb_eq a b : words_eqb a b = true <-> a = b.
Proof.
  revert b. induction a as [|x a IH]; intros [|y b]; cbn [words_eqb]; try (split; congruence).
  rewrite andb_true_iff, N.eqb_eq, IH. split; [intros [-> ->]; reflexivity|intros [= -> ->]; auto].
Qed.

Lemma s_eq_eq a b : s_eq a b = true <-> a = b.
Proof.
  revert b. induction a as [|x a IH]; intros [|y b]; cbn [s_eq]; try (split; congruence).
  rewrite andb_true_iff, eqb_true_iff, IH. split; [intros [-> ->]; reflexivity|intros [= -> ->]; auto].
Qed.

Lemma bool_eq_iff (a b : bool) : (a = true <-> b = true) -> a = b.
Proof. destruct a, b; intuition congruence. Qed.

Lemma forallb_repeat {A} (f : A -> bool) (c : A) (Hc : forall x, f x = true <-> x = c) l :
  forallb f l = true <-> l = repeat c (length l).
Proof.
  induction l as [|x l IH]; cbn [forallb length repeat]; [tauto|].
  rewrite andb_true_iff, Hc, IH. split; [intros [-> <-]; reflexivity|intros [= -> H]; auto].
Qed.

Lemma existsb_repeat_false l : existsb (fun b : bool => b) l = false <-> l = repeat false (length l).
Proof.
  induction l as [|x l IH]; cbn [existsb length repeat]; [tauto|].
  rewrite orb_false_iff, IH. split; [intros [-> <-]; reflexivity|intros [= -> H]; auto].
Qed.

Lemma nth_firstn_lt {A} (l : list A) n j d : j < n -> nth j (firstn n l) d = nth j l d.
Proof.
  revert n j. induction l as [|x l IH]; intros n j Hj.
  - rewrite firstn_nil. reflexivity.
  - destruct n; [lia|]. destruct j; [reflexivity|]. cbn [firstn nth]. apply IH. lia.
Qed.

Lemma forallb_nth {A} (f : A -> bool) l d :
  forallb f l = true <-> forall j, j < length l -> f (nth j l d) = true.
Proof.
  rewrite forallb_forall. split.
  - intros H j Hj. apply H. now apply nth_In.
  - intros H x Hx. destruct (In_nth l x d Hx) as (j & Hj & <-). now apply H.
Qed.

Definition cnt (f : nat -> bool) (a n : nat) : nat := length (filter f (seq a n)).

Lemma cnt_app f a n m : cnt f a (n + m) = cnt f a n + cnt f (a + n) m.
Proof. unfold cnt. now rewrite seq_app, filter_app, app_length. Qed.

Lemma cnt_ext f g a n : (forall i, a <= i < a + n -> f i = g i) -> cnt f a n = cnt g a n.
Proof.
  intros H. unfold cnt. f_equal. apply filter_ext_in. intros i Hi. apply in_seq in Hi. now apply H.
Qed.

Lemma cnt_shift f a n : cnt f a n = cnt (fun t => f (a + t)) 0 n.
Proof.
  induction n as [|n IH]; [reflexivity|].
  unfold cnt in *. rewrite !seq_S, !filter_app, !app_length, IH. cbn [filter].
  rewrite Nat.add_0_l. destruct (f (a + n)); reflexivity.
Qed.

Lemma cnt_false f a n : (forall i, a <= i < a + n -> f i = false) -> cnt f a n = 0.
Proof.
  intros H. unfold cnt. induction n as [|n IH] in a, H |- *; [reflexivity|].
  cbn [seq filter]. rewrite H by lia. apply IH. intros i Hi. apply H. lia.
Qed.

Lemma s_count_map {A} (f : A -> bool) (l : list A) : s_count (map f l) = length (filter f l).
Proof.
  unfold s_count. induction l as [|x l IH]; [reflexivity|].
  cbn [map filter]. destruct (f x); cbn [length]; now rewrite IH.
Qed.

Lemma fold_add_acc (g : N -> nat) l a :
  fold_left (fun acc x => acc + g x) l a = a + fold_left (fun acc x => acc + g x) l 0.
Proof.
  revert a. induction l as [|x l IH]; intros a; cbn [fold_left]; [lia|].
  rewrite (IH (a + g x)), (IH (0 + g x)). lia.
Qed.

Section Obs.
Variable bits : nat.
Variable k : nat.
Notation w := (2 ^ k).
Notation nw := (num_words bits w).
Notation pad := (padding bits w).
Notation mx := (ones w).
Notation pmi := (padding_mask_inv bits w).
Notation m64 := (ones 64).
Hypothesis Hbits : 0 < bits.
Notation getbit := (getbit k).
Notation abs := (abs bits k).
Notation wf := (wf bits k).

Let Hw : 0 < w := pow2_pos k.

(** ** operator== *)
Theorem eq_spec a b : wf a -> wf b -> words_eqb a b = s_eq (abs a) (abs b).
Proof.
  intros Ha Hb. apply bool_eq_iff. rewrite words_eqb_eq, s_eq_eq. split.
  - now intros ->.
  - now apply abs_inj.
Qed.

(** ** none / any *)
Lemma abs_zero : abs (zero_words bits w) = repeat false bits.
Proof.
  symmetry. apply abs_char; [apply repeat_length|].
  intros i Hi. rewrite getbit_zero. apply nth_repeat.
Qed.

Theorem none_spec ws : wf ws -> none_m ws = s_none (abs ws).
Proof.
  intros Hwf. apply bool_eq_iff. unfold none_m, s_none, s_any.
  rewrite negb_true_iff, existsb_repeat_false, abs_length.
  rewrite (forallb_repeat (fun x => N.eqb x 0) 0%N) by (intros; apply N.eqb_eq).
  destruct Hwf as (Hl & Hb & Hp). rewrite Hl. fold (zero_words bits w).
  rewrite <- abs_zero. split.
  - now intros ->.
  - apply abs_inj; [exact Hbits|now repeat split|now apply wf_zero].
Qed.

Theorem any_spec ws : wf ws -> any_m ws = s_any (abs ws).
Proof.
  intros Hwf. unfold any_m. rewrite none_spec by exact Hwf. unfold s_none. apply negb_involutive.
Qed.

(** ** all *)
Definition full_words : list N := set_all bits w mx pmi (zero_words bits w).

Lemma zero_len : length (zero_words bits w) = nw.
Proof. apply repeat_length. Qed.

Lemma wf_full : wf full_words.
Proof. apply wf_set_all; [exact Hbits|apply zero_len]. Qed.

Lemma abs_full : abs full_words = repeat true bits.
Proof.
  symmetry. apply abs_char; [apply repeat_length|].
  intros i Hi. unfold full_words. rewrite getbit_set_all by (try exact Hbits; apply zero_len).
  replace (i <? bits) with true by (symmetry; now apply Nat.ltb_lt).
  rewrite (nth_indep _ false true) by now rewrite repeat_length. apply nth_repeat.
Qed.

Lemma nth_full j : nth j full_words 0%N =
  if j <? nw then (if has_padding bits w && (j =? nw - 1) then pmi else mx) else 0%N.
Proof.
  unfold full_words, set_all. pose proof (nw_pos bits w Hw Hbits) as Hnw.
  destruct (has_padding bits w); cbn [andb].
  - rewrite nth_upd, map_length, zero_len, nth_map0, zero_len.
    replace (nw - 1 <? nw) with true by (symmetry; apply Nat.ltb_lt; lia). rewrite andb_true_r.
    destruct (Nat.eqb_spec j (nw - 1)) as [->|Hne].
    + replace (nw - 1 <? nw) with true by (symmetry; apply Nat.ltb_lt; lia). reflexivity.
    + reflexivity.
  - rewrite nth_map0, zero_len. reflexivity.
Qed.

Lemma all_m_full ws : length ws = nw -> (all_m bits w mx pmi ws = true <-> ws = full_words).
Proof.
  intros Hl. pose proof (nw_pos bits w Hw Hbits) as Hnw. unfold all_m. split.
  - intros H. apply (nth_ext _ _ 0%N 0%N).
    { destruct wf_full as (Hlf & _). congruence. }
    intros j Hj. rewrite Hl in Hj. rewrite nth_full.
    replace (j <? nw) with true by (symmetry; now apply Nat.ltb_lt).
    destruct (has_padding bits w); cbn [andb].
    + apply andb_true_iff in H. destruct H as (Hh & Ht).
      destruct (Nat.eqb_spec j (nw - 1)) as [->|Hne].
      * now apply N.eqb_eq.
      * rewrite (forallb_nth _ _ 0%N) in Hh. specialize (Hh j).
        rewrite firstn_length, Hl, nth_firstn_lt in Hh by lia. apply N.eqb_eq. apply Hh. lia.
    + rewrite (forallb_nth _ _ 0%N) in H. apply N.eqb_eq. apply H. lia.
  - intros ->. destruct wf_full as (Hlf & _).
    destruct (has_padding bits w) eqn:Hp.
    + apply andb_true_iff. split.
      * apply (forallb_nth _ _ 0%N). intros j Hj. rewrite firstn_length, Hlf in Hj.
        rewrite nth_firstn_lt, nth_full, Hp by lia. cbn [andb].
        replace (j <? nw) with true by (symmetry; apply Nat.ltb_lt; lia).
        replace (j =? nw - 1) with false by (symmetry; apply Nat.eqb_neq; lia). apply N.eqb_refl.
      * rewrite nth_full, Hp. cbn [andb].
        replace (nw - 1 <? nw) with true by (symmetry; apply Nat.ltb_lt; lia).
        rewrite Nat.eqb_refl. apply N.eqb_refl.
    + apply (forallb_nth _ _ 0%N). intros j Hj. rewrite Hlf in Hj. rewrite nth_full, Hp. cbn [andb].
      replace (j <? nw) with true by (symmetry; now apply Nat.ltb_lt). apply N.eqb_refl.
Qed.

Theorem all_spec ws : wf ws -> all_m bits w mx pmi ws = s_all (abs ws).
Proof.
  intros Hwf. apply bool_eq_iff. destruct (Hwf) as (Hl & _).
  rewrite (all_m_full ws Hl). unfold s_all.
  rewrite (forallb_repeat (fun b : bool => b) true) by (intros []; intuition congruence).
  rewrite abs_length, <- abs_full. split.
  - now intros ->.
  - apply abs_inj; [exact Hbits|exact Hwf|exact wf_full].
Qed.

(** ** count *)
Lemma getbit_cons_low x r t : t < w -> getbit (x :: r) t = tb x t.
Proof. intros Ht. unfold Abs.getbit. now rewrite Nat.div_small, Nat.mod_small. Qed.

Lemma getbit_cons_high x r t : getbit (x :: r) (w + t) = getbit r t.
Proof.
  unfold Abs.getbit.
  replace (w + t) with (t + 1 * w) by lia. rewrite Nat.div_add, Nat.mod_add by lia.
  replace (t / w + 1) with (S (t / w)) by lia. reflexivity.
Qed.

Lemma count_words ws : Forall (bnd w) ws -> count_m ws = cnt (getbit ws) 0 (length ws * w).
Proof.
  intros Hb. unfold count_m. induction Hb as [|x r Hx Hr IH]; [reflexivity|].
  cbn [fold_left length]. rewrite fold_add_acc, IH.
  replace (S (length r) * w) with (w + length r * w) by lia.
  rewrite cnt_app. cbn [plus].
  rewrite (cnt_ext (getbit (x :: r)) (tb x) 0 w) by (intros i Hi; apply getbit_cons_low; lia).
  rewrite (cnt_shift _ w).
  rewrite (cnt_ext (fun t => getbit (x :: r) (w + t)) (getbit r)) by (intros i _; apply getbit_cons_high).
  rewrite (popcount_bitcount w x Hx). reflexivity.
Qed.

Theorem count_spec ws : wf ws -> count_m ws = s_count (abs ws).
Proof.
  intros (Hl & Hb & Hp). rewrite count_words by exact Hb. rewrite Hl.
  rewrite <- (pad_eq bits w Hw), cnt_app.
  rewrite (cnt_false _ (0 + bits)) by (intros i Hi; apply Hp; lia).
  unfold Abs.abs. rewrite s_count_map. unfold cnt. lia.
Qed.

(** ** to_string *)
Theorem to_string_spec ws zero one : wf ws ->
  to_string_m bits w mx ws zero one = s_to_string (abs ws) zero one.
Proof.
  intros (Hl & _). unfold to_string_m, s_to_string, Abs.abs.
  rewrite map_map, <- map_rev.
  apply map_ext_in. intros i Hi. apply in_rev, in_seq in Hi.
  rewrite (test_raw_getbit bits k Hbits ws Hl i) by lia. reflexivity.
Qed.

(** ** to_ulong / to_ullong (instantiable only when Bits <= 64) *)
Lemma tb_s_value l i : tb (s_value l) i = nth i l false.
Proof.
  revert i. induction l as [|b r IH]; intros i; cbn [s_value].
  - rewrite tb_0. now destruct i.
  - destruct i as [|i].
    + rewrite tb_0_odd. cbn [nth]. rewrite <- N.bit0_odd. apply N.add_b2n_double_bit0.
    + rewrite tb_S_div2, N.div2_div, N.add_b2n_double_div2. cbn [nth]. apply IH.
Qed.

Lemma tb_to_ullong_fold ws l : length ws = nw -> (forall p, In p l -> p < 64 /\ p < bits) ->
  forall r i, tb (fold_left (fun result p => if test_raw w mx ws p then set_bit m64 result (N.of_nat p) else result) l r) i
            = (i <? 64) && existsb (Nat.eqb i) l && getbit ws i
              || tb r i && ((i <? 64) || negb (existsb (fun p => test_raw w mx ws p) l)).
Proof.
  intros Hl. induction l as [|p l IH]; intros Hin r i; cbn [fold_left existsb].
  - destruct (i <? 64); destruct (tb r i); destruct (Abs.getbit k ws i); reflexivity.
  - destruct (Hin p (or_introl eq_refl)) as (Hp64 & Hpb).
    rewrite IH by (intros q Hq; apply Hin; now right).
    rewrite (test_raw_getbit bits k Hbits ws Hl p Hpb).
    destruct (Abs.getbit k ws p) eqn:Hg.
    + rewrite tb_set_bit by exact Hp64. cbn [orb negb]. rewrite orb_false_r.
      destruct (Nat.eqb_spec i p) as [->|Hne].
      * rewrite Hg. destruct (p <? 64); destruct (existsb (Nat.eqb p) l); destruct (tb r p); reflexivity.
      * destruct (i <? 64); destruct (existsb (Nat.eqb i) l); destruct (Abs.getbit k ws i);
          destruct (tb r i); reflexivity.
    + cbn [orb]. destruct (Nat.eqb_spec i p) as [->|Hne].
      * rewrite Hg. destruct (p <? 64); destruct (existsb (Nat.eqb p) l); destruct (tb r p);
          destruct (existsb (fun p0 => test_raw w mx ws p0) l); reflexivity.
      * destruct (i <? 64); destruct (existsb (Nat.eqb i) l); destruct (Abs.getbit k ws i);
          destruct (tb r i); destruct (existsb (fun p0 => test_raw w mx ws p0) l); reflexivity.
Qed.

Theorem to_ullong_spec ws : wf ws -> bits <= 64 ->
  to_ullong_m bits w mx m64 ws = s_value (abs ws).
Proof.
  intros (Hl & Hb & Hp) H64. apply N_ext. intros i. unfold to_ullong_m.
  rewrite (tb_to_ullong_fold ws _ Hl) by (intros p Hin; apply in_seq in Hin; lia).
  rewrite tb_0, tb_s_value, existsb_eqb_seq. cbn [andb orb]. rewrite orb_false_r.
  replace (Nat.min bits 64) with bits by lia.
  destruct (Nat.ltb_spec i bits) as [Hlt|Hge].
  - rewrite nth_abs by assumption.
    replace (i <? 64) with true by (symmetry; apply Nat.ltb_lt; lia).
    replace (i <? 0 + bits) with true by (symmetry; apply Nat.ltb_lt; lia).
    replace (0 <=? i) with true by (symmetry; apply Nat.leb_le; lia). reflexivity.
  - rewrite nth_overflow by (rewrite abs_length; lia).
    replace (i <? 0 + bits) with false by (symmetry; apply Nat.ltb_ge; lia).
    now rewrite !andb_false_r.
Qed.

End Obs.
