(* C17 — bitset equals std::bitset for every size and operation history.
   Property theorems only: each is closed by [exact] of a lemma proved in
   Words/Abs/Observers/Ctors/History/Extras.v, followed by Print Assumptions.

   Quantification: every width Bits >= 1 (Bits = 0: C17_zero_width) and every word width w = 2^k (k arbitrary: 8, 16, 32, 64
   bit words are k = 3..6; etl::bitset<Bits> is k = 6), every history over the alphabet of Ops.v.
   Vocabulary (Abs.v):
     getbit k ws i = bit (i mod w) of word (i / w) of the storage array ws
     abs bits k ws = [getbit k ws 0; ...; getbit k ws (bits-1)]   the std::bitset value ws stands for
     wf bits k ws  = ws has num_words words, each below 2^w, and getbit k ws i = false for all i >= bits
   The word boundary (last word with or without padding, position in the last word or before) is a
   case split inside the proofs, never a sample. *)
From Tetl Require Import Lib.Base C17.Ops C17.Model C17.Spec C17.Words C17.Abs C17.Observers C17.Ctors
  C17.History C17.Extras C17.NonVac C17.Zero C17.SpecLaws C17.SpecStr C17.CodeLaws.
From Coq Require Import NArith.
Local Open Scope nat_scope.

(* MAIN: EVERY history prints on the model exactly what it prints on std::bitset — after every
   step to_string, count, all, any, none, to_ullong (Bits <= 64), ==, the answers of test /
   operator[] / the proxy's bool and ~, and "precondition failed" exactly where std::bitset throws
   out_of_range or invalid_argument (or, for operator[], leaves its domain) — from value-initialised
   sets and from any well-formed pair of storage arrays.  No hypothesis on the history. *)
Theorem C17_history_refines : forall bits k, 0 < bits -> forall ops,
  run_m bits (2 ^ k) (init_m bits (2 ^ k)) ops = s_run bits (s_init bits) ops
  /\ forall st, wf2 bits k st -> run_m bits (2 ^ k) st ops = s_run bits (abs2 bits k st) ops.
Proof. exact history_refines_both. Qed.
Print Assumptions C17_history_refines.

(* one step: refinement of every operation, preservation of the invariant, and the contract
   fires exactly when std::bitset has no defined (non-throwing) answer; never UB, never out of fuel *)
Theorem C17_step_refines : forall bits k, 0 < bits -> forall st o,
  wf2 bits k st ->
  match step_m bits (2 ^ k) st o with
  | Ok (st', q) => wf2 bits k st' /\ s_step bits (abs2 bits k st) o = Some (abs2 bits k st', q)
  | Contract => s_step bits (abs2 bits k st) o = None
  | _ => False
  end.
Proof. exact step_refines. Qed.
Print Assumptions C17_step_refines.

(* padding invariant: after every history both storage arrays are well formed; in particular they
   have num_words words and the unused high bits of the last word are zero
   (last word < 2^(w - padding)) *)
Theorem C17_padding_zero_inv : forall bits k, 0 < bits -> forall ops,
  (forall st, wf2 bits k st -> wf2 bits k (final_state bits k st ops))
  /\ let st := final_state bits k (init_m bits (2 ^ k)) ops in
     last_word_clean bits k (fst st) /\ last_word_clean bits k (snd st)
     /\ length (fst st) = num_words bits (2 ^ k) /\ length (snd st) = num_words bits (2 ^ k).
Proof. exact padding_zero_inv_both. Qed.
Print Assumptions C17_padding_zero_inv.

(* observers on any well-formed array = std::bitset observers of the value it stands for; and the
   representation is canonical (a value has exactly one well-formed array), which is why the
   defaulted operator== on the arrays is equality of values.  Unused high bits cannot influence a
   result because, by the invariant, there are none. *)
Theorem C17_observers_spec : forall bits k, 0 < bits -> forall ws, wf bits k ws ->
  count_m ws = s_count (abs bits k ws)
  /\ all_m bits (2 ^ k) (ones (2 ^ k)) (padding_mask_inv bits (2 ^ k)) ws = s_all (abs bits k ws)
  /\ any_m ws = s_any (abs bits k ws)
  /\ none_m ws = s_none (abs bits k ws)
  /\ (forall zero one, to_string_m bits (2 ^ k) (ones (2 ^ k)) ws zero one = s_to_string (abs bits k ws) zero one)
  /\ (bits <= 64 -> to_ullong_m bits (2 ^ k) (ones (2 ^ k)) (ones 64) ws = s_value (abs bits k ws))
  /\ (forall ws', wf bits k ws' -> words_eqb ws ws' = s_eq (abs bits k ws) (abs bits k ws'))
  /\ (forall ws', wf bits k ws' -> abs bits k ws = abs bits k ws' -> ws = ws').
Proof. exact observers_spec_all. Qed.
Print Assumptions C17_observers_spec.

(* constructors.  Integer: every value, bits above min(64, Bits) are dropped.  String: every string /
   pos / n (size_t incl. npos) / zero / one: the precondition fires exactly when std throws
   (out_of_range: pos > size; invalid_argument: one of the min(n, size-pos) characters is neither
   zero nor one); otherwise the array is well formed and stands for the standard's value (last used
   character = bit 0, only the first Bits characters used).  char const*: the string_view constructor applied
   to the characters in front of the first NUL (n = npos) or to the first n characters of the array *)
Theorem C17_constructors_spec : forall bits k, 0 < bits ->
  (forall val, wf bits k (of_ullong bits (2 ^ k) (ones (2 ^ k)) (ones 64) val)
               /\ abs bits k (of_ullong bits (2 ^ k) (ones (2 ^ k)) (ones 64) val) = s_of_ullong bits val)
  /\ (forall str pos n zero one,
     match of_string bits (2 ^ k) (ones (2 ^ k)) (ones 64) str pos n zero one with
     | Ok ws => wf bits k ws /\ s_of_string bits str pos n zero one = SOk (abs bits k ws)
     | Contract => s_of_string bits str pos n zero one = SOutOfRange
                   \/ s_of_string bits str pos n zero one = SInvalid
     | _ => False
     end)
  /\ forall arr counted zero one,
     match of_cstring bits (2 ^ k) (ones (2 ^ k)) (ones 64) arr counted zero one with
     | Ok ws => wf bits k ws /\ s_of_cstring bits arr counted zero one = SOk (abs bits k ws)
     | Contract => s_of_cstring bits arr counted zero one = SOutOfRange
                   \/ s_of_cstring bits arr counted zero one = SInvalid
     | _ => False
     end.
Proof. exact constructors_spec_all. Qed.
Print Assumptions C17_constructors_spec.

(* the preconditions on the paths the model treats as total always hold: pos < digits of
   set_bit/reset_bit/flip_bit/test_bit for every offset basic_bitset passes; the array index
   word_index(pos) < num_words; i < size() (and i < 64 for the unsigned long long helpers) inside the
   integer constructor's and to_ullong's loops; string_view::operator[] and set(i) inside the string
   constructor's two loops *)
Theorem C17_inner_preconditions : forall bits k, 0 < bits ->
  (forall pos, bit_pos_ok (2 ^ k) (offset_in_word (2 ^ k) pos) = true)
  /\ (forall pos, pos < bits -> word_index (2 ^ k) pos < num_words bits (2 ^ k))
  /\ (forall i, In i (seq 0 (Nat.min 64 bits)) -> i < bits /\ bit_pos_ok 64 (N.of_nat i) = true)
  /\ (forall i, In i (seq 0 (Nat.min bits 64)) -> i < bits /\ bit_pos_ok 64 (N.of_nat i) = true)
  /\ (forall (str : list N) pos n, pos <= length str ->
       let len := s_rlen str pos n in
       let m := Nat.min len bits in
       (forall i, i < len -> pos + i < length str)
       /\ (forall i, i < m -> i < bits /\ pos + m - 1 - i < length str)).
Proof. exact inner_preconditions. Qed.
Print Assumptions C17_inner_preconditions.

(* popcount: the constant-evaluation path (Kernighan loop, at most w iterations) returns the
   number of one bits, which is what the run-time builtin is modelled as, for every word width *)
Theorem C17_popcount_fallback : forall w x, bnd w x ->
  popcount_fallback (ones w) w x = Some (popcount x) /\ popcount x = bitcount w x.
Proof. exact popcount_fallback_both. Qed.
Print Assumptions C17_popcount_fallback.

(* the width 0 (std::bitset<0> is a valid type): every history prints what std::bitset<0> prints (every positional
   member is stopped by its precondition where std throws, to_string() is empty, all() and none() are true), and the
   storage stays empty.  Together with C17_history_refines: EVERY width Bits >= 0. *)
Theorem C17_zero_width : forall k ops,
  run_m 0 (2 ^ k) (init_m 0 (2 ^ k)) ops = s_run 0 (s_init 0) ops
  /\ forall o, match step_m 0 (2 ^ k) (init_m 0 (2 ^ k)) o with
               | Ok (st', _) => st' = ([], [])
               | Contract => True
               | _ => False
               end.
Proof. exact zero_width_refines. Qed.
Print Assumptions C17_zero_width.

(* spec validation: Spec.v is hand-written and trusted as "what the standard says"; the relations the standard
   itself states between the members are proved of it for EVERY value: all() = (count() == size()),
   any() = (count() != 0), none() = (count() == 0), count() <= size(), flip() twice is the identity and keeps
   size(), (~x).count() = size() - x.count(), == is equality of values, to_string has size() characters,
   bitset(x.to_ullong()) = x whenever size() <= 64 *)
Theorem C17_spec_laws : forall a : bset,
  s_all a = (s_count a =? length a)
  /\ s_any a = negb (s_count a =? 0)
  /\ s_none a = (s_count a =? 0)
  /\ s_count a <= length a
  /\ s_flip_all (s_flip_all a) = a
  /\ length (s_flip_all a) = length a
  /\ s_count (s_flip_all a) = length a - s_count a
  /\ (forall b, s_eq a b = true <-> a = b)
  /\ (forall zero one, length (s_to_string a zero one) = length a)
  /\ (length a <= 64 -> s_of_ullong (length a) (s_value a) = a).
Proof. exact spec_laws. Qed.
Print Assumptions C17_spec_laws.

(* the same relations on the code's word-level observers, for every width, word size and well-formed array
   (by C17_padding_zero_inv: after every history) *)
Theorem C17_code_laws : forall bits k, 0 < bits -> forall ws, wf bits k ws ->
  all_m bits (2 ^ k) (ones (2 ^ k)) (padding_mask_inv bits (2 ^ k)) ws = (count_m ws =? bits)
  /\ any_m ws = negb (count_m ws =? 0)
  /\ none_m ws = (count_m ws =? 0)
  /\ count_m ws <= bits.
Proof. exact code_laws. Qed.
Print Assumptions C17_code_laws.

(* spec validation, strings: the spec's string constructor inverts the spec's to_string, for every value, every
   pair of different characters and every n >= size() (npos whenever size() < 2^64) *)
Theorem C17_spec_string_round_trip : forall (a : bset) zero one n, zero <> one -> (N.of_nat (length a) <= n)%N ->
  s_of_string (length a) (s_to_string a zero one) 0 n zero one = SOk a.
Proof. exact string_round_trip. Qed.
Print Assumptions C17_spec_string_round_trip.

(* round trips of the code: bitset(x.to_string(zero, one), 0, n, zero, one) and, for size() <= 64,
   bitset(x.to_ullong()) rebuild the very storage array of x (never a fired precondition), for every width,
   word size and well-formed array *)
Theorem C17_code_round_trips : forall bits k, 0 < bits -> forall ws, wf bits k ws ->
  (forall zero one n, zero <> one -> (N.of_nat bits <= n)%N ->
     of_string bits (2 ^ k) (ones (2 ^ k)) (ones 64)
       (to_string_m bits (2 ^ k) (ones (2 ^ k)) ws zero one) 0 n zero one = Ok ws)
  /\ (bits <= 64 ->
      of_ullong bits (2 ^ k) (ones (2 ^ k)) (ones 64)
        (to_ullong_m bits (2 ^ k) (ones (2 ^ k)) (ones 64) ws) = ws).
Proof. exact code_round_trips. Qed.
Print Assumptions C17_code_round_trips.

(* non-vacuity: the hypotheses are satisfiable and the conclusions non-trivial at widths one below
   a word multiple, at it and above it: concrete histories (string constructor "1000001" resp. 2^63+1,
   flip all, set the top bit, proxy copy, a failing position, a foreign character, pos > size, proxy copy
   within one object (different bits, the same bit, a failing source), x op= x, the char const* constructor
   with a NUL inside the array (uncounted: ends there; counted: a foreign character unless zero is NUL))
   evaluated on model and spec; and the width 0 (empty to_string, all() and none() true, every position fails) *)
Example C17_nonvacuous :
  run_m 7 8 (init_m 7 8) (nv_ops 6) = s_run 7 (s_init 7) (nv_ops 6)
  /\ run_m 64 64 (init_m 64 64) (nv_ops 63) = s_run 64 (s_init 64) (nv_ops 63)
  /\ run_m 65 64 (init_m 65 64) (nv_ops 64) = s_run 65 (s_init 65) (nv_ops 64)
  /\ map (option_map (fun r => (o_count (fst r), o_all (fst r), snd r))) (run_m 65 64 (init_m 65 64) (nv_ops 64))
     = [Some (2, false, []); Some (63, false, []); Some (63, false, []); Some (0, false, []);
        Some (65, true, []); Some (65, true, []); Some (63, false, []); Some (63, false, [true; true; true; false]);
        None; Some (1, false, []); None; None; Some (64, false, []);
        Some (63, false, []); Some (63, false, []); None; Some (63, false, []); Some (63, false, []);
        Some (2, false, []); None; Some (1, false, []); Some (0, false, [])]
  /\ fst (final_state 65 6 (init_m 65 64) (firstn 13 (nv_ops 64))) = [18446744073709551614; 1]%N
  /\ fst (final_state 65 6 (init_m 65 64) (firstn 21 (nv_ops 64))) = [2; 0]%N
  /\ map (option_map (fun r => (o_string (fst r), o_count (fst r), o_all (fst r), o_none (fst r), o_ullong (fst r))))
         (run_m 0 8 (init_m 0 8) [OSetAll; OSet 0 true; OStr [49]%N 0 18446744073709551615 48 49;
                                  OStr [50]%N 0 18446744073709551615 48 49; ONot; OTest 0])
     = [Some ([], 0, true, true, Some 0%N); None; Some ([], 0, true, true, Some 0%N); None;
        Some ([], 0, true, true, Some 0%N); None].
Proof. exact nonvacuous. Qed.
