From Tetl Require Import Lib.Base C17.Ops C17.Model C17.Spec.
Example C17_nonvacuous : num_words 65 64 = 2. Proof. reflexivity. Qed.
