(* C17 model: executable mirror of include/etl/_bitset/{basic_bitset,bitset}.hpp and of the
   word helpers it calls (include/etl/_bit/{set_bit,reset_bit,flip_bit,test_bit,popcount}.hpp).

   Parameters: [bits] = the template argument Bits, [w] = numeric_limits<WordType>::digits
   (etl::bitset<Bits> is basic_bitset<Bits, size_t>, i.e. w = 64).  A storage word is an [N];
   every static_cast<WordType>(...) of the source is the explicit truncation [trunc mx].
   The member array [_words] is a [list N] (always of length num_words).  Bit positions and
   list indices are [nat]; the value handed to the word helpers as "pos" is an [N] like in the
   code (offset_in_word returns a WordType).  No proofs here. *)
From Tetl Require Import Lib.Base C17.Ops.
From Coq Require Import NArith.
Local Open Scope nat_scope.

(** * Word helpers (include/etl/_bit/*.hpp)
    [mx] = numeric_limits<UInt>::max() of the word type the helper is instantiated with
    (a compile-time constant in the code; passed in so that it is evaluated once) *)

(* numeric_limits<UInt>::max() for a w-bit type *)
Definition ones (w : nat) : N := N.ones (N.of_nat w).
(* static_cast<UInt>(x) *)
Definition trunc (mx : N) (x : N) : N := N.land x mx.
(* static_cast<UInt>(~x) *)
Definition wnot (mx : N) (x : N) : N := N.ldiff mx x.

(* the TETL_PRECONDITION(pos < digits) of the four helpers: basic_bitset only ever passes
   offset_in_word(pos), which is below the width (theorem C17_inner_preconditions), so it is a separate
   predicate here and the helpers themselves are total *)
Definition bit_pos_ok (w : nat) (pos : N) : bool := N.ltb pos (N.of_nat w).

(* set_bit(word, pos): static_cast<UInt>(word | static_cast<UInt>(UInt(1) << pos)) *)
Definition set_bit (mx : N) (word pos : N) : N :=
  trunc mx (N.lor word (trunc mx (N.shiftl 1 pos))).

(* set_bit(word, pos, value):
   static_cast<UInt>((word & static_cast<UInt>(~(UInt(1) << pos))) | (UInt(value) << pos)) *)
Definition set_bit_to (mx : N) (word pos : N) (value : bool) : N :=
  trunc mx (N.lor (N.land word (wnot mx (N.shiftl 1 pos))) (N.shiftl (N.b2n value) pos)).

(* reset_bit: static_cast<UInt>(word & static_cast<UInt>(~(UInt(1) << pos))) *)
Definition reset_bit (mx : N) (word pos : N) : N :=
  trunc mx (N.land word (wnot mx (N.shiftl 1 pos))).

(* flip_bit: static_cast<UInt>(word ^ static_cast<UInt>(UInt(1) << pos)) *)
Definition flip_bit (mx : N) (word pos : N) : N :=
  trunc mx (N.lxor word (trunc mx (N.shiftl 1 pos))).

(* test_bit: static_cast<UInt>(word & static_cast<UInt>(UInt(1) << pos)) != UInt(0) *)
Definition test_bit (mx : N) (word pos : N) : bool :=
  negb (N.eqb (trunc mx (N.land word (trunc mx (N.shiftl 1 pos)))) 0).

(* popcount, run-time path: __builtin_popcount{,l,ll} = number of one bits (modelled, not
   verified: compiler builtin) *)
Fixpoint pop_pos (p : positive) : nat :=
  match p with xH => 1 | xO q => pop_pos q | xI q => S (pop_pos q) end.
Definition popcount (x : N) : nat := match x with N0 => 0 | Npos p => pop_pos p end.

(* popcount, constant-evaluation path: detail::popcount_fallback
     for (; val != 0; val &= val - UInt(1)) c++;
   fuel = number of iterations allowed; None = out of fuel *)
Fixpoint popcount_fallback (mx : N) (fuel : nat) (val : N) : option nat :=
  if N.eqb val 0 then Some 0
  else match fuel with
       | O => None
       | S f => option_map S (popcount_fallback mx f (trunc mx (N.land val (trunc mx (val - 1)%N))))
       end.

(** * basic_bitset<Bits, WordType> *)

(* replace element j of l by f (element j) *)
Fixpoint upd (l : list N) (j : nat) (f : N -> N) : list N :=
  match l, j with
  | [], _ => []
  | x :: r, O => f x :: r
  | x :: r, S j' => x :: upd r j' f
  end.

(** * Compile-time constants of basic_bitset<Bits, WordType> *)
Section Consts.
Variable bits : nat.   (* Bits *)
Variable w : nat.      (* bits_per_word = numeric_limits<WordType>::digits *)

Definition num_words : nat := (bits + w - 1) / w.
Definition padding : nat := num_words * w - bits.
Definition has_padding : bool := negb (padding =? 0).

(* padding_mask: for (i = bits_per_word - padding; i < bits_per_word; ++i) mask = set_bit(mask, i) *)
Definition padding_mask : N :=
  fold_left (fun mask i => set_bit (ones w) mask (N.of_nat i)) (seq (w - padding) (w - (w - padding))) 0%N.
Definition padding_mask_inv : N := wnot (ones w) padding_mask.
End Consts.

(** * basic_bitset<Bits, WordType> and etl::bitset<Bits>.
    The three constants  mx = ones (numeric_limits<WordType>::max()),  pmi = padding_mask_inv,
    m64 = numeric_limits<unsigned long long>::max()  are static constexpr in the code; the
    functions below take them as arguments (evaluated once per history), and the entry points at
    the end of the file instantiate them with [ones w], [padding_mask_inv bits w], [ones 64]. *)
(* basic_string_view::npos = size_t(-1) *)
Definition npos : N := 18446744073709551615%N.

Section Bitset.
Variable bits : nat.
Variable w : nat.
Variable mx pmi m64 : N.

Definition word_index (pos : nat) : nat := pos / w.
(* static_cast<WordType>(pos & (bits_per_word - size_t(1))); the value is at most w-1 *)
Definition offset_in_word (pos : nat) : N := N.land (N.of_nat pos) (N.of_nat w - 1)%N.

(* value-initialised array *)
Definition zero_words : list N := repeat 0%N (num_words bits w).

(* transform_bit(pos, op) *)
Definition transform_bit (ws : list N) (pos : nat) (op : N -> N -> N) : list N :=
  upd ws (word_index pos) (fun word => op word (offset_in_word pos)).

(* the bodies of unchecked_set/reset/flip/test after their TETL_PRECONDITION(pos < size()) *)
Definition set_raw (ws : list N) (pos : nat) (value : bool) : list N :=
  transform_bit ws pos (fun word bit => set_bit_to mx word bit value).
Definition reset_raw (ws : list N) (pos : nat) : list N :=
  transform_bit ws pos (fun word bit => reset_bit mx word bit).
Definition flip_raw (ws : list N) (pos : nat) : list N :=
  transform_bit ws pos (fun word bit => flip_bit mx word bit).
Definition test_raw (ws : list N) (pos : nat) : bool :=
  test_bit mx (nth (word_index pos) ws 0%N) (offset_in_word pos).

(* TETL_PRECONDITION(pos < size()) in front of every positional member of both classes *)
Definition checked {A} (pos : nat) (a : A) : res A := if pos <? bits then Ok a else Contract.

Definition set_pos ws pos value := checked pos (set_raw ws pos value).
Definition reset_pos ws pos := checked pos (reset_raw ws pos).
Definition flip_pos ws pos := checked pos (flip_raw ws pos).
Definition test_pos ws pos := checked pos (test_raw ws pos).

(* set(): fill(begin, prev(end), ones); _words[num_words-1] = padding_mask_inv   (or fill all) *)
Definition set_all (ws : list N) : list N :=
  let filled := map (fun _ => mx) ws in
  if has_padding bits w then upd filled (num_words bits w - 1) (fun _ => pmi) else filled.

(* reset(): fill(begin, end, 0) *)
Definition reset_all (ws : list N) : list N := map (fun _ => 0%N) ws.

(* flip(): transform(~word); if has_padding: _words[num_words-1] &= padding_mask_inv *)
Definition flip_all (ws : list N) : list N :=
  let flipped := map (wnot mx) ws in
  if has_padding bits w
  then upd flipped (num_words bits w - 1) (fun x => trunc mx (N.land x pmi))
  else flipped.

(* operator&= |= ^= : transform(lhs, rhs -> static_cast<WordType>(lhs OP rhs)) *)
Definition zip_words (f : N -> N -> N) (a b : list N) : list N :=
  map (fun p => trunc mx (f (fst p) (snd p))) (combine a b).
Definition and_words := zip_words N.land.
Definition or_words := zip_words N.lor.
Definition xor_words := zip_words N.lxor.

(* all() *)
Definition all_m (ws : list N) : bool :=
  if has_padding bits w
  then forallb (fun x => N.eqb x mx) (firstn (num_words bits w - 1) ws)
       && N.eqb (nth (num_words bits w - 1) ws 0%N) pmi
  else forallb (fun x => N.eqb x mx) ws.

(* none(), any() *)
Definition none_m (ws : list N) : bool := forallb (fun x => N.eqb x 0) ws.
Definition any_m (ws : list N) : bool := negb (none_m ws).

(* count(): transform_reduce(words, size_t(0), plus, popcount) *)
Definition count_m (ws : list N) : nat := fold_left (fun acc x => acc + popcount x) ws 0.

(* operator== (defaulted: element-wise comparison of the arrays) *)
Fixpoint words_eqb (a b : list N) : bool :=
  match a, b with
  | [], [] => true
  | x :: a', y :: b' => N.eqb x y && words_eqb a' b'
  | _, _ => false
  end.

(* basic_bitset(unsigned long long val):
   m = min(digits(ull), size()); for i < m: unchecked_set(i, test_bit(val, (ull)i))
   (i < m <= size(): the precondition of unchecked_set holds) *)
Definition of_ullong (val : N) : list N :=
  fold_left (fun ws i => set_raw ws i (test_bit m64 val (N.of_nat i))) (seq 0 (Nat.min 64 bits)) zero_words.

(** etl::bitset<Bits> on top of it (w = 64 there; nothing below depends on that) *)

(* to_unsigned_type<UInt>() with digits(UInt) = 64 (unsigned long and unsigned long long, LP64):
   idx = min(size(), digits); for i < idx: if (test(i)) result = set_bit(result, i) *)
Definition to_ullong_m (ws : list N) : N :=
  fold_left (fun result i => if test_raw ws i then set_bit m64 result (N.of_nat i) else result)
            (seq 0 (Nat.min bits 64)) 0%N.

(* to_string<Capacity>(zero, one)   (after the fix "bitset<0>::to_string returns an empty string"):
   for (i = size(); i != 0; --i) push_back(test(i - 1) ? one : zero);
   positions size()-1, ..., 0, each below size(): the precondition of test() holds; no iteration for Bits = 0 *)
Definition to_string_m (ws : list N) (zero one : N) : list N :=
  map (fun i => if test_raw ws i then one else zero) (rev (seq 0 bits)).

(* bitset(basic_string_view str, pos, n, zero, one)   [n : size_t, npos = 2^64-1]
     : bitset(0ULL)
     TETL_PRECONDITION(pos <= str.size());
     len = min(n, str.size() - pos);
     for i < len: TETL_PRECONDITION(eq(str[pos + i], zero) or eq(str[pos + i], one));
     m = min(len, size());
     for i < m: ch = str[pos + m - 1 - i]; if eq(ch, one) set(i, true); if eq(ch, zero) set(i, false);
   (i < m <= size(), pos + i < str.size() and pos + m - 1 - i < str.size(): the inner
    preconditions of set() and string_view::operator[] hold) *)
Definition of_string (str : list N) (pos : nat) (n : N) (zero one : N) : res (list N) :=
  let size := length str in
  if size <? pos then Contract
  else
    let len := N.to_nat (N.min n (N.of_nat (size - pos))) in
    if negb (forallb (fun i => let ch := nth (pos + i) str 0%N in N.eqb ch zero || N.eqb ch one) (seq 0 len))
    then Contract
    else
    let m := Nat.min len bits in
    Ok (fold_left (fun ws i =>
                     let ch := nth (pos + m - 1 - i) str 0%N in
                     let ws1 := if N.eqb ch one then set_raw ws i true else ws in
                     if N.eqb ch zero then set_raw ws1 i false else ws1)
                  (seq 0 m) (of_ullong 0)).

(* bitset(CharT const* str, n, zero, one)
     : bitset(n == npos ? basic_string_view(str) : basic_string_view(str, n), 0, n, zero, one)
   basic_string_view(str) has length char_traits::length(str) = the characters in front of the first NUL;
   basic_string_view(str, n) the first n characters of the array.  The array is arr ++ [0] (see Ops.v);
   n = length arr when counted (never beyond the array), npos otherwise *)
Fixpoint c_str_view (arr : list N) : list N :=
  match arr with
  | [] => []
  | c :: r => if N.eqb c 0 then [] else c :: c_str_view r
  end.

Definition of_cstring (arr : list N) (counted : bool) (zero one : N) : res (list N) :=
  let n := if counted then N.of_nat (length arr) else npos in
  let sv := if N.eqb n npos then c_str_view arr else firstn (N.to_nat n) arr in
  of_string sv 0 n zero one.

(** Histories: a two-register machine (current set, other set); alphabet in Ops.v *)

Definition state : Type := list N * list N.

Definition init_state : state := (zero_words, zero_words).

(* result of a step: new state and the answers of the queries the step made *)
Definition step_k (st : state) (o : op) : res (state * list bool) :=
  let '(cur, oth) := st in
  let upd_cur (r : res (list N)) := rbind r (fun c => Ok ((c, oth), [])) in
  match o with
  | OSetAll => Ok ((set_all cur, oth), [])
  | OResetAll => Ok ((reset_all cur, oth), [])
  | OFlipAll => Ok ((flip_all cur, oth), [])
  | ONot => Ok ((flip_all cur, oth), [])
  | OSet pos v => upd_cur (set_pos cur pos v)
  | OReset pos => upd_cur (reset_pos cur pos)
  | OFlip pos => upd_cur (flip_pos cur pos)
  (* operator[](pos) -> reference{_words[word_index(pos)], offset_in_word(pos)};
     reference::operator=(bool x): word = set_bit(word, _offset, x) *)
  | ORefSet pos v => upd_cur (set_pos cur pos v)
  (* reference::operator=(reference const& x): set_bit(word, _offset, static_cast<bool>(x)) *)
  | ORefCopy pos src =>
      rbind (test_pos oth src) (fun b => upd_cur (set_pos cur pos b))
  (* reference::flip(): word = flip_bit(word, _offset) *)
  | ORefFlip pos => upd_cur (flip_pos cur pos)
  | OAnd | OAndF => Ok ((and_words cur oth, oth), [])
  | OOr | OOrF => Ok ((or_words cur oth, oth), [])
  | OXor | OXorF => Ok ((xor_words cur oth, oth), [])
  | OInt val => Ok ((of_ullong val, oth), [])
  | OStr str pos n zero one => upd_cur (of_string str pos n zero one)
  | OSwap => Ok ((oth, cur), [])
  | OTest pos =>
      rbind (test_pos cur pos) (fun b => Ok ((cur, oth), [b; b; b; negb b]))
  (* cur[pos] = cur[src]: both proxies point into cur; the source bit is read (operator bool of x)
     before the destination word is written *)
  | ORefCopySelf pos src =>
      rbind (test_pos cur src) (fun b => upd_cur (set_pos cur pos b))
  (* transform(begin, end, other.begin, begin, f) with other = *this *)
  | OAndSelf => Ok ((and_words cur cur, oth), [])
  | OOrSelf => Ok ((or_words cur cur, oth), [])
  | OXorSelf => Ok ((xor_words cur cur, oth), [])
  | OCStr arr counted zero one => upd_cur (of_cstring arr counted zero one)
  end.

(* what is observed after every step: to_string('0','1'), count, all, any, none,
   to_ullong/to_ulong (only instantiable when Bits <= 64), cur == other *)
Definition chr0 : N := 48%N.
Definition chr1 : N := 49%N.

Definition observe_k (st : state) : obs :=
  let '(cur, oth) := st in
  {| o_string := to_string_m cur chr0 chr1; o_count := count_m cur; o_all := all_m cur;
     o_any := any_m cur; o_none := none_m cur;
     o_ullong := if bits <=? 64 then Some (to_ullong_m cur) else None;
     o_eq := words_eqb cur oth |}.

(* run a history; a step whose precondition fails is reported (None) and leaves the state alone *)
Fixpoint run_k (st : state) (ops : list op) : list (option (obs * list bool)) :=
  match ops with
  | [] => []
  | o :: rest =>
      match step_k st o with
      | Ok (st', q) => Some (observe_k st', q) :: run_k st' rest
      | _ => None :: run_k st rest
      end
  end.

(* the same history, raw storage of the current register after every step *)
Fixpoint run_words_k (st : state) (ops : list op) : list (option (list N)) :=
  match ops with
  | [] => []
  | o :: rest =>
      match step_k st o with
      | Ok (st', q) => Some (fst st') :: run_words_k st' rest
      | _ => None :: run_words_k st rest
      end
  end.

End Bitset.

(** * Entry points: the constants instantiated as the code defines them *)
Definition step_m (bits w : nat) := step_k bits w (ones w) (padding_mask_inv bits w) (ones 64).
Definition observe_m (bits w : nat) := observe_k bits w (ones w) (padding_mask_inv bits w) (ones 64).
Definition run_m (bits w : nat) := run_k bits w (ones w) (padding_mask_inv bits w) (ones 64).
Definition run_words_m (bits w : nat) := run_words_k bits w (ones w) (padding_mask_inv bits w) (ones 64).
Definition init_m (bits w : nat) : state := init_state bits w.
