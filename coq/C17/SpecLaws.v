(* C17 spec validation: the hand-written std::bitset spec (Spec.v) is part of the trusted base, so the
   relations the standard itself states between its members are PROVED of it here, for every value:
   all() <-> count() == size(), any() <-> count() != 0, none() = !any(), flip() twice is the identity,
   (~x).count() == size() - x.count(), x == x, bitset(x.to_ullong()) == x when size() <= 64 and
   to_string() has size() characters.  Through C17_history_refines they hold of the code's answers too. *)
From Tetl Require Import Lib.Base C17.Spec.
From Coq Require Import NArith Lia.
Local Open Scope nat_scope.

Lemma s_count_le (a : bset) : s_count a <= length a.
Proof.
  unfold s_count. induction a as [|b r IH]; [apply le_n|].
  cbn [filter length]. destruct b; cbn [length]; lia.
Qed.

Lemma s_all_count (a : bset) : s_all a = (s_count a =? length a).
Proof.
  induction a as [|b r IH]; [reflexivity|].
  pose proof (s_count_le r) as Hle.
  unfold s_all, s_count in *. cbn [forallb filter length].
  destruct b; cbn [andb length].
  - rewrite IH. reflexivity.
  - symmetry. apply Nat.eqb_neq. lia.
Qed.

Lemma s_any_count (a : bset) : s_any a = negb (s_count a =? 0).
Proof.
  induction a as [|b r IH]; [reflexivity|].
  unfold s_any, s_count in *. cbn [existsb filter length].
  destruct b; cbn [orb length]; [reflexivity|exact IH].
Qed.

Lemma s_none_count (a : bset) : s_none a = (s_count a =? 0).
Proof. unfold s_none. rewrite s_any_count. apply Bool.negb_involutive. Qed.

Lemma s_flip_all_involutive (a : bset) : s_flip_all (s_flip_all a) = a.
Proof.
  unfold s_flip_all. rewrite map_map. rewrite <- (map_id a) at 2.
  apply map_ext. intros b. apply Bool.negb_involutive.
Qed.

Lemma s_flip_all_length (a : bset) : length (s_flip_all a) = length a.
Proof. unfold s_flip_all. apply map_length. Qed.

Lemma s_count_flip_all (a : bset) : s_count (s_flip_all a) = length a - s_count a.
Proof.
  induction a as [|b r IH]; [reflexivity|].
  pose proof (s_count_le r) as Hle.
  unfold s_flip_all, s_count in *. cbn [map filter length].
  destruct b; cbn [negb length]; rewrite IH; lia.
Qed.

Lemma s_eq_refl (a : bset) : s_eq a a = true.
Proof. induction a as [|b r IH]; [reflexivity|]. cbn [s_eq]. rewrite IH. destruct b; reflexivity. Qed.

Lemma s_eq_true_iff (a b : bset) : s_eq a b = true <-> a = b.
Proof.
  revert b. induction a as [|x r IH]; intros [|y s]; cbn [s_eq]; split; intros H;
    try reflexivity; try discriminate.
  - apply andb_prop in H. destruct H as [Hx Hr]. apply Bool.eqb_prop in Hx.
    apply IH in Hr. subst. reflexivity.
  - injection H as Hx Hr. subst. rewrite Bool.eqb_reflx. apply IH. reflexivity.
Qed.

Lemma s_to_string_length (a : bset) zero one : length (s_to_string a zero one) = length a.
Proof. unfold s_to_string. rewrite rev_length. apply map_length. Qed.

(* bitset(x.to_ullong()) == x for every value of at most 64 bits *)
Lemma testbit_cons_0 (b : bool) (v : N) : N.testbit (N.b2n b + 2 * v) 0 = b.
Proof. rewrite N.add_comm. apply N.testbit_0_r. Qed.

Lemma testbit_cons_S (b : bool) (v : N) (i : nat) :
  N.testbit (N.b2n b + 2 * v) (N.of_nat (S i)) = N.testbit v (N.of_nat i).
Proof. rewrite Nat2N.inj_succ, N.add_comm. apply N.testbit_succ_r. Qed.

Lemma of_ullong_value_gen (a : bset) : forall off, off + length a <= 64 ->
  map (fun i => (i + off <? 64) && N.testbit (s_value a) (N.of_nat i)) (seq 0 (length a)) = a.
Proof.
  induction a as [|b r IH]; intros off Hlen; [reflexivity|].
  cbn [length] in *. cbn [seq map s_value].
  rewrite testbit_cons_0.
  replace (0 + off <? 64) with true by (symmetry; apply Nat.ltb_lt; lia).
  cbn [andb]. f_equal.
  rewrite <- seq_shift, map_map.
  rewrite <- (IH (S off)) at 2 by lia.
  apply map_ext. intros i. rewrite testbit_cons_S.
  replace (S i + off) with (i + S off) by lia. reflexivity.
Qed.

Lemma s_of_ullong_value (a : bset) : length a <= 64 -> s_of_ullong (length a) (s_value a) = a.
Proof.
  intros Hlen. unfold s_of_ullong.
  etransitivity; [|apply (of_ullong_value_gen a 0); lia].
  apply map_ext. intros i. rewrite Nat.add_0_r. reflexivity.
Qed.

Theorem spec_laws : forall a : bset,
  s_all a = (s_count a =? length a)
  /\ s_any a = negb (s_count a =? 0)
  /\ s_none a = (s_count a =? 0)
  /\ s_count a <= length a
  /\ s_flip_all (s_flip_all a) = a
  /\ length (s_flip_all a) = length a
  /\ s_count (s_flip_all a) = length a - s_count a
  /\ (forall b, s_eq a b = true <-> a = b)
  /\ (forall zero one, length (s_to_string a zero one) = length a)
  /\ (length a <= 64 -> s_of_ullong (length a) (s_value a) = a).
Proof.
  intros a. repeat split.
  - apply s_all_count.
  - apply s_any_count.
  - apply s_none_count.
  - apply s_count_le.
  - apply s_flip_all_involutive.
  - apply s_flip_all_length.
  - apply s_count_flip_all.
  - apply s_eq_true_iff.
  - intros H; apply s_eq_true_iff; exact H.
  - intros zero one. apply s_to_string_length.
  - apply s_of_ullong_value.
Qed.
