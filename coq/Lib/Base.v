(* Shared modelling kit: machine integers, outcome type, small list helpers.
   No proofs of properties here; only definitions and basic facts. *)
From Coq Require Export ZArith List Bool Lia.
From Coq Require Import ZifyBool.
Export ListNotations.
Local Open Scope Z_scope.

(* lia understands div/mod/quot/rem by turning them into equations *)
Ltac Zify.zify_post_hook ::= Z.to_euclidean_division_equations.

(** * Machine integers: values are mathematical integers, types are (width, signedness) *)

Definition wrapu (w x : Z) : Z := x mod 2 ^ w.

Definition wraps (w x : Z) : Z :=
  let r := x mod 2 ^ w in
  if r <? 2 ^ (w - 1) then r else r - 2 ^ w.

Definition in_u (w x : Z) : bool := (0 <=? x) && (x <? 2 ^ w).
Definition in_s (w x : Z) : bool := (- 2 ^ (w - 1) <=? x) && (x <? 2 ^ (w - 1)).

Definition smin (w : Z) : Z := - 2 ^ (w - 1).
Definition smax (w : Z) : Z := 2 ^ (w - 1) - 1.
Definition umax (w : Z) : Z := 2 ^ w - 1.

(* an integer type: width and signedness *)
Record ity := { bits : Z; sgn : bool }.
Definition imin (t : ity) : Z := if sgn t then smin (bits t) else 0.
Definition imax (t : ity) : Z := if sgn t then smax (bits t) else umax (bits t).
Definition in_ty (t : ity) (x : Z) : bool := (imin t <=? x) && (x <=? imax t).
Definition wrap_ty (t : ity) (x : Z) : Z := if sgn t then wraps (bits t) x else wrapu (bits t) x.

Definition i8 := {| bits := 8; sgn := true |}.
Definition u8 := {| bits := 8; sgn := false |}.
Definition i16 := {| bits := 16; sgn := true |}.
Definition u16 := {| bits := 16; sgn := false |}.
Definition i32 := {| bits := 32; sgn := true |}.
Definition u32 := {| bits := 32; sgn := false |}.
Definition i64 := {| bits := 64; sgn := true |}.
Definition u64 := {| bits := 64; sgn := false |}.

(* checked signed result: None = signed overflow (undefined behaviour in C++) *)
Definition chk (t : ity) (x : Z) : option Z := if in_ty t x then Some x else None.

(** * Outcomes of a modelled call *)
Inductive ubkind := OutOfBounds | UninitRead | SignedOverflow | DivByZero | BadShift | NullDeref.

Inductive res (A : Type) : Type :=
| Ok (a : A)
| Contract          (* a TETL_PRECONDITION fired *)
| UB (k : ubkind)   (* the modelled code would have undefined behaviour *)
| OutOfFuel.
Arguments Ok {A} a.
Arguments Contract {A}.
Arguments UB {A} k.
Arguments OutOfFuel {A}.

Definition rbind {A B} (r : res A) (f : A -> res B) : res B :=
  match r with
  | Ok a => f a
  | Contract => Contract
  | UB k => UB k
  | OutOfFuel => OutOfFuel
  end.

Definition obind {A B} (r : option A) (f : A -> option B) : option B :=
  match r with Some a => f a | None => None end.

(** * List helpers *)
Fixpoint zrange_from (a : Z) (n : nat) : list Z :=
  match n with O => [] | S k => a :: zrange_from (a + 1) k end.

Lemma zrange_from_In : forall n a x, In x (zrange_from a n) <-> a <= x < a + Z.of_nat n.
Proof.
  induction n as [|n IH]; intros a x; cbn [zrange_from In].
  - lia.
  - rewrite IH. lia.
Qed.

(* anchor so that every extraction contains the basic number types the OCaml helpers use *)
Definition wire_anchor (n : nat) (m : N) (z : Z) (p : positive) : nat * N * Z * positive := (n, m, z, p).
