(* Checked machine operations used by the REGENERATED kernels (coq/Gen/*.v) beyond + - * : shifts, division by a
   non-literal, bitwise operators.  Semantics = C++20 [expr.shift], [expr.mul], [expr.bit.and] on the LP64 target:
   a shift count outside [0, width of the promoted left operand) is undefined (None); << and >> on signed operands
   are the two's-complement ones (C++20: a << b is a * 2^b modulo 2^N, a >> b is floor (a / 2^b)); / and %
   truncate, are undefined for a zero divisor and when the quotient is not representable (INT_MIN / -1). *)
From Tetl Require Import Lib.Base.
Local Open Scope Z_scope.

Definition shl_chk (t : ity) (a b : Z) : option Z :=
  if (0 <=? b) && (b <? bits t) then Some (wrap_ty t (a * 2 ^ b)) else None.
Definition shr_chk (t : ity) (a b : Z) : option Z :=
  if (0 <=? b) && (b <? bits t) then Some (Z.shiftr a b) else None.
Definition div_chk (t : ity) (a b : Z) : option Z :=
  if b =? 0 then None else chk t (Z.quot a b).
Definition rem_chk (t : ity) (a b : Z) : option Z :=
  if b =? 0 then None else if in_ty t (Z.quot a b) then Some (Z.rem a b) else None.
Definition not_ty (t : ity) (a : Z) : Z := wrap_ty t (Z.lnot a).
