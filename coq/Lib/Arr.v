(* Checked arrays: a C++ range [first,last) is a list; every element access goes through
   get/set/swap, which return None when the index is outside the range (the modelled code
   would read or write outside the range it was given). *)
From Coq Require Import List Arith Lia.
Import ListNotations.

Section Arr.
Context {A : Type}.

Definition get (l : list A) (i : nat) : option A := nth_error l i.

Fixpoint set (l : list A) (i : nat) (v : A) : option (list A) :=
  match l, i with
  | [], _ => None
  | _ :: t, O => Some (v :: t)
  | x :: t, S j => match set t j v with Some t' => Some (x :: t') | None => None end
  end.

Definition swap (l : list A) (i j : nat) : option (list A) :=
  match get l i, get l j with
  | Some a, Some b =>
      match set l i b with
      | Some l' => set l' j a
      | None => None
      end
  | _, _ => None
  end.

(* sub l i j = elements at positions [i, j) *)
Definition sub (l : list A) (i j : nat) : list A := firstn (j - i) (skipn i l).

Lemma get_app_l l1 l2 i : i < length l1 -> get (l1 ++ l2) i = get l1 i.
Proof. intros H. unfold get. apply nth_error_app1. exact H. Qed.

Lemma get_app_r l1 l2 i : length l1 <= i -> get (l1 ++ l2) i = get l2 (i - length l1).
Proof. intros H. unfold get. apply nth_error_app2. exact H. Qed.

Lemma get_mid l1 x l2 : get (l1 ++ x :: l2) (length l1) = Some x.
Proof. rewrite get_app_r by lia. rewrite Nat.sub_diag. reflexivity. Qed.

Lemma set_mid l1 x l2 v : set (l1 ++ x :: l2) (length l1) v = Some (l1 ++ v :: l2).
Proof. induction l1 as [|a l1 IH]; cbn [app length set]; [reflexivity|]. rewrite IH. reflexivity. Qed.

Lemma set_length l i v l' : set l i v = Some l' -> length l' = length l.
Proof.
  revert i l'. induction l as [|x t IH]; intros i l' H; cbn [set] in H; [discriminate|].
  destruct i as [|j].
  - inversion H; subst. reflexivity.
  - destruct (set t j v) as [t'|] eqn:E; [|discriminate]. inversion H; subst.
    cbn [length]. f_equal. eapply IH. exact E.
Qed.

Lemma set_some l i v : i < length l -> exists l', set l i v = Some l'.
Proof.
  revert i. induction l as [|x t IH]; intros i H; cbn [length] in H; [lia|].
  destruct i as [|j]; cbn [set]; [eexists; reflexivity|].
  destruct (IH j ltac:(lia)) as [t' E]. rewrite E. eexists; reflexivity.
Qed.

Lemma get_some l i : i < length l -> exists x, get l i = Some x.
Proof.
  intros H. unfold get. destruct (nth_error l i) eqn:E; [eexists; reflexivity|].
  apply nth_error_None in E. lia.
Qed.

Lemma get_none l i : length l <= i -> get l i = None.
Proof. intros H. unfold get. apply nth_error_None. exact H. Qed.

Lemma get_lt l i x : get l i = Some x -> i < length l.
Proof. intros H. unfold get in H. apply nth_error_Some. rewrite H. discriminate. Qed.

(* swapping the two named cells of  P ++ a :: M ++ b :: S *)
Lemma swap_split P a M b T :
  swap (P ++ a :: M ++ b :: T) (length P) (length P + S (length M)) = Some (P ++ b :: M ++ a :: T).
Proof.
  unfold swap. rewrite get_mid.
  replace (P ++ a :: M ++ b :: T) with ((P ++ a :: M) ++ b :: T) by (rewrite <- app_assoc; reflexivity).
  replace (length P + S (length M)) with (length (P ++ a :: M))
    by (rewrite app_length; cbn [length]; lia).
  rewrite get_mid.
  replace ((P ++ a :: M) ++ b :: T) with (P ++ a :: (M ++ b :: T)) by (rewrite <- app_assoc; reflexivity).
  rewrite set_mid.
  replace (P ++ b :: M ++ b :: T) with ((P ++ b :: M) ++ b :: T) by (rewrite <- app_assoc; reflexivity).
  replace (length (P ++ a :: M)) with (length (P ++ b :: M)) by (rewrite !app_length; reflexivity).
  rewrite set_mid. rewrite <- app_assoc. reflexivity.
Qed.

Lemma swap_same P a T : swap (P ++ a :: T) (length P) (length P) = Some (P ++ a :: T).
Proof. unfold swap. rewrite get_mid, set_mid, set_mid. reflexivity. Qed.

Lemma swap_length l i j l' : swap l i j = Some l' -> length l' = length l.
Proof.
  unfold swap. destruct (get l i); [|discriminate]. destruct (get l j); [|discriminate].
  destruct (set l i a0) eqn:E; [|discriminate]. intros H.
  apply set_length in H. apply set_length in E. lia.
Qed.

Lemma skipn_skipn x : forall y (l : list A), skipn x (skipn y l) = skipn (x + y) l.
Proof.
  induction y as [|y IH]; intros l.
  - rewrite Nat.add_0_r. reflexivity.
  - destruct l as [|a t].
    + rewrite !skipn_nil. reflexivity.
    + rewrite Nat.add_succ_r. cbn [skipn]. apply IH.
Qed.

Lemma sub_full l : sub l 0 (length l) = l.
Proof. unfold sub. rewrite Nat.sub_0_r. cbn [skipn]. apply firstn_all. Qed.

Lemma sub_app3 P M T : sub (P ++ M ++ T) (length P) (length P + length M) = M.
Proof.
  unfold sub. rewrite skipn_app, skipn_all, Nat.sub_diag. cbn [skipn app].
  replace (length P + length M - length P) with (length M) by lia.
  rewrite firstn_app, firstn_all, Nat.sub_diag. cbn [firstn]. apply app_nil_r.
Qed.

End Arr.
