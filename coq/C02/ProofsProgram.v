(* C02 — "any sequence of library calls ... executes without undefined behaviour", for the container families the
   property's quantifier names (all container histories of C01 / C04 / C09) plus bitset (C17), in ONE program:
   a world holds two static_vectors, an inplace_string, a pair of sets, a pair of bitsets, two inplace_vectors, two
   variants and three optionals; a program is any list
   of calls, each addressed to one of them, valid or not, in any order.  The run stops at the first call whose
   TETL_PRECONDITION fires (as the real program does in the assert handler).  Proved by induction over the program
   from the one-step theorems of the four packages; nothing here is specific to the length or the mix of the program. *)
From Tetl Require Import Lib.Base Lib.Arr C02.Safe.
From Tetl Require C06a.Model C01.Model C01.Spec C01.ProofsBase C01.ProofsStep C01.ProofsIv.
From Tetl Require C07.Types C07.Model C07.VariantProofs C07.OptionalProofs C07.Properties.
From Tetl Require C08.Model C04.Model C04.Inv C04.InvOps C04.Total C04.Properties.
From Tetl Require C09.Ops C09.Model C09.Spec C09.ProofsRun C09.Properties.
From Tetl Require C17.Ops C17.Model C17.History C17.Properties.
Local Open Scope Z_scope.

Section Program.
(* the instantiation: every choice of these parameters *)
Variable pred : Z -> Z -> bool.                 (* predicate table of the vector's erase_if *)
Variable vcap : nat.                            (* vector capacity *)
Hypothesis Hvcap : Z.of_nat vcap < 2 ^ 63.
Variable A : Type.                              (* element type of the sets *)
Variable lt : A -> A -> bool.
Hypothesis Hlt : C09.ProofsRun.strict_weak lt.
Variable kind : C09.Ops.kind.                   (* static_set or flat_set *)
Variable scap : nat.                            (* set capacity *)
Variable bits : nat.                            (* bitset width *)
Variable wk : nat.                              (* word width 2^wk *)
Hypothesis Hbits : (0 < bits)%nat.
Variable icap : nat.                            (* inplace_vector capacity *)
Hypothesis Hicap : Z.of_nat icap < 2 ^ 63.
Variable alts : list C07.Types.ty.              (* the variant's alternatives *)
Variable oT oU : C07.Types.ty.                  (* optional<T>, optional<U> *)

Record world := mkworld {
  w_vecs : C01.Model.vec * C01.Model.vec;
  w_str : C04.Model.istr;
  w_sets : C09.Ops.st A;
  w_bits : C17.Model.state;
  w_ivecs : C01.Model.vec * C01.Model.vec;      (* two inplace_vectors *)
  w_vars : C07.Model.vstate;                    (* two variants *)
  w_opts : C07.Model.ostate }.                  (* three optionals *)

Inductive call :=
| CVec (o : C01.Model.op)
| CStr (o : C04.Model.op)
| CSet (o : C09.Ops.op A)
| CBits (o : C17.Ops.op)
| CIvec (o : C01.Model.iv_op)
| CVar (o : C07.Types.vop)
| COpt (o : C07.Types.oop).

Definition is_ocontract (r : C09.Model.out A) : bool :=
  match r with C09.Model.OContract => true | _ => false end.

Definition step_world (w : world) (c : call) : res world :=
  match c with
  | CVec o =>
      match C01.Model.step pred (w_vecs w) o with
      | Ok (v', _) => Ok (mkworld v' (w_str w) (w_sets w) (w_bits w) (w_ivecs w) (w_vars w) (w_opts w))
      | Contract => Contract | UB k => UB k | OutOfFuel => OutOfFuel
      end
  | CStr o =>
      match C04.Model.step (w_str w) o with
      | Ok s' => Ok (mkworld (w_vecs w) s' (w_sets w) (w_bits w) (w_ivecs w) (w_vars w) (w_opts w))
      | Contract => Contract | UB k => UB k | OutOfFuel => OutOfFuel
      end
  | CSet o =>
      match C09.Model.step lt kind scap (w_sets w) o with
      | Ok (s', r) => if is_ocontract r then Contract else Ok (mkworld (w_vecs w) (w_str w) s' (w_bits w) (w_ivecs w) (w_vars w) (w_opts w))
      | Contract => Contract | UB k => UB k | OutOfFuel => OutOfFuel
      end
  | CBits o =>
      match C17.Model.step_m bits (2 ^ wk) (w_bits w) o with
      | Ok (b', _) => Ok (mkworld (w_vecs w) (w_str w) (w_sets w) b' (w_ivecs w) (w_vars w) (w_opts w))
      | Contract => Contract | UB k => UB k | OutOfFuel => OutOfFuel
      end
  | CIvec o =>
      match C01.Model.iv_step (w_ivecs w) o with
      | Ok (v', _) => Ok (mkworld (w_vecs w) (w_str w) (w_sets w) (w_bits w) v' (w_vars w) (w_opts w))
      | Contract => Contract | UB k => UB k | OutOfFuel => OutOfFuel
      end
  | CVar o =>
      match C07.Model.vstep alts (w_vars w) o with
      | Ok s' => Ok (mkworld (w_vecs w) (w_str w) (w_sets w) (w_bits w) (w_ivecs w) s' (w_opts w))
      | Contract => Contract | UB k => UB k | OutOfFuel => OutOfFuel
      end
  | COpt o =>
      match C07.Model.ostep oT oU (w_opts w) o with
      | Ok s' => Ok (mkworld (w_vecs w) (w_str w) (w_sets w) (w_bits w) (w_ivecs w) (w_vars w) s')
      | Contract => Contract | UB k => UB k | OutOfFuel => OutOfFuel
      end
  end.

Fixpoint run_world (w : world) (p : list call) : res world :=
  match p with
  | [] => Ok w
  | c :: rest =>
      match step_world w c with
      | Ok w' => run_world w' rest
      | Contract => Contract | UB k => UB k | OutOfFuel => OutOfFuel
      end
  end.

(* the representation invariants of the four components *)
Definition world_inv (w : world) : Prop :=
  C01.ProofsBase.inv vcap (fst (w_vecs w)) /\ C01.ProofsBase.inv vcap (snd (w_vecs w)) /\
  C04.Inv.inv (w_str w) /\
  C09.ProofsRun.inv lt scap (w_sets w) /\
  C17.History.wf2 bits wk (w_bits w) /\
  C01.ProofsBase.inv icap (fst (w_ivecs w)) /\ C01.ProofsBase.inv icap (snd (w_ivecs w)) /\
  C07.VariantProofs.wfs alts (w_vars w) /\
  C07.OptionalProofs.wfos (w_opts w).

(* arguments are values of their C++ types (an index is a size_t, ...); a (pointer, count) argument stays inside the
   array the pointer points into; replace / sorted_unique are handed a sorted unique container *)
Definition call_ok (c : call) : Prop :=
  match c with
  | CVec o => C01.ProofsStep.at_arg_ok o
  | CStr o => C04.InvOps.op_wf o /\ C04.Total.ptr_ok o
  | CSet o => C09.ProofsRun.op_ok lt kind o
  | CBits _ => True
  | CIvec o => C01.ProofsIv.iv_at_arg_ok o
  | CVar o => C07.VariantProofs.wf_vop alts o      (* emplace<I> / in_place_index<I> name an existing alternative *)
  | COpt _ => True
  end.

Lemma step_world_safe : forall w c, world_inv w -> call_ok c ->
  match step_world w c with
  | Ok w' => world_inv w'
  | Contract => True
  | _ => False
  end.
Proof.
  intros w c (Iv1 & Iv2 & Is & It & Ib & Ii1 & Ii2 & Ivar & Iopt) Hc. destruct c as [o|o|o|o|o|o|o]; cbn [step_world call_ok] in *.
  - pose proof (C01.ProofsStep.step_safe pred vcap Hvcap (w_vecs w) o Iv1 Iv2 Hc) as S.
    destruct (C01.Model.step pred (w_vecs w) o) as [[v' out]| |k|]; cbn [C01.ProofsStep.safe_step] in S; try contradiction; [|exact I].
    destruct S as [S1 S2]. unfold world_inv. cbn [w_vecs w_str w_sets w_bits w_ivecs w_vars w_opts fst snd]. tauto.
  - destruct Hc as [Hw Hp]. pose proof (C04.Properties.C04_step_outcome (w_str w) o Is Hw Hp) as S.
    destruct (C04.Total.pre_ok (w_str w) o).
    + destruct S as (s' & E & (I' & _)). rewrite E. unfold world_inv. cbn [w_vecs w_str w_sets w_bits w_ivecs w_vars w_opts fst snd]. tauto.
    + rewrite S. exact I.
  - destruct (C09.Properties.C09_step_from_any_set A lt Hlt kind scap (w_sets w) o It Hc) as (s' & r' & E & I' & _).
    rewrite E. destruct (is_ocontract r'); [exact I|]. unfold world_inv. cbn [w_vecs w_str w_sets w_bits w_ivecs w_vars w_opts fst snd]. tauto.
  - pose proof (C17.Properties.C17_step_refines bits wk Hbits (w_bits w) o Ib) as S.
    destruct (C17.Model.step_m bits (2 ^ wk) (w_bits w) o) as [[b' q]| |k|]; try contradiction; [|exact I].
    destruct S as [S _]. unfold world_inv. cbn [w_vecs w_str w_sets w_bits w_ivecs w_vars w_opts fst snd]. tauto.
  - pose proof (C01.ProofsIv.iv_step_safe icap Hicap (w_ivecs w) o Ii1 Ii2 Hc) as S.
    destruct (C01.Model.iv_step (w_ivecs w) o) as [[v' out]| |k|]; cbn [C01.ProofsStep.safe_step] in S; try contradiction; [|exact I].
    destruct S as [S1 S2]. unfold world_inv. cbn [w_vecs w_str w_sets w_bits w_ivecs w_vars w_opts fst snd]. tauto.
  - destruct (C07.Properties.C07_variant_step_refines_std alts (w_vars w) o Ivar Hc) as (s' & E & _ & W).
    rewrite E. unfold world_inv. cbn [w_vecs w_str w_sets w_bits w_ivecs w_vars w_opts fst snd]. tauto.
  - destruct (C07.Properties.C07_optional_step_refines_std oT oU (w_opts w) o Iopt) as (s' & E & _ & W).
    rewrite E. unfold world_inv. cbn [w_vecs w_str w_sets w_bits w_ivecs w_vars w_opts fst snd]. tauto.
Qed.

Theorem run_world_no_ub : forall p w, world_inv w -> Forall call_ok p ->
  no_ub (run_world w p) /\ (forall w', run_world w p = Ok w' -> world_inv w').
Proof.
  induction p as [|c rest IH]; intros w I Hp; cbn [run_world].
  - split; [eapply ok_no_ub; reflexivity|]. intros w' E. inversion E; subst. exact I.
  - inversion Hp as [|? ? Hc Hrest]; subst. pose proof (step_world_safe w c I Hc) as S.
    destruct (step_world w c) as [w1| |k|]; try contradiction.
    + exact (IH w1 S Hrest).
    + split; [apply contract_no_ub; reflexivity|]. intros w' E. discriminate.
Qed.

(* the freshly constructed objects *)
Definition fresh (c : Z) (ck : C08.Model.charkind) : world :=
  mkworld (C01.Model.empty_vec vcap, C01.Model.empty_vec vcap) (C04.Model.default_str c ck) C09.Ops.init
          (C17.Model.init_m bits (2 ^ wk)) (C01.Model.empty_vec icap, C01.Model.empty_vec icap)
          (C07.Model.var_default, C07.Model.var_default) (C07.Model.opt_empty, C07.Model.opt_empty, C07.Model.opt_empty).

Lemma fresh_inv : forall c ck, C04.Inv.cap_ok c -> alts <> [] -> world_inv (fresh c ck).
Proof.
  intros c ck Hc Ha. unfold world_inv, fresh. cbn [w_vecs w_str w_sets w_bits w_ivecs w_vars w_opts fst snd].
  split; [apply C01.ProofsBase.empty_inv|]. split; [apply C01.ProofsBase.empty_inv|].
  split; [exact (proj1 (C04.Inv.inv_default c ck Hc))|]. split; [apply C09.ProofsRun.inv_init|].
  split; [apply C17.History.wf2_init; assumption|].
  split; [apply C01.ProofsBase.empty_inv|]. split; [apply C01.ProofsBase.empty_inv|].
  split.
  - unfold C07.VariantProofs.wfs, C07.VariantProofs.wfv. cbn. destruct alts; [contradiction|cbn [length]; lia].
  - unfold C07.OptionalProofs.wfos, C07.OptionalProofs.wfo. cbn. lia.
Qed.
End Program.
