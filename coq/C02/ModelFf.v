(* C02 own model, third component: the writes of etl::strings::from_floating_point(val, span<char> out, precision)
   (include/etl/_strings/from_floating_point.hpp) as the code is AFTER fix commit ac8c962.

   The conversion of the floating-point value into its two integers
       whole = static_cast<int_type>(val);   part = static_cast<int_type>(frac * 10^precision)
   is outside the model (the correspondence run uses values for which both are exact); the model takes [whole] and
   [part] and mirrors everything the function does with the output span:

       toString(x, str, numDigits): while (x) { str[i++] = x % 10 + '0'; x /= 10; }   while (i < numDigits) str[i++] = '0';
                                    reverse(str, str + i);  str[i] = 0;  return i;
       needed = numDigits(whole, 0) + (precision == 0 ? 0 : 1 + numDigits(part, precision)) + 1;
       if (needed > out.size()) return {out.data(), overflow};                          -- added by ac8c962
       pos = toString(whole, res, 0);  if (precision == 0) return {};   res[pos] = '.';  toString(part, res + pos + 1, precision);
       return {.end = res + pos};

   Every store goes through the checked [wr] (UB OutOfBounds outside the span).  [ffp_prefix] is the function as it
   was before the fix (no length test at all).  No proofs in this file. *)
From Tetl Require Import Lib.Base Lib.Arr.
Local Open Scope Z_scope.

Notation "'do' x <- a ; b" := (rbind a (fun x => b)) (at level 200, x name, a at level 100, b at level 200).

Definition wr (buf : list Z) (i : nat) (c : Z) : res (list Z) :=
  match Arr.set buf i c with Some b => Ok b | None => UB OutOfBounds end.

(* the digit loop: least significant digit first; None = out of fuel *)
Fixpoint digits_rev (fuel : nat) (x : Z) : option (list Z) :=
  match fuel with
  | O => None
  | S f => if x =? 0 then Some [] else
           match digits_rev f (x / 10) with Some ds => Some ((x mod 10 + 48) :: ds) | None => None end
  end.
Definition fuel_for (x : Z) : nat := S (Z.to_nat (Z.log2 x + 1)).

(* the characters toString leaves in str[0 .. i): the digits, most significant first, left-padded with '0' *)
Definition to_string_chars (x numDigits : Z) : option (list Z) :=
  match digits_rev (fuel_for x) x with
  | Some ds => Some (repeat 48 (Z.to_nat numDigits - length ds) ++ rev ds)
  | None => None
  end.

(* stores cs at str[off ..] one by one, then the terminator *)
Fixpoint store (buf : list Z) (off : nat) (cs : list Z) : res (list Z) :=
  match cs with
  | [] => Ok buf
  | c :: t => do b <- wr buf off c; store b (S off) t
  end.

(* toString: returns the buffer and the number of characters before the terminator *)
Definition to_string_m (buf : list Z) (off : nat) (x numDigits : Z) : res (list Z * nat) :=
  match to_string_chars x numDigits with
  | None => OutOfFuel
  | Some cs => do b <- store buf off (cs ++ [0]); Ok (b, length cs)
  end.

(* the lambda numDigits(x, minDigits) of the fix *)
Definition num_digits (x minDigits : Z) : option Z :=
  match digits_rev (fuel_for x) x with
  | Some ds => Some (Z.max (Z.of_nat (length ds)) minDigits)
  | None => None
  end.

(* result: (span contents, error (0 none / 1 overflow), end offset or None for a null end pointer) *)
Definition ffp_body (whole part precision : Z) (buf : list Z) : res (list Z * Z * option Z) :=
  do r <- to_string_m buf 0 whole 0;
  let '(b1, pos) := r in
  if precision =? 0 then Ok (b1, 0, None)
  else do b2 <- wr b1 pos 46;
       do r2 <- to_string_m b2 (S pos) part precision;
       Ok (fst r2, 0, Some (Z.of_nat pos)).

Definition ffp_m (whole part precision : Z) (buf : list Z) : res (list Z * Z * option Z) :=
  match num_digits whole 0, num_digits part precision with
  | Some nw, Some np =>
      let needed := nw + (if precision =? 0 then 0 else 1 + np) + 1 in
      if needed >? Z.of_nat (length buf) then Ok (buf, 1, Some 0)
      else ffp_body whole part precision buf
  | _, _ => OutOfFuel
  end.

(* before ac8c962 *)
Definition ffp_prefix (whole part precision : Z) (buf : list Z) : res (list Z * Z * option Z) :=
  ffp_body whole part precision buf.

(** specification: the text, when it fits with its terminator; otherwise overflow and an untouched span *)
Definition ffp_text (whole part precision : Z) : option (list Z) :=
  match to_string_chars whole 0, to_string_chars part precision with
  | Some w, Some p => Some (if precision =? 0 then w else w ++ 46 :: p)
  | _, _ => None
  end.
