(* C02 — owners of ONE contained object: optional, variant, expected, optional<T&> (C07) and inplace_function
   (C20).  The models carry the active index / engaged flag and the contained value; [Ok] excludes a read of the
   storage through the wrong alternative (unchecked_get / operator* / error() precondition), UB and fuel exhaustion;
   the inplace_function model tracks every target object's lifetime in the inline storage ([Bad UseDead | OverLive |
   TypeConfusion | Leak] are its failure outcomes).  Corollaries of theorems of those packages (Required, not copied).
   The element-lifetime discipline of these types (construct once / destroy once in the shared storage) is
   C02_no_use_of_dead_storage in Properties_containers.v. *)
From Tetl Require Import Lib.Base C02.Safe.
From Tetl Require C07.Types C07.Model C07.Spec C07.Dispatch C07.VariantProofs C07.OptionalProofs C07.ExpectedProofs
  C07.RefProofs C07.Properties.
From Tetl Require C20.Model C20.Spec C20.ProofsFn C20.Properties.
Local Open Scope nat_scope.

Module Sum.
Import C07.Types C07.Model C07.Spec C07.Dispatch C07.VariantProofs C07.OptionalProofs C07.ExpectedProofs C07.RefProofs.

(* EVERY history of constructions, emplace, converting / copy / move assignments, swap, self and aliasing
   assignments, for every list of alternatives, from every pair of objects whose active index is a valid index
   (true of every constructed object): the run returns; visit over any number of variants reaches the active
   alternatives and no unchecked_get precondition fires; the six relations return *)
Theorem C02_variant_optional_expected_no_ub :
  (forall alts ops s, wfs alts s -> Forall (wf_vop alts) ops -> returns_ok (vrun alts s ops)) /\
  (forall sizes vs, Forall2 (fun s n => idx s < n) vs sizes -> returns_ok (visit_vals sizes vs)) /\
  (forall alts k a b, wfv alts a -> wfv alts b -> returns_ok (var_rel alts k a b)) /\
  (forall s i, returns_ok (get_if s i)) /\
  (forall T U ops s, wfos s -> returns_ok (orun T U s ops)) /\
  (forall k l r, returns_ok (opt_rel k l r)) /\
  (forall s d, returns_ok (opt_value_or s d)) /\
  (forall T E ops s, wfes s -> returns_ok (erun T E s ops)) /\
  (forall s d, returns_ok (exp_value_or s d)).
Proof.
  split; [|split; [|split; [|split; [|split; [|split; [|split; [|split]]]]]]].
  - intros alts ops s W O. pose proof (C07.Properties.C07_variant_refines_std alts ops s W O) as HH. ok_from HH.
  - intros sizes vs H. (pose proof (C07.Properties.C07_visit_receives_active sizes vs H) as HH; ok_from HH).
  - intros alts k a b Ha Hb. (pose proof (C07.Properties.C07_variant_relops_spec alts k a b Ha Hb) as HH; ok_from HH).
  - intros s i. (pose proof (C07.Properties.C07_get_if_spec s i) as HH; ok_from HH).
  - intros T U ops s W. pose proof (C07.Properties.C07_optional_refines_std T U ops s W) as HH. ok_from HH.
  - intros k l r. (pose proof (C07.Properties.C07_optional_relops_spec k l r) as HH; ok_from HH).
  - intros s d. (pose proof (C07.Properties.C07_optional_value_or_spec s d) as HH; ok_from HH).
  - intros T E ops s W. pose proof (C07.Properties.C07_expected_refines_std T E ops s W) as HH. ok_from HH.
  - intros s d. (pose proof (C07.Properties.C07_expected_value_or_spec s d) as HH; ok_from HH).
Qed.
Print Assumptions C02_variant_optional_expected_no_ub.

(* optional<T&>: whenever the pointer-cell semantics of P2988 defines the history (it is undefined only for a write
   through a reference whose referent has been destroyed — the caller's dangling reference), the code runs without
   precondition failure and without UB *)
Theorem C02_optional_ref_no_dangling_access : forall T ops s s1,
  wfr s -> sr_run (absr s) ops = Some s1 -> returns_ok (rrun T s ops).
Proof.
  intros T ops s s1 W H. pose proof (C07.Properties.C07_optional_ref_refines_pointer_cell T ops s s1 W H) as HH. ok_from HH.
Qed.
Print Assumptions C02_optional_ref_no_dangling_access.
End Sum.

Module Fn.
Import C20.Model C20.Spec C20.ProofsFn.

(* inplace_function: EVERY history (assignments of callables of any tracked / stateless kind, copy / move
   assignment incl. self, swap incl. self, reset, null function pointers, calls of empty and non-empty wrappers),
   any number of wrappers: no target object is used after its destruction, none is constructed over a live one, the
   storage is never read as another type, and destroying the wrappers leaves nothing alive *)
Theorem C02_inplace_function_no_lifetime_ub : forall stateless tracked n ops,
  (exists r, run_m stateless tracked n init_state ops = Good r) /\
  (exists s' tr s'', run_m stateless tracked n init_state ops = Good (s', tr) /\
                     destroy_all n s' = Good s'' /\ live_m tracked n s'' = O).
Proof.
  intros stateless tracked n ops. split.
  - destruct (C20.Properties.C20_ipf_history_refines stateless tracked n ops) as (s' & E & _). eexists. exact E.
  - destruct (C20.Properties.C20_ipf_no_leak stateless tracked n ops) as (s' & s'' & E & D & L & _).
    exists s', (snd (run_s stateless tracked n init_astate ops)), s''. split; [exact E|split; assumption].
Qed.
Print Assumptions C02_inplace_function_no_lifetime_ub.

(* the repaired defect (Appendix A row 38) shows the failure outcome is reachable in the model: swap without the
   self check uses a destroyed object *)
Theorem C02_inplace_function_model_detects_use_after_destroy : forall s w id c,
  vts s w = Some id -> cells s (CW w) = Live id c -> cells s CTmp = Dead ->
  swap_unchecked_m w w s = Bad UseDead.
Proof. exact C20.Properties.C20_swap_self_check_needed. Qed.
Print Assumptions C02_inplace_function_model_detects_use_after_destroy.
End Fn.

Example C02_wrappers_nonvacuous :
  C07.VariantProofs.wfs [C07.Types.TInt; C07.Types.TTr; C07.Types.TFloat] (C07.Model.var_default, C07.Model.var_default) /\
  C07.OptionalProofs.wfos (C07.Model.opt_empty, C07.Model.opt_empty, C07.Model.opt_empty) /\
  (exists r, C20.Model.run_m [] [] 2 C20.Model.init_state [] = C20.Model.Good r).
Proof.
  split; [exact (proj1 C07.Properties.C07_nonvacuous)|].
  split; [exact (proj1 (proj2 (proj2 (proj2 (proj2 (proj2 (proj2 (proj2 (proj2 C07.Properties.C07_nonvacuous)))))))))|].
  eexists. reflexivity.
Qed.
