(* C02 (alignment leg) model: WHERE the element slots of the library's in-object storages are, and with which alignment.

   "No undefined behaviour" includes: an object of type T is only ever created / accessed at an address that is a multiple
   of alignof(T).  The library keeps elements in raw storage inside the container object (byte arrays with an alignas,
   unions, typed arrays), so this is a fact about the DECLARATIONS of the data members: the C++ object model places the
   container at a multiple of alignof(container) = the largest alignment of its members, each member at the next multiple
   of its own alignment; a char array has alignment 1 unless an alignas raises it.

   The model mirrors the declarations (file: member):
     _vector/static_vector.hpp   trivial storage:      alignas(alignof(T)) array<T, Capacity> _data{}; size_type _size = 0;
                                 non-trivial storage:  alignas(alignof(T)) aligned_storage_t<sizeof(T), alignof(T)> _data[Capacity];
                                                       size_type _size = 0;
     _type_traits/aligned_storage.hpp  aligned_storage<Len, Align>::type = struct { alignas(Align) unsigned char data[Len]; };
                                 default Align = alignof(union of char[Len], short, int, long, long long, pointer to object, pointer to function,
                                 struct{double}, struct{double[4]}, long double -- each only if it fits into Len)
     _type_traits/aligned_union.hpp    struct type { alignas(max alignof(Types)...) char storage[max(Len, sizeof(Types)...)]; };
     _array/uninitialized_array.hpp    primary template:   alignas(T) c_array<char, sizeof(T) * Size> _storage;
                                 sufficiently trivial T:   c_array<T, Size> _storage;
     _inplace_vector/inplace_vector.hpp  uninitialized_array<T, Capacity> _storage; smallest_size_t<Capacity> _size;
     _variant/variant.hpp        index_type _index (smallest_size_t<sizeof...(Ts)>); variadic_union<Ts...> _union (a real union);
     _optional/optional.hpp      variant<nullopt_t, T> _var;       _expected/expected.hpp   variant<T, E> _u;
     _functional/inplace_function.hpp  vtable_ptr_t _vtable; aligned_storage_t<Capacity, Alignment> mutable _storage;
                                 static_assert(Alignment % alignof(C) == 0) for the stored callable C
   Alignments are powers of two (C++ [basic.align]): they are represented by their exponent ([al k] = 2^k).
   Platform facts used (x86-64 SysV, the platform of the correspondence run): pointers have size and alignment 8;
   short 2, int 4, long / long long 8, double 8, long double 16 / alignment 16; unsigned char / short / int / long for
   smallest_size_t have size = alignment = 1 / 2 / 4 / 8. *)
From Tetl Require Import Lib.Base.
Local Open Scope Z_scope.

Definition al (k : nat) : Z := 2 ^ Z.of_nat k.

Record member := Member { m_size : Z; m_al : nat }.

Definition round_up (x a : Z) : Z := ((x + a - 1) / a) * a.

(* layout of a class whose non-static data members are [ms], in declaration order (no bases, no bit-fields, no empty
   members): every member at the next multiple of its alignment; the class is as aligned as its most aligned member;
   its size is the end of the last member rounded up to that *)
Fixpoint offsets_from (cur : Z) (ms : list member) : list Z :=
  match ms with
  | [] => []
  | m :: t => let o := round_up cur (al (m_al m)) in o :: offsets_from (o + m_size m) t
  end.

Fixpoint end_from (cur : Z) (ms : list member) : Z :=
  match ms with
  | [] => cur
  | m :: t => end_from (round_up cur (al (m_al m)) + m_size m) t
  end.

Fixpoint class_al (ms : list member) : nat :=
  match ms with [] => 0%nat | m :: t => Nat.max (m_al m) (class_al t) end.

Definition class_size (ms : list member) : Z := round_up (end_from 0 ms) (al (class_al ms)).
Definition offset_of (ms : list member) (k : nat) : Z := nth k (offsets_from 0 ms) 0.
(* an object of that class used as a member / array element of another one *)
Definition as_member (ms : list member) : member := Member (class_size ms) (class_al ms).
(* a union: as large as its largest alternative (rounded up), as aligned as its most aligned one; all at offset 0 *)
Fixpoint union_size (ms : list member) : Z := match ms with [] => 0 | m :: t => Z.max (m_size m) (union_size t) end.
Definition union_member (ms : list member) : member := Member (round_up (union_size ms) (al (class_al ms))) (class_al ms).

(* element type: sizeof and (exponent of) alignof; C++ guarantees sizeof(T) % alignof(T) == 0 and sizeof(T) > 0 *)
Record elem := Elem { e_size : Z; e_al : nat }.
Definition elem_wf (e : elem) : Prop := 0 < e_size e /\ e_size e mod al (e_al e) = 0.

(* unsigned char array of [bytes] bytes with an alignas(2^k): natural alignment 1 = 2^0 *)
Definition raw_bytes (bytes : Z) (alignas_k : nat) : member := Member bytes (Nat.max 0 alignas_k).
(* T[n] *)
Definition typed_array (e : elem) (n : Z) : member := Member (e_size e * n) (e_al e).
(* a member declaration with an additional alignas(2^k) *)
Definition with_alignas (m : member) (k : nat) : member := Member (m_size m) (Nat.max (m_al m) k).

(* smallest_size_t<N>: unsigned char below 255, unsigned short below 65535, unsigned int below 2^32 - 1, else unsigned long *)
Definition size_al (n : Z) : nat :=
  if n <? 255 then 0%nat else if n <? 65535 then 1%nat else if n <? 4294967295 then 2%nat else 3%nat.
Definition size_member (n : Z) : member := Member (al (size_al n)) (size_al n).

Definition char_member : member := Member 1 0.
Definition pointer_member : member := Member 8 3.

(* default alignment of aligned_storage<Len>: alignof(detail::aligned_storage_impl<Len>), a union whose members other than
   char[Len] are replaced by char when they do not fit *)
Definition fundamental : list (Z * nat) :=   (* sizeof, exponent of alignof: short, int, long, long long, object pointer, function pointer, double1, double4, long double *)
  [(2, 1%nat); (4, 2%nat); (8, 3%nat); (8, 3%nat); (8, 3%nat); (8, 3%nat); (8, 3%nat); (32, 3%nat); (16, 4%nat)].
Definition as_default_al (len : Z) : nat :=
  fold_right (fun (f : Z * nat) k => if fst f <=? len then Nat.max (snd f) k else k) 0%nat fundamental.
(* aligned_storage<Len, Align>::type *)
Definition aligned_storage_cell (len : Z) (k : nat) : list member := [raw_bytes len k].

(* where the element slots are: the class' members, which member holds the slots, offset of slot 0 inside that member,
   distance between slots, number of slots *)
Record storage := Storage { st_members : list member; st_slot : nat; st_inner : Z; st_stride : Z; st_count : Z }.

Definition st_al (s : storage) : nat := class_al (st_members s).
Definition st_size (s : storage) : Z := class_size (st_members s).
Definition st_off (s : storage) : Z := offset_of (st_members s) (st_slot s) + st_inner s.
Definition slot_addr (s : storage) (base i : Z) : Z := base + st_off s + i * st_stride s.

(* creating / reading / destroying the element in slot i of a container that sits at address [base] *)
Inductive access := Aligned (addr : Z) | Misaligned (addr : Z) | Outside (addr : Z).
Definition access_slot (s : storage) (e : elem) (base i : Z) : access :=
  let a := slot_addr s base i in
  if negb ((base <=? a) && (a + e_size e <=? base + st_size s)) then Outside a
  else if a mod al (e_al e) =? 0 then Aligned a else Misaligned a.

Inductive family :=
| FStaticVector (trivial : bool)         (* static_vector<T, N> *)
| FInplaceVector (trivial : bool)        (* inplace_vector<T, N> *)
| FUninitializedArray (trivial : bool)   (* uninitialized_array<T, N> *)
| FAlignedStorage                        (* aligned_storage_t<sizeof(T), alignof(T)> *)
| FAlignedUnion                          (* aligned_union_t<0, char, T> *)
| FOptional                              (* optional<T> *)
| FVariant                               (* variant<char, T> holding the T *)
| FExpected                              (* expected<T, char> holding the value *)
| FExpectedError                         (* expected<char, T> holding the error *)
| FInplaceFunction (explicit_al : bool). (* inplace_function<Sig, sizeof(C), alignof(C)> / <Sig, sizeof(C)>, C holds a T *)

(* uninitialized_array<T, N> *)
Definition uninit_array (trivial : bool) (e : elem) (n : Z) : list member :=
  if trivial then [typed_array e n] else [raw_bytes (e_size e * n) (e_al e)].   (* alignas(T) on the byte array *)
(* the same WITHOUT the alignas: what the storage would be if the attribute were dropped *)
Definition uninit_array_no_alignas (e : elem) (n : Z) : list member := [raw_bytes (e_size e * n) 0].

Definition sum_members (other e : elem) : list member :=
  [char_member; union_member [Member (e_size other) (e_al other); Member (e_size e) (e_al e)]].
Definition nullopt_elem : elem := Elem 1 0.
Definition char_elem : elem := Elem 1 0.

Definition storage_of (f : family) (e : elem) (n : Z) : storage :=
  match f with
  | FStaticVector true =>
      Storage [with_alignas (typed_array e n) (e_al e); size_member n] 0 0 (e_size e) n
  | FStaticVector false =>
      let cell := aligned_storage_cell (e_size e) (e_al e) in
      Storage [with_alignas (Member (class_size cell * n) (class_al cell)) (e_al e); size_member n] 0 0 (class_size cell) n
  | FInplaceVector t => Storage [as_member (uninit_array t e n); size_member n] 0 0 (e_size e) n
  | FUninitializedArray t => Storage (uninit_array t e n) 0 0 (e_size e) n
  | FAlignedStorage => Storage (aligned_storage_cell (e_size e) (e_al e)) 0 0 (e_size e) 1
  | FAlignedUnion => Storage [raw_bytes (Z.max 0 (Z.max 1 (e_size e))) (Nat.max 0 (e_al e))] 0 0 (e_size e) 1
  | FOptional => Storage (sum_members nullopt_elem e) 1 0 (e_size e) 1
  | FVariant | FExpected | FExpectedError => Storage (sum_members char_elem e) 1 0 (e_size e) 1
  | FInplaceFunction ex =>
      let k := if ex then e_al e else as_default_al (e_size e) in
      Storage [pointer_member; as_member (aligned_storage_cell (e_size e) k)] 1 0 (e_size e) 1
  end.

(* the seeded neighbour: inplace_vector over an uninitialized_array whose byte array has no alignas *)
Definition storage_iv_no_alignas (e : elem) (n : Z) : storage :=
  Storage [as_member (uninit_array_no_alignas e n); size_member n] 0 0 (e_size e) n.

(* what the library asks of the instantiation: at least one slot; the single-slot families hold one element; a callable
   needs Alignment % alignof(C) == 0 (static_assert in inplace_function), which the default Alignment may not give *)
Definition family_ok (f : family) (e : elem) (n : Z) : Prop :=
  1 <= n /\
  match f with
  | FStaticVector _ | FInplaceVector _ | FUninitializedArray _ => True
  | FInplaceFunction false => n = 1 /\ (e_al e <= as_default_al (e_size e))%nat
  | _ => n = 1
  end.

(* ---- where the harness puts the container: offset of the container object from the start of an arena that is aligned
   for everything (256) *)
Inductive placement :=
| PNatural            (* an automatic variable: the compiler picks a multiple of alignof(V) *)
| PBehindChar         (* struct { char c; V v; } *)
| PArrayElem (k : Z)  (* V a[3]: element k *)
| PAtAlign            (* placement new at arena + alignof(V): the least aligned legal address *)
| PSecondBehindChar   (* struct { char c; V v; char d; V w; }: w *)
| PPairSecond         (* etl::pair<char, V>::second *)
| PEtlArrayElem       (* etl::array<V, 3>: element 1 *)
| PInInplaceVector    (* struct { char c; etl::inplace_vector<V, 2> o; }: element 1 *)
| PInOptional         (* struct { char c; etl::optional<V> o; }: the contained V *)
| PInStaticVector.    (* struct { char c; etl::static_vector<V, 2> o; }: element 1 *)

Definition placement_offset (p : placement) (v : member) : Z :=
  let ve := Elem (m_size v) (m_al v) in
  match p with
  | PNatural => 0
  | PBehindChar | PPairSecond => offset_of [char_member; v] 1
  | PArrayElem k => k * m_size v
  | PAtAlign => al (m_al v)
  | PSecondBehindChar => offset_of [char_member; v; char_member; v] 3
  | PEtlArrayElem => m_size v
  | PInInplaceVector =>
      let s := storage_of (FInplaceVector false) ve 2 in offset_of [char_member; as_member (st_members s)] 1 + slot_addr s 0 1
  | PInOptional =>
      let s := storage_of FOptional ve 1 in offset_of [char_member; as_member (st_members s)] 1 + slot_addr s 0 0
  | PInStaticVector =>
      let s := storage_of (FStaticVector false) ve 2 in offset_of [char_member; as_member (st_members s)] 1 + slot_addr s 0 1
  end.

Fixpoint count_bad (s : storage) (e : elem) (base : Z) (i : nat) (want_outside : bool) : Z :=
  match i with
  | O => 0
  | S j => count_bad s e base j want_outside +
           match access_slot s e base (Z.of_nat j), want_outside with
           | Misaligned _, false => 1
           | Outside _, true => 1
           | _, _ => 0
           end
  end.

(* the observation of the harness: alignof(V) mod alignof(T), number of misaligned slots, number of slots that are not
   inside the object -- then (correspondence only) alignof(V), sizeof(V), offset of slot 0, stride, offset of V in the arena *)
Definition observe (s : storage) (e : elem) (p : placement) : list Z * list Z :=
  let v := as_member (st_members s) in
  let base := placement_offset p v in
  ([al (st_al s) mod al (e_al e); count_bad s e base (Z.to_nat (st_count s)) false; count_bad s e base (Z.to_nat (st_count s)) true],
   [al (st_al s); st_size s; st_off s; st_stride s; base]).

Definition align_obs (f : family) (e : elem) (n : Z) (p : placement) : list Z * list Z := observe (storage_of f e n) e p.
(* specification: the container is at least as aligned as its elements, every slot is aligned and inside the object *)
Definition align_spec : list Z := [0; 0; 0].

(* aligned_storage_t<Len>: observation = number of fundamental types that fit into Len but are more aligned than the
   storage; detail = alignof *)
Definition asdef_obs (len : Z) : Z * Z :=
  (fold_right (fun (f : Z * nat) c => if (fst f <=? len) && negb (snd f <=? as_default_al len)%nat then c + 1 else c) 0 fundamental,
   al (as_default_al len)).
