From Tetl Require Import Lib.Base C02.Model.
From Tetl Require C08.Model C08.Core C02.ModelFp C02.ModelFf C02.ModelAlign C02.ModelSub.
Require Extraction.
Require Import ExtrOcamlBasic.
Extraction Language OCaml.
Extraction "C02_model.ml" wire_anchor members read_poisoned default_obs default_obs_poisoned empty_state default_size all_objs
  C08.Model.mkview C08.Model.cstr_view C08.Core.vchars C02.ModelFp.tfp_scan C02.ModelFp.tfp_spec C02.ModelFp.tfp_scan_prefix
  C02.ModelFf.ffp_m C02.ModelFf.ffp_text C02.ModelFf.to_string_chars C02.ModelFf.ffp_prefix
  C02.ModelAlign.align_obs C02.ModelAlign.align_spec C02.ModelAlign.asdef_obs C02.ModelAlign.observe C02.ModelAlign.storage_iv_no_alignas
  C02.ModelSub.sub_run C02.ModelSub.sub_obs C02.ModelSub.sub_spec C02.ModelSub.parent C02.ModelSub.uninit_run C02.ModelSub.uninit_spec C02.ModelSub.replay.
