From Tetl Require Import Lib.Base C02.Model.
Require Extraction.
Require Import ExtrOcamlBasic.
Extraction Language OCaml.
Extraction "C02_model.ml" wire_anchor size_member read_poisoned default_size.
