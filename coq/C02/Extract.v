From Tetl Require Import Lib.Base C02.Model.
Require Extraction.
Require Import ExtrOcamlBasic.
Extraction Language OCaml.
Extraction "C02_model.ml" wire_anchor members read_poisoned default_obs default_obs_poisoned empty_state default_size all_objs.
