(* C02 (own legs) model: what a DEFAULT-initialised library object holds in the member that its
   observers read first.  A member without initialiser is `Uninit` (indeterminate): reading it is
   undefined behaviour; the harness makes the outcome deterministic by pre-filling the storage with
   0xFF bytes, which an `Uninit` member of width `bits` then reads back as 2^bits - 1.
   The other obligations of C02 (no out-of-bounds access, no signed overflow, under the documented
   preconditions) are theorems about the component models and are re-exported in Properties.v. *)
From Tetl Require Import Lib.Base.
Local Open Scope Z_scope.

Inductive cell := Uninit (bits : Z) | Val (v : Z).

Inductive obj :=
| StaticVectorTrivial | StaticVectorNonTrivial     (* size_type _size = 0; *)
| InplaceVectorTrivial | InplaceVectorNonTrivial   (* internal_size_t _size;   -- no initialiser *)
| InplaceStringTiny | InplaceStringNormal          (* _storage{} / size member initialised *)
| StringView | Span                                 (* _size = 0 / _size{} *)
| StaticSet | FlatSet | Optional | Bitset.

(* the member holding the size (engaged flag / word array for the last two), capacity 4 => 8-bit size types *)
Definition size_member (o : obj) : cell :=
  match o with
  | InplaceVectorTrivial | InplaceVectorNonTrivial => Uninit 8
  | _ => Val 0
  end.

Definition read (c : cell) : res Z := match c with Val v => Ok v | Uninit _ => UB UninitRead end.
(* what the 0xFF-poisoned harness observes *)
Definition read_poisoned (c : cell) : Z := match c with Val v => v | Uninit b => 2 ^ b - 1 end.

Definition default_size (o : obj) : res Z := read (size_member o).
