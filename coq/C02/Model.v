(* C02 (own legs) model: what a DEFAULT-initialised library object (`T x;`, placement `new (p) T` — no () and no {})
   holds in the members its observers read.  A member that has neither a default member initialiser nor a
   mem-initialiser in the default constructor is [Uninit] (indeterminate): reading it is undefined behaviour; the
   harness makes the outcome deterministic by pre-filling the storage with 0xFF bytes, which an [Uninit] member of
   width [bits] then reads back as 2^bits - 1.
   One line per object kind, transcribed from the headers (file: member, how it is initialised):
     static_vector      _vector/static_vector.hpp: size_type _size = 0 (trivial storage) / _size = 0 (non-trivial)
     inplace_vector     _inplace_vector/inplace_vector.hpp: internal_size_t _size;        -- NO initialiser
     inplace_string     _string/basic_inplace_string.hpp: layout_type _storage{}; tiny layout (Capacity < 16):
                        array<Char, Capacity+1> _buffer{} and the constructor stores Capacity in the last character
                        (size = Capacity - that = 0); normal layout: internal_size_t _size{}, _buffer{}
     string_view        _string_view/basic_string_view.hpp: _begin = nullptr, _size = 0
     span               _span/span.hpp: _data{nullptr}, _size{0}
     static_set         _set/static_set.hpp: a static_vector member            flat_set / flat_multiset: the container member
     stack              _stack/stack.hpp: the container member
     optional           _optional/optional.hpp: a variant<nullopt_t, T> member (index 0 = disengaged)
     variant            _variant/variant.hpp: variant() : variant(in_place_index<0>) -- index 0, first alternative value-initialised
     expected           _expected/expected.hpp: expected() : variant<T,E>(in_place_index<0>) -- has a value, value-initialised
     bitset             _bitset/basic_bitset.hpp: array<Word, N> _words{}
     inplace_function   _functional/inplace_function.hpp: inplace_function() : _vtable{&empty_vtable}
     pair, tuple        pair() : first{}, second{};  tuple() : _impl() (leaves value-initialised)
     mdspan, extents    _mdspan: _ptr{}, _map{}, _acc{};  array<IndexType, rank_dynamic> _extents{}
     chrono::duration   _chrono/duration.hpp: rep _rep{}
   The other obligations of C02 (no out-of-bounds access, no signed overflow, no use of dead storage under the
   documented preconditions) are theorems about the component models, re-exported in Properties_*.v. *)
From Tetl Require Import Lib.Base.
From Tetl Require C01.Model.
Local Open Scope Z_scope.

Inductive cell := Uninit (bits : Z) | Val (v : Z).

Inductive obj :=
| StaticVectorTrivial | StaticVectorNonTrivial
| InplaceVectorTrivial | InplaceVectorNonTrivial
| InplaceStringTiny | InplaceStringNormal
| StringView | Span | Mdspan
| StaticSet | FlatSet | FlatMultiset | Stack
| Optional | OptionalNonTrivial | Variant | Expected
| Bitset | InplaceFunction | Pair | Tuple | Extents | Duration
(* any capacity: the width of the size member is smallest_size_t<Capacity> (C01.Model.size_bits: 8 bits below 255,
   16 below 65535, 32 below 2^32 - 1, else 64) *)
| StaticVectorCap (capacity : Z) | InplaceVectorCap (capacity : Z).

(* how the observed members are printed *)
Inductive shape :=
| Sized        (* [size]            -> size, empty()                       *)
| SizedTerm    (* [size; c_str()[0]] -> size, empty(), terminator           *)
| SizedPtr     (* [size; data()]     -> size, empty(), data() == nullptr    *)
| Raw.         (* the members as they are                                   *)

Definition shape_of (o : obj) : shape :=
  match o with
  | StaticVectorTrivial | StaticVectorNonTrivial | InplaceVectorTrivial | InplaceVectorNonTrivial
  | StaticSet | FlatSet | FlatMultiset | Stack | StaticVectorCap _ | InplaceVectorCap _ => Sized
  | InplaceStringTiny | InplaceStringNormal => SizedTerm
  | StringView | Span | Mdspan => SizedPtr
  | _ => Raw
  end.

(* the members the observers read, in printing order; capacity 4 for the containers => 8-bit size types *)
Definition members (o : obj) : list cell :=
  match o with
  | InplaceVectorTrivial | InplaceVectorNonTrivial => [Uninit 8]
  | InplaceVectorCap c => [Uninit (C01.Model.size_bits c)]
  | StaticVectorCap _ => [Val 0]
  | StaticVectorTrivial | StaticVectorNonTrivial | StaticSet | FlatSet | FlatMultiset | Stack => [Val 0]
  | InplaceStringTiny | InplaceStringNormal => [Val 0; Val 0]          (* size, character at index size() *)
  | StringView | Span | Mdspan => [Val 0; Val 0]                       (* size, data pointer *)
  | Optional | OptionalNonTrivial => [Val 0]                           (* has_value() *)
  | Variant => [Val 0; Val 0]                                          (* index(), value of alternative 0 *)
  | Expected => [Val 1; Val 0]                                         (* has_value(), value *)
  | Bitset => [Val 0; Val 1]                                           (* count(), none() *)
  | InplaceFunction => [Val 0]                                         (* operator bool *)
  | Pair | Tuple | Extents => [Val 0; Val 0]                           (* the two members / extents *)
  | Duration => [Val 0]                                                (* count() *)
  end.

Definition read (c : cell) : res Z := match c with Val v => Ok v | Uninit _ => UB UninitRead end.
(* what the 0xFF-poisoned harness observes *)
Definition read_poisoned (c : cell) : Z := match c with Val v => v | Uninit b => 2 ^ b - 1 end.

Fixpoint read_all (cs : list cell) : res (list Z) :=
  match cs with
  | [] => Ok []
  | c :: t => match read c with
              | Ok v => match read_all t with Ok vs => Ok (v :: vs) | Contract => Contract | UB k => UB k | OutOfFuel => OutOfFuel end
              | Contract => Contract | UB k => UB k | OutOfFuel => OutOfFuel
              end
  end.

Definition b2z (b : bool) : Z := if b then 1 else 0.

Definition present (sh : shape) (vs : list Z) : list Z :=
  match sh, vs with
  | Sized, [s] => [s; b2z (s =? 0)]
  | SizedTerm, [s; t] => [s; b2z (s =? 0); t]
  | SizedPtr, [s; p] => [s; b2z (s =? 0); b2z (p =? 0)]
  | _, _ => vs
  end.

(* model: the observation of a default-initialised object, UB when an indeterminate member is read *)
Definition default_obs (o : obj) : res (list Z) :=
  match read_all (members o) with
  | Ok vs => Ok (present (shape_of o) vs)
  | Contract => Contract | UB k => UB k | OutOfFuel => OutOfFuel
  end.
(* the same as the poisoned harness sees it *)
Definition default_obs_poisoned (o : obj) : list Z := present (shape_of o) (map read_poisoned (members o)).

(* specification: the state the standard (or, for the etl-only types, the documentation) gives a
   default-constructed object: empty containers / views, a disengaged optional, variant and expected holding a
   value-initialised first alternative / value, no bit set, an empty function, value-initialised members *)
Definition empty_state (o : obj) : list Z :=
  match o with
  | StaticVectorTrivial | StaticVectorNonTrivial | InplaceVectorTrivial | InplaceVectorNonTrivial
  | StaticSet | FlatSet | FlatMultiset | Stack | StaticVectorCap _ | InplaceVectorCap _ => [0; 1]
  | InplaceStringTiny | InplaceStringNormal => [0; 1; 0]
  | StringView | Span | Mdspan => [0; 1; 1]
  | Optional | OptionalNonTrivial => [0]
  | Variant => [0; 0]
  | Expected => [1; 0]
  | Bitset => [0; 1]
  | InplaceFunction => [0]
  | Pair | Tuple | Extents => [0; 0]
  | Duration => [0]
  end.

Definition default_size (o : obj) : res Z :=
  match members o with c :: _ => read c | [] => Ok 0 end.

Definition all_objs : list obj :=
  [StaticVectorTrivial; StaticVectorNonTrivial; InplaceVectorTrivial; InplaceVectorNonTrivial;
   InplaceStringTiny; InplaceStringNormal; StringView; Span; Mdspan; StaticSet; FlatSet; FlatMultiset; Stack;
   Optional; OptionalNonTrivial; Variant; Expected; Bitset; InplaceFunction; Pair; Tuple; Extents; Duration].
