(* C02 own model, second component: the character scan of etl::strings::to_floating_point<Float>(string_view)
   (include/etl/_strings/to_floating_point.hpp, on which strtod / strtof / strtold / atof / stof / stod / stold are
   built), as the code is AFTER fix commit b99fc94:

       auto const* ptr  = str.data();
       auto const* last = str.data() + str.size();
       for (; ptr != last && *ptr != '\0'; ++ptr) {
           if (isspace( *ptr) && leadingSpaces) continue;
           leadingSpaces = false;
           if (isdigit( *ptr)) { accumulate } else if ( *ptr == '.') { afterDecimalPoint = true; }
           else return {.end = str.data(), .error = invalid_input};
       }
       return {.end = ptr, .error = none, .value = res};

   Only the memory behaviour and the (error, end) part of the result are modelled; the accumulated floating-point
   value is outside the model.  Characters are read through C08's checked view access [rd] (UB OutOfBounds outside
   the view).  [tfp_scan_prefix] is the loop as it was BEFORE the fix (no `ptr != last`): kept for the _refuted
   theorem.  No proofs in this file. *)
From Tetl Require Import Lib.Base C08.Model.
Local Open Scope Z_scope.

Definition isspace_c (c : Z) : bool :=
  (c =? 32) || (c =? 12) || (c =? 10) || (c =? 13) || (c =? 9) || (c =? 11).
Definition isdigit_c (c : Z) : bool := (48 <=? c) && (c <=? 57).

(* result: (error, end offset relative to str.data()); error 0 = none, 1 = invalid_input *)
Fixpoint tfp_loop (n : nat) (v : view) (i : Z) (leading : bool) : res (Z * Z) :=
  match n with
  | O => Ok (0, i)                                   (* ptr == last *)
  | S n' =>
      do c <- rd v i;
      if c =? 0 then Ok (0, i)
      else if isspace_c c && leading then tfp_loop n' v (i + 1) leading
      else if isdigit_c c || (c =? 46) then tfp_loop n' v (i + 1) false
      else Ok (1, 0)
  end.

Definition tfp_scan (v : view) : res (Z * Z) := tfp_loop (Z.to_nat (vlen v)) v 0 true.

(* the loop before b99fc94: runs until it reads a null character, whatever str.size() is; the view the code can
   legitimately read is still [v] (the fuel only bounds the model's recursion) *)
Fixpoint tfp_loop_prefix (fuel : nat) (v : view) (i : Z) (leading : bool) : res (Z * Z) :=
  match fuel with
  | O => OutOfFuel
  | S f =>
      do c <- rd v i;
      if c =? 0 then Ok (0, i)
      else if isspace_c c && leading then tfp_loop_prefix f v (i + 1) leading
      else if isdigit_c c || (c =? 46) then tfp_loop_prefix f v (i + 1) false
      else Ok (1, 0)
  end.
Definition tfp_scan_prefix (v : view) : res (Z * Z) := tfp_loop_prefix (S (S (Z.to_nat (vlen v)))) v 0 true.

(** specification on the characters of the view: the text ends at the first null character (or the end of the
    view); after optional leading white space only digits and '.' may follow, then the whole text is consumed;
    anything else is invalid_input with end = begin *)
Fixpoint upto_nul (l : list Z) : list Z :=
  match l with
  | [] => []
  | c :: t => if c =? 0 then [] else c :: upto_nul t
  end.
Fixpoint drop_spaces (l : list Z) : list Z :=
  match l with
  | c :: t => if isspace_c c then drop_spaces t else l
  | [] => []
  end.
Definition tfp_spec (chars : list Z) : Z * Z :=
  let s := upto_nul chars in
  if forallb (fun c => isdigit_c c || (c =? 46)) (drop_spaces s) then (0, Z.of_nat (length s)) else (1, 0).
