(* proofs about coq/C02/ModelSub.v: span sub-views stay inside the parent; exception path of the uninitialized_* algorithms *)
From Tetl Require Import Lib.Base C02.ModelSub.
Require Import Lia.
Ltac Zify.zify_post_hook ::= Z.to_euclidean_division_equations.
Local Open Scope Z_scope.

(* ---- (a) span sub-views ---- *)

Ltac brk :=
  repeat (match goal with
          | |- context [?a =? ?b] => destruct (Z.eqb_spec a b)
          | |- context [?a <=? ?b] => destruct (Z.leb_spec a b)
          end; cbn [andb negb orb s_data s_stored s_ext]).

Definition sub_good (k : subkind) (static : bool) (base n off cnt : Z) (r : span) : Prop :=
  let p := parent static base n in
  sub_obs p r = sub_spec k static n off cnt /\
  s_data p <= s_data r /\ s_data r + size r <= s_data p + size p /\ 0 <= size r /\
  (s_ext r = dyn \/ s_ext r = size r) /\ outside p r = 0.

Lemma size_parent : forall static base n, 0 <= n -> size (parent static base n) = n.
Proof. intros static base n Hn. unfold size, parent, dyn. destruct static; cbn; brk; lia. Qed.

Lemma sub_run_good_match : forall k static base n off cnt checks,
  sub_dom k n off cnt ->
  match sub_run checks k (parent static base n) off cnt with Ok r => sub_good k static base n off cnt r | _ => False end.
Proof.
  intros k static base n off cnt checks [Hn Hd].
  pose proof (size_parent static base n Hn) as Hs.
  unfold sub_run, subspan_t, subspan_gen, first_t, last_t, subspan_r, first_r, last_r, mk, subspan_extent.
  rewrite !Hs.
  destruct k; cbn beta iota in Hd.
  all: unfold sub_good, sub_obs, sub_spec, spec_extent, spec_first, spec_count, outside, size.
  all: destruct static, checks; cbn [parent s_data s_stored s_ext andb negb orb]; unfold dyn in *.
  all: destruct (Z.eqb_spec cnt (-1)); cbn [andb negb orb s_data s_stored s_ext].
  all: try (destruct (Z.eqb_spec n (-1)); [lia|]); rewrite ?Z.eqb_refl; cbn [andb negb orb s_data s_stored s_ext].
  all: brk; try lia.
  all: repeat split; try (f_equal; lia); try lia; repeat (f_equal; try lia).
Qed.

Lemma sub_run_good : forall k static base n off cnt checks,
  sub_dom k n off cnt ->
  exists r, sub_run checks k (parent static base n) off cnt = Ok r /\ sub_good k static base n off cnt r.
Proof.
  intros k static base n off cnt checks Hd. pose proof (sub_run_good_match k static base n off cnt checks Hd) as H.
  destruct (sub_run checks k (parent static base n) off cnt) as [r| | |]; try contradiction. exists r. split; [reflexivity|exact H].
Qed.

(* without the static-parent branch of subspan_extent: subspan<Offset>() of a static-extent span with Offset > 0 stops at the
   span(It, count) precondition when the checks are compiled in, and reaches Offset elements behind the parent when not *)
Lemma no_static_branch_escapes : forall base n off, 0 < off <= n ->
  subspan_gen subspan_extent_no_static_branch true (parent true base n) off dyn = Contract /\
  exists r, subspan_gen subspan_extent_no_static_branch false (parent true base n) off dyn = Ok r /\
            size r = n /\ s_data r = base + off /\ outside (parent true base n) r = off.
Proof.
  intros base n off H.
  assert (Hn : 0 <= n) by lia. pose proof (size_parent true base n Hn) as Hs.
  unfold subspan_gen, subspan_extent_no_static_branch, mk. rewrite !Hs.
  cbn [parent s_data s_stored s_ext andb negb orb]. unfold dyn in *. rewrite !Z.eqb_refl. cbn [andb negb orb].
  destruct (Z.eqb_spec n (-1)); [lia|]. split.
  - brk; try lia; reflexivity.
  - eexists. split; [reflexivity|].
    unfold outside, size, parent. cbn [s_data s_stored s_ext]. unfold dyn. brk; lia.
Qed.

(* ---- (b) uninitialized_* ---- *)
Local Close Scope Z_scope.
Local Open Scope nat_scope.

Lemma destroy_range_seq : forall count from, destroy_range from count = map Destroy (seq from count).
Proof. induction count as [|c IH]; intros from; [reflexivity|]. cbn. rewrite IH. reflexivity. Qed.

Lemma cl_nothrow : forall adv todo cur t, (t < cur \/ cur + todo <= t) ->
  construct_loop adv todo cur t = (map Construct (seq cur todo), cur + todo, false).
Proof.
  intros adv todo. induction todo as [|todo IH]; intros cur t H.
  - cbn. rewrite Nat.add_0_r. reflexivity.
  - cbn [construct_loop]. destruct (Nat.eqb_spec cur t) as [E|E]; [lia|].
    rewrite (IH (S cur) t) by lia. cbn. f_equal. f_equal. lia.
Qed.

Lemma cl_throw : forall adv todo cur t, cur <= t < cur + todo ->
  construct_loop adv todo cur t = (map Construct (seq cur (t - cur)) ++ [Throw t], (if adv then S t else t), true).
Proof.
  intros adv todo. induction todo as [|todo IH]; intros cur t H; [lia|].
  cbn [construct_loop]. destruct (Nat.eqb_spec cur t) as [E|E].
  - subst. rewrite Nat.sub_diag. reflexivity.
  - rewrite (IH (S cur) t) by lia. replace (t - cur) with (S (t - S cur)) by lia. reflexivity.
Qed.

Lemma uninit_gen_throw : forall adv n t, t < n ->
  uninit_gen adv n t = (map Construct (seq 0 t) ++ [Throw t] ++ map Destroy (seq 0 (if adv then S t else t)), true, if adv then S t else t).
Proof.
  intros adv n t H. unfold uninit_gen. rewrite (cl_throw adv n 0 t) by lia. rewrite Nat.sub_0_r.
  rewrite destroy_range_seq, <- app_assoc. reflexivity.
Qed.

Lemma uninit_gen_nothrow : forall adv n t, n <= t -> uninit_gen adv n t = (map Construct (seq 0 n), false, n).
Proof. intros adv n t H. unfold uninit_gen. rewrite (cl_nothrow adv n 0 t) by lia. reflexivity. Qed.

Lemma uninit_run_spec : forall n t, uninit_run n t = uninit_spec n t.
Proof.
  intros n t. unfold uninit_run, uninit_spec. destruct (Nat.ltb_spec t n) as [H|H].
  - rewrite uninit_gen_throw by exact H. reflexivity.
  - rewrite uninit_gen_nothrow by exact H. reflexivity.
Qed.

Lemma nth_error_mid : forall (pre : list bool) x post, nth_error (pre ++ x :: post) (length pre) = Some x.
Proof. induction pre as [|a pre IH]; intros x post; [reflexivity|exact (IH x post)]. Qed.

Lemma set_nth_mid : forall (pre : list bool) x post v, set_nth (pre ++ x :: post) (length pre) v = pre ++ v :: post.
Proof. induction pre as [|a pre IH]; intros x post v; [reflexivity|]. cbn. rewrite IH. reflexivity. Qed.

Lemma snoc_repeat : forall (pre : list bool) b k post, (pre ++ [b]) ++ repeat b k ++ post = pre ++ repeat b (S k) ++ post.
Proof. intros pre b k post. rewrite <- app_assoc. reflexivity. Qed.

Lemma replay_constructs : forall k pre post rest,
  replay (map Construct (seq (length pre) k) ++ rest) (pre ++ repeat false k ++ post) = replay rest (pre ++ repeat true k ++ post).
Proof.
  induction k as [|k IH]; intros pre post rest; [reflexivity|].
  cbn [seq map app repeat replay]. rewrite nth_error_mid, set_nth_mid.
  replace (pre ++ true :: repeat false k ++ post) with ((pre ++ [true]) ++ repeat false k ++ post) by (rewrite <- app_assoc; reflexivity).
  replace (S (length pre)) with (length (pre ++ [true])) by (rewrite app_length; cbn; lia).
  rewrite IH. rewrite <- app_assoc. reflexivity.
Qed.

Lemma replay_destroys : forall k pre post rest,
  replay (map Destroy (seq (length pre) k) ++ rest) (pre ++ repeat true k ++ post) = replay rest (pre ++ repeat false k ++ post).
Proof.
  induction k as [|k IH]; intros pre post rest; [reflexivity|].
  cbn [seq map app repeat replay]. rewrite nth_error_mid, set_nth_mid.
  replace (pre ++ false :: repeat true k ++ post) with ((pre ++ [false]) ++ repeat true k ++ post) by (rewrite <- app_assoc; reflexivity).
  replace (S (length pre)) with (length (pre ++ [false])) by (rewrite app_length; cbn; lia).
  rewrite IH. rewrite <- app_assoc. reflexivity.
Qed.

Lemma repeat_split : forall (b : bool) t n, t <= n -> repeat b n = repeat b t ++ repeat b (n - t).
Proof. intros b t n H. replace n with (t + (n - t)) at 1 by lia. apply repeat_app. Qed.

Lemma nth_error_mid' : forall (pre : list bool) x post i, i = length pre -> nth_error (pre ++ x :: post) i = Some x.
Proof. intros pre x post i E. subst. apply nth_error_mid. Qed.

(* the code: every constructor runs on raw storage, every destructor on a live object; afterwards all n slots hold an
   object (no throw) or none does (throw) *)
Lemma uninit_run_safe : forall n t,
  replay (fst (fst (uninit_run n t))) (repeat false n) = Ok (repeat (negb (Nat.ltb t n)) n).
Proof.
  intros n t. unfold uninit_run. destruct (Nat.ltb_spec t n) as [H|H].
  - rewrite uninit_gen_throw by exact H. cbn [fst negb].
    rewrite (repeat_split false t n) by lia.
    remember (n - t) as m eqn:Em. destruct m as [|m]; [lia|]. cbn [repeat].
    pose proof (replay_constructs t [] (false :: repeat false m)) as HC. cbn [length app] in HC. rewrite HC.
    cbn [app replay].
    rewrite (nth_error_mid' (repeat true t) false (repeat false m) t) by (symmetry; apply repeat_length).
    pose proof (replay_destroys t [] (false :: repeat false m) []) as HD. cbn [length app] in HD.
    rewrite app_nil_r in HD. rewrite HD. reflexivity.
  - rewrite uninit_gen_nothrow by exact H. cbn [fst negb].
    pose proof (replay_constructs n [] [] []) as HC. cbn [length app] in HC. rewrite !app_nil_r in HC. rewrite HC. reflexivity.
Qed.

(* `construct_at(addressof( *current++), ...)`: when the constructor of slot t throws, the catch block runs the destructor on
   slot t, which holds no object *)
Lemma advance_inside_destroys_dead_slot : forall n t, t < n ->
  replay (fst (fst (uninit_gen true n t))) (repeat false n) = UB UninitRead.
Proof.
  intros n t H. rewrite uninit_gen_throw by exact H. cbn [fst].
  rewrite (repeat_split false t n) by lia.
  remember (n - t) as m eqn:Em. destruct m as [|m]; [lia|]. cbn [repeat].
  pose proof (replay_constructs t [] (false :: repeat false m)) as HC. cbn [length app] in HC. rewrite HC.
  cbn [app replay].
  rewrite (nth_error_mid' (repeat true t) false (repeat false m) t) by (symmetry; apply repeat_length).
  rewrite seq_S, map_app. cbn [Nat.add map].
  pose proof (replay_destroys t [] (false :: repeat false m) [Destroy t]) as HD. cbn [length app] in HD.
  rewrite HD. cbn [replay].
  rewrite (nth_error_mid' (repeat false t) false (repeat false m) t) by (symmetry; apply repeat_length). reflexivity.
Qed.
