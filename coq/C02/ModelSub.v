(* C02 own model: (a) the sub-views of etl::span (include/etl/_span/span.hpp): subspan<Offset, Count>(), first<Count>(),
   last<Count>() and their run-time forms, on parents with a static and with a dynamic extent; (b) the exception path of
   etl::uninitialized_copy / uninitialized_move / uninitialized_fill (include/etl/_memory/uninitialized_*.hpp): which
   destination slot is constructed / destroyed when the construction of one element throws.

   (a) A span is a pointer (here: an element index into the caller's memory), a STORED run-time size and the extent of its
   TYPE.  span<T, N>::static_storage stores only the pointer: size() of a static-extent span is the extent of its type and
   the size it was constructed with is ignored (only compared by the TETL_PRECONDITION of span(It, count)).  The extent of
   the type returned by subspan<Offset, Count>() is detail::subspan_extent<Offset, Count, Extent>(). *)
From Tetl Require Import Lib.Base.
Local Open Scope Z_scope.

Definition dyn : Z := -1.   (* etl::dynamic_extent, printed as -1 by the harness *)

Record span := { s_data : Z; s_stored : Z; s_ext : Z }.

(* static_storage::size() returns Extent, dynamic_storage::size() the stored size *)
Definition size (s : span) : Z := if s_ext s =? dyn then s_stored s else s_ext s.

(* span(It first, size_type count): TETL_PRECONDITION(extent == dynamic_extent or count == extent) *)
Definition mk (checks : bool) (ext ptr count : Z) : res span :=
  if checks && negb ((ext =? dyn) || (count =? ext)) then Contract
  else Ok {| s_data := ptr; s_stored := count; s_ext := ext |}.

(* detail::subspan_extent<Offset, Count, Extent>() *)
Definition subspan_extent (off cnt ext : Z) : Z :=
  if negb (cnt =? dyn) then cnt else if negb (ext =? dyn) then ext - off else dyn.

(* the same function without its branch for a static parent extent (what the model would be if that branch were lost) *)
Definition subspan_extent_no_static_branch (off cnt ext : Z) : Z :=
  if negb (cnt =? dyn) then cnt else ext.

(* subspan<Offset, Count>() with the extent function as parameter; checks = contract checks compiled in *)
Definition subspan_gen (extent_of : Z -> Z -> Z -> Z) (checks : bool) (p : span) (off cnt : Z) : res span :=
  if checks && negb (off <=? size p) then Contract
  else if checks && negb (cnt =? dyn) && negb (cnt <=? size p - off) then Contract
  else mk checks (extent_of off cnt (s_ext p)) (s_data p + off) (if cnt =? dyn then size p - off else cnt).

Definition subspan_t (checks : bool) := subspan_gen subspan_extent checks.

(* first<Count>() / last<Count>() *)
Definition first_t (checks : bool) (p : span) (cnt : Z) : res span :=
  if checks && negb (cnt <=? size p) then Contract else mk checks cnt (s_data p) cnt.
Definition last_t (checks : bool) (p : span) (cnt : Z) : res span :=
  if checks && negb (cnt <=? size p) then Contract else mk checks cnt (s_data p + (size p - cnt)) cnt.

(* the run-time forms: the result is always span<T, dynamic_extent> *)
Definition subspan_r (checks : bool) (p : span) (off cnt : Z) : res span :=
  if checks && negb (off <=? size p) then Contract
  else if checks && negb (cnt =? dyn) && negb (cnt <=? size p - off) then Contract
  else mk checks dyn (s_data p + off) (if cnt =? dyn then size p - off else cnt).
Definition first_r (checks : bool) (p : span) (cnt : Z) : res span :=
  if checks && negb (cnt <=? size p) then Contract else mk checks dyn (s_data p) cnt.
Definition last_r (checks : bool) (p : span) (cnt : Z) : res span :=
  if checks && negb (cnt <=? size p) then Contract else mk checks dyn (s_data p + (size p - cnt)) cnt.

(* elements of [data(), data() + size()) of r that are NOT elements of the parent p *)
Definition outside (p r : span) : Z :=
  Z.max 0 (Z.min (s_data p) (s_data r + size r) - s_data r) +
  Z.max 0 (s_data r + size r - Z.max (s_data p + size p) (s_data r)).

(* what the harness observes: extent of the result type, size(), first and one-past-last element as indices of the parent,
   number of touched elements outside the parent *)
Definition sub_obs (p r : span) : list Z :=
  [s_ext r; size r; s_data r - s_data p; s_data r + size r - s_data p; outside p r].

(* the parent the harness builds: n elements at index base, static (span<T, n>) or dynamic (span<T>) *)
Definition parent (static : bool) (base n : Z) : span :=
  {| s_data := base; s_stored := n; s_ext := if static then n else dyn |}.

Inductive subkind := KSub | KFirst | KLast | KSubR | KFirstR | KLastR.

Definition sub_run (checks : bool) (k : subkind) (p : span) (off cnt : Z) : res span :=
  match k with
  | KSub => subspan_t checks p off cnt
  | KFirst => first_t checks p cnt
  | KLast => last_t checks p cnt
  | KSubR => subspan_r checks p off cnt
  | KFirstR => first_r checks p cnt
  | KLastR => last_r checks p cnt
  end.

(* specification ([span.sub]): which elements of the parent the result views, and the extent of its type *)
Definition spec_count (n off cnt : Z) : Z := if cnt =? dyn then n - off else cnt.
Definition spec_first (k : subkind) (n off cnt : Z) : Z :=
  match k with KSub | KSubR => off | KFirst | KFirstR => 0 | KLast | KLastR => n - cnt end.
Definition spec_extent (k : subkind) (static : bool) (n off cnt : Z) : Z :=
  match k with
  | KSub => if negb (cnt =? dyn) then cnt else if static then n - off else dyn
  | KFirst | KLast => cnt
  | _ => dyn
  end.
Definition sub_spec (k : subkind) (static : bool) (n off cnt : Z) : list Z :=
  let c := match k with KSub | KSubR => spec_count n off cnt | _ => cnt end in
  [spec_extent k static n off cnt; c; spec_first k n off cnt; spec_first k n off cnt + c; 0].

(* the documented domain: 0 <= Offset <= size(), Count == dynamic_extent or 0 <= Count <= size() - Offset
   (first / last: 0 <= Count <= size()) *)
Definition sub_dom (k : subkind) (n off cnt : Z) : Prop :=
  0 <= n /\
  match k with
  | KSub | KSubR => 0 <= off <= n /\ (cnt = dyn \/ 0 <= cnt <= n - off)
  | _ => 0 <= cnt <= n
  end.

(* ---- (b) uninitialized_copy / uninitialized_move / uninitialized_fill ------------------------------------------------
   All three have the same shape: `current` walks over the destination slots, construct_at(current, ...) may throw, the
   catch block destroys [dest, current) and rethrows.  Slots are numbered from 0; `t` is the slot whose construction throws
   (t >= n: none does). *)
Inductive ev := Construct (i : nat) | Throw (i : nat) | Destroy (i : nat).

(* advance_inside = false: `for (; first != last; ++first, ++current) construct_at(addressof( *current), ...)` (the code);
   advance_inside = true: `construct_at(addressof( *current++), ...)`: current is already advanced when the constructor throws *)
Fixpoint construct_loop (advance_inside : bool) (todo : nat) (cur t : nat) : list ev * nat * bool :=
  match todo with
  | O => ([], cur, false)
  | S todo' =>
      if Nat.eqb cur t then ([Throw cur], if advance_inside then S cur else cur, true)
      else let '(es, c, th) := construct_loop advance_inside todo' (S cur) t in (Construct cur :: es, c, th)
  end.

Fixpoint destroy_range (from count : nat) : list ev :=
  match count with O => [] | S c => Destroy from :: destroy_range (S from) c end.

(* events of one call, whether it threw, the returned iterator (as slot number) *)
Definition uninit_gen (advance_inside : bool) (n t : nat) : list ev * bool * nat :=
  let '(es, cur, th) := construct_loop advance_inside n 0%nat t in
  if th then (es ++ destroy_range 0%nat cur, true, cur) else (es, false, cur).

Definition uninit_run := uninit_gen false.

(* slot discipline: a constructor runs on raw storage only, a destructor on a live object only *)
Fixpoint set_nth (l : list bool) (i : nat) (v : bool) : list bool :=
  match l, i with
  | [], _ => []
  | _ :: r, O => v :: r
  | x :: r, S i' => x :: set_nth r i' v
  end.

Fixpoint replay (es : list ev) (live : list bool) : res (list bool) :=
  match es with
  | [] => Ok live
  | Construct i :: r =>
      match nth_error live i with
      | None => UB OutOfBounds
      | Some true => UB UninitRead          (* constructed over a live object *)
      | Some false => replay r (set_nth live i true)
      end
  | Throw i :: r =>
      match nth_error live i with
      | None => UB OutOfBounds
      | Some true => UB UninitRead
      | Some false => replay r live       (* the constructor threw: no object *)
      end
  | Destroy i :: r =>
      match nth_error live i with
      | None => UB OutOfBounds
      | Some false => UB UninitRead         (* destructor on storage that holds no object *)
      | Some true => replay r (set_nth live i false)
      end
  end.

(* specification: the slots before the throwing one are constructed in order, then (on a throw) exactly those are destroyed *)
Definition uninit_spec (n t : nat) : list ev * bool * nat :=
  if Nat.ltb t n
  then (map Construct (seq 0 t) ++ [Throw t] ++ map Destroy (seq 0 t), true, t)
  else (map Construct (seq 0 n), false, n).
