(* C02, component obligations: under the documented preconditions the checked-memory /
   checked-arithmetic models never return UB (out-of-bounds access, uninitialised read, signed
   overflow, division by zero) and never run out of fuel.  Re-exported from the component packages;
   further components are added as their packages land (see props/C02/manifest.json). *)
From Tetl Require Import Lib.Base Lib.Arr.
From Tetl Require Import C01.Model C01.Spec C01.ProofsBase C01.Properties.
From Tetl Require Import C06a.Model C06a.Spec C06a.RotateProof.
From Tetl Require C11.Model C11.Spec C11.Proofs.
Local Open Scope Z_scope.

(* static_vector: EVERY operation with ANY arguments, from every state satisfying the invariant *)
Theorem C02_static_vector_no_ub : forall pred c s o, Z.of_nat c < 2 ^ 63 ->
  inv c (fst s) -> inv c (snd s) ->
  match o with At _ i => i < 2 ^ 64 | _ => True end ->
  (forall k, step pred s o <> UB k) /\ step pred s o <> OutOfFuel.
Proof. exact C01_no_ub. Qed.
Print Assumptions C02_static_vector_no_ub.

Theorem C02_inplace_vector_no_ub : forall c s o, Z.of_nat c < 2 ^ 63 ->
  inv c (fst s) -> inv c (snd s) ->
  match o with IvAt _ i => i < 2 ^ 64 | _ => True end ->
  (forall k, iv_step s o <> UB k) /\ iv_step s o <> OutOfFuel.
Proof. exact C01_inplace_vector_no_ub. Qed.
Print Assumptions C02_inplace_vector_no_ub.

(* the invariant is preserved, so the two theorems above apply along every history *)
Theorem C02_static_vector_invariant : forall pred c s o s' out, Z.of_nat c < 2 ^ 63 ->
  inv c (fst s) -> inv c (snd s) ->
  match o with At _ i => i < 2 ^ 64 | _ => True end ->
  step pred s o = Ok (s', out) -> inv c (fst s') /\ inv c (snd s').
Proof. exact C01_invariant_preserved. Qed.
Print Assumptions C02_static_vector_invariant.

(* rotate touches nothing outside [first, last): the checked-array model answers Ok *)
Theorem C02_rotate_in_range : forall (A : Type) (l : list A) first middle last,
  (first <= middle)%nat -> (middle <= last)%nat -> (last <= length l)%nat ->
  exists r, rotate l first middle last = Ok r.
Proof. intros A l f m n H1 H2 H3. eexists. apply rotate_correct; assumption. Qed.
Print Assumptions C02_rotate_in_range.

(* the calendar kernels overflow no int32 on the whole supported range *)
Theorem C02_civil_from_days_no_overflow : forall z, C11.Spec.day_lo <= z <= C11.Spec.day_hi ->
  exists t, C11.Model.civil_from_days_m z = Some t.
Proof. intros z Hz. eexists. apply C11.Proofs.civil_m_pure. exact Hz. Qed.
Print Assumptions C02_civil_from_days_no_overflow.
