(* C02 vocabulary: what "the model meets no undefined behaviour" means for the outcome types of the
   component models.
     res A      (Lib.Base)  Ok a | Contract | UB k | OutOfFuel
                 k : OutOfBounds | UninitRead | SignedOverflow | DivByZero | BadShift | NullDeref
     option A   (checked integer kernels)  None = a checked signed operation overflowed / bad shift / division by zero
   [no_ub r]    : r is neither UB nor OutOfFuel (a TETL_PRECONDITION that fires is defined behaviour: the call was
                 outside the documented domain and the library said so).
   [returns_ok r] : r = Ok _, i.e. additionally no precondition fired.
   [is_some o]    : o = Some _. *)
From Tetl Require Import Lib.Base.

Definition no_ub {A} (r : res A) : Prop := (forall k, r <> UB k) /\ r <> OutOfFuel.
Definition returns_ok {A} (r : res A) : Prop := exists a, r = Ok a.
Definition is_some {A} (o : option A) : Prop := exists a, o = Some a.

Lemma ok_no_ub : forall A (r : res A) a, r = Ok a -> no_ub r.
Proof. intros A r a H. rewrite H. split; [intros k|]; discriminate. Qed.

Lemma contract_no_ub : forall A (r : res A), r = Contract -> no_ub r.
Proof. intros A r H. rewrite H. split; [intros k|]; discriminate. Qed.

Lemma returns_no_ub : forall A (r : res A), returns_ok r -> no_ub r.
Proof. intros A r [a H]. exact (ok_no_ub A r a H). Qed.

Lemma ok_returns_ok : forall A (r : res A) a, r = Ok a -> returns_ok r.
Proof. intros A r a H. exists a. exact H. Qed.

Lemma some_intro : forall A (o : option A) a, o = Some a -> is_some o.
Proof. intros A o a H. exists a. exact H. Qed.

Lemma no_ub_cases : forall A (r : res A), no_ub r <-> (returns_ok r \/ r = Contract).
Proof.
  intros A r. split.
  - intros [H1 H2]. destruct r as [a| |k|]; [left; exists a; reflexivity|right; reflexivity| |].
    + exfalso. exact (H1 k eq_refl).
    + exfalso. exact (H2 eq_refl).
  - intros [H|H]; [apply returns_no_ub; exact H|apply contract_no_ub; exact H].
Qed.

(* a UB verdict never satisfies no_ub: the definitions are not vacuous *)
Lemma ub_not_no_ub : forall A k, ~ no_ub (@UB A k).
Proof. intros A k [H _]. exact (H k eq_refl). Qed.

Lemma out_of_fuel_not_no_ub : forall A, ~ no_ub (@OutOfFuel A).
Proof. intros A [_ H]. exact (H eq_refl). Qed.

(* res_opt-style outcomes used by several packages: Ok on Some, Contract on None *)
Lemma no_ub_of_match : forall A B (r : res A) (o : option B) (P : A -> B -> Prop),
  match o with Some b => exists a, r = Ok a /\ P a b | None => r = Contract end -> no_ub r.
Proof.
  intros A B r o P H. destruct o as [b|].
  - destruct H as (a & H & _). exact (ok_no_ub A r a H).
  - exact (contract_no_ub A r H).
Qed.

(* [ok_from H]: closes a goal [returns_ok r] / [no_ub r] / [is_some o] from a hypothesis that contains, under
   conjunctions and existentials, an equation [r = Ok _] ([r = Contract], [o = Some _]); robust against regrouping
   of the imported theorems *)
Ltac ok_from H :=
  lazymatch type of H with
  | _ /\ _ => let A := fresh "A" in let B := fresh "B" in destruct H as [A B]; first [ok_from A | ok_from B]
  | exists _, _ => let x := fresh "x" in let A := fresh "A" in destruct H as [x A]; ok_from A
  | _ = Ok _ => first [eapply ok_returns_ok; exact H | eapply ok_no_ub; exact H]
  | _ = Contract => apply contract_no_ub; exact H
  | _ = Some _ => eapply some_intro; exact H
  | _ => fail "no equation"
  end.

(* [feed H tac]: discharge the first hypothesis of [H] by [tac] (whatever name the imported theorem gives it) *)
Ltac feed H tac :=
  match type of H with
  | ?A -> _ => let X := fresh "X" in assert (X : A) by tac; specialize (H X); clear X
  end.
