(* C02: from_floating_point (after ac8c962) never stores outside the span it was given — for EVERY span length
   (0, too small, exact fit, larger), every non-negative whole / fraction part below 2^63 and every precision >= 0;
   it reports overflow exactly when text + terminator do not fit; the function as it was before the fix stores past
   the span. *)
From Tetl Require Import Lib.Base Lib.Arr C02.ModelFf.
From Coq Require Import Lia ZArith List.
Local Open Scope Z_scope.

Lemma digits_rev_enough : forall f x, 0 <= x < 2 ^ Z.of_nat f -> exists ds, digits_rev (S f) x = Some ds.
Proof.
  induction f as [|f IH]; intros x Hx.
  - cbn [digits_rev]. change (2 ^ Z.of_nat 0) with 1 in Hx. assert (x = 0) by lia. subst. eexists; reflexivity.
  - cbn [digits_rev]. destruct (x =? 0) eqn:E; [eexists; reflexivity|]. apply Z.eqb_neq in E.
    assert (H10 : 0 <= x / 10 < 2 ^ Z.of_nat f).
    { split; [apply Z.div_pos; lia|].
      rewrite Nat2Z.inj_succ, Z.pow_succ_r in Hx by lia.
      apply Z.div_lt_upper_bound; lia. }
    destruct (IH (x / 10) H10) as (ds & Hd). cbn [digits_rev] in Hd. rewrite Hd. eexists; reflexivity.
Qed.

Lemma digits_rev_total : forall x, 0 <= x -> exists ds, digits_rev (fuel_for x) x = Some ds.
Proof.
  intros x Hx. unfold fuel_for. apply digits_rev_enough. split; [exact Hx|].
  rewrite Z2Nat.id by (pose proof (Z.log2_nonneg x); lia).
  destruct (Z.eq_dec x 0) as [->|N]; [cbn; lia|].
  pose proof (Z.log2_spec x ltac:(lia)) as [_ H]. rewrite <- Z.add_1_r in H. exact H.
Qed.

Lemma wr_ok : forall buf i c, (i < length buf)%nat -> exists b, wr buf i c = Ok b /\ length b = length buf.
Proof.
  intros buf i c H. unfold wr. destruct (Arr.set_some buf i c H) as (b & E). rewrite E. exists b. split; [reflexivity|].
  exact (Arr.set_length buf i c b E).
Qed.

Lemma store_ok : forall cs buf off, (off + length cs <= length buf)%nat ->
  exists b, store buf off cs = Ok b /\ length b = length buf.
Proof.
  induction cs as [|c t IH]; intros buf off H; cbn [store].
  - exists buf. split; reflexivity.
  - cbn [length] in H. destruct (wr_ok buf off c ltac:(lia)) as (b & E & L). rewrite E. cbn [rbind].
    destruct (IH b (S off) ltac:(lia)) as (b' & E' & L'). exists b'. split; [exact E'|lia].
Qed.

Lemma to_string_m_ok : forall buf off x nd cs, to_string_chars x nd = Some cs ->
  (off + length cs + 1 <= length buf)%nat ->
  exists b, to_string_m buf off x nd = Ok (b, length cs) /\ length b = length buf.
Proof.
  intros buf off x nd cs E H. unfold to_string_m. rewrite E.
  destruct (store_ok (cs ++ [0]) buf off) as (b & Es & L); [rewrite app_length; cbn [length]; lia|].
  rewrite Es. cbn [rbind]. exists b. split; [reflexivity|exact L].
Qed.

Lemma chars_length : forall x nd ds, 0 <= nd -> digits_rev (fuel_for x) x = Some ds ->
  exists cs, to_string_chars x nd = Some cs /\ num_digits x nd = Some (Z.of_nat (length cs)).
Proof.
  intros x nd ds Hn E. unfold to_string_chars, num_digits. rewrite E. eexists. split; [reflexivity|].
  f_equal. rewrite app_length, repeat_length, rev_length. lia.
Qed.

(* the outcome for every span *)
Theorem ffp_never_out_of_span : forall whole part precision buf, 0 <= whole -> 0 <= part -> 0 <= precision ->
  exists b err e, ffp_m whole part precision buf = Ok (b, err, e) /\ length b = length buf /\
    match ffp_text whole part precision with
    | Some txt => err = (if (length txt + 1 <=? length buf)%nat then 0 else 1) /\ (err = 1 -> b = buf)
    | None => False
    end.
Proof.
  intros whole part precision buf Hw Hp Hpr.
  destruct (digits_rev_total whole Hw) as (dw & Ew). destruct (digits_rev_total part Hp) as (dp & Ep).
  destruct (chars_length whole 0 dw ltac:(lia) Ew) as (cw & Cw & Nw).
  destruct (chars_length part precision dp Hpr Ep) as (cp & Cp & Np).
  unfold ffp_m, ffp_text. rewrite Nw, Np, Cw, Cp.
  destruct (precision =? 0) eqn:E0.
  - (* no fraction *)
    destruct (Z.of_nat (length cw) + 0 + 1 >? Z.of_nat (length buf)) eqn:G.
    + exists buf, 1, (Some 0). split; [reflexivity|]. split; [reflexivity|].
      assert (L : (length cw + 1 <=? length buf)%nat = false) by (apply Nat.leb_gt; lia). rewrite L. auto.
    + unfold ffp_body. destruct (to_string_m_ok buf 0%nat whole 0 cw Cw ltac:(lia)) as (b1 & E1 & L1).
      rewrite E1. cbn [rbind]. rewrite E0. exists b1, 0, None. split; [reflexivity|]. split; [exact L1|].
      assert (L : (length cw + 1 <=? length buf)%nat = true) by (apply Nat.leb_le; lia). rewrite L. split; [reflexivity|discriminate].
  - destruct (Z.of_nat (length cw) + (1 + Z.of_nat (length cp)) + 1 >? Z.of_nat (length buf)) eqn:G.
    + exists buf, 1, (Some 0). split; [reflexivity|]. split; [reflexivity|].
      assert (L : (length (cw ++ 46%Z :: cp) + 1 <=? length buf)%nat = false)
        by (apply Nat.leb_gt; rewrite app_length; cbn [length]; lia). rewrite L. auto.
    + unfold ffp_body. destruct (to_string_m_ok buf 0%nat whole 0 cw Cw ltac:(lia)) as (b1 & E1 & L1).
      rewrite E1. cbn [rbind]. rewrite E0.
      destruct (wr_ok b1 (length cw) 46 ltac:(lia)) as (b2 & E2 & L2). rewrite E2. cbn [rbind].
      destruct (to_string_m_ok b2 (S (length cw)) part precision cp Cp ltac:(lia)) as (b3 & E3 & L3).
      rewrite E3. cbn [rbind fst]. exists b3, 0, (Some (Z.of_nat (length cw))). split; [reflexivity|]. split; [lia|].
      assert (L : (length (cw ++ 46%Z :: cp) + 1 <=? length buf)%nat = true)
        by (apply Nat.leb_le; rewrite app_length; cbn [length]; lia). rewrite L. split; [reflexivity|discriminate].
Qed.

(* before the fix: 233.007 with precision 3 into a span of one character *)
Theorem ffp_prefix_writes_past_span :
  ffp_prefix 233 7 3 [120] = UB OutOfBounds /\ ffp_m 233 7 3 [120] = Ok ([120], 1, Some 0)
  /\ ffp_m 233 7 3 [1; 1; 1; 1; 1; 1; 1; 1] = Ok ([50; 51; 51; 46; 48; 48; 55; 0], 0, Some 3).
Proof. repeat split; vm_compute; reflexivity. Qed.

(** * what is written: exactly the text and its terminator, the rest of the span untouched *)
Lemma wr_mid : forall pre old post c, wr (pre ++ old :: post) (length pre) c = Ok (pre ++ c :: post).
Proof. intros pre old post c. unfold wr. rewrite Arr.set_mid. reflexivity. Qed.

Lemma store_content : forall cs pre old post, length old = length cs ->
  store (pre ++ old ++ post) (length pre) cs = Ok (pre ++ cs ++ post).
Proof.
  induction cs as [|c t IH]; intros pre old post H.
  - destruct old; [reflexivity|discriminate].
  - destruct old as [|o old']; [discriminate|]. cbn [length] in H. cbn [store app].
    rewrite wr_mid. cbn [rbind].
    replace (pre ++ c :: old' ++ post) with ((pre ++ [c]) ++ old' ++ post) by (rewrite <- app_assoc; reflexivity).
    replace (S (length pre)) with (length (pre ++ [c])) by (rewrite app_length; cbn [length]; lia).
    rewrite IH by lia. rewrite <- app_assoc. reflexivity.
Qed.

Lemma store_at : forall cs pre rest, (length cs <= length rest)%nat ->
  store (pre ++ rest) (length pre) cs = Ok (pre ++ cs ++ skipn (length cs) rest).
Proof.
  intros cs pre rest H.
  assert (E : rest = firstn (length cs) rest ++ skipn (length cs) rest) by (symmetry; apply firstn_skipn).
  assert (L : length (firstn (length cs) rest) = length cs) by (apply firstn_length_le; exact H).
  set (a := firstn (length cs) rest) in *. set (b := skipn (length cs) rest) in *.
  rewrite E. apply store_content. exact L.
Qed.

Theorem ffp_writes_text : forall whole part precision buf txt w, 0 <= whole -> 0 <= part -> 0 <= precision ->
  ffp_text whole part precision = Some txt -> to_string_chars whole 0 = Some w ->
  (length txt + 1 <= length buf)%nat ->
  ffp_m whole part precision buf
  = Ok (txt ++ 0 :: skipn (length txt + 1) buf, 0, if precision =? 0 then None else Some (Z.of_nat (length w))).
Proof.
  intros whole part precision buf txt w Hw Hp Hpr Ht Cw Hfit.
  destruct (digits_rev_total whole Hw) as (dw & Ew). destruct (digits_rev_total part Hp) as (dp & Ep).
  destruct (chars_length whole 0 dw ltac:(lia) Ew) as (cw & Cw' & Nw). rewrite Cw in Cw'. inversion Cw'; subst cw. clear Cw'.
  destruct (chars_length part precision dp Hpr Ep) as (cp & Cp & Np).
  unfold ffp_text in Ht. rewrite Cw, Cp in Ht. unfold ffp_m. rewrite Nw, Np.
  assert (S0 : forall cs, (length cs <= length buf)%nat -> store buf 0 cs = Ok (cs ++ skipn (length cs) buf)).
  { intros cs H. exact (store_at cs [] buf H). }
  destruct (precision =? 0) eqn:E0.
  - inversion Ht; subst txt. clear Ht.
    assert (G : (Z.of_nat (length w) + 0 + 1 >? Z.of_nat (length buf)) = false) by lia. rewrite G.
    unfold ffp_body, to_string_m. rewrite Cw.
    rewrite S0 by (rewrite app_length; cbn [length]; lia).
    cbn [rbind]. rewrite E0. rewrite app_length. cbn [length]. rewrite <- app_assoc. reflexivity.
  - inversion Ht; subst txt. clear Ht. rewrite app_length in Hfit. cbn [length] in Hfit.
    assert (G : (Z.of_nat (length w) + (1 + Z.of_nat (length cp)) + 1 >? Z.of_nat (length buf)) = false) by lia. rewrite G.
    unfold ffp_body, to_string_m. rewrite Cw.
    rewrite S0 by (rewrite app_length; cbn [length]; lia).
    cbn [rbind]. rewrite E0. rewrite app_length. cbn [length].
    set (rest := skipn (length w + 1) buf).
    assert (Hrest : length rest = (length buf - (length w + 1))%nat) by (unfold rest; apply skipn_length).
    rewrite <- app_assoc. cbn [app]. rewrite wr_mid. cbn [rbind]. rewrite Cp.
    replace (w ++ 46 :: rest) with ((w ++ [46]) ++ rest) by (rewrite <- app_assoc; reflexivity).
    replace (S (length w)) with (length (w ++ [46])) by (rewrite app_length; cbn [length]; lia).
    rewrite store_at by (rewrite app_length; cbn [length]; lia).
    cbn [rbind fst]. f_equal. f_equal. f_equal.
    unfold rest. rewrite skipn_skipn. rewrite <- !app_assoc. cbn [app]. rewrite !app_length. cbn [length].
    replace (length cp + 1 + (length w + 1))%nat with (length w + S (length cp) + 1)%nat by lia.
    reflexivity.
Qed.
