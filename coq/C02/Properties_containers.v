(* C02 — containers and owning wrappers: static_vector / inplace_vector (C01, element lifetimes C03), static_set /
   flat_set / flat_multiset (C09), bitset (C17), span (C19), optional / variant / expected (C07), inplace_function,
   pair, tuple (C20, C03).  Under the documented preconditions — and, where the code checks them, for EVERY call —
   the checked models never return UB (access outside the inline storage, read of an element slot that holds no
   object, use of a destroyed object) nor OutOfFuel.  Corollaries of theorems of those packages (Required, not
   copied); [no_ub], [returns_ok]: C02/Safe.v; the two history theorems for vectors are proved in C02/ProofsVec.v. *)
From Tetl Require Import Lib.Base Lib.Arr C02.Safe.
From Tetl Require C06a.Model C01.Model C01.Spec C01.ProofsBase C01.ProofsStep C01.ProofsIv C01.Properties C02.ProofsVec.
From Tetl Require C03.Trace C03.Model C03.ModelAgg C03.ModelOwn C03.Spec C03.ProofsRun C03.ProofsOwn C03.Properties C03.Properties_agg C03.Properties_own.
From Tetl Require C09.Ops C09.Model C09.Spec C09.Instances C09.ProofsCore C09.ProofsRun C09.Properties.
From Tetl Require C17.Ops C17.Model C17.Spec C17.Words C17.Abs C17.History C17.Properties.
From Tetl Require C19.Slices C19.Model C19.Spec C19.ProofsArith C19.ProofsExt C19.ProofsLayout C19.ProofsSpan C19.ProofsSub C19.Properties.
Local Open Scope Z_scope.

(** * static_vector, inplace_vector (C01) *)
Module Vec.
Import C06a.Model C01.Model C01.Spec C01.ProofsBase C01.ProofsStep C01.ProofsIv.

(* one call: EVERY one of the 28 operations with ANY arguments, from every pair of states satisfying the
   representation invariant [inv c v := length (buf v) = c /\ 0 <= sz v <= c]; every capacity below 2^63 *)
Theorem C02_static_vector_no_ub : forall pred c s o, Z.of_nat c < 2 ^ 63 ->
  inv c (fst s) -> inv c (snd s) ->
  match o with At _ i => i < 2 ^ 64 | _ => True end ->
  no_ub (step pred s o).
Proof. exact C01.Properties.C01_no_ub. Qed.
Print Assumptions C02_static_vector_no_ub.

Theorem C02_inplace_vector_no_ub : forall c s o, Z.of_nat c < 2 ^ 63 ->
  inv c (fst s) -> inv c (snd s) ->
  match o with IvAt _ i => i < 2 ^ 64 | _ => True end ->
  no_ub (iv_step s o).
Proof. exact C01.Properties.C01_inplace_vector_no_ub. Qed.
Print Assumptions C02_inplace_vector_no_ub.

(* the invariant is preserved, so the two theorems above apply along every history ... *)
Theorem C02_static_vector_invariant : forall pred c s o s' out, Z.of_nat c < 2 ^ 63 ->
  inv c (fst s) -> inv c (snd s) ->
  match o with At _ i => i < 2 ^ 64 | _ => True end ->
  step pred s o = Ok (s', out) -> inv c (fst s') /\ inv c (snd s').
Proof. exact C01.Properties.C01_invariant_preserved. Qed.
Print Assumptions C02_static_vector_invariant.

(* ... which is this: EVERY history (valid calls, calls that violate a precondition, in any order) on two freshly
   constructed vectors of ANY capacity (0, 1, 254, 255, 256, 65535, ... included): every step of the printed
   run is a normal return or a fired TETL_PRECONDITION (which ends the run); never UB, never out of fuel *)
Theorem C02_vector_histories_no_ub : forall pred c, Z.of_nat c < 2 ^ 63 ->
  (forall ops, Forall at_arg_ok ops -> Forall no_ub (run pred (empty_vec c, empty_vec c) ops)) /\
  (forall ops, Forall iv_at_arg_ok ops -> Forall no_ub (iv_run (empty_vec c, empty_vec c) ops)) /\
  (forall ops s, inv c (fst s) -> inv c (snd s) -> Forall at_arg_ok ops -> Forall no_ub (run pred s ops)) /\
  (forall ops s, inv c (fst s) -> inv c (snd s) -> Forall iv_at_arg_ok ops -> Forall no_ub (iv_run s ops)).
Proof.
  intros pred c Hc. split; [|split; [|split]].
  - intros ops H. apply (C02.ProofsVec.run_safe pred c Hc); cbn [fst snd]; try apply empty_inv; exact H.
  - intros ops H. apply (C02.ProofsVec.iv_run_safe c Hc); cbn [fst snd]; try apply empty_inv; exact H.
  - exact (C02.ProofsVec.run_safe pred c Hc).
  - exact (C02.ProofsVec.iv_run_safe c Hc).
Qed.
Print Assumptions C02_vector_histories_no_ub.
End Vec.

(** * element lifetimes in the owning types (C03): no element slot is read, assigned or destroyed while it holds
      no object and none is constructed over a live object — for ANY history (no hypothesis), every capacity /
      arity / alternative list, both element flavours; the fuelled rotate loop never runs out of fuel *)
Module Life.
Import C03.Trace C03.Model C03.ModelAgg C03.ModelOwn C03.Spec C03.ProofsRun C03.ProofsOwn.

Theorem C02_no_use_of_dead_storage :
  (forall (fl : bool) (cap : nat) (iv : bool) (ops : list op),
     wf_trace (events_of (fst (fst (run fl cap iv (0, 0)%nat [] ops)))) = true /\
     no_fuel (fst (fst (run fl cap iv (0, 0)%nat [] ops))) = true) /\
  (forall (fl : bool) (k : nat) (ops : list aop),
     wf_trace (agg_trace fl k ops) = true /\ all_dead (agg_trace fl k ops) = true) /\
  (forall (fl : bool) (trk : nat -> bool) (fn : bool) (ops : list oop),
     wf_trace (own_init trk fn ++ events_of (fst (fst (grun (step_own fl trk fn) (0, 0)%nat (exec_all [] (own_init trk fn)) ops)))) = true /\
     no_fuel (fst (fst (grun (step_own fl trk fn) (0, 0)%nat (exec_all [] (own_init trk fn)) ops))) = true).
Proof.
  split; [exact C03.Properties.C03_vec_prefix_wf|].
  split; [exact C03.Properties_agg.C03_agg_lifecycle|exact C03.Properties_own.C03_own_prefix_wf].
Qed.
Print Assumptions C02_no_use_of_dead_storage.
End Life.

(** * static_set, flat_set, flat_multiset (C09) *)
Module Sets.
Import C06a.Model C09.Ops C09.Model C09.Spec C09.ProofsCore C09.ProofsRun.

(* EVERY history of the whole vocabulary, valid or not, from the empty sets, every capacity, every element type,
   every strict weak order: the run returns (a call outside its domain reports a contract violation inside the
   trace); the searching / rotating / sorting loops underneath never leave the backing array and never run out of
   fuel.  [op_ok]: the one precondition the containers cannot check (replace / sorted_unique are given a sorted
   unique container); static_set has no such member. *)
Theorem C02_sets_no_ub :
  (forall (A : Type) (lt : A -> A -> bool), strict_weak lt ->
   forall (k : kind) (cap : nat) (ops : list (op A)), Forall (op_ok lt k) ops -> returns_ok (run lt k cap init ops)) /\
  (forall (A : Type) (lt : A -> A -> bool), strict_weak lt ->
   forall (cap : nat) (ops : list (op A)), returns_ok (run lt StaticSet cap init ops)) /\
  (forall (A : Type) (lt : A -> A -> bool), strict_weak lt ->
   forall (k : kind) (cap : nat) (s : st A) (o : op A), inv lt cap s -> op_ok lt k o -> returns_ok (step lt k cap s o)) /\
  (forall (A : Type) (lt : A -> A -> bool), strict_weak lt ->
   forall (k : kind) (tr : bool) (x : A) (l : list A), is_set lt l -> returns_ok (ask k tr (key_cut lt x) l)) /\
  (forall (A : Type) (lt : A -> A -> bool), strict_weak lt ->
   forall (input : list A), returns_ok (fms_construct lt input)).
Proof.
  split; [|split; [|split; [|split]]].
  - intros A lt SW k cap ops H. pose proof (C09.Properties.C09_set_sorted_unique_inv A lt SW k cap ops H) as HH. ok_from HH.
  - intros A lt SW cap ops. pose proof (C09.Properties.C09_static_set_sorted_unique_inv A lt SW cap ops) as HH. ok_from HH.
  - intros A lt SW k cap s o I H. pose proof (C09.Properties.C09_step_from_any_set A lt SW k cap s o I H) as HH. ok_from HH.
  - intros A lt SW k tr x l H. (pose proof (C09.Properties.C09_lookup_key_refines_std A lt SW k tr x l H) as HH; ok_from HH).
  - intros A lt SW input. pose proof (C09.Properties.C09_flat_multiset_sorted_perm A lt SW input) as HH. ok_from HH.
Qed.
Print Assumptions C02_sets_no_ub.
End Sets.

(** * bitset (C17) *)
Module Bits.
Import C17.Ops C17.Model C17.Spec C17.Words C17.Abs C17.History.
Local Open Scope nat_scope.

(* every width Bits >= 1, every word width 2^k, every operation with any argument, from every well-formed pair of
   word arrays (all reachable ones are: C17_padding_zero_inv): the step returns a well-formed pair or is stopped by
   a precondition; the word index is never outside the array, no shift count reaches the word width *)
Theorem C02_bitset_no_ub : forall bits k, 0 < bits -> forall st o, wf2 bits k st ->
  no_ub (step_m bits (2 ^ k) st o) /\
  (forall st' q, step_m bits (2 ^ k) st o = Ok (st', q) -> wf2 bits k st') /\
  wf2 bits k (init_m bits (2 ^ k)).
Proof.
  intros bits k Hb st o W. pose proof (C17.Properties.C17_step_refines bits k Hb st o W) as H.
  split; [|split].
  - destruct (step_m bits (2 ^ k) st o) as [[st' q]| |u|]; try contradiction;
      [eapply ok_no_ub; reflexivity|apply contract_no_ub; reflexivity].
  - intros st' q E. rewrite E in H. exact (proj1 H).
  - apply C17.History.wf2_init; assumption.
Qed.
Print Assumptions C02_bitset_no_ub.
End Bits.

(** * span (C19): subspan / first / last / operator[] for every offset and count: inside the parent or a fired
      precondition *)
Module Span.
Import C19.Slices C19.Model C19.Spec C19.ProofsArith C19.ProofsExt C19.ProofsLayout C19.ProofsSpan C19.ProofsSub.

Theorem C02_span_within_parent :
  (forall (A : Type) (buf : list A) s o c, sp_valid buf s -> 0 <= o -> 0 <= c -> o + c <= s_size s ->
     exists r, sp_sub_d s o (Some c) = Ok r /\ sp_within r s /\ sp_valid buf r) /\
  (forall (A : Type) (buf : list A) s o, sp_valid buf s -> 0 <= o <= s_size s ->
     exists r, sp_sub_d s o None = Ok r /\ sp_within r s /\ sp_valid buf r) /\
  (forall s o c, 0 <= s_size s < 18446744073709551616 -> 0 <= o -> no_ub (sp_sub_d s o c)) /\
  (forall (A : Type) (buf : list A) s c, sp_valid buf s -> 0 <= c -> no_ub (sp_first_d s c) /\ no_ub (sp_last_d s c)) /\
  (forall s i, 0 <= i -> no_ub (sp_index s i)).
Proof.
  split; [|split; [|split; [|split]]].
  - intros A buf s o c V Ho Hc Hs. destruct (C19.Properties.C19_span_subspan A buf s o c V Ho Hc Hs) as (r & E & _ & _ & _ & W & V').
    exists r. auto.
  - intros A buf s o V Ho. destruct (C19.Properties.C19_span_subspan_rest A buf s o V Ho) as (r & E & _ & _ & _ & W & V').
    exists r. auto.
  - intros s o c Hs Ho. unfold sp_sub_d. destruct (negb (o <=? s_size s)); [apply contract_no_ub; reflexivity|].
    destruct c as [n|]; [destruct (n <=? szw (s_size s - o))|];
      first [eapply ok_no_ub; reflexivity|apply contract_no_ub; reflexivity].
  - intros A buf s c V Hc. destruct (C19.Properties.C19_span_first A buf s c V Hc) as [F1 F2].
    destruct (C19.Properties.C19_span_last A buf s c V Hc) as [L1 L2].
    destruct (Z_le_gt_dec c (s_size s)) as [L|G].
    + destruct (F1 L) as (r & E & _). destruct (L1 L) as (r' & E' & _). split; eapply ok_no_ub; eassumption.
    + split; apply contract_no_ub; [apply F2|apply L2]; lia.
  - intros s i Hi. destruct (C19.Properties.C19_span_index s i Hi) as [I1 I2].
    destruct (Z_lt_le_dec i (s_size s)) as [L|G]; [exact (ok_no_ub _ _ _ (I1 L))|exact (contract_no_ub _ _ (I2 G))].
Qed.
Print Assumptions C02_span_within_parent.
(* mdspan / mdarray / the layout mappings: for EVERY rank, static/dynamic pattern, extent values and index type
   (1..64 bits, signed or unsigned), under the standard's one arithmetic precondition (the size of the index space
   is representable in the index type): operator() overflows no signed intermediate ([Some]), the offset lies in
   [0, required_span_size()), and the element read is an element of the buffer; submdspan_extents does not overflow.
   For unsigned index types of at least int width the mapping is total (it wraps, it is never undefined); the
   representability hypothesis is necessary for the others (last conjunct: int index, 65536 x 65536). *)
Theorem C02_mdspan_access_inside :
  (forall (A : Type) (buf : list A) l t e idx, wf_ity t -> wf_ext t e ->
     in_range idx (extents_list t e) -> product (extents_list t e) <= imax t ->
     product (extents_list t e) <= Z.of_nat (length buf) ->
     exists a, mds_get buf l t e idx = Some a /\
               nth_error buf (Z.to_nat (spec_offset l (extents_list t e) idx)) = Some a) /\
  (forall l t e idx, wf_ity t -> in_range idx (extents_list t e) -> product (extents_list t e) <= imax t ->
     exists o, lay_map l t e idx = Some o /\ 0 <= o < lay_required l t e) /\
  (forall t e ss idx, wf_ity t -> wf_ext t e -> in_range idx (extents_list t e) -> length ss = rank e ->
     Forall (fun s => 0 <= s <= imax t) ss -> span_max (extents_list t e) ss <= imax t ->
     exists o, strided_map t (strided_ctor t e ss) idx = Some o /\ 0 <= o < stride_required (extents_list t e) ss) /\
  (forall t e sl, wf_ity t -> wf_ext t e -> Forall2 slice_ok sl (extents_list t e) ->
     exists r, sub_extents_p t e sl = Some r /\ wf_ext t r) /\
  (forall l t e idx ss, sgn t = false -> 32 <= bits t ->
     is_some (lay_map l t e idx) /\ is_some (strided_map t (strided_ctor t e ss) idx)) /\
  (let e := ext_from_pack i32 [None; None] [65536; 65536] in
   in_range [32768; 0] (extents_list i32 e) /\ lay_map LRight i32 e [32768; 0] = None).
Proof.
  split; [exact C19.Properties.C19_mdspan_access_inside_buffer|].
  split; [exact C19.Properties.C19_layout_in_bounds|].
  split; [exact C19.Properties.C19_layout_stride_in_bounds|].
  split; [|split; [|exact C19.Properties.C19_int_index_overflows]].
  - intros t e sl Wt We H. destruct (C19.Properties.C19_submdspan_extents_pairs t e sl Wt We H) as (r & E & _ & _ & W).
    exists r. auto.
  - intros l t e idx ss Hs Hb. exact (C19.Properties.C19_unsigned_index_total l t e idx ss Hs Hb).
Qed.
Print Assumptions C02_mdspan_access_inside.
End Span.

(* the hypotheses are satisfiable and the conclusions are not trivial: a history on capacity-2 vectors that fills the
   vector, pushes once more (stopped by the precondition) — and the checked array the models are built on does
   answer UB for an index outside the storage *)
Example C02_containers_nonvacuous :
  let pred := fun (_ x : Z) => Z.even x in
  let ops := [C01.Model.PushBack false 5; C01.Model.PushBack false 6; C01.Model.At false 1; C01.Model.PushBack false 7] in
  Z.of_nat 2 < 2 ^ 63 /\ Forall C01.ProofsStep.at_arg_ok ops /\
  (exists a b c, C01.Model.run pred (C01.Model.empty_vec 2, C01.Model.empty_vec 2) ops = [Ok a; Ok b; Ok c; Contract]) /\
  Lib.Arr.get [1; 2] 2 = None /\ Lib.Arr.set [1; 2] 2 0 = None /\
  C09.ProofsRun.strict_weak Z.ltb /\
  (0 < 65)%nat /\ C17.History.wf2 65 6 (C17.Model.init_m 65 (2 ^ 6)).
Proof.
  cbv zeta. split; [reflexivity|]. split; [repeat constructor; cbn; lia|].
  split; [do 3 eexists; vm_compute; reflexivity|]. split; [reflexivity|]. split; [reflexivity|].
  split; [exact (proj1 (proj2 C09.Properties.C09_nonvacuous))|]. split; [lia|]. apply C17.History.wf2_init; lia.
Qed.
