(* C02 — strings and views, character conversion, C-string functions: under the documented preconditions the
   checked-memory models of inplace_string (C04), string_view (C08), to_chars / from_chars / to_integer / strto*
   (C10) and cstr.hpp (C18) never return UB (out-of-bounds access, read past a terminator, signed overflow,
   division by zero) nor OutOfFuel.  Every theorem is a corollary of theorems of those packages (Required, not
   copied); [no_ub], [returns_ok]: C02/Safe.v. *)
From Tetl Require Import Lib.Base C02.Safe.
From Tetl Require C08.Model C08.Spec C08.Core C08.ProofsFind C08.ProofsCmp C08.ProofsPtr C08.ProofsSafe C08.Properties.
From Tetl Require C04.Model C04.ModelQ C04.Spec C04.SpecQ C04.Inv C04.InvOps C04.Total C04.QueryOk C04.Properties C04.Properties_query.
From Tetl Require C10.Model C10.Spec C10.ProofsFmt C10.Properties.
From Tetl Require C18.Model C18.Spec C18.ProofsCtype C18.ProofsStr C18.Properties.
Local Open Scope Z_scope.

(** * inplace_string (C04) *)
Module Str.
Import C08.Model C08.Spec C08.Core C08.ProofsFind C08.ProofsCmp C08.ProofsPtr C04.Model C04.ModelQ C04.Spec C04.SpecQ C04.Inv C04.InvOps C04.Total C04.QueryOk.

(* EVERY history of mutators (valid or not: a call outside its documented precondition is stopped by its
   TETL_PRECONDITION), for every capacity (both layouts) and character type, from the default-constructed string
   and from any state satisfying the representation invariant: no access outside the Capacity+1 characters, no
   loop out of fuel.  [op_wf]: numeric arguments are size_t values; [ptr_ok]: a (pointer, count) argument stays
   inside the array the pointer points into. *)
Theorem C02_inplace_string_history_safe :
  (forall ops s, inv s -> Forall op_wf ops -> Forall ptr_ok ops -> no_ub (run s ops)) /\
  (forall c ck ops, cap_ok c -> Forall op_wf ops -> Forall ptr_ok ops -> no_ub (run (default_str c ck) ops)) /\
  (forall s o, inv s -> op_wf o -> ptr_ok o -> no_ub (step s o)) /\
  (forall a b, inv a -> inv b -> cap b = cap a -> returns_ok (swap_m a b)).
Proof.
  assert (H1 : forall ops s, inv s -> Forall op_wf ops -> Forall ptr_ok ops -> no_ub (run s ops)).
  { intros ops s I W P. destruct (C04.Properties.C04_history_never_ub ops s I W P) as [(s' & E & _)|E].
    - exact (ok_no_ub _ _ _ E).
    - exact (contract_no_ub _ _ E). }
  split; [exact H1|]. split; [|split].
  - intros c ck ops Hc W P. apply H1; [exact (proj1 (inv_default c ck Hc))|exact W|exact P].
  - intros s o I W P. pose proof (C04.Properties.C04_step_outcome s o I W P) as H.
    destruct (pre_ok s o); [destruct H as (s' & E & _); exact (ok_no_ub _ _ _ E)|exact (contract_no_ub _ _ H)].
  - intros a b Ia Ib Hc. pose proof (C04.Properties.C04_swap_both a b Ia Ib Hc) as HH. ok_from HH.
Qed.
Print Assumptions C02_inplace_string_history_safe.

(* the const members: all six search families in every overload and for every position (incl. npos and positions
   beyond size()), compare (8 overloads), the relational operators, starts_with / ends_with / contains,
   operator[] for every index, front / back, and the scan of c_str() for its terminator: reads stay inside the
   object's characters and inside the argument's array *)
Theorem C02_inplace_string_queries_safe :
  (forall f s n pos, inv s -> needle_ok n -> pos_ok pos -> returns_ok (search_m f s n pos)) /\
  (forall s c, inv s -> cmp_call_ok c -> no_ub (compare_call_m s c)) /\
  (forall a b, inv a -> inv b -> returns_ok (rel_str_str_m a b)) /\
  (forall a r, inv a -> cstr_ok r -> returns_ok (rel_str_cstr_m a r)) /\
  (forall s p, inv s -> pfx_ok' p -> returns_ok (contains_call_m s p)) /\
  (forall s i, inv s -> pos_ok i -> no_ub (index_m s i)) /\
  (forall s, inv s -> no_ub (front_m s) /\ no_ub (back_m s)) /\
  (forall s, inv s -> returns_ok (strlen_m (arr_view (buf s)))).
Proof.
  split; [|split; [|split; [|split; [|split; [|split; [|split]]]]]].
  - intros f s n pos I N P. (pose proof (C04.Properties_query.C04_search_all_overloads f s n pos I N P) as HH; ok_from HH).
  - intros s c I C. pose proof (C04.Properties_query.C04_compare_all_overloads s c I C) as H.
    unfold res_opt in H. destruct (compare_call_m s c) as [x| |k|].
    + eapply ok_no_ub; reflexivity.
    + apply contract_no_ub; reflexivity.
    + contradiction.
    + contradiction.
  - intros a b Ia Ib. exact (ok_returns_ok _ _ _ (proj1 C04.Properties_query.C04_relational_operators a b Ia Ib)).
  - intros a r Ia Hr. exact (ok_returns_ok _ _ _ (proj1 (proj2 C04.Properties_query.C04_relational_operators) a r Ia Hr)).
  - intros s p I P. exact (ok_returns_ok _ _ _ (proj2 (proj2 C04.Properties_query.C04_starts_ends_contains) s p I P)).
  - intros s i I P. destruct (proj1 (C04.Properties_query.C04_accessors s I) i P) as (A & B & C).
    destruct (Z_lt_le_dec i (get_size s)) as [L|L]; [exact (ok_no_ub _ _ _ (A L))|].
    destruct (Z.eq_dec i (get_size s)) as [E|E]; [exact (ok_no_ub _ _ _ (B E))|].
    apply contract_no_ub. apply C. lia.
  - intros s I. destruct (proj2 (C04.Properties_query.C04_accessors s I)) as (F1 & F2 & _).
    destruct (contents s) as [|x l] eqn:E.
    + destruct (F2 eq_refl) as [A B]. split; apply contract_no_ub; assumption.
    + assert (N : x :: l <> []) by discriminate. destruct (F1 N) as [A B]. split; eapply ok_no_ub; eassumption.
  - intros s I. pose proof (C04.Properties_query.C04_c_str_valid s I) as HH. ok_from HH.
Qed.
Print Assumptions C02_inplace_string_queries_safe.
End Str.

(** * basic_string_view (C08) *)
Module View.
Import C08.Model C08.Spec C08.Core C08.ProofsFind C08.ProofsCmp C08.ProofsPtr C08.ProofsSafe.

(* every access of the view model goes through [rd], which is UB OutOfBounds outside the view; for all views
   (incl. empty ones and views strictly inside a larger allocation), needles and positions the six search
   families, contains, compare (3 overloads), the relational operators, substr / copy / remove_prefix /
   remove_suffix never take that path and never run out of fuel; construction from a Char const* stops at the
   terminator *)
Theorem C02_string_view_reads_inside :
  (forall v i, ~ (0 <= i < vlen v) -> rd v i = UB OutOfBounds) /\
  (forall h n pos, view_ok h -> view_ok n -> pos_ok pos ->
     no_ub (find_m h n pos) /\ no_ub (rfind_m h n pos) /\ no_ub (find_first_of_m h n pos) /\
     no_ub (find_first_not_of_m h n pos) /\ no_ub (find_last_of_m h n pos) /\ no_ub (find_last_not_of_m h n pos) /\
     no_ub (contains_m h n)) /\
  (forall ck a b pos1 count1 pos2 count2, view_ok a -> view_ok b ->
     pos_ok pos1 -> pos_ok count1 -> pos_ok pos2 -> pos_ok count2 ->
     no_ub (compare_m ck a b) /\ no_ub (compare3_m ck a pos1 count1 b) /\ no_ub (compare5_m ck a pos1 count1 b pos2 count2) /\
     no_ub (op_eq_m ck a b) /\ no_ub (op_lt_m ck a b) /\
     no_ub (substr_m a pos1 count1) /\ no_ub (copy_m a count1 pos1) /\
     no_ub (remove_prefix_m a pos1) /\ no_ub (remove_suffix_m a pos1)) /\
  (forall a, cstr_ok a -> returns_ok (cstr_view a)).
Proof.
  assert (D : forall A (r : res A), defined r -> no_ub r).
  { intros A r H. destruct r; cbn in H; try contradiction; [eapply ok_no_ub; reflexivity|apply contract_no_ub; reflexivity]. }
  destruct C08.Properties.C08_reads_inside as (R & S & C & _).
  split; [exact R|]. split; [|split].
  - intros h n pos Hh Hn Hp. destruct (S h n pos Hh Hn Hp) as (A1 & A2 & A3 & A4 & A5 & A6 & A7).
    repeat split; apply D; assumption.
  - intros ck a b p1 c1 p2 c2 Ha Hb H1 H2 H3 H4.
    destruct (C ck a b p1 c1 p2 c2 Ha Hb H1 H2 H3 H4) as (B1 & B2 & B3 & B4 & B5 & B6 & B7 & B8 & B9 & B10 & B11 & B12 & B13).
    repeat split; apply D; assumption.
  - intros a Ha. pose proof (C08.Properties.C08_cstr_view a Ha) as HH. ok_from HH.
Qed.
Print Assumptions C02_string_view_reads_inside.
End View.

(** * to_chars / from_integer / to_string / from_chars / to_integer (C10) *)
Module Conv.
Import C10.Model C10.Spec C10.ProofsFmt.

(* every integer type of at least 8 bits, every value, every base 2..36, EVERY buffer length (0 and exact fit
   included): every store of to_chars / from_integer stays inside [first, last) and the length of the buffer is
   unchanged; the parsers read only the given characters and their accumulation never overflows (the overflow
   checkers fire first) *)
Theorem C02_charconv_in_bounds :
  (forall t v b buf, 8 <= bits t -> in_ty t v = true -> 2 <= b <= 36 ->
     exists err n buf', to_chars_m t v b buf = Ok (err, n, buf') /\ length buf' = length buf /\ (n <= length buf)%nat) /\
  (forall t term v b buf, 8 <= bits t -> in_ty t v = true -> 2 <= b <= 36 ->
     exists buf' e p, from_integer_m t term v b buf = Ok (buf', e, p) /\ length buf' = length buf) /\
  (forall t cap v, 8 <= bits t -> in_ty t v = true -> no_ub (to_string_m t cap v)) /\
  (forall t skipws plus s base, 8 <= bits t -> 2 <= base <= 36 -> returns_ok (to_integer_m t skipws plus s base)) /\
  (forall t s b v0, 8 <= bits t -> 2 <= b <= 36 -> returns_ok (from_chars_m t s b v0)) /\
  ((* strtol family / sto*: EVERY character sequence and EVERY int value of base (the bases C does not define included) *)
   forall t s b, 32 <= bits t -> returns_ok (strto_m t s b) /\ returns_ok (strto_integer_m t s b)).
Proof.
  split; [exact C10.Properties.C10_to_chars_in_bounds|]. split; [|split; [|split; [|split]]].
  - intros t term v b buf Hb Hv Hr. pose proof (C10.Properties.C10_from_integer_correct t term v b buf Hb Hv Hr) as H.
    unfold fi_post in H. destruct (length (to_text b v) + (if term then 1 else 0) <=? length buf)%nat eqn:E.
    + do 3 eexists. split; [exact H|]. apply Nat.leb_le in E.
      rewrite !app_length, skipn_length. destruct term; cbn [length] in *; lia.
    + destruct H as (buf' & e & H & L). exists buf', true, e. split; assumption.
  - intros t cap v Hb Hv. rewrite (C10.Properties.C10_to_string_correct t cap v Hb Hv).
    destruct (length (to_text 10 v) <=? cap)%nat; [eapply ok_no_ub; reflexivity|apply contract_no_ub; reflexivity].
  - intros t skipws plus s base Hb Hr. pose proof (C10.Properties.C10_to_integer_correct t skipws plus s base Hb Hr) as H. ok_from H.
  - intros t s b v0 Hb Hr. pose proof (C10.Properties.C10_from_chars_correct t s b v0 Hb Hr) as H. ok_from H.
  - intros t s b Hb.
    assert (D : (b = 0 \/ 2 <= b <= 36) \/ (b < 0 \/ b = 1 \/ 36 < b)) by lia.
    destruct D as [D|D].
    + pose proof (C10.Properties.C10_strto_correct t s b) as H.
      feed H ltac:(first [exact Hb | right; exact Hb | cbv; lia]). specialize (H D).
      split; [pose proof H as H'; ok_from H'|ok_from H].
    + pose proof (C10.Properties.C10_strto_bad_base t s b D) as E. split; [pose proof E as E'; ok_from E'|].
      unfold strto_m in E. destruct (strto_integer_m t s b) as [x| |k|]; try discriminate. eexists; reflexivity.
Qed.
Print Assumptions C02_charconv_in_bounds.
End Conv.

(** * cstr.hpp: the str* / mem* / wcs* / wmem* functions (C18) *)
Module Cstr.
Import C18.Model C18.Spec C18.ProofsCtype C18.ProofsStr.

(* a string argument is [a ++ 0 :: rest] with no null in [a]; [rest] is whatever lies behind the terminator in the
   allocation (possibly nothing): for EVERY such string, of any length incl. empty, the readers return — nothing
   is read behind the terminator, nothing outside the arrays; the writers return when the destination has the
   room the C standard requires (exact fit included) *)
Theorem C02_cstring_in_bounds :
  (forall a rest, ~ In 0 a -> returns_ok (strlen_m (a ++ 0 :: rest))) /\
  (forall ct a b ra rb, ~ In 0 a -> ~ In 0 b -> chars_ok ct a -> chars_ok ct b ->
     returns_ok (strcmp_m ct (a ++ 0 :: ra) (b ++ 0 :: rb))) /\
  (forall ct n A B, array_ok n A = true -> array_ok n B = true -> chars_ok ct A -> chars_ok ct B ->
     returns_ok (strncmp_m ct A B n)) /\
  (forall ct n A B, (n <= length A)%nat -> (n <= length B)%nat -> chars_ok ct A -> chars_ok ct B ->
     returns_ok (memcmp_m ct A B n)) /\
  (forall ct a rest ch, ~ In 0 a -> returns_ok (strchr_m ct (a ++ 0 :: rest) ch) /\ returns_ok (strrchr_m ct (a ++ 0 :: rest) ch)) /\
  (forall ct A ch n, (n <= length A)%nat -> returns_ok (memchr_m ct A ch n)) /\
  (forall a b ra rb, ~ In 0 a -> ~ In 0 b ->
     returns_ok (strspn_m true (a ++ 0 :: ra) (b ++ 0 :: rb)) /\ returns_ok (strspn_m false (a ++ 0 :: ra) (b ++ 0 :: rb)) /\
     returns_ok (strpbrk_m (a ++ 0 :: ra) (b ++ 0 :: rb)) /\ returns_ok (strstr_m (a ++ 0 :: ra) (b ++ 0 :: rb))) /\
  (forall a rest d, ~ In 0 a -> (length a < length d)%nat -> returns_ok (strcpy_m d (a ++ 0 :: rest))) /\
  (forall n d A, array_ok n A = true -> (n <= length d)%nat -> returns_ok (strncpy_m d A n)) /\
  (forall a rd b rb, ~ In 0 a -> ~ In 0 b -> (length b <= length rd)%nat ->
     returns_ok (strcat_m (a ++ 0 :: rd) (b ++ 0 :: rb))) /\
  (forall a rd B n, ~ In 0 a -> array_ok n B = true -> (length (upto_nul_excl n B) <= length rd)%nat ->
     returns_ok (strncat_m (a ++ 0 :: rd) B n)) /\
  (forall n d A, (n <= length A)%nat -> (n <= length d)%nat -> returns_ok (memcpy_m d A n)) /\
  (forall ct d c n, (n <= length d)%nat -> returns_ok (memset_m ct d c n)) /\
  (forall m d s n, (d + n <= length m)%nat -> (s + n <= length m)%nat -> returns_ok (memmove_m m d s n)).
Proof.
  repeat split; intros.
  - eapply ok_returns_ok. apply C18.Properties.C18_strlen; assumption.
  - eapply ok_returns_ok. apply C18.Properties.C18_strcmp; assumption.
  - eapply ok_returns_ok. apply C18.Properties.C18_strncmp; assumption.
  - eapply ok_returns_ok. apply C18.Properties.C18_memcmp; assumption.
  - eapply ok_returns_ok. apply C18.Properties.C18_strchr; assumption.
  - eapply ok_returns_ok. apply C18.Properties.C18_strrchr; assumption.
  - eapply ok_returns_ok. apply C18.Properties.C18_memchr. left. assumption.
  - eapply ok_returns_ok. apply C18.Properties.C18_strspn; assumption.
  - eapply ok_returns_ok. apply C18.Properties.C18_strcspn; assumption.
  - eapply ok_returns_ok. apply C18.Properties.C18_strpbrk; assumption.
  - eapply ok_returns_ok. apply C18.Properties.C18_strstr; assumption.
  - eapply ok_returns_ok. apply C18.Properties.C18_strcpy; assumption.
  - eapply ok_returns_ok. apply C18.Properties.C18_strncpy; assumption.
  - eapply ok_returns_ok. apply C18.Properties.C18_strcat; assumption.
  - eapply ok_returns_ok. apply C18.Properties.C18_strncat; assumption.
  - eapply ok_returns_ok. apply C18.Properties.C18_memcpy; assumption.
  - eapply ok_returns_ok. apply C18.Properties.C18_memset; assumption.
  - eapply ok_returns_ok. apply C18.Properties.C18_memmove; assumption.
Qed.
Print Assumptions C02_cstring_in_bounds.

(* <cctype> conversions and the <cstdlib> div / abs family: no signed overflow on the documented domain *)
Theorem C02_cstdlib_no_overflow :
  (forall c, -1 <= c <= 255 -> is_some (tolower_m c) /\ is_some (toupper_m c)) /\
  (forall t x y, in_range t x -> in_range t y -> y <> 0 -> in_range t (fst (div_s x y)) -> is_some (div_m t x y)) /\
  (forall t x, in_range t x -> in_range t (Z.abs x) -> is_some (abs_m t x)).
Proof.
  repeat split; intros.
  - eapply some_intro. exact (proj1 (C18.Properties.C18_cctype_conversions c H)).
  - eapply some_intro. exact (proj2 (C18.Properties.C18_cctype_conversions c H)).
  - eapply some_intro. apply C18.Properties.C18_div; assumption.
  - eapply some_intro. apply C18.Properties.C18_abs; assumption.
Qed.
Print Assumptions C02_cstdlib_no_overflow.
End Cstr.

(* the hypotheses are satisfiable, and the notion is not vacuous (a read one past a view is UB in the model) *)
Example C02_strings_nonvacuous :
  C04.Inv.cap_ok 15 /\ C04.Inv.cap_ok 16 /\
  Forall C04.InvOps.op_wf [C04.Model.OAppendFill 15 97; C04.Model.OPushBack 98] /\
  C04.Model.run (C04.Model.default_str 15 C08.Model.CChar) [C04.Model.OAppendFill 15 97; C04.Model.OPushBack 98] = Contract /\
  C08.Model.rd (C08.Model.mkview [97; 98; 97; 98] 0 3) 3 = UB OutOfBounds /\
  ~ no_ub (C08.Model.rd (C08.Model.mkview [97; 98; 97; 98] 0 3) 3) /\
  C10.Model.to_chars_m i8 (-128) 10 [0; 0; 0; 0] = Ok (false, 4%nat, [45; 49; 50; 56]) /\
  (exists b, C10.Model.to_chars_m i8 (-128) 10 [] = Ok (true, 0%nat, b)).
Proof.
  split; [unfold C04.Inv.cap_ok; lia|]. split; [unfold C04.Inv.cap_ok; lia|].
  split; [repeat constructor; cbn; unfold C04.InvOps.szt; lia|].
  split; [vm_compute; reflexivity|]. split; [vm_compute; reflexivity|].
  split; [intros [H _]; apply (H OutOfBounds); vm_compute; reflexivity|].
  split; [vm_compute; reflexivity|]. eexists. vm_compute. reflexivity.
Qed.
