(* C02: the scan of to_floating_point never reads outside the view it was given and returns the specified
   (error, end) — for EVERY view inside its allocation (empty, not null-terminated, flush against the end of the
   allocation); the pre-fix loop does read outside. *)
From Tetl Require Import Lib.Base C08.Model C08.Spec C08.Core C02.ModelFp.
From Coq Require Import Lia ZArith List.
Local Open Scope Z_scope.

(* list-level loop the model is compared with *)
Fixpoint scan_list (l : list Z) (i : Z) (leading : bool) : Z * Z :=
  match l with
  | [] => (0, i)
  | c :: t =>
      if c =? 0 then (0, i)
      else if isspace_c c && leading then scan_list t (i + 1) leading
      else if isdigit_c c || (c =? 46) then scan_list t (i + 1) false
      else (1, 0)
  end.

Lemma loop_is_scan_list : forall n v i leading, view_ok v -> 0 <= i -> i + Z.of_nat n = vlen v ->
  tfp_loop n v i leading = Ok (scan_list (skipn (Z.to_nat i) (vchars v)) i leading).
Proof.
  induction n as [|n IH]; intros v i leading Hv Hi Hn.
  - cbn [tfp_loop]. assert (E : skipn (Z.to_nat i) (vchars v) = []).
    { apply skipn_all_len. rewrite (len_vchars v Hv). lia. }
    rewrite E. reflexivity.
  - cbn [tfp_loop]. rewrite (rd_ok v i Hv) by lia. cbn [rbind].
    rewrite (skipn_cons_zth (vchars v) i) by (rewrite (len_vchars v Hv); lia).
    cbn [scan_list]. destruct (zth (vchars v) i =? 0); [reflexivity|].
    destruct (isspace_c (zth (vchars v) i) && leading); [apply IH; [assumption|lia|lia]|].
    destruct (isdigit_c (zth (vchars v) i) || (zth (vchars v) i =? 46)); [apply IH; [assumption|lia|lia]|reflexivity].
Qed.

(* the list-level loop against the declarative specification *)
Lemma scan_list_nonleading : forall l i,
  scan_list l i false =
  if forallb (fun c => isdigit_c c || (c =? 46)) (upto_nul l) then (0, i + Z.of_nat (length (upto_nul l))) else (1, 0).
Proof.
  induction l as [|c t IH]; intros i; cbn [scan_list upto_nul].
  - cbn [forallb length]. f_equal. lia.
  - destruct (c =? 0) eqn:E0; [cbn [forallb length]; f_equal; lia|].
    rewrite andb_false_r. cbn [forallb length].
    destruct (isdigit_c c || (c =? 46)) eqn:Ed; cbn [andb]; [|reflexivity].
    rewrite IH. destruct (forallb _ (upto_nul t)); [f_equal; lia|reflexivity].
Qed.

Lemma scan_list_leading : forall l i,
  scan_list l i true =
  if forallb (fun c => isdigit_c c || (c =? 46)) (drop_spaces (upto_nul l))
  then (0, i + Z.of_nat (length (upto_nul l))) else (1, 0).
Proof.
  induction l as [|c t IH]; intros i; cbn [scan_list upto_nul].
  - cbn [drop_spaces forallb length]. f_equal. lia.
  - destruct (c =? 0) eqn:E0; [cbn [drop_spaces forallb length]; f_equal; lia|].
    rewrite andb_true_r. cbn [drop_spaces length].
    destruct (isspace_c c) eqn:Es.
    + rewrite IH. destruct (forallb _ (drop_spaces (upto_nul t))); [f_equal; lia|reflexivity].
    + cbn [forallb]. destruct (isdigit_c c || (c =? 46)) eqn:Ed; cbn [andb]; [|reflexivity].
      rewrite scan_list_nonleading. destruct (forallb _ (upto_nul t)); [f_equal; lia|reflexivity].
Qed.

Theorem tfp_scan_correct : forall v, view_ok v -> tfp_scan v = Ok (tfp_spec (vchars v)).
Proof.
  intros v Hv. unfold tfp_scan. rewrite (loop_is_scan_list _ v 0 true Hv) by (destruct Hv as (_ & H & _); lia).
  cbn [Z.to_nat skipn]. rewrite scan_list_leading. unfold tfp_spec. cbn [Z.add].
  destruct (forallb _ _); reflexivity.
Qed.

(* the end pointer stays inside [begin, begin + size] *)
Theorem tfp_end_in_view : forall v, view_ok v -> 0 <= snd (tfp_spec (vchars v)) <= vlen v.
Proof.
  intros v Hv. unfold tfp_spec. destruct (forallb _ _); cbn [snd]; [|destruct Hv as (_ & H & _); lia].
  assert (L : forall l, (length (upto_nul l) <= length l)%nat).
  { induction l as [|c t IH]; cbn [upto_nul length]; [lia|]. destruct (c =? 0); cbn [length]; lia. }
  pose proof (L (vchars v)) as Hl. pose proof (len_vchars v Hv) as Hv'. unfold len in Hv'. lia.
Qed.

(* before the fix: a view of "12" inside the allocation "1234" — the third read is outside the view *)
Theorem tfp_prefix_reads_past_view :
  let v := mkview [49; 50; 51; 52] 0 2 in
  view_ok v /\ tfp_scan_prefix v = UB OutOfBounds /\ tfp_scan v = Ok (0, 2).
Proof. cbv zeta. split; [unfold view_ok, len; cbn; lia|]. split; vm_compute; reflexivity. Qed.
