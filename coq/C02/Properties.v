(* C02 — valid use never leaves the caller's memory, never allocates, never hits UB.
   Own legs: default-initialised objects.  The component theorems are collected in Properties_components.v. *)
From Tetl Require Import Lib.Base C02.Model.
Local Open Scope Z_scope.

(* every modelled object kind except inplace_vector reads an initialised size member after
   default-initialisation and reports size 0 *)
Theorem C02_default_init_reads_initialised : forall o,
  o <> InplaceVectorTrivial -> o <> InplaceVectorNonTrivial -> default_size o = Ok 0.
Proof. intros o H1 H2. destruct o; try reflexivity; contradiction. Qed.
Print Assumptions C02_default_init_reads_initialised.

(* recorded finding: the size member of inplace_vector has no initialiser *)
Theorem C02_inplace_vector_default_init_refuted : exists o, default_size o = UB UninitRead.
Proof. exists InplaceVectorTrivial. reflexivity. Qed.
Print Assumptions C02_inplace_vector_default_init_refuted.
