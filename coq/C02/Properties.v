(* C02 — valid use never leaves the caller's memory, never allocates, never hits UB.
   Own legs: default-initialised objects (C02/Model.v), to_floating_point (C02/ModelFp.v), from_floating_point
   (C02/ModelFf.v).  The property statement for mixed programs over the container families is Properties_program.v; the
   component theorems are collected in Properties_containers.v, Properties_strings.v, Properties_algorithms.v,
   Properties_arith.v, Properties_wrappers.v. *)
From Tetl Require Import Lib.Base C02.Model.
From Tetl Require C08.Model C08.Spec C08.Core C08.ProofsPtr C08.Properties C02.ModelFp C02.ProofsFp C02.ModelFf C02.ProofsFf.
Local Open Scope Z_scope.

(* every modelled object kind except inplace_vector reads only initialised members after default-initialisation
   and is in the empty state the standard prescribes for a default-constructed object (23 kinds: vectors, strings in
   both layouts, views, sets, stack, optional / variant / expected, bitset, inplace_function, pair, tuple, extents,
   mdspan, duration); the 0xFF-poisoned observation of the harness is then that state *)
Theorem C02_default_init_reads_initialised : forall o,
  o <> InplaceVectorTrivial -> o <> InplaceVectorNonTrivial -> (forall c, o <> InplaceVectorCap c) ->
  default_obs o = Ok (empty_state o) /\ default_obs_poisoned o = empty_state o /\ default_size o = Ok (hd 0 (empty_state o)).
Proof. intros o H1 H2 H3. destruct o; try (repeat split; reflexivity); try contradiction. exfalso. exact (H3 capacity eq_refl). Qed.
Print Assumptions C02_default_init_reads_initialised.

(* recorded finding: the size member of inplace_vector has no initialiser (a repair would make the default
   constructor non-trivial, which tests/inplace_vector pins through etl::is_trivially_copy_constructible) *)
Theorem C02_inplace_vector_default_init_refuted :
  (exists o, default_obs o = UB UninitRead /\ default_size o = UB UninitRead /\ default_obs_poisoned o <> empty_state o) /\
  (* at EVERY capacity; over 0xFF-filled storage the size reads as the largest value of smallest_size_t<Capacity> *)
  (forall c, default_obs (InplaceVectorCap c) = UB UninitRead /\
             default_obs_poisoned (InplaceVectorCap c) = [2 ^ C01.Model.size_bits c - 1; 0]).
Proof.
  split; [exists InplaceVectorTrivial; repeat split; try reflexivity; vm_compute; discriminate|].
  intros c. split; [reflexivity|]. unfold default_obs_poisoned. cbn [members shape_of map read_poisoned present].
  assert (H : 2 ^ C01.Model.size_bits c - 1 =? 0 = false).
  { unfold C01.Model.size_bits. destruct (c <? 255); [reflexivity|]. destruct (c <? 65535); [reflexivity|].
    destruct (c <? 4294967295); reflexivity. }
  rewrite H. reflexivity.
Qed.
Print Assumptions C02_inplace_vector_default_init_refuted.

(* to_floating_point (on which strtod / strtof / strtold / atof / stof / stod / stold are built), as repaired by
   b99fc94: for EVERY view inside its allocation — empty, not null-terminated, flush against the end of the allocation —
   the scan reads only characters of the view (the model's reads are checked: UB OutOfBounds outside the view),
   returns the specified (error, end) and the end pointer stays inside [data(), data() + size()].  The accumulated
   floating-point value is outside the model. *)
Theorem C02_to_floating_point_reads_inside : forall v, C08.Core.view_ok v ->
  C02.ModelFp.tfp_scan v = Ok (C02.ModelFp.tfp_spec (C08.Core.vchars v)) /\
  0 <= snd (C02.ModelFp.tfp_spec (C08.Core.vchars v)) <= C08.Model.vlen v.
Proof. intros v H. split; [exact (C02.ProofsFp.tfp_scan_correct v H)|exact (C02.ProofsFp.tfp_end_in_view v H)]. Qed.
Print Assumptions C02_to_floating_point_reads_inside.

(* strtod / strtof / strtold / atof (char const* str): the view is built by Traits::length, which stops at the
   terminator (C08), and the scan then stays inside it: for EVERY array holding a null character nothing behind the
   terminator is read *)
Theorem C02_strtod_reads_inside : forall a, C08.ProofsPtr.cstr_ok a ->
  exists n, C08.Model.cstr_view a = Ok n /\ C08.Core.view_ok n /\
            C02.ModelFp.tfp_scan n = Ok (C02.ModelFp.tfp_spec (C08.Spec.cstr_s (C08.Core.vchars a))).
Proof.
  intros a H. destruct (C08.Properties.C08_cstr_view a H) as (n & E & V & C). exists n. split; [exact E|]. split; [exact V|].
  rewrite <- C. exact (C02.ProofsFp.tfp_scan_correct n V).
Qed.
Print Assumptions C02_strtod_reads_inside.

(* the loop as it was before the fix (bounded by a null character only) reads outside the view: "12" inside "1234" *)
Theorem C02_to_floating_point_prefix_refuted :
  let v := C08.Model.mkview [49; 50; 51; 52] 0 2 in
  C08.Core.view_ok v /\ C02.ModelFp.tfp_scan_prefix v = UB OutOfBounds /\ C02.ModelFp.tfp_scan v = Ok (0, 2).
Proof. exact C02.ProofsFp.tfp_prefix_reads_past_view. Qed.
Print Assumptions C02_to_floating_point_prefix_refuted.

(* from_floating_point(val, span<char> out, precision), as repaired by ac8c962: for EVERY span length (0, too small,
   exact fit, larger), every non-negative integer part and fraction part below 2^63 (the float -> integer conversions
   are outside the model) and every precision >= 0, every store stays inside the span (the model's stores are checked:
   UB OutOfBounds outside the span); overflow is reported, with the span untouched, exactly when text + terminator do
   not fit *)
Theorem C02_from_floating_point_writes_inside : forall whole part precision buf, 0 <= whole -> 0 <= part -> 0 <= precision ->
  exists b err e, C02.ModelFf.ffp_m whole part precision buf = Ok (b, err, e) /\ length b = length buf /\
    match C02.ModelFf.ffp_text whole part precision with
    | Some txt => err = (if (length txt + 1 <=? length buf)%nat then 0 else 1) /\ (err = 1 -> b = buf)
    | None => False
    end.
Proof. exact C02.ProofsFf.ffp_never_out_of_span. Qed.
Print Assumptions C02_from_floating_point_writes_inside.

(* ... and when they fit: exactly the text (integer digits, '.', fraction digits padded to the precision) and its
   terminator are written, the rest of the span is untouched, end points at the decimal point (null for precision 0) *)
Theorem C02_from_floating_point_text : forall whole part precision buf txt w, 0 <= whole -> 0 <= part -> 0 <= precision ->
  C02.ModelFf.ffp_text whole part precision = Some txt -> C02.ModelFf.to_string_chars whole 0 = Some w ->
  (length txt + 1 <= length buf)%nat ->
  C02.ModelFf.ffp_m whole part precision buf
  = Ok (txt ++ 0 :: skipn (length txt + 1) buf, 0, if precision =? 0 then None else Some (Z.of_nat (length w))).
Proof. exact C02.ProofsFf.ffp_writes_text. Qed.
Print Assumptions C02_from_floating_point_text.

(* the function as it was before the fix never looked at out.size(): 233.007, precision 3, span of one character *)
Theorem C02_from_floating_point_prefix_refuted :
  C02.ModelFf.ffp_prefix 233 7 3 [120] = UB OutOfBounds /\ C02.ModelFf.ffp_m 233 7 3 [120] = Ok ([120], 1, Some 0)
  /\ C02.ModelFf.ffp_m 233 7 3 [1; 1; 1; 1; 1; 1; 1; 1] = Ok ([50; 51; 51; 46; 48; 48; 55; 0], 0, Some 3).
Proof. exact C02.ProofsFf.ffp_prefix_writes_past_span. Qed.
Print Assumptions C02_from_floating_point_prefix_refuted.

Example C02_nonvacuous :
  length all_objs = 23%nat /\ In Variant all_objs /\ Variant <> InplaceVectorTrivial /\ Variant <> InplaceVectorNonTrivial /\
  default_obs Variant = Ok [0; 0] /\ default_obs_poisoned InplaceVectorNonTrivial = [255; 0].
Proof. repeat split; try reflexivity; try discriminate. vm_compute. tauto. Qed.

(* ---- alignment: "no undefined behaviour" includes that an element is only ever created / accessed at an address that is a
   multiple of alignof(T).  Model: C02/ModelAlign.v (the data-member declarations of the library's in-object storages under
   the C++ object layout rules); the correspondence run (props/C02/align.cpp) compares alignof / sizeof / slot offsets /
   placement offsets of the compiled containers with this model and places them at the least aligned legal addresses, also
   under -fsanitize=alignment. *)
From Tetl Require Import C02.ModelAlign C02.ProofsAlign.

(* For EVERY storage family of the library (static_vector and inplace_vector in both storages, uninitialized_array in both
   specialisations, aligned_storage, aligned_union, optional, variant, expected (value and error), inplace_function with
   explicit and default Alignment), every element type (any size > 0 that is a multiple of its alignment 2^k: ordinary and
   over-aligned), every capacity and every address [base] the container may legally have (a multiple of ITS alignment,
   which is computed from the member declarations): every slot i is inside the object and at a multiple of alignof(T) --
   the access is [Aligned], never [Misaligned] / [Outside] -- and the container is at least as aligned as its elements.
   Second conjunct: the small general theorem behind it (over base address, slot size, index): a slot array that lives in a
   data member at least as aligned as the element type, with aligned inner offset and stride, inside that member, of an
   object at a multiple of the object's own alignment. *)
Theorem C02_element_slots_aligned :
  (forall f e n base i, elem_wf e -> family_ok f e n ->
     base mod al (st_al (storage_of f e n)) = 0 -> 0 <= i < st_count (storage_of f e n) ->
     (access_slot (storage_of f e n) e base i = Aligned (slot_addr (storage_of f e n) base i) /\
      slot_addr (storage_of f e n) base i mod al (e_al e) = 0 /\
      base <= slot_addr (storage_of f e n) base i /\
      slot_addr (storage_of f e n) base i + e_size e <= base + st_size (storage_of f e n)) /\
     (e_al e <= st_al (storage_of f e n))%nat /\ al (st_al (storage_of f e n)) mod al (e_al e) = 0) /\
  (forall s e base i m,
     elem_wf e -> nonneg (st_members s) -> nth_error (st_members s) (st_slot s) = Some m ->
     (e_al e <= m_al m)%nat -> 0 <= st_inner s -> st_inner s mod al (e_al e) = 0 -> st_stride s mod al (e_al e) = 0 ->
     e_size e <= st_stride s -> st_inner s + st_count s * st_stride s <= m_size m ->
     base mod al (st_al s) = 0 -> 0 <= i < st_count s ->
     access_slot s e base i = Aligned (slot_addr s base i) /\ slot_addr s base i mod al (e_al e) = 0 /\
     base <= slot_addr s base i /\ slot_addr s base i + e_size e <= base + st_size s).
Proof.
  split; [|exact access_aligned].
  intros f e n base i We Hf Hb Hi. split; [exact (storage_of_aligned f e n base i We Hf Hb Hi)|].
  split; [exact (storage_of_al f e n Hf)|exact (al_mod_al _ _ (storage_of_al f e n Hf))].
Qed.
Print Assumptions C02_element_slots_aligned.

(* What the correspondence run observes is what the specification says, for every family / element type / capacity and
   every placement of the battery (behind a char, array elements, at arena + alignof(V), second member behind a char,
   pair::second, etl::array element, nested in inplace_vector / optional / static_vector): all placements are legal
   addresses for V, no slot is misaligned or outside.  aligned_storage_t<Len> (default alignment): every fundamental type
   that fits into Len is at most as aligned as the storage. *)
Theorem C02_alignment_observations_meet_spec :
  (forall f e n p, elem_wf e -> family_ok f e n -> (forall k, p = PArrayElem k -> 0 <= k) -> fst (align_obs f e n p) = align_spec) /\
  (forall p v, 0 < m_size v -> m_size v mod al (m_al v) = 0 -> (forall k, p = PArrayElem k -> 0 <= k) -> placement_offset p v mod al (m_al v) = 0) /\
  (forall len, fst (asdef_obs len) = 0 /\ (forall f, In f fundamental -> fst f <= len -> (snd f <= as_default_al len)%nat)).
Proof. split; [exact align_obs_spec|split; [exact placement_legal|exact asdef_spec]]. Qed.
Print Assumptions C02_alignment_observations_meet_spec.

(* The model does not have the property by construction: the byte array of uninitialized_array WITHOUT its alignas(T)
   gives inplace_vector<T, N> alignment 1; address 1 is then a legal address of the vector and slot 0 is misaligned;
   behind a char all three slots are (observation [1; 3; 0]); with the alignas the same placement observes [0; 0; 0]. *)
Theorem C02_missing_alignas_refuted :
  let e := Elem 8 3 in
  elem_wf e /\ st_al (storage_iv_no_alignas e 3) = 0%nat /\ 1 mod al (st_al (storage_iv_no_alignas e 3)) = 0 /\
  access_slot (storage_iv_no_alignas e 3) e 1 0 = Misaligned 1 /\
  fst (observe (storage_iv_no_alignas e 3) e PBehindChar) = [1; 3; 0] /\
  fst (observe (storage_of (FInplaceVector false) e 3) e PBehindChar) = [0; 0; 0].
Proof. exact no_alignas_misaligned. Qed.
Print Assumptions C02_missing_alignas_refuted.

Example C02_align_nonvacuous :
  elem_wf (Elem 32 5) /\ family_ok (FInplaceVector false) (Elem 32 5) 3 /\ family_ok (FInplaceFunction false) (Elem 16 4) 1 /\
  32 mod al (st_al (storage_of (FInplaceVector false) (Elem 32 5) 3)) = 0 /\
  access_slot (storage_of (FInplaceVector false) (Elem 32 5) 3) (Elem 32 5) 32 2 = Aligned 96.
Proof. vm_compute. repeat split; try reflexivity; try discriminate; try lia. Qed.

(* ---- span sub-views and the exception path of the uninitialized_* algorithms (coq/C02/ModelSub.v) ---- *)
From Tetl Require C02.ModelSub C02.ProofsSub.

(* subspan<Offset, Count>(), first<Count>(), last<Count>() and their run-time forms, on a parent span<T, n> (static) or
   span<T> of size n (dynamic) at ANY address, for EVERY Offset / Count of the documented domain, with and without contract
   checks: the call returns (no precondition fires: not that of span(It, count) either), the result views exactly the
   elements [span.sub] names, all of them elements of the parent (outside = 0), and the extent of its type is
   dynamic_extent or equals its size() (a static-extent span ignores the size it is constructed with). *)
Theorem C02_span_subviews_inside_parent : forall k static base n off cnt checks,
  ModelSub.sub_dom k n off cnt ->
  exists r, ModelSub.sub_run checks k (ModelSub.parent static base n) off cnt = Ok r /\
    ModelSub.sub_obs (ModelSub.parent static base n) r = ModelSub.sub_spec k static n off cnt /\
    ModelSub.s_data (ModelSub.parent static base n) <= ModelSub.s_data r /\
    ModelSub.s_data r + ModelSub.size r <= ModelSub.s_data (ModelSub.parent static base n) + ModelSub.size (ModelSub.parent static base n) /\
    0 <= ModelSub.size r /\
    (ModelSub.s_ext r = ModelSub.dyn \/ ModelSub.s_ext r = ModelSub.size r) /\
    ModelSub.outside (ModelSub.parent static base n) r = 0.
Proof. exact ProofsSub.sub_run_good. Qed.
Print Assumptions C02_span_subviews_inside_parent.

(* The model does not have this by construction: with detail::subspan_extent lacking its branch for a static parent extent,
   subspan<Offset>() (Offset > 0) of EVERY static-extent span stops at the span(It, count) precondition when the checks are
   compiled in, and otherwise has size() n at data() + Offset: Offset elements behind the parent. *)
Theorem C02_subspan_extent_without_static_branch_refuted : forall base n off, 0 < off <= n ->
  ModelSub.subspan_gen ModelSub.subspan_extent_no_static_branch true (ModelSub.parent true base n) off ModelSub.dyn = Contract /\
  exists r, ModelSub.subspan_gen ModelSub.subspan_extent_no_static_branch false (ModelSub.parent true base n) off ModelSub.dyn = Ok r /\
            ModelSub.size r = n /\ ModelSub.s_data r = base + off /\ ModelSub.outside (ModelSub.parent true base n) r = off.
Proof. exact ProofsSub.no_static_branch_escapes. Qed.
Print Assumptions C02_subspan_extent_without_static_branch_refuted.

(* uninitialized_copy / uninitialized_move / uninitialized_fill over n destination slots when the construction of slot t
   throws (t >= n: none does): the events are those of the specification (slots 0..t-1 constructed in order, then exactly
   those destroyed), every constructor runs on raw storage and every destructor on a live object, and afterwards all n slots
   hold an object (no throw) or none does (throw).  For every n and t. *)
Theorem C02_uninitialized_exception_path_safe : forall n t,
  ModelSub.uninit_run n t = ModelSub.uninit_spec n t /\
  ModelSub.replay (fst (fst (ModelSub.uninit_run n t))) (repeat false n) = Ok (repeat (negb (Nat.ltb t n)) n).
Proof. intros n t. split; [exact (ProofsSub.uninit_run_spec n t)|exact (ProofsSub.uninit_run_safe n t)]. Qed.
Print Assumptions C02_uninitialized_exception_path_safe.

(* Not by construction: with the destination advanced inside the construct call (`addressof( *current++)`) the catch block
   runs the destructor on the slot whose constructor threw, for every n and every throwing slot. *)
Theorem C02_uninitialized_advance_inside_refuted : forall n t, (t < n)%nat ->
  ModelSub.replay (fst (fst (ModelSub.uninit_gen true n t))) (repeat false n) = UB UninitRead.
Proof. exact ProofsSub.advance_inside_destroys_dead_slot. Qed.
Print Assumptions C02_uninitialized_advance_inside_refuted.

Example C02_sub_nonvacuous :
  ModelSub.sub_dom ModelSub.KSub 4 2 ModelSub.dyn /\
  ModelSub.sub_run true ModelSub.KSub (ModelSub.parent true 10 4) 2 ModelSub.dyn = Ok (ModelSub.Build_span 12 2 2) /\
  ModelSub.uninit_run 3 1 = ([ModelSub.Construct 0; ModelSub.Throw 1; ModelSub.Destroy 0], true, 1%nat).
Proof. unfold ModelSub.sub_dom, ModelSub.dyn. repeat split; try reflexivity; try lia. Qed.
