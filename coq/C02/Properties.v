(* C02 — valid use never leaves the caller's memory, never allocates, never hits UB.
   Own legs: default-initialised objects (C02/Model.v).  The component theorems are collected in
   Properties_containers.v, Properties_strings.v, Properties_algorithms.v, Properties_arith.v, Properties_wrappers.v. *)
From Tetl Require Import Lib.Base C02.Model.
Local Open Scope Z_scope.

(* every modelled object kind except inplace_vector reads only initialised members after default-initialisation
   and is in the empty state the standard prescribes for a default-constructed object (23 kinds: vectors, strings in
   both layouts, views, sets, stack, optional / variant / expected, bitset, inplace_function, pair, tuple, extents,
   mdspan, duration); the 0xFF-poisoned observation of the harness is then that state *)
Theorem C02_default_init_reads_initialised : forall o,
  o <> InplaceVectorTrivial -> o <> InplaceVectorNonTrivial ->
  default_obs o = Ok (empty_state o) /\ default_obs_poisoned o = empty_state o /\ default_size o = Ok (hd 0 (empty_state o)).
Proof. intros o H1 H2. destruct o; try (repeat split; reflexivity); contradiction. Qed.
Print Assumptions C02_default_init_reads_initialised.

(* recorded finding: the size member of inplace_vector has no initialiser (a repair would make the default
   constructor non-trivial, which tests/inplace_vector pins through etl::is_trivially_copy_constructible) *)
Theorem C02_inplace_vector_default_init_refuted :
  exists o, default_obs o = UB UninitRead /\ default_size o = UB UninitRead /\ default_obs_poisoned o <> empty_state o.
Proof. exists InplaceVectorTrivial. repeat split; try reflexivity. vm_compute. discriminate. Qed.
Print Assumptions C02_inplace_vector_default_init_refuted.

Example C02_nonvacuous :
  length all_objs = 23%nat /\ In Variant all_objs /\ Variant <> InplaceVectorTrivial /\ Variant <> InplaceVectorNonTrivial /\
  default_obs Variant = Ok [0; 0] /\ default_obs_poisoned InplaceVectorNonTrivial = [255; 0].
Proof. repeat split; try reflexivity; try discriminate. vm_compute. tauto. Qed.
