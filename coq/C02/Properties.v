(* C02 — valid use never leaves the caller's memory, never allocates, never hits UB.
   Own legs: default-initialised objects (C02/Model.v), to_floating_point (C02/ModelFp.v), from_floating_point
   (C02/ModelFf.v).  The property statement for mixed programs over the container families is Properties_program.v; the
   component theorems are collected in Properties_containers.v, Properties_strings.v, Properties_algorithms.v,
   Properties_arith.v, Properties_wrappers.v. *)
From Tetl Require Import Lib.Base C02.Model.
From Tetl Require C08.Model C08.Spec C08.Core C08.ProofsPtr C08.Properties C02.ModelFp C02.ProofsFp C02.ModelFf C02.ProofsFf.
Local Open Scope Z_scope.

(* every modelled object kind except inplace_vector reads only initialised members after default-initialisation
   and is in the empty state the standard prescribes for a default-constructed object (23 kinds: vectors, strings in
   both layouts, views, sets, stack, optional / variant / expected, bitset, inplace_function, pair, tuple, extents,
   mdspan, duration); the 0xFF-poisoned observation of the harness is then that state *)
Theorem C02_default_init_reads_initialised : forall o,
  o <> InplaceVectorTrivial -> o <> InplaceVectorNonTrivial -> (forall c, o <> InplaceVectorCap c) ->
  default_obs o = Ok (empty_state o) /\ default_obs_poisoned o = empty_state o /\ default_size o = Ok (hd 0 (empty_state o)).
Proof. intros o H1 H2 H3. destruct o; try (repeat split; reflexivity); try contradiction. exfalso. exact (H3 capacity eq_refl). Qed.
Print Assumptions C02_default_init_reads_initialised.

(* recorded finding: the size member of inplace_vector has no initialiser (a repair would make the default
   constructor non-trivial, which tests/inplace_vector pins through etl::is_trivially_copy_constructible) *)
Theorem C02_inplace_vector_default_init_refuted :
  (exists o, default_obs o = UB UninitRead /\ default_size o = UB UninitRead /\ default_obs_poisoned o <> empty_state o) /\
  (* at EVERY capacity; over 0xFF-filled storage the size reads as the largest value of smallest_size_t<Capacity> *)
  (forall c, default_obs (InplaceVectorCap c) = UB UninitRead /\
             default_obs_poisoned (InplaceVectorCap c) = [2 ^ C01.Model.size_bits c - 1; 0]).
Proof.
  split; [exists InplaceVectorTrivial; repeat split; try reflexivity; vm_compute; discriminate|].
  intros c. split; [reflexivity|]. unfold default_obs_poisoned. cbn [members shape_of map read_poisoned present].
  assert (H : 2 ^ C01.Model.size_bits c - 1 =? 0 = false).
  { unfold C01.Model.size_bits. destruct (c <? 255); [reflexivity|]. destruct (c <? 65535); [reflexivity|].
    destruct (c <? 4294967295); reflexivity. }
  rewrite H. reflexivity.
Qed.
Print Assumptions C02_inplace_vector_default_init_refuted.

(* to_floating_point (on which strtod / strtof / strtold / atof / stof / stod / stold are built), as repaired by
   b99fc94: for EVERY view inside its allocation — empty, not null-terminated, flush against the end of the allocation —
   the scan reads only characters of the view (the model's reads are checked: UB OutOfBounds outside the view),
   returns the specified (error, end) and the end pointer stays inside [data(), data() + size()].  The accumulated
   floating-point value is outside the model. *)
Theorem C02_to_floating_point_reads_inside : forall v, C08.Core.view_ok v ->
  C02.ModelFp.tfp_scan v = Ok (C02.ModelFp.tfp_spec (C08.Core.vchars v)) /\
  0 <= snd (C02.ModelFp.tfp_spec (C08.Core.vchars v)) <= C08.Model.vlen v.
Proof. intros v H. split; [exact (C02.ProofsFp.tfp_scan_correct v H)|exact (C02.ProofsFp.tfp_end_in_view v H)]. Qed.
Print Assumptions C02_to_floating_point_reads_inside.

(* strtod / strtof / strtold / atof (char const* str): the view is built by Traits::length, which stops at the
   terminator (C08), and the scan then stays inside it: for EVERY array holding a null character nothing behind the
   terminator is read *)
Theorem C02_strtod_reads_inside : forall a, C08.ProofsPtr.cstr_ok a ->
  exists n, C08.Model.cstr_view a = Ok n /\ C08.Core.view_ok n /\
            C02.ModelFp.tfp_scan n = Ok (C02.ModelFp.tfp_spec (C08.Spec.cstr_s (C08.Core.vchars a))).
Proof.
  intros a H. destruct (C08.Properties.C08_cstr_view a H) as (n & E & V & C). exists n. split; [exact E|]. split; [exact V|].
  rewrite <- C. exact (C02.ProofsFp.tfp_scan_correct n V).
Qed.
Print Assumptions C02_strtod_reads_inside.

(* the loop as it was before the fix (bounded by a null character only) reads outside the view: "12" inside "1234" *)
Theorem C02_to_floating_point_prefix_refuted :
  let v := C08.Model.mkview [49; 50; 51; 52] 0 2 in
  C08.Core.view_ok v /\ C02.ModelFp.tfp_scan_prefix v = UB OutOfBounds /\ C02.ModelFp.tfp_scan v = Ok (0, 2).
Proof. exact C02.ProofsFp.tfp_prefix_reads_past_view. Qed.
Print Assumptions C02_to_floating_point_prefix_refuted.

(* from_floating_point(val, span<char> out, precision), as repaired by ac8c962: for EVERY span length (0, too small,
   exact fit, larger), every non-negative integer part and fraction part below 2^63 (the float -> integer conversions
   are outside the model) and every precision >= 0, every store stays inside the span (the model's stores are checked:
   UB OutOfBounds outside the span); overflow is reported, with the span untouched, exactly when text + terminator do
   not fit *)
Theorem C02_from_floating_point_writes_inside : forall whole part precision buf, 0 <= whole -> 0 <= part -> 0 <= precision ->
  exists b err e, C02.ModelFf.ffp_m whole part precision buf = Ok (b, err, e) /\ length b = length buf /\
    match C02.ModelFf.ffp_text whole part precision with
    | Some txt => err = (if (length txt + 1 <=? length buf)%nat then 0 else 1) /\ (err = 1 -> b = buf)
    | None => False
    end.
Proof. exact C02.ProofsFf.ffp_never_out_of_span. Qed.
Print Assumptions C02_from_floating_point_writes_inside.

(* ... and when they fit: exactly the text (integer digits, '.', fraction digits padded to the precision) and its
   terminator are written, the rest of the span is untouched, end points at the decimal point (null for precision 0) *)
Theorem C02_from_floating_point_text : forall whole part precision buf txt w, 0 <= whole -> 0 <= part -> 0 <= precision ->
  C02.ModelFf.ffp_text whole part precision = Some txt -> C02.ModelFf.to_string_chars whole 0 = Some w ->
  (length txt + 1 <= length buf)%nat ->
  C02.ModelFf.ffp_m whole part precision buf
  = Ok (txt ++ 0 :: skipn (length txt + 1) buf, 0, if precision =? 0 then None else Some (Z.of_nat (length w))).
Proof. exact C02.ProofsFf.ffp_writes_text. Qed.
Print Assumptions C02_from_floating_point_text.

(* the function as it was before the fix never looked at out.size(): 233.007, precision 3, span of one character *)
Theorem C02_from_floating_point_prefix_refuted :
  C02.ModelFf.ffp_prefix 233 7 3 [120] = UB OutOfBounds /\ C02.ModelFf.ffp_m 233 7 3 [120] = Ok ([120], 1, Some 0)
  /\ C02.ModelFf.ffp_m 233 7 3 [1; 1; 1; 1; 1; 1; 1; 1] = Ok ([50; 51; 51; 46; 48; 48; 55; 0], 0, Some 3).
Proof. exact C02.ProofsFf.ffp_prefix_writes_past_span. Qed.
Print Assumptions C02_from_floating_point_prefix_refuted.

Example C02_nonvacuous :
  length all_objs = 23%nat /\ In Variant all_objs /\ Variant <> InplaceVectorTrivial /\ Variant <> InplaceVectorNonTrivial /\
  default_obs Variant = Ok [0; 0] /\ default_obs_poisoned InplaceVectorNonTrivial = [255; 0].
Proof. repeat split; try reflexivity; try discriminate. vm_compute. tauto. Qed.
