(* C02 (alignment leg) proofs: every element slot of every in-object storage of the library is suitably aligned and inside
   the object, wherever the object is legally placed. *)
From Tetl Require Import Lib.Base C02.ModelAlign.
Local Open Scope Z_scope.
Ltac Zify.zify_post_hook ::= Z.to_euclidean_division_equations.

Lemma al_pos : forall k, 0 < al k.
Proof. intros k. unfold al. apply Z.pow_pos_nonneg; lia. Qed.

Lemma al_divide : forall j k, (j <= k)%nat -> (al j | al k).
Proof.
  intros j k H. unfold al. exists (2 ^ (Z.of_nat k - Z.of_nat j)).
  rewrite <- Z.pow_add_r by lia. f_equal. lia.
Qed.

Lemma mod0_divide : forall x a, 0 < a -> (x mod a = 0 <-> (a | x)).
Proof. intros x a H. apply Z.mod_divide. lia. Qed.

Lemma round_up_mod : forall x a, 0 < a -> round_up x a mod a = 0.
Proof. intros x a H. unfold round_up. apply Z.mod_mul. lia. Qed.

Lemma round_up_ge : forall x a, 0 < a -> x <= round_up x a.
Proof. intros x a H. unfold round_up. pose proof (Z.div_mod (x + a - 1) a ltac:(lia)) as E. pose proof (Z.mod_pos_bound (x + a - 1) a H) as B. lia. Qed.

Lemma round_up_exact : forall x a, 0 < a -> x mod a = 0 -> round_up x a = x.
Proof.
  intros x a H E. unfold round_up. apply mod0_divide in E; [|exact H]. destruct E as [q ->].
  replace (q * a + a - 1) with (q * a + (a - 1)) by lia. rewrite Z.add_comm, Z.div_add by lia. rewrite Z.div_small by lia. lia.
Qed.

Definition nonneg (ms : list member) : Prop := Forall (fun m => 0 <= m_size m) ms.

Lemma offsets_facts : forall ms cur k m, nonneg ms -> 0 <= cur -> nth_error ms k = Some m ->
  let o := nth k (offsets_from cur ms) 0 in
  o mod al (m_al m) = 0 /\ cur <= o /\ o + m_size m <= end_from cur ms.
Proof.
  induction ms as [|h t IH]; intros cur k m Hn Hc Hk; [destruct k; discriminate|].
  inversion Hn as [|? ? Hh Ht]; subst.
  assert (Hend : forall c l, nonneg l -> 0 <= c -> c <= end_from c l).
  { intros c l. revert c. induction l as [|x l IHl]; intros c Hl Hc0; cbn [end_from]; [lia|].
    inversion Hl as [|? ? Hx Hl']; subst. pose proof (round_up_ge c (al (m_al x)) (al_pos _)) as G.
    specialize (IHl (round_up c (al (m_al x)) + m_size x) Hl' ltac:(lia)). lia. }
  pose proof (round_up_ge cur (al (m_al h)) (al_pos _)) as G.
  destruct k as [|k]; cbn [nth_error] in Hk.
  - injection Hk as <-. cbn [offsets_from nth end_from]. split; [apply round_up_mod, al_pos|]. split; [exact G|].
    apply Hend; [exact Ht|lia].
  - cbn [offsets_from nth end_from]. destruct (IH (round_up cur (al (m_al h)) + m_size h) k m Ht ltac:(lia) Hk) as (A & B & C).
    split; [exact A|]. split; [lia|exact C].
Qed.

Lemma class_al_ge : forall ms k m, nth_error ms k = Some m -> (m_al m <= class_al ms)%nat.
Proof.
  induction ms as [|h t IH]; intros k m Hk; [destruct k; discriminate|]. destruct k as [|k]; cbn [nth_error] in Hk; cbn [class_al].
  - injection Hk as <-. lia.
  - specialize (IH k m Hk). lia.
Qed.

(* the general statement: a slot array held in a member that is at least as aligned as the element type, with aligned
   inner offset and stride, inside that member *)
Lemma access_aligned : forall s e base i m,
  elem_wf e -> nonneg (st_members s) -> nth_error (st_members s) (st_slot s) = Some m ->
  (e_al e <= m_al m)%nat -> 0 <= st_inner s -> st_inner s mod al (e_al e) = 0 -> st_stride s mod al (e_al e) = 0 ->
  e_size e <= st_stride s -> st_inner s + st_count s * st_stride s <= m_size m ->
  base mod al (st_al s) = 0 -> 0 <= i < st_count s ->
  access_slot s e base i = Aligned (slot_addr s base i) /\ slot_addr s base i mod al (e_al e) = 0 /\
  base <= slot_addr s base i /\ slot_addr s base i + e_size e <= base + st_size s.
Proof.
  intros s e base i m [Hs Hsa] Hn Hk Hal Hin Hinm Hstr Hle Hfit Hb Hi.
  destruct (offsets_facts (st_members s) 0 (st_slot s) m Hn ltac:(lia) Hk) as (Ho & Ho0 & Hoe).
  fold (offset_of (st_members s) (st_slot s)) in Ho, Ho0, Hoe.
  pose proof (class_al_ge _ _ _ Hk) as Hc. fold (st_al s) in Hc.
  pose proof (al_pos (e_al e)) as Pe. pose proof (al_pos (m_al m)) as Pm. pose proof (al_pos (st_al s)) as Ps.
  assert (Hdiv : (al (e_al e) | slot_addr s base i)).
  { unfold slot_addr, st_off. apply Z.divide_add_r; [apply Z.divide_add_r; [|apply Z.divide_add_r]|].
    - apply Z.divide_trans with (al (st_al s)); [apply al_divide; lia|apply mod0_divide; assumption].
    - apply Z.divide_trans with (al (m_al m)); [apply al_divide; exact Hal|apply mod0_divide; assumption].
    - apply mod0_divide; assumption.
    - apply Z.divide_mul_r. apply mod0_divide; assumption. }
  assert (Hmod : slot_addr s base i mod al (e_al e) = 0) by (apply mod0_divide; assumption).
  pose proof (round_up_ge (end_from 0 (st_members s)) (al (st_al s)) Ps) as Hsz. fold (class_size (st_members s)) in Hsz.
  unfold st_al in Hsz. fold (class_size (st_members s)) in Hsz. fold (st_size s) in Hsz.
  assert (Hlo : base <= slot_addr s base i) by (unfold slot_addr, st_off; nia).
  assert (Hhi : slot_addr s base i + e_size e <= base + st_size s) by (unfold slot_addr, st_off; nia).
  split; [|split; [exact Hmod|split; [exact Hlo|exact Hhi]]].
  unfold access_slot. cbv zeta.
  replace (base <=? slot_addr s base i) with true by (symmetry; apply Z.leb_le; exact Hlo).
  replace (slot_addr s base i + e_size e <=? base + st_size s) with true by (symmetry; apply Z.leb_le; exact Hhi).
  cbn [andb negb]. rewrite Hmod. reflexivity.
Qed.

Lemma cell_size : forall len k, 0 <= len -> class_size (aligned_storage_cell len k) = round_up len (al k) /\ class_al (aligned_storage_cell len k) = k.
Proof.
  intros len k H. unfold class_size, aligned_storage_cell, raw_bytes. cbn [end_from class_al m_al m_size Nat.max].
  replace (Nat.max k 0) with k by lia. replace (Nat.max 0 k) with k by lia.
  rewrite (round_up_exact 0 (al k) (al_pos k)) by (apply Z.mod_0_l; pose proof (al_pos k); lia). split; [f_equal|reflexivity].
Qed.

Lemma union_size_ge : forall ms k m, nth_error ms k = Some m -> m_size m <= union_size ms.
Proof.
  induction ms as [|h t IH]; intros k m Hk; [destruct k; discriminate|]. destruct k as [|k]; cbn [nth_error] in Hk; cbn [union_size].
  - injection Hk as <-. lia.
  - specialize (IH k m Hk). lia.
Qed.

Ltac nn :=
  unfold nonneg;
  repeat (apply Forall_cons;
          [cbn [m_size size_member with_alignas typed_array raw_bytes char_member pointer_member union_member as_member];
           first [match goal with H : forall k : nat, 0 <= al k |- _ => apply H end | nia | lia]|]);
  try apply Forall_nil.

(* every family of the library *)
Lemma storage_of_aligned : forall f e n base i, elem_wf e -> family_ok f e n ->
  base mod al (st_al (storage_of f e n)) = 0 -> 0 <= i < st_count (storage_of f e n) ->
  access_slot (storage_of f e n) e base i = Aligned (slot_addr (storage_of f e n) base i) /\
  slot_addr (storage_of f e n) base i mod al (e_al e) = 0 /\
  base <= slot_addr (storage_of f e n) base i /\ slot_addr (storage_of f e n) base i + e_size e <= base + st_size (storage_of f e n).
Proof.
  intros f e n base i We [Hn Hf] Hb Hi. pose proof We as [Hs Hsa]. pose proof (al_pos (e_al e)) as Pe.
  pose proof (cell_size (e_size e) (e_al e) ltac:(lia)) as [Cs Ca]. rewrite (round_up_exact _ _ Pe Hsa) in Cs.
  assert (Hsz : forall k, 0 <= al k) by (intros k; pose proof (al_pos k); lia).
  destruct f as [[|]|[|]|[|]| | | | | | |[|]];
    cbn [storage_of st_count] in Hi, Hb |- *; cbv zeta in Hb |- *.
  - (* static_vector, trivial *)
    eapply access_aligned with (m := with_alignas (typed_array e n) (e_al e)); try eassumption; cbn [st_members st_slot st_inner st_stride st_count with_alignas typed_array m_size m_al nth_error];
      try reflexivity; try lia; try (rewrite Z.mod_0_l; lia).
    nn.
  - (* static_vector, non-trivial *)
    cbv zeta in *. rewrite Cs, Ca in *.
    eapply access_aligned with (m := with_alignas (Member (e_size e * n) (e_al e)) (e_al e)); try eassumption; cbn [st_members st_slot st_inner st_stride st_count with_alignas m_size m_al nth_error];
      try reflexivity; try lia; try (rewrite Z.mod_0_l; lia).
    nn.
  - (* inplace_vector, trivial *)
    assert (E : as_member (uninit_array true e n) = Member (round_up (e_size e * n) (al (e_al e))) (e_al e)).
    { unfold as_member, uninit_array, class_size, typed_array. cbn [end_from class_al m_al m_size]. replace (Nat.max (e_al e) 0) with (e_al e) by lia.
      rewrite (round_up_exact 0) by (try apply al_pos; rewrite Z.mod_0_l; lia). reflexivity. }
    rewrite E in *. pose proof (round_up_ge (e_size e * n) (al (e_al e)) Pe) as G.
    eapply access_aligned with (m := Member (round_up (e_size e * n) (al (e_al e))) (e_al e)); try eassumption; cbn [st_members st_slot st_inner st_stride st_count m_size m_al nth_error];
      try reflexivity; try lia; try (rewrite Z.mod_0_l; lia).
    nn.
  - (* inplace_vector, non-trivial: alignas(T) byte array *)
    assert (E : as_member (uninit_array false e n) = Member (round_up (e_size e * n) (al (e_al e))) (e_al e)).
    { unfold as_member, uninit_array. destruct (cell_size (e_size e * n) (e_al e) ltac:(nia)) as [A B]. unfold aligned_storage_cell in A, B. rewrite A, B. reflexivity. }
    rewrite E in *. pose proof (round_up_ge (e_size e * n) (al (e_al e)) Pe) as G.
    eapply access_aligned with (m := Member (round_up (e_size e * n) (al (e_al e))) (e_al e)); try eassumption; cbn [st_members st_slot st_inner st_stride st_count m_size m_al nth_error];
      try reflexivity; try lia; try (rewrite Z.mod_0_l; lia).
    nn.
  - (* uninitialized_array, trivial *)
    eapply access_aligned with (m := typed_array e n); try eassumption; cbn [st_members st_slot st_inner st_stride st_count uninit_array typed_array m_size m_al nth_error];
      try reflexivity; try lia; try (rewrite Z.mod_0_l; lia).
    nn.
  - (* uninitialized_array, non-trivial *)
    eapply access_aligned with (m := raw_bytes (e_size e * n) (e_al e)); try eassumption; cbn [st_members st_slot st_inner st_stride st_count uninit_array raw_bytes m_size m_al nth_error];
      try reflexivity; try lia; try (rewrite Z.mod_0_l; lia).
    nn.
  - (* aligned_storage *)
    eapply access_aligned with (m := raw_bytes (e_size e) (e_al e)); try eassumption; cbn [st_members st_slot st_inner st_stride st_count aligned_storage_cell raw_bytes m_size m_al nth_error];
      try reflexivity; try lia; try (rewrite Z.mod_0_l; lia).
    nn.
  - (* aligned_union *)
    eapply access_aligned with (m := raw_bytes (Z.max 0 (Z.max 1 (e_size e))) (Nat.max 0 (e_al e))); try eassumption; cbn [st_members st_slot st_inner st_stride st_count raw_bytes m_size m_al nth_error];
      try reflexivity; try lia; try (rewrite Z.mod_0_l; lia).
    nn.
  - (* optional *)
    pose proof (round_up_ge (union_size [Member (e_size nullopt_elem) (e_al nullopt_elem); Member (e_size e) (e_al e)]) (al (class_al [Member (e_size nullopt_elem) (e_al nullopt_elem); Member (e_size e) (e_al e)])) (al_pos _)) as G.
    pose proof (union_size_ge [Member (e_size nullopt_elem) (e_al nullopt_elem); Member (e_size e) (e_al e)] 1 _ eq_refl) as U. cbn [m_size] in U.
    eapply access_aligned with (m := union_member [Member (e_size nullopt_elem) (e_al nullopt_elem); Member (e_size e) (e_al e)]); try eassumption;
      cbn [st_members st_slot st_inner st_stride st_count sum_members nth_error]; try reflexivity; try lia; try (rewrite Z.mod_0_l; lia).
    + nn.
    + cbn [union_member m_al class_al]. lia.
    + cbn [union_member m_size]. lia.
  - (* variant *)
    pose proof (round_up_ge (union_size [Member (e_size char_elem) (e_al char_elem); Member (e_size e) (e_al e)]) (al (class_al [Member (e_size char_elem) (e_al char_elem); Member (e_size e) (e_al e)])) (al_pos _)) as G.
    pose proof (union_size_ge [Member (e_size char_elem) (e_al char_elem); Member (e_size e) (e_al e)] 1 _ eq_refl) as U. cbn [m_size] in U.
    eapply access_aligned with (m := union_member [Member (e_size char_elem) (e_al char_elem); Member (e_size e) (e_al e)]); try eassumption;
      cbn [st_members st_slot st_inner st_stride st_count sum_members nth_error]; try reflexivity; try lia; try (rewrite Z.mod_0_l; lia).
    + nn.
    + cbn [union_member m_al class_al]. lia.
    + cbn [union_member m_size]. lia.
  - (* expected, value *)
    pose proof (round_up_ge (union_size [Member (e_size char_elem) (e_al char_elem); Member (e_size e) (e_al e)]) (al (class_al [Member (e_size char_elem) (e_al char_elem); Member (e_size e) (e_al e)])) (al_pos _)) as G.
    pose proof (union_size_ge [Member (e_size char_elem) (e_al char_elem); Member (e_size e) (e_al e)] 1 _ eq_refl) as U. cbn [m_size] in U.
    eapply access_aligned with (m := union_member [Member (e_size char_elem) (e_al char_elem); Member (e_size e) (e_al e)]); try eassumption;
      cbn [st_members st_slot st_inner st_stride st_count sum_members nth_error]; try reflexivity; try lia; try (rewrite Z.mod_0_l; lia).
    + nn.
    + cbn [union_member m_al class_al]. lia.
    + cbn [union_member m_size]. lia.
  - (* expected, error *)
    pose proof (round_up_ge (union_size [Member (e_size char_elem) (e_al char_elem); Member (e_size e) (e_al e)]) (al (class_al [Member (e_size char_elem) (e_al char_elem); Member (e_size e) (e_al e)])) (al_pos _)) as G.
    pose proof (union_size_ge [Member (e_size char_elem) (e_al char_elem); Member (e_size e) (e_al e)] 1 _ eq_refl) as U. cbn [m_size] in U.
    eapply access_aligned with (m := union_member [Member (e_size char_elem) (e_al char_elem); Member (e_size e) (e_al e)]); try eassumption;
      cbn [st_members st_slot st_inner st_stride st_count sum_members nth_error]; try reflexivity; try lia; try (rewrite Z.mod_0_l; lia).
    + nn.
    + cbn [union_member m_al class_al]. lia.
    + cbn [union_member m_size]. lia.
  - (* inplace_function, Alignment = alignof(C) *)
    unfold as_member in Hb |- *. rewrite Cs, Ca in Hb |- *.
    eapply access_aligned with (m := Member (e_size e) (e_al e)); try eassumption; cbn [st_members st_slot st_inner st_stride st_count m_size m_al nth_error pointer_member];
      try reflexivity; try lia; try (rewrite Z.mod_0_l; lia).
    nn.
  - (* inplace_function, default Alignment (static_assert: it is a multiple of alignof(C)) *)
    destruct Hf as [_ Hd]. unfold as_member in Hb |- *.
    destruct (cell_size (e_size e) (as_default_al (e_size e)) ltac:(lia)) as [Ds Da]. rewrite Ds, Da in Hb |- *.
    pose proof (round_up_ge (e_size e) (al (as_default_al (e_size e))) (al_pos _)) as G.
    eapply access_aligned with (m := Member (round_up (e_size e) (al (as_default_al (e_size e)))) (as_default_al (e_size e))); try eassumption;
      cbn [st_members st_slot st_inner st_stride st_count m_size m_al nth_error pointer_member]; try reflexivity; try lia; try (rewrite Z.mod_0_l; lia).
    nn.
Qed.

(* the container is at least as aligned as its elements *)
Lemma storage_of_al : forall f e n, family_ok f e n -> (e_al e <= st_al (storage_of f e n))%nat.
Proof.
  intros f e n [Hn Hf]. pose proof (cell_size (e_size e) (e_al e)) as C.
  destruct f as [[|]|[|]|[|]| | | | | | |[|]]; unfold st_al; cbn [storage_of st_members class_al with_alignas typed_array m_al as_member uninit_array raw_bytes
    aligned_storage_cell sum_members union_member char_member pointer_member]; lia.
Qed.

(* the harness observation is the specification's *)
Lemma count_bad_zero : forall s e base w k,
  (forall i, 0 <= i < Z.of_nat k -> access_slot s e base i = Aligned (slot_addr s base i)) -> count_bad s e base k w = 0.
Proof.
  intros s e base w k. induction k as [|k IH]; intros H; [reflexivity|]. cbn [count_bad].
  rewrite IH by (intros i Hi; apply H; lia). rewrite (H (Z.of_nat k)) by lia. destruct w; reflexivity.
Qed.

Lemma al_mod_al : forall j k, (j <= k)%nat -> al k mod al j = 0.
Proof. intros j k H. apply mod0_divide; [apply al_pos|apply al_divide; exact H]. Qed.

Lemma observe_spec : forall f e n base, elem_wf e -> family_ok f e n -> base mod al (st_al (storage_of f e n)) = 0 ->
  al (st_al (storage_of f e n)) mod al (e_al e) = 0 /\
  count_bad (storage_of f e n) e base (Z.to_nat (st_count (storage_of f e n))) false = 0 /\
  count_bad (storage_of f e n) e base (Z.to_nat (st_count (storage_of f e n))) true = 0.
Proof.
  intros f e n base We Hf Hb. split; [apply al_mod_al, storage_of_al; exact Hf|].
  assert (Hc : 0 <= st_count (storage_of f e n)) by (destruct Hf as [Hn _]; destruct f as [[|]|[|]|[|]| | | | | | |[|]]; cbn [storage_of st_count]; lia).
  split; apply count_bad_zero; intros i Hi; apply storage_of_aligned; try assumption; lia.
Qed.

(* the placements of the harness are legal: the offset is a multiple of alignof(V) *)
Lemma placement_legal : forall p v, 0 < m_size v -> m_size v mod al (m_al v) = 0 -> (forall k, p = PArrayElem k -> 0 <= k) ->
  placement_offset p v mod al (m_al v) = 0.
Proof.
  intros p v Hs Hm Hk. pose proof (al_pos (m_al v)) as P.
  assert (Hoff : forall ms k w, nonneg ms -> nth_error ms k = Some w -> (m_al v <= m_al w)%nat -> offset_of ms k mod al (m_al v) = 0).
  { intros ms k w Hn Hnth Hle. apply mod0_divide; [exact P|]. apply Z.divide_trans with (al (m_al w)); [apply al_divide; exact Hle|].
    apply mod0_divide; [apply al_pos|]. exact (proj1 (offsets_facts ms 0 k w Hn ltac:(lia) Hnth)). }
  set (ve := Elem (m_size v) (m_al v)).
  assert (We : elem_wf ve) by (split; [exact Hs|exact Hm]).
  (* V as an element of another library container [f] with [n] slots, behind a char; slot [i] *)
  assert (Hnest : forall f n i, family_ok f ve n -> 0 <= i < st_count (storage_of f ve n) ->
            (offset_of [char_member; as_member (st_members (storage_of f ve n))] 1 + slot_addr (storage_of f ve n) 0 i) mod al (m_al v) = 0).
  { intros f n i Hf Hi. apply mod0_divide; [exact P|]. apply Z.divide_add_r.
    - apply mod0_divide; [exact P|]. apply Hoff with (w := as_member (st_members (storage_of f ve n))); [|reflexivity|exact (storage_of_al f ve n Hf)].
      unfold nonneg. apply Forall_cons; [cbn; lia|]. apply Forall_cons; [|apply Forall_nil]. cbn [as_member m_size].
      destruct (storage_of_aligned f ve n 0 i We Hf ltac:(apply Z.mod_0_l; pose proof (al_pos (st_al (storage_of f ve n))); lia) Hi) as (_ & _ & A & B).
      unfold st_size in B. cbn [e_size ve] in B. lia.
    - apply mod0_divide; [exact P|].
      exact (proj1 (proj2 (storage_of_aligned f ve n 0 i We Hf ltac:(apply Z.mod_0_l; pose proof (al_pos (st_al (storage_of f ve n))); lia) Hi))). }
  destruct p; cbn [placement_offset]; cbv zeta; fold ve.
  - apply Z.mod_0_l. lia.
  - apply Hoff with (w := v); [unfold nonneg; repeat (apply Forall_cons; [cbn; lia|]); apply Forall_nil|reflexivity|lia].
  - apply mod0_divide; [exact P|]. apply Z.divide_mul_r. apply mod0_divide; assumption.
  - apply Z.mod_same. lia.
  - apply Hoff with (w := v); [unfold nonneg; repeat (apply Forall_cons; [cbn; lia|]); apply Forall_nil|reflexivity|lia].
  - apply Hoff with (w := v); [unfold nonneg; repeat (apply Forall_cons; [cbn; lia|]); apply Forall_nil|reflexivity|lia].
  - exact Hm.
  - apply Hnest; [split; [lia|exact I]|cbn [storage_of st_count]; lia].
  - apply Hnest; [split; [lia|reflexivity]|cbn [storage_of st_count]; lia].
  - apply Hnest; [split; [lia|exact I]|cbn [storage_of st_count]; lia].
Qed.

(* the statement: for every family, element type, capacity and placement the harness observation is the specification's *)
Lemma align_obs_spec : forall f e n p, elem_wf e -> family_ok f e n -> (forall k, p = PArrayElem k -> 0 <= k) ->
  fst (align_obs f e n p) = align_spec.
Proof.
  intros f e n p We Hf Hk. unfold align_obs, observe. cbv zeta. cbn [fst]. unfold align_spec.
  set (s := storage_of f e n). set (v := as_member (st_members s)).
  assert (H0 : 0 <= 0 < st_count s) by (destruct Hf as [Hn Hf]; subst s; destruct f as [[|]|[|]|[|]| | | | | | |[|]]; cbn [storage_of st_count]; lia).
  destruct (storage_of_aligned f e n 0 0 We Hf ltac:(apply Z.mod_0_l; pose proof (al_pos (st_al (storage_of f e n))); lia) H0) as (_ & _ & A & B).
  fold s in A, B. destruct We as [Hs Hsa].
  assert (Hb : placement_offset p v mod al (st_al s) = 0).
  { apply (placement_legal p v); [subst v; cbn [as_member m_size]; unfold st_size in B; lia| |exact Hk].
    subst v. cbn [as_member m_size m_al]. unfold class_size. apply round_up_mod, al_pos. }
  destruct (observe_spec f e n (placement_offset p v) (conj Hs Hsa) Hf Hb) as (X & Y & Z0). fold s in X, Y, Z0.
  rewrite X, Y, Z0. reflexivity.
Qed.

(* the storage without the alignas on the byte array: alignof(inplace_vector<T, N>) is 1 and, behind a char, all three
   slots of an inplace_vector<8-byte-aligned T, 3> are misaligned *)
Lemma no_alignas_misaligned :
  let e := Elem 8 3 in
  elem_wf e /\ st_al (storage_iv_no_alignas e 3) = 0%nat /\ 1 mod al (st_al (storage_iv_no_alignas e 3)) = 0 /\
  access_slot (storage_iv_no_alignas e 3) e 1 0 = Misaligned 1 /\
  fst (observe (storage_iv_no_alignas e 3) e PBehindChar) = [1; 3; 0] /\
  fst (observe (storage_of (FInplaceVector false) e 3) e PBehindChar) = [0; 0; 0].
Proof. vm_compute. repeat split; reflexivity. Qed.

(* aligned_storage_t<Len>: every fundamental type that fits into Len is at most as aligned as the storage *)
Lemma default_al_ge : forall (l : list (Z * nat)) len f, In f l -> fst f <= len ->
  (snd f <= fold_right (fun (f : Z * nat) k => if (fst f <=? len)%Z then Nat.max (snd f) k else k) 0%nat l)%nat.
Proof.
  induction l as [|h t IH]; intros len f Hin Hle; [contradiction|]. cbn [fold_right]. destruct Hin as [<-|Hin].
  - replace (fst h <=? len) with true by (symmetry; apply Z.leb_le; exact Hle). lia.
  - specialize (IH len f Hin Hle). destruct (fst h <=? len); lia.
Qed.

Lemma count_none : forall (l : list (Z * nat)) len K, (forall f, In f l -> fst f <= len -> (snd f <= K)%nat) ->
  fold_right (fun (f : Z * nat) c => if (fst f <=? len) && negb (snd f <=? K)%nat then c + 1 else c) 0 l = 0.
Proof.
  induction l as [|h t IH]; intros len K H; [reflexivity|]. cbn [fold_right]. rewrite IH by (intros f Hf; apply H; right; exact Hf).
  destruct (Z.leb_spec (fst h) len) as [Hle|Hgt]; [|reflexivity].
  replace (snd h <=? K)%nat with true by (symmetry; apply Nat.leb_le; apply H; [left; reflexivity|exact Hle]). reflexivity.
Qed.

Lemma asdef_spec : forall len, fst (asdef_obs len) = 0 /\
  (forall f, In f fundamental -> fst f <= len -> (snd f <= as_default_al len)%nat).
Proof.
  intros len. assert (H : forall f, In f fundamental -> fst f <= len -> (snd f <= as_default_al len)%nat).
  { intros f Hf Hl. exact (default_al_ge fundamental len f Hf Hl). }
  split; [|exact H]. unfold asdef_obs. cbn [fst]. apply count_none. exact H.
Qed.
