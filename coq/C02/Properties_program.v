(* C02 — the property statement itself, for the container families its quantifier names ("all container histories of
   C01 / C04 / C09") and more: ANY program = any list of calls, each addressed to one of two static_vectors, an
   inplace_string, a pair of sets (static_set or flat_set), a pair of bitsets, two inplace_vectors, two variants or
   three optionals, valid or not, in any order and mix, started on freshly constructed objects of ANY capacities /
   widths / character type / element type and comparator / list of alternatives: every call returns or is stopped by
   its TETL_PRECONDITION (which ends the program); no call is undefined, no loop runs out of fuel, and the objects
   satisfy their representation invariants afterwards.
   The model of the program and the induction are in C02/ProofsProgram.v; the one-step facts are the theorems of the
   packages C01, C04, C07, C09, C17. *)
From Tetl Require Import Lib.Base C02.Safe C02.ProofsProgram.
From Tetl Require C01.Model C01.ProofsBase C01.ProofsStep C01.ProofsIv C08.Model C04.Model C04.Inv C04.InvOps C04.Total
  C07.Types C07.Model C07.VariantProofs C07.OptionalProofs C09.Ops C09.Model C09.ProofsRun C09.Properties C17.Ops C17.Model C17.History.
Local Open Scope Z_scope.

Theorem C02_container_programs_no_ub :
  forall (pred : Z -> Z -> bool) (vcap : nat), Z.of_nat vcap < 2 ^ 63 ->
  forall (A : Type) (lt : A -> A -> bool), C09.ProofsRun.strict_weak lt ->
  forall (kind : C09.Ops.kind) (scap bits wk : nat), (0 < bits)%nat ->
  forall (icap : nat), Z.of_nat icap < 2 ^ 63 ->
  forall (alts : list C07.Types.ty) (oT oU : C07.Types.ty), alts <> [] ->
  forall (strcap : Z) (ck : C08.Model.charkind), C04.Inv.cap_ok strcap ->
  forall program : list (call A),
  Forall (call_ok A lt kind alts) program ->
  let w0 := fresh vcap A bits wk icap strcap ck in
  no_ub (run_world pred A lt kind scap bits wk alts oT oU w0 program) /\
  (forall w', run_world pred A lt kind scap bits wk alts oT oU w0 program = Ok w' ->
              world_inv vcap A lt scap bits wk icap alts w').
Proof.
  intros pred vcap Hv A lt Hlt kind scap bits wk Hb icap Hi alts oT oU Ha strcap ck Hc program Hp. cbv zeta.
  apply (run_world_no_ub pred vcap Hv A lt Hlt kind scap bits wk Hb icap Hi alts oT oU program); [|exact Hp].
  apply fresh_inv; assumption.
Qed.
Print Assumptions C02_container_programs_no_ub.

(* the same from ANY world whose components satisfy their invariants (reachable or not) *)
Theorem C02_container_programs_no_ub_from_any_state :
  forall (pred : Z -> Z -> bool) (vcap : nat), Z.of_nat vcap < 2 ^ 63 ->
  forall (A : Type) (lt : A -> A -> bool), C09.ProofsRun.strict_weak lt ->
  forall (kind : C09.Ops.kind) (scap bits wk : nat), (0 < bits)%nat ->
  forall (icap : nat), Z.of_nat icap < 2 ^ 63 ->
  forall (alts : list C07.Types.ty) (oT oU : C07.Types.ty) (w : world A) (program : list (call A)),
  world_inv vcap A lt scap bits wk icap alts w -> Forall (call_ok A lt kind alts) program ->
  no_ub (run_world pred A lt kind scap bits wk alts oT oU w program) /\
  (forall w', run_world pred A lt kind scap bits wk alts oT oU w program = Ok w' ->
              world_inv vcap A lt scap bits wk icap alts w').
Proof.
  intros pred vcap Hv A lt Hlt kind scap bits wk Hb icap Hi alts oT oU w program I Hp.
  exact (run_world_no_ub pred vcap Hv A lt Hlt kind scap bits wk Hb icap Hi alts oT oU program w I Hp).
Qed.
Print Assumptions C02_container_programs_no_ub_from_any_state.

(* non-vacuity: a program that mixes the families, fills the vector and the string exactly, and ends with a call
   that violates a precondition (push_back on the full vector): the run is stopped there, not undefined *)
Example C02_program_nonvacuous :
  let alts := [C07.Types.TInt; C07.Types.TTr; C07.Types.TFloat] in
  let prog : list (call Z) :=
    [CVec Z (C01.Model.PushBack false 5); CStr Z (C04.Model.OAppendFill 15 97); CSet Z (C09.Ops.Insert 3);
     CBits Z C17.Ops.OSetAll; CVec Z (C01.Model.PushBack false 6); CSet Z (C09.Ops.Insert 3);
     CIvec Z (C01.Model.IvTryPush false 9); CVar Z (C07.Types.VEmplace false 1 2); COpt Z (C07.Types.OReset false);
     CStr Z (C04.Model.OPopBack); CVec Z (C01.Model.PushBack false 7)] in
  let run := run_world (fun _ x => Z.even x) Z Z.ltb C09.Ops.StaticSet 2 65 6 alts C07.Types.TInt C07.Types.TInt
                       (fresh 2 Z 65 6 1 15 C08.Model.CChar) in
  Forall (call_ok Z Z.ltb C09.Ops.StaticSet alts) prog /\
  C09.ProofsRun.strict_weak Z.ltb /\ alts <> [] /\
  run prog = Contract /\
  (exists w, run (firstn 10 prog) = Ok w /\ C01.Model.elems (fst (w_vecs Z w)) = [5; 6] /\
             C01.Model.elems (fst (w_ivecs Z w)) = [9]).
Proof.
  cbv zeta. split; [|split; [exact (proj1 (proj2 C09.Properties.C09_nonvacuous))|split; [discriminate|split]]].
  - repeat constructor; cbn; unfold C04.InvOps.szt; try lia.
  - vm_compute. reflexivity.
  - eexists. split; [vm_compute; reflexivity|]. split; reflexivity.
Qed.
