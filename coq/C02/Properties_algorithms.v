(* C02 — algorithms on caller-provided ranges (C06a: mutating and sorting; C06b: searching, comparing, numeric).
   A range [first, last) is a list; every element access of the C06a models goes through Lib.Arr.get / set / swap,
   which fail outside the list ([UB OutOfBounds]); loops are fuelled.  For EVERY list (any length, the empty one
   included), every element type and every predicate / strict-weak comparator the models return: no access outside
   the given range, no loop out of fuel.  Corollaries of the C06a / C06b theorems (Required, not copied).
   The models of C06b that are plain structural recursions over the list (find, count, all_of, mismatch4, search,
   min/max_element, merge, set operations, accumulate, ...) have no failure outcome at all: they cannot express an
   out-of-range access, and their agreement with the code is the business of the correspondence run. *)
From Tetl Require Import Lib.Base Lib.Arr C02.Safe.
From Tetl Require C06a.Model C06a.Spec C06a.RotateProof C06a.Properties C06a.Properties_p1 C06a.Properties_p2.
From Tetl Require C06b.Model C06b.Spec C06b.Order C06b.Properties.
From Coq Require Import Sorting.Permutation.
Local Open Scope nat_scope.

Module Mut.
Import C06a.Model C06a.Spec.

(* in-place algorithms: rotate on every sub-range, reverse (both iterator-category paths), stable_partition (whole
   range and any sub-range of a larger array), remove_if, partition, unique, shift_left / shift_right for EVERY n
   (non-positive, in range, beyond the length), the overlapping moves, copy_n / swap_ranges / transform with a
   second range that is long enough — and the exact verdict when it is not: the model says UB, as the standard does *)
Theorem C02_mutating_algorithms_in_range :
  (forall (A : Type) (l : list A) first middle last, first <= middle -> middle <= last -> last <= length l ->
     returns_ok (rotate l first middle last)) /\
  (forall (A : Type) (l : list A) first last, first <= last -> last <= length l ->
     returns_ok (reverse_ra l first last) /\ returns_ok (reverse_bidi l first last)) /\
  (forall (A : Type) (p : A -> bool) (l : list A),
     returns_ok (stable_partition p l) /\ returns_ok (remove_if p l) /\ returns_ok (partition p l)) /\
  (forall (A : Type) (p : A -> bool) (fuel : nat) (P M T : list A), length M < fuel ->
     returns_ok (stable_partition_m fuel p (P ++ M ++ T) (length P) (length P + length M))) /\
  (forall (A : Type) (eqv : A -> A -> bool),
     (forall x, eqv x x = true) -> (forall x y, eqv x y = true -> eqv y x = true) ->
     (forall x y z, eqv x y = true -> eqv y z = true -> eqv x z = true) ->
     forall l : list A, returns_ok (unique eqv l)) /\
  (forall (A : Type) (l : list A) (n : Z), returns_ok (shift_left l n) /\ returns_ok (shift_right l n)) /\
  (forall (A : Type) (l1 l2 : list A),
     (length l1 <= length l2 -> returns_ok (swap_ranges l1 l2)) /\
     (length l2 < length l1 -> swap_ranges l1 l2 = UB OutOfBounds)) /\
  (forall (A : Type) (l : list A) (n : Z),
     ((n <= Z.of_nat (length l))%Z -> returns_ok (copy_n l n)) /\
     ((Z.of_nat (length l) < n)%Z -> copy_n l n = UB OutOfBounds)) /\
  (forall (A : Type) (f : A -> A -> A) (l1 l2 : list A),
     (length l1 <= length l2 -> returns_ok (transform2 f l1 l2)) /\
     (length l2 < length l1 -> transform2 f l1 l2 = UB OutOfBounds)) /\
  (forall (A : Type) (l : list A), returns_ok (reverse_copy l)).
Proof.
  split; [|split; [|split; [|split; [|split; [|split; [|split; [|split; [|split]]]]]]]].
  - intros A l f m n H1 H2 H3. (pose proof (C06a.Properties.C06_rotate_correct A l f m n H1 H2 H3) as HH; ok_from HH).
  - intros A l f n H1 H2. split.
    + (pose proof (C06a.Properties_p1.C06_reverse_ra_correct A l f n H1 H2) as HH; ok_from HH).
    + (pose proof (C06a.Properties_p1.C06_reverse_bidi_correct A l f n H1 H2) as HH; ok_from HH).
  - intros A p l. split; [|split].
    + (pose proof (C06a.Properties_p1.C06_stable_partition_correct A p l) as HH; ok_from HH).
    + pose proof (C06a.Properties_p1.C06_remove_if_correct A p l) as HH. ok_from HH.
    + pose proof (C06a.Properties_p1.C06_partition_correct A p l) as HH. ok_from HH.
  - intros A p fuel P M T H. (pose proof (C06a.Properties_p1.C06_stable_partition_subrange A p fuel P M T H) as HH; ok_from HH).
  - intros A eqv R S T l. pose proof (C06a.Properties_p1.C06_unique_correct A eqv R S T l) as HH. ok_from HH.
  - intros A l n. split.
    + destruct (Z_le_gt_dec n 0) as [L|G]; [(pose proof (C06a.Properties_p1.C06_shift_left_nonpositive A l n L) as HH; ok_from HH)|].
      destruct (Z_lt_le_dec n (Z.of_nat (length l))) as [L|G'].
      * pose proof (C06a.Properties_p1.C06_shift_left_correct A l n ltac:(lia)) as HH. ok_from HH.
      * (pose proof (C06a.Properties_p1.C06_shift_left_too_far A l n ltac:(lia) G') as HH; ok_from HH).
    + destruct (Z_le_gt_dec n 0) as [L|G]; [(pose proof (C06a.Properties_p1.C06_shift_right_nonpositive A l n L) as HH; ok_from HH)|].
      destruct (Z_lt_le_dec n (Z.of_nat (length l))) as [L|G'].
      * pose proof (C06a.Properties_p1.C06_shift_right_correct A l n ltac:(lia)) as HH. ok_from HH.
      * (pose proof (C06a.Properties_p1.C06_shift_right_too_far A l n ltac:(lia) G') as HH; ok_from HH).
  - intros A l1 l2. split; [intros H; (pose proof (C06a.Properties_p1.C06_swap_ranges_correct A l1 l2 H) as HH; ok_from HH)
                           |exact (C06a.Properties_p1.C06_swap_ranges_short_second_range A l1 l2)].
  - intros A l n. split; [|exact (C06a.Properties_p1.C06_copy_n_overrun A l n)].
    intros H. destruct (Z_lt_le_dec n 0) as [L|G].
    + (pose proof (C06a.Properties_p1.C06_copy_n_negative A l n L) as HH; ok_from HH).
    + (pose proof (C06a.Properties_p1.C06_copy_n_correct A l n (conj G H)) as HH; ok_from HH).
  - intros A f l1 l2. split; [intros H; (pose proof (C06a.Properties_p1.C06_transform2_correct A f l1 l2 H) as HH; ok_from HH)
                             |exact (C06a.Properties_p1.C06_transform2_short_second_range A f l1 l2)].
  - intros A l. (pose proof (C06a.Properties_p1.C06_reverse_copy_correct A l) as HH; ok_from HH).
Qed.
Print Assumptions C02_mutating_algorithms_in_range.

(* the sorting family under the standard's precondition (the comparator is a strict weak order): insertion_sort
   (= etl::stable_sort), gnome_sort (= etl::sort, nth_element, partial_sort), merge_sort, bubble_sort,
   exchange_sort (after its repair: no first - 1 on an empty range), inplace_merge on any sub-range *)
Theorem C02_sorting_in_range : forall (A : Type) (lt : A -> A -> bool),
  (forall x, lt x x = false) ->
  (forall x y z, lt x y = true -> lt y z = true -> lt x z = true) ->
  (forall x y z, lt x y = false -> lt y x = false -> lt y z = false -> lt z y = false -> lt x z = false) ->
  (forall l : list A,
     returns_ok (insertion_sort lt l) /\ returns_ok (gnome_sort lt l) /\ returns_ok (merge_sort lt l) /\
     returns_ok (bubble_sort lt l) /\ returns_ok (exchange_sort lt l)) /\
  (forall P l1 l2 T : list A, sorted_by lt l2 ->
     returns_ok (inplace_merge lt (P ++ l1 ++ l2 ++ T) (length P) (length P + length l1) (length P + length l1 + length l2))).
Proof.
  intros A lt H1 H2 H3. split.
  - intros l. split; [|split; [|split; [|split]]].
    + (pose proof (C06a.Properties_p2.C06_insertion_sort_correct A lt H1 H2 H3 l) as HH; ok_from HH).
    + (pose proof (C06a.Properties_p2.C06_gnome_sort_correct A lt H1 H2 H3 l) as HH; ok_from HH).
    + (pose proof (C06a.Properties_p2.C06_merge_sort_correct A lt H1 H2 H3 l) as HH; ok_from HH).
    + pose proof (C06a.Properties_p2.C06_bubble_sort_sorts A lt H1 H2 H3 l) as HH. ok_from HH.
    + pose proof (C06a.Properties_p2.C06_exchange_sort_sorts A lt H1 H2 H3 l) as HH. ok_from HH.
  - intros P l1 l2 T S. (pose proof (C06a.Properties_p2.C06_inplace_merge_in_range A lt P l1 l2 T S) as HH; ok_from HH).
Qed.
Print Assumptions C02_sorting_in_range.
End Mut.

Module NonMut.
Import C06b.Model C06b.Spec C06b.Order.

(* the C06b models that can fail: the three-iterator forms (second range given by its begin only: the standard
   requires it to be at least as long), for_each_n, the halving loops of the binary searches (fuelled), find_end
   (repeated search, fuelled), is_permutation (nested scans) *)
Theorem C02_searching_algorithms_in_range :
  (forall A St (f : St -> A -> St * A) (s : St) (l : list A) (n : Z),
     (0 <= n <= Z.of_nat (length l))%Z -> returns_ok (for_each_n_m f s l n)) /\
  (forall A (pred : A -> A -> bool) l1 l2, length l1 <= length l2 ->
     returns_ok (mismatch3_m pred l1 l2) /\ returns_ok (equal3_m pred l1 l2)) /\
  (forall A (ra : bool) (pred : A -> A -> bool) l1 l2, returns_ok (equal4_m ra pred l1 l2)) /\
  (forall A (pred : A -> A -> bool) l s, returns_ok (find_end_m pred l s)) /\
  (forall A (lt : A -> A -> bool) l v,
     (partitioned (fun e => lt e v) l = true -> returns_ok (lower_bound_m lt l v)) /\
     (partitioned (fun e => negb (lt v e)) l = true -> returns_ok (upper_bound_m lt l v)) /\
     (partitioned (fun e => lt e v) l = true -> partitioned (fun e => negb (lt v e)) l = true ->
        returns_ok (equal_range_m lt l v) /\ returns_ok (binary_search_m lt l v))) /\
  (forall A (eqb : A -> A -> bool), (forall x y, eqb x y = true <-> x = y) ->
     forall l1 l2, returns_ok (is_permutation4_m eqb l1 l2) /\
                   (length l1 <= length l2 -> returns_ok (is_permutation3_m eqb l1 l2))) /\
  (forall T U V W (op1 : T -> W -> T) (op2 : U -> V -> W) l1 l2 init, length l1 <= length l2 ->
     returns_ok (inner_product_m op1 op2 l1 l2 init)).
Proof.
  split; [|split; [|split; [|split; [|split; [|split]]]]].
  - intros A St f s l n H. (pose proof (C06b.Properties.C06b_for_each_n A St f s l n H) as HH; ok_from HH).
  - intros A pred l1 l2 H. split.
    + (pose proof (C06b.Properties.C06b_mismatch3 A pred l1 l2 H) as HH; ok_from HH).
    + (pose proof (C06b.Properties.C06b_equal3 A pred l1 l2 H) as HH; ok_from HH).
  - intros A ra pred l1 l2. (pose proof (C06b.Properties.C06b_equal4 A ra pred l1 l2) as HH; ok_from HH).
  - intros A pred l s. (pose proof (C06b.Properties.C06b_find_end A pred l s) as HH; ok_from HH).
  - intros A lt l v. split; [|split].
    + intros H. (pose proof (C06b.Properties.C06b_lower_bound A lt l v H) as HH; ok_from HH).
    + intros H. (pose proof (C06b.Properties.C06b_upper_bound A lt l v H) as HH; ok_from HH).
    + intros H1 H2. split.
      * (pose proof (C06b.Properties.C06b_equal_range A lt l v H1 H2) as HH; ok_from HH).
      * (pose proof (C06b.Properties.C06b_binary_search A lt l v H1 H2) as HH; ok_from HH).
  - intros A eqb He l1 l2. split.
    + (pose proof (C06b.Properties.C06b_is_permutation4_counts A eqb He l1 l2) as HH; ok_from HH).
    + intros H. pose proof (C06b.Properties.C06b_is_permutation3 A eqb He l1 l2 H) as HH. ok_from HH.
  - intros T U V W op1 op2 l1 l2 init H. (pose proof (C06b.Properties.C06b_inner_product T U V W op1 op2 l1 l2 init H) as HH; ok_from HH).
Qed.
Print Assumptions C02_searching_algorithms_in_range.
End NonMut.

(* the hypotheses are satisfiable (a strict weak order with non-trivial key classes: C06a_p2_nonvacuous), the
   conclusions are about real runs, and the model does answer UB when a range is too short *)
Example C02_algorithms_nonvacuous :
  C06a.Model.rotate [1; 2; 3; 4; 5; 6] 1 3 5 = Ok ([1; 4; 5; 2; 3; 6], 3) /\
  C06a.Model.copy_n [1; 2] 3 = UB OutOfBounds /\ ~ no_ub (C06a.Model.copy_n [1; 2] 3) /\
  C06a.Model.shift_left [1; 2; 3] 7 = Ok ([1; 2; 3], 0) /\
  C06b.Model.lower_bound_m Z.ltb [1; 2; 2; 5]%Z 2%Z = Ok 1 /\
  (exists lt : nat * nat -> nat * nat -> bool,
     (forall x, lt x x = false) /\ (forall x y z, lt x y = true -> lt y z = true -> lt x z = true) /\
     (forall x y z, lt x y = false -> lt y x = false -> lt y z = false -> lt z y = false -> lt x z = false)).
Proof.
  split; [vm_compute; reflexivity|]. split; [vm_compute; reflexivity|].
  split; [intros [H _]; apply (H OutOfBounds); vm_compute; reflexivity|].
  split; [vm_compute; reflexivity|]. split; [vm_compute; reflexivity|].
  destruct C06a.Properties_p2.C06a_p2_nonvacuous as (lt & H1 & H2 & H3 & _). exists lt. auto.
Qed.
