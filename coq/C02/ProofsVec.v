(* C02 — static_vector / inplace_vector: no undefined behaviour along EVERY history (valid or not), from the
   freshly constructed pair of vectors and from any pair of states satisfying the representation invariant.
   Derived here by induction over the history from the one-step theorems of the C01 package
   (step_safe / iv_step_safe: under the invariant a step returns a state satisfying the invariant, or a
   TETL_PRECONDITION stops it; it is never UB and never out of fuel). *)
From Tetl Require Import Lib.Base Lib.Arr C06a.Model C01.Model C01.Spec C01.ProofsBase C01.ProofsStep C01.ProofsIv.
From Tetl Require Import C02.Safe.
Local Open Scope Z_scope.

Section Vec.
Variable pred : Z -> Z -> bool.
Variable c : nat.
Hypothesis Hc : Z.of_nat c < 2 ^ 63.

Lemma run_safe : forall ops s, inv c (fst s) -> inv c (snd s) -> Forall at_arg_ok ops ->
  Forall no_ub (run pred s ops).
Proof.
  induction ops as [|o rest IH]; intros s Ha Hb Hargs; cbn [run]; [constructor|].
  inversion Hargs as [|? ? Ho Hrest]; subst.
  pose proof (step_safe pred c Hc s o Ha Hb Ho) as S.
  destruct (step pred s o) as [[s' out]| |k|]; cbn [safe_step] in S; try contradiction.
  - destruct S as [Sa Sb]. constructor; [eapply ok_no_ub; reflexivity|]. apply IH; assumption.
  - constructor; [apply contract_no_ub; reflexivity|constructor].
Qed.

Lemma iv_run_safe : forall ops s, inv c (fst s) -> inv c (snd s) -> Forall iv_at_arg_ok ops ->
  Forall no_ub (iv_run s ops).
Proof.
  induction ops as [|o rest IH]; intros s Ha Hb Hargs; cbn [iv_run]; [constructor|].
  inversion Hargs as [|? ? Ho Hrest]; subst.
  pose proof (iv_step_safe c Hc s o Ha Hb Ho) as S.
  destruct (iv_step s o) as [[s' out]| |k|]; cbn [safe_step] in S; try contradiction.
  - destruct S as [Sa Sb]. constructor; [eapply ok_no_ub; reflexivity|]. apply IH; assumption.
  - constructor; [apply contract_no_ub; reflexivity|constructor].
Qed.

(* the invariant along a history: every state reached by a returning prefix satisfies it *)
Lemma iv_step_keeps : forall s o s' out, inv c (fst s) -> inv c (snd s) -> iv_at_arg_ok o ->
  iv_step s o = Ok (s', out) -> inv c (fst s') /\ inv c (snd s').
Proof.
  intros s o s' out Ha Hb Ho H. pose proof (iv_step_safe c Hc s o Ha Hb Ho) as S. rewrite H in S. exact S.
Qed.
End Vec.
