(* C02 — bit / numeric helpers and chrono arithmetic: the checked-arithmetic models (signed + - * / % and shifts are
   checked: an overflow, a division by zero or a shift count outside the width is the distinguished failure outcome)
   of the calendar kernels (C11), duration / time_point arithmetic and the rounding casts (C12) and <bit> / <numeric>
   / saturation / safe comparison helpers (C14) meet no undefined behaviour on the documented domain — and the
   theorems say exactly where the domain ends (what is outside IS undefined in the model: the claim is not vacuous).
   Corollaries of theorems of those packages (Required, not copied).  [is_some]: C02/Safe.v. *)
From Tetl Require Import Lib.Base C02.Safe.
From Tetl Require C11.Model C11.Spec C11.Properties.
From Tetl Require C12.Model C12.Spec C12.ProofsCast C12.Properties.
From Tetl Require C14.Spec C14.Model C14.Arith C14.Properties.
Local Open Scope Z_scope.

(** * calendar kernels (C11): int / unsigned arithmetic of civil_from_days, days_from_civil, weekday, year_month *)
Module Cal.
Import C11.Model C11.Spec.

Theorem C02_calendar_no_overflow :
  ((* every day of the years -32767..32767 *)
   forall z, day_lo <= z <= day_hi -> is_some (civil_from_days_m z)) /\
  ((* every existing date of those years *)
   forall y m d, -32767 <= y <= 32767 -> date_exists y m d = true -> is_some (days_from_civil_m y m d)) /\
  (forall z, -2147483648 <= z <= 2147483643 -> is_some (weekday_from_days_m z)) /\
  (forall y m dm, -32767 <= y <= 32767 -> 1 <= m <= 12 -> -2147483647 <= dm <= 2147483647 ->
     -32768 <= fst (year_month_plus_spec y m dm) <= 32767 -> is_some (year_month_plus_months_m y m dm)) /\
  (forall y dy, -32768 <= y <= 32767 -> -2147483648 <= dy <= 2147483647 -> -32768 <= y + dy <= 32767 ->
     is_some (year_plus_m y dy)).
Proof.
  split; [|split; [|split; [|split]]].
  - intros z Hz. pose proof (C11.Properties.C11_civil_days_roundtrip z Hz) as HH. ok_from HH.
  - intros y m d Hy He. pose proof (C11.Properties.C11_days_civil_roundtrip y m d Hy He) as HH. ok_from HH.
  - intros z Hz. (pose proof (C11.Properties.C11_weekday_from_days z Hz) as HH; ok_from HH).
  - intros y m dm Hy Hm Hd Hr. (pose proof (C11.Properties.C11_year_month_plus y m dm Hy Hm Hd Hr) as HH; ok_from HH).
  - intros y dy Hy Hd Hr. (pose proof (C11.Properties.C11_year_plus y dy Hy Hd Hr) as HH; ok_from HH).
Qed.
Print Assumptions C02_calendar_no_overflow.
End Cal.

(** * duration / time_point (C12): [Val _] = no signed overflow in intmax_t or the common representation, no
      division by zero, no loop out of fuel.  The [*_ok] predicates are the documented domain (exact result and the
      intermediates the code computes are representable). *)
Module Chrono.
Import C12.Model C12.Spec C12.ProofsCast.

Definition is_val {A} (r : out A) : Prop := exists a, r = Val a.

Theorem C02_duration_no_overflow : forall w1 n1 d1 w2 n2 d2,
  rep_ok w1 = true -> rep_ok w2 = true -> period_ok n1 d1 = true -> period_ok n2 d2 = true ->
  (forall c, cast_ok w1 n1 d1 w2 n2 d2 c = true -> is_val (duration_cast_m (Dur w1 n1 d1) (Dur w2 n2 d2) c)) /\
  (forall c, floor_ok w1 n1 d1 w2 n2 d2 c = true -> is_val (floor_m (Dur w1 n1 d1) (Dur w2 n2 d2) c)) /\
  (forall c, ceil_ok w1 n1 d1 w2 n2 d2 c = true -> is_val (ceil_m (Dur w1 n1 d1) (Dur w2 n2 d2) c)) /\
  (forall c, round_ok w1 n1 d1 w2 n2 d2 c = true -> is_val (round_m (Dur w1 n1 d1) (Dur w2 n2 d2) c)) /\
  (forall c1 c2, plus_ok w1 n1 d1 w2 n2 d2 c1 c2 = true -> is_val (plus_m (Dur w1 n1 d1) (Dur w2 n2 d2) c1 c2)) /\
  (forall c1 c2, minus_ok w1 n1 d1 w2 n2 d2 c1 c2 = true -> is_val (minus_m (Dur w1 n1 d1) (Dur w2 n2 d2) c1 c2)) /\
  (forall c1 c2, div_ok w1 n1 d1 w2 n2 d2 c1 c2 = true ->
     is_val (div_m (Dur w1 n1 d1) (Dur w2 n2 d2) c1 c2) /\ is_val (mod_m (Dur w1 n1 d1) (Dur w2 n2 d2) c1 c2)) /\
  (forall c1 c2, both_ok w1 n1 d1 w2 n2 d2 c1 c2 = true ->
     is_val (eq_m (Dur w1 n1 d1) (Dur w2 n2 d2) c1 c2) /\ is_val (lt_m (Dur w1 n1 d1) (Dur w2 n2 d2) c1 c2)).
Proof.
  intros w1 n1 d1 w2 n2 d2 Hw1 Hw2 Hp1 Hp2.
  split; [|split; [|split; [|split; [|split; [|split; [|split]]]]]].
  - intros c H. eexists. exact (C12.Properties.C12_duration_cast_trunc w1 n1 d1 w2 n2 d2 c Hw1 Hw2 Hp1 Hp2 H).
  - intros c H. eexists. exact (C12.Properties.C12_floor w1 n1 d1 w2 n2 d2 Hw1 Hw2 Hp1 Hp2 c H).
  - intros c H. eexists. exact (C12.Properties.C12_ceil w1 n1 d1 w2 n2 d2 Hw1 Hw2 Hp1 Hp2 c H).
  - intros c H. eexists. exact (C12.Properties.C12_round_half_even w1 n1 d1 w2 n2 d2 Hw1 Hw2 Hp1 Hp2 c H).
  - intros c1 c2 H. eexists. exact (C12.Properties.C12_plus w1 n1 d1 w2 n2 d2 Hw1 Hw2 Hp1 Hp2 c1 c2 H).
  - intros c1 c2 H. eexists. exact (C12.Properties.C12_minus w1 n1 d1 w2 n2 d2 Hw1 Hw2 Hp1 Hp2 c1 c2 H).
  - intros c1 c2 H. split; eexists.
    + exact (C12.Properties.C12_div w1 n1 d1 w2 n2 d2 Hw1 Hw2 Hp1 Hp2 c1 c2 H).
    + exact (C12.Properties.C12_mod w1 n1 d1 w2 n2 d2 Hw1 Hw2 Hp1 Hp2 c1 c2 H).
  - intros c1 c2 H. pose proof (C12.Properties.C12_compare w1 n1 d1 w2 n2 d2 Hw1 Hw2 Hp1 Hp2 c1 c2 H) as C.
    cbv zeta in C. destruct C as (E & _ & L & _). split; eexists; eassumption.
Qed.
Print Assumptions C02_duration_no_overflow.

(* the exact boundary of the domain of duration_cast over the whole source range: undefined (signed overflow in
   intmax_t) exactly when count * numerator of the reduced conversion factor does not fit; never undefined when the
   reduced factor is 1/k (milliseconds -> seconds, seconds -> hours, ...) *)
Theorem C02_duration_cast_ub_exactly : forall w1 n1 d1 w2 n2 d2 c,
  rep_ok w1 = true -> period_ok n1 d1 = true -> period_ok n2 d2 = true ->
  factor_num n1 d1 n2 d2 <= max64 -> factor_den n1 d1 n2 d2 <= max64 -> fits w1 c = true ->
  (fits 64 (c * factor_num n1 d1 n2 d2) = true -> is_val (duration_cast_m (Dur w1 n1 d1) (Dur w2 n2 d2) c)) /\
  (fits 64 (c * factor_num n1 d1 n2 d2) = false -> duration_cast_m (Dur w1 n1 d1) (Dur w2 n2 d2) c = Ub SignedOverflow) /\
  (factor_num n1 d1 n2 d2 = 1 -> is_val (duration_cast_m (Dur w1 n1 d1) (Dur w2 n2 d2) c)).
Proof.
  intros w1 n1 d1 w2 n2 d2 c Hw Hp1 Hp2 Ha Hb Hc.
  destruct (C12.Properties.C12_duration_cast_total w1 n1 d1 w2 n2 d2 c Hw Hp1 Hp2 Ha Hb Hc) as [T K].
  split; [|split].
  - intros F. rewrite F in T. eexists. exact T.
  - intros F. rewrite F in T. exact T.
  - intros F. eexists. exact (K F).
Qed.
Print Assumptions C02_duration_cast_ub_exactly.
End Chrono.

(** * <bit>, <numeric>, saturation, safe comparisons (C14) *)
Module Bit.
Import C14.Spec C14.Model C14.Arith.

(* every one of the eight integer types / four widths, EVERY value (limits included), every rotation count and bit
   position: no signed overflow, no shift by the width or more, no division by zero on the documented domain;
   a position >= digits and div_sat by zero are stopped by their TETL_PRECONDITION *)
Theorem C02_bit_numeric_no_ub :
  (forall t, WT t -> forall x y, in_ty t x = true -> in_ty t y = true ->
     returns_ok (add_sat_m t x y) /\ returns_ok (add_sat_fallback_m t x y) /\ no_ub (div_sat_m t x y) /\
     returns_ok (midpoint_m t x y)) /\
  (forall to from x, WT to -> WT from -> in_ty from x = true -> returns_ok (saturate_cast_m to from x)) /\
  (forall tm tn m n, WT tm -> WT tn -> in_ty tm m = true -> in_ty tn n = true ->
     (in_ty (common_type tm tn) (Z.gcd m n) = true -> returns_ok (gcd_m tm tn m n)) /\
     (in_ty (common_type tm tn) (Z.lcm m n) = true -> returns_ok (lcm_m tm tn m n))) /\
  (forall w, W w -> forall x s, 0 <= x < 2 ^ w -> returns_ok (rotl_m w x s) /\ returns_ok (rotr_m w x s)) /\
  (forall w, W w -> forall word pos, 0 <= word < 2 ^ w -> 0 <= pos ->
     no_ub (set_bit_m w word pos) /\ no_ub (reset_bit_m w word pos) /\ no_ub (flip_bit_m w word pos) /\
     no_ub (test_bit_m w word pos)) /\
  (forall w, W w -> forall x, 0 <= x < 2 ^ w ->
     returns_ok (popcount_m w x) /\ returns_ok (popcount_fallback_m w x) /\ returns_ok (has_single_bit_m w x) /\
     returns_ok (countl_zero_m w x) /\ returns_ok (countl_one_m w x) /\ returns_ok (countr_zero_m w x) /\
     returns_ok (countr_one_m w x) /\ returns_ok (bit_width_m w x) /\ returns_ok (bit_floor_m w x) /\
     (bit_ceil_dom w x = true -> returns_ok (bit_ceil_m w x))) /\
  (forall t x, WT t -> in_ty t x = true -> returns_ok (byteswap_m t x)).
Proof.
  destruct C14.Properties.C14_saturation_cmp as ((AS & DS & DC & SC) & _).
  destruct C14.Properties.C14_numeric as (MID & GL & _).
  destruct C14.Properties.C14_rot_single_bit as (ROT & SB).
  destruct C14.Properties.C14_byteswap as (BS & _).
  split; [|split; [|split; [|split; [|split; [|split]]]]].
  - intros t HT x y Hx Hy. destruct (AS t HT x y Hx Hy) as [A1 A2].
    split; [exact (ok_returns_ok _ _ _ A1)|]. split; [exact (ok_returns_ok _ _ _ A2)|].
    split; [|exact (ok_returns_ok _ _ _ (MID t HT x y Hx Hy))].
    destruct (Z.eq_dec y 0) as [->|N]; [exact (contract_no_ub _ _ (DC t x))|exact (ok_no_ub _ _ _ (DS t HT x y Hx Hy N))].
  - intros to from x H1 H2 H3. exact (ok_returns_ok _ _ _ (SC to from x H1 H2 H3)).
  - intros tm tn m n H1 H2 H3 H4. destruct (GL tm tn m n H1 H2 H3 H4) as [G L].
    split; intros H; [exact (ok_returns_ok _ _ _ (G H))|exact (ok_returns_ok _ _ _ (L H))].
  - intros w HW x s Hx. destruct (ROT w HW x s Hx) as (R1 & R2 & _).
    split; [exact (ok_returns_ok _ _ _ R1)|exact (ok_returns_ok _ _ _ R2)].
  - intros w HW word pos Hw Hp. destruct (SB w HW word pos Hw Hp) as [In Out].
    destruct (Z_lt_le_dec pos w) as [L|G].
    + destruct (In L) as (S1 & S2 & S3 & S4 & _). repeat split; try (intros k; rewrite ?S1, ?S2, ?S3, ?S4; discriminate);
        rewrite ?S1, ?S2, ?S3, ?S4; discriminate.
    + destruct (Out G) as (S1 & S2 & S3 & S4 & _). repeat split; try (intros k; rewrite ?S1, ?S2, ?S3, ?S4; discriminate);
        rewrite ?S1, ?S2, ?S3, ?S4; discriminate.
  - intros w HW x Hx. destruct (C14.Properties.C14_counts w HW x Hx) as ((P1 & P2 & P3) & (C1 & C2 & C3 & C4 & C5 & C6 & C7 & _)).
    repeat split; try (eapply ok_returns_ok; eassumption). intros D. exact (ok_returns_ok _ _ _ (C7 D)).
  - intros t x HT Hx. exact (ok_returns_ok _ _ _ (BS t x HT Hx)).
Qed.
Print Assumptions C02_bit_numeric_no_ub.

(* where the domain ends, exactly: abs(min) and idiv(min, -1) are signed overflow for int / long (and are computed
   in int, hence defined, for signed char / short); idiv by zero divides by zero (the code has no precondition:
   the caller's obligation); bit_ceil above 2^(w-1) shifts by the full width *)
Theorem C02_bit_numeric_ub_exactly :
  (forall t, WT t ->
     (sgn t = true -> 32 <= bits t -> abs_m t (imin t) = UB SignedOverflow /\ idiv_m t (imin t) (-1) = UB SignedOverflow) /\
     (sgn t = true -> bits t < 32 -> returns_ok (abs_m t (imin t)) /\ returns_ok (idiv_m t (imin t) (-1))) /\
     (forall x, idiv_m t x 0 = UB DivByZero) /\
     (forall x, in_ty t x = true -> in_ty t (Z.abs x) = true -> returns_ok (abs_m t x)) /\
     (forall x y, in_ty t x = true -> in_ty t y = true -> y <> 0 -> in_ty t (Z.quot x y) = true -> returns_ok (idiv_m t x y))) /\
  (forall w, W w -> forall x, 0 <= x < 2 ^ w -> bit_ceil_dom w x = false -> bit_ceil_m w x = UB BadShift).
Proof.
  destruct C14.Properties.C14_domain_and_spec as (OUT & _). destruct C14.Properties.C14_numeric as (_ & _ & NUM).
  split.
  - intros t HT. destruct (OUT t HT) as (O1 & O2 & O3 & _). destruct (NUM t HT) as (A & I & _).
    split; [exact O2|]. split; [|split; [exact O3|split]].
    + intros Hs Hb. destruct (O1 Hs Hb) as [E1 E2]. split; [exact (ok_returns_ok _ _ _ E1)|exact (ok_returns_ok _ _ _ E2)].
    + intros x H1 H2. exact (ok_returns_ok _ _ _ (A x H1 H2)).
    + intros x y H1 H2 H3 H4. exact (ok_returns_ok _ _ _ (I x y H1 H2 H3 H4)).
  - intros w HW x Hx D. destruct (C14.Properties.C14_counts w HW x Hx) as (_ & (_ & _ & _ & _ & _ & _ & _ & B)). exact (B D).
Qed.
Print Assumptions C02_bit_numeric_ub_exactly.
End Bit.

Example C02_arith_nonvacuous :
  C11.Spec.day_lo <= 19782 <= C11.Spec.day_hi /\ C11.Model.civil_from_days_m 19782 = Some (2024, 2, 29) /\
  C12.Spec.rep_ok 64 = true /\ C12.Spec.period_ok 1 1000 = true /\ C12.Spec.period_ok 1 1 = true /\
  C12.Spec.round_ok 64 1 1000 64 1 1 (-2500) = true /\
  C12.Model.round_m (C12.Model.Build_dty 64 1 1000) (C12.Model.Build_dty 64 1 1) (-2500) = C12.Model.Val (-2) /\
  C14.Arith.WT i64 /\ C14.Model.midpoint_m i64 (-9223372036854775808) 9223372036854775807 = Ok (-1) /\
  C14.Model.abs_m i32 (-2147483648) = UB SignedOverflow.
Proof.
  split; [vm_compute; split; discriminate|]. repeat split; try (vm_compute; reflexivity).
  right. right. right. reflexivity.
Qed.
