(* C11 core lemmas: the finite-check helper [all_from] (used by Era.v over the 366 days of a year and
   the 12 x 31 month/day pairs only), facts about the machine-integer helpers, is_leap / last day of
   month / ok().  Route of the range proofs: every statement about all days is reduced, by linear
   arithmetic on (era, doe), to three facts about the doe-only part of the code (Era.v). *)
From Tetl Require Import Lib.Base C11.Model C11.Spec.
From Coq Require Import ZifyBool.
Local Open Scope Z_scope.
Ltac Zify.zify_post_hook ::= Z.to_euclidean_division_equations.

(** * Generic sweep machinery *)
Fixpoint all_from (f : Z -> bool) (a : Z) (n : nat) : bool :=
  match n with O => true | S k => f a && all_from f (a + 1) k end.

Lemma all_from_spec f : forall n a, all_from f a n = true ->
  forall x, a <= x < a + Z.of_nat n -> f x = true.
Proof.
  induction n as [|n IH]; intros a H x Hx; cbn [all_from] in H.
  - lia.
  - apply andb_true_iff in H as [H1 H2].
    destruct (Z.eq_dec x a) as [->|Hne]; [exact H1|].
    apply (IH (a + 1) H2). lia.
Qed.

(** * Small facts about the machine-integer helpers *)
Lemma s32_some x : -2147483648 <= x <= 2147483647 -> s32 x = Some x.
Proof.
  intros H. unfold s32, chk, in_ty, imin, imax, i32, smin, smax; cbn [sgn bits].
  change (2 ^ (32 - 1)) with 2147483648.
  destruct (_ && _) eqn:E; [reflexivity|lia].
Qed.

Lemma s32_inv x y : s32 x = Some y -> y = x /\ -2147483648 <= x <= 2147483647.
Proof.
  unfold s32, chk, in_ty, imin, imax, i32, smin, smax; cbn [sgn bits].
  change (2 ^ (32 - 1)) with 2147483648.
  destruct (_ && _) eqn:E; intros H; inversion H; subst; lia.
Qed.

Lemma u32w_small x : 0 <= x < 4294967296 -> u32w x = x.
Proof. intros H. unfold u32w. apply Z.mod_small; lia. Qed.

Lemma u32w_wrapu x : u32w x = wrapu 32 x.
Proof. reflexivity. Qed.

Lemma wraps32_small x : -2147483648 <= x < 2147483648 -> wraps 32 x = x.
Proof.
  intros H. unfold wraps. change (2 ^ 32) with 4294967296. change (2 ^ (32 - 1)) with 2147483648.
  destruct (_ <? _) eqn:E; lia.
Qed.

Lemma wraps16_small x : -32768 <= x < 32768 -> wraps 16 x = x.
Proof.
  intros H. unfold wraps. change (2 ^ 16) with 65536. change (2 ^ (16 - 1)) with 32768.
  destruct (_ <? _) eqn:E; lia.
Qed.

Lemma wrapu8_small x : 0 <= x < 256 -> wrapu 8 x = x.
Proof. intros H. unfold wrapu. change (2 ^ 8) with 256. apply Z.mod_small; lia. Qed.

(** * is_leap, last day of month, ok() *)
Lemma is_leap_spec y : is_leap_m y = leap y.
Proof.
  unfold is_leap_m, leap.
  assert (H4 : (Z.rem y 4 =? 0) = (y mod 4 =? 0)) by lia.
  assert (H100 : (Z.rem y 100 =? 0) = (y mod 100 =? 0)) by lia.
  assert (H400 : (Z.rem y 400 =? 0) = (y mod 400 =? 0)) by lia.
  rewrite H4, H100, H400. reflexivity.
Qed.

Lemma last_day_spec y m : last_day_of_month_m y m = dim y m.
Proof. unfold last_day_of_month_m, dim. rewrite is_leap_spec. reflexivity. Qed.

Lemma leap_shift y k : leap (y + 400 * k) = leap y.
Proof.
  unfold leap.
  assert (H4 : ((y + 400 * k) mod 4 =? 0) = (y mod 4 =? 0)) by lia.
  assert (H100 : ((y + 400 * k) mod 100 =? 0) = (y mod 100 =? 0)) by lia.
  assert (H400 : ((y + 400 * k) mod 400 =? 0) = (y mod 400 =? 0)) by lia.
  rewrite H4, H100, H400. reflexivity.
Qed.

Lemma dim_shift y m k : dim (y + 400 * k) m = dim y m.
Proof. unfold dim. rewrite leap_shift. reflexivity. Qed.

Lemma dim_bounds y m : 28 <= dim y m <= 31.
Proof. unfold dim. repeat match goal with |- context [if ?b then _ else _] => destruct b end; lia. Qed.

(* ok() is true exactly for the dates that exist; year -32768 is the one stored value that is not ok *)
Lemma ymd_ok_spec y m d :
  -32767 <= y <= 32767 -> 0 <= m <= 255 -> 0 <= d <= 255 ->
  ymd_ok_m y m d = date_exists y m d.
Proof.
  intros Hy Hm Hd. unfold ymd_ok_m, date_exists, year_ok_m, month_ok_m.
  rewrite last_day_spec.
  destruct (y =? -32768) eqn:E1; [lia|]. cbn [negb orb].
  destruct ((0 <? m) && (m <=? 12)) eqn:E2; cbn [negb].
  - assert (H : (1 <=? m) && (m <=? 12) = true) by lia. rewrite H. cbn [andb]. reflexivity.
  - destruct ((1 <=? m) && (m <=? 12)) eqn:E3; [lia|]. reflexivity.
Qed.


Definition c01 (m : Z) : Z := if m <=? 2 then 1 else 0.

Definition cd (doe : Z) : Z * Z * Z :=
  let '(yoe, m, d) := civil_doe_m doe in (yoe + c01 m, m, d).

Definition tripleb (a b : Z * Z * Z) : bool :=
  let '(a1, a2, a3) := a in let '(b1, b2, b3) := b in (a1 =? b1) && (a2 =? b2) && (a3 =? b3).

Lemma tripleb_eq a b : tripleb a b = true -> a = b.
Proof. destruct a as [[a1 a2] a3], b as [[b1 b2] b3]. unfold tripleb. intros H. f_equal; [f_equal|]; lia. Qed.
