(* C11 proofs.  Route: every statement about all days is reduced, by linear arithmetic
   on (era, doe), to the three facts about the doe-only part of the code proved in Era.v
   (sweepA_spec, sweepB_spec, sweepC_spec: by arithmetic on the year of the era plus finite checks
   over the 366 days of a year). *)
From Tetl Require Import Lib.Base C11.Model C11.Spec C11.Core C11.Era.
From Coq Require Import ZifyBool.
Local Open Scope Z_scope.
Ltac Zify.zify_post_hook ::= Z.to_euclidean_division_equations.

(* the supported day range is exactly the set of days whose year is in -32767..32767 *)
Lemma range_equiv era doe yoe c :
  0 <= doe < 146097 -> 0 <= yoe <= 399 -> 0 <= c <= 1 ->
  365 * yoe + yoe / 4 - yoe / 100 + 306 * c <= doe <= 365 * yoe + yoe / 4 - yoe / 100 + 305 + 60 * c ->
  (day_lo <= 146097 * era + doe - 719468 <= day_hi <-> -32767 <= yoe + c + 400 * era <= 32767).
Proof. unfold day_lo, day_hi. intros Hd Hy Hc Hb. lia. Qed.

Lemma c01_range m : 0 <= c01 m <= 1.
Proof. unfold c01; destruct (m <=? 2); lia. Qed.

(** * civil_from_days on the whole supported range *)

(* the mathematical content of the code: split into era and day-of-era *)
Definition civil_pure (z : Z) : Z * Z * Z :=
  let z' := z + 719468 in
  let '(y, m, d) := cd (z' mod 146097) in (y + 400 * (z' / 146097), m, d).

Lemma civil_pure_fields z : day_lo <= z <= day_hi ->
  let '(y, m, d) := civil_pure z in
  -32767 <= y <= 32767 /\ 1 <= m <= 12 /\ 1 <= d <= dim y m.
Proof.
  intros Hz. unfold civil_pure, cd.
  set (z' := z + 719468). set (era := z' / 146097). set (doe := z' mod 146097).
  assert (Hd : 0 <= doe < 146097) by lia.
  pose proof (sweepA_spec doe Hd) as HA. unfold sweepA in HA.
  destruct (civil_doe_m doe) as [[yoe m] d].
  pose proof (c01_range m) as Hc.
  rewrite dim_shift.
  assert (Hr : -32767 <= yoe + c01 m + 400 * era <= 32767).
  { apply (range_equiv era doe yoe (c01 m)); lia. }
  lia.
Qed.

Lemma civil_m_pure z : day_lo <= z <= day_hi -> civil_from_days_m z = Some (civil_pure z).
Proof.
  intros Hz. pose proof (civil_pure_fields z Hz) as HF.
  unfold day_lo, day_hi in Hz. unfold civil_from_days_m. unfold civil_pure, cd in *.
  rewrite (s32_some (z + 719468)) by lia. cbn [obind].
  set (z' := z + 719468) in *.
  assert (Ht : (if z' >=? 0 then Some z' else s32 (z' - 146096))
               = Some (if z' >=? 0 then z' else z' - 146096)).
  { destruct (z' >=? 0); [reflexivity|]. apply s32_some. lia. }
  rewrite Ht. cbn [obind].
  assert (Hq : Z.quot (if z' >=? 0 then z' else z' - 146096) 146097 = z' / 146097).
  { destruct (z' >=? 0) eqn:E; lia. }
  rewrite Hq.
  set (era := z' / 146097) in *.
  assert (Hera : -88 <= era <= 84) by lia.
  rewrite (s32_some (era * 146097)) by lia. cbn [obind].
  rewrite (s32_some (z' - era * 146097)) by lia. cbn [obind].
  assert (Hdoe : z' - era * 146097 = z' mod 146097) by lia.
  rewrite Hdoe. set (doe := z' mod 146097) in *.
  assert (Hd : 0 <= doe < 146097) by lia.
  rewrite (u32w_small doe) by lia.
  pose proof (sweepA_spec doe Hd) as HA. unfold sweepA in HA.
  destruct (civil_doe_m doe) as [[yoe m] d].
  pose proof (dim_bounds (yoe + c01 m + 400 * era) m) as Hb.
  pose proof (c01_range m) as Hc.
  rewrite (s32_some (era * 400)) by lia. cbn [obind].
  rewrite (wraps32_small yoe) by lia.
  rewrite (s32_some (yoe + era * 400)) by lia. cbn [obind].
  fold (c01 m).
  rewrite (s32_some (yoe + era * 400 + c01 m)) by lia. cbn [obind].
  rewrite wraps16_small by lia. rewrite !wrapu8_small by lia.
  f_equal. f_equal. f_equal. lia.
Qed.

(** ** days_from_civil and the two round trips *)
Lemma days_m_pure y m d :
  -32768 <= y <= 32767 -> 1 <= m <= 12 -> 1 <= d <= dim y m ->
  let y1 := y - c01 m in
  days_from_civil_m y m d = Some (146097 * (y1 / 400) + doe_of_m (y1 mod 400) m d - 719468)
  /\ 0 <= doe_of_m (y1 mod 400) m d < 146097
  /\ civil_doe_m (doe_of_m (y1 mod 400) m d) = (y1 mod 400, m, d).
Proof.
  intros Hy Hm Hd y1. unfold days_from_civil_m. fold (c01 m). fold y1.
  pose proof (c01_range m) as Hc.
  rewrite (s32_some y1) by lia. cbn [obind].
  assert (Ht : (if y1 >=? 0 then Some y1 else s32 (y1 - 399))
               = Some (if y1 >=? 0 then y1 else y1 - 399)).
  { destruct (y1 >=? 0); [reflexivity|]. apply s32_some. lia. }
  rewrite Ht. cbn [obind].
  assert (Hq : Z.quot (if y1 >=? 0 then y1 else y1 - 399) 400 = y1 / 400).
  { destruct (y1 >=? 0) eqn:E; lia. }
  rewrite Hq. set (era := y1 / 400) in *.
  assert (Hera : -83 <= era <= 82) by lia.
  rewrite (s32_some (era * 400)) by lia. cbn [obind].
  rewrite (s32_some (y1 - era * 400)) by lia. cbn [obind].
  assert (Hyoe : y1 - era * 400 = y1 mod 400) by lia. rewrite Hyoe.
  set (yoe := y1 mod 400) in *. assert (Hy2 : 0 <= yoe <= 399) by lia.
  rewrite (u32w_small yoe) by lia.
  assert (Hdim : dim y m = dim (yoe + c01 m) m).
  { replace y with (yoe + c01 m + 400 * era) by lia. apply dim_shift. }
  destruct (sweepB_spec yoe m d Hy2 Hm ltac:(lia)) as [Hdoe Hciv].
  rewrite (s32_some (era * 146097)) by lia. cbn [obind].
  rewrite (wraps32_small (doe_of_m yoe m d)) by lia.
  rewrite (s32_some (era * 146097 + doe_of_m yoe m d)) by lia. cbn [obind].
  rewrite s32_some by lia.
  split; [f_equal; lia|]. split; assumption.
Qed.

Theorem civil_days_roundtrip z : day_lo <= z <= day_hi ->
  exists y m d, civil_from_days_m z = Some (y, m, d) /\ days_from_civil_m y m d = Some z.
Proof.
  intros Hz. rewrite (civil_m_pure z Hz).
  pose proof (civil_pure_fields z Hz) as HF.
  unfold civil_pure, cd in *.
  set (z' := z + 719468) in *. set (era := z' / 146097) in *. set (doe := z' mod 146097) in *.
  assert (Hd : 0 <= doe < 146097) by lia.
  pose proof (sweepA_spec doe Hd) as HA. unfold sweepA in HA.
  destruct (civil_doe_m doe) as [[yoe m] d] eqn:Ecd.
  exists (yoe + c01 m + 400 * era), m, d. split; [reflexivity|].
  destruct HF as (Hy & Hm & Hdd).
  destruct (days_m_pure (yoe + c01 m + 400 * era) m d ltac:(lia) Hm Hdd) as (H1 & _ & _). rewrite H1.
  f_equal.
  assert (E1 : (yoe + c01 m + 400 * era - c01 m) / 400 = era) by lia.
  assert (E2 : (yoe + c01 m + 400 * era - c01 m) mod 400 = yoe) by lia.
  rewrite E1, E2. lia.
Qed.

Theorem days_civil_roundtrip y m d :
  -32767 <= y <= 32767 -> date_exists y m d = true ->
  exists z, days_from_civil_m y m d = Some z /\ day_lo <= z <= day_hi
            /\ civil_from_days_m z = Some (y, m, d).
Proof.
  intros Hy He. unfold date_exists in He.
  assert (Hm : 1 <= m <= 12) by lia. assert (Hd : 1 <= d <= dim y m) by lia.
  destruct (days_m_pure y m d ltac:(lia) Hm Hd) as (H1 & Hdoe & Hciv).
  set (y1 := y - c01 m) in *. set (doe := doe_of_m (y1 mod 400) m d) in *.
  pose proof (c01_range m) as Hc.
  eexists. split; [exact H1|].
  set (z := 146097 * (y1 / 400) + doe - 719468).
  assert (Hera : (z + 719468) / 146097 = y1 / 400) by (unfold z; lia).
  assert (Hdoe2 : (z + 719468) mod 146097 = doe) by (unfold z; lia).
  pose proof (sweepA_spec doe Hdoe) as HA. unfold sweepA in HA. rewrite Hciv in HA.
  assert (Hz : day_lo <= z <= day_hi).
  { unfold z. apply (range_equiv (y1 / 400) doe (y1 mod 400) (c01 m)); lia. }
  split; [exact Hz|].
  rewrite (civil_m_pure z Hz). unfold civil_pure, cd. rewrite Hera, Hdoe2.
  rewrite Hciv. f_equal. f_equal. f_equal. lia.
Qed.
