(* C11 proofs, part 3: the field types (year, month, day, weekday(_indexed/_last)), ok() of the
   partial dates, year_month / year_month_day arithmetic.  Unbounded arithmetic proofs. *)
From Tetl Require Import Lib.Base C11.Model C11.Spec C11.Core C11.Proofs C11.Proofs2 C11.ModelCal C11.SpecCal.
From Coq Require Import ZifyBool.
Local Open Scope Z_scope.
Ltac Zify.zify_post_hook ::= Z.to_euclidean_division_equations.

Lemma of_opt_some {A} (a : A) : of_opt (Some a) = Ok a.
Proof. reflexivity. Qed.

Lemma neg32_ok x : -2147483647 <= x <= 2147483648 -> neg32_m x = Ok (- x).
Proof. intros H. unfold neg32_m. rewrite s32_some by lia. reflexivity. Qed.

(** * year *)
Lemma year_ok_spec_ok y : -32768 <= y <= 32767 -> year_ok_m y = year_ok_spec y.
Proof. intros H. unfold year_ok_m, year_ok_spec. lia. Qed.

Lemma year_ctor_id y : -32768 <= y <= 32767 -> year_ctor_m y = y.
Proof. intros H. apply wraps16_small. lia. Qed.

Lemma year_inc_ok y : -32768 <= y < 32767 -> year_inc_m y = y + 1.
Proof. intros H. apply wraps16_small. lia. Qed.
Lemma year_dec_ok y : -32768 < y <= 32767 -> year_dec_m y = y - 1.
Proof. intros H. apply wraps16_small. lia. Qed.
Lemma year_neg_ok y : -32768 < y <= 32767 -> year_neg_m y = - y.
Proof. intros H. apply wraps16_small. lia. Qed.

Lemma year_plus_r_ok y dy :
  -32768 <= y <= 32767 -> -2147483648 <= dy <= 2147483647 -> -32768 <= y + dy <= 32767 ->
  year_plus_r y dy = Ok (y + dy).
Proof. intros Hy Hd Hr. unfold year_plus_r. rewrite year_plus_spec_ok by assumption. reflexivity. Qed.

Lemma year_add_assign_ok y dy :
  -32768 <= y <= 32767 -> -2147483648 <= dy <= 2147483647 -> -32768 <= y + dy <= 32767 ->
  year_add_assign_m y dy = Ok (y + dy).
Proof.
  intros Hy Hd Hr. unfold year_add_assign_m. rewrite s32_some by lia. cbn [of_opt rbind].
  rewrite wraps16_small by lia. reflexivity.
Qed.
Lemma year_sub_assign_ok y dy :
  -32768 <= y <= 32767 -> -2147483648 <= dy <= 2147483647 -> -32768 <= y - dy <= 32767 ->
  year_sub_assign_m y dy = Ok (y - dy).
Proof.
  intros Hy Hd Hr. unfold year_sub_assign_m. rewrite s32_some by lia. cbn [of_opt rbind].
  rewrite wraps16_small by lia. reflexivity.
Qed.
Lemma year_minus_years_ok y dy :
  -32768 <= y <= 32767 -> -2147483647 <= dy <= 2147483647 -> -32768 <= y - dy <= 32767 ->
  year_minus_years_m y dy = Ok (y - dy).
Proof.
  intros Hy Hd Hr. unfold year_minus_years_m. rewrite neg32_ok by lia. cbn [rbind].
  rewrite year_plus_r_ok by lia. f_equal; lia.
Qed.
Lemma year_diff_ok a b : -32768 <= a <= 32767 -> -32768 <= b <= 32767 -> year_diff_m a b = Ok (a - b).
Proof. intros Ha Hb. unfold year_diff_m. rewrite s32_some by lia. reflexivity. Qed.

Lemma cmp6_ok a b : cmp6_m a b = cmp6_spec a b.
Proof. unfold cmp6_m, cmp6_spec. rewrite Z.gtb_ltb, Z.geb_leb. reflexivity. Qed.

(** * month: defined for every stored value 0..255, every delta *)
Lemma month_ctor_ok m : 0 <= m <= 255 -> month_ctor_m m = Ok m.
Proof.
  intros H. unfold month_ctor_m. destruct (m <=? 255) eqn:E; [|lia]. rewrite wrapu8_small by lia. reflexivity.
Qed.
Lemma day_ctor_ok d : 0 <= d <= 255 -> day_ctor_m d = Ok d.
Proof. exact (month_ctor_ok d). Qed.

Lemma month_ok_spec_ok m : month_ok_m m = month_ok_spec m.
Proof. unfold month_ok_m, month_ok_spec. lia. Qed.

Lemma month_plus_r_ok m dm : 0 <= m <= 255 -> -2147483648 < dm <= 2147483647 ->
  month_plus_r m dm = Ok (month_plus_spec m dm).
Proof.
  intros Hm Hd. unfold month_plus_r, month_plus_spec. rewrite s32_some by lia. cbn [of_opt rbind].
  set (mo := m + (dm - 1)).
  assert (Hq : Z.quot (if mo >=? 0 then mo else mo - 11) 12 = mo / 12).
  { destruct (mo >=? 0) eqn:E; lia. }
  rewrite Hq.
  assert (Hr : mo - mo / 12 * 12 + 1 = (m - 1 + dm) mod 12 + 1) by (unfold mo; lia).
  rewrite Hr. unfold wrapu. change (2 ^ 32) with 4294967296.
  rewrite (Z.mod_small _ 4294967296) by lia. apply month_ctor_ok. lia.
Qed.

Lemma month_plus_r_m m dm : 0 <= m <= 255 -> -2147483648 < dm <= 2147483647 ->
  month_plus_r m dm = Ok (month_plus_m m dm).
Proof.
  intros Hm Hd. unfold month_plus_r, month_plus_m. rewrite s32_some by lia. cbn [of_opt rbind].
  set (mo := m + (dm - 1)).
  assert (Hq : Z.quot (if mo >=? 0 then mo else mo - 11) 12 = mo / 12).
  { destruct (mo >=? 0) eqn:E; lia. }
  rewrite Hq.
  assert (Hr : mo - mo / 12 * 12 + 1 = (m - 1 + dm) mod 12 + 1) by (unfold mo; lia).
  rewrite Hr.
  assert (Hw : wrapu 32 ((m - 1 + dm) mod 12 + 1) = (m - 1 + dm) mod 12 + 1).
  { unfold wrapu. change (2 ^ 32) with 4294967296. apply Z.mod_small. lia. }
  rewrite Hw. rewrite month_ctor_ok by lia. rewrite wrapu8_small by lia. reflexivity.
Qed.

Lemma month_minus_months_ok m dm : 0 <= m <= 255 -> -2147483648 < dm < 2147483648 ->
  month_minus_months_m m dm = Ok (month_minus_months_spec m dm).
Proof.
  intros Hm Hd. unfold month_minus_months_m. rewrite neg32_ok by lia. cbn [rbind].
  rewrite month_plus_r_ok by lia. unfold month_plus_spec, month_minus_months_spec. first [reflexivity | do 3 f_equal; lia].
Qed.

Lemma month_incdec_ok m : 0 <= m <= 255 ->
  month_incdec_m m = Ok (let p := month_plus_spec m 1 in let q := month_minus_months_spec m 1 in [p; p; m; p; q; q; m; q]).
Proof.
  intros Hm. unfold month_incdec_m. rewrite month_plus_r_ok by lia. cbn [rbind].
  rewrite month_minus_months_ok by lia. reflexivity.
Qed.

(** * day *)
Lemma day_ok_spec_ok d : 0 <= d <= 255 -> day_ok_m d = day_ok_spec d.
Proof. intros H. unfold day_ok_m, day_ok_spec. lia. Qed.

Lemma day_plus_ok d dd : 0 <= d <= 255 -> -2147483648 <= dd <= 2147483647 -> 0 <= d + dd <= 255 ->
  day_plus_m d dd = Ok (d + dd).
Proof.
  intros Hd Hdd Hr. unfold day_plus_m.
  assert (E : u32w (d + u32w dd) = d + dd) by (unfold u32w; lia).
  rewrite E. apply day_ctor_ok. lia.
Qed.
Lemma day_minus_days_ok d dd : 0 <= d <= 255 -> -2147483648 <= dd <= 2147483647 -> 0 <= d - dd <= 255 ->
  day_minus_days_m d dd = Ok (d - dd).
Proof.
  intros Hd Hdd Hr. unfold day_minus_days_m.
  assert (E : u32w (d - u32w dd) = d - dd) by (unfold u32w; lia).
  rewrite E. apply day_ctor_ok. lia.
Qed.
(* outside 0..255 the operator fires the constructor's precondition (never wraps silently) *)
Lemma day_plus_contract d dd : 0 <= d <= 255 -> -2147483648 <= dd <= 2147483647 -> ~ (0 <= d + dd <= 255) ->
  day_plus_m d dd = Contract.
Proof.
  intros Hd Hdd Hr. unfold day_plus_m, day_ctor_m.
  destruct (u32w (d + u32w dd) <=? 255) eqn:E; [|reflexivity]. unfold u32w in E. lia.
Qed.
Lemma day_add_assign_ok d dd : 0 <= d <= 255 -> day_add_assign_m d dd = (d + dd) mod 256.
Proof. intros Hd. unfold day_add_assign_m, wrapu. change (2 ^ 8) with 256. lia. Qed.
Lemma day_sub_assign_ok d dd : 0 <= d <= 255 -> day_sub_assign_m d dd = (d - dd) mod 256.
Proof. intros Hd. unfold day_sub_assign_m, wrapu. change (2 ^ 8) with 256. lia. Qed.

(* values the stored type cannot hold are rejected (and only those) *)
Lemma day_ctor_contract d : 255 < d -> day_ctor_m d = Contract /\ month_ctor_m d = Contract.
Proof. intros H. unfold day_ctor_m, month_ctor_m. destruct (d <=? 255) eqn:E; [lia|]. split; reflexivity. Qed.

(** * weekday, weekday_indexed, weekday_last *)
Lemma weekday_ok_spec_ok w : 0 <= w <= 255 -> weekday_ok_m w = weekday_ok_spec w.
Proof. intros H. unfold weekday_ok_m, weekday_ok_spec. lia. Qed.
Lemma weekday_ctor_ok w : 0 <= w <= 255 -> weekday_ctor_m w = (if w =? 7 then 0 else w).
Proof. intros H. unfold weekday_ctor_m. destruct (w =? 7); apply wrapu8_small; lia. Qed.
Lemma wdi_ok_spec_ok w idx : 0 <= w <= 255 -> wdi_ok_m w idx = wdi_ok_spec w idx.
Proof. intros H. unfold wdi_ok_m, wdi_ok_spec. rewrite weekday_ok_spec_ok by lia. rewrite andb_assoc. reflexivity. Qed.

(** * month_day::ok (February counts 29 days), month_day_last, month_weekday(_last) *)
Lemma md_ok_spec_ok m d : 0 <= d <= 255 -> md_ok_m m d = md_exists m d.
Proof.
  intros Hd. unfold md_ok_m, md_exists. rewrite month_ok_spec_ok. unfold month_ok_spec.
  destruct ((1 <=? m) && (m <=? 12)) eqn:Em; cbn [negb andb]; [|reflexivity].
  assert (Hm : m = 1 \/ m = 2 \/ m = 3 \/ m = 4 \/ m = 5 \/ m = 6 \/ m = 7 \/ m = 8 \/ m = 9 \/ m = 10 \/ m = 11 \/ m = 12) by lia.
  destruct Hm as [->|[->|[->|[->|[->|[->|[->|[->|[->|[->|[->| ->]]]]]]]]]]];
    (match goal with |- context [nth ?n md_table 0] =>
       let v := eval vm_compute in (nth n md_table 0) in change (nth n md_table 0) with v end);
    (match goal with |- context [if ?c then 29 else dim 1 ?k] =>
       let v := eval vm_compute in (if c then 29 else dim 1 k) in change (if c then 29 else dim 1 k) with v end);
    destruct (d <? 1) eqn:E1; lia.
Qed.
Lemma mwd_ok_spec_ok m w idx : 0 <= w <= 255 -> mwd_ok_m m w idx = month_ok_spec m && wdi_ok_spec w idx.
Proof. intros H. unfold mwd_ok_m. rewrite month_ok_spec_ok, wdi_ok_spec_ok by lia. reflexivity. Qed.
Lemma mwdl_ok_spec_ok m w : 0 <= w <= 255 -> mwdl_ok_m m w = month_ok_spec m && weekday_ok_spec w.
Proof. intros H. unfold mwdl_ok_m, wdl_ok_m. rewrite month_ok_spec_ok, weekday_ok_spec_ok by lia. reflexivity. Qed.

(** * year_month *)
Lemma ym_ok_spec_ok y m : -32768 <= y <= 32767 -> ym_ok_m y m = year_ok_spec y && month_ok_spec m.
Proof. intros H. unfold ym_ok_m. rewrite year_ok_spec_ok, month_ok_spec_ok by lia. reflexivity. Qed.

Lemma ym_plus_months_ok y m dm :
  -32767 <= y <= 32767 -> 1 <= m <= 12 -> -2147483647 <= dm <= 2147483647 ->
  -32768 <= fst (year_month_plus_spec y m dm) <= 32767 ->
  ym_plus_months_r y m dm = Ok (year_month_plus_spec y m dm).
Proof. intros. unfold ym_plus_months_r. rewrite year_month_plus_spec_ok by assumption. reflexivity. Qed.

Lemma ym_minus_months_ok y m dm :
  -32767 <= y <= 32767 -> 1 <= m <= 12 -> -2147483647 <= dm <= 2147483647 ->
  -32768 <= fst (year_month_plus_spec y m (- dm)) <= 32767 ->
  ym_minus_months_m y m dm = Ok (year_month_plus_spec y m (- dm)).
Proof.
  intros Hy Hm Hd Hr. unfold ym_minus_months_m. rewrite neg32_ok by lia. cbn [rbind].
  apply ym_plus_months_ok; try assumption; lia.
Qed.

Lemma ym_plus_years_ok y m dy :
  -32768 <= y <= 32767 -> -2147483648 <= dy <= 2147483647 -> -32768 <= y + dy <= 32767 ->
  ym_plus_years_m y m dy = Ok (y + dy, m).
Proof. intros. unfold ym_plus_years_m. rewrite year_plus_r_ok by assumption. reflexivity. Qed.
Lemma ym_minus_years_ok y m dy :
  -32768 <= y <= 32767 -> -2147483647 <= dy <= 2147483647 -> -32768 <= y - dy <= 32767 ->
  ym_minus_years_m y m dy = Ok (y - dy, m).
Proof. intros. unfold ym_minus_years_m. rewrite year_minus_years_ok by assumption. reflexivity. Qed.

(** * year_month_day +/- months, years: the day is kept; ok() afterwards is "the date exists" *)
Theorem ymd_plus_months_ok y m d dm :
  -32767 <= y <= 32767 -> 1 <= m <= 12 -> 0 <= d <= 255 -> -2147483647 <= dm <= 2147483647 ->
  -32767 <= fst (year_month_plus_spec y m dm) <= 32767 ->
  ymd_plus_months_m y m d dm = Ok (ymd_plus_months_spec y m d dm)
  /\ (let '(y', m', d') := ymd_plus_months_spec y m d dm in
      d' = d /\ ymd_ok_m y' m' d' = date_exists y' m' d').
Proof.
  intros Hy Hm Hd Hdm Hr. unfold ymd_plus_months_m, ymd_plus_months_spec.
  rewrite ym_plus_months_ok by (try assumption; lia). cbn [rbind].
  destruct (year_month_plus_spec y m dm) as [y' m'] eqn:E. cbn [fst snd] in *.
  split; [reflexivity|]. split; [reflexivity|].
  apply ymd_ok_spec; try lia. unfold year_month_plus_spec in E. inversion E. lia.
Qed.

Theorem ymd_minus_months_ok y m d dm :
  -32767 <= y <= 32767 -> 1 <= m <= 12 -> 0 <= d <= 255 -> -2147483647 <= dm <= 2147483647 ->
  -32767 <= fst (year_month_plus_spec y m (- dm)) <= 32767 ->
  ymd_minus_months_m y m d dm = Ok (ymd_plus_months_spec y m d (- dm)).
Proof.
  intros Hy Hm Hd Hdm Hr. unfold ymd_minus_months_m. rewrite neg32_ok by lia. cbn [rbind].
  apply ymd_plus_months_ok; try assumption; lia.
Qed.

Theorem ymd_plus_years_ok y m d dy :
  -32768 <= y <= 32767 -> -2147483648 <= dy <= 2147483647 -> -32768 <= y + dy <= 32767 ->
  ymd_plus_years_m y m d dy = Ok (ymd_plus_years_spec y m d dy).
Proof. intros. unfold ymd_plus_years_m, ymd_plus_years_spec. rewrite year_plus_r_ok by assumption. reflexivity. Qed.

Theorem ymd_minus_years_ok y m d dy :
  -32768 <= y <= 32767 -> -2147483647 <= dy <= 2147483647 -> -32768 <= y - dy <= 32767 ->
  ymd_minus_years_m y m d dy = Ok (ymd_plus_years_spec y m d (- dy)).
Proof.
  intros Hy Hd Hr. unfold ymd_minus_years_m. rewrite neg32_ok by lia. cbn [rbind].
  rewrite ymd_plus_years_ok by lia. reflexivity.
Qed.

(* == on the composite types is component-wise equality of the stored values *)
Lemma eq2_ok a b : eq2_m a b = true <-> a = b.
Proof. destruct a, b. unfold eq2_m. cbn [fst snd]. split; [intros H; f_equal; lia | intros H; inversion H; lia]. Qed.
Lemma eq3_ok a b : eq3_m a b = true <-> a = b.
Proof.
  destruct a as [[a1 a2] a3], b as [[b1 b2] b3]. unfold eq3_m. cbn [fst snd].
  split; [intros H; repeat f_equal; lia | intros H; inversion H; lia].
Qed.
Lemma eq4_ok a b : eq4_m a b = true <-> a = b.
Proof.
  destruct a as [[[a1 a2] a3] a4], b as [[[b1 b2] b3] b4]. unfold eq4_m.
  split; [intros H; repeat f_equal; lia | intros H; inversion H; lia].
Qed.
