(* C11, translator tie: the definitions REGENERATED from /repo's current source by
   translate/cxx2gallina.py (coq/Gen/Gen_chrono.v) are equal to the hand-written model for all
   arguments.  Proof method: both sides run the same checked operations in the same order, so
   destructing each `chk` in lockstep leaves syntactically equal terms.  A semantic edit of the C++
   kernel changes the generated term and breaks these proofs (then ./check searches for a failing input). *)
From Tetl Require Import Lib.Base C11.Model.
From Tetl Require Gen.Gen_chrono.
From Coq Require Import ZifyBool.
Local Open Scope Z_scope.
Ltac Zify.zify_post_hook ::= Z.to_euclidean_division_equations.

(* bring both sides to one spelling of the wrap-around operations *)
Ltac norm_wrap :=
  cbv [wrap_ty wrapu wraps sgn bits i8 u8 i16 u16 i32 u32 i64 u64 u32w s32];
  change (2 ^ 8) with 256; change (2 ^ 16) with 65536; change (2 ^ 32) with 4294967296;
  change (2 ^ 64) with 18446744073709551616;
  change (2 ^ (8 - 1)) with 128; change (2 ^ (16 - 1)) with 32768; change (2 ^ (32 - 1)) with 2147483648;
  change (2 ^ (64 - 1)) with 9223372036854775808.

Ltac lockstep :=
  repeat first
    [ reflexivity
    | match goal with
      | |- context [chk ?t ?x] => destruct (chk t x) eqn:?; cbn [obind]
      | |- context [obind (if ?b then _ else _) _] => destruct b eqn:?; cbn [obind]
      end ].

Theorem gen_civil_from_days_eq : forall z, Gen_chrono.civil_from_days_g z = civil_from_days_m z.
Proof.
  intros z. unfold Gen_chrono.civil_from_days_g, civil_from_days_m, civil_doe_m.
  cbv zeta. norm_wrap. lockstep.
Qed.

Theorem gen_days_from_civil_eq : forall y m d, Gen_chrono.days_from_civil_g y m d = days_from_civil_m y m d.
Proof.
  intros y m d. unfold Gen_chrono.days_from_civil_g, days_from_civil_m, doe_of_m.
  cbv zeta. norm_wrap. lockstep.
Qed.

Theorem gen_weekday_from_days_eq : forall tp, Gen_chrono.weekday_from_days_g tp = weekday_from_days_m tp.
Proof.
  intros tp. unfold Gen_chrono.weekday_from_days_g, weekday_from_days_m.
  norm_wrap. destruct (tp >=? -4) eqn:E; cbn [obind]; lockstep.
Qed.

Theorem gen_is_leap_eq : forall y, Gen_chrono.is_leap_g y = Some (is_leap_m y).
Proof. intros y. reflexivity. Qed.

Lemma chk_i64_some x : -9223372036854775808 <= x <= 9223372036854775807 -> chk i64 x = Some x.
Proof.
  intros H. unfold chk, in_ty, imin, imax, i64, smin, smax; cbn [sgn bits].
  change (2 ^ (64 - 1)) with 9223372036854775808.
  destruct (_ && _) eqn:E; [reflexivity|lia].
Qed.

(* weekday::add_days computes in long long: no overflow for a uint8 weekday and an int32 day count *)
Theorem gen_weekday_add_days_eq : forall wd d, 0 <= wd <= 255 -> -2147483648 <= d <= 2147483647 ->
  Gen_chrono.weekday_add_days_g wd d = Some (weekday_add_days_m wd d).
Proof.
  intros wd d Hw Hd. unfold Gen_chrono.weekday_add_days_g, weekday_add_days_m.
  rewrite (chk_i64_some (wd + d)) by lia. cbn [obind].
  set (wdu := wd + d) in *.
  assert (Ht : (if wdu >=? 0 then Some wdu else chk i64 (wdu - 6)) = Some (if wdu >=? 0 then wdu else wdu - 6)).
  { destruct (wdu >=? 0); [reflexivity|]. apply chk_i64_some. unfold wdu. lia. }
  rewrite Ht. cbn [obind].
  set (wk := Z.quot (if wdu >=? 0 then wdu else wdu - 6) 7).
  assert (Hwk : -400000000 <= wk <= 400000000) by (unfold wk, wdu; destruct (wd + d >=? 0) eqn:E; lia).
  rewrite (chk_i64_some (wk * 7)) by lia. cbn [obind].
  rewrite (chk_i64_some (wdu - wk * 7)) by (unfold wdu; lia). cbn [obind].
  reflexivity.
Qed.
