(* C11, translator tie: the definitions REGENERATED from /repo's current source by
   translate/cxx2gallina.py (coq/Gen/Gen_chrono.v) are equal to the hand-written model for all
   arguments.  Proof method: both sides run the same checked operations in the same order, so
   destructing each `chk` in lockstep leaves syntactically equal terms.  A semantic edit of the C++
   kernel changes the generated term and breaks these proofs (then ./check searches for a failing input). *)
From Tetl Require Import Lib.Base C11.Model.
From Tetl Require Gen.Gen_chrono.
From Coq Require Import ZifyBool.
Local Open Scope Z_scope.
Ltac Zify.zify_post_hook ::= Z.to_euclidean_division_equations.

(* bring both sides to one spelling of the wrap-around operations *)
Ltac norm_wrap :=
  cbv [wrap_ty wrapu wraps sgn bits i8 u8 i16 u16 i32 u32 i64 u64 u32w s32 s64];
  change (2 ^ 8) with 256; change (2 ^ 16) with 65536; change (2 ^ 32) with 4294967296;
  change (2 ^ 64) with 18446744073709551616;
  change (2 ^ (8 - 1)) with 128; change (2 ^ (16 - 1)) with 32768; change (2 ^ (32 - 1)) with 2147483648;
  change (2 ^ (64 - 1)) with 9223372036854775808.

(* one spelling for comparisons, so that a harmless respelling of a condition in the C++ (`not (a >= b)` for
   `a < b`, `not (c < 0) ? x : y` for `c >= 0 ? x : y`) does not break the tie (review round): only <=? and <?,
   no negation directly over a comparison or over the condition of an if *)
Lemma bn_negb_leb a b : negb (a <=? b) = (b <? a). Proof. symmetry. apply Z.ltb_antisym. Qed.
Lemma bn_negb_ltb a b : negb (a <? b) = (b <=? a). Proof. symmetry. apply Z.leb_antisym. Qed.
Lemma bn_if_negb {A} (c : bool) (x y : A) : (if negb c then x else y) = (if c then y else x).
Proof. destruct c; reflexivity. Qed.
Ltac bnorm :=
  repeat first [ rewrite Z.geb_leb | rewrite Z.gtb_ltb | rewrite bn_negb_leb | rewrite bn_negb_ltb
               | rewrite bn_if_negb | rewrite Bool.negb_involutive ].
(* last resort for pure boolean kernels (is_leap): decide by cases on the atoms (reordered and / or) *)
Ltac bool_cases :=
  repeat match goal with |- context [Z.eqb ?a ?b] => destruct (Z.eqb a b) end; reflexivity.

Ltac lockstep :=
  repeat first
    [ reflexivity
    | progress bnorm
    | match goal with
      | |- context [chk ?t ?x] => destruct (chk t x) eqn:?; cbn [obind]
      | |- context [obind (if ?b then _ else _) _] => destruct b eqn:?; cbn [obind]
      end ].

Theorem gen_civil_from_days_eq : forall z, Gen_chrono.civil_from_days_g z = civil_from_days_m z.
Proof.
  intros z. unfold Gen_chrono.civil_from_days_g, civil_from_days_m, civil_doe_m.
  cbv zeta. norm_wrap. lockstep.
Qed.

Theorem gen_days_from_civil_eq : forall y m d, Gen_chrono.days_from_civil_g y m d = days_from_civil_m y m d.
Proof.
  intros y m d. unfold Gen_chrono.days_from_civil_g, days_from_civil_m, doe_of_m.
  cbv zeta. norm_wrap. lockstep.
Qed.

Theorem gen_weekday_from_days_eq : forall tp, Gen_chrono.weekday_from_days_g tp = weekday_from_days_m tp.
Proof.
  intros tp. unfold Gen_chrono.weekday_from_days_g, weekday_from_days_m.
  cbv zeta. norm_wrap. destruct (tp >=? -4) eqn:E; cbn [obind]; lockstep.
Qed.

Theorem gen_is_leap_eq : forall y, Gen_chrono.is_leap_g y = Some (is_leap_m y).
Proof. intros y. first [reflexivity | unfold Gen_chrono.is_leap_g, is_leap_m; cbv zeta; bool_cases]. Qed.

Lemma chk_i64_some x : -9223372036854775808 <= x <= 9223372036854775807 -> chk i64 x = Some x.
Proof.
  intros H. unfold chk, in_ty, imin, imax, i64, smin, smax; cbn [sgn bits].
  change (2 ^ (64 - 1)) with 9223372036854775808.
  destruct (_ && _) eqn:E; [reflexivity|lia].
Qed.

(* weekday::add_days computes in long long: no overflow for a uint8 weekday and an int32 day count *)
Theorem gen_weekday_add_days_eq : forall wd d, 0 <= wd <= 255 -> -2147483648 <= d <= 2147483647 ->
  Gen_chrono.weekday_add_days_g wd d = Some (weekday_add_days_m wd d).
Proof.
  intros wd d Hw Hd. unfold Gen_chrono.weekday_add_days_g, weekday_add_days_m.
  rewrite (chk_i64_some (wd + d)) by lia. cbn [obind].
  set (wdu := wd + d) in *.
  assert (Ht : (if wdu >=? 0 then Some wdu else chk i64 (wdu - 6)) = Some (if wdu >=? 0 then wdu else wdu - 6)).
  { destruct (wdu >=? 0); [reflexivity|]. apply chk_i64_some. unfold wdu. lia. }
  rewrite Ht. cbn [obind].
  set (wk := Z.quot (if wdu >=? 0 then wdu else wdu - 6) 7).
  assert (Hwk : -400000000 <= wk <= 400000000) by (unfold wk, wdu; destruct (wd + d >=? 0) eqn:E; lia).
  rewrite (chk_i64_some (wk * 7)) by lia. cbn [obind].
  rewrite (chk_i64_some (wdu - wk * 7)) by (unfold wdu; lia). cbn [obind].
  reflexivity.
Qed.

Lemma chk_i32_some x : -2147483648 <= x <= 2147483647 -> chk i32 x = Some x.
Proof.
  intros H. unfold chk, in_ty, imin, imax, i32, smin, smax; cbn [sgn bits].
  change (2 ^ (32 - 1)) with 2147483648.
  destruct (_ && _) eqn:E; [reflexivity|lia].
Qed.

(* operator+(month, months): the one checked operation that can overflow is `ms.count() - 1` in int
   (months::min(), as in the standard's own formula); everything else is computed in long long *)
Theorem gen_month_plus_eq : forall m dm, 0 <= m <= 255 -> -2147483648 < dm <= 2147483647 ->
  Gen_chrono.month_plus_g m dm = Some (month_plus_m m dm).
Proof.
  intros m dm Hm Hd. unfold Gen_chrono.month_plus_g, month_plus_m.
  rewrite (chk_i32_some (dm - 1)) by lia. cbn [obind].
  rewrite (chk_i64_some (m + (dm - 1))) by lia. cbn [obind]. cbv zeta.
  set (mo := m + (dm - 1)) in *.
  assert (Ht : (if mo >=? 0 then Some mo else chk i64 (mo - 11)) = Some (if mo >=? 0 then mo else mo - 11)).
  { destruct (mo >=? 0); [reflexivity|]. apply chk_i64_some. unfold mo. lia. }
  rewrite Ht. cbn [obind].
  set (dv := Z.quot (if mo >=? 0 then mo else mo - 11) 12).
  assert (Hdv : -200000000 <= dv <= 200000000) by (unfold dv, mo; destruct (m + (dm - 1) >=? 0) eqn:E; lia).
  rewrite (chk_i64_some (dv * 12)) by lia. cbn [obind].
  rewrite (chk_i64_some (mo - dv * 12)) by (unfold mo; lia). cbn [obind].
  rewrite (chk_i64_some (mo - dv * 12 + 1)) by (unfold mo; lia). cbn [obind].
  reflexivity.
Qed.

Theorem gen_month_minus_eq : forall m1 m2, Gen_chrono.month_minus_g m1 m2 = Some (month_minus_m m1 m2).
Proof.
  intros m1 m2. first [reflexivity | unfold Gen_chrono.month_minus_g, month_minus_m; cbv zeta; norm_wrap; bnorm; reflexivity].
Qed.

Theorem gen_weekday_diff_eq : forall a b, Gen_chrono.weekday_diff_g a b = Some (weekday_diff_m a b).
Proof.
  intros a b. unfold Gen_chrono.weekday_diff_g, weekday_diff_m. cbv zeta.
  change (wrap_ty i32 (wrap_ty u32 (a - b))) with (wraps 32 (u32w (a - b))).
  set (c := wraps 32 (u32w (a - b))).
  assert (Hc : -2147483648 <= c <= 2147483647).
  { unfold c, wraps. change (2 ^ 32) with 4294967296. change (2 ^ (32 - 1)) with 2147483648.
    set (r := u32w (a - b) mod 4294967296). assert (0 <= r < 4294967296) by (unfold r; lia).
    destruct (r <? 2147483648) eqn:E; lia. }
  bnorm. destruct (0 <=? c) eqn:E; cbn [obind]; [reflexivity|].
  rewrite (chk_i32_some (c + 7)) by lia. reflexivity.
Qed.

(** * part 2: year / day arithmetic kernels (ModelCal.v) *)
From Tetl Require Import C11.ModelCal.

Theorem gen_year_plus_eq : forall y dy, Gen_chrono.year_plus_g y dy = year_plus_m y dy.
Proof. intros y dy. reflexivity. Qed.

Theorem gen_year_diff_eq : forall a b, of_opt (Gen_chrono.year_diff_g a b) = year_diff_m a b.
Proof.
  intros a b. unfold Gen_chrono.year_diff_g, year_diff_m, s32.
  destruct (chk i32 (a - b)); reflexivity.
Qed.

(* operator+(day, days) / operator-(day, days): the value handed to the day constructor; the
   constructor's TETL_PRECONDITION (modelled in day_ctor_m) is not part of the regenerated kernel *)
Theorem gen_day_plus_eq : forall d dd,
  day_plus_m d dd = Contract \/ of_opt (Gen_chrono.day_plus_g d dd) = day_plus_m d dd.
Proof.
  intros d dd. unfold Gen_chrono.day_plus_g, day_plus_m, day_ctor_m.
  destruct (_ <=? 255); [right; reflexivity|left; reflexivity].
Qed.

Theorem gen_day_minus_days_eq : forall d dd,
  day_minus_days_m d dd = Contract \/ of_opt (Gen_chrono.day_minus_days_g d dd) = day_minus_days_m d dd.
Proof.
  intros d dd. unfold Gen_chrono.day_minus_days_g, day_minus_days_m, day_ctor_m.
  destruct (_ <=? 255); [right; reflexivity|left; reflexivity].
Qed.

Theorem gen_day_diff_eq : forall a b, 0 <= a <= 255 -> 0 <= b <= 255 ->
  Gen_chrono.day_diff_g a b = Some (day_diff_m a b).
Proof.
  intros a b Ha Hb. unfold Gen_chrono.day_diff_g, day_diff_m.
  assert (Ea : wrap_ty i32 a = a).
  { cbv [wrap_ty sgn bits i32 wraps]. change (2 ^ 32) with 4294967296. change (2 ^ (32 - 1)) with 2147483648.
    destruct (_ <? _) eqn:E; lia. }
  assert (Eb : wrap_ty i32 b = b).
  { cbv [wrap_ty sgn bits i32 wraps]. change (2 ^ 32) with 4294967296. change (2 ^ (32 - 1)) with 2147483648.
    destruct (_ <? _) eqn:E; lia. }
  rewrite Ea, Eb. rewrite chk_i32_some by lia. reflexivity.
Qed.

Theorem gen_weekday_iso_eq : forall w, Gen_chrono.weekday_iso_g w = Some (weekday_iso_m w).
Proof. intros w. reflexivity. Qed.
