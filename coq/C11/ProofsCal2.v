(* C11 proofs, part 4: days_from_civil for EVERY stored day value (0..255, not only existing
   dates) is the textbook day count days_spec = days before the year + days before the month
   + d - 1; sys_days <-> year_month_day through the public constructor / conversion operator. *)
From Tetl Require Import Lib.Base C11.Model C11.Spec C11.Core C11.Proofs C11.Proofs2 C11.ModelCal C11.SpecCal C11.ProofsCal.
From Coq Require Import ZifyBool.
Local Open Scope Z_scope.
Ltac Zify.zify_post_hook ::= Z.to_euclidean_division_equations.
Definition mm_of (m : Z) : Z := if m >? 2 then m - 3 else m + 9.

Lemma doe_linear yoe m d : 0 <= yoe <= 399 -> 1 <= m <= 12 -> 0 <= d <= 255 ->
  wraps 32 (doe_of_m yoe m d) = 365 * yoe + yoe / 4 - yoe / 100 + (153 * mm_of m + 2) / 5 + d - 1.
Proof.
  intros Hy Hm Hd. unfold doe_of_m, mm_of.
  assert (Hmm : (if m >? 2 then u32w (m - 3) else u32w (m + 9)) = (if m >? 2 then m - 3 else m + 9)).
  { destruct (m >? 2) eqn:E; apply u32w_small; lia. }
  rewrite Hmm. set (mm := if m >? 2 then m - 3 else m + 9).
  assert (Hmmr : 0 <= mm <= 11) by (unfold mm; destruct (m >? 2) eqn:E; lia).
  rewrite (u32w_small (153 * mm)) by lia. rewrite (u32w_small (153 * mm + 2)) by lia.
  assert (Hq : Z.quot (153 * mm + 2) 5 = (153 * mm + 2) / 5) by lia. rewrite Hq.
  set (A := (153 * mm + 2) / 5). assert (HA : 0 <= A <= 337) by (unfold A; lia).
  rewrite (u32w_small (yoe * 365)) by lia.
  assert (Hq4 : Z.quot yoe 4 = yoe / 4) by lia. assert (Hq100 : Z.quot yoe 100 = yoe / 100) by lia.
  rewrite Hq4, Hq100.
  rewrite (u32w_small (yoe * 365 + yoe / 4)) by lia.
  rewrite (u32w_small (yoe * 365 + yoe / 4 - yoe / 100)) by lia.
  set (B := yoe * 365 + yoe / 4 - yoe / 100). assert (HB : 0 <= B <= 146000) by (unfold B; lia).
  unfold u32w, wraps. change (2 ^ 32) with 4294967296. change (2 ^ (32 - 1)) with 2147483648.
  destruct (_ <? 2147483648) eqn:E; lia.
Qed.

Lemma days_any_pure y m d :
  -32768 <= y <= 32767 -> 1 <= m <= 12 -> 0 <= d <= 255 ->
  let y1 := y - c01 m in let yoe := y1 mod 400 in
  days_from_civil_m y m d =
    Some (146097 * (y1 / 400) + (365 * yoe + yoe / 4 - yoe / 100 + (153 * mm_of m + 2) / 5 + d - 1) - 719468).
Proof.
  intros Hy Hm Hd y1 yoe. unfold days_from_civil_m. fold (c01 m). fold y1.
  pose proof (c01_range m) as Hc.
  rewrite (s32_some y1) by lia. cbn [obind].
  assert (Ht : (if y1 >=? 0 then Some y1 else s32 (y1 - 399))
               = Some (if y1 >=? 0 then y1 else y1 - 399)).
  { destruct (y1 >=? 0); [reflexivity|]. apply s32_some. lia. }
  rewrite Ht. cbn [obind].
  assert (Hq : Z.quot (if y1 >=? 0 then y1 else y1 - 399) 400 = y1 / 400).
  { destruct (y1 >=? 0) eqn:E; lia. }
  rewrite Hq. set (era := y1 / 400) in *.
  assert (Hera : -83 <= era <= 82) by lia.
  rewrite (s32_some (era * 400)) by lia. cbn [obind].
  rewrite (s32_some (y1 - era * 400)) by lia. cbn [obind].
  assert (Hyoe : y1 - era * 400 = yoe) by (unfold yoe; lia). rewrite Hyoe.
  assert (Hy2 : 0 <= yoe <= 399) by (unfold yoe; lia).
  rewrite (u32w_small yoe) by lia.
  rewrite (s32_some (era * 146097)) by lia. cbn [obind].
  rewrite (doe_linear yoe m d Hy2 Hm Hd).
  assert (HA : 0 <= (153 * mm_of m + 2) / 5 <= 337) by (unfold mm_of; destruct (m >? 2) eqn:E; lia).
  set (A := (153 * mm_of m + 2) / 5) in *.
  rewrite s32_some by lia. cbn [obind]. rewrite s32_some by lia.
  f_equal. lia.
Qed.

(* days_from_civil is the textbook day count, for every stored day value (also day 0 and
   days past the end of the month: [time.cal.ymd.members] sys_days{y/m/1} + (d - 1)) *)
Theorem days_textbook y m d :
  -32768 <= y <= 32767 -> 1 <= m <= 12 -> 0 <= d <= 255 ->
  days_from_civil_m y m d = Some (days_spec y m d).
Proof.
  intros Hy Hm Hd. rewrite (days_any_pure y m d Hy Hm Hd). cbv zeta. f_equal.
  unfold days_spec, days_before_year, leaps_before, days_before_month, leap, mm_of, c01.
  assert (Hc : m = 1 \/ m = 2 \/ m = 3 \/ m = 4 \/ m = 5 \/ m = 6 \/ m = 7 \/ m = 8 \/ m = 9 \/ m = 10 \/ m = 11 \/ m = 12) by lia.
  destruct Hc as [->|[->|[->|[->|[->|[->|[->|[->|[->|[->|[->| ->]]]]]]]]]]];
    (match goal with |- context [nth ?n cum_table 0] =>
       let v := eval vm_compute in (nth n cum_table 0) in change (nth n cum_table 0) with v end);
    cbn [Z.leb Z.gtb Z.ltb Z.compare Pos.compare Pos.compare_cont andb];
    try (destruct ((y mod 4 =? 0) && (negb (y mod 100 =? 0) || (y mod 400 =? 0))) eqn:EL); lia.
Qed.

Ltac case_month m H :=
  assert (H : m = 1 \/ m = 2 \/ m = 3 \/ m = 4 \/ m = 5 \/ m = 6 \/ m = 7 \/ m = 8 \/ m = 9 \/ m = 10 \/ m = 11 \/ m = 12) by lia;
  destruct H as [->|[->|[->|[->|[->|[->|[->|[->|[->|[->|[->| ->]]]]]]]]]]].

Lemma days_spec_linear y m d : days_spec y m d = days_spec y m 1 + (d - 1).
Proof. unfold days_spec. lia. Qed.

Lemma days_before_month_bounds y m : 1 <= m <= 12 -> 0 <= days_before_month y m <= 335.
Proof.
  intros Hm. unfold days_before_month. case_month m Hc;
    (match goal with |- context [nth ?n cum_table 0] =>
       let v := eval vm_compute in (nth n cum_table 0) in change (nth n cum_table 0) with v end);
    destruct (leap y); cbn [Z.ltb Z.compare Pos.compare Pos.compare_cont andb]; lia.
Qed.

Lemma days_spec_bounds y m d : -32768 <= y <= 32767 -> 1 <= m <= 12 -> 0 <= d <= 255 ->
  -12700000 <= days_spec y m d <= 11300000.
Proof.
  intros Hy Hm Hd. pose proof (days_before_month_bounds y m Hm) as Hb.
  unfold days_spec, days_before_year, leaps_before. lia.
Qed.

(** * the public conversions *)
(* year_month_day{sys_days} is the Gregorian date of the day *)
Theorem ymd_from_days_ok z : day_lo <= z <= day_hi -> ymd_from_days_m z = Ok (greg z).
Proof. intros Hz. unfold ymd_from_days_m, greg. rewrite civil_is_gregorian by exact Hz. reflexivity. Qed.

Theorem ymd_to_days_ok y m d : -32768 <= y <= 32767 -> 1 <= m <= 12 -> 0 <= d <= 255 ->
  ymd_to_days_m y m d = Ok (days_spec y m d).
Proof. intros. unfold ymd_to_days_m. rewrite days_textbook by assumption. reflexivity. Qed.

Lemma greg_fields z : day_lo <= z <= day_hi ->
  let '(y, m, d) := greg z in -32767 <= y <= 32767 /\ 1 <= m <= 12 /\ 1 <= d <= dim y m.
Proof.
  intros Hz. pose proof (civil_is_gregorian z Hz) as H1. fold (greg z) in H1.
  rewrite (civil_m_pure z Hz) in H1. inversion H1 as [H2]. apply (civil_pure_fields z Hz).
Qed.

(* the day number of the Gregorian date of z is z *)
Theorem greg_days z : day_lo <= z <= day_hi ->
  let '(y, m, d) := greg z in days_spec y m d = z.
Proof.
  intros Hz. pose proof (greg_fields z Hz) as HF.
  destruct (civil_days_roundtrip z Hz) as (y & m & d & H1 & H2).
  pose proof (civil_is_gregorian z Hz) as H3. fold (greg z) in H3. rewrite H1 in H3. inversion H3 as [H4].
  rewrite <- H4 in HF. destruct HF as (Hy & Hm & Hd).
  pose proof (dim_bounds y m) as Hb.
  rewrite days_textbook in H2 by lia. inversion H2. reflexivity.
Qed.

(* every existing date of the supported years is the Gregorian date of its textbook day number *)
Theorem days_greg y m d : -32767 <= y <= 32767 -> date_exists y m d = true ->
  day_lo <= days_spec y m d <= day_hi /\ greg (days_spec y m d) = (y, m, d).
Proof.
  intros Hy He. destruct (days_civil_roundtrip y m d Hy He) as (z & H1 & Hz & H2).
  unfold date_exists in He. pose proof (dim_bounds y m) as Hb.
  rewrite days_textbook in H1 by lia. inversion H1 as [H3]. rewrite <- H3 in *.
  split; [exact Hz|].
  pose proof (civil_is_gregorian _ Hz) as H4. fold (greg (days_spec y m d)) in H4.
  rewrite H2 in H4. inversion H4. reflexivity.
Qed.

(* [time.cal.ymd.members]: for ok year and month and ANY day value the conversion is
   sys_days{y/m/1} + (d - 1) *)
Theorem ymd_to_days_any y m d : -32768 <= y <= 32767 -> 1 <= m <= 12 -> 0 <= d <= 255 ->
  exists z1, ymd_to_days_m y m 1 = Ok z1 /\ ymd_to_days_m y m d = Ok (z1 + (d - 1)).
Proof.
  intros Hy Hm Hd. exists (days_spec y m 1). rewrite !ymd_to_days_ok by lia.
  split; [reflexivity|]. f_equal. apply days_spec_linear.
Qed.

(** * the length of a month / a year as a difference of day numbers *)
Lemma leap_cases y : leap y = true \/ leap y = false.
Proof. destruct (leap y); [left|right]; reflexivity. Qed.

Theorem month_length y m : 1 <= m <= 12 ->
  let '(y', m') := year_month_plus_spec y m 1 in days_spec y' m' 1 - days_spec y m 1 = dim y m.
Proof.
  intros Hm. unfold year_month_plus_spec.
  case_month m Hc;
    (match goal with |- context [(?a - 1 + 1) / 12] =>
       let q := eval vm_compute in ((a - 1 + 1) / 12) in change ((a - 1 + 1) / 12) with q;
       let r := eval vm_compute in ((a - 1 + 1) mod 12 + 1) in change ((a - 1 + 1) mod 12 + 1) with r end);
    unfold days_spec, days_before_month, dim;
    repeat (match goal with |- context [nth ?n cum_table 0] =>
       let v := eval vm_compute in (nth n cum_table 0) in change (nth n cum_table 0) with v end);
    cbn [Z.ltb Z.eqb Z.compare Pos.compare Pos.compare_cont Pos.eqb andb orb];
    rewrite ?Z.add_0_r;
    try (unfold days_before_year, leaps_before);
    destruct (leap_cases y) as [E|E]; try rewrite E; cbn [andb];
    try (unfold leap in E); try lia.
Qed.

Theorem year_length y : days_spec (y + 1) 1 1 - days_spec y 1 1 = 365 + (if leap y then 1 else 0).
Proof.
  unfold days_spec, days_before_month, days_before_year, leaps_before.
  change (nth (Z.to_nat (1 - 1)) cum_table 0) with 0. cbn [Z.ltb Z.compare Pos.compare Pos.compare_cont andb].
  destruct (leap_cases y) as [E|E]; rewrite E; unfold leap in E; lia.
Qed.
