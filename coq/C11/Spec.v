(* C11 specification: the proleptic Gregorian calendar, written as a day-by-day walker
   that never mentions eras, 153-day month groups or any of the code's arithmetic. *)
From Tetl Require Import Lib.Base.
Local Open Scope Z_scope.

Definition leap (y : Z) : bool :=
  (y mod 4 =? 0) && (negb (y mod 100 =? 0) || (y mod 400 =? 0)).

Definition dim (y m : Z) : Z :=
  if m =? 2 then (if leap y then 29 else 28)
  else if (m =? 4) || (m =? 6) || (m =? 9) || (m =? 11) then 30 else 31.

Definition date_exists (y m d : Z) : bool :=
  (1 <=? m) && (m <=? 12) && (1 <=? d) && (d <=? dim y m).

Definition next_day (t : Z * Z * Z) : Z * Z * Z :=
  let '(y, m, d) := t in
  if d <? dim y m then (y, m, d + 1)
  else if m <? 12 then (y, m + 1, 1)
  else (y + 1, 1, 1).

(* the civil date of day number z >= 0 counted from 1970-01-01 *)
Fixpoint walk (n : nat) (t : Z * Z * Z) : Z * Z * Z :=
  match n with O => t | S k => next_day (walk k t) end.

Definition epoch : Z * Z * Z := (1970, 1, 1).

(* weekday of day number z (0 = Sunday); 1970-01-01 was a Thursday *)
Definition weekday_of (z : Z) : Z := (z + 4) mod 7.

(* month arithmetic per [time.cal.month.nonmembers]: result month in 1..12 *)
Definition month_plus_spec (m dm : Z) : Z := (m - 1 + dm) mod 12 + 1.
Definition month_minus_spec (m1 m2 : Z) : Z := (m1 - m2) mod 12.
(* [time.cal.ym.nonmembers]: carry = floor division *)
Definition year_month_plus_spec (y m dm : Z) : Z * Z :=
  (y + (m - 1 + dm) / 12, (m - 1 + dm) mod 12 + 1).
Definition weekday_plus_spec (w dd : Z) : Z := (w + dd) mod 7.
Definition weekday_diff_spec (a b : Z) : Z := (a - b) mod 7.

(* the supported range: all days of the years -32767 .. 32767 *)
Definition day_lo : Z := -12687428.   (* -32767-01-01 *)
Definition day_hi : Z := 11248737.    (* 32767-12-31 *)
