(* C11, review round — statements that close gaps found by the second-engineer review (props/C11/REVIEW.md):
   every STORED value (year -32768, weekday 0..255, month 0..255) instead of only the ok() ones, the table-based
   last_day_of_month the code really runs, absence of undefined behaviour of the _weekday / _last conversions on
   arbitrary stored fields, and the release build (no contract checks) of the day / month constructors.
   Property theorems only (proofs in ProofsRev.v); bundled, one Print Assumptions each. *)
From Tetl Require Import Lib.Base C11.Model C11.Spec C11.Proofs2 C11.ModelCal C11.SpecCal C11.ModelRev C11.ProofsRev.
From Tetl Require Gen.Gen_chrono.
Local Open Scope Z_scope.

Theorem C11_rev_every_stored_value :
  (* year_month_day::ok() for every stored year, -32768 included: ok() = the year is ok and the date exists *)
  (forall y m d, -32768 <= y <= 32767 -> 0 <= m <= 255 -> 0 <= d <= 255 ->
     ymd_ok_m y m d = year_ok_spec y && date_exists y m d)
  /\
  (* detail::last_day_of_month as coded (leap February, day 0 outside 1..12, table): every year, every stored
     month; for an ok month it is the value year_month_day::ok() compares the day with *)
  (forall y m, 0 <= m <= 255 ->
     last_day_r y m = Ok (if month_ok_spec m then dim y m else 0)
     /\ (month_ok_m m = true -> last_day_r y m = Ok (last_day_of_month_m y m)))
  /\
  (* weekday + days, weekday - days, ++ / -- (returned value, value left behind): modulo 7 of the stored value,
     for EVERY stored weekday (ok() or not) and every delta; the result is always an ok() weekday *)
  (forall w dd,
     weekday_plus_m w dd = weekday_plus_spec w dd /\ weekday_minus_days_m w dd = weekday_plus_spec w (- dd)
     /\ weekday_incdec_m w = (let p := weekday_plus_spec w 1 in let q := weekday_plus_spec w (-1) in [p; p; w; p; q; q; w; q])
     /\ 0 <= weekday_plus_spec w dd <= 6)
  /\
  (* day - days outside 0..255 fires the constructor's precondition (companion of C11_day_ops) *)
  (forall d dd, 0 <= d <= 255 -> -2147483648 <= dd <= 2147483647 -> ~ (0 <= d - dd <= 255) ->
     day_minus_days_m d dd = Contract)
  /\
  (* weekday{sys_days} / weekday{local_days} for EVERY int32 day count, the last four included (the code widens
     to long long before `tp + 4`; C11_weekday_from_days is the statement of the int version and stops at INT32_MAX - 4) *)
  (forall z, -2147483648 <= z <= 2147483647 -> weekday_from_days_m z = Some (weekday_of z)).
Proof. exact (conj ymd_ok_any (conj last_day_r_any (conj weekday_ops_any (conj day_minus_contract weekday_from_days_all)))). Qed.
Print Assumptions C11_rev_every_stored_value.

(* no signed overflow / no out-of-bounds read for ANY stored field values (months 0, 13..255, weekdays 7..255,
   year -32768, every index): operator sys_days of year_month_weekday, year_month_weekday_last,
   year_month_day_last, year_month_day{ymdl}, year_month_weekday::ok(); year_month_weekday{sys_days} for every
   day count civil_from_days accepts.  (Values outside the ok() domain are unspecified by the standard.) *)
Theorem C11_rev_no_ub_on_stored_fields :
  (forall y m w idx, -32768 <= y <= 32767 -> 0 <= m <= 255 -> 0 <= w <= 255 -> 0 <= idx <= 255 ->
     (exists z, ymwd_to_days_m y m w idx = Ok z) /\ (exists z, ymwdl_to_days_m y m w = Ok z)
     /\ (exists z, ymdl_to_days_m y m = Ok z) /\ (exists t, ymdl_to_ymd_m y m = Ok t)
     /\ (exists b, ymwd_ok_m y m w idx = Ok b))
  /\
  (forall z, -2147483648 <= z <= 2146764179 -> exists r, ymwd_from_days_m z = Ok r).
Proof. exact (conj no_ub_any_stored ymwd_from_days_total). Qed.
Print Assumptions C11_rev_no_ub_on_stored_fields.

(* release build (TETL_PRECONDITION compiled out): the checked model either stops with Contract or returns
   exactly the release value; the regenerated kernels (translator, which does not see the macro) ARE the
   release functions; inside 0..255 the constructors are the identity in both builds *)
Theorem C11_rev_release_build :
  (forall v,
     (day_ctor_m v = Ok (day_ctor_nc v) \/ day_ctor_m v = Contract)
     /\ (month_ctor_m v = Ok (month_ctor_nc v) \/ month_ctor_m v = Contract)
     /\ (0 <= v <= 255 -> day_ctor_nc v = v /\ month_ctor_nc v = v))
  /\
  (forall d dd,
     (day_plus_m d dd = Ok (day_plus_nc d dd) \/ day_plus_m d dd = Contract)
     /\ (day_minus_days_m d dd = Ok (day_minus_days_nc d dd) \/ day_minus_days_m d dd = Contract)
     /\ Gen_chrono.day_plus_g d dd = Some (day_plus_nc d dd)
     /\ Gen_chrono.day_minus_days_g d dd = Some (day_minus_days_nc d dd))
  /\
  (forall y m d, ym_slash_int_m y m d = Ok (ym_slash_int_nc y m d) \/ ym_slash_int_m y m d = Contract).
Proof. exact (conj ctor_release (conj day_ops_release ym_slash_release)). Qed.
Print Assumptions C11_rev_release_build.

Example C11_rev_nonvacuous :
  ymd_ok_m (-32768) 1 1 = false /\ date_exists (-32768) 1 1 = true
  /\ last_day_r 2024 2 = Ok 29 /\ last_day_r 2023 13 = Ok 0 /\ last_day_r 1900 2 = Ok 28
  /\ weekday_plus_m 255 1 = 4 /\ weekday_minus_days_m 200 (-2147483648) = 6
  /\ day_minus_days_m 0 1 = Contract /\ day_minus_days_nc 0 1 = 255 /\ day_plus_nc 255 1 = 0
  /\ weekday_from_days_m 2147483647 = Some 5
  /\ ymwd_to_days_m (-32768) 255 255 255 = Ok (-12677995) /\ ymwdl_to_days_m 2024 0 9 = Ok 19689.
Proof. vm_compute. repeat split; congruence. Qed.
