(* C11, translator tie, part 2: the calendar TYPES.  coq/Gen/Gen_calendar.v is regenerated on every run from /repo's
   current source by translate/cxx2gallina.py with the configuration translate/kernels_calendar.json (records carried
   field by field, constructors translated from their definitions, calls inlined from the callee's definition, the
   three big kernels of Gen_chrono.v called by name).  Every definition is proved equal to the hand model of
   Model.v / ModelCal.v for ALL arguments of the stated domain (stored values: year int16, month / day / weekday /
   index uint8; deltas int32 — where a range is not needed it is not assumed).  A semantic edit of the C++ changes
   the generated term and breaks these proofs. *)
From Tetl Require Import Lib.Base C11.Model C11.ModelCal C11.GenEquiv.
From Tetl Require Gen.Gen_chrono Gen.Gen_calendar.
From Coq Require Import ZifyBool List.
Import ListNotations.
Local Open Scope Z_scope.
Ltac Zify.zify_post_hook ::= Z.to_euclidean_division_equations.

Module G := Gen_calendar.

(** * the three kernels listed again (so that Gen_calendar.v is self-contained): the same text as in Gen_chrono.v *)
Lemma cal_civil_from_days z : G.civil_from_days_g z = civil_from_days_m z.
Proof.
  transitivity (Gen_chrono.civil_from_days_g z); [|apply gen_civil_from_days_eq].
  unfold G.civil_from_days_g, Gen_chrono.civil_from_days_g. reflexivity.
Qed.
Lemma cal_days_from_civil y m d : G.days_from_civil_g y m d = days_from_civil_m y m d.
Proof.
  transitivity (Gen_chrono.days_from_civil_g y m d); [|apply gen_days_from_civil_eq].
  unfold G.days_from_civil_g, Gen_chrono.days_from_civil_g. reflexivity.
Qed.
Lemma cal_weekday_from_days tp : G.weekday_from_days_g tp = weekday_from_days_m tp.
Proof.
  transitivity (Gen_chrono.weekday_from_days_g tp); [|apply gen_weekday_from_days_eq].
  unfold G.weekday_from_days_g, Gen_chrono.weekday_from_days_g. reflexivity.
Qed.

(** * helpers *)
Lemma chk_i32_inv x v : chk i32 x = Some v -> v = x /\ -2147483648 <= x <= 2147483647.
Proof.
  unfold chk, in_ty, imin, imax, i32, smin, smax; cbn [sgn bits].
  change (2 ^ (32 - 1)) with 2147483648.
  destruct (_ && _) eqn:E; [|discriminate]. intros H. inversion H. lia.
Qed.

Lemma wrap_i32_id x : -2147483648 <= x <= 2147483647 -> wrap_ty i32 x = x.
Proof.
  intros H. cbv [wrap_ty sgn bits i32 wraps]. change (2 ^ 32) with 4294967296. change (2 ^ (32 - 1)) with 2147483648.
  destruct (_ <? _) eqn:E; lia.
Qed.
Lemma wrap_u32_id x : 0 <= x <= 4294967295 -> wrap_ty u32 x = x.
Proof. intros H. cbv [wrap_ty sgn bits u32 wrapu]. change (2 ^ 32) with 4294967296. lia. Qed.
Lemma wrap_u8_id x : 0 <= x <= 255 -> wrap_ty u8 x = x.
Proof. intros H. cbv [wrap_ty sgn bits u8 wrapu]. change (2 ^ 8) with 256. lia. Qed.
Lemma wrap_u32_u32w x : wrap_ty u32 x = u32w x.
Proof. reflexivity. Qed.
Lemma wrap_i32_range x : -2147483648 <= wrap_ty i32 x <= 2147483647.
Proof.
  cbv [wrap_ty sgn bits i32 wraps]. change (2 ^ 32) with 4294967296. change (2 ^ (32 - 1)) with 2147483648.
  destruct (_ <? _) eqn:E; lia.
Qed.

(* the inlined body of operator-(weekday, weekday): never overflows *)
Lemma wd_diff_inl {A} a b (f : Z -> option A) :
  (do t <- (if wrap_ty i32 (wrap_ty u32 (a - b)) >=? 0 then Some (wrap_ty i32 (wrap_ty u32 (a - b)))
            else chk i32 (wrap_ty i32 (wrap_ty u32 (a - b)) + 7)); f t) = f (weekday_diff_m a b).
Proof.
  unfold weekday_diff_m. change (wraps 32 (u32w (a - b))) with (wrap_ty i32 (wrap_ty u32 (a - b))).
  pose proof (wrap_i32_range (wrap_ty u32 (a - b))) as Hc. set (c := wrap_ty i32 (wrap_ty u32 (a - b))) in *.
  cbv zeta. destruct (c >=? 0) eqn:E; cbn [obind]; [reflexivity|].
  rewrite chk_i32_some by lia. reflexivity.
Qed.

Lemma of_opt_bind {A B} (o : option A) (f : A -> option B) :
  of_opt (obind o f) = rbind (of_opt o) (fun a => of_opt (f a)).
Proof. destruct o; reflexivity. Qed.

(** * detail::last_day_of_month / year_month_day_last::day(): February of a leap year, day 0 for a month outside
      1..12, else the table (whose index is then inside it) — for EVERY year and month value *)
Definition ld_val (y m : Z) : Z :=
  if (m =? 2) && is_leap_m y then 29 else if negb (month_ok_m m) then 0 else nth (Z.to_nat (m - 1)) ld_table 0.

Lemma ld_val_ok y m : last_day_r y m = Ok (ld_val y m).
Proof. unfold last_day_r, ld_val. destruct (_ && _); [reflexivity|]. destruct (negb _); reflexivity. Qed.

Theorem gen_last_day_of_month_eq : forall y m, G.last_day_of_month_g y m = Some (ld_val y m).
Proof.
  intros y m. unfold G.last_day_of_month_g, ld_val, is_leap_m, month_ok_m.
  change (wrap_ty u8 2) with 2. bnorm.
  destruct ((m =? 2) && _) eqn:E1; [reflexivity|].
  destruct ((0 <? m) && (m <=? 12)) eqn:E2; cbn [negb]; [|reflexivity].
  assert (Hm : m = 1 \/ m = 2 \/ m = 3 \/ m = 4 \/ m = 5 \/ m = 6 \/ m = 7 \/ m = 8 \/ m = 9 \/ m = 10 \/ m = 11 \/ m = 12) by lia.
  clear E1 E2. repeat (destruct Hm as [Hm|Hm]; [subst m; reflexivity|]). subst m; reflexivity.
Qed.

Theorem gen_ymdl_day_eq : forall y m, of_opt (G.ymdl_day_g y m) = ymdl_day_m y m.
Proof.
  intros y m. unfold ymdl_day_m. rewrite ld_val_ok.
  pose proof (gen_last_day_of_month_eq y m) as H. unfold G.last_day_of_month_g in H.
  unfold G.ymdl_day_g. rewrite H. reflexivity.
Qed.

(** * year_month_day -> sys_days *)
Theorem gen_ymd_to_sys_days_eq : forall y m d, of_opt (G.ymd_to_sys_days_g y m d) = ymd_to_days_m y m d.
Proof.
  intros y m d. unfold G.ymd_to_sys_days_g, ymd_to_days_m. rewrite cal_days_from_civil.
  destruct (days_from_civil_m y m d); reflexivity.
Qed.

(** * year_month_weekday{sys_days}: index = (day - 1) / 7 + 1 *)
Definition flat4 (v : Z * Z * (Z * Z)) : Z * Z * Z * Z := let '(y, m, (w, i)) := v in (y, m, w, i).

Theorem gen_ymwd_from_sys_days_eq : forall z,
  of_opt (option_map flat4 (G.ymwd_from_sys_days_g z)) = ymwd_from_days_m z.
Proof.
  intros z. unfold G.ymwd_from_sys_days_g, ymwd_from_days_m, ymd_from_days_m, wdi_ctor_m.
  rewrite cal_civil_from_days, cal_weekday_from_days.
  destruct (civil_from_days_m z) as [[[y m] d]|]; cbn [obind of_opt rbind]; [|reflexivity].
  destruct (weekday_from_days_m z) as [w|]; cbn [obind of_opt rbind option_map flat4]; reflexivity.
Qed.

(** * year_month_weekday -> sys_days, for every stored field value *)
Theorem gen_ymwd_to_sys_days_eq : forall y m w idx, 0 <= idx <= 255 ->
  of_opt (G.ymwd_to_sys_days_g y m w idx) = ymwd_to_days_m y m w idx.
Proof.
  intros y m w idx Hi. unfold G.ymwd_to_sys_days_g, ymwd_to_days_m, ym_slash_int_m, day_ctor_m, ymd_to_days_m.
  change (u32w 1) with 1. change (1 <=? 255) with true. cbv iota. cbn [rbind].
  change (wrap_ty u8 (wrap_ty u32 1)) with (wrapu 8 1).
  rewrite cal_days_from_civil.
  destruct (days_from_civil_m y m (wrapu 8 1)) as [z1|]; cbn [obind of_opt rbind]; [|reflexivity].
  cbv zeta. rewrite cal_weekday_from_days.
  destruct (weekday_from_days_m z1) as [fw|]; cbn [obind of_opt rbind]; [|reflexivity].
  rewrite wd_diff_inl.
  rewrite (wrap_i32_id idx) by lia.
  rewrite (chk_i32_some (idx - 1)) by lia. cbn [obind].
  rewrite (chk_i32_some ((idx - 1) * 7)) by lia. cbn [obind].
  unfold s32. rewrite (chk_i32_some ((idx - 1) * 7)) by lia. cbn [of_opt rbind].
  destruct (chk i32 (weekday_diff_m w fw + (idx - 1) * 7)) as [dl|]; cbn [obind of_opt rbind]; [|reflexivity].
  destruct (chk i32 (z1 + dl)); reflexivity.
Qed.

(** * year_month_weekday_last -> sys_days, for every stored field value *)
Theorem gen_ymwdl_to_sys_days_eq : forall y m w,
  of_opt (G.ymwdl_to_sys_days_g y m w) = ymwdl_to_days_m y m w.
Proof.
  intros y m w. unfold ymwdl_to_days_m, ymdl_to_days_m, ymdl_day_m, ymd_to_days_m. rewrite ld_val_ok. cbn [rbind].
  pose proof (gen_last_day_of_month_eq y m) as H. unfold G.last_day_of_month_g in H.
  unfold G.ymwdl_to_sys_days_g. rewrite H. cbn [obind].
  rewrite cal_days_from_civil.
  destruct (days_from_civil_m y m (ld_val y m)) as [zl|]; cbn [obind of_opt rbind]; [|reflexivity].
  cbv zeta. rewrite cal_weekday_from_days.
  destruct (weekday_from_days_m zl) as [lw|]; cbn [obind of_opt rbind]; [|reflexivity].
  rewrite wd_diff_inl. unfold s32.
  destruct (chk i32 (zl - weekday_diff_m lw w)); reflexivity.
Qed.

(** * year_month + months (floor carry into the year), and the types built on it *)
Theorem gen_ym_plus_months_eq : forall y m dm, 0 <= m <= 255 ->
  G.ym_plus_months_g y m dm = year_month_plus_months_m y m dm.
Proof.
  intros y m dm Hm. unfold G.ym_plus_months_g, year_month_plus_months_m, year_plus_m, s32.
  destruct (chk i32 (dm - 1)) as [dm1|] eqn:E1; cbn [obind]; [|reflexivity].
  apply chk_i32_inv in E1. destruct E1 as [-> Hd].
  rewrite (chk_i64_some (m + (dm - 1))) by lia. cbn [obind]. cbv zeta.
  set (mo := m + (dm - 1)) in *.
  assert (Ht : (if mo >=? 0 then Some mo else chk i64 (mo - 11)) = Some (if mo >=? 0 then mo else mo - 11)).
  { destruct (mo >=? 0); [reflexivity|]. apply chk_i64_some. unfold mo. lia. }
  rewrite Ht. cbn [obind].
  change (wrap_ty i32) with (wraps 32).
  destruct (chk i32 (y + wraps 32 (Z.quot (if mo >=? 0 then mo else mo - 11) 12))) as [s|]; cbn [obind]; [|reflexivity].
  set (dv := Z.quot (if mo >=? 0 then mo else mo - 11) 12).
  assert (Hdv : -200000000 <= dv <= 200000000) by (unfold dv, mo; destruct (m + (dm - 1) >=? 0) eqn:E; lia).
  rewrite (chk_i64_some (dv * 12)) by lia. cbn [obind].
  rewrite (chk_i64_some (mo - dv * 12)) by (unfold mo; lia). cbn [obind].
  rewrite (chk_i64_some (mo - dv * 12 + 1)) by (unfold mo; lia). cbn [obind].
  reflexivity.
Qed.

Theorem gen_ymd_plus_months_eq : forall y m d dm, 0 <= m <= 255 ->
  of_opt (G.ymd_plus_months_g y m d dm) = ymd_plus_months_m y m d dm.
Proof.
  intros y m d dm Hm.
  assert (E : G.ymd_plus_months_g y m d dm = option_map (fun ym => (fst ym, snd ym, d)) (G.ym_plus_months_g y m dm)).
  { unfold G.ymd_plus_months_g, G.ym_plus_months_g. cbv zeta. lockstep. }
  rewrite E, gen_ym_plus_months_eq by exact Hm.
  unfold ymd_plus_months_m, ym_plus_months_r.
  destruct (year_month_plus_months_m y m dm) as [[y' m']|]; reflexivity.
Qed.

Theorem gen_ymdl_plus_months_eq : forall y m dm, 0 <= m <= 255 ->
  of_opt (G.ymdl_plus_months_g y m dm) = ymdl_plus_months_m y m dm.
Proof.
  intros y m dm Hm.
  assert (E : G.ymdl_plus_months_g y m dm = G.ym_plus_months_g y m dm).
  { unfold G.ymdl_plus_months_g, G.ym_plus_months_g. reflexivity. }
  rewrite E, gen_ym_plus_months_eq by exact Hm. reflexivity.
Qed.

Theorem gen_ymd_plus_years_eq : forall y m d dy,
  of_opt (G.ymd_plus_years_g y m d dy) = ymd_plus_years_m y m d dy.
Proof.
  intros y m d dy. unfold G.ymd_plus_years_g, ymd_plus_years_m, year_plus_r, year_plus_m, s32.
  destruct (chk i32 (y + dy)); reflexivity.
Qed.

Theorem gen_ymdl_plus_years_eq : forall y m dy,
  of_opt (G.ymdl_plus_years_g y m dy) = ymdl_plus_years_m y m dy.
Proof.
  intros y m dy. unfold G.ymdl_plus_years_g, ymdl_plus_years_m, ym_plus_years_m, year_plus_r, year_plus_m, s32.
  destruct (chk i32 (y + dy)); reflexivity.
Qed.

(** * ok() *)
(* decide an equation between boolean combinations of integer comparisons *)
Ltac bool_lia :=
  repeat match goal with
         | |- context [Z.ltb ?a ?b] => destruct (Z.ltb_spec a b)
         | |- context [Z.leb ?a ?b] => destruct (Z.leb_spec a b)
         | |- context [Z.gtb ?a ?b] => rewrite (Z.gtb_ltb a b)
         | |- context [Z.geb ?a ?b] => rewrite (Z.geb_leb a b)
         | |- context [Z.eqb ?a ?b] => destruct (Z.eqb_spec a b)
         end; cbn [andb orb negb]; first [reflexivity | lia].

Theorem gen_day_ok_eq : forall d, G.day_ok_g d = Some (day_ok_m d).
Proof. intros d. unfold G.day_ok_g, day_ok_m. apply f_equal. bool_lia. Qed.
Theorem gen_month_ok_eq : forall m, G.month_ok_g m = Some (month_ok_m m).
Proof. intros m. unfold G.month_ok_g, month_ok_m. apply f_equal. bool_lia. Qed.
Theorem gen_year_ok_eq : forall y, G.year_ok_g y = Some (year_ok_m y).
Proof. intros y. unfold G.year_ok_g, year_ok_m. apply f_equal. bool_lia. Qed.
Theorem gen_weekday_ok_eq : forall w, G.weekday_ok_g w = Some (weekday_ok_m w).
Proof. intros w. unfold G.weekday_ok_g, weekday_ok_m. apply f_equal. bool_lia. Qed.
Theorem gen_wdi_ok_eq : forall w i, G.wdi_ok_g w i = Some (wdi_ok_m w i).
Proof. intros w i. unfold G.wdi_ok_g, wdi_ok_m, weekday_ok_m. apply f_equal. bool_lia. Qed.
Theorem gen_wdl_ok_eq : forall w, G.wdl_ok_g w = Some (wdl_ok_m w).
Proof. intros w. unfold G.wdl_ok_g, wdl_ok_m, weekday_ok_m. apply f_equal. bool_lia. Qed.
Theorem gen_mdl_ok_eq : forall m, G.mdl_ok_g m = Some (mdl_ok_m m).
Proof. intros m. unfold G.mdl_ok_g, mdl_ok_m, month_ok_m. apply f_equal. bool_lia. Qed.
Theorem gen_ym_ok_eq : forall y m, G.ym_ok_g y m = Some (ym_ok_m y m).
Proof. intros y m. unfold G.ym_ok_g, ym_ok_m, year_ok_m, month_ok_m. apply f_equal. bool_lia. Qed.
Theorem gen_ymdl_ok_eq : forall y m, G.ymdl_ok_g y m = Some (ymdl_ok_m y m).
Proof. intros y m. unfold G.ymdl_ok_g, ymdl_ok_m, mdl_ok_m, year_ok_m, month_ok_m. apply f_equal. bool_lia. Qed.
Theorem gen_ymwdl_ok_eq : forall y m w, G.ymwdl_ok_g y m w = Some (ymwdl_ok_m y m w).
Proof. intros y m w. unfold G.ymwdl_ok_g, ymwdl_ok_m, wdl_ok_m, weekday_ok_m, year_ok_m, month_ok_m. apply f_equal. bool_lia. Qed.

(* the table of last_day_of_month and the month-length function of Model.v agree on months 1..12 *)
Lemma ld_val_model y m : month_ok_m m = true -> ld_val y m = last_day_of_month_m y m.
Proof.
  unfold month_ok_m. intros H.
  assert (Hm : m = 1 \/ m = 2 \/ m = 3 \/ m = 4 \/ m = 5 \/ m = 6 \/ m = 7 \/ m = 8 \/ m = 9 \/ m = 10 \/ m = 11 \/ m = 12) by lia.
  unfold ld_val, last_day_of_month_m, month_ok_m.
  repeat (destruct Hm as [Hm|Hm]; [subst m; cbn; try reflexivity; destruct (is_leap_m y); reflexivity|]).
  subst m; reflexivity.
Qed.

(* year_month_day::ok(): day <= last day of THAT month of THAT year, for every stored value *)
Theorem gen_ymd_ok_eq : forall y m d, G.ymd_ok_g y m d = Some (ymd_ok_m y m d).
Proof.
  intros y m d.
  pose proof (gen_last_day_of_month_eq y m) as H. unfold G.last_day_of_month_g in H.
  unfold G.ymd_ok_g. rewrite H. cbn [obind].
  unfold ymd_ok_m. fold (year_ok_m y).
  replace ((m >? 0) && (m <=? 12)) with (month_ok_m m) by (unfold month_ok_m; rewrite Z.gtb_ltb; reflexivity).
  destruct (negb (year_ok_m y) || negb (month_ok_m m)) eqn:E; [reflexivity|].
  assert (Hm : month_ok_m m = true) by (destruct (month_ok_m m); [reflexivity|rewrite Bool.orb_true_r in E; discriminate]).
  rewrite <- (ld_val_model y m Hm). change (wrap_ty u8 1) with 1. rewrite Z.geb_leb.
  destruct (1 <=? d); reflexivity.
Qed.

(** * year_month_weekday::ok(): for every stored value *)
Lemma u32w_mul7 a : u32w (u32w a * 7) = u32w (a * 7).
Proof. unfold u32w. apply Z.mul_mod_idemp_l. lia. Qed.

Theorem gen_ymwd_ok_eq : forall y m w idx, of_opt (G.ymwd_ok_g y m w idx) = ymwd_ok_m y m w idx.
Proof.
  intros y m w idx.
  pose proof (gen_last_day_of_month_eq y m) as H. unfold G.last_day_of_month_g in H.
  unfold G.ymwd_ok_g. rewrite H. clear H.
  unfold ymwd_ok_m. fold (year_ok_m y). fold (weekday_ok_m w).
  replace ((m >? 0) && (m <=? 12)) with (month_ok_m m) by (unfold month_ok_m; rewrite Z.gtb_ltb; reflexivity).
  destruct (negb (year_ok_m y) || negb (month_ok_m m) || negb (weekday_ok_m w) || (idx <? 1)); [reflexivity|].
  destruct (idx <=? 4); [reflexivity|].
  unfold ym_slash_int_m, day_ctor_m, ymd_to_days_m, ymdl_day_m, days_add_m, s32.
  change (u32w 1) with 1. change (1 <=? 255) with true. cbv iota. cbn [rbind].
  change (wrap_ty u8 (wrap_ty u32 1)) with (wrapu 8 1).
  rewrite cal_days_from_civil.
  destruct (days_from_civil_m y m (wrapu 8 1)) as [z1|]; cbn [obind of_opt rbind]; [|reflexivity].
  rewrite cal_weekday_from_days.
  destruct (weekday_from_days_m z1) as [fw|]; cbn [obind of_opt rbind]; [|reflexivity].
  cbv zeta. rewrite wd_diff_inl. rewrite ld_val_ok.
  rewrite !wrap_u32_u32w. rewrite u32w_mul7. change (wrap_ty i32) with (wraps 32).
  destruct (chk i32 (weekday_diff_m w fw + wraps 32 (u32w (u32w ((idx - 1) * 7) + 1)))); reflexivity.
Qed.

(** * accessors and weekday::operator[] *)
Theorem gen_wd_accessors_eq :
  (forall w i, G.wdi_weekday_g w i = Some w) /\ (forall w i, G.wdi_index_g w i = Some i) /\
  (forall w, G.wdl_weekday_g w = Some w) /\ (forall w i, G.wd_index_g w i = Some (wdi_ctor_m w i)).
Proof. repeat split. Qed.
