(* Sweep A: every day-of-era 0..146096 — field ranges, exact position of the day inside
   its March-based year, and days_from_civil's doe formula inverts civil_from_days's. *)
From Tetl Require Import Lib.Base C11.Model C11.Spec C11.Core.
From Coq Require Import ZifyBool.
Local Open Scope Z_scope.
Ltac Zify.zify_post_hook ::= Z.to_euclidean_division_equations.

Definition sweepA (doe : Z) : bool :=
  let '(yoe, m, d) := civil_doe_m doe in
  let base := 365 * yoe + yoe / 4 - yoe / 100 in
  (0 <=? yoe) && (yoe <=? 399) && (1 <=? m) && (m <=? 12) && (1 <=? d) && (d <=? dim (yoe + c01 m) m)
  && (doe_of_m yoe m d =? doe)
  && (base + 306 * c01 m <=? doe) && (doe <=? base + 305 + 60 * c01 m).

Lemma sweepA_all : all_from sweepA 0 (Z.to_nat 146097) = true.
Proof. vm_cast_no_check (eq_refl true). Qed.

Lemma sweepA_spec doe : 0 <= doe < 146097 -> sweepA doe = true.
Proof. intros H. apply (all_from_spec _ _ _ sweepA_all). lia. Qed.
