(* C11 model: executable mirror of the calendar code in include/etl/_chrono/
   (year.hpp, month.hpp, day.hpp, weekday.hpp, year_month.hpp, year_month_day.hpp,
   year_month_day_last.hpp).  Machine arithmetic is explicit: unsigned 32-bit operations
   wrap, signed 32-bit operations are checked (None = signed overflow = UB),
   the record constructors narrow as the code does (year -> int16, month/day/weekday -> uint8). *)
From Tetl Require Import Lib.Base.
Local Open Scope Z_scope.

(* uint32_t wrap-around; the modulus is written out so that evaluation does not recompute 2^32 *)
Definition u32w (x : Z) : Z := x mod 4294967296.
Definition s32 (x : Z) : option Z := chk i32 x.
Notation "'do' x <- a ; b" := (obind a (fun x => b)) (at level 200, x name, a at level 100, b at level 200).

(* year_month_day::civil_from_days(int32_t z).
   The part between the computation of doe and the final year is a function of doe alone
   (all uint32_t arithmetic); it is named so that proofs can sweep one era. *)
Definition civil_doe_m (doe : Z) : Z * Z * Z :=
  let yoe := Z.quot (u32w (u32w (u32w (doe - Z.quot doe 1460) + Z.quot doe 36524) - Z.quot doe 146096)) 365 in
  let doy := u32w (doe - u32w (u32w (u32w (365 * yoe) + Z.quot yoe 4) - Z.quot yoe 100)) in
  let mp := Z.quot (u32w (u32w (5 * doy) + 2)) 153 in
  let d := u32w (u32w (doy - Z.quot (u32w (u32w (153 * mp) + 2)) 5) + 1) in
  let m := if mp <? 10 then u32w (mp + 3) else u32w (mp - 9) in
  (yoe, m, d).

Definition civil_from_days_m (z0 : Z) : option (Z * Z * Z) :=
  do z <- s32 (z0 + 719468);
  do t <- (if z >=? 0 then Some z else s32 (z - 146096));
  let era := Z.quot t 146097 in
  do e1 <- s32 (era * 146097);
  do zd <- s32 (z - e1);
  let doe := u32w zd in
  let '(yoe, m, d) := civil_doe_m doe in
  do e4 <- s32 (era * 400);
  do y <- s32 (wraps 32 yoe + e4);
  do yy <- s32 (y + (if m <=? 2 then 1 else 0));
  (* chrono::year{int} narrows to int16_t; month/day{unsigned} narrow to unsigned char *)
  Some (wraps 16 yy, wrapu 8 m, wrapu 8 d).

(* year_month_day::days_from_civil(int32_t y, uint32_t m, uint32_t d) *)
Definition doe_of_m (yoe m d : Z) : Z :=
  let mm := if m >? 2 then u32w (m - 3) else u32w (m + 9) in
  let doy := u32w (u32w (Z.quot (u32w (u32w (153 * mm) + 2)) 5 + d) - 1) in
  u32w (u32w (u32w (u32w (yoe * 365) + Z.quot yoe 4) - Z.quot yoe 100) + doy).

Definition days_from_civil_m (y0 m d : Z) : option Z :=
  do y <- s32 (y0 - (if m <=? 2 then 1 else 0));
  do t <- (if y >=? 0 then Some y else s32 (y - 399));
  let era := Z.quot t 400 in
  do e4 <- s32 (era * 400);
  do yd <- s32 (y - e4);
  let yoe := u32w yd in
  let doe := doe_of_m yoe m d in
  do e1 <- s32 (era * 146097);
  do r1 <- s32 (e1 + wraps 32 doe);
  s32 (r1 - 719468).

(* weekday::weekday_from_days(int tp) -> uint8.  The day count is widened to long long first (since 075a3cf; `tp + 4`
   in int overflowed for the last four int32 day counts), so the checked operations are 64-bit ones. *)
Definition s64 (x : Z) : option Z := chk i64 x.
Definition weekday_from_days_m (tp : Z) : option Z :=
  if tp >=? -4 then
    do a <- s64 (tp + 4); Some (wrapu 8 (Z.rem a 7))
  else
    do a <- s64 (tp + 5); do b <- s64 (Z.rem a 7 + 6); Some (wrapu 8 b).

(* year::is_leap on the stored int16 value *)
Definition is_leap_m (y : Z) : bool :=
  (Z.rem y 4 =? 0) && (negb (Z.rem y 100 =? 0) || (Z.rem y 400 =? 0)).

Definition year_ok_m (y : Z) : bool := negb (y =? -32768).
Definition month_ok_m (m : Z) : bool := (0 <? m) && (m <=? 12).
Definition day_ok_m (d : Z) : bool := (0 <? d) && (d <=? 31).
Definition weekday_ok_m (w : Z) : bool := w <? 7.

(* detail::last_day_of_month(year, month): table lookup, February by is_leap *)
Definition last_day_of_month_m (y m : Z) : Z :=
  if m =? 2 then (if is_leap_m y then 29 else 28)
  else if (m =? 4) || (m =? 6) || (m =? 9) || (m =? 11) then 30 else 31.

(* year_month_day::ok() *)
Definition ymd_ok_m (y m d : Z) : bool :=
  if negb (year_ok_m y) || negb (month_ok_m m) then false
  else (1 <=? d) && (d <=? last_day_of_month_m y m).

(* operator+(month, months): long long arithmetic; months::rep is int32 *)
Definition month_plus_m (m dm : Z) : Z :=
  let mo := m + (dm - 1) in
  let dv := Z.quot (if mo >=? 0 then mo else mo - 11) 12 in
  wrapu 8 (wrapu 32 (mo - dv * 12 + 1)).

(* operator-(month, month) -> months *)
Definition month_minus_m (m1 m2 : Z) : Z :=
  let delta := u32w (m1 - m2) in
  wraps 32 (if delta <=? 11 then delta else u32w (delta + 12)).

(* operator+(year, years): int arithmetic, narrowed to int16 by the constructor *)
Definition year_plus_m (y dy : Z) : option Z :=
  do s <- s32 (y + dy); Some (wraps 16 s).

(* operator+(year_month, months): floor quotient carried into the year (int), month via month + months *)
Definition year_month_plus_months_m (y m dm : Z) : option (Z * Z) :=
  do dm1 <- s32 (dm - 1);
  let mo := m + dm1 in                       (* long long *)
  let dy := Z.quot (if mo >=? 0 then mo else mo - 11) 12 in
  do y' <- year_plus_m y (wraps 32 dy);
  Some (y', month_plus_m m dm).

(* weekday{unsigned}: 7 is mapped to 0, stored as uint8 *)
Definition weekday_ctor_m (w : Z) : Z := wrapu 8 (if w =? 7 then 0 else w).

(* weekday::add_days(uint8 wd, long long d) *)
Definition weekday_add_days_m (w d : Z) : Z :=
  let wdu := w + d in
  let wk := Z.quot (if wdu >=? 0 then wdu else wdu - 6) 7 in
  wrapu 8 (wdu - wk * 7).

Definition weekday_plus_m (w dd : Z) : Z := weekday_add_days_m w dd.
Definition weekday_minus_days_m (w dd : Z) : Z := weekday_add_days_m w (- dd).

(* operator-(weekday, weekday) -> days *)
Definition weekday_diff_m (a b : Z) : Z :=
  let c := wraps 32 (u32w (a - b)) in
  if c >=? 0 then c else c + 7.

(* ++x, x++, --x, x-- on weekday: (returned value, value left in the object) each *)
Definition weekday_incdec_m (w : Z) : list Z :=
  let p := weekday_add_days_m w 1 in
  let q := weekday_add_days_m w (-1) in
  [p; p; w; p; q; q; w; q].
