(* C11 — translator obligations: regenerated kernels = model (see GenEquiv.v). *)
From Tetl Require Import Lib.Base C11.Model C11.GenEquiv.
From Tetl Require Gen.Gen_chrono.
Local Open Scope Z_scope.

Theorem C11_gen_civil_from_days : forall z, Gen_chrono.civil_from_days_g z = civil_from_days_m z.
Proof. exact gen_civil_from_days_eq. Qed.
Print Assumptions C11_gen_civil_from_days.
Theorem C11_gen_days_from_civil : forall y m d, Gen_chrono.days_from_civil_g y m d = days_from_civil_m y m d.
Proof. exact gen_days_from_civil_eq. Qed.
Print Assumptions C11_gen_days_from_civil.
Theorem C11_gen_weekday_from_days : forall tp, Gen_chrono.weekday_from_days_g tp = weekday_from_days_m tp.
Proof. exact gen_weekday_from_days_eq. Qed.
Print Assumptions C11_gen_weekday_from_days.
Theorem C11_gen_is_leap : forall y, Gen_chrono.is_leap_g y = Some (is_leap_m y).
Proof. exact gen_is_leap_eq. Qed.
Print Assumptions C11_gen_is_leap.
Theorem C11_gen_weekday_add_days : forall wd d, 0 <= wd <= 255 -> -2147483648 <= d <= 2147483647 ->
  Gen_chrono.weekday_add_days_g wd d = Some (weekday_add_days_m wd d).
Proof. exact gen_weekday_add_days_eq. Qed.
Print Assumptions C11_gen_weekday_add_days.
Theorem C11_gen_month_plus : forall m dm, 0 <= m <= 255 -> -2147483648 < dm <= 2147483647 ->
  Gen_chrono.month_plus_g m dm = Some (month_plus_m m dm).
Proof. exact gen_month_plus_eq. Qed.
Print Assumptions C11_gen_month_plus.
Theorem C11_gen_month_minus : forall m1 m2, Gen_chrono.month_minus_g m1 m2 = Some (month_minus_m m1 m2).
Proof. exact gen_month_minus_eq. Qed.
Print Assumptions C11_gen_month_minus.
Theorem C11_gen_weekday_diff : forall a b, Gen_chrono.weekday_diff_g a b = Some (weekday_diff_m a b).
Proof. exact gen_weekday_diff_eq. Qed.
Print Assumptions C11_gen_weekday_diff.

(* part 2: year / day arithmetic and iso_encoding *)
From Tetl Require Import C11.ModelCal.
Theorem C11_gen_year_ops :
  (forall y dy, Gen_chrono.year_plus_g y dy = year_plus_m y dy)
  /\
  (forall a b, of_opt (Gen_chrono.year_diff_g a b) = year_diff_m a b).
Proof. exact (conj gen_year_plus_eq (gen_year_diff_eq)). Qed.
Print Assumptions C11_gen_year_ops.
Theorem C11_gen_day_ops :
  (forall d dd,
    day_plus_m d dd = Contract \/ of_opt (Gen_chrono.day_plus_g d dd) = day_plus_m d dd)
  /\
  (forall d dd,
    day_minus_days_m d dd = Contract \/ of_opt (Gen_chrono.day_minus_days_g d dd) = day_minus_days_m d dd)
  /\
  (forall a b, 0 <= a <= 255 -> 0 <= b <= 255 ->
    Gen_chrono.day_diff_g a b = Some (day_diff_m a b))
  /\
  (forall w, Gen_chrono.weekday_iso_g w = Some (weekday_iso_m w)).
Proof. exact (conj gen_day_plus_eq (conj gen_day_minus_days_eq (conj gen_day_diff_eq (gen_weekday_iso_eq)))). Qed.
Print Assumptions C11_gen_day_ops.
