(* C11 proofs, part 2: the civil date is the Gregorian walker's, weekday, month / year_month /
   weekday modular arithmetic. *)
From Tetl Require Import Lib.Base C11.Model C11.Spec C11.Core C11.Era C11.Proofs.
From Coq Require Import ZifyBool.
Local Open Scope Z_scope.
Ltac Zify.zify_post_hook ::= Z.to_euclidean_division_equations.

Definition shift_year (k : Z) (t : Z * Z * Z) : Z * Z * Z :=
  let '(y, m, d) := t in (y + 400 * k, m, d).

Lemma next_day_shift k t : next_day (shift_year k t) = shift_year k (next_day t).
Proof.
  destruct t as [[y m] d]. unfold shift_year, next_day. rewrite dim_shift.
  destruct (d <? dim y m); [reflexivity|]. destruct (m <? 12); [reflexivity|].
  f_equal. f_equal. lia.
Qed.

Lemma civil_pure_shift z : civil_pure z = shift_year ((z + 719468) / 146097) (cd ((z + 719468) mod 146097)).
Proof. unfold civil_pure, shift_year. destruct (cd _) as [[y m] d]. reflexivity. Qed.

Lemma cd_last : cd 146096 = (400, 2, 29).
Proof. vm_compute. reflexivity. Qed.
Lemma cd_first : cd 0 = (0, 3, 1).
Proof. vm_compute. reflexivity. Qed.

(* the day after: civil_from_days advances exactly like the Gregorian calendar *)
Lemma civil_pure_succ z : civil_pure (z + 1) = next_day (civil_pure z).
Proof.
  rewrite !civil_pure_shift.
  set (z' := z + 719468). replace (z + 1 + 719468) with (z' + 1) by (unfold z'; lia).
  set (era := z' / 146097). set (doe := z' mod 146097).
  assert (Hd : 0 <= doe < 146097) by (unfold doe; lia).
  destruct (Z.eq_dec doe 146096) as [E|NE].
  - assert (E1 : (z' + 1) / 146097 = era + 1) by (unfold era, doe in *; lia).
    assert (E2 : (z' + 1) mod 146097 = 0) by (unfold era, doe in *; lia).
    rewrite E1, E2, E, cd_last, cd_first. unfold shift_year, next_day.
    assert (Hdim : dim (400 + 400 * era) 2 = 29).
    { rewrite dim_shift. reflexivity. }
    rewrite Hdim. change (29 <? 29) with false. change (2 <? 12) with true. cbv iota.
    f_equal. f_equal. lia.
  - assert (E1 : (z' + 1) / 146097 = era) by (unfold era, doe in *; lia).
    assert (E2 : (z' + 1) mod 146097 = doe + 1) by (unfold era, doe in *; lia).
    rewrite E1, E2, next_day_shift. f_equal. symmetry. apply sweepC_spec. lia.
Qed.

Lemma civil_pure_epoch : civil_pure 0 = epoch.
Proof. vm_compute. reflexivity. Qed.

Lemma civil_pure_first : civil_pure day_lo = (-32767, 1, 1).
Proof. vm_compute. reflexivity. Qed.

Lemma civil_pure_last : civil_pure day_hi = (32767, 12, 31).
Proof. vm_compute. reflexivity. Qed.

Lemma civil_pure_walk t0 z0 : civil_pure z0 = t0 -> forall n, civil_pure (z0 + Z.of_nat n) = walk n t0.
Proof.
  intros H0. induction n as [|n IH].
  - cbn [walk]. rewrite Z.add_0_r. exact H0.
  - cbn [walk]. rewrite <- IH. rewrite <- civil_pure_succ. f_equal. lia.
Qed.

(* civil_from_days of every supported day = the date reached by walking the Gregorian
   calendar day by day from the first supported day; 1970-01-01 is day 0 *)
Theorem civil_is_gregorian z : day_lo <= z <= day_hi ->
  civil_from_days_m z = Some (walk (Z.to_nat (z - day_lo)) (-32767, 1, 1)).
Proof.
  intros Hz. rewrite (civil_m_pure z Hz). f_equal.
  rewrite <- (civil_pure_walk _ day_lo civil_pure_first). f_equal. lia.
Qed.

Theorem civil_epoch : civil_from_days_m 0 = Some epoch.
Proof. vm_compute. reflexivity. Qed.

(** * weekday *)
Lemma s64_some x : -9223372036854775808 <= x <= 9223372036854775807 -> s64 x = Some x.
Proof.
  intros H. unfold s64, chk, in_ty, imin, imax, i64, smin, smax; cbn [sgn bits].
  change (2 ^ (64 - 1)) with 9223372036854775808.
  destruct (_ && _) eqn:E; [reflexivity|lia].
Qed.

(* for EVERY int32 day count (the code widens to long long before adding 4) *)
Theorem weekday_from_days_all z : -2147483648 <= z <= 2147483647 ->
  weekday_from_days_m z = Some (weekday_of z).
Proof.
  intros Hz. unfold weekday_from_days_m, weekday_of.
  destruct (z >=? -4) eqn:E.
  - rewrite s64_some by lia. cbn [obind]. rewrite wrapu8_small by lia. f_equal. lia.
  - rewrite s64_some by lia. cbn [obind]. rewrite s64_some by lia. cbn [obind].
    rewrite wrapu8_small by lia. f_equal. lia.
Qed.
(* the statement of the first version (the int arithmetic of that time needed tp <= INT32_MAX - 4) *)
Theorem weekday_from_days_spec z : -2147483648 <= z <= 2147483643 ->
  weekday_from_days_m z = Some (weekday_of z).
Proof. intros Hz. apply weekday_from_days_all. lia. Qed.

Lemma weekday_of_succ z : weekday_of (z + 1) = (weekday_of z + 1) mod 7.
Proof. unfold weekday_of. lia. Qed.
Lemma weekday_of_epoch : weekday_of 0 = 4. (* Thursday *)
Proof. reflexivity. Qed.

Theorem weekday_plus_spec_ok w dd : 0 <= w <= 6 -> weekday_plus_m w dd = weekday_plus_spec w dd.
Proof.
  intros Hw. unfold weekday_plus_m, weekday_add_days_m, weekday_plus_spec.
  set (wdu := w + dd).
  assert (Hq : Z.quot (if wdu >=? 0 then wdu else wdu - 6) 7 = wdu / 7).
  { destruct (wdu >=? 0) eqn:E; lia. }
  rewrite Hq. rewrite wrapu8_small by lia. lia.
Qed.

Theorem weekday_minus_days_spec_ok w dd : 0 <= w <= 6 ->
  weekday_minus_days_m w dd = weekday_plus_spec w (- dd).
Proof. intros Hw. unfold weekday_minus_days_m. apply (weekday_plus_spec_ok w (- dd) Hw). Qed.

Theorem weekday_diff_spec_ok a b : 0 <= a <= 6 -> 0 <= b <= 6 -> weekday_diff_m a b = weekday_diff_spec a b.
Proof.
  intros Ha Hb. unfold weekday_diff_m, weekday_diff_spec, u32w, wraps.
  change (2 ^ 32) with 4294967296. change (2 ^ (32 - 1)) with 2147483648.
  destruct (_ <? _) eqn:E1; destruct (_ >=? 0) eqn:E2; lia.
Qed.

(** * month, year_month arithmetic *)
Theorem month_plus_spec_ok m dm : 1 <= m <= 12 -> month_plus_m m dm = month_plus_spec m dm.
Proof.
  intros Hm. unfold month_plus_m, month_plus_spec.
  set (mo := m + (dm - 1)).
  assert (Hq : Z.quot (if mo >=? 0 then mo else mo - 11) 12 = mo / 12).
  { destruct (mo >=? 0) eqn:E; lia. }
  rewrite Hq.
  assert (Hr : mo - mo / 12 * 12 + 1 = (m - 1 + dm) mod 12 + 1) by (unfold mo; lia).
  rewrite Hr. unfold wrapu. change (2 ^ 32) with 4294967296. change (2 ^ 8) with 256.
  rewrite (Z.mod_small _ 4294967296) by lia. rewrite Z.mod_small by lia. reflexivity.
Qed.

Theorem month_minus_spec_ok m1 m2 : 1 <= m1 <= 12 -> 1 <= m2 <= 12 ->
  month_minus_m m1 m2 = month_minus_spec m1 m2.
Proof.
  intros H1 H2. unfold month_minus_m, month_minus_spec, u32w, wraps.
  change (2 ^ 32) with 4294967296. change (2 ^ (32 - 1)) with 2147483648.
  destruct (_ <=? 11) eqn:E1; destruct (_ <? _) eqn:E2; lia.
Qed.

(* the month result is always a valid month and subtraction inverts addition *)
Corollary month_plus_ok m dm : 1 <= m <= 12 -> month_ok_m (month_plus_m m dm) = true.
Proof. intros Hm. rewrite month_plus_spec_ok by exact Hm. unfold month_ok_m, month_plus_spec. lia. Qed.

Theorem year_month_plus_spec_ok y m dm :
  -32767 <= y <= 32767 -> 1 <= m <= 12 -> -2147483647 <= dm <= 2147483647 ->
  -32768 <= fst (year_month_plus_spec y m dm) <= 32767 ->
  year_month_plus_months_m y m dm = Some (year_month_plus_spec y m dm).
Proof.
  intros Hy Hm Hdm Hr. unfold year_month_plus_months_m, year_month_plus_spec in *. cbn [fst] in Hr.
  rewrite s32_some by lia. cbn [obind].
  set (mo := m + (dm - 1)).
  assert (Hq : Z.quot (if mo >=? 0 then mo else mo - 11) 12 = (m - 1 + dm) / 12).
  { unfold mo. destruct (_ >=? 0) eqn:E; lia. }
  rewrite Hq. unfold year_plus_m.
  rewrite wraps32_small by lia. rewrite s32_some by lia. cbn [obind].
  rewrite wraps16_small by lia. rewrite month_plus_spec_ok by exact Hm. reflexivity.
Qed.

Theorem year_plus_spec_ok y dy :
  -32768 <= y <= 32767 -> -2147483648 <= dy <= 2147483647 -> -32768 <= y + dy <= 32767 ->
  year_plus_m y dy = Some (y + dy).
Proof.
  intros Hy Hdy Hr. unfold year_plus_m. rewrite s32_some by lia. cbn [obind].
  rewrite wraps16_small by lia. reflexivity.
Qed.
