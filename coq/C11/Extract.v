From Tetl Require Import Lib.Base C11.Model C11.Spec.
Require Extraction.
Require Import ExtrOcamlBasic.
Extraction Language OCaml.
Extraction "C11_model.ml" wire_anchor
  civil_from_days_m days_from_civil_m weekday_from_days_m is_leap_m ymd_ok_m last_day_of_month_m
  month_plus_m month_minus_m year_plus_m year_month_plus_months_m weekday_plus_m weekday_minus_days_m
  weekday_diff_m weekday_incdec_m weekday_ctor_m year_ok_m month_ok_m day_ok_m weekday_ok_m
  leap dim date_exists next_day walk weekday_of month_plus_spec month_minus_spec year_month_plus_spec
  weekday_plus_spec weekday_diff_spec.
