From Tetl Require Import Lib.Base C11.Model C11.Spec C11.ModelCal C11.SpecCal C11.ModelRev.
Require Extraction.
Require Import ExtrOcamlBasic.
Extraction Language OCaml.
Extraction "C11_model.ml" wire_anchor
  civil_from_days_m days_from_civil_m weekday_from_days_m is_leap_m ymd_ok_m last_day_of_month_m
  month_plus_m month_minus_m year_plus_m year_month_plus_months_m weekday_plus_m weekday_minus_days_m
  weekday_diff_m weekday_incdec_m weekday_ctor_m year_ok_m month_ok_m day_ok_m weekday_ok_m
  leap dim date_exists next_day walk weekday_of month_plus_spec month_minus_spec year_month_plus_spec
  weekday_plus_spec weekday_diff_spec
  (* part 2: the calendar types *)
  year_ctor_m month_ctor_m day_ctor_m cmp6_m eq2_m eq3_m eq4_m
  year_inc_m year_dec_m year_add_assign_m year_sub_assign_m year_neg_m year_plus_r year_minus_years_m year_diff_m
  month_plus_r month_minus_months_m month_incdec_m
  day_plus_m day_minus_days_m day_diff_m day_add_assign_m day_sub_assign_m day_incdec_m
  weekday_iso_m wdi_ctor_m wdi_ok_m wdl_ok_m md_ok_m mdl_ok_m mwd_ok_m mwdl_ok_m
  ym_ok_m ym_plus_months_r ym_minus_months_m ym_plus_years_m ym_minus_years_m last_day_r
  ymd_from_days_m ymd_to_days_m ymd_plus_months_m ymd_minus_months_m ymd_plus_years_m ymd_minus_years_m
  ym_slash_int_m ymdl_ok_m ymdl_day_m ymdl_to_ymd_m ymdl_to_days_m ymdl_plus_months_m ymdl_minus_months_m
  ymdl_plus_years_m ymdl_minus_years_m ymwd_ok_m ymwd_from_days_m ymwd_to_days_m ymwd_plus_months_m
  ymwd_minus_months_m ymwd_plus_years_m ymwd_minus_years_m ymwdl_ok_m ymwdl_to_days_m
  days_spec year_ok_spec month_ok_spec day_ok_spec weekday_ok_spec cmp6_spec month_minus_months_spec
  md_exists wdi_ok_spec ymd_plus_months_spec ymd_plus_years_spec ymwd_exists ymwd_days_spec ymwdl_days_spec
  (* review round: release build of the constructors *)
  month_ctor_nc day_ctor_nc day_plus_nc day_minus_days_nc ym_slash_int_nc.
