(* C11: the day-of-era part of civil_from_days / days_from_civil, WITHOUT sweeping the era
   (this file replaces the three exhaustive vm_compute sweeps over the 146 097 days of an era that
   the first version used: SweepA/B/C.v).  The year-of-era formula is characterised by linear
   arithmetic (Yoe_char, by lia); the month / day part depends on the day of the March-based year
   only: the remaining finite checks run over 366 days resp. 12 x 31 (month, day) pairs. *)
From Tetl Require Import Lib.Base C11.Model C11.Spec C11.Core.
From Coq Require Import ZifyBool.
Local Open Scope Z_scope.
Ltac Zify.zify_post_hook ::= Z.to_euclidean_division_equations.

(* days before March-based year y of the era *)
Definition Bera (y : Z) : Z := 365 * y + y / 4 - y / 100.
Definition Yoe (doe : Z) : Z := (doe - doe / 1460 + doe / 36524 - doe / 146096) / 365.
(* (month, day) from the day of the March-based year *)
Definition md_of_doy (doy : Z) : Z * Z :=
  let mp := (5 * doy + 2) / 153 in
  (if mp <? 10 then mp + 3 else mp - 9, doy - (153 * mp + 2) / 5 + 1).

Lemma Yoe_char doe : 0 <= doe < 146097 ->
  0 <= Yoe doe <= 399 /\ Bera (Yoe doe) <= doe /\ doe < Bera (Yoe doe + 1) + (Yoe doe + 1) / 400.
Proof. intros H. unfold Yoe, Bera. lia. Qed.

Lemma civil_doe_pure doe : 0 <= doe < 146097 ->
  let yoe := Yoe doe in let doy := doe - Bera yoe in
  0 <= doy <= 365 /\ civil_doe_m doe = (yoe, fst (md_of_doy doy), snd (md_of_doy doy)).
Proof.
  intros H yoe doy. destruct (Yoe_char doe H) as (HY & HB1 & HB2). fold yoe in HY, HB1, HB2.
  assert (Hdoy : 0 <= doy <= 365) by (unfold doy, Bera in *; timeout 60 lia).
  split; [exact Hdoy|].
  unfold civil_doe_m.
  rewrite !(Z.quot_div_nonneg doe) by lia.
  assert (Q1 : 0 <= doe / 1460 <= 100) by lia.
  assert (Q2 : 0 <= doe / 36524 <= 4) by lia.
  assert (Q3 : 0 <= doe / 146096 <= 1) by lia.
  assert (Q4 : doe / 1460 <= doe) by lia.
  assert (Q5 : doe / 146096 <= doe / 36524) by (timeout 60 lia).
  rewrite (u32w_small (doe - doe / 1460)) by lia.
  rewrite (u32w_small (doe - doe / 1460 + doe / 36524)) by lia.
  rewrite (u32w_small (doe - doe / 1460 + doe / 36524 - doe / 146096)) by lia.
  set (t := doe - doe / 1460 + doe / 36524 - doe / 146096) in *.
  assert (Ht : 0 <= t <= 146097) by (unfold t; lia).
  rewrite (Z.quot_div_nonneg t) by lia.
  change (t / 365) with yoe.
  rewrite !(Z.quot_div_nonneg yoe) by lia.
  rewrite (u32w_small (365 * yoe)) by lia.
  assert (Y4 : 0 <= yoe / 4 <= 99) by lia. assert (Y100 : 0 <= yoe / 100 <= 3) by lia.
  assert (Y41 : yoe / 100 <= yoe / 4) by (timeout 60 lia).
  rewrite (u32w_small (365 * yoe + yoe / 4)) by lia.
  rewrite (u32w_small (365 * yoe + yoe / 4 - yoe / 100)) by lia.
  fold (Bera yoe). fold doy. rewrite (u32w_small doy) by lia.
  cbv zeta. unfold md_of_doy.
  rewrite (u32w_small (5 * doy)) by lia. rewrite (u32w_small (5 * doy + 2)) by lia.
  rewrite (Z.quot_div_nonneg (5 * doy + 2)) by lia.
  set (mp := (5 * doy + 2) / 153). assert (Hmp : 0 <= mp <= 11) by (unfold mp; lia).
  rewrite (u32w_small (153 * mp)) by lia. rewrite (u32w_small (153 * mp + 2)) by lia.
  rewrite (Z.quot_div_nonneg (153 * mp + 2)) by lia.
  assert (Hd : 0 <= doy - (153 * mp + 2) / 5 <= 31) by (unfold mp; timeout 60 lia).
  rewrite (u32w_small (doy - (153 * mp + 2) / 5)) by lia.
  rewrite (u32w_small (doy - (153 * mp + 2) / 5 + 1)) by lia.
  assert (E6 : (if mp <? 10 then u32w (mp + 3) else u32w (mp - 9)) = (if mp <? 10 then mp + 3 else mp - 9)).
  { destruct (mp <? 10) eqn:E; apply u32w_small; lia. }
  rewrite E6. cbn [fst snd]. reflexivity.
Qed.

(** * the day-of-year part: 366 values *)
Definition mmo (m : Z) : Z := if m >? 2 then m - 3 else m + 9.
Definition Am (m : Z) : Z := (153 * mmo m + 2) / 5.          (* days before month m in the March-based year *)
Definition dimN (m : Z) : Z := if m =? 2 then 29 else dim 1 m. (* month length, February long *)

Definition chkD (doy : Z) : bool :=
  let '(m, d) := md_of_doy doy in
  (1 <=? m) && (m <=? 12) && (1 <=? d) && (d <=? dimN m) && (Am m + d - 1 =? doy)
  && (306 * c01 m <=? doy) && (doy <=? 305 + 60 * c01 m)
  && (Bool.eqb ((m =? 2) && (d =? 29)) (doy =? 365)).
Lemma chkD_all : all_from chkD 0 366 = true.
Proof. vm_compute. reflexivity. Qed.
Lemma chkD_spec doy : 0 <= doy <= 365 -> chkD doy = true.
Proof. intros H. apply (all_from_spec _ _ _ chkD_all). lia. Qed.

Definition chkE_d (m d : Z) : bool :=
  negb (d <=? dimN m) || (let doy := Am m + d - 1 in (0 <=? doy) && (doy <=? 365) &&
    (let '(m', d') := md_of_doy doy in (m' =? m) && (d' =? d))).
Definition chkE (m : Z) : bool := all_from (chkE_d m) 1 31.
Lemma chkE_all : all_from chkE 1 12 = true.
Proof. vm_compute. reflexivity. Qed.
Lemma chkE_spec m d : 1 <= m <= 12 -> 1 <= d <= dimN m ->
  0 <= Am m + d - 1 <= 365 /\ md_of_doy (Am m + d - 1) = (m, d).
Proof.
  intros Hm Hd.
  assert (Hm' : chkE m = true) by (apply (all_from_spec _ _ _ chkE_all); lia).
  assert (Hb : dimN m <= 31).
  { unfold dimN. destruct (m =? 2); [lia|]. pose proof (dim_bounds 1 m). lia. }
  assert (Hd' : chkE_d m d = true) by (apply (all_from_spec _ _ _ Hm'); lia).
  unfold chkE_d in Hd'. destruct (d <=? dimN m) eqn:E; [|lia]. cbn [negb orb] in Hd'.
  destruct (md_of_doy (Am m + d - 1)) as [m' d']. split; [lia|]. f_equal; lia.
Qed.

(* successor inside the March-based year; L = "the February at its end has 29 days" *)
Definition dimL (L : bool) (m : Z) : Z := if m =? 2 then (if L then 29 else 28) else dim 1 m.
Definition chkF (L : bool) (doy : Z) : bool :=
  let '(m, d) := md_of_doy doy in let '(m', d') := md_of_doy (doy + 1) in
  if d <? dimL L m then (m' =? m) && (d' =? d + 1)
  else if m <? 12 then (m' =? m + 1) && (d' =? 1) && (c01 m' =? c01 m)
  else (m' =? 1) && (d' =? 1) && (c01 m =? 0).
Lemma chkF_all : all_from (chkF false) 0 364 = true /\ all_from (chkF true) 0 365 = true.
Proof. vm_compute. split; reflexivity. Qed.
Lemma chkF_spec (L : bool) doy : 0 <= doy -> doy + 1 <= (if L then 365 else 364) -> chkF L doy = true.
Proof.
  intros H0 H1. destruct chkF_all as [Hf Ht]. destruct L.
  - apply (all_from_spec _ _ _ Ht). lia.
  - apply (all_from_spec _ _ _ Hf). lia.
Qed.

Lemma dim_dimL y m : dim y m = dimL (leap y) m.
Proof. unfold dimL, dim. destruct (m =? 2); reflexivity. Qed.

(** * days_from_civil's day-of-era: linear in the year, month offset and day *)
Lemma doe_of_linear yoe m d : 0 <= yoe <= 399 -> 1 <= m <= 12 -> 1 <= d <= 31 ->
  doe_of_m yoe m d = Bera yoe + Am m + d - 1.
Proof.
  intros Hy Hm Hd. unfold doe_of_m, Bera, Am, mmo.
  assert (Hmm : (if m >? 2 then u32w (m - 3) else u32w (m + 9)) = (if m >? 2 then m - 3 else m + 9)).
  { destruct (m >? 2) eqn:E; apply u32w_small; lia. }
  rewrite Hmm. set (mm := if m >? 2 then m - 3 else m + 9).
  assert (Hmmr : 0 <= mm <= 11) by (unfold mm; destruct (m >? 2) eqn:E; lia).
  rewrite (u32w_small (153 * mm)) by lia. rewrite (u32w_small (153 * mm + 2)) by lia.
  rewrite (Z.quot_div_nonneg (153 * mm + 2)) by lia.
  set (A := (153 * mm + 2) / 5). assert (HA : 0 <= A <= 337) by (unfold A; lia).
  rewrite (u32w_small (A + d)) by lia. rewrite (u32w_small (A + d - 1)) by lia.
  rewrite (u32w_small (yoe * 365)) by lia.
  rewrite !(Z.quot_div_nonneg yoe) by lia.
  assert (Y4 : 0 <= yoe / 4 <= 99) by lia. assert (Y100 : 0 <= yoe / 100 <= 3) by lia.
  assert (Y41 : yoe / 100 <= yoe / 4) by lia.
  rewrite (u32w_small (yoe * 365 + yoe / 4)) by lia.
  rewrite (u32w_small (yoe * 365 + yoe / 4 - yoe / 100)) by lia.
  rewrite u32w_small by lia. lia.
Qed.

(* a year of the era has 366 days exactly when the civil year its February belongs to is leap *)
Lemma year_len_leap yoe : 0 <= yoe <= 399 ->
  Bera (yoe + 1) + (yoe + 1) / 400 - Bera yoe = 365 + (if leap (yoe + 1) then 1 else 0).
Proof.
  intros H. unfold Bera, leap.
  destruct (((yoe + 1) mod 4 =? 0) && (negb ((yoe + 1) mod 100 =? 0) || ((yoe + 1) mod 400 =? 0))) eqn:E; lia.
Qed.

(** * the three facts the range proofs need (formerly exhaustive sweeps over the 146 097 days) *)
Definition sweepA (doe : Z) : bool :=
  let '(yoe, m, d) := civil_doe_m doe in
  let base := 365 * yoe + yoe / 4 - yoe / 100 in
  (0 <=? yoe) && (yoe <=? 399) && (1 <=? m) && (m <=? 12) && (1 <=? d) && (d <=? dim (yoe + c01 m) m)
  && (doe_of_m yoe m d =? doe)
  && (base + 306 * c01 m <=? doe) && (doe <=? base + 305 + 60 * c01 m).

Lemma dimN_dim y m : 1 <= m <= 12 -> m <> 2 -> dim y m = dimN m.
Proof. intros Hm H2. unfold dimN, dim. destruct (m =? 2) eqn:E; [lia|reflexivity]. Qed.

Lemma sweepA_spec doe : 0 <= doe < 146097 -> sweepA doe = true.
Proof.
  intros H. destruct (Yoe_char doe H) as (HY & HB1 & HB2).
  destruct (civil_doe_pure doe H) as [Hdoy Hciv]. cbv zeta in Hdoy, Hciv.
  set (yoe := Yoe doe) in *. set (doy := doe - Bera yoe) in *.
  pose proof (chkD_spec doy Hdoy) as HD. unfold chkD in HD.
  unfold sweepA. rewrite Hciv. destruct (md_of_doy doy) as [m d]. cbn [fst snd].
  rewrite !andb_true_iff in HD. destruct HD as [[[[[[[D1 D2] D3] D4] D5] D6] D7] D8].
  assert (Hm : 1 <= m <= 12) by lia.
  assert (HdN : 1 <= d <= dimN m) by lia.
  assert (HdN31 : dimN m <= 31).
  { unfold dimN. destruct (m =? 2); [lia|]. pose proof (dim_bounds 1 m). lia. }
  pose proof (year_len_leap yoe HY) as HL.
  assert (Hdim : d <= dim (yoe + c01 m) m).
  { destruct (Z.eq_dec m 2) as [->|Hne].
    - unfold c01. change (2 <=? 2) with true. cbv iota. unfold dim. change (2 =? 2) with true. cbv iota.
      unfold dimN in HdN. change (2 =? 2) with true in HdN. cbv iota in HdN.
      destruct (leap (yoe + 1)) eqn:EL; [lia|].
      (* not leap: the year has 365 days, so doy <= 364 and d <= 28 *)
      apply Bool.eqb_prop in D8. change (2 =? 2) with true in D8. cbn [andb] in D8.
      assert (doy <= 364) by (unfold doy in *; lia).
      destruct (d =? 29) eqn:E29; [|lia]. symmetry in D8. lia.
    - rewrite (dimN_dim _ m Hm Hne). lia. }
  rewrite (doe_of_linear yoe m d HY Hm ltac:(lia)).
  fold (Bera yoe). unfold doy in *.
  repeat (apply andb_true_iff; split); lia.
Qed.

Lemma Yoe_unique doe y : 0 <= doe < 146097 -> 0 <= y <= 399 ->
  Bera y <= doe < Bera (y + 1) + (y + 1) / 400 -> Yoe doe = y.
Proof.
  intros H Hy Hb. destruct (Yoe_char doe H) as (HY & HB1 & HB2). set (Y := Yoe doe) in *. unfold Bera in *. lia.
Qed.

Lemma dimN_ge y m : dim y m <= dimN m.
Proof. unfold dimN, dim. destruct (m =? 2); [destruct (leap y); lia|lia]. Qed.

Lemma sweepB_spec yoe m d :
  0 <= yoe <= 399 -> 1 <= m <= 12 -> 1 <= d <= dim (yoe + c01 m) m ->
  0 <= doe_of_m yoe m d < 146097 /\ civil_doe_m (doe_of_m yoe m d) = (yoe, m, d).
Proof.
  intros Hy Hm Hd. pose proof (dim_bounds (yoe + c01 m) m) as Hb. pose proof (dimN_ge (yoe + c01 m) m) as HN.
  rewrite (doe_of_linear yoe m d Hy Hm ltac:(lia)).
  destruct (chkE_spec m d Hm ltac:(lia)) as [Hdoy Hmd].
  set (doy := Am m + d - 1) in *.
  pose proof (chkD_spec doy Hdoy) as HD. unfold chkD in HD. rewrite Hmd in HD.
  rewrite !andb_true_iff in HD. destruct HD as [_ D8]. apply Bool.eqb_prop in D8.
  pose proof (year_len_leap yoe Hy) as HL.
  assert (Hlt : doy < 365 + (if leap (yoe + 1) then 1 else 0)).
  { destruct (doy =? 365) eqn:E365; [|destruct (leap (yoe + 1)); lia].
    assert (Hm2 : m = 2 /\ d = 29) by lia. destruct Hm2 as [-> ->].
    unfold c01 in Hd. change (2 <=? 2) with true in Hd. cbv iota in Hd.
    unfold dim in Hd. change (2 =? 2) with true in Hd. cbv iota in Hd.
    destruct (leap (yoe + 1)); lia. }
  assert (Hrange : 0 <= Bera yoe + doy < 146097).
  { unfold Bera in *. lia. }
  replace (Bera yoe + Am m + d - 1) with (Bera yoe + doy) by (unfold doy; lia).
  split; [exact Hrange|].
  assert (HYo : Yoe (Bera yoe + doy) = yoe) by (apply Yoe_unique; [exact Hrange|exact Hy|lia]).
  destruct (civil_doe_pure (Bera yoe + doy) Hrange) as [_ Hciv]. cbv zeta in Hciv.
  rewrite HYo in Hciv. replace (Bera yoe + doy - Bera yoe) with doy in Hciv by lia.
  rewrite Hciv, Hmd. reflexivity.
Qed.

Lemma md_364 : md_of_doy 364 = (2, 28). Proof. reflexivity. Qed.
Lemma md_365 : md_of_doy 365 = (2, 29). Proof. reflexivity. Qed.
Lemma md_0 : md_of_doy 0 = (3, 1). Proof. reflexivity. Qed.

Lemma sweepC_spec doe : 0 <= doe < 146096 -> next_day (cd doe) = cd (doe + 1).
Proof.
  intros H. assert (H1 : 0 <= doe < 146097) by lia. assert (H2 : 0 <= doe + 1 < 146097) by lia.
  destruct (Yoe_char doe H1) as (HY & HB1 & HB2).
  destruct (civil_doe_pure doe H1) as [Hdoy Hciv]. cbv zeta in Hdoy, Hciv.
  set (yoe := Yoe doe) in *. set (doy := doe - Bera yoe) in *.
  pose proof (year_len_leap yoe HY) as HL.
  set (L := leap (yoe + 1)) in *.
  destruct (civil_doe_pure (doe + 1) H2) as [Hdoy' Hciv']. cbv zeta in Hdoy', Hciv'.
  unfold cd. rewrite Hciv, Hciv'.
  destruct (Z_lt_le_dec (doy + 1) (365 + (if L then 1 else 0))) as [Hin|Hlast].
  - (* the next day is in the same March-based year *)
    assert (HYo : Yoe (doe + 1) = yoe) by (apply Yoe_unique; [exact H2|exact HY|unfold doy in *; lia]).
    rewrite HYo in *. replace (doe + 1 - Bera yoe) with (doy + 1) in * by (unfold doy; lia).
    pose proof (chkF_spec L doy ltac:(lia) ltac:(destruct L; lia)) as HF. unfold chkF in HF.
    pose proof (chkD_spec doy Hdoy) as HD. unfold chkD in HD.
    destruct (md_of_doy doy) as [m d]. destruct (md_of_doy (doy + 1)) as [m' d']. cbn [fst snd].
    rewrite !andb_true_iff in HD. destruct HD as [[[[[[[D1 D2] D3] D4] D5] D6] D7] D8].
    unfold next_day.
    assert (Hdim : dim (yoe + c01 m) m = dimL L m).
    { rewrite dim_dimL. unfold dimL. destruct (m =? 2) eqn:E2; [|reflexivity].
      assert (m = 2) by lia. subst m. unfold c01. change (2 <=? 2) with true. cbv iota. reflexivity. }
    rewrite Hdim.
    destruct (d <? dimL L m) eqn:E1.
    + assert (m' = m /\ d' = d + 1) by lia. destruct H0 as [-> ->]. reflexivity.
    + destruct (m <? 12) eqn:E12.
      * assert (m' = m + 1 /\ d' = 1 /\ c01 m' = c01 m) by lia. destruct H0 as (-> & -> & Hc). rewrite Hc. reflexivity.
      * assert (m' = 1 /\ d' = 1 /\ c01 m = 0) by lia. destruct H0 as (-> & -> & Hc). rewrite Hc.
        unfold c01. change (1 <=? 2) with true. cbv iota. f_equal. f_equal. lia.
  - (* the last day of the March-based year: 28/29 February -> 1 March of the next one *)
    assert (Hy1 : yoe + 1 <= 399) by (unfold doy, Bera in *; lia).
    assert (Hdoe1 : doe + 1 = Bera (yoe + 1)) by (unfold doy, Bera in *; lia).
    assert (HYo : Yoe (doe + 1) = yoe + 1).
    { apply Yoe_unique; [exact H2|lia|]. unfold Bera in *. lia. }
    rewrite HYo in *. replace (doe + 1 - Bera (yoe + 1)) with 0 in * by lia.
    rewrite md_0. cbn [fst snd].
    assert (Hd : doy = 364 + (if L then 1 else 0)) by (unfold doy in *; lia).
    unfold next_day. fold L in HL.
    destruct L eqn:EL.
    + replace doy with 365 by lia. rewrite md_365. cbn [fst snd]. unfold c01. change (2 <=? 2) with true. change (3 <=? 2) with false. cbv iota.
      unfold dim. change (2 =? 2) with true. cbv iota. fold (leap (yoe + 1)). unfold L in EL. rewrite EL.
      change (29 <? 29) with false. change (2 <? 12) with true. cbv iota. f_equal. f_equal. lia.
    + replace doy with 364 by lia. rewrite md_364. cbn [fst snd]. unfold c01. change (2 <=? 2) with true. change (3 <=? 2) with false. cbv iota.
      unfold dim. change (2 =? 2) with true. cbv iota. unfold L in EL. rewrite EL.
      change (28 <? 28) with false. change (2 <? 12) with true. cbv iota. f_equal. f_equal. lia.
Qed.
