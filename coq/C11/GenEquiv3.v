(* C11, translator tie, part 3: month_day::ok(), the `- months` / `- years` forms (negation of the duration first), the
   increment / decrement operators of year, month, day, weekday (NON-const member functions: the generated definition
   returns the pair (returned value, value left in the object)) and weekday +/- days.  See GenEquiv2.v. *)
From Tetl Require Import Lib.Base C11.Model C11.ModelCal C11.GenEquiv C11.GenEquiv2 C11.ProofsCal.
From Tetl Require Gen.Gen_chrono Gen.Gen_calendar.
From Coq Require Import ZifyBool List.
Import ListNotations.
Local Open Scope Z_scope.
Ltac Zify.zify_post_hook ::= Z.to_euclidean_division_equations.

Module G := Gen_calendar.

(** * month_day::ok(): the 29-day February table, never indexed outside 0..11 *)
Theorem gen_md_ok_eq : forall m d, G.md_ok_g m d = Some (md_ok_m m d).
Proof.
  intros m d. unfold G.md_ok_g, md_ok_m.
  replace ((m >? 0) && (m <=? 12)) with (month_ok_m m) by (unfold month_ok_m; rewrite Z.gtb_ltb; reflexivity).
  destruct (month_ok_m m) eqn:Hm; cbn [negb]; [|reflexivity].
  destruct (d <? 1); [reflexivity|].
  unfold month_ok_m in Hm.
  assert (Hmm : m = 1 \/ m = 2 \/ m = 3 \/ m = 4 \/ m = 5 \/ m = 6 \/ m = 7 \/ m = 8 \/ m = 9 \/ m = 10 \/ m = 11 \/ m = 12) by lia.
  clear Hm. repeat (destruct Hmm as [Hmm|Hmm]; [subst m; reflexivity|]). subst m; reflexivity.
Qed.

(** * x - months = x + -months, x - years = x + -years: the negation is the first checked operation *)
Lemma neg_bind {A} x (f : Z -> option A) :
  of_opt (do n <- chk i32 (0 - x); f n) = rbind (neg32_m x) (fun n => of_opt (f n)).
Proof. unfold neg32_m, s32. rewrite Z.sub_0_l. destruct (chk i32 (- x)); reflexivity. Qed.

Theorem gen_ym_minus_months_eq : forall y m dm, 0 <= m <= 255 ->
  of_opt (G.ym_minus_months_g y m dm) = ym_minus_months_m y m dm.
Proof.
  intros y m dm Hm.
  assert (E : G.ym_minus_months_g y m dm = (do n <- chk i32 (0 - dm); G.ym_plus_months_g y m n)).
  { unfold G.ym_minus_months_g, G.ym_plus_months_g. reflexivity. }
  rewrite E, neg_bind. unfold ym_minus_months_m, ym_plus_months_r.
  destruct (neg32_m dm); cbn [rbind]; try reflexivity. rewrite gen_ym_plus_months_eq by exact Hm. reflexivity.
Qed.

Theorem gen_ymd_minus_months_eq : forall y m d dm, 0 <= m <= 255 ->
  of_opt (G.ymd_minus_months_g y m d dm) = ymd_minus_months_m y m d dm.
Proof.
  intros y m d dm Hm.
  assert (E : G.ymd_minus_months_g y m d dm = (do n <- chk i32 (0 - dm); G.ymd_plus_months_g y m d n)).
  { unfold G.ymd_minus_months_g, G.ymd_plus_months_g. reflexivity. }
  rewrite E, neg_bind. unfold ymd_minus_months_m.
  destruct (neg32_m dm); cbn [rbind]; try reflexivity. apply gen_ymd_plus_months_eq. exact Hm.
Qed.

Theorem gen_ymd_minus_years_eq : forall y m d dy,
  of_opt (G.ymd_minus_years_g y m d dy) = ymd_minus_years_m y m d dy.
Proof.
  intros y m d dy.
  assert (E : G.ymd_minus_years_g y m d dy = (do n <- chk i32 (0 - dy); G.ymd_plus_years_g y m d n)).
  { unfold G.ymd_minus_years_g, G.ymd_plus_years_g. reflexivity. }
  rewrite E, neg_bind. unfold ymd_minus_years_m.
  destruct (neg32_m dy); cbn [rbind]; try reflexivity. apply gen_ymd_plus_years_eq.
Qed.

(** * ++x, x++, --x, x--: [returned; left] of each, in the order of the model's lists *)
Definition incdec_list (a b c d : option (Z * Z)) : option (list Z) :=
  match a, b, c, d with
  | Some (a1, a2), Some (b1, b2), Some (c1, c2), Some (d1, d2) => Some [a1; a2; b1; b2; c1; c2; d1; d2]
  | _, _, _, _ => None
  end.

(* year: int16 increment with modular conversion back; the postfix forms return year{old value} *)
Theorem gen_year_incdec_eq : forall y i,
  incdec_list (G.year_preinc_g y) (G.year_postinc_g y i) (G.year_predec_g y) (G.year_postdec_g y i)
  = Some [year_inc_m y; year_inc_m y; wraps 16 y; year_inc_m y; year_dec_m y; year_dec_m y; wraps 16 y; year_dec_m y].
Proof. intros y i. reflexivity. Qed.

(* month: through month + months{1} / month - months{1} *)
Lemma month_inc_g m : 0 <= m <= 255 ->
  G.month_preinc_g m = Some (month_plus_m m 1, month_plus_m m 1) /\ forall i, G.month_postinc_g m i = Some (m, month_plus_m m 1).
Proof.
  intros Hm. pose proof (gen_month_plus_eq m 1 Hm ltac:(lia)) as H.
  assert (E1 : G.month_preinc_g m = option_map (fun p => (p, p)) (Gen_chrono.month_plus_g m 1)).
  { unfold G.month_preinc_g, Gen_chrono.month_plus_g. cbv zeta. lockstep. }
  split; [rewrite E1, H; reflexivity|]. intros i.
  assert (E2 : G.month_postinc_g m i = option_map (fun p => (m, p)) (Gen_chrono.month_plus_g m 1)).
  { unfold G.month_postinc_g, Gen_chrono.month_plus_g. cbv zeta. lockstep. }
  rewrite E2, H. reflexivity.
Qed.

Lemma month_dec_g m : 0 <= m <= 255 ->
  G.month_predec_g m = Some (month_plus_m m (-1), month_plus_m m (-1)) /\ forall i, G.month_postdec_g m i = Some (m, month_plus_m m (-1)).
Proof.
  intros Hm. pose proof (gen_month_plus_eq m (-1) Hm ltac:(lia)) as H.
  assert (E1 : G.month_predec_g m = option_map (fun p => (p, p)) (Gen_chrono.month_plus_g m (-1))).
  { unfold G.month_predec_g, Gen_chrono.month_plus_g. change (chk i32 (0 - 1)) with (Some (-1)). cbn [obind]. cbv zeta. lockstep. }
  split; [rewrite E1, H; reflexivity|]. intros i.
  assert (E2 : G.month_postdec_g m i = option_map (fun p => (m, p)) (Gen_chrono.month_plus_g m (-1))).
  { unfold G.month_postdec_g, Gen_chrono.month_plus_g. change (chk i32 (0 - 1)) with (Some (-1)). cbn [obind]. cbv zeta. lockstep. }
  rewrite E2, H. reflexivity.
Qed.

Theorem gen_month_incdec_eq : forall m i, 0 <= m <= 255 ->
  of_opt (incdec_list (G.month_preinc_g m) (G.month_postinc_g m i) (G.month_predec_g m) (G.month_postdec_g m i))
  = month_incdec_m m.
Proof.
  intros m i Hm. destruct (month_inc_g m Hm) as [A B]. destruct (month_dec_g m Hm) as [C D].
  rewrite A, (B i), C, (D i). unfold month_incdec_m, month_minus_months_m, neg32_m, s32.
  rewrite (month_plus_r_m m 1) by lia. cbn [rbind].
  change (chk i32 (- (1))) with (Some (-1)). cbn [of_opt rbind].
  rewrite (month_plus_r_m m (-1)) by lia. reflexivity.
Qed.

(* day: _count +/-= uint8{1}, computed in int and narrowed back *)
Theorem gen_day_incdec_eq : forall d i, 0 <= d <= 255 ->
  incdec_list (G.day_preinc_g d) (G.day_postinc_g d i) (G.day_predec_g d) (G.day_postdec_g d i) = Some (day_incdec_m d).
Proof.
  intros d i Hd. unfold G.day_preinc_g, G.day_postinc_g, G.day_predec_g, G.day_postdec_g.
  change (wrap_ty u8 1) with 1.
  rewrite (chk_i32_some (d + 1)), (chk_i32_some (d - 1)) by lia. reflexivity.
Qed.

(* weekday::add_days for a day count up to 2^31 in absolute value (the negated int32 delta of `- days`) *)
Lemma add_days_wide wd d : 0 <= wd <= 255 -> -2147483648 <= d <= 2147483648 ->
  Gen_chrono.weekday_add_days_g wd d = Some (weekday_add_days_m wd d).
Proof.
  intros Hw Hd. unfold Gen_chrono.weekday_add_days_g, weekday_add_days_m.
  rewrite (chk_i64_some (wd + d)) by lia. cbn [obind].
  set (wdu := wd + d) in *.
  assert (Ht : (if wdu >=? 0 then Some wdu else chk i64 (wdu - 6)) = Some (if wdu >=? 0 then wdu else wdu - 6)).
  { destruct (wdu >=? 0); [reflexivity|]. apply chk_i64_some. unfold wdu. lia. }
  rewrite Ht. cbn [obind].
  set (wk := Z.quot (if wdu >=? 0 then wdu else wdu - 6) 7).
  assert (Hwk : -400000000 <= wk <= 400000000) by (unfold wk, wdu; destruct (wd + d >=? 0) eqn:E; lia).
  rewrite (chk_i64_some (wk * 7)) by lia. cbn [obind].
  rewrite (chk_i64_some (wdu - wk * 7)) by (unfold wdu; lia). cbn [obind].
  reflexivity.
Qed.

Theorem gen_weekday_plus_days_eq : forall w dd, 0 <= w <= 255 -> -2147483648 <= dd <= 2147483647 ->
  G.weekday_plus_days_g w dd = Some (weekday_plus_m w dd).
Proof.
  intros w dd Hw Hd. transitivity (Gen_chrono.weekday_add_days_g w dd); [|apply add_days_wide; lia].
  unfold G.weekday_plus_days_g, Gen_chrono.weekday_add_days_g. reflexivity.
Qed.

Theorem gen_weekday_minus_days_eq : forall w dd, 0 <= w <= 255 -> -2147483648 <= dd <= 2147483647 ->
  G.weekday_minus_days_g w dd = Some (weekday_minus_days_m w dd).
Proof.
  intros w dd Hw Hd. transitivity (Gen_chrono.weekday_add_days_g w (- dd)); [|apply add_days_wide; lia].
  unfold G.weekday_minus_days_g, Gen_chrono.weekday_add_days_g.
  rewrite (chk_i64_some (0 - dd)) by lia. cbn [obind]. rewrite Z.sub_0_l. reflexivity.
Qed.

Theorem gen_weekday_incdec_eq : forall w i, 0 <= w <= 255 ->
  incdec_list (G.weekday_preinc_g w) (G.weekday_postinc_g w i) (G.weekday_predec_g w) (G.weekday_postdec_g w i)
  = Some (weekday_incdec_m w).
Proof.
  intros w i Hw.
  pose proof (add_days_wide w 1 Hw ltac:(lia)) as P. pose proof (add_days_wide w (-1) Hw ltac:(lia)) as Q.
  assert (E1 : G.weekday_preinc_g w = option_map (fun p => (p, p)) (Gen_chrono.weekday_add_days_g w 1)).
  { unfold G.weekday_preinc_g, Gen_chrono.weekday_add_days_g. cbv zeta. lockstep. }
  assert (E2 : G.weekday_postinc_g w i = option_map (fun p => (w, p)) (Gen_chrono.weekday_add_days_g w 1)).
  { unfold G.weekday_postinc_g, Gen_chrono.weekday_add_days_g. cbv zeta. lockstep. }
  assert (E3 : G.weekday_predec_g w = option_map (fun p => (p, p)) (Gen_chrono.weekday_add_days_g w (-1))).
  { unfold G.weekday_predec_g, Gen_chrono.weekday_add_days_g. change (chk i64 (0 - 1)) with (Some (-1)). cbn [obind]. cbv zeta. lockstep. }
  assert (E4 : G.weekday_postdec_g w i = option_map (fun p => (w, p)) (Gen_chrono.weekday_add_days_g w (-1))).
  { unfold G.weekday_postdec_g, Gen_chrono.weekday_add_days_g. change (chk i64 (0 - 1)) with (Some (-1)). cbn [obind]. cbv zeta. lockstep. }
  rewrite E1, E2, E3, E4, P, Q. reflexivity.
Qed.
