(* C11 specification, part 2: what [time.cal] says about the calendar types around the
   conversions, written with exact integers.  Nothing here mentions eras, wrap-around or the
   code's formulas. *)
From Tetl Require Import Lib.Base C11.Spec.
Local Open Scope Z_scope.

(* the Gregorian date of day number z, by walking day by day from the first supported day *)
Definition greg (z : Z) : Z * Z * Z := walk (Z.to_nat (z - day_lo)) (-32767, 1, 1).

(** * The textbook day count of a civil date: days before the year + days before the month + d - 1,
      counted from 1970-01-01.  (Leap years before year y, with floor division, also for y <= 0.) *)
Definition leaps_before (y : Z) : Z := (y + 3) / 4 - (y + 99) / 100 + (y + 399) / 400.
Definition days_before_year (y : Z) : Z := 365 * y + leaps_before y - 719528.
Definition cum_table : list Z := [0; 31; 59; 90; 120; 151; 181; 212; 243; 273; 304; 334].
Definition days_before_month (y m : Z) : Z :=
  nth (Z.to_nat (m - 1)) cum_table 0 + (if (2 <? m) && leap y then 1 else 0).
Definition days_spec (y m d : Z) : Z := days_before_year y + days_before_month y m + d - 1.

(** * field types *)
Definition year_ok_spec (y : Z) : bool := (-32767 <=? y) && (y <=? 32767).
Definition month_ok_spec (m : Z) : bool := (1 <=? m) && (m <=? 12).
Definition day_ok_spec (d : Z) : bool := (1 <=? d) && (d <=? 31).
Definition weekday_ok_spec (w : Z) : bool := (0 <=? w) && (w <=? 6).
Definition cmp6_spec (a b : Z) : list bool := [a =? b; negb (a =? b); a <? b; a <=? b; b <? a; b <=? a].

(* [time.cal.month.nonmembers]: defined for every stored month value *)
Definition month_minus_months_spec (m dm : Z) : Z := (m - 1 - dm) mod 12 + 1.

(* [time.cal.md.members]: February counts 29 days *)
Definition md_exists (m d : Z) : bool :=
  month_ok_spec m && (1 <=? d) && (d <=? (if m =? 2 then 29 else dim 1 m)).
(* [time.cal.wdidx.members] *)
Definition wdi_ok_spec (w idx : Z) : bool := weekday_ok_spec w && (1 <=? idx) && (idx <=? 5).

(* [time.cal.ymd.nonmembers]: the year_month part moves, the day is kept (no clamping) *)
Definition ymd_plus_months_spec (y m d dm : Z) : Z * Z * Z :=
  let '(y', m') := year_month_plus_spec y m dm in (y', m', d).
Definition ymd_plus_years_spec (y m d dy : Z) : Z * Z * Z := (y + dy, m, d).

(* [time.cal.ymwd.members] ok(): the idx-th weekday w of y/m exists: some day d of the month has
   weekday w and is the idx-th such day *)
Fixpoint exists_day (f : Z -> bool) (n : nat) : bool :=
  match n with O => false | S k => f (Z.of_nat n) || exists_day f k end.
Definition nth_weekday_is (y m w idx d : Z) : bool :=
  (weekday_of (days_spec y m d) =? w) && ((d - 1) / 7 + 1 =? idx).
Definition ymwd_exists (y m w idx : Z) : bool :=
  year_ok_spec y && month_ok_spec m && weekday_ok_spec w &&
  exists_day (nth_weekday_is y m w idx) (Z.to_nat (dim y m)).
(* operator sys_days: (idx - 1) * 7 days after the first weekday w of y/m *)
Definition ymwd_days_spec (y m w idx : Z) : Z :=
  let z1 := days_spec y m 1 in z1 + (w - weekday_of z1) mod 7 + (idx - 1) * 7.
(* [time.cal.ymwdlast.members] operator sys_days: the last weekday w of y/m *)
Definition ymwdl_days_spec (y m w : Z) : Z :=
  let zl := days_spec y m (dim y m) in zl - (weekday_of zl - w) mod 7.
