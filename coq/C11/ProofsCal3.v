(* C11 proofs, part 5: year_month_day_last, year_month_weekday, year_month_weekday_last —
   day(), ok(), the sys_days conversions in both directions. *)
From Tetl Require Import Lib.Base C11.Model C11.Spec C11.Core C11.Proofs C11.Proofs2 C11.ModelCal C11.SpecCal
  C11.ProofsCal C11.ProofsCal2.
From Coq Require Import ZifyBool.
Local Open Scope Z_scope.
Ltac Zify.zify_post_hook ::= Z.to_euclidean_division_equations.

(** * year_month_day_last *)
Lemma last_day_r_ok y m : 1 <= m <= 12 -> last_day_r y m = Ok (dim y m).
Proof.
  intros Hm. unfold last_day_r, dim. rewrite is_leap_spec. unfold month_ok_m.
  case_month m Hc; destruct (leap y); reflexivity.
Qed.

(* outside 1..12 the call is defined (no out-of-bounds read) and yields day 0 *)
Lemma last_day_r_bad y m : 0 <= m <= 255 -> ~ (1 <= m <= 12) -> last_day_r y m = Ok 0.
Proof.
  intros Hm Hn. unfold last_day_r. destruct (m =? 2) eqn:E2; [lia|]. cbn [andb].
  unfold month_ok_m. destruct ((0 <? m) && (m <=? 12)) eqn:E; [lia|]. reflexivity.
Qed.

Lemma ymdl_ok_spec_ok y m : -32768 <= y <= 32767 -> ymdl_ok_m y m = year_ok_spec y && month_ok_spec m.
Proof. intros H. unfold ymdl_ok_m, mdl_ok_m. rewrite year_ok_spec_ok, month_ok_spec_ok by lia. reflexivity. Qed.

Lemma date_exists_last y m : 1 <= m <= 12 -> date_exists y m (dim y m) = true /\ date_exists y m (dim y m + 1) = false.
Proof. intros Hm. pose proof (dim_bounds y m). unfold date_exists. lia. Qed.

(* day() is the number of days of the month; year_month_day{ymdl} is that (existing) date;
   operator sys_days is its day number, and the Gregorian date of that day is y/m/last *)
Theorem ymdl_ok y m : -32767 <= y <= 32767 -> 1 <= m <= 12 ->
  ymdl_day_m y m = Ok (dim y m)
  /\ ymdl_to_ymd_m y m = Ok (y, m, dim y m)
  /\ ymdl_to_days_m y m = Ok (days_spec y m (dim y m))
  /\ day_lo <= days_spec y m (dim y m) <= day_hi
  /\ greg (days_spec y m (dim y m)) = (y, m, dim y m)
  /\ date_exists y m (dim y m + 1) = false.
Proof.
  intros Hy Hm. pose proof (dim_bounds y m) as Hb. destruct (date_exists_last y m Hm) as [He1 He2].
  unfold ymdl_to_ymd_m, ymdl_to_days_m, ymdl_day_m. rewrite last_day_r_ok by exact Hm. cbn [rbind].
  rewrite ymd_to_days_ok by lia.
  destruct (days_greg y m (dim y m) Hy He1) as [Hz Hg].
  repeat split; try assumption; lia.
Qed.

(** * year_month_weekday *)
Lemma exists_day_spec f : forall n, exists_day f n = true <-> exists d, 1 <= d <= Z.of_nat n /\ f d = true.
Proof.
  induction n as [|n IH].
  - cbn [exists_day]. split; [discriminate|]. intros (d & Hd & _). lia.
  - cbn [exists_day]. rewrite orb_true_iff, IH. split.
    + intros [H|(d & Hd & H)]; [exists (Z.of_nat (S n)); split; [lia|exact H] | exists d; split; [lia|exact H]].
    + intros (d & Hd & H). destruct (Z.eq_dec d (Z.of_nat (S n))) as [->|Hne]; [left; exact H|right; exists d; split; [lia|exact H]].
Qed.

Lemma weekday_of_range z : 0 <= weekday_of z <= 6.
Proof. unfold weekday_of. lia. Qed.

(* day of the month of the idx-th weekday w, in a month whose first day has weekday fw *)
Definition nth_dom (fw w idx : Z) : Z := (w - fw) mod 7 + (idx - 1) * 7 + 1.

Lemma nth_weekday_iff y m w idx d : 0 <= w <= 6 -> 1 <= d ->
  nth_weekday_is y m w idx d = true <-> d = nth_dom (weekday_of (days_spec y m 1)) w idx.
Proof.
  intros Hw Hd. unfold nth_weekday_is, nth_dom. rewrite (days_spec_linear y m d).
  set (z1 := days_spec y m 1). unfold weekday_of. rewrite andb_true_iff. lia.
Qed.

Lemma ymwd_exists_iff y m w idx : 1 <= m <= 12 -> 0 <= w <= 6 -> 0 <= idx ->
  exists_day (nth_weekday_is y m w idx) (Z.to_nat (dim y m)) =
  (1 <=? idx) && (nth_dom (weekday_of (days_spec y m 1)) w idx <=? dim y m).
Proof.
  intros Hm Hw Hi. pose proof (dim_bounds y m) as Hb.
  set (fw := weekday_of (days_spec y m 1)). pose proof (weekday_of_range (days_spec y m 1)) as Hfw. fold fw in Hfw.
  apply Bool.eq_true_iff_eq. rewrite exists_day_spec. rewrite andb_true_iff. split.
  - intros (d & Hd & H). apply nth_weekday_iff in H; [|lia|lia]. fold fw in H. unfold nth_dom in *. lia.
  - intros [H1 H2]. exists (nth_dom fw w idx). split; [unfold nth_dom in *; lia|].
    apply nth_weekday_iff; [lia|unfold nth_dom; lia|reflexivity].
Qed.

Lemma ym_slash_1 y m : ym_slash_int_m y m 1 = Ok (y, m, 1).
Proof. reflexivity. Qed.

(* the first of the month, as the code computes it in ok() and operator sys_days *)
Lemma first_weekday y m : -32768 <= y <= 32767 -> 1 <= m <= 12 ->
  ymd_to_days_m y m 1 = Ok (days_spec y m 1)
  /\ weekday_from_days_m (days_spec y m 1) = Some (weekday_of (days_spec y m 1)).
Proof.
  intros Hy Hm. pose proof (days_spec_bounds y m 1 Hy Hm ltac:(lia)) as Hb.
  split; [apply ymd_to_days_ok; lia | apply weekday_from_days_spec; lia].
Qed.

(* ok() is true exactly when the idx-th weekday w of y/m exists *)
Theorem ymwd_ok_spec_ok y m w idx :
  -32768 <= y <= 32767 -> 0 <= m <= 255 -> 0 <= w <= 255 -> 0 <= idx <= 255 ->
  ymwd_ok_m y m w idx = Ok (ymwd_exists y m w idx).
Proof.
  intros Hy Hm Hw Hi. unfold ymwd_ok_m, ymwd_exists.
  rewrite year_ok_spec_ok, month_ok_spec_ok, weekday_ok_spec_ok by lia.
  destruct (year_ok_spec y) eqn:Ey; cbn [negb orb andb]; [|reflexivity].
  destruct (month_ok_spec m) eqn:Em; cbn [negb orb andb]; [|reflexivity].
  destruct (weekday_ok_spec w) eqn:Ew; cbn [negb orb andb]; [|reflexivity].
  unfold month_ok_spec in Em. unfold weekday_ok_spec in Ew.
  assert (Hm' : 1 <= m <= 12) by lia. assert (Hw' : 0 <= w <= 6) by lia.
  rewrite ymwd_exists_iff by lia.
  pose proof (dim_bounds y m) as Hb.
  set (fw := weekday_of (days_spec y m 1)). pose proof (weekday_of_range (days_spec y m 1)) as Hfw. fold fw in Hfw.
  destruct (idx <? 1) eqn:E1.
  { f_equal. destruct (1 <=? idx) eqn:E; [lia|reflexivity]. }
  destruct (idx <=? 4) eqn:E4.
  { f_equal. unfold nth_dom. lia. }
  rewrite ym_slash_1. cbn [rbind].
  destruct (first_weekday y m Hy Hm') as [Hz1 Hfw1]. rewrite Hz1. cbn [rbind].
  rewrite Hfw1. cbn [of_opt rbind]. fold fw.
  rewrite weekday_diff_spec_ok by lia. unfold weekday_diff_spec.
  assert (E7 : wraps 32 (u32w (u32w ((idx - 1) * 7) + 1)) = (idx - 1) * 7 + 1).
  { rewrite (u32w_small ((idx - 1) * 7)) by lia. rewrite u32w_small by lia. apply wraps32_small. lia. }
  rewrite E7. unfold days_add_m. rewrite s32_some by lia. cbn [of_opt rbind].
  unfold ymdl_day_m. rewrite last_day_r_ok by lia. cbn [rbind].
  rewrite u32w_small by lia. f_equal. unfold nth_dom. lia.
Qed.

(* operator sys_days: (idx - 1) * 7 days after the first weekday w of y/m, for every index 0..255 *)
Theorem ymwd_to_days_ok y m w idx :
  -32768 <= y <= 32767 -> 1 <= m <= 12 -> 0 <= w <= 6 -> 0 <= idx <= 255 ->
  ymwd_to_days_m y m w idx = Ok (ymwd_days_spec y m w idx).
Proof.
  intros Hy Hm Hw Hi. unfold ymwd_to_days_m, ymwd_days_spec. rewrite ym_slash_1. cbn [rbind].
  destruct (first_weekday y m Hy Hm) as [Hz1 Hfw1]. rewrite Hz1. cbn [rbind].
  rewrite Hfw1. cbn [of_opt rbind].
  pose proof (days_spec_bounds y m 1 Hy Hm ltac:(lia)) as Hb.
  set (z1 := days_spec y m 1) in *. pose proof (weekday_of_range z1) as Hfw.
  rewrite weekday_diff_spec_ok by lia. unfold weekday_diff_spec.
  rewrite (s32_some ((idx - 1) * 7)) by lia. cbn [of_opt rbind].
  rewrite s32_some by lia. cbn [of_opt rbind]. rewrite s32_some by lia. cbn [of_opt]. f_equal. lia.
Qed.

(* ... and when that weekday exists, the result is the day number of a day d of the month with
   weekday w that is the idx-th such day *)
Theorem ymwd_days_spec_meaning y m w idx :
  -32767 <= y <= 32767 -> ymwd_exists y m w idx = true -> 0 <= idx ->
  exists d, date_exists y m d = true /\ ymwd_days_spec y m w idx = days_spec y m d
            /\ greg (days_spec y m d) = (y, m, d) /\ weekday_of (days_spec y m d) = w /\ (d - 1) / 7 + 1 = idx.
Proof.
  intros Hy He Hi. unfold ymwd_exists in He. rewrite !andb_true_iff in He. destruct He as [[[_ Em] Ew] He].
  unfold month_ok_spec in Em. unfold weekday_ok_spec in Ew.
  rewrite ymwd_exists_iff in He by lia. pose proof (dim_bounds y m) as Hb.
  set (fw := weekday_of (days_spec y m 1)) in *. pose proof (weekday_of_range (days_spec y m 1)) as Hfw. fold fw in Hfw.
  exists (nth_dom fw w idx).
  assert (Hd : 1 <= nth_dom fw w idx <= dim y m) by (unfold nth_dom in *; lia).
  assert (Hex : date_exists y m (nth_dom fw w idx) = true) by (unfold date_exists; lia).
  split; [exact Hex|]. split.
  { unfold ymwd_days_spec. fold fw. rewrite (days_spec_linear y m (nth_dom fw w idx)). unfold nth_dom. lia. }
  split; [apply (days_greg y m _ Hy Hex)|].
  assert (Hn : nth_weekday_is y m w idx (nth_dom fw w idx) = true) by (apply nth_weekday_iff; [lia|lia|reflexivity]).
  unfold nth_weekday_is in Hn. lia.
Qed.

(* year_month_weekday{sys_days}: year and month of the Gregorian date, the weekday of the day, and
   the index (d - 1) / 7 + 1; it is ok() and converts back to the same day *)
Theorem ymwd_from_days_ok z : day_lo <= z <= day_hi ->
  let '(y, m, d) := greg z in
  ymwd_from_days_m z = Ok (y, m, weekday_of z, (d - 1) / 7 + 1)
  /\ ymwd_ok_m y m (weekday_of z) ((d - 1) / 7 + 1) = Ok true
  /\ ymwd_to_days_m y m (weekday_of z) ((d - 1) / 7 + 1) = Ok z.
Proof.
  intros Hz. pose proof (greg_fields z Hz) as HF. pose proof (greg_days z Hz) as HD.
  pose proof (ymd_from_days_ok z Hz) as H1.
  destruct (greg z) as [[y m] d] eqn:Eg. destruct HF as (Hy & Hm & Hd).
  pose proof (dim_bounds y m) as Hb. pose proof (weekday_of_range z) as Hwz.
  assert (Hidx : 1 <= (d - 1) / 7 + 1 <= 5) by lia.
  split.
  { unfold ymwd_from_days_m. rewrite H1. cbn [rbind].
    unfold day_lo, day_hi in Hz. rewrite weekday_from_days_spec by lia. cbn [of_opt rbind].
    rewrite (u32w_small (d - 1)) by lia.
    assert (Hq : Z.quot (d - 1) 7 = (d - 1) / 7) by lia. rewrite Hq.
    rewrite u32w_small by lia. unfold wdi_ctor_m. rewrite wrapu8_small by lia. reflexivity. }
  assert (Hlin : z = days_spec y m 1 + (d - 1)) by (rewrite <- HD; apply days_spec_linear).
  split.
  { rewrite ymwd_ok_spec_ok by lia. f_equal. unfold ymwd_exists.
    assert (E1 : year_ok_spec y = true) by (unfold year_ok_spec; lia).
    assert (E2 : month_ok_spec m = true) by (unfold month_ok_spec; lia).
    assert (E3 : weekday_ok_spec (weekday_of z) = true) by (unfold weekday_ok_spec; lia).
    rewrite E1, E2, E3. cbn [andb]. apply exists_day_spec. exists d. split; [lia|].
    unfold nth_weekday_is. rewrite HD. lia. }
  rewrite ymwd_to_days_ok by lia. f_equal. unfold ymwd_days_spec.
  set (z1 := days_spec y m 1) in *. unfold weekday_of. lia.
Qed.

(** * year_month_weekday_last *)
Lemma ymwdl_ok_spec_ok y m w : -32768 <= y <= 32767 -> 0 <= w <= 255 ->
  ymwdl_ok_m y m w = year_ok_spec y && month_ok_spec m && weekday_ok_spec w.
Proof.
  intros Hy Hw. unfold ymwdl_ok_m, wdl_ok_m. rewrite year_ok_spec_ok, month_ok_spec_ok, weekday_ok_spec_ok by lia. reflexivity.
Qed.

(* operator sys_days is the last weekday w of y/m: a day of the last seven days of the month
   whose weekday is w *)
Theorem ymwdl_to_days_ok y m w : -32767 <= y <= 32767 -> 1 <= m <= 12 -> 0 <= w <= 6 ->
  ymwdl_to_days_m y m w = Ok (ymwdl_days_spec y m w)
  /\ exists d, dim y m - 7 < d <= dim y m /\ date_exists y m d = true
       /\ ymwdl_days_spec y m w = days_spec y m d
       /\ greg (days_spec y m d) = (y, m, d) /\ weekday_of (days_spec y m d) = w.
Proof.
  intros Hy Hm Hw. pose proof (dim_bounds y m) as Hb.
  destruct (ymdl_ok y m Hy Hm) as (_ & _ & H3 & Hr & _).
  set (zl := days_spec y m (dim y m)) in *. pose proof (weekday_of_range zl) as Hlw.
  unfold day_lo, day_hi in Hr.
  split.
  { unfold ymwdl_to_days_m. rewrite H3. cbn [rbind]. rewrite weekday_from_days_spec by lia. cbn [of_opt rbind].
    rewrite weekday_diff_spec_ok by lia. unfold weekday_diff_spec, ymwdl_days_spec. fold zl.
    rewrite s32_some by lia. reflexivity. }
  set (k := (weekday_of zl - w) mod 7).
  exists (dim y m - k).
  assert (Hk : 0 <= k <= 6) by (unfold k; lia).
  assert (Hex : date_exists y m (dim y m - k) = true) by (unfold date_exists; lia).
  split; [lia|]. split; [exact Hex|].
  assert (E : ymwdl_days_spec y m w = days_spec y m (dim y m - k)).
  { unfold ymwdl_days_spec. fold zl. fold k. unfold zl. rewrite (days_spec_linear y m (dim y m)), (days_spec_linear y m (dim y m - k)). lia. }
  split; [exact E|]. split; [apply (days_greg y m _ Hy Hex)|].
  rewrite <- E. unfold ymwdl_days_spec. fold zl. fold k. unfold k, weekday_of. lia.
Qed.
