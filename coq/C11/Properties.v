(* C11 — Calendar conversions are a Gregorian bijection over the whole year range.
   Property theorems only: each is closed by [exact] of a lemma proved in Proofs*.v,
   followed by Print Assumptions.  The supported range is all days of the years
   -32767..32767 (day_lo = -12687428 .. day_hi = 11248737), written into the statements. *)
From Tetl Require Import Lib.Base C11.Model C11.Spec C11.Core C11.Proofs C11.Proofs2.
Local Open Scope Z_scope.

(* days -> civil -> days is the identity on every supported day, with no signed overflow
   (the model's checked int32 arithmetic returns Some) *)
Theorem C11_civil_days_roundtrip : forall z, day_lo <= z <= day_hi ->
  exists y m d, civil_from_days_m z = Some (y, m, d) /\ days_from_civil_m y m d = Some z.
Proof. exact civil_days_roundtrip. Qed.
Print Assumptions C11_civil_days_roundtrip.

(* civil -> days -> civil is the identity on every existing date of the supported years *)
Theorem C11_days_civil_roundtrip : forall y m d,
  -32767 <= y <= 32767 -> date_exists y m d = true ->
  exists z, days_from_civil_m y m d = Some z /\ day_lo <= z <= day_hi
            /\ civil_from_days_m z = Some (y, m, d).
Proof. exact days_civil_roundtrip. Qed.
Print Assumptions C11_days_civil_roundtrip.

(* the civil date is the proleptic Gregorian date: the one reached by walking the calendar
   day by day (spec: Spec.next_day) from the first supported day; day 0 is 1970-01-01 *)
Theorem C11_civil_is_gregorian : forall z, day_lo <= z <= day_hi ->
  civil_from_days_m z = Some (walk (Z.to_nat (z - day_lo)) (-32767, 1, 1)).
Proof. exact civil_is_gregorian. Qed.
Print Assumptions C11_civil_is_gregorian.

Theorem C11_civil_epoch : civil_from_days_m 0 = Some epoch.
Proof. exact civil_epoch. Qed.
Print Assumptions C11_civil_epoch.

(* weekday of a day count, for every int32 day count for which tp+4 does not overflow *)
Theorem C11_weekday_from_days : forall z, -2147483648 <= z <= 2147483643 ->
  weekday_from_days_m z = Some (weekday_of z).
Proof. exact weekday_from_days_spec. Qed.
Print Assumptions C11_weekday_from_days.

(* ok() is true exactly for the dates that exist *)
Theorem C11_ok_iff_exists : forall y m d,
  -32767 <= y <= 32767 -> 0 <= m <= 255 -> 0 <= d <= 255 ->
  ymd_ok_m y m d = date_exists y m d.
Proof. exact ymd_ok_spec. Qed.
Print Assumptions C11_ok_iff_exists.

Theorem C11_is_leap : forall y, is_leap_m y = leap y.
Proof. exact is_leap_spec. Qed.
Print Assumptions C11_is_leap.

Theorem C11_last_day_of_month : forall y m, last_day_of_month_m y m = dim y m.
Proof. exact last_day_spec. Qed.
Print Assumptions C11_last_day_of_month.

(* month + months normalises into 1..12 for every delta *)
Theorem C11_month_plus : forall m dm, 1 <= m <= 12 -> month_plus_m m dm = month_plus_spec m dm.
Proof. exact month_plus_spec_ok. Qed.
Print Assumptions C11_month_plus.

Theorem C11_month_minus : forall m1 m2, 1 <= m1 <= 12 -> 1 <= m2 <= 12 ->
  month_minus_m m1 m2 = month_minus_spec m1 m2.
Proof. exact month_minus_spec_ok. Qed.
Print Assumptions C11_month_minus.

(* year_month + months carries the floor quotient into the year *)
Theorem C11_year_month_plus : forall y m dm,
  -32767 <= y <= 32767 -> 1 <= m <= 12 -> -2147483647 <= dm <= 2147483647 ->
  -32768 <= fst (year_month_plus_spec y m dm) <= 32767 ->
  year_month_plus_months_m y m dm = Some (year_month_plus_spec y m dm).
Proof. exact year_month_plus_spec_ok. Qed.
Print Assumptions C11_year_month_plus.

Theorem C11_year_plus : forall y dy,
  -32768 <= y <= 32767 -> -2147483648 <= dy <= 2147483647 -> -32768 <= y + dy <= 32767 ->
  year_plus_m y dy = Some (y + dy).
Proof. exact year_plus_spec_ok. Qed.
Print Assumptions C11_year_plus.

(* weekday +/- days is arithmetic modulo 7 for every delta *)
Theorem C11_weekday_plus : forall w dd, 0 <= w <= 6 -> weekday_plus_m w dd = weekday_plus_spec w dd.
Proof. exact weekday_plus_spec_ok. Qed.
Print Assumptions C11_weekday_plus.

Theorem C11_weekday_minus_days : forall w dd, 0 <= w <= 6 ->
  weekday_minus_days_m w dd = weekday_plus_spec w (- dd).
Proof. exact weekday_minus_days_spec_ok. Qed.
Print Assumptions C11_weekday_minus_days.

Theorem C11_weekday_diff : forall a b, 0 <= a <= 6 -> 0 <= b <= 6 ->
  weekday_diff_m a b = weekday_diff_spec a b.
Proof. exact weekday_diff_spec_ok. Qed.
Print Assumptions C11_weekday_diff.

(* non-vacuity: the hypotheses are met by ordinary dates *)
Example C11_nonvacuous :
  day_lo <= 19000 <= day_hi /\ date_exists 2024 2 29 = true /\ date_exists 1900 2 29 = false
  /\ civil_from_days_m 19782 = Some (2024, 2, 29) /\ days_from_civil_m 2024 2 29 = Some 19782
  /\ year_month_plus_months_m 2020 12 1 = Some (2021, 1)
  /\ weekday_minus_days_m 0 1 = 6.
Proof. vm_compute. repeat split; congruence. Qed.
