(* C11 proofs, part 7: algebraic laws — subtraction inverts addition (the defining property of
   month - month and weekday - weekday in [time.cal]), adding months is a group action on
   year_month (associativity, 12 months = 1 year, + then - is the identity), every date produced
   by the sys_days conversion is ok(). *)
From Tetl Require Import Lib.Base C11.Model C11.Spec C11.Core C11.Proofs C11.Proofs2 C11.ModelCal C11.SpecCal
  C11.ProofsCal C11.ProofsCal2.
From Coq Require Import ZifyBool.
Local Open Scope Z_scope.
Ltac Zify.zify_post_hook ::= Z.to_euclidean_division_equations.

(* [time.cal.month.nonmembers]: x - y is the dm in [0, 11] with y + dm == x *)
Theorem month_diff_inverts m1 m2 : 1 <= m1 <= 12 -> 1 <= m2 <= 12 ->
  0 <= month_minus_m m1 m2 <= 11 /\ month_plus_m m2 (month_minus_m m1 m2) = m1.
Proof.
  intros H1 H2. rewrite month_minus_spec_ok by assumption. rewrite month_plus_spec_ok by assumption.
  unfold month_minus_spec, month_plus_spec. lia.
Qed.

(* [time.cal.wd.nonmembers]: x - y is the d in [0, 6] with y + d == x *)
Theorem weekday_diff_inverts a b : 0 <= a <= 6 -> 0 <= b <= 6 ->
  0 <= weekday_diff_m a b <= 6 /\ weekday_plus_m b (weekday_diff_m a b) = a.
Proof.
  intros Ha Hb. rewrite weekday_diff_spec_ok by assumption. rewrite weekday_plus_spec_ok by assumption.
  unfold weekday_diff_spec, weekday_plus_spec. lia.
Qed.

(* weekday +/- days and month +/- months are inverse to each other *)
Theorem weekday_plus_minus w dd : 0 <= w <= 6 -> weekday_minus_days_m (weekday_plus_m w dd) dd = w.
Proof.
  intros Hw. rewrite (weekday_plus_spec_ok w dd Hw).
  rewrite weekday_minus_days_spec_ok by (unfold weekday_plus_spec; lia). unfold weekday_plus_spec. lia.
Qed.

Lemma ym_spec_assoc y m a b : 1 <= m <= 12 ->
  let '(y1, m1) := year_month_plus_spec y m a in
  year_month_plus_spec y1 m1 b = year_month_plus_spec y m (a + b) /\ 1 <= m1 <= 12.
Proof. intros Hm. unfold year_month_plus_spec. split; [f_equal; lia|lia]. Qed.

(* (ym + a) + b = ym + (a + b) whenever no year leaves the int16 range and a + b is an int32 *)
Theorem ym_plus_assoc y m a b :
  -32767 <= y <= 32767 -> 1 <= m <= 12 ->
  -2147483647 <= a <= 2147483647 -> -2147483647 <= b <= 2147483647 -> -2147483647 <= a + b <= 2147483647 ->
  -32767 <= fst (year_month_plus_spec y m a) <= 32767 ->
  -32768 <= fst (year_month_plus_spec y m (a + b)) <= 32767 ->
  rbind (ym_plus_months_r y m a) (fun r => ym_plus_months_r (fst r) (snd r) b) = ym_plus_months_r y m (a + b).
Proof.
  intros Hy Hm Ha Hb Hab H1 H2. pose proof (ym_spec_assoc y m a b Hm) as HA.
  rewrite (ym_plus_months_ok y m a) by (try assumption; lia). cbn [rbind].
  destruct (year_month_plus_spec y m a) as [y1 m1] eqn:E1. cbn [fst snd] in *. destruct HA as [HA Hm1].
  rewrite (ym_plus_months_ok y1 m1 b) by (try assumption; try lia; rewrite HA; lia).
  rewrite (ym_plus_months_ok y m (a + b)) by (try assumption; lia). f_equal. exact HA.
Qed.

(* adding and then subtracting the same number of months gives the year_month back *)
Theorem ym_plus_minus y m a :
  -32767 <= y <= 32767 -> 1 <= m <= 12 -> -2147483647 <= a <= 2147483647 ->
  -32767 <= fst (year_month_plus_spec y m a) <= 32767 ->
  rbind (ym_plus_months_r y m a) (fun r => ym_minus_months_m (fst r) (snd r) a) = Ok (y, m).
Proof.
  intros Hy Hm Ha H1. pose proof (ym_spec_assoc y m a (- a) Hm) as HA.
  rewrite (ym_plus_months_ok y m a) by (try assumption; lia). cbn [rbind].
  destruct (year_month_plus_spec y m a) as [y1 m1] eqn:E1. cbn [fst snd] in *. destruct HA as [HA Hm1].
  assert (H0 : year_month_plus_spec y m (a + - a) = (y, m)).
  { unfold year_month_plus_spec. f_equal; lia. }
  rewrite H0 in HA.
  rewrite (ym_minus_months_ok y1 m1 a) by (try assumption; try lia; rewrite HA; cbn [fst]; lia).
  f_equal. exact HA.
Qed.

(* twelve months are one year *)
Theorem ym_months_years y m k :
  -32767 <= y <= 32767 -> 1 <= m <= 12 -> -178956970 <= k <= 178956970 -> -32768 <= y + k <= 32767 ->
  ym_plus_months_r y m (12 * k) = ym_plus_years_m y m k.
Proof.
  intros Hy Hm Hk Hr.
  assert (E : year_month_plus_spec y m (12 * k) = (y + k, m)) by (unfold year_month_plus_spec; f_equal; lia).
  rewrite ym_plus_months_ok by (try assumption; try lia; rewrite E; cbn [fst]; lia).
  rewrite ym_plus_years_ok by lia. f_equal. exact E.
Qed.

(* every date the conversion from sys_days produces is ok() *)
Theorem civil_ok z : day_lo <= z <= day_hi -> let '(y, m, d) := greg z in ymd_ok_m y m d = true.
Proof.
  intros Hz. pose proof (greg_fields z Hz) as HF. destruct (greg z) as [[y m] d]. destruct HF as (Hy & Hm & Hd).
  pose proof (dim_bounds y m). rewrite ymd_ok_spec by lia. unfold date_exists. lia.
Qed.
