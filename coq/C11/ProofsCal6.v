(* C11 proofs, part 8: totality — the two conversion kernels have no signed overflow on their whole
   argument types (not only on the supported calendar range):
   days_from_civil for every int16 year and every uint8 month / day value,
   civil_from_days for every int32 day count except the top 719468 (where `z += 719468` overflows). *)
From Tetl Require Import Lib.Base C11.Model C11.Spec C11.Core C11.Era C11.Proofs C11.Proofs2 C11.ModelCal C11.SpecCal C11.ProofsCal C11.ProofsCal2.
From Coq Require Import ZifyBool.
Local Open Scope Z_scope.
Ltac Zify.zify_post_hook ::= Z.to_euclidean_division_equations.

Lemma doe_linear_any yoe m d : 0 <= yoe <= 399 -> 0 <= m <= 255 -> 0 <= d <= 255 ->
  wraps 32 (doe_of_m yoe m d) = 365 * yoe + yoe / 4 - yoe / 100 + (153 * mm_of m + 2) / 5 + d - 1.
Proof.
  intros Hy Hm Hd. unfold doe_of_m, mm_of.
  assert (Hmm : (if m >? 2 then u32w (m - 3) else u32w (m + 9)) = (if m >? 2 then m - 3 else m + 9)).
  { destruct (m >? 2) eqn:E; apply u32w_small; lia. }
  rewrite Hmm. set (mm := if m >? 2 then m - 3 else m + 9).
  assert (Hmmr : 0 <= mm <= 252) by (unfold mm; destruct (m >? 2) eqn:E; lia).
  rewrite (u32w_small (153 * mm)) by lia. rewrite (u32w_small (153 * mm + 2)) by lia.
  assert (Hq : Z.quot (153 * mm + 2) 5 = (153 * mm + 2) / 5) by lia. rewrite Hq.
  set (A := (153 * mm + 2) / 5). assert (HA : 0 <= A <= 7712) by (unfold A; lia).
  rewrite (u32w_small (yoe * 365)) by lia.
  assert (Hq4 : Z.quot yoe 4 = yoe / 4) by lia. assert (Hq100 : Z.quot yoe 100 = yoe / 100) by lia.
  rewrite Hq4, Hq100.
  rewrite (u32w_small (yoe * 365 + yoe / 4)) by lia.
  rewrite (u32w_small (yoe * 365 + yoe / 4 - yoe / 100)) by lia.
  set (B := yoe * 365 + yoe / 4 - yoe / 100). assert (HB : 0 <= B <= 146000) by (unfold B; lia).
  unfold u32w, wraps. change (2 ^ 32) with 4294967296. change (2 ^ (32 - 1)) with 2147483648.
  destruct (_ <? 2147483648) eqn:E; lia.
Qed.

(* days_from_civil: defined (no int32 overflow) for EVERY stored year / month / day value, with the
   closed form of the result *)
Theorem days_total y m d :
  -32768 <= y <= 32767 -> 0 <= m <= 255 -> 0 <= d <= 255 ->
  let y1 := y - c01 m in let yoe := y1 mod 400 in
  days_from_civil_m y m d =
    Some (146097 * (y1 / 400) + (365 * yoe + yoe / 4 - yoe / 100 + (153 * mm_of m + 2) / 5 + d - 1) - 719468).
Proof.
  intros Hy Hm Hd y1 yoe. unfold days_from_civil_m. fold (c01 m). fold y1.
  pose proof (c01_range m) as Hc.
  rewrite (s32_some y1) by lia. cbn [obind].
  assert (Ht : (if y1 >=? 0 then Some y1 else s32 (y1 - 399))
               = Some (if y1 >=? 0 then y1 else y1 - 399)).
  { destruct (y1 >=? 0); [reflexivity|]. apply s32_some. lia. }
  rewrite Ht. cbn [obind].
  assert (Hq : Z.quot (if y1 >=? 0 then y1 else y1 - 399) 400 = y1 / 400).
  { destruct (y1 >=? 0) eqn:E; lia. }
  rewrite Hq. set (era := y1 / 400) in *.
  assert (Hera : -83 <= era <= 82) by lia.
  rewrite (s32_some (era * 400)) by lia. cbn [obind].
  rewrite (s32_some (y1 - era * 400)) by lia. cbn [obind].
  assert (Hyoe : y1 - era * 400 = yoe) by (unfold yoe; lia). rewrite Hyoe.
  assert (Hy2 : 0 <= yoe <= 399) by (unfold yoe; lia).
  rewrite (u32w_small yoe) by lia.
  rewrite (s32_some (era * 146097)) by lia. cbn [obind].
  rewrite (doe_linear_any yoe m d Hy2 Hm Hd).
  assert (HA : 0 <= (153 * mm_of m + 2) / 5 <= 7712) by (unfold mm_of; destruct (m >? 2) eqn:E; lia).
  set (A := (153 * mm_of m + 2) / 5) in *.
  rewrite s32_some by lia. cbn [obind]. rewrite s32_some by lia.
  f_equal. lia.
Qed.

(* civil_from_days: defined for every int32 day count z <= INT32_MAX - 719468 and undefined (signed
   overflow of `z += 719468`) above; month and day of the result are always a real month / day *)
Theorem civil_total z : -2147483648 <= z <= 2147483647 ->
  (z <= 2146764179 -> exists y m d, civil_from_days_m z = Some (y, m, d)
                        /\ -32768 <= y <= 32767 /\ 1 <= m <= 12 /\ 1 <= d <= 31)
  /\ (2146764179 < z -> civil_from_days_m z = None).
Proof.
  intros Hz. split.
  - intros Hz2. unfold civil_from_days_m.
    rewrite (s32_some (z + 719468)) by lia. cbn [obind].
    set (z' := z + 719468) in *.
    assert (Ht : (if z' >=? 0 then Some z' else s32 (z' - 146096))
                 = Some (if z' >=? 0 then z' else z' - 146096)).
    { destruct (z' >=? 0) eqn:E; [reflexivity|]. apply s32_some. unfold z'. lia. }
    rewrite Ht. cbn [obind].
    assert (Hq : Z.quot (if z' >=? 0 then z' else z' - 146096) 146097 = z' / 146097).
    { destruct (z' >=? 0) eqn:E; lia. }
    rewrite Hq. set (era := z' / 146097) in *.
    assert (Hera : -14695 <= era <= 14699) by (unfold era, z'; lia).
    rewrite (s32_some (era * 146097)) by lia. cbn [obind].
    assert (Hdoe : z' - era * 146097 = z' mod 146097) by (unfold era; lia).
    rewrite (s32_some (z' - era * 146097)) by (rewrite Hdoe; lia). cbn [obind].
    rewrite Hdoe. set (doe := z' mod 146097) in *.
    assert (Hd : 0 <= doe < 146097) by (unfold doe; lia).
    rewrite (u32w_small doe) by lia.
    pose proof (sweepA_spec doe Hd) as HA. unfold sweepA in HA.
    destruct (civil_doe_m doe) as [[yoe m] d].
    pose proof (dim_bounds (yoe + c01 m) m) as Hb.
    pose proof (c01_range m) as Hc.
    rewrite (s32_some (era * 400)) by lia. cbn [obind].
    rewrite (wraps32_small yoe) by lia.
    rewrite (s32_some (yoe + era * 400)) by lia. cbn [obind].
    fold (c01 m).
    rewrite (s32_some (yoe + era * 400 + c01 m)) by lia. cbn [obind].
    rewrite !wrapu8_small by lia.
    eexists _, m, d. split; [reflexivity|].
    split; [|lia].
    unfold wraps. change (2 ^ 16) with 65536. change (2 ^ (16 - 1)) with 32768.
    destruct (_ <? 32768) eqn:E; lia.
  - intros Hz2. unfold civil_from_days_m, s32, chk, in_ty, imin, imax, i32, smin, smax; cbn [sgn bits].
    change (2 ^ (32 - 1)) with 2147483648.
    destruct (_ && _) eqn:E; [lia|reflexivity].
Qed.

(* ... and on that whole domain the result is the proleptic Gregorian date of the day, with the year
   reduced to int16 by the year constructor: [civil_pure] is the calendar extended in both directions
   (civil_pure (z + 1) = next_day (civil_pure z) for EVERY z, civil_pure 0 = 1970-01-01) *)
Theorem civil_any_pure z : -2147483648 <= z <= 2146764179 ->
  civil_from_days_m z = Some (let '(y, m, d) := civil_pure z in (wraps 16 y, m, d)).
Proof.
  intros Hz. unfold civil_from_days_m, civil_pure, cd.
  rewrite (s32_some (z + 719468)) by lia. cbn [obind].
  set (z' := z + 719468) in *.
  assert (Ht : (if z' >=? 0 then Some z' else s32 (z' - 146096))
               = Some (if z' >=? 0 then z' else z' - 146096)).
  { destruct (z' >=? 0) eqn:E; [reflexivity|]. apply s32_some. unfold z'. lia. }
  rewrite Ht. cbn [obind].
  assert (Hq : Z.quot (if z' >=? 0 then z' else z' - 146096) 146097 = z' / 146097).
  { destruct (z' >=? 0) eqn:E; lia. }
  rewrite Hq. set (era := z' / 146097) in *.
  assert (Hera : -14695 <= era <= 14699) by (unfold era, z'; lia).
  rewrite (s32_some (era * 146097)) by lia. cbn [obind].
  assert (Hdoe : z' - era * 146097 = z' mod 146097) by (unfold era; lia).
  rewrite (s32_some (z' - era * 146097)) by (rewrite Hdoe; lia). cbn [obind].
  rewrite Hdoe. set (doe := z' mod 146097) in *.
  assert (Hd : 0 <= doe < 146097) by (unfold doe; lia).
  rewrite (u32w_small doe) by lia.
  pose proof (sweepA_spec doe Hd) as HA. unfold sweepA in HA.
  destruct (civil_doe_m doe) as [[yoe m] d].
  pose proof (dim_bounds (yoe + c01 m) m) as Hb.
  pose proof (c01_range m) as Hc.
  rewrite (s32_some (era * 400)) by lia. cbn [obind].
  rewrite (wraps32_small yoe) by lia.
  rewrite (s32_some (yoe + era * 400)) by lia. cbn [obind].
  fold (c01 m).
  rewrite (s32_some (yoe + era * 400 + c01 m)) by lia. cbn [obind].
  rewrite !wrapu8_small by lia.
  f_equal. f_equal. f_equal. f_equal. lia.
Qed.

Theorem civil_pure_calendar :
  civil_pure 0 = epoch /\ (forall z, civil_pure (z + 1) = next_day (civil_pure z))
  /\ (forall z, day_lo <= z <= day_hi -> civil_pure z = greg z).
Proof.
  split; [exact civil_pure_epoch|]. split; [exact civil_pure_succ|].
  intros z Hz. pose proof (civil_is_gregorian z Hz) as H. rewrite (civil_m_pure z Hz) in H.
  inversion H as [H1]. unfold greg. exact H1.
Qed.
