(* C11 proofs, review round: statements for EVERY stored value (year -32768, weekday 0..255), the table-based
   last_day_of_month of the code, absence of undefined behaviour of the _weekday / _last conversions on
   arbitrary stored fields, the release build of the constructors. *)
From Tetl Require Import Lib.Base C11.Model C11.Spec C11.Core C11.Proofs C11.Proofs2 C11.ModelCal C11.SpecCal C11.ProofsCal C11.ProofsCal2 C11.ProofsCal3 C11.ProofsCal6 C11.ModelRev.
From Tetl Require Gen.Gen_chrono.
From Coq Require Import ZifyBool.
Local Open Scope Z_scope.
Ltac Zify.zify_post_hook ::= Z.to_euclidean_division_equations.

Lemma ymd_ok_any y m d : -32768 <= y <= 32767 -> 0 <= m <= 255 -> 0 <= d <= 255 ->
  ymd_ok_m y m d = year_ok_spec y && date_exists y m d.
Proof.
  intros Hy Hm Hd.
  destruct (Z.eq_dec y (-32768)) as [->|Hn].
  - reflexivity.
  - rewrite (ymd_ok_spec y m d) by lia. unfold year_ok_spec.
    replace (-32767 <=? y) with true by lia. replace (y <=? 32767) with true by lia. reflexivity.
Qed.

(* detail::last_day_of_month as the code computes it (leap February first, day 0 outside 1..12, then the
   table): every year, every stored month; inside 1..12 it is the helper consulted by ymd_ok_m *)
Lemma last_day_r_any y m : 0 <= m <= 255 ->
  last_day_r y m = Ok (if month_ok_spec m then dim y m else 0)
  /\ (month_ok_m m = true -> last_day_r y m = Ok (last_day_of_month_m y m)).
Proof.
  intros Hm. destruct (month_ok_spec m) eqn:E; unfold month_ok_spec in E.
  - assert (H : 1 <= m <= 12) by lia. rewrite (last_day_r_ok y m H). split; [reflexivity|].
    intros _. rewrite last_day_spec. reflexivity.
  - assert (H : ~ (1 <= m <= 12)) by lia. rewrite (last_day_r_bad y m Hm H). split; [reflexivity|].
    unfold month_ok_m. lia.
Qed.

(* weekday + days, - days, ++, -- : modulo 7 for EVERY stored weekday value and every delta
   ([time.cal.wd.nonmembers] defines them through the stored value, ok() or not) *)
Lemma weekday_plus_any w dd : weekday_plus_m w dd = weekday_plus_spec w dd.
Proof.
  unfold weekday_plus_m, weekday_add_days_m, weekday_plus_spec.
  set (wdu := w + dd).
  assert (Hq : Z.quot (if wdu >=? 0 then wdu else wdu - 6) 7 = wdu / 7).
  { destruct (wdu >=? 0) eqn:E; lia. }
  rewrite Hq. rewrite wrapu8_small by lia. lia.
Qed.
Lemma weekday_ops_any w dd :
  weekday_plus_m w dd = weekday_plus_spec w dd /\ weekday_minus_days_m w dd = weekday_plus_spec w (- dd)
  /\ weekday_incdec_m w = (let p := weekday_plus_spec w 1 in let q := weekday_plus_spec w (-1) in [p; p; w; p; q; q; w; q])
  /\ 0 <= weekday_plus_spec w dd <= 6.
Proof.
  split; [apply weekday_plus_any|]. split; [apply (weekday_plus_any w (- dd))|].
  split.
  - unfold weekday_incdec_m. fold (weekday_plus_m w 1). fold (weekday_plus_m w (-1)).
    rewrite !weekday_plus_any. reflexivity.
  - unfold weekday_plus_spec. lia.
Qed.

Lemma day_minus_contract d dd : 0 <= d <= 255 -> -2147483648 <= dd <= 2147483647 -> ~ (0 <= d - dd <= 255) ->
  day_minus_days_m d dd = Contract.
Proof.
  intros Hd Hdd Hr. unfold day_minus_days_m, day_ctor_m.
  destruct (u32w (d - u32w dd) <=? 255) eqn:E; [|reflexivity]. unfold u32w in E. lia.
Qed.

(** * no undefined behaviour on arbitrary stored fields *)
Lemma days_total_bounds y m d : -32768 <= y <= 32767 -> 0 <= m <= 255 -> 0 <= d <= 255 ->
  exists z, ymd_to_days_m y m d = Ok z /\ -12900000 <= z <= 11500000.
Proof.
  intros Hy Hm Hd. pose proof (days_total y m d Hy Hm Hd) as H. cbv zeta in H.
  unfold ymd_to_days_m. rewrite H. eexists. split; [reflexivity|].
  pose proof (c01_range m) as Hc.
  assert (HA : 0 <= (153 * mm_of m + 2) / 5 <= 7712) by (unfold mm_of; destruct (m >? 2) eqn:E; lia).
  set (A := (153 * mm_of m + 2) / 5) in *. set (y1 := y - c01 m) in *.
  lia.
Qed.

Lemma wdfd_some z : -2147483648 <= z <= 2147483643 -> exists w, weekday_from_days_m z = Some w /\ 0 <= w <= 6.
Proof.
  intros Hz. rewrite (weekday_from_days_spec z Hz). eexists. split; [reflexivity|]. apply weekday_of_range.
Qed.

Lemma weekday_diff_range a b : 0 <= a <= 255 -> 0 <= b <= 255 -> -255 <= weekday_diff_m a b <= 255.
Proof.
  intros Ha Hb. unfold weekday_diff_m.
  assert (E : wraps 32 (u32w (a - b)) = a - b).
  { unfold u32w, wraps. change (2 ^ 32) with 4294967296. change (2 ^ (32 - 1)) with 2147483648.
    destruct (_ <? 2147483648) eqn:E; lia. }
  rewrite E. destruct (a - b >=? 0) eqn:E2; lia.
Qed.

Theorem no_ub_any_stored y m w idx :
  -32768 <= y <= 32767 -> 0 <= m <= 255 -> 0 <= w <= 255 -> 0 <= idx <= 255 ->
  (exists z, ymwd_to_days_m y m w idx = Ok z) /\ (exists z, ymwdl_to_days_m y m w = Ok z)
  /\ (exists z, ymdl_to_days_m y m = Ok z) /\ (exists t, ymdl_to_ymd_m y m = Ok t)
  /\ (exists b, ymwd_ok_m y m w idx = Ok b).
Proof.
  intros Hy Hm Hw Hi.
  assert (Hld : exists ld, last_day_r y m = Ok ld /\ 0 <= ld <= 31).
  { destruct (last_day_r_any y m Hm) as [H _]. rewrite H. eexists. split; [reflexivity|].
    pose proof (dim_bounds y m). destruct (month_ok_spec m); lia. }
  destruct Hld as (ld & Hld & Hldr).
  destruct (days_total_bounds y m ld Hy Hm ltac:(lia)) as (zl & Hzl & Hzlr).
  assert (Hymdl : ymdl_to_days_m y m = Ok zl).
  { unfold ymdl_to_days_m, ymdl_day_m. rewrite Hld. cbn [rbind]. exact Hzl. }
  destruct (days_total_bounds y m 1 Hy Hm ltac:(lia)) as (z1 & Hz1 & Hz1r).
  destruct (wdfd_some z1 ltac:(lia)) as (fw & Hfw & Hfwr).
  split.
  { unfold ymwd_to_days_m. rewrite ym_slash_1. cbn [rbind]. rewrite Hz1. cbn [rbind]. rewrite Hfw. cbn [of_opt rbind].
    pose proof (weekday_diff_range w fw Hw ltac:(lia)) as Hd.
    rewrite (s32_some ((idx - 1) * 7)) by lia. cbn [of_opt rbind].
    rewrite s32_some by lia. cbn [of_opt rbind]. rewrite s32_some by lia. eexists. reflexivity. }
  split.
  { unfold ymwdl_to_days_m. rewrite Hymdl. cbn [rbind].
    destruct (wdfd_some zl ltac:(lia)) as (lw & Hlw & Hlwr). rewrite Hlw. cbn [of_opt rbind].
    pose proof (weekday_diff_range lw w ltac:(lia) Hw) as Hd.
    rewrite s32_some by lia. eexists. reflexivity. }
  split; [eexists; exact Hymdl|].
  split.
  { unfold ymdl_to_ymd_m, ymdl_day_m. rewrite Hld. eexists. reflexivity. }
  rewrite (ymwd_ok_spec_ok y m w idx Hy Hm Hw Hi). eexists. reflexivity.
Qed.

(* year_month_weekday{sys_days}: defined for every int32 day count for which civil_from_days is *)
Theorem ymwd_from_days_total z : -2147483648 <= z <= 2146764179 -> exists r, ymwd_from_days_m z = Ok r.
Proof.
  intros Hz. destruct (civil_total z ltac:(lia)) as [H _]. destruct (H ltac:(lia)) as (y & m & d & Hc & _).
  unfold ymwd_from_days_m, ymd_from_days_m. rewrite Hc. cbn [of_opt rbind].
  destruct (wdfd_some z ltac:(lia)) as (w & Hw & _). rewrite Hw. cbn [of_opt rbind].
  unfold wdi_ctor_m. eexists. reflexivity.
Qed.

(** * the release build *)
Lemma ctor_release v :
  (day_ctor_m v = Ok (day_ctor_nc v) \/ day_ctor_m v = Contract)
  /\ (month_ctor_m v = Ok (month_ctor_nc v) \/ month_ctor_m v = Contract)
  /\ (0 <= v <= 255 -> day_ctor_nc v = v /\ month_ctor_nc v = v).
Proof.
  unfold day_ctor_m, month_ctor_m, day_ctor_nc, month_ctor_nc.
  split; [destruct (v <=? 255); auto|]. split; [destruct (v <=? 255); auto|].
  intros H. rewrite wrapu8_small by lia. auto.
Qed.
Lemma day_ops_release d dd :
  (day_plus_m d dd = Ok (day_plus_nc d dd) \/ day_plus_m d dd = Contract)
  /\ (day_minus_days_m d dd = Ok (day_minus_days_nc d dd) \/ day_minus_days_m d dd = Contract)
  /\ Gen_chrono.day_plus_g d dd = Some (day_plus_nc d dd)
  /\ Gen_chrono.day_minus_days_g d dd = Some (day_minus_days_nc d dd).
Proof.
  unfold day_plus_m, day_minus_days_m, day_plus_nc, day_minus_days_nc.
  split; [apply ctor_release|]. split; [apply ctor_release|].
  split; reflexivity.
Qed.
Lemma ym_slash_release y m d :
  ym_slash_int_m y m d = Ok (ym_slash_int_nc y m d) \/ ym_slash_int_m y m d = Contract.
Proof.
  unfold ym_slash_int_m, ym_slash_int_nc. destruct (ctor_release (u32w d)) as [[H|H] _]; rewrite H; auto.
Qed.
