(* C11, translator tie, part 4: the remaining conversions (year_month_day_last -> sys_days, year_month_day{ymdl},
   year_month_day{sys_days}), + / - months and years of the types that carry a year_month inside, ok() of
   month_weekday(_last).  See GenEquiv2.v. *)
From Tetl Require Import Lib.Base C11.Model C11.ModelCal C11.GenEquiv C11.GenEquiv2 C11.GenEquiv3.
From Tetl Require Gen.Gen_chrono Gen.Gen_calendar.
From Coq Require Import ZifyBool List.
Import ListNotations.
Local Open Scope Z_scope.
Ltac Zify.zify_post_hook ::= Z.to_euclidean_division_equations.

Module G := Gen_calendar.

Theorem gen_ymdl_to_sys_days_eq : forall y m, of_opt (G.ymdl_to_sys_days_g y m) = ymdl_to_days_m y m.
Proof.
  intros y m. unfold ymdl_to_days_m, ymdl_day_m, ymd_to_days_m. rewrite ld_val_ok. cbn [rbind].
  pose proof (gen_last_day_of_month_eq y m) as H. unfold G.last_day_of_month_g in H.
  unfold G.ymdl_to_sys_days_g. rewrite H. cbn [obind]. rewrite cal_days_from_civil.
  destruct (days_from_civil_m y m (ld_val y m)); reflexivity.
Qed.

Theorem gen_ymd_from_ymdl_eq : forall y m, of_opt (G.ymd_from_ymdl_g y m) = ymdl_to_ymd_m y m.
Proof.
  intros y m. unfold ymdl_to_ymd_m, ymdl_day_m. rewrite ld_val_ok. cbn [rbind].
  pose proof (gen_last_day_of_month_eq y m) as H. unfold G.last_day_of_month_g in H.
  unfold G.ymd_from_ymdl_g. rewrite H. reflexivity.
Qed.

Theorem gen_ymd_from_sys_days_eq : forall z, of_opt (G.ymd_from_sys_days_g z) = ymd_from_days_m z.
Proof.
  intros z. unfold G.ymd_from_sys_days_g, ymd_from_days_m. rewrite cal_civil_from_days.
  destruct (civil_from_days_m z) as [[[y m] d]|]; reflexivity.
Qed.

(* the year_month inside moves, the rest is kept *)
Theorem gen_ymwd_plus_months_eq : forall y m w i dm, 0 <= m <= 255 ->
  G.ymwd_plus_months_g y m w i dm = option_map (fun ym => (fst ym, snd ym, (w, i))) (year_month_plus_months_m y m dm).
Proof.
  intros y m w i dm Hm. rewrite <- gen_ym_plus_months_eq by exact Hm.
  unfold G.ymwd_plus_months_g, G.ym_plus_months_g. cbv zeta. lockstep.
Qed.

Theorem gen_ymwdl_plus_months_eq : forall y m w dm, 0 <= m <= 255 ->
  G.ymwdl_plus_months_g y m w dm = option_map (fun ym => (fst ym, snd ym, w)) (year_month_plus_months_m y m dm).
Proof.
  intros y m w dm Hm. rewrite <- gen_ym_plus_months_eq by exact Hm.
  unfold G.ymwdl_plus_months_g, G.ym_plus_months_g. cbv zeta. lockstep.
Qed.

Theorem gen_plus_years_eq : forall y dy,
  (forall m w i, G.ymwd_plus_years_g y m w i dy = option_map (fun y' => (y', m, (w, i))) (year_plus_m y dy)) /\
  (forall m w, G.ymwdl_plus_years_g y m w dy = option_map (fun y' => (y', m, w)) (year_plus_m y dy)) /\
  (forall m, of_opt (G.ym_plus_years_g y m dy) = ym_plus_years_m y m dy).
Proof.
  intros y dy. unfold G.ymwd_plus_years_g, G.ymwdl_plus_years_g, G.ym_plus_years_g, ym_plus_years_m, year_plus_r, year_plus_m, s32.
  repeat split; intros; destruct (chk i32 (y + dy)); reflexivity.
Qed.

Theorem gen_ym_minus_years_eq : forall y m dy, of_opt (G.ym_minus_years_g y m dy) = ym_minus_years_m y m dy.
Proof.
  intros y m dy.
  assert (E : G.ym_minus_years_g y m dy = (do n <- chk i32 (0 - dy); G.ym_plus_years_g y m n)).
  { unfold G.ym_minus_years_g, G.ym_plus_years_g. reflexivity. }
  rewrite E, neg_bind. unfold ym_minus_years_m, year_minus_years_m.
  destruct (neg32_m dy) as [n| | |]; cbn [rbind]; try reflexivity.
  destruct (gen_plus_years_eq y n) as [_ [_ H]]. rewrite H. reflexivity.
Qed.

Theorem gen_ymdl_minus_eq : forall y m,
  (forall dm, 0 <= m <= 255 -> of_opt (G.ymdl_minus_months_g y m dm) = ymdl_minus_months_m y m dm) /\
  (forall dy, of_opt (G.ymdl_minus_years_g y m dy) = ymdl_minus_years_m y m dy).
Proof.
  intros y m. split.
  - intros dm Hm.
    assert (E : G.ymdl_minus_months_g y m dm = G.ym_minus_months_g y m dm).
    { unfold G.ymdl_minus_months_g, G.ym_minus_months_g. reflexivity. }
    rewrite E. apply gen_ym_minus_months_eq. exact Hm.
  - intros dy.
    assert (E : G.ymdl_minus_years_g y m dy = (do n <- chk i32 (0 - dy); G.ymdl_plus_years_g y m n)).
    { unfold G.ymdl_minus_years_g, G.ymdl_plus_years_g. reflexivity. }
    rewrite E, neg_bind. unfold ymdl_minus_years_m.
    destruct (neg32_m dy) as [n| | |]; cbn [rbind]; try reflexivity.
    rewrite gen_ymdl_plus_years_eq. reflexivity.
Qed.

Theorem gen_mwd_ok_eq :
  (forall m w i, G.mwd_ok_g m w i = Some (mwd_ok_m m w i)) /\ (forall m w, G.mwdl_ok_g m w = Some (mwdl_ok_m m w)).
Proof.
  split; intros.
  - unfold G.mwd_ok_g, mwd_ok_m, wdi_ok_m, weekday_ok_m, month_ok_m. apply f_equal. bool_lia.
  - unfold G.mwdl_ok_g, mwdl_ok_m, wdl_ok_m, weekday_ok_m, month_ok_m. apply f_equal. bool_lia.
Qed.
