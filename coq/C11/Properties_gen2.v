(* C11 — translator obligations, part 2: the calendar TYPES regenerated from /repo's current source
   (coq/Gen/Gen_calendar.v, configuration translate/kernels_calendar.json) = the hand model (see GenEquiv2.v).
   Domains: where no range is stated the equation holds for every integer argument; `0 <= x <= 255` is the range of a
   stored month / index (uint8).  Deltas (months, years) are arbitrary: outside int32 arithmetic both sides are
   None / UB SignedOverflow together. *)
From Tetl Require Import Lib.Base C11.Model C11.ModelCal C11.GenEquiv2 C11.GenEquiv3 C11.GenEquiv4.
From Tetl Require Gen.Gen_calendar.
From Coq Require Import List.
Import ListNotations.
Local Open Scope Z_scope.

(* year_month_weekday{sys_days}: year_month_day{dp}, weekday{dp}, index = (day - 1) / 7 + 1 *)
Theorem C11_gen_ymwd_from_sys_days : forall z,
  of_opt (option_map flat4 (Gen_calendar.ymwd_from_sys_days_g z)) = ymwd_from_days_m z.
Proof. exact gen_ymwd_from_sys_days_eq. Qed.
Print Assumptions C11_gen_ymwd_from_sys_days.

(* operator sys_days of year_month_day, year_month_weekday, year_month_weekday_last *)
Theorem C11_gen_to_sys_days :
  (forall y m d, of_opt (Gen_calendar.ymd_to_sys_days_g y m d) = ymd_to_days_m y m d)
  /\
  (forall y m w idx, 0 <= idx <= 255 -> of_opt (Gen_calendar.ymwd_to_sys_days_g y m w idx) = ymwd_to_days_m y m w idx)
  /\
  (forall y m w, of_opt (Gen_calendar.ymwdl_to_sys_days_g y m w) = ymwdl_to_days_m y m w).
Proof. exact (conj gen_ymd_to_sys_days_eq (conj gen_ymwd_to_sys_days_eq gen_ymwdl_to_sys_days_eq)). Qed.
Print Assumptions C11_gen_to_sys_days.

(* year_month_weekday::ok() *)
Theorem C11_gen_ymwd_ok : forall y m w idx, of_opt (Gen_calendar.ymwd_ok_g y m w idx) = ymwd_ok_m y m w idx.
Proof. exact gen_ymwd_ok_eq. Qed.
Print Assumptions C11_gen_ymwd_ok.

(* detail::last_day_of_month and year_month_day_last::day(): the table is never indexed outside 0..11 *)
Theorem C11_gen_last_day :
  (forall y m, of_opt (Gen_calendar.last_day_of_month_g y m) = last_day_r y m)
  /\
  (forall y m, of_opt (Gen_calendar.ymdl_day_g y m) = ymdl_day_m y m).
Proof.
  split; [|exact gen_ymdl_day_eq].
  intros y m. rewrite gen_last_day_of_month_eq, ld_val_ok. reflexivity.
Qed.
Print Assumptions C11_gen_last_day.

(* year_month + months with the floor carry into the year; year_month_day / year_month_day_last + months, + years *)
Theorem C11_gen_plus_months :
  (forall y m dm, 0 <= m <= 255 -> Gen_calendar.ym_plus_months_g y m dm = year_month_plus_months_m y m dm)
  /\
  (forall y m d dm, 0 <= m <= 255 -> of_opt (Gen_calendar.ymd_plus_months_g y m d dm) = ymd_plus_months_m y m d dm)
  /\
  (forall y m dm, 0 <= m <= 255 -> of_opt (Gen_calendar.ymdl_plus_months_g y m dm) = ymdl_plus_months_m y m dm).
Proof. exact (conj gen_ym_plus_months_eq (conj gen_ymd_plus_months_eq gen_ymdl_plus_months_eq)). Qed.
Print Assumptions C11_gen_plus_months.

Theorem C11_gen_plus_years :
  (forall y m d dy, of_opt (Gen_calendar.ymd_plus_years_g y m d dy) = ymd_plus_years_m y m d dy)
  /\
  (forall y m dy, of_opt (Gen_calendar.ymdl_plus_years_g y m dy) = ymdl_plus_years_m y m dy).
Proof. exact (conj gen_ymd_plus_years_eq gen_ymdl_plus_years_eq). Qed.
Print Assumptions C11_gen_plus_years.

(* ok() of the scalar types *)
Theorem C11_gen_ok_scalars :
  (forall d, Gen_calendar.day_ok_g d = Some (day_ok_m d)) /\
  (forall m, Gen_calendar.month_ok_g m = Some (month_ok_m m)) /\
  (forall y, Gen_calendar.year_ok_g y = Some (year_ok_m y)) /\
  (forall w, Gen_calendar.weekday_ok_g w = Some (weekday_ok_m w)).
Proof. exact (conj gen_day_ok_eq (conj gen_month_ok_eq (conj gen_year_ok_eq gen_weekday_ok_eq))). Qed.
Print Assumptions C11_gen_ok_scalars.

(* ok() of the composite types *)
Theorem C11_gen_ok_composites :
  (forall w i, Gen_calendar.wdi_ok_g w i = Some (wdi_ok_m w i)) /\
  (forall w, Gen_calendar.wdl_ok_g w = Some (wdl_ok_m w)) /\
  (forall m, Gen_calendar.mdl_ok_g m = Some (mdl_ok_m m)) /\
  (forall y m, Gen_calendar.ym_ok_g y m = Some (ym_ok_m y m)) /\
  (forall y m, Gen_calendar.ymdl_ok_g y m = Some (ymdl_ok_m y m)) /\
  (forall y m w, Gen_calendar.ymwdl_ok_g y m w = Some (ymwdl_ok_m y m w)).
Proof.
  exact (conj gen_wdi_ok_eq (conj gen_wdl_ok_eq (conj gen_mdl_ok_eq (conj gen_ym_ok_eq (conj gen_ymdl_ok_eq gen_ymwdl_ok_eq))))).
Qed.
Print Assumptions C11_gen_ok_composites.

(* year_month_day::ok(): day <= last day of that month of that year *)
Theorem C11_gen_ymd_ok : forall y m d, Gen_calendar.ymd_ok_g y m d = Some (ymd_ok_m y m d).
Proof. exact gen_ymd_ok_eq. Qed.
Print Assumptions C11_gen_ymd_ok.

(* weekday_indexed / weekday_last accessors, weekday::operator[](unsigned) *)
Theorem C11_gen_wd_accessors :
  (forall w i, Gen_calendar.wdi_weekday_g w i = Some w) /\ (forall w i, Gen_calendar.wdi_index_g w i = Some i) /\
  (forall w, Gen_calendar.wdl_weekday_g w = Some w) /\ (forall w i, Gen_calendar.wd_index_g w i = Some (wdi_ctor_m w i)).
Proof. exact gen_wd_accessors_eq. Qed.
Print Assumptions C11_gen_wd_accessors.

(* part 3 (GenEquiv3.v) *)
(* month_day::ok(): day <= 29-day-February table entry of the month *)
Theorem C11_gen_md_ok : forall m d, Gen_calendar.md_ok_g m d = Some (md_ok_m m d).
Proof. exact gen_md_ok_eq. Qed.
Print Assumptions C11_gen_md_ok.

(* year_month - months, year_month_day - months, year_month_day - years: the duration is negated first (int32, checked) *)
Theorem C11_gen_minus_months_years :
  (forall y m dm, 0 <= m <= 255 -> of_opt (Gen_calendar.ym_minus_months_g y m dm) = ym_minus_months_m y m dm)
  /\
  (forall y m d dm, 0 <= m <= 255 -> of_opt (Gen_calendar.ymd_minus_months_g y m d dm) = ymd_minus_months_m y m d dm)
  /\
  (forall y m d dy, of_opt (Gen_calendar.ymd_minus_years_g y m d dy) = ymd_minus_years_m y m d dy).
Proof. exact (conj gen_ym_minus_months_eq (conj gen_ymd_minus_months_eq gen_ymd_minus_years_eq)). Qed.
Print Assumptions C11_gen_minus_months_years.

(* ++x, x++, --x, x-- of year, month, day, weekday: the generated definition of a non-const member function returns
   (returned value, value left in the object); incdec_list puts the four pairs in the order of the model's list *)
Theorem C11_gen_incdec :
  (forall y i, incdec_list (Gen_calendar.year_preinc_g y) (Gen_calendar.year_postinc_g y i)
                           (Gen_calendar.year_predec_g y) (Gen_calendar.year_postdec_g y i)
     = Some [year_inc_m y; year_inc_m y; wraps 16 y; year_inc_m y; year_dec_m y; year_dec_m y; wraps 16 y; year_dec_m y])
  /\
  (forall m i, 0 <= m <= 255 ->
     of_opt (incdec_list (Gen_calendar.month_preinc_g m) (Gen_calendar.month_postinc_g m i)
                         (Gen_calendar.month_predec_g m) (Gen_calendar.month_postdec_g m i)) = month_incdec_m m)
  /\
  (forall d i, 0 <= d <= 255 ->
     incdec_list (Gen_calendar.day_preinc_g d) (Gen_calendar.day_postinc_g d i)
                 (Gen_calendar.day_predec_g d) (Gen_calendar.day_postdec_g d i) = Some (day_incdec_m d))
  /\
  (forall w i, 0 <= w <= 255 ->
     incdec_list (Gen_calendar.weekday_preinc_g w) (Gen_calendar.weekday_postinc_g w i)
                 (Gen_calendar.weekday_predec_g w) (Gen_calendar.weekday_postdec_g w i) = Some (weekday_incdec_m w)).
Proof. exact (conj gen_year_incdec_eq (conj gen_month_incdec_eq (conj gen_day_incdec_eq gen_weekday_incdec_eq))). Qed.
Print Assumptions C11_gen_incdec.

(* weekday + days, weekday - days (free functions working on a local copy through += / -=) *)
Theorem C11_gen_weekday_plus_minus_days :
  (forall w dd, 0 <= w <= 255 -> -2147483648 <= dd <= 2147483647 ->
     Gen_calendar.weekday_plus_days_g w dd = Some (weekday_plus_m w dd))
  /\
  (forall w dd, 0 <= w <= 255 -> -2147483648 <= dd <= 2147483647 ->
     Gen_calendar.weekday_minus_days_g w dd = Some (weekday_minus_days_m w dd)).
Proof. exact (conj gen_weekday_plus_days_eq gen_weekday_minus_days_eq). Qed.
Print Assumptions C11_gen_weekday_plus_minus_days.

(* part 4 (GenEquiv4.v) *)
(* year_month_day_last -> sys_days, year_month_day{year_month_day_last}, year_month_day{sys_days} *)
Theorem C11_gen_conversions2 :
  (forall y m, of_opt (Gen_calendar.ymdl_to_sys_days_g y m) = ymdl_to_days_m y m) /\
  (forall y m, of_opt (Gen_calendar.ymd_from_ymdl_g y m) = ymdl_to_ymd_m y m) /\
  (forall z, of_opt (Gen_calendar.ymd_from_sys_days_g z) = ymd_from_days_m z).
Proof. exact (conj gen_ymdl_to_sys_days_eq (conj gen_ymd_from_ymdl_eq gen_ymd_from_sys_days_eq)). Qed.
Print Assumptions C11_gen_conversions2.

(* year_month_weekday(_last) + months / + years: the year_month part moves as year_month + months, the rest is kept
   (the models ymwd_plus_months_m / ymwd_plus_years_m are that year_month function) *)
Theorem C11_gen_weekday_types_plus :
  (forall y m w i dm, 0 <= m <= 255 ->
     Gen_calendar.ymwd_plus_months_g y m w i dm = option_map (fun ym => (fst ym, snd ym, (w, i))) (year_month_plus_months_m y m dm)) /\
  (forall y m w dm, 0 <= m <= 255 ->
     Gen_calendar.ymwdl_plus_months_g y m w dm = option_map (fun ym => (fst ym, snd ym, w)) (year_month_plus_months_m y m dm)) /\
  (forall y dy m w i, Gen_calendar.ymwd_plus_years_g y m w i dy = option_map (fun y' => (y', m, (w, i))) (year_plus_m y dy)) /\
  (forall y dy m w, Gen_calendar.ymwdl_plus_years_g y m w dy = option_map (fun y' => (y', m, w)) (year_plus_m y dy)).
Proof.
  split; [exact gen_ymwd_plus_months_eq|]. split; [exact gen_ymwdl_plus_months_eq|].
  split; intros y dy; destruct (gen_plus_years_eq y dy) as [A [B _]]; [exact A|exact B].
Qed.
Print Assumptions C11_gen_weekday_types_plus.

(* year_month +/- years, year_month_day_last - months / - years *)
Theorem C11_gen_ym_years_ymdl_minus :
  (forall y m dy, of_opt (Gen_calendar.ym_plus_years_g y m dy) = ym_plus_years_m y m dy) /\
  (forall y m dy, of_opt (Gen_calendar.ym_minus_years_g y m dy) = ym_minus_years_m y m dy) /\
  (forall y m dm, 0 <= m <= 255 -> of_opt (Gen_calendar.ymdl_minus_months_g y m dm) = ymdl_minus_months_m y m dm) /\
  (forall y m dy, of_opt (Gen_calendar.ymdl_minus_years_g y m dy) = ymdl_minus_years_m y m dy).
Proof.
  split; [intros y m dy; destruct (gen_plus_years_eq y dy) as [_ [_ H]]; exact (H m)|].
  split; [exact gen_ym_minus_years_eq|].
  split; [intros y m dm; exact (proj1 (gen_ymdl_minus_eq y m) dm)|intros y m dy; exact (proj2 (gen_ymdl_minus_eq y m) dy)].
Qed.
Print Assumptions C11_gen_ym_years_ymdl_minus.

(* ok() of month_weekday / month_weekday_last *)
Theorem C11_gen_mwd_ok :
  (forall m w i, Gen_calendar.mwd_ok_g m w i = Some (mwd_ok_m m w i)) /\ (forall m w, Gen_calendar.mwdl_ok_g m w = Some (mwdl_ok_m m w)).
Proof. exact gen_mwd_ok_eq. Qed.
Print Assumptions C11_gen_mwd_ok.
