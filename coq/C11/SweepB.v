(* Sweep B: every existing date of one era (400 x 12 x up to 31) maps to a day-of-era that
   civil_from_days's core maps back to the same date. *)
From Tetl Require Import Lib.Base C11.Model C11.Spec C11.Core.
From Coq Require Import ZifyBool.
Local Open Scope Z_scope.
Ltac Zify.zify_post_hook ::= Z.to_euclidean_division_equations.

Definition sweepB_d (yoe m d : Z) : bool :=
  negb (d <=? dim (yoe + c01 m) m) ||
  (let doe := doe_of_m yoe m d in
   (0 <=? doe) && (doe <? 146097) && tripleb (civil_doe_m doe) (yoe, m, d)).
Definition sweepB_m (yoe m : Z) : bool := all_from (sweepB_d yoe m) 1 31.
Definition sweepB_y (yoe : Z) : bool := all_from (sweepB_m yoe) 1 12.

Lemma sweepB_all : all_from sweepB_y 0 400 = true.
Proof. vm_cast_no_check (eq_refl true). Qed.

Lemma sweepB_spec yoe m d :
  0 <= yoe <= 399 -> 1 <= m <= 12 -> 1 <= d <= dim (yoe + c01 m) m ->
  0 <= doe_of_m yoe m d < 146097 /\ civil_doe_m (doe_of_m yoe m d) = (yoe, m, d).
Proof.
  intros Hy Hm Hd.
  assert (Hy' : sweepB_y yoe = true) by (apply (all_from_spec _ _ _ sweepB_all); lia).
  assert (Hm' : sweepB_m yoe m = true) by (apply (all_from_spec _ _ _ Hy'); lia).
  pose proof (dim_bounds (yoe + c01 m) m) as Hb.
  assert (Hd' : sweepB_d yoe m d = true) by (apply (all_from_spec _ _ _ Hm'); lia).
  unfold sweepB_d in Hd'.
  destruct (d <=? dim (yoe + c01 m) m) eqn:E; [|lia]. cbn [negb orb] in Hd'.
  apply andb_true_iff in Hd' as [Hd1 Hd2]. apply tripleb_eq in Hd2. split; [lia|exact Hd2].
Qed.
