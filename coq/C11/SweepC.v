(* Sweep C: inside an era, the civil date of day doe+1 is the calendar successor of that of doe. *)
From Tetl Require Import Lib.Base C11.Model C11.Spec C11.Core.
From Coq Require Import ZifyBool.
Local Open Scope Z_scope.
Ltac Zify.zify_post_hook ::= Z.to_euclidean_division_equations.

Definition sweepC (doe : Z) : bool := tripleb (next_day (cd doe)) (cd (doe + 1)).

Lemma sweepC_all : all_from sweepC 0 (Z.to_nat 146096) = true.
Proof. vm_cast_no_check (eq_refl true). Qed.

Lemma sweepC_spec doe : 0 <= doe < 146096 -> next_day (cd doe) = cd (doe + 1).
Proof. intros H. apply tripleb_eq. apply (all_from_spec _ _ _ sweepC_all). lia. Qed.
