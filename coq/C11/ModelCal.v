(* C11 model, part 2: the calendar TYPES around the kernels of Model.v — constructors, ok(),
   comparison operators, year / month / day arithmetic, year_month, year_month_day,
   year_month_day_last, month_day, month_day_last, month_weekday(_last), weekday_indexed,
   weekday_last, year_month_weekday(_last), and the sys_days / local_days conversions through
   the public constructors and conversion operators.

   Values are the STORED values: year = int16, month / day / weekday / index = uint8.
   Outcomes: [Ok v] normal return, [Contract] a TETL_PRECONDITION fired (the day / month
   constructors reject values > 255), [UB SignedOverflow] an int / int32 operation overflowed.
   (No out-of-bounds outcome is left: since 5f4dacf detail::last_day_of_month no longer indexes its
   table with a month outside 1..12.) *)
From Tetl Require Import Lib.Base C11.Model.
Local Open Scope Z_scope.

Definition of_opt {A} (o : option A) : res A :=
  match o with Some a => Ok a | None => UB SignedOverflow end.
Notation "'dor' x <- a ; b" := (rbind a (fun x => b)) (at level 200, x name, a at level 100, b at level 200).

(* -duration: duration(-_rep) in int32 *)
Definition neg32_m (x : Z) : res Z := of_opt (s32 (- x)).

(** * constructors *)
(* year{int}: static_cast<int16_t> *)
Definition year_ctor_m (y : Z) : Z := wraps 16 y.
(* month{unsigned m}, day{unsigned d}: narrowed to unsigned char; TETL_PRECONDITION(m <= 255) (since 34b6a34;
   it was m < 255 before, rejecting the documented value 255) *)
Definition month_ctor_m (m : Z) : res Z := if m <=? 255 then Ok (wrapu 8 m) else Contract.
Definition day_ctor_m (d : Z) : res Z := if d <=? 255 then Ok (wrapu 8 d) else Contract.

(** * comparison operators: [==; !=; <; <=; >; >=] of year, month, day (on the stored value,
      converted to int resp. unsigned) *)
Definition cmp6_m (a b : Z) : list bool := [a =? b; negb (a =? b); a <? b; a <=? b; a >? b; a >=? b].
(* the other calendar types define operator== only (operator!= is the rewritten candidate) *)
Definition eq2_m (a b : Z * Z) : bool := (fst a =? fst b) && (snd a =? snd b).
Definition eq3_m (a b : Z * Z * Z) : bool :=
  (fst (fst a) =? fst (fst b)) && (snd (fst a) =? snd (fst b)) && (snd a =? snd b).
Definition eq4_m (a b : Z * Z * Z * Z) : bool :=
  let '(a1, a2, a3, a4) := a in let '(b1, b2, b3, b4) := b in
  (a1 =? b1) && (a2 =? b2) && ((a3 =? b3) && (a4 =? b4)).

(** * year *)
(* ++y / --y: int16 increment (modular conversion back to int16) *)
Definition year_inc_m (y : Z) : Z := wraps 16 (y + 1).
Definition year_dec_m (y : Z) : Z := wraps 16 (y - 1).
(* y += years / y -= years: static_cast<int16_t>(_count +/- count) in int *)
Definition year_add_assign_m (y dy : Z) : res Z := dor s <- of_opt (s32 (y + dy)); Ok (wraps 16 s).
Definition year_sub_assign_m (y dy : Z) : res Z := dor s <- of_opt (s32 (y - dy)); Ok (wraps 16 s).
(* -y: year{-_count} *)
Definition year_neg_m (y : Z) : Z := wraps 16 (- y).
(* year + years (Model.year_plus_m), year - years = lhs + -rhs, year - year *)
Definition year_plus_r (y dy : Z) : res Z := of_opt (year_plus_m y dy).
Definition year_minus_years_m (y dy : Z) : res Z := dor n <- neg32_m dy; year_plus_r y n.
Definition year_diff_m (a b : Z) : res Z := of_opt (s32 (a - b)).

(** * month *)
(* operator+(month, months) with the one int operation that can overflow made explicit *)
Definition month_plus_r (m dm : Z) : res Z :=
  dor dm1 <- of_opt (s32 (dm - 1));
  let mo := m + dm1 in
  let dv := Z.quot (if mo >=? 0 then mo else mo - 11) 12 in
  month_ctor_m (wrapu 32 (mo - dv * 12 + 1)).
(* month - months = m + -ms *)
Definition month_minus_months_m (m dm : Z) : res Z := dor n <- neg32_m dm; month_plus_r m n.
(* ++m, m++, --m, m-- : (returned value, value left in the object) each *)
Definition month_incdec_m (m : Z) : res (list Z) :=
  dor p <- month_plus_r m 1;
  dor q <- month_minus_months_m m 1;
  Ok [p; p; m; p; q; q; m; q].

(** * day *)
(* day + days = day(unsigned(d) + unsigned(ds.count())) *)
Definition day_plus_m (d dd : Z) : res Z := day_ctor_m (u32w (d + u32w dd)).
Definition day_minus_days_m (d dd : Z) : res Z := day_ctor_m (u32w (d - u32w dd)).
(* day - day = days(int(unsigned(x)) - int(unsigned(y))) *)
Definition day_diff_m (a b : Z) : Z := a - b.
(* d += days: _count += static_cast<uint8_t>(d.count()) (no contract check on this path) *)
Definition day_add_assign_m (d dd : Z) : Z := wrapu 8 (d + wrapu 8 dd).
Definition day_sub_assign_m (d dd : Z) : Z := wrapu 8 (d - wrapu 8 dd).
Definition day_incdec_m (d : Z) : list Z :=
  let p := day_add_assign_m d 1 in
  let q := day_sub_assign_m d 1 in
  [p; p; d; p; q; q; d; q].

(** * weekday, weekday_indexed, weekday_last *)
Definition weekday_iso_m (w : Z) : Z := if w =? 0 then 7 else w.
(* weekday::operator[](unsigned): index narrowed to uint8 *)
Definition wdi_ctor_m (w idx : Z) : Z * Z := (w, wrapu 8 idx).
Definition wdi_ok_m (w idx : Z) : bool := weekday_ok_m w && ((1 <=? idx) && (idx <=? 5)).
Definition wdl_ok_m (w : Z) : bool := weekday_ok_m w.

(** * month_day, month_day_last, month_weekday, month_weekday_last *)
Definition md_table : list Z := [31; 29; 31; 30; 31; 30; 31; 31; 30; 31; 30; 31].
Definition md_ok_m (m d : Z) : bool :=
  if negb (month_ok_m m) then false
  else if d <? 1 then false
  else d <=? nth (Z.to_nat (m - 1)) md_table 0.
Definition mdl_ok_m (m : Z) : bool := month_ok_m m.
Definition mwd_ok_m (m w idx : Z) : bool := month_ok_m m && wdi_ok_m w idx.
Definition mwdl_ok_m (m w : Z) : bool := month_ok_m m && wdl_ok_m w.

(** * year_month *)
Definition ym_ok_m (y m : Z) : bool := year_ok_m y && month_ok_m m.
Definition ym_plus_months_r (y m dm : Z) : res (Z * Z) := of_opt (year_month_plus_months_m y m dm).
Definition ym_minus_months_m (y m dm : Z) : res (Z * Z) := dor n <- neg32_m dm; ym_plus_months_r y m n.
Definition ym_plus_years_m (y m dy : Z) : res (Z * Z) := dor y' <- year_plus_r y dy; Ok (y', m).
Definition ym_minus_years_m (y m dy : Z) : res (Z * Z) := dor y' <- year_minus_years_m y dy; Ok (y', m).

(** * detail::last_day_of_month for every stored month value: February of a leap year first,
      then day{0} for a month outside 1..12 (since 5f4dacf; the table was indexed out of bounds
      before), then the table *)
Definition ld_table : list Z := [31; 28; 31; 30; 31; 30; 31; 31; 30; 31; 30; 31].
Definition last_day_r (y m : Z) : res Z :=
  if (m =? 2) && is_leap_m y then Ok 29
  else if negb (month_ok_m m) then Ok 0
  else Ok (nth (Z.to_nat (m - 1)) ld_table 0).

(** * year_month_day *)
(* year_month_day{sys_days} / {local_days}: civil_from_days of the int32 count *)
Definition ymd_from_days_m (z : Z) : res (Z * Z * Z) := of_opt (civil_from_days_m z).
(* operator sys_days / operator local_days: days_from_civil(int{year()}, unsigned{month()}, unsigned{day()}) *)
Definition ymd_to_days_m (y m d : Z) : res Z := of_opt (days_from_civil_m y m d).
(* ymd + months: the year_month part moves, the day is kept as it is *)
Definition ymd_plus_months_m (y m d dm : Z) : res (Z * Z * Z) :=
  dor ym <- ym_plus_months_r y m dm; Ok (fst ym, snd ym, d).
Definition ymd_minus_months_m (y m d dm : Z) : res (Z * Z * Z) :=
  dor n <- neg32_m dm; ymd_plus_months_m y m d n.
Definition ymd_plus_years_m (y m d dy : Z) : res (Z * Z * Z) :=
  dor y' <- year_plus_r y dy; Ok (y', m, d).
Definition ymd_minus_years_m (y m d dy : Z) : res (Z * Z * Z) :=
  dor n <- neg32_m dy; ymd_plus_years_m y m d n.
(* year_month / int: day(static_cast<unsigned>(d)) *)
Definition ym_slash_int_m (y m d : Z) : res (Z * Z * Z) :=
  dor d' <- day_ctor_m (u32w d); Ok (y, m, d').

(** * year_month_day_last *)
Definition ymdl_ok_m (y m : Z) : bool := year_ok_m y && mdl_ok_m m.
Definition ymdl_day_m (y m : Z) : res Z := last_day_r y m.
(* year_month_day{ymdl} *)
Definition ymdl_to_ymd_m (y m : Z) : res (Z * Z * Z) := dor d <- ymdl_day_m y m; Ok (y, m, d).
(* operator sys_days = sys_days{year_month_day{year(), month(), day()}} (defined since eb2e657) *)
Definition ymdl_to_days_m (y m : Z) : res Z := dor d <- ymdl_day_m y m; ymd_to_days_m y m d.
Definition ymdl_plus_months_m (y m dm : Z) : res (Z * Z) := ym_plus_months_r y m dm.
Definition ymdl_minus_months_m (y m dm : Z) : res (Z * Z) := ym_minus_months_m y m dm.
Definition ymdl_plus_years_m (y m dy : Z) : res (Z * Z) := ym_plus_years_m y m dy.
Definition ymdl_minus_years_m (y m dy : Z) : res (Z * Z) := dor n <- neg32_m dy; ym_plus_years_m y m n.

(** * year_month_weekday *)
(* duration + duration on the int32 counts *)
Definition days_add_m (a b : Z) : res Z := of_opt (s32 (a + b)).

Definition ymwd_ok_m (y m w idx : Z) : res bool :=
  if negb (year_ok_m y) || negb (month_ok_m m) || negb (weekday_ok_m w) || (idx <? 1) then Ok false
  else if idx <=? 4 then Ok true
  else
    dor first_ymd <- ym_slash_int_m y m 1;
    let '(y1, m1, d1) := first_ymd in
    dor z1 <- ymd_to_days_m y1 m1 d1;
    dor fw <- of_opt (weekday_from_days_m z1);
    dor d2 <- days_add_m (weekday_diff_m w fw) (wraps 32 (u32w (u32w ((idx - 1) * 7) + 1)));
    dor ld <- ymdl_day_m y m;
    Ok (u32w d2 <=? ld).

(* year_month_weekday{sys_days} (defined since 5d366a0): (year, month, weekday, index) *)
Definition ymwd_from_days_m (z : Z) : res (Z * Z * Z * Z) :=
  dor ymd <- ymd_from_days_m z;
  let '(y, m, d) := ymd in
  dor w <- of_opt (weekday_from_days_m z);
  let '(w', i) := wdi_ctor_m w (u32w (Z.quot (u32w (d - 1)) 7 + 1)) in
  Ok (y, m, w', i).

(* operator sys_days: first of the month + (weekday() - weekday(first)) + (index() - 1) * 7 *)
Definition ymwd_to_days_m (y m w idx : Z) : res Z :=
  dor first_ymd <- ym_slash_int_m y m 1;
  let '(y1, m1, d1) := first_ymd in
  dor z1 <- ymd_to_days_m y1 m1 d1;
  dor fw <- of_opt (weekday_from_days_m z1);
  dor i7 <- of_opt (s32 ((idx - 1) * 7));
  dor delta <- of_opt (s32 (weekday_diff_m w fw + i7));
  of_opt (s32 (z1 + delta)).

Definition ymwd_plus_months_m (y m dm : Z) : res (Z * Z) := ym_plus_months_r y m dm.
Definition ymwd_minus_months_m (y m dm : Z) : res (Z * Z) := ym_minus_months_m y m dm.
Definition ymwd_plus_years_m (y m dy : Z) : res (Z * Z) := ym_plus_years_m y m dy.
Definition ymwd_minus_years_m (y m dy : Z) : res (Z * Z) := dor n <- neg32_m dy; ym_plus_years_m y m n.

(** * year_month_weekday_last (defined since c102980) *)
Definition ymwdl_ok_m (y m w : Z) : bool := year_ok_m y && month_ok_m m && wdl_ok_m w.
(* operator sys_days: the last day of the month minus (weekday(last day) - weekday()) *)
Definition ymwdl_to_days_m (y m w : Z) : res Z :=
  dor zl <- ymdl_to_days_m y m;
  dor lw <- of_opt (weekday_from_days_m zl);
  of_opt (s32 (zl - weekday_diff_m lw w)).
