(* C11 proofs, part 6: the day count is an ORDER isomorphism — existing dates compare
   lexicographically exactly as their sys_days compare. *)
From Tetl Require Import Lib.Base C11.Model C11.Spec C11.Core C11.ModelCal C11.SpecCal C11.ProofsCal C11.ProofsCal2.
From Coq Require Import ZifyBool.
Local Open Scope Z_scope.
Ltac Zify.zify_post_hook ::= Z.to_euclidean_division_equations.

Definition lex_lt (a b : Z * Z * Z) : Prop :=
  let '(y1, m1, d1) := a in let '(y2, m2, d2) := b in
  y1 < y2 \/ (y1 = y2 /\ (m1 < m2 \/ (m1 = m2 /\ d1 < d2))).

Lemma dbm_succ y m : 1 <= m <= 11 -> days_before_month y (m + 1) = days_before_month y m + dim y m.
Proof.
  intros Hm. unfold days_before_month, dim.
  assert (Hc : m = 1 \/ m = 2 \/ m = 3 \/ m = 4 \/ m = 5 \/ m = 6 \/ m = 7 \/ m = 8 \/ m = 9 \/ m = 10 \/ m = 11) by lia.
  destruct Hc as [->|[->|[->|[->|[->|[->|[->|[->|[->|[->| ->]]]]]]]]]];
    repeat (match goal with |- context [nth ?n cum_table 0] =>
       let v := eval vm_compute in (nth n cum_table 0) in change (nth n cum_table 0) with v end);
    destruct (leap y); vm_compute; try reflexivity; try (split; discriminate).
Qed.

Lemma dbm_mono y m1 : forall k : nat, 1 <= m1 -> m1 + 1 + Z.of_nat k <= 12 ->
  days_before_month y m1 + dim y m1 <= days_before_month y (m1 + 1 + Z.of_nat k).
Proof.
  induction k as [|k IH]; intros H1 H2.
  - replace (m1 + 1 + Z.of_nat 0) with (m1 + 1) by lia. rewrite dbm_succ by lia. lia.
  - replace (m1 + 1 + Z.of_nat (S k)) with (m1 + 1 + Z.of_nat k + 1) by lia.
    rewrite dbm_succ by lia. pose proof (dim_bounds y (m1 + 1 + Z.of_nat k)). specialize (IH H1 ltac:(lia)). lia.
Qed.

Lemma dbm_lt y m1 m2 : 1 <= m1 -> m1 < m2 <= 12 -> days_before_month y m1 + dim y m1 <= days_before_month y m2.
Proof.
  intros H1 H2. replace m2 with (m1 + 1 + Z.of_nat (Z.to_nat (m2 - m1 - 1))) by lia. apply dbm_mono; lia.
Qed.

Lemma dby_succ y : days_before_year (y + 1) = days_before_year y + days_before_month y 12 + 31.
Proof.
  pose proof (year_length y) as H. unfold days_spec in H.
  unfold days_before_month in *. change (nth (Z.to_nat (12 - 1)) cum_table 0) with 334.
  change (nth (Z.to_nat (1 - 1)) cum_table 0) with 0 in H.
  cbn [Z.ltb Z.compare Pos.compare Pos.compare_cont andb] in *. destruct (leap y); lia.
Qed.

Lemma dby_mono y1 y2 : y1 <= y2 -> days_before_year y1 <= days_before_year y2.
Proof. intros H. unfold days_before_year, leaps_before. lia. Qed.

Lemma days_spec_lt y1 m1 d1 y2 m2 d2 :
  date_exists y1 m1 d1 = true -> date_exists y2 m2 d2 = true ->
  lex_lt (y1, m1, d1) (y2, m2, d2) -> days_spec y1 m1 d1 < days_spec y2 m2 d2.
Proof.
  intros E1 E2 HL. unfold date_exists in *. unfold lex_lt in HL. unfold days_spec.
  destruct HL as [Hy|[-> [Hm|[-> Hd]]]].
  - pose proof (dby_mono (y1 + 1) y2 ltac:(lia)) as H. rewrite dby_succ in H.
    assert (Hm1 : days_before_month y1 m1 + dim y1 m1 <= days_before_month y1 12 + 31).
    { destruct (Z.eq_dec m1 12) as [->|Hne]; [unfold dim; cbn; lia|].
      pose proof (dbm_lt y1 m1 12 ltac:(lia) ltac:(lia)). lia. }
    pose proof (days_before_month_bounds y2 m2 ltac:(lia)). lia.
  - pose proof (dbm_lt y2 m1 m2 ltac:(lia) ltac:(lia)). lia.
  - lia.
Qed.

(* sys_days order = lexicographic order of (year, month, day), on existing dates of any year *)
Theorem days_spec_order y1 m1 d1 y2 m2 d2 :
  date_exists y1 m1 d1 = true -> date_exists y2 m2 d2 = true ->
  (lex_lt (y1, m1, d1) (y2, m2, d2) <-> days_spec y1 m1 d1 < days_spec y2 m2 d2).
Proof.
  intros E1 E2. split; [apply days_spec_lt; assumption|].
  intros H.
  assert (Hd : lex_lt (y1, m1, d1) (y2, m2, d2) \/ (y1, m1, d1) = (y2, m2, d2) \/ lex_lt (y2, m2, d2) (y1, m1, d1)).
  { unfold lex_lt.
    destruct (Z.lt_trichotomy y1 y2) as [?|[->|?]]; [left; lia| |right; right; lia].
    destruct (Z.lt_trichotomy m1 m2) as [?|[->|?]]; [left; lia| |right; right; lia].
    destruct (Z.lt_trichotomy d1 d2) as [?|[->|?]]; [left; lia|right; left; reflexivity|right; right; lia]. }
  destruct Hd as [Hd|[Hd|Hd]]; [exact Hd| |].
  - inversion Hd. subst. lia.
  - pose proof (days_spec_lt _ _ _ _ _ _ E2 E1 Hd). lia.
Qed.

(* the same for what operator sys_days returns, for the supported years *)
Theorem ymd_to_days_order y1 m1 d1 y2 m2 d2 :
  -32768 <= y1 <= 32767 -> -32768 <= y2 <= 32767 ->
  date_exists y1 m1 d1 = true -> date_exists y2 m2 d2 = true ->
  exists z1 z2, ymd_to_days_m y1 m1 d1 = Ok z1 /\ ymd_to_days_m y2 m2 d2 = Ok z2
    /\ (lex_lt (y1, m1, d1) (y2, m2, d2) <-> z1 < z2) /\ ((y1, m1, d1) = (y2, m2, d2) <-> z1 = z2).
Proof.
  intros H1 H2 E1 E2. exists (days_spec y1 m1 d1), (days_spec y2 m2 d2).
  pose proof (dim_bounds y1 m1). pose proof (dim_bounds y2 m2).
  assert (F1 := E1). assert (F2 := E2). unfold date_exists in F1, F2.
  rewrite !ymd_to_days_ok by lia.
  split; [reflexivity|]. split; [reflexivity|]. split; [apply days_spec_order; assumption|].
  split; [intros Heq; inversion Heq; reflexivity|].
  intros Hz.
  destruct (Z.lt_trichotomy (days_spec y1 m1 d1) (days_spec y2 m2 d2)) as [?|[_|?]]; [lia| |lia].
  assert (Hd : lex_lt (y1, m1, d1) (y2, m2, d2) \/ (y1, m1, d1) = (y2, m2, d2) \/ lex_lt (y2, m2, d2) (y1, m1, d1)).
  { unfold lex_lt.
    destruct (Z.lt_trichotomy y1 y2) as [?|[->|?]]; [left; lia| |right; right; lia].
    destruct (Z.lt_trichotomy m1 m2) as [?|[->|?]]; [left; lia| |right; right; lia].
    destruct (Z.lt_trichotomy d1 d2) as [?|[->|?]]; [left; lia|right; left; reflexivity|right; right; lia]. }
  destruct Hd as [Hd|[Hd|Hd]]; [|exact Hd|].
  - apply (days_spec_lt _ _ _ _ _ _ E1 E2) in Hd. lia.
  - apply (days_spec_lt _ _ _ _ _ _ E2 E1) in Hd. lia.
Qed.
