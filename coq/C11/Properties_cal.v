(* C11, part 2 — the calendar TYPES around the conversion kernels: year / month / day arithmetic
   and comparisons, ok() of every partial date, year_month_day +/- months / years (the day is
   kept, never clamped), year_month_day_last, year_month_weekday(_last), and sys_days <->
   calendar type through the public constructors and conversion operators.
   Property theorems only (proofs in ProofsCal*.v).  Stored values: year int16, month / day /
   weekday / index uint8; deltas are int32 counts.  [Ok v] = normal return without signed overflow.
   Related statements are bundled into one theorem (a Print Assumptions costs ~0.5 s of every ./check run);
   the comments before and after a bundled theorem describe its conjuncts in order. *)
From Tetl Require Import Lib.Base C11.Model C11.Spec C11.ModelCal C11.SpecCal C11.Proofs C11.ProofsCal C11.ProofsCal2 C11.ProofsCal3 C11.ProofsCal4 C11.ProofsCal5 C11.ProofsCal6 C11.ProofsCalB.
Local Open Scope Z_scope.

(** * sys_days <-> year_month_day through the public API *)
(* year_month_day{sys_days} / {local_days} is the Gregorian date (day-by-day walker) of every supported day *)
Theorem C11_sys_days_conversions :
  (forall z, day_lo <= z <= day_hi -> ymd_from_days_m z = Ok (greg z))
  /\
  ((forall y m d, -32768 <= y <= 32767 -> 1 <= m <= 12 -> 0 <= d <= 255 ->
      ymd_to_days_m y m d = Ok (days_spec y m d))
    /\
    (forall y m d, -32768 <= y <= 32767 -> 1 <= m <= 12 -> 0 <= d <= 255 ->
      exists z1, ymd_to_days_m y m 1 = Ok z1 /\ ymd_to_days_m y m d = Ok (z1 + (d - 1))))
  /\
  ((forall z, day_lo <= z <= day_hi ->
      let '(y, m, d) := greg z in days_spec y m d = z)
    /\
    (forall y m d, -32767 <= y <= 32767 -> date_exists y m d = true ->
      day_lo <= days_spec y m d <= day_hi /\ greg (days_spec y m d) = (y, m, d)))
  /\
  (forall z, day_lo <= z <= day_hi -> let '(y, m, d) := greg z in ymd_ok_m y m d = true).
Proof. exact (conj (ymd_from_days_ok) (conj ((conj ymd_to_days_ok (ymd_to_days_any))) (conj ((conj greg_days (days_greg))) ((civil_ok))))). Qed.
Print Assumptions C11_sys_days_conversions.

(* operator sys_days is the textbook day count for EVERY stored day value 0..255 of an ok month,
   all int16 years: in particular sys_days{y/m/1} + (d - 1) for dates that do not exist *)

(* the textbook day count and the walker agree: the two specifications are one calendar *)

(* last-day-of-month is the length of the month measured in sys_days: from the first of the month
   to the first of the following month (year_month + months{1}); likewise the length of a year *)
Theorem C11_sys_days_structure :
  ((forall y m, 1 <= m <= 12 ->
      let '(y', m') := year_month_plus_spec y m 1 in days_spec y' m' 1 - days_spec y m 1 = dim y m)
    /\
    (forall y, days_spec (y + 1) 1 1 - days_spec y 1 1 = 365 + (if leap y then 1 else 0)))
  /\
  (forall y1 m1 d1 y2 m2 d2,
    -32768 <= y1 <= 32767 -> -32768 <= y2 <= 32767 ->
    date_exists y1 m1 d1 = true -> date_exists y2 m2 d2 = true ->
    exists z1 z2, ymd_to_days_m y1 m1 d1 = Ok z1 /\ ymd_to_days_m y2 m2 d2 = Ok z2
      /\ (lex_lt (y1, m1, d1) (y2, m2, d2) <-> z1 < z2) /\ ((y1, m1, d1) = (y2, m2, d2) <-> z1 = z2)).
Proof. exact (conj ((conj month_length (year_length))) ((ymd_to_days_order))). Qed.
Print Assumptions C11_sys_days_structure.

(* operator sys_days is an ORDER isomorphism on existing dates: sys_days compare exactly as
   (year, month, day) compare lexicographically (the library has no operator< on year_month_day:
   this is how dates are ordered), and equal day numbers mean equal dates *)

(** * totality of the two conversion kernels on their whole argument types (no signed overflow) *)
Theorem C11_kernels_total_and_calendar :
  ((forall y m d, -32768 <= y <= 32767 -> 0 <= m <= 255 -> 0 <= d <= 255 ->
      exists z, days_from_civil_m y m d = Some z /\ ymd_to_days_m y m d = Ok z)
    /\
    (forall z, -2147483648 <= z <= 2147483647 ->
      (z <= 2146764179 -> exists y m d, civil_from_days_m z = Some (y, m, d)
                            /\ -32768 <= y <= 32767 /\ 1 <= m <= 12 /\ 1 <= d <= 31)
      /\ (2146764179 < z -> civil_from_days_m z = None)))
  /\
  ((forall z, -2147483648 <= z <= 2146764179 ->
      civil_from_days_m z = Some (let '(y, m, d) := civil_pure z in (wraps 16 y, m, d)))
    /\
    (civil_pure 0 = epoch /\ (forall z, civil_pure (z + 1) = next_day (civil_pure z))
     /\ (forall z, day_lo <= z <= day_hi -> civil_pure z = greg z))).
Proof. exact (conj (C11_kernels_total_l) (((conj civil_any_pure civil_pure_calendar)))). Qed.
Print Assumptions C11_kernels_total_and_calendar.

(* on that whole int32 domain civil_from_days is the Gregorian calendar with the year reduced to int16:
   civil_pure is the calendar extended in both directions (day 0 = 1970-01-01, the day after = next_day
   for EVERY z) and equals the walker on the supported range *)

(** * year_month_day +/- months, +/- years: no clamping, ok() afterwards = the date exists *)
Theorem C11_ymd_arith :
  (forall y m d dm,
    -32767 <= y <= 32767 -> 1 <= m <= 12 -> 0 <= d <= 255 -> -2147483647 <= dm <= 2147483647 ->
    -32767 <= fst (year_month_plus_spec y m dm) <= 32767 ->
    ymd_plus_months_m y m d dm = Ok (ymd_plus_months_spec y m d dm)
    /\ (let '(y', m', d') := ymd_plus_months_spec y m d dm in
        d' = d /\ ymd_ok_m y' m' d' = date_exists y' m' d'))
  /\
  (forall y m d dm,
    -32767 <= y <= 32767 -> 1 <= m <= 12 -> 0 <= d <= 255 -> -2147483647 <= dm <= 2147483647 ->
    -32767 <= fst (year_month_plus_spec y m (- dm)) <= 32767 ->
    ymd_minus_months_m y m d dm = Ok (ymd_plus_months_spec y m d (- dm)))
  /\
  ((forall y m d dy,
      -32768 <= y <= 32767 -> -2147483648 <= dy <= 2147483647 -> -32768 <= y + dy <= 32767 ->
      ymd_plus_years_m y m d dy = Ok (ymd_plus_years_spec y m d dy))
    /\
    (forall y m d dy,
      -32768 <= y <= 32767 -> -2147483647 <= dy <= 2147483647 -> -32768 <= y - dy <= 32767 ->
      ymd_minus_years_m y m d dy = Ok (ymd_plus_years_spec y m d (- dy)))).
Proof. exact (conj (ymd_plus_months_ok) (conj (ymd_minus_months_ok) (((conj ymd_plus_years_ok (ymd_minus_years_ok)))))). Qed.
Print Assumptions C11_ymd_arith.

(** * algebraic laws *)
(* month - month and weekday - weekday are the differences the standard defines: the unique delta in
   [0,11] resp. [0,6] that, added to the subtrahend, gives the minuend *)
Theorem C11_algebraic_laws :
  ((forall m1 m2, 1 <= m1 <= 12 -> 1 <= m2 <= 12 ->
      0 <= month_minus_m m1 m2 <= 11 /\ month_plus_m m2 (month_minus_m m1 m2) = m1)
    /\
    (forall a b, 0 <= a <= 6 -> 0 <= b <= 6 ->
      0 <= weekday_diff_m a b <= 6 /\ weekday_plus_m b (weekday_diff_m a b) = a
      /\ forall dd, weekday_minus_days_m (weekday_plus_m a dd) dd = a))
  /\
  ((forall y m a b,
      -32767 <= y <= 32767 -> 1 <= m <= 12 ->
      -2147483647 <= a <= 2147483647 -> -2147483647 <= b <= 2147483647 -> -2147483647 <= a + b <= 2147483647 ->
      -32767 <= fst (year_month_plus_spec y m a) <= 32767 ->
      -32768 <= fst (year_month_plus_spec y m (a + b)) <= 32767 ->
      rbind (ym_plus_months_r y m a) (fun r => ym_plus_months_r (fst r) (snd r) b) = ym_plus_months_r y m (a + b))
    /\
    (forall y m a,
      -32767 <= y <= 32767 -> 1 <= m <= 12 -> -2147483647 <= a <= 2147483647 ->
      -32767 <= fst (year_month_plus_spec y m a) <= 32767 ->
      rbind (ym_plus_months_r y m a) (fun r => ym_minus_months_m (fst r) (snd r) a) = Ok (y, m))
    /\
    (forall y m k,
      -32767 <= y <= 32767 -> 1 <= m <= 12 -> -178956970 <= k <= 178956970 -> -32768 <= y + k <= 32767 ->
      ym_plus_months_r y m (12 * k) = ym_plus_years_m y m k)).
Proof. exact (conj ((conj month_diff_inverts (C11_weekday_diff_inverts_l))) (((conj ym_plus_assoc (conj ym_plus_minus (ym_months_years)))))). Qed.
Print Assumptions C11_algebraic_laws.

(* adding months to a year_month is a group action: (ym + a) + b = ym + (a + b), (ym + a) - a = ym,
   ym + 12k months = ym + k years — whenever no year leaves the int16 range *)

(* every date the conversion from sys_days produces is ok() *)

(** * year_month +/- years, - months (year_month + months: C11_year_month_plus) *)
Theorem C11_year_month_field_arith :
  ((forall y m dm,
      -32767 <= y <= 32767 -> 1 <= m <= 12 -> -2147483647 <= dm <= 2147483647 ->
      -32768 <= fst (year_month_plus_spec y m (- dm)) <= 32767 ->
      ym_minus_months_m y m dm = Ok (year_month_plus_spec y m (- dm)))
    /\
    (forall y m dy,
      -32768 <= y <= 32767 -> -2147483648 <= dy <= 2147483647 -> -32768 <= y + dy <= 32767 ->
      ym_plus_years_m y m dy = Ok (y + dy, m))
    /\
    (forall y m dy,
      -32768 <= y <= 32767 -> -2147483647 <= dy <= 2147483647 -> -32768 <= y - dy <= 32767 ->
      ym_minus_years_m y m dy = Ok (y - dy, m)))
  /\
  ((forall y dy,
      -32768 <= y <= 32767 -> -2147483647 <= dy <= 2147483647 -> -32768 <= y - dy <= 32767 ->
      year_minus_years_m y dy = Ok (y - dy))
    /\
    (forall y dy,
      -32768 <= y <= 32767 -> -2147483648 <= dy <= 2147483647 ->
      (-32768 <= y + dy <= 32767 -> year_add_assign_m y dy = Ok (y + dy)) /\
      (-32768 <= y - dy <= 32767 -> year_sub_assign_m y dy = Ok (y - dy)) /\
      (y < 32767 -> year_inc_m y = y + 1) /\ (-32768 < y -> year_dec_m y = y - 1) /\
      (-32768 < y -> year_neg_m y = - y) /\ year_ctor_m y = y /\ year_ok_m y = year_ok_spec y)
    /\
    (forall a b, -32768 <= a <= 32767 -> -32768 <= b <= 32767 -> year_diff_m a b = Ok (a - b)))
  /\
  ((forall m dm, 0 <= m <= 255 -> -2147483648 < dm <= 2147483647 ->
      month_plus_r m dm = Ok (month_plus_spec m dm) /\ month_plus_r m dm = Ok (month_plus_m m dm))
    /\
    (forall m dm, 0 <= m <= 255 -> -2147483648 < dm < 2147483648 ->
      month_minus_months_m m dm = Ok (month_minus_months_spec m dm))
    /\
    (forall m, 0 <= m <= 255 ->
      month_incdec_m m = Ok (let p := month_plus_spec m 1 in let q := month_minus_months_spec m 1 in [p; p; m; p; q; q; m; q]))).
Proof. exact (conj ((conj ym_minus_months_ok (conj ym_plus_years_ok (ym_minus_years_ok)))) (conj ((conj year_minus_years_ok (conj C11_year_compound_l (year_diff_ok)))) (((conj C11_month_plus_any_l (conj month_minus_months_ok (month_incdec_ok))))))). Qed.
Print Assumptions C11_year_month_field_arith.

(** * year: every operator is exact integer arithmetic while the result is a year *)

(* ==, !=, <, <=, >, >= of year / month / day are the comparisons of the stored values *)
Theorem C11_comparisons : forall a b, cmp6_m a b = cmp6_spec a b.
Proof. exact cmp6_ok. Qed.
Print Assumptions C11_comparisons.

(* == of the composite calendar types is equality of all stored components *)
Theorem C11_equality : forall (a b : Z * Z * Z * Z) (c d : Z * Z * Z) (e f : Z * Z),
  (eq4_m a b = true <-> a = b) /\ (eq3_m c d = true <-> c = d) /\ (eq2_m e f = true <-> e = f).
Proof. exact C11_equality_l. Qed.
Print Assumptions C11_equality.

(** * month: defined for EVERY stored value 0..255 and every delta ([time.cal.month.nonmembers]) *)

(** * day arithmetic *)
(* day +/- days is exact while the result is in 0..255; any other result fires the constructor's
   precondition (the operator never wraps silently) *)
Theorem C11_day_ops :
  ((forall d dd, 0 <= d <= 255 -> -2147483648 <= dd <= 2147483647 ->
      (0 <= d + dd <= 255 -> day_plus_m d dd = Ok (d + dd)) /\
      (~ (0 <= d + dd <= 255) -> day_plus_m d dd = Contract) /\
      (0 <= d - dd <= 255 -> day_minus_days_m d dd = Ok (d - dd)))
    /\
    (forall v, 0 <= v <= 255 -> day_ctor_m v = Ok v /\ month_ctor_m v = Ok v))
  /\
  (forall d dd, 0 <= d <= 255 ->
    day_add_assign_m d dd = (d + dd) mod 256 /\ day_sub_assign_m d dd = (d - dd) mod 256
    /\ day_ok_m d = day_ok_spec d)
  /\
  (forall d, 255 < d -> day_ctor_m d = Contract /\ month_ctor_m d = Contract).
Proof. exact (conj ((conj C11_day_plus_l (C11_day_month_ctor_l))) (conj (C11_day_compound_l) ((day_ctor_contract)))). Qed.
Print Assumptions C11_day_ops.

(* += / -= / ++ / -- have no check and reduce modulo 256 *)

(* the day / month constructors reject exactly the values the stored type cannot hold *)

(** * ok() of the partial dates *)
Theorem C11_partial_ok : forall y m d w idx,
  -32768 <= y <= 32767 -> 0 <= d <= 255 -> 0 <= w <= 255 ->
  md_ok_m m d = md_exists m d /\
  mdl_ok_m m = month_ok_spec m /\
  wdi_ok_m w idx = wdi_ok_spec w idx /\
  wdl_ok_m w = weekday_ok_spec w /\
  mwd_ok_m m w idx = month_ok_spec m && wdi_ok_spec w idx /\
  mwdl_ok_m m w = month_ok_spec m && weekday_ok_spec w /\
  ym_ok_m y m = year_ok_spec y && month_ok_spec m /\
  ymdl_ok_m y m = year_ok_spec y && month_ok_spec m /\
  ymwdl_ok_m y m w = year_ok_spec y && month_ok_spec m && weekday_ok_spec w.
Proof. exact C11_partial_ok_l. Qed.
Print Assumptions C11_partial_ok.

(** * year_month_day_last *)
Theorem C11_ymdl_all :
  (forall y m, -32767 <= y <= 32767 -> 1 <= m <= 12 ->
    ymdl_day_m y m = Ok (dim y m)
    /\ ymdl_to_ymd_m y m = Ok (y, m, dim y m)
    /\ ymdl_to_days_m y m = Ok (days_spec y m (dim y m))
    /\ day_lo <= days_spec y m (dim y m) <= day_hi
    /\ greg (days_spec y m (dim y m)) = (y, m, dim y m)
    /\ date_exists y m (dim y m + 1) = false)
  /\
  (forall y m, 0 <= m <= 255 -> ~ (1 <= m <= 12) -> ymdl_day_m y m = Ok 0).
Proof. exact (conj ymdl_ok (last_day_r_bad)). Qed.
Print Assumptions C11_ymdl_all.

(* a month outside 1..12: defined behaviour (no read past the table), day 0 *)

(** * year_month_weekday *)
Theorem C11_ymwd :
  (forall y m w idx,
    -32768 <= y <= 32767 -> 0 <= m <= 255 -> 0 <= w <= 255 -> 0 <= idx <= 255 ->
    ymwd_ok_m y m w idx = Ok (ymwd_exists y m w idx))
  /\
  (forall y m w idx,
    -32768 <= y <= 32767 -> 1 <= m <= 12 -> 0 <= w <= 6 -> 0 <= idx <= 255 ->
    ymwd_to_days_m y m w idx = Ok (ymwd_days_spec y m w idx))
  /\
  (forall y m w idx,
    -32767 <= y <= 32767 -> ymwd_exists y m w idx = true -> 0 <= idx ->
    exists d, date_exists y m d = true /\ ymwd_days_spec y m w idx = days_spec y m d
              /\ greg (days_spec y m d) = (y, m, d) /\ weekday_of (days_spec y m d) = w /\ (d - 1) / 7 + 1 = idx)
  /\
  (forall z, day_lo <= z <= day_hi ->
    let '(y, m, d) := greg z in
    ymwd_from_days_m z = Ok (y, m, weekday_of z, (d - 1) / 7 + 1)
    /\ ymwd_ok_m y m (weekday_of z) ((d - 1) / 7 + 1) = Ok true
    /\ ymwd_to_days_m y m (weekday_of z) ((d - 1) / 7 + 1) = Ok z).
Proof. exact (conj (ymwd_ok_spec_ok) (conj (ymwd_to_days_ok) (conj (ymwd_days_spec_meaning) ((ymwd_from_days_ok))))). Qed.
Print Assumptions C11_ymwd.

(** * year_month_weekday_last *)
Theorem C11_ymwdl_to_sys_days : forall y m w, -32767 <= y <= 32767 -> 1 <= m <= 12 -> 0 <= w <= 6 ->
  ymwdl_to_days_m y m w = Ok (ymwdl_days_spec y m w)
  /\ exists d, dim y m - 7 < d <= dim y m /\ date_exists y m d = true
       /\ ymwdl_days_spec y m w = days_spec y m d
       /\ greg (days_spec y m d) = (y, m, d) /\ weekday_of (days_spec y m d) = w.
Proof. exact ymwdl_to_days_ok. Qed.
Print Assumptions C11_ymwdl_to_sys_days.

(* non-vacuity, and the behaviour the property names: Jan 31 + 1 month keeps day 31 and is not ok() *)
Example C11_cal_nonvacuous :
  ymd_plus_months_m 2024 1 31 1 = Ok (2024, 2, 31) /\ ymd_ok_m 2024 2 31 = false
  /\ ymd_plus_months_m 2023 11 30 3 = Ok (2024, 2, 30) /\ ymd_ok_m 2024 2 29 = true
  /\ ymdl_to_days_m 2024 2 = Ok 19782 /\ days_spec 2024 2 29 = 19782
  /\ ymwd_from_days_m 19782 = Ok (2024, 2, 4, 5) /\ ymwd_to_days_m 2024 2 4 5 = Ok 19782
  /\ ymwd_ok_m 2024 2 5 5 = Ok false /\ ymwd_exists 2024 2 4 5 = true
  /\ ymwdl_to_days_m 2024 2 4 = Ok 19782
  /\ ymd_to_days_m 2024 3 0 = Ok 19782
  /\ day_plus_m 254 1 = Ok 255 /\ day_plus_m 255 1 = Contract /\ day_minus_days_m 1 2 = Contract /\ day_sub_assign_m 1 2 = 255.
Proof. vm_compute. repeat split; congruence. Qed.
