(* C11 model, part 3 (review round): the RELEASE build of the day / month constructors.
   TETL_PRECONDITION expands to nothing unless TETL_ENABLE_CONTRACT_CHECKS(_SAFE) is defined, so in the
   default build `day{unsigned}` / `month{unsigned}` only narrow to unsigned char and the operators built
   on them never stop: these are the functions the harness variant `nochk` is compared with. *)
From Tetl Require Import Lib.Base C11.Model C11.ModelCal.
Local Open Scope Z_scope.

Definition month_ctor_nc (m : Z) : Z := wrapu 8 m.
Definition day_ctor_nc (d : Z) : Z := wrapu 8 d.
(* day + days / day - days = day(unsigned(d) +/- unsigned(ds.count())) *)
Definition day_plus_nc (d dd : Z) : Z := day_ctor_nc (u32w (d + u32w dd)).
Definition day_minus_days_nc (d dd : Z) : Z := day_ctor_nc (u32w (d - u32w dd)).
(* year_month / int *)
Definition ym_slash_int_nc (y m d : Z) : Z * Z * Z := (y, m, day_ctor_nc (u32w d)).
