(* C11: lemmas with multi-step proofs that Properties_cal.v bundles into its theorems. *)
From Tetl Require Import Lib.Base C11.Model C11.Spec C11.ModelCal C11.SpecCal C11.ProofsCal C11.ProofsCal2 C11.ProofsCal3 C11.ProofsCal4 C11.ProofsCal5.
Local Open Scope Z_scope.

Lemma C11_year_compound_l : forall y dy,
  -32768 <= y <= 32767 -> -2147483648 <= dy <= 2147483647 ->
  (-32768 <= y + dy <= 32767 -> year_add_assign_m y dy = Ok (y + dy)) /\
  (-32768 <= y - dy <= 32767 -> year_sub_assign_m y dy = Ok (y - dy)) /\
  (y < 32767 -> year_inc_m y = y + 1) /\ (-32768 < y -> year_dec_m y = y - 1) /\
  (-32768 < y -> year_neg_m y = - y) /\ year_ctor_m y = y /\ year_ok_m y = year_ok_spec y.
Proof.
  intros y dy Hy Hd. repeat split; intros;
    [apply year_add_assign_ok | apply year_sub_assign_ok | apply year_inc_ok | apply year_dec_ok
    | apply year_neg_ok | apply year_ctor_id | apply year_ok_spec_ok]; lia.
Qed.

Lemma C11_month_plus_any_l : forall m dm, 0 <= m <= 255 -> -2147483648 < dm <= 2147483647 ->
  month_plus_r m dm = Ok (month_plus_spec m dm) /\ month_plus_r m dm = Ok (month_plus_m m dm).
Proof. intros m dm Hm Hd. split; [apply month_plus_r_ok|apply month_plus_r_m]; assumption. Qed.

Lemma C11_day_plus_l : forall d dd, 0 <= d <= 255 -> -2147483648 <= dd <= 2147483647 ->
  (0 <= d + dd <= 255 -> day_plus_m d dd = Ok (d + dd)) /\
  (~ (0 <= d + dd <= 255) -> day_plus_m d dd = Contract) /\
  (0 <= d - dd <= 255 -> day_minus_days_m d dd = Ok (d - dd)).
Proof.
  intros d dd Hd Hdd. split; [intros; apply day_plus_ok; assumption|].
  split; [intros; apply day_plus_contract; assumption|intros; apply day_minus_days_ok; assumption].
Qed.

Lemma C11_day_month_ctor_l : forall v, 0 <= v <= 255 -> day_ctor_m v = Ok v /\ month_ctor_m v = Ok v.
Proof. intros v H. split; [apply day_ctor_ok|apply month_ctor_ok]; exact H. Qed.

Lemma C11_weekday_diff_inverts_l : forall a b, 0 <= a <= 6 -> 0 <= b <= 6 ->
  0 <= weekday_diff_m a b <= 6 /\ weekday_plus_m b (weekday_diff_m a b) = a
  /\ forall dd, weekday_minus_days_m (weekday_plus_m a dd) dd = a.
Proof.
  intros a b Ha Hb. destruct (weekday_diff_inverts a b Ha Hb) as [H1 H2].
  split; [exact H1|]. split; [exact H2|]. intros dd. apply weekday_plus_minus. exact Ha.
Qed.
