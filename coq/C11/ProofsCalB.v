(* C11: lemmas with multi-step proofs that Properties_cal.v bundles into its theorems. *)
From Tetl Require Import Lib.Base C11.Model C11.Spec C11.ModelCal C11.SpecCal C11.ProofsCal C11.ProofsCal2 C11.ProofsCal3 C11.ProofsCal4 C11.ProofsCal5 C11.ProofsCal6.
Local Open Scope Z_scope.

Lemma C11_year_compound_l : forall y dy,
  -32768 <= y <= 32767 -> -2147483648 <= dy <= 2147483647 ->
  (-32768 <= y + dy <= 32767 -> year_add_assign_m y dy = Ok (y + dy)) /\
  (-32768 <= y - dy <= 32767 -> year_sub_assign_m y dy = Ok (y - dy)) /\
  (y < 32767 -> year_inc_m y = y + 1) /\ (-32768 < y -> year_dec_m y = y - 1) /\
  (-32768 < y -> year_neg_m y = - y) /\ year_ctor_m y = y /\ year_ok_m y = year_ok_spec y.
Proof.
  intros y dy Hy Hd. repeat split; intros;
    [apply year_add_assign_ok | apply year_sub_assign_ok | apply year_inc_ok | apply year_dec_ok
    | apply year_neg_ok | apply year_ctor_id | apply year_ok_spec_ok]; lia.
Qed.

Lemma C11_month_plus_any_l : forall m dm, 0 <= m <= 255 -> -2147483648 < dm <= 2147483647 ->
  month_plus_r m dm = Ok (month_plus_spec m dm) /\ month_plus_r m dm = Ok (month_plus_m m dm).
Proof. intros m dm Hm Hd. split; [apply month_plus_r_ok|apply month_plus_r_m]; assumption. Qed.

Lemma C11_day_plus_l : forall d dd, 0 <= d <= 255 -> -2147483648 <= dd <= 2147483647 ->
  (0 <= d + dd <= 255 -> day_plus_m d dd = Ok (d + dd)) /\
  (~ (0 <= d + dd <= 255) -> day_plus_m d dd = Contract) /\
  (0 <= d - dd <= 255 -> day_minus_days_m d dd = Ok (d - dd)).
Proof.
  intros d dd Hd Hdd. split; [intros; apply day_plus_ok; assumption|].
  split; [intros; apply day_plus_contract; assumption|intros; apply day_minus_days_ok; assumption].
Qed.

Lemma C11_day_month_ctor_l : forall v, 0 <= v <= 255 -> day_ctor_m v = Ok v /\ month_ctor_m v = Ok v.
Proof. intros v H. split; [apply day_ctor_ok|apply month_ctor_ok]; exact H. Qed.

Lemma C11_weekday_diff_inverts_l : forall a b, 0 <= a <= 6 -> 0 <= b <= 6 ->
  0 <= weekday_diff_m a b <= 6 /\ weekday_plus_m b (weekday_diff_m a b) = a
  /\ forall dd, weekday_minus_days_m (weekday_plus_m a dd) dd = a.
Proof.
  intros a b Ha Hb. destruct (weekday_diff_inverts a b Ha Hb) as [H1 H2].
  split; [exact H1|]. split; [exact H2|]. intros dd. apply weekday_plus_minus. exact Ha.
Qed.

Lemma C11_kernels_total_l :
  (forall y m d, -32768 <= y <= 32767 -> 0 <= m <= 255 -> 0 <= d <= 255 ->
    exists z, days_from_civil_m y m d = Some z /\ ymd_to_days_m y m d = Ok z)
  /\
  (forall z, -2147483648 <= z <= 2147483647 ->
    (z <= 2146764179 -> exists y m d, civil_from_days_m z = Some (y, m, d)
                          /\ -32768 <= y <= 32767 /\ 1 <= m <= 12 /\ 1 <= d <= 31)
    /\ (2146764179 < z -> civil_from_days_m z = None)).
Proof.
  split; [|exact civil_total].
  intros y m d Hy Hm Hd. eexists. unfold ymd_to_days_m. rewrite (days_total y m d Hy Hm Hd). split; reflexivity.
Qed.

Lemma C11_equality_l : forall (a b : Z * Z * Z * Z) (c d : Z * Z * Z) (e f : Z * Z),
  (eq4_m a b = true <-> a = b) /\ (eq3_m c d = true <-> c = d) /\ (eq2_m e f = true <-> e = f).
Proof. intros. split; [apply eq4_ok|split; [apply eq3_ok|apply eq2_ok]]. Qed.

Lemma C11_day_compound_l : forall d dd, 0 <= d <= 255 ->
  day_add_assign_m d dd = (d + dd) mod 256 /\ day_sub_assign_m d dd = (d - dd) mod 256
  /\ day_ok_m d = day_ok_spec d.
Proof.
  intros d dd Hd. split; [apply day_add_assign_ok; exact Hd|].
  split; [apply day_sub_assign_ok; exact Hd|apply day_ok_spec_ok; exact Hd].
Qed.

Lemma C11_partial_ok_l : forall y m d w idx,
  -32768 <= y <= 32767 -> 0 <= d <= 255 -> 0 <= w <= 255 ->
  md_ok_m m d = md_exists m d /\
  mdl_ok_m m = month_ok_spec m /\
  wdi_ok_m w idx = wdi_ok_spec w idx /\
  wdl_ok_m w = weekday_ok_spec w /\
  mwd_ok_m m w idx = month_ok_spec m && wdi_ok_spec w idx /\
  mwdl_ok_m m w = month_ok_spec m && weekday_ok_spec w /\
  ym_ok_m y m = year_ok_spec y && month_ok_spec m /\
  ymdl_ok_m y m = year_ok_spec y && month_ok_spec m /\
  ymwdl_ok_m y m w = year_ok_spec y && month_ok_spec m && weekday_ok_spec w.
Proof.
  intros y m d w idx Hy Hd Hw.
  split; [apply md_ok_spec_ok; exact Hd|]. split; [apply month_ok_spec_ok|].
  split; [apply wdi_ok_spec_ok; exact Hw|]. split; [apply weekday_ok_spec_ok; exact Hw|].
  split; [apply mwd_ok_spec_ok; exact Hw|]. split; [apply mwdl_ok_spec_ok; exact Hw|].
  split; [apply ym_ok_spec_ok; exact Hy|]. split; [apply ymdl_ok_spec_ok; exact Hy|].
  apply ymwdl_ok_spec_ok; assumption.
Qed.
