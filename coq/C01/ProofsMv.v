(* C01 proofs, sixth part: the moved-from object (models of ModelMv.v against SpecMv.v).
   static_vector / stack: the element-wise move is the older move (ModelEl.move_insert_src = move_insert + the walked source),
   the source object is `left_behind`: same size, every element e_mv.  inplace_vector: the defaulted members are the copies
   of ModelExt.v, the user-provided ones "move, then clear() the source" (ModelMv.iv_vplain). *)
From Tetl Require Import Lib.Base Lib.Arr C06a.Model C01.Model C01.Spec C01.ModelExt C01.SpecExt C01.ModelIt C01.SpecIt
  C01.ModelEl C01.SpecEl C01.ModelArg C01.SpecArg C01.ModelMv C01.SpecMv.
From Tetl Require Import C01.ProofsBase C01.ProofsCompose C01.ProofsStep C01.ProofsExt C01.ProofsStack C01.ProofsIvExt
  C01.ProofsFast C01.ProofsIt C01.ProofsEl C01.ProofsArg.
From Coq Require Import Lia ZArith List Bool.
Import ListNotations.
Local Open Scope Z_scope.
Ltac Zify.zify_post_hook ::= Z.to_euclidean_division_equations.

Definition vat_arg_ok (o : vop) : Prop := match o with VW o => wat_arg_ok o | _ => True end.
Definition vsize_args_ok (o : vop) : Prop := match o with VW o => wsize_args_ok o | _ => True end.
Definition iv_vat_arg_ok (o : iv_vop) : Prop := match o with IvV o => iv_wat_arg_ok o | _ => True end.
Definition iv_vsize_args_ok (o : iv_vop) : Prop := match o with IvV o => iv_wsize_args_ok o | _ => True end.

Section V.
Variable A : argt.
Variable E : elt.
Variable pred : Z -> Z -> bool.
Variable c : nat.
Hypothesis Hc : cap_ok c.

(** * the object left behind *)
Lemma left_behind_repr other : inv c other ->
  repr c (left_behind other (map (e_mv E) (elems other))) (map (e_mv E) (elems other)).
Proof using E c.
  clear pred A Hc.
  intros Hi. pose proof (inv_repr c other Hi) as (rest & Hb & Hs & Hl).
  assert (Hn : szn other = length (elems other)).
  { unfold szn. rewrite Hs. apply to_nat_len. }
  exists (skipn (szn other) (buf other)). unfold left_behind. cbn [buf sz].
  split; [reflexivity|]. split.
  - unfold len. rewrite map_length. exact Hs.
  - rewrite app_length, map_length, <- Hn.
    assert (Hle : (szn other <= length (buf other))%nat).
    { rewrite Hn, Hb, app_length. lia. }
    rewrite skipn_length. lia.
Qed.

Lemma move_construct_src_eq other : inv c other ->
  move_construct_src E other =
  do v <- move_construct other; Ok (v, left_behind other (map (e_mv E) (elems other))).
Proof.
  intros Hi. unfold move_construct_src, move_construct. rewrite move_insert_src_eq.
  assert (Hf : inv c (fresh other)).
  { apply (repr_inv c _ []). apply fresh_repr. apply Hi. }
  rewrite (move_insert_it_eq c Hc ItPtr (fresh other) 0 (elems other) Hf). unfold fresh.
  destruct (move_insert (empty_vec (length (buf other))) 0 (elems other)); reflexivity.
Qed.

Lemma move_assign_src_eq v other : inv c v ->
  move_assign_src E v other =
  do v' <- move_assign v other; Ok (v', left_behind other (map (e_mv E) (elems other))).
Proof.
  intros Hi. unfold move_assign_src, move_assign.
  destruct (clear_ok c v _ Hc (inv_repr c v Hi)) as (v0 & -> & Hr0). cbn [rbind].
  apply repr_inv in Hr0 as (Hi0 & _).
  rewrite move_insert_src_eq, (move_insert_it_eq c Hc ItPtr v0 0 (elems other) Hi0).
  destruct (move_insert v0 0 (elems other)); reflexivity.
Qed.

(** * static_vector *)
Theorem vstep_refines : forall s o, inv c (fst s) -> inv c (snd s) -> forall s1 out,
  vspec_step A E pred (Z.of_nat c) (abs s) o = Some (s1, out) ->
  exists s', vstep A E pred s o = Ok (s', out) /\ abs s' = s1 /\ inv c (fst s') /\ inv c (snd s')
             /\ observe s' = spec_observe (Z.of_nat c) s1.
Proof.
  intros s o Ha Hb s1 out H. destruct o as [o|t|t].
  - exact (wstep_refines A E pred c Hc s o Ha Hb s1 out H).
  - cbn [vspec_step] in H. injection H as <- <-. cbn [vstep].
    rewrite move_assign_src_eq by (apply sel_inv; auto).
    destruct (move_assign_ok c (sel t s) _ (sel (negb t) s) _ Hc (sel_repr c t s Ha Hb) (sel_repr c (negb t) s Ha Hb))
      as (v & -> & Hv). cbn [rbind fst snd].
    pose proof (left_behind_repr (sel (negb t) s) (sel_inv c (negb t) s Ha Hb)) as Hsrc.
    apply repr_inv in Hv as (Hiv & Hev). apply repr_inv in Hsrc as (Hisrc & Hesrc).
    eexists. split; [reflexivity|].
    destruct (upd_inv c t s v Ha Hb Hiv) as (H1 & H2).
    destruct (upd_inv c (negb t) _ _ H1 H2 Hisrc) as (H3 & H4).
    apply fin; auto. rewrite !upd_abs, Hev, Hesrc, sel_abs. reflexivity.
  - cbn [vspec_step] in H. injection H as <- <-. cbn [vstep].
    rewrite move_construct_src_eq by (apply sel_inv; auto).
    destruct (move_construct_ok c (sel t s) _ Hc (sel_repr c t s Ha Hb)) as (c0 & -> & Hc0). cbn [rbind fst snd].
    pose proof (left_behind_repr (sel t s) (sel_inv c t s Ha Hb)) as Hsrc.
    apply repr_inv in Hc0 as (Hi0 & He0). apply repr_inv in Hsrc as (Hisrc & Hesrc).
    assert (Hsz : sz c0 = len (ssel t (abs s))) by (rewrite <- He0; symmetry; apply (elems_len c), Hi0).
    rewrite Hsz, He0. eexists. split; [reflexivity|].
    destruct (upd_inv c t s _ Ha Hb Hisrc) as (H1 & H2).
    apply fin; auto. rewrite upd_abs, Hesrc, sel_abs. reflexivity.
Qed.

Theorem vrun_refines : forall ops s outs, inv c (fst s) -> inv c (snd s) ->
  vspec_run A E pred (Z.of_nat c) (abs s) ops = Some outs ->
  vrun A E pred s ops = map Ok outs.
Proof.
  induction ops as [|o rest IH]; intros s outs Ha Hb H; cbn [vspec_run vrun] in *.
  - injection H as <-. reflexivity.
  - destruct (vspec_step A E pred (Z.of_nat c) (abs s) o) as [[s1 out]|] eqn:Eo; [|discriminate].
    destruct (vspec_run A E pred (Z.of_nat c) s1 rest) as [r|] eqn:Er; [|discriminate].
    injection H as <-.
    destruct (vstep_refines s o Ha Hb s1 out Eo) as (s' & -> & Habs & Ha' & Hb' & Hobs).
    cbn [map]. rewrite Hobs. f_equal. apply IH; auto. rewrite Habs. exact Er.
Qed.

(* a move has no precondition: the spec defines the new operations on every state *)
Lemma vspec_new_defined S o : (forall w, o <> VW w) -> exists s1 out, vspec_step A E pred (Z.of_nat c) S o = Some (s1, out).
Proof. intros Hn. destruct o as [w|t|t]; [exfalso; exact (Hn w eq_refl)| |]; cbn [vspec_step]; eauto. Qed.

Lemma vstep_new_ok s o : inv c (fst s) -> inv c (snd s) -> (forall w, o <> VW w) ->
  exists s' out, vstep A E pred s o = Ok (s', out) /\ inv c (fst s') /\ inv c (snd s').
Proof.
  intros Ha Hb Hn. destruct (vspec_new_defined (abs s) o Hn) as (s1 & out & H).
  destruct (vstep_refines s o Ha Hb s1 out H) as (s' & E0 & _ & Ha' & Hb' & _). eauto.
Qed.

Theorem vstep_no_ub : forall s o, inv c (fst s) -> inv c (snd s) -> vat_arg_ok o ->
  (forall k, vstep A E pred s o <> UB k) /\ vstep A E pred s o <> OutOfFuel.
Proof.
  intros s o Ha Hb Harg. destruct o as [w|t|t].
  - exact (wstep_no_ub A E pred c Hc s w Ha Hb Harg).
  - destruct (vstep_new_ok s (VMoveAssign t) Ha Hb) as (s' & out & -> & _); [discriminate|]. split; intros; discriminate.
  - destruct (vstep_new_ok s (VMoveConstruct t) Ha Hb) as (s' & out & -> & _); [discriminate|]. split; intros; discriminate.
Qed.

Lemma vstep_keeps_inv s o s' out : inv c (fst s) -> inv c (snd s) -> vstep A E pred s o = Ok (s', out) ->
  inv c (fst s') /\ inv c (snd s').
Proof.
  intros Ha Hb H. destruct o as [w|t|t].
  - exact (wstep_keeps_inv A E pred c Hc s w s' out Ha Hb H).
  - destruct (vstep_new_ok s (VMoveAssign t) Ha Hb) as (s2 & out2 & E2 & Hi); [discriminate|].
    rewrite E2 in H. injection H as <- <-. exact Hi.
  - destruct (vstep_new_ok s (VMoveConstruct t) Ha Hb) as (s2 & out2 & E2 & Hi); [discriminate|].
    rewrite E2 in H. injection H as <- <-. exact Hi.
Qed.

Theorem vstep_contract_fires : forall s o, inv c (fst s) -> inv c (snd s) -> vsize_args_ok o ->
  vspec_step A E pred (Z.of_nat c) (abs s) o = None -> vstep A E pred s o = Contract.
Proof.
  intros s o Ha Hb Harg H. destruct o as [w|t|t]; [|discriminate H|discriminate H].
  exact (wstep_contract_fires A E pred c Hc s w Ha Hb Harg H).
Qed.

Theorem vstep_fast_eq : forall s o, inv c (fst s) -> inv c (snd s) -> vstep_fast A E pred s o = vstep A E pred s o.
Proof. intros s o Ha Hb. destruct o; cbn [vstep_fast vstep]; try reflexivity. apply (wstep_fast_eq A E pred c Hc); auto. Qed.

Theorem vrun_fast_eq : forall ops s, inv c (fst s) -> inv c (snd s) -> vrun_fast A E pred s ops = vrun A E pred s ops.
Proof.
  induction ops as [|o rest IH]; intros s Ha Hb; cbn [vrun_fast vrun]; [reflexivity|].
  rewrite vstep_fast_eq by auto.
  destruct (vstep A E pred s o) as [[s' out]| | |] eqn:Eo; try reflexivity.
  destruct (vstep_keeps_inv s o s' out Ha Hb Eo) as (Ha' & Hb'). rewrite IH by auto. reflexivity.
Qed.

(** * stack *)
Theorem st_vstep_refines : forall s o, inv c (fst s) -> inv c (snd s) -> forall s1 out,
  st_vspec_step A E (Z.of_nat c) (st_abs s) o = Some (s1, out) ->
  exists s', st_vstep A E s o = Ok (s', out) /\ st_abs s' = s1 /\ inv c (fst s') /\ inv c (snd s')
             /\ observe s' = st_spec_observe (Z.of_nat c) s1.
Proof.
  intros s o Ha Hb s1 out H. destruct o as [o|t|t|t xs].
  - exact (st_wstep_refines A E c Hc s o Ha Hb s1 out H).
  - cbn [st_vspec_step] in H. injection H as <- <-. cbn [st_vstep].
    rewrite move_assign_src_eq by (apply sel_inv; auto).
    destruct (move_assign_ok c (sel t s) _ (sel (negb t) s) _ Hc (srepr c t s Ha Hb) (srepr c (negb t) s Ha Hb))
      as (v & -> & Hv). cbn [rbind fst snd].
    pose proof (left_behind_repr (sel (negb t) s) (sel_inv c (negb t) s Ha Hb)) as Hsrc.
    apply repr_inv in Hv as (Hiv & Hev). apply repr_inv in Hsrc as (Hisrc & Hesrc).
    eexists. split; [reflexivity|].
    destruct (upd_inv c t s v Ha Hb Hiv) as (H1 & H2).
    destruct (upd_inv c (negb t) _ _ H1 H2 Hisrc) as (H3 & H4).
    apply st_fin; auto. rewrite !st_upd_abs, Hev, Hesrc, st_ssel. unfold moved_from. rewrite map_rev. reflexivity.
  - cbn [st_vspec_step] in H. injection H as <- <-. cbn [st_vstep].
    rewrite move_construct_src_eq by (apply sel_inv; auto).
    destruct (move_construct_ok c (sel t s) _ Hc (srepr c t s Ha Hb)) as (c0 & -> & Hc0). cbn [rbind fst snd].
    pose proof (left_behind_repr (sel t s) (sel_inv c t s Ha Hb)) as Hsrc.
    apply repr_inv in Hc0 as (Hi0 & He0). apply repr_inv in Hsrc as (Hisrc & Hesrc).
    assert (Hsz : sz c0 = len (elems (sel t s))) by (rewrite <- He0; symmetry; apply (elems_len c), Hi0).
    rewrite Hsz, He0, st_ssel, len_rev, rev_involutive. eexists. split; [reflexivity|].
    destruct (upd_inv c t s _ Ha Hb Hisrc) as (H1 & H2).
    apply st_fin; auto. rewrite st_upd_abs, Hesrc. unfold moved_from. rewrite map_rev. reflexivity.
  - cbn [st_vspec_step] in H. apply guard_some in H as (Hpre & E0). injection E0 as <- <-. b2p Hpre. cbn [st_vstep].
    destruct (ctor_range_ok c (sel t s) xs Hc (sel_len c t s Ha Hb) Hpre) as (cont & -> & Hcont). cbn [rbind].
    pose proof (repr_inv _ _ _ Hcont) as (Hicont & Hecont).
    rewrite (move_construct_src_eq cont Hicont).
    destruct (move_construct_ok c cont _ Hc Hcont) as (tmp & -> & Htmp). cbn [rbind fst snd].
    destruct (move_assign_ok c (sel t s) _ tmp _ Hc (srepr c t s Ha Hb) Htmp) as (v & -> & Hv). cbn [rbind].
    pose proof (left_behind_repr cont Hicont) as Hsrc.
    apply repr_inv in Htmp as (Hitmp & Hetmp). apply repr_inv in Hv as (Hiv & Hev).
    apply repr_inv in Hsrc as (Hisrc & Hesrc).
    assert (Hsz : sz tmp = len xs) by (rewrite <- Hetmp; symmetry; apply (elems_len c), Hitmp).
    assert (Hsz2 : sz (left_behind cont (map (e_mv E) (elems cont))) = len xs).
    { unfold left_behind. cbn [sz]. rewrite <- Hecont. symmetry. apply (elems_len c), Hicont. }
    rewrite Hsz, Hsz2, Hesrc, Hecont. eexists. split; [reflexivity|].
    destruct (upd_inv c t s v Ha Hb Hiv) as (H1 & H2).
    apply st_fin; auto. rewrite st_upd_abs, Hev. reflexivity.
Qed.

Theorem st_vrun_refines : forall ops s outs, inv c (fst s) -> inv c (snd s) ->
  st_vspec_run A E (Z.of_nat c) (st_abs s) ops = Some outs ->
  st_vrun A E s ops = map Ok outs.
Proof.
  induction ops as [|o rest IH]; intros s outs Ha Hb H; cbn [st_vspec_run st_vrun] in *.
  - injection H as <-. reflexivity.
  - destruct (st_vspec_step A E (Z.of_nat c) (st_abs s) o) as [[s1 out]|] eqn:Eo; [|discriminate].
    destruct (st_vspec_run A E (Z.of_nat c) s1 rest) as [r|] eqn:Er; [|discriminate].
    injection H as <-.
    destruct (st_vstep_refines s o Ha Hb s1 out Eo) as (s' & -> & Habs & Ha' & Hb' & Hobs).
    cbn [map]. rewrite Hobs. f_equal. apply IH; auto. rewrite Habs. exact Er.
Qed.

Theorem st_vstep_contract_fires : forall s o, inv c (fst s) -> inv c (snd s) ->
  st_vspec_step A E (Z.of_nat c) (st_abs s) o = None -> st_vstep A E s o = Contract.
Proof.
  intros s o Ha Hb H. destruct o as [o|t|t|t xs]; [|discriminate H|discriminate H|].
  - exact (st_wstep_contract_fires A E c s o Ha Hb H).
  - cbn [st_vspec_step] in H. unfold guard in H. destruct (len xs <=? Z.of_nat c) eqn:Eg; [discriminate|]. b2p Eg.
    cbn [st_vstep]. rewrite (ctor_range_contract c); [reflexivity|apply (sel_len c t s Ha Hb)|lia].
Qed.

(** * inplace_vector *)
Variable I : ivt.

Lemma iv_vstep_plain s o : iv_vstep A I s o = iv_wstep A s (iv_vplain I o).
Proof. destruct o as [o|t|t]; cbn [iv_vstep iv_vplain]; [reflexivity| |]; destruct I as [mc ma]; cbn [ivt_mc ivt_ma].
  - destruct ma; reflexivity.
  - destruct mc; reflexivity.
Qed.
Lemma iv_vspec_plain cz S o : iv_vspec_step A cz I S o = iv_wspec_step A cz S (iv_vplain I o).
Proof. destruct o as [o|t|t]; cbn [iv_vspec_step iv_vplain]; [reflexivity| |]; destruct I as [mc ma]; cbn [ivt_mc ivt_ma].
  - destruct ma; reflexivity.
  - destruct mc; reflexivity.
Qed.
Lemma iv_vplain_at_arg_ok o : iv_vat_arg_ok o -> iv_wat_arg_ok (iv_vplain I o).
Proof.
  destruct o as [o|t|t]; cbn [iv_vat_arg_ok iv_vplain]; auto; intros _; destruct (ivt_ma I), (ivt_mc I);
    cbn [iv_wat_arg_ok iv_xat_arg_ok]; exact Logic.I.
Qed.
Lemma iv_vplain_size_args_ok o : iv_vsize_args_ok o -> iv_wsize_args_ok (iv_vplain I o).
Proof.
  destruct o as [o|t|t]; cbn [iv_vsize_args_ok iv_vplain]; auto; intros _; destruct (ivt_ma I), (ivt_mc I);
    cbn [iv_wsize_args_ok iv_xsize_args_ok]; exact Logic.I.
Qed.

Theorem iv_vstep_refines : forall s o, inv c (fst s) -> inv c (snd s) -> forall s1 out,
  iv_vspec_step A (Z.of_nat c) I (abs s) o = Some (s1, out) ->
  exists s', iv_vstep A I s o = Ok (s', out) /\ abs s' = s1 /\ inv c (fst s') /\ inv c (snd s')
             /\ observe s' = spec_observe (Z.of_nat c) s1.
Proof.
  intros s o Ha Hb s1 out H. rewrite iv_vspec_plain in H. rewrite iv_vstep_plain.
  exact (iv_wstep_refines A c Hc s (iv_vplain I o) Ha Hb s1 out H).
Qed.

Theorem iv_vrun_refines : forall ops s outs, inv c (fst s) -> inv c (snd s) ->
  iv_vspec_run A (Z.of_nat c) I (abs s) ops = Some outs ->
  iv_vrun A I s ops = map Ok outs.
Proof.
  induction ops as [|o rest IH]; intros s outs Ha Hb H; cbn [iv_vspec_run iv_vrun] in *.
  - injection H as <-. reflexivity.
  - destruct (iv_vspec_step A (Z.of_nat c) I (abs s) o) as [[s1 out]|] eqn:Eo; [|discriminate].
    destruct (iv_vspec_run A (Z.of_nat c) I s1 rest) as [r|] eqn:Er; [|discriminate].
    injection H as <-.
    destruct (iv_vstep_refines s o Ha Hb s1 out Eo) as (s' & -> & Habs & Ha' & Hb' & Hobs).
    cbn [map]. rewrite Hobs. f_equal. apply IH; auto. rewrite Habs. exact Er.
Qed.

Theorem iv_vstep_no_ub : forall s o, inv c (fst s) -> inv c (snd s) -> iv_vat_arg_ok o ->
  (forall k, iv_vstep A I s o <> UB k) /\ iv_vstep A I s o <> OutOfFuel.
Proof.
  intros s o Ha Hb Harg. rewrite iv_vstep_plain.
  exact (iv_wstep_no_ub A c Hc s (iv_vplain I o) Ha Hb (iv_vplain_at_arg_ok o Harg)).
Qed.

Lemma iv_vstep_keeps_inv s o s' out : inv c (fst s) -> inv c (snd s) -> iv_vstep A I s o = Ok (s', out) ->
  inv c (fst s') /\ inv c (snd s').
Proof.
  intros Ha Hb H. rewrite iv_vstep_plain in H. exact (iv_wstep_keeps_inv A c Hc s (iv_vplain I o) s' out Ha Hb H).
Qed.

Theorem iv_vstep_contract_fires : forall s o, inv c (fst s) -> inv c (snd s) -> iv_vsize_args_ok o ->
  iv_vspec_step A (Z.of_nat c) I (abs s) o = None -> iv_vstep A I s o = Contract.
Proof.
  intros s o Ha Hb Harg H. rewrite iv_vspec_plain in H. rewrite iv_vstep_plain.
  exact (iv_wstep_contract_fires A c Hc s (iv_vplain I o) Ha Hb (iv_vplain_size_args_ok o Harg) H).
Qed.

Theorem iv_vstep_fast_eq : forall s o, inv c (fst s) -> inv c (snd s) -> iv_vstep_fast A I s o = iv_vstep A I s o.
Proof. intros s o Ha Hb. destruct o; cbn [iv_vstep_fast iv_vstep]; try reflexivity. apply (iv_wstep_fast_eq A c Hc); auto. Qed.

Theorem iv_vrun_fast_eq : forall ops s, inv c (fst s) -> inv c (snd s) -> iv_vrun_fast A I s ops = iv_vrun A I s ops.
Proof.
  induction ops as [|o rest IH]; intros s Ha Hb; cbn [iv_vrun_fast iv_vrun]; [reflexivity|].
  rewrite iv_vstep_fast_eq by auto.
  destruct (iv_vstep A I s o) as [[s' out]| | |] eqn:Eo; try reflexivity.
  destruct (iv_vstep_keeps_inv s o s' out Ha Hb Eo) as (Ha' & Hb'). rewrite IH by auto. reflexivity.
Qed.

(** * the moved-from source of the user-provided inplace_vector members is EMPTY, for both members alike *)
Theorem iv_moved_from_empty : ivt_mc I = false -> ivt_ma I = false -> forall s t, inv c (fst s) -> inv c (snd s) ->
  (exists s' out, iv_vstep A I s (IvVMoveAssign t) = Ok (s', out) /\ elems (sel (negb t) s') = []
                  /\ elems (sel t s') = elems (sel (negb t) s)) /\
  (exists s' out, iv_vstep A I s (IvVMoveConstruct t) = Ok (s', out) /\ elems (sel t s') = []
                  /\ out = sz (sel t s) :: elems (sel t s)).
Proof.
  intros Hmc Hma s t Ha Hb. split.
  - assert (Hs : iv_vspec_step A (Z.of_nat c) I (abs s) (IvVMoveAssign t)
                 = Some (supd (negb t) (supd t (abs s) (ssel (negb t) (abs s))) [], [])).
    { cbn [iv_vspec_step]. rewrite Hma. reflexivity. }
    destruct (iv_vstep_refines s (IvVMoveAssign t) Ha Hb _ _ Hs) as (s' & E0 & Habs & _).
    exists s'. eexists. split; [exact E0|].
    rewrite !sel_abs, Habs. destruct t; cbn [negb ssel supd fst snd]; split; reflexivity.
  - assert (Hs : iv_vspec_step A (Z.of_nat c) I (abs s) (IvVMoveConstruct t)
                 = Some (supd t (abs s) [], len (ssel t (abs s)) :: ssel t (abs s))).
    { cbn [iv_vspec_step]. rewrite Hmc. reflexivity. }
    destruct (iv_vstep_refines s (IvVMoveConstruct t) Ha Hb _ _ Hs) as (s' & E0 & Habs & _).
    exists s'. eexists. split; [exact E0|].
    rewrite !sel_abs, Habs. split; [destruct t; reflexivity|].
    rewrite <- sel_abs, (elems_len c) by (apply sel_inv; auto). reflexivity.
Qed.
End V.
