(* C01 model, fifth part (Model.v, ModelExt.v, ModelIt.v and ModelEl.v stay as they are).
   Until here every call handed the container a value of the ELEMENT type, made from one int.  Two things the headers do
   with their ARGUMENTS were therefore outside the model:

     etl::erase(static_vector<T, N>& c, U const& value)      U is a template parameter of its own: the value need not have
         return erase_if(c, [&value](auto const& item) { return item == value; });
                                                             the element's type.  The lambda takes the element AS IT IS
                                                             (auto const&) and compares  item == value  with the language's
                                                             == on the operand types (T, U): for arithmetic types the usual
                                                             arithmetic conversions.  Converting the element to U first
                                                             (lambda parameter U const&) is a different function as soon as
                                                             T -> U loses information (double -> int, int -> unsigned char,
                                                             long long -> int).
     etl::erase_if(c, pred)                                  pred is called with the element; a predicate whose PARAMETER has
                                                             another type converts the element itself - there the conversion
                                                             is the caller's.
     emplace_back(args...) / emplace(pos, args...) / stack::emplace(args...) /
     try_emplace_back(args...) / unchecked_emplace_back(args...)
                                                             construct the element as  T(args...)  - direct
                                                             non-list-initialization (new (end()) T(forward<Args>(args)...),
                                                             slot = T(args...), value_type a(args...), construct_at) -, which
                                                             for a type with an initializer_list constructor is NOT
                                                             T{args...}:  std::vector<int>(2, 7) = {7, 7},
                                                             std::vector<int>{2, 7} = {2, 7}.

   The types enter as a parameter, like the element type in ModelEl.v:

     argt = { a_heq : Z -> Z -> Z -> bool;   a_heq k item x:  item == value  where value is the number x held in the value
                                             type number k (the language's heterogeneous ==, NO assumption made)
              a_conv : Z -> Z -> Z;          a_conv k item: the element converted to value type k (what a predicate with a
                                             parameter of that type receives)
              a_ctor2 : Z -> Z -> Z }        a_ctor2 a b: the element T(a, b) (parentheses)

   Conventions as in the other model files. *)
From Tetl Require Import Lib.Base Lib.Arr C06a.Model C06a.Instances C01.Model C01.ModelExt C01.ModelIt C01.ModelEl.
From Coq Require Import Arith.
Local Open Scope Z_scope.

Record argt := { a_heq : Z -> Z -> Z -> bool; a_conv : Z -> Z -> Z; a_ctor2 : Z -> Z -> Z }.

Section Arg.
Variable A : argt.
Variable E : elt.

(** * static_vector *)
Inductive wop :=
| WZ (o : zop)                                   (* every operation of ModelEl.zop, observed as there *)
| WEraseValHet (t : bool) (k x : Z)              (* etl::erase(v_t, U(x)),  U = value type number k *)
| WEraseIfHet (t : bool) (k pid : Z)             (* etl::erase_if(v_t, [](U e) { return pred_pid(e); }) *)
| WEmplaceBack2 (t : bool) (a b : Z)             (* auto& r = v_t.emplace_back(a, b): offset of r, value read through r *)
| WEmplaceAt2 (t : bool) (pos a b : Z).          (* v_t.emplace(begin() + pos, a, b) *)

Section WStep.
Variable pred_of : Z -> Z -> bool.

Definition wstep (s : vec * vec) (o : wop) : res ((vec * vec) * list Z) :=
  let mut t r out := do v <- r; Ok (upd t s v, out) in
  match o with
  | WZ o => zstep E pred_of s o
  (* the lambda of erase: [&value](auto const& item) { return item == value; } *)
  | WEraseValHet t k x => do r <- erase_if (fun item => a_heq A k item x) (sel t s); Ok (upd t s (fst r), [snd r])
  (* the caller's predicate takes a U: the element is converted when it is passed *)
  | WEraseIfHet t k pid =>
      do r <- erase_if (fun item => pred_of pid (a_conv A k item)) (sel t s); Ok (upd t s (fst r), [snd r])
  (* new (end()) T(a, b)  /  slot = T(a, b) *)
  | WEmplaceBack2 t a b => do r <- emplace_back_ref (sel t s) (a_ctor2 A a b); Ok (upd t s (fst r), snd r)
  (* value_type tmp(a, b); move_insert(position, &tmp, &tmp + 1) *)
  | WEmplaceAt2 t pos a b => mut t (emplace_at (sel t s) pos (a_ctor2 A a b)) [pos]
  end.

Fixpoint wrun (s : vec * vec) (ops : list wop) : list (res (list Z * list Z)) :=
  match ops with
  | [] => []
  | o :: rest =>
      match wstep s o with
      | Ok (s', out) => Ok (out, observe s') :: wrun s' rest
      | Contract => [Contract]
      | UB k => [UB k]
      | OutOfFuel => [OutOfFuel]
      end
  end.

(* what the driver runs: ModelEl.zstep_fast inside WZ, everything else as above *)
Definition wstep_fast (s : vec * vec) (o : wop) : res ((vec * vec) * list Z) :=
  match o with
  | WZ o => zstep_fast E pred_of s o
  | _ => wstep s o
  end.

Fixpoint wrun_fast (s : vec * vec) (ops : list wop) : list (res (list Z * list Z)) :=
  match ops with
  | [] => []
  | o :: rest =>
      match wstep_fast s o with
      | Ok (s', out) => Ok (out, observe s') :: wrun_fast s' rest
      | Contract => [Contract]
      | UB k => [UB k]
      | OutOfFuel => [OutOfFuel]
      end
  end.
End WStep.

(** * stack:  decltype(auto) r = s.emplace(a, b)  =  c.emplace_back(a, b) *)
Inductive st_wop :=
| StW (o : st_zop)
| StWEmplace2 (t : bool) (a b : Z).

Definition st_wstep (s : vec * vec) (o : st_wop) : res ((vec * vec) * list Z) :=
  match o with
  | StW o => st_zstep E s o
  | StWEmplace2 t a b => do r <- emplace_back_ref (sel t s) (a_ctor2 A a b); Ok (upd t s (fst r), snd r)
  end.

Fixpoint st_wrun (s : vec * vec) (ops : list st_wop) : list (res (list Z * list Z)) :=
  match ops with
  | [] => []
  | o :: rest =>
      match st_wstep s o with
      | Ok (s', out) => Ok (out, observe s') :: st_wrun s' rest
      | Contract => [Contract]
      | UB k => [UB k]
      | OutOfFuel => [OutOfFuel]
      end
  end.

(** * inplace_vector:  try_emplace_back(a, b)  /  unchecked_emplace_back(a, b)  (construct_at(end(), a, b) = T(a, b)) *)
Inductive iv_wop :=
| IvW (o : iv_xop)
| IvWTryEmplace2 (t : bool) (a b : Z)
| IvWUncheckedEmplace2 (t : bool) (a b : Z).

Definition iv_wstep (s : vec * vec) (o : iv_wop) : res ((vec * vec) * list Z) :=
  match o with
  | IvW o => iv_xstep s o
  | IvWTryEmplace2 t a b => do r <- iv_try_push_back (sel t s) (a_ctor2 A a b); Ok (upd t s (fst r), [b2z (snd r)])
  | IvWUncheckedEmplace2 t a b => do v <- iv_unchecked_push_back (sel t s) (a_ctor2 A a b); Ok (upd t s v, [])
  end.

Fixpoint iv_wrun (s : vec * vec) (ops : list iv_wop) : list (res (list Z * list Z)) :=
  match ops with
  | [] => []
  | o :: rest =>
      match iv_wstep s o with
      | Ok (s', out) => Ok (out, observe s') :: iv_wrun s' rest
      | Contract => [Contract]
      | UB k => [UB k]
      | OutOfFuel => [OutOfFuel]
      end
  end.

Definition iv_wstep_fast (s : vec * vec) (o : iv_wop) : res ((vec * vec) * list Z) :=
  match o with
  | IvW o => iv_xstep_fast s o
  | _ => iv_wstep s o
  end.

Fixpoint iv_wrun_fast (s : vec * vec) (ops : list iv_wop) : list (res (list Z * list Z)) :=
  match ops with
  | [] => []
  | o :: rest =>
      match iv_wstep_fast s o with
      | Ok (s', out) => Ok (out, observe s') :: iv_wrun_fast s' rest
      | Contract => [Contract]
      | UB k => [UB k]
      | OutOfFuel => [OutOfFuel]
      end
  end.
End Arg.

(** * the instances the correspondence run uses

   Arithmetic types of the LP64 target:  y_float = a binary64 double, otherwise an integer type of y_bits bits.
   A double is held as the number of QUARTERS it stands for (every double used is a multiple of 1/4 of magnitude
   < 2^50, so conversions to and from the integer types of at most 32 bits used with it are exact but for the truncation
   towards zero of double -> integer). *)
Record sty := { y_float : bool; y_bits : Z; y_signed : bool }.
Definition ty_int : sty := {| y_float := false; y_bits := 32; y_signed := true |}.
Definition ty_ll : sty := {| y_float := false; y_bits := 64; y_signed := true |}.
Definition ty_double : sty := {| y_float := true; y_bits := 64; y_signed := true |}.

(* value types by number (harness.cpp with_value): 0 is "the element type itself" and is resolved by the flavour *)
Definition vty_of (self : sty) (k : Z) : sty :=
  if k =? 1 then {| y_float := false; y_bits := 8; y_signed := false |}        (* unsigned char *)
  else if k =? 2 then {| y_float := false; y_bits := 8; y_signed := true |}    (* signed char *)
  else if k =? 3 then {| y_float := false; y_bits := 16; y_signed := true |}   (* short *)
  else if k =? 4 then {| y_float := false; y_bits := 32; y_signed := false |}  (* unsigned int *)
  else if k =? 5 then ty_ll                                                    (* long long *)
  else if k =? 6 then ty_double                                                (* double *)
  else if k =? 7 then ty_int                                                   (* int *)
  else if k =? 8 then {| y_float := false; y_bits := 64; y_signed := false |}  (* unsigned long long *)
  else if k =? 9 then {| y_float := false; y_bits := 16; y_signed := false |}  (* unsigned short *)
  else self.

(* [conv.integral]: the value modulo 2^bits *)
Definition to_ity (y : sty) (x : Z) : Z := if y_signed y then wraps (y_bits y) x else wrapu (y_bits y) x.
(* [conv.prom]: everything narrower than int becomes int *)
Definition promote (y : sty) : sty := if y_bits y <? 32 then ty_int else y.
(* [expr.arith.conv] for two promoted integer types: same signedness -> the wider one; otherwise the unsigned one unless
   the signed one is wider (then it can hold every value of the unsigned one) *)
Definition common_ity (a b : sty) : sty :=
  let a := promote a in
  let b := promote b in
  if Bool.eqb (y_signed a) (y_signed b) then (if y_bits a <? y_bits b then b else a)
  else
    let s := if y_signed a then a else b in
    let u := if y_signed a then b else a in
    if y_bits u <? y_bits s then s else u.

(* [expr.eq]  item == value  for an item of type T and a value of type U (both given as the numbers they hold) *)
Definition cxx_eq (T U : sty) (item value : Z) : bool :=
  if y_float T then (if y_float U then item =? value else item =? 4 * value)
  else if y_float U then 4 * item =? value
  else let C := common_ity T U in to_ity C item =? to_ity C value.

(* [conv] an object of type T converted to U: double -> integer truncates towards zero ([conv.fpint]) *)
Definition cxx_conv (T U : sty) (item : Z) : Z :=
  if y_float T then (if y_float U then item else to_ity U (Z.quot item 4))
  else if y_float U then 4 * item
  else to_ity U item.

(* element codes: an element of a harness flavour is written as an int code;  dec = the number the element holds *)
Definition dec_id (v : Z) : Z := v.
(* long long flavour: code 16 * h + l (0 <= l < 16) stands for h * 2^32 + l, so that elements differ beyond bit 31 *)
Definition dec_ll (v : Z) : Z := (v / 16) * 2 ^ 32 + v mod 16.

(* std::vector<int> as element type: code 0 = {}, code v = {v}; a vector of n >= 2 elements is read back as
   1000 * n + front + 7 * back.   T(a, b) = a copies of b *)
Definition vi_paren (a b : Z) : Z := if a <=? 0 then 0 else if a =? 1 then b else 1000 * a + 8 * b.
(* T{a, b} = the two elements a, b: what list-initialization would give (NOT what the members construct) *)
Definition vi_brace (a b : Z) : Z := 2000 + a + 7 * b.
(* the record types Il* of the harness:  T(a, b) holds 1000 * a + b,  T{a, b} (initializer_list) holds -4000 - (a + b) *)
Definition il_paren (a b : Z) : Z := 1000 * a + b.
Definition il_brace (a b : Z) : Z := -4000 - (a + b).

Definition arg_of (T : sty) (dec : Z -> Z) (ctor2 : Z -> Z -> Z) : argt :=
  {| a_heq := fun k item x => cxx_eq T (vty_of T k) (dec item) x;
     a_conv := fun k item => cxx_conv T (vty_of T k) (dec item);
     a_ctor2 := ctor2 |}.
Definition no_ctor2 (a b : Z) : Z := 0.
Definition arg_int : argt := arg_of ty_int dec_id no_ctor2.
Definition arg_ll : argt := arg_of ty_ll dec_ll no_ctor2.
Definition arg_dbl : argt := arg_of ty_double dec_id no_ctor2.
Definition arg_vi : argt := arg_of ty_int dec_id vi_paren.
Definition arg_il : argt := arg_of ty_int dec_id il_paren.

(* the same operation expressed with the operations of ModelEl.v: the constructed element / the comparison become the
   argument / the predicate table of an older operation (used by the proofs, not by the model) *)
Definition wplain (A : argt) (o : wop) : zop :=
  match o with
  | WZ o => o
  | WEraseValHet t k x => ZY (XBase (Base (EraseIf t 0)))
  | WEraseIfHet t k pid => ZY (XBase (Base (EraseIf t pid)))
  | WEmplaceBack2 t a b => ZY (EmplaceBackRef t (a_ctor2 A a b))
  | WEmplaceAt2 t pos a b => ZY (XBase (Base (EmplaceAt t pos (a_ctor2 A a b))))
  end.
Definition wpred (A : argt) (pred_of : Z -> Z -> bool) (o : wop) : Z -> Z -> bool :=
  match o with
  | WEraseValHet t k x => fun _ item => a_heq A k item x
  | WEraseIfHet t k pid => fun p item => pred_of p (a_conv A k item)
  | _ => pred_of
  end.
Definition st_wplain (A : argt) (o : st_wop) : st_zop :=
  match o with
  | StW o => o
  | StWEmplace2 t a b => StZ (StEmplaceRef t (a_ctor2 A a b))
  end.
Definition iv_wplain (A : argt) (o : iv_wop) : iv_xop :=
  match o with
  | IvW o => o
  | IvWTryEmplace2 t a b => IvTryEmplace t (a_ctor2 A a b)
  | IvWUncheckedEmplace2 t a b => IvUncheckedEmplace t (a_ctor2 A a b)
  end.
